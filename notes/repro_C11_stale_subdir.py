import tempfile, os, datetime as dt
from typhon.files import FileSet
from typhon.files.handlers.common import FileHandler
def rd(fi, **k): return open(fi.path).read()
def wr(data, fi, **k): open(fi.path,"w").write(data)
d = tempfile.mkdtemp()
src = FileSet(os.path.join(d,"src","{year}","{month}","x_{day}.txt"), handler=FileHandler(reader=rd, writer=wr))
for day in (1,2,3):
    src[dt.datetime(2018,1,day)] = f"c{day}"
print("src", len(list(src.find("2018-01-01","2018-01-05"))))
dst = src.move(os.path.join(d,"flat","{year}{month}{day}.txt"), worker_type="thread")
print(sorted(os.listdir(os.path.join(d,"flat"))))
print("dst._sub_dir", repr(dst._sub_dir), dst._sub_dir_chunks)
try:
    print("dst find", [f.path for f in dst.find("2018-01-01","2018-01-05")])
except Exception as e: print("ERR", type(e), e)
fresh = FileSet(os.path.join(d,"flat","{year}{month}{day}.txt"))
print("fresh find", len(list(fresh.find("2018-01-01","2018-01-05"))))
