"""Stand-alone witness (no verification harness): skip_file_errors + bundle='primary' + output fileset.
P0 has no collocation, P1 has one point collocating with a point of S1 and a point of S2, S0 is unreadable."""
import datetime as dt, logging, os, pickle, shutil, tempfile
import numpy as np, xarray as xr
from typhon.files import FileSet, FileHandler
from typhon.collocations import Collocator, Collocations
logging.disable(logging.CRITICAL)
T = ("{year}{month}{day}_{hour}{minute}{second}{millisecond}-"
     "{end_year}{end_month}{end_day}_{end_hour}{end_minute}{end_second}{end_millisecond}.pkl")
def reader(fi, **kw):
    d = pickle.load(open(fi.path, "rb"))
    if d is None:
        raise IOError("unreadable")
    if isinstance(d, xr.Dataset):
        return d
    ids, t, lat, lon = d
    return xr.Dataset({"time": ("obs", np.array(t, dtype="M8[ns]")), "lat": ("obs", np.array(lat, float)),
                       "lon": ("obs", np.array(lon, float)), "id": ("obs", np.array(ids))}, coords={"obs": np.array(ids)})
def writer(data, fi, **kw):
    pickle.dump(data.load() if isinstance(data, xr.Dataset) else data, open(fi.path, "wb"))
root = tempfile.mkdtemp()
try:
    h = FileHandler(reader=reader, writer=writer)
    mk = lambda n: (os.makedirs(os.path.join(root, n)), FileSet(os.path.join(root, n, T), name=n, handler=h))[1]
    P, S, O = mk("P"), mk("S"), None
    t0 = dt.datetime(2018, 1, 1)
    s = lambda x: t0 + dt.timedelta(seconds=x)
    def put(fs, lo, hi, data):
        writer(data, type("F", (), {"path": fs.get_filename((s(lo), s(hi)))})())
    put(P, 0, 60, ([1], [s(30)], [50.0], [50.0]))            # P0: far away, no collocation
    put(P, 61, 120, ([2], [s(90)], [0.0], [0.0]))            # P1: point 2 at 00:01:30
    put(S, 0, 30, None)                                      # S0: unreadable
    put(S, 31, 80, ([10], [s(70)], [0.1], [0.0]))            # S1: point 10, 20 s before point 2
    put(S, 81, 120, ([11], [s(100)], [0.0], [0.1]))          # S2: point 11, 10 s after point 2
    for bundle, output in ((None, None), ("primary", None), ("primary", "fileset")):
        out = None
        if output:
            os.makedirs(os.path.join(root, "O"), exist_ok=True)
            out = Collocations(os.path.join(root, "O", T), name="O", handler=h, read_mode="compact")
        res = list(Collocator().collocate_filesets([P, S], start=s(-10), end=s(200), processes=1, bundle=bundle,
                   output=out, skip_file_errors=True, max_interval=60, max_distance=100))
        def pairs(ds):
            p = ds["Collocations/pairs"].values
            return list(zip(ds["P/id"].values[p[0]].tolist(), ds["S/id"].values[p[1]].tolist()))
        if out is None:
            print(bundle, output, "->", [pairs(ds) for ds, _ in res])
        else:
            print(bundle, output, "-> yielded", [os.path.basename(r) for r in res])
            print("   files:", {os.path.basename(f.path): pairs(out.read(f)) for f in out.find(s(-100), s(1000))})
finally:
    shutil.rmtree(root)
