# C20-07: _get_data_path no longer creates the cache directory.  C20: "a tile is downloaded only if it is not
# already in the cache directory", for "warm or cold tile cache" - the coldest cache is a directory that does
# not exist yet (TYPHON_DATA_PATH/topography on first use).  The network is replaced by an in-memory zip.
import io, os, sys, shutil, tempfile, zipfile, urllib.request
root = tempfile.mkdtemp(prefix="mutdemo_"); os.environ["TYPHON_DATA_PATH"] = root      # .../topography does not exist
try:
    from typhon.topography import SRTM30
    blob = io.BytesIO()
    with zipfile.ZipFile(blob, "w", zipfile.ZIP_DEFLATED) as z:
        z.writestr("E020N40.DEM", b"\x00\x07" * (6000 * 4800))
    urllib.request.urlopen = lambda url: io.BytesIO(blob.getvalue())
    try:
        tile = SRTM30.get_tile("E020N40"); print("tile", tile.shape, tile[0, 0])
        sys.exit(0 if tile.shape == (6000, 4800) and tile[0, 0] == 7 else 1)
    except OSError as e:
        print("cold cache:", type(e).__name__, e); sys.exit(1)
finally:
    shutil.rmtree(root)
