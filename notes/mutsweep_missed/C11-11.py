# C11-11: _retrieve_time_coverage moves an end written with fewer fields BACK by one day (`-=` for `+=`).
# Data stored with fileset[s:e] = data must be "found again under exactly that period" (C11).  exit 1 = violated.
import os, sys, shutil, tempfile
from datetime import datetime
from typhon.files import FileSet, FileHandler
d = tempfile.mkdtemp(prefix="mutdemo_")
try:
    h = FileHandler(reader=lambda fi, **kw: open(fi.path).read(), writer=lambda data, fi, **kw: open(fi.path, "w").write(data))
    fs = FileSet(os.path.join(d, "{year}{month}{day}_{hour}{minute}-{end_hour}{end_minute}.txt"), handler=h)
    s, e = datetime(2020, 1, 1, 23, 0), datetime(2020, 1, 2, 1, 0)          # the period crosses midnight
    fs[s:e] = "payload"
    found = list(fs.find(s, e, no_files_error=False))
    print("stored", (s, e), "found", [tuple(f.times) for f in found])
    sys.exit(0 if len(found) == 1 and list(found[0].times) == [s, e] and fs.read(found[0]) == "payload" else 1)
finally:
    shutil.rmtree(d)
