# C04-12: _build_spatial_index calls _spatial_is_cached(lon, lat): a reused Collocator answers from the index of
# an EARLIER call whose latitudes are the new longitudes and vice versa.  exit 1 = property C04 violated
# ("the same ... for a reused Collocator with any history of earlier calls"), exit 0 = fine.
import sys, numpy as np, xarray as xr
from typhon.collocations import Collocator
def ds(lat, lon):
    n = len(lat); t = np.datetime64("2020-01-01T00:00:00") + np.zeros(n, dtype="timedelta64[s]")
    return xr.Dataset({"time": ("c", t), "lat": ("c", np.array(lat, float)), "lon": ("c", np.array(lon, float))}, coords={"c": np.arange(n)})
A, B = [10., 20., 30.], [50., 60., 70.]
npairs = lambda r: 0 if r is None else r["Collocations/pairs"].shape[1]
fresh = npairs(Collocator().collocate(ds(B, A), ds([50.], [10.]), max_distance="10 km"))
c = Collocator(); c.collocate(ds(A, B), ds([10.], [50.]), max_distance="10 km")     # history: lat/lon exchanged
reused = npairs(c.collocate(ds(B, A), ds([50.], [10.]), max_distance="10 km"))
print("fresh Collocator:", fresh, "pair(s); reused Collocator:", reused, "pair(s)")
sys.exit(0 if fresh == reused == 1 else 1)
