# s1-C16-06: the `path` property returns the template as given (not made absolute) for local file systems.
# A fileset whose template is written RELATIVE to the working directory then finds nothing (the file system
# lists absolute paths, the regex is relative).  C16: find_closest(t) / fileset[t] "returns a file whose coverage
# contains t whenever such a file exists"; C01: find() yields every overlapping file.  exit 1 = violated.
import os, sys, shutil, tempfile
from datetime import datetime
from typhon.files import FileSet
d = tempfile.mkdtemp(prefix="mutdemo_"); os.chdir(d)
try:
    os.makedirs("data/2020"); open("data/2020/0105_1200.txt", "w").close()
    fs = FileSet("data/{year}/{month}{day}_{hour}{minute}.txt", time_coverage="1h")
    t = datetime(2020, 1, 5, 12, 30)
    found = [os.path.relpath(f.path, d) for f in fs.find("2020-01-01", "2020-02-01", no_files_error=False)]
    closest = fs.find_closest(t)
    print("find:", found, " find_closest:", closest and os.path.relpath(closest.path, d))
    sys.exit(0 if found == ["data/2020/0105_1200.txt"] and closest is not None and closest.times[0] == datetime(2020, 1, 5, 12) else 1)
finally:
    os.chdir("/"); shutil.rmtree(d)
