# s1-C11-05: FileSet.write loses the `else: self.handler.write(...)` branch, i.e. a fileset constructed with
# compress=False writes nothing at all.  C11: "Data stored with fileset[s:e] = data (or write()) is found again
# under exactly that period and reads back equal".  exit 1 = violated.
import os, sys, shutil, tempfile
from datetime import datetime
from typhon.files import FileSet, FileHandler
d = tempfile.mkdtemp(prefix="mutdemo_")
try:
    h = FileHandler(reader=lambda fi, **kw: open(fi.path).read(), writer=lambda data, fi, **kw: open(fi.path, "w").write(data))
    fs = FileSet(os.path.join(d, "{year}{month}{day}_{hour}{minute}-{end_hour}{end_minute}.txt"), handler=h, compress=False)
    s, e = datetime(2020, 1, 1, 10, 0), datetime(2020, 1, 1, 11, 0)
    fs[s:e] = "payload"
    found = list(fs.find(s, e, no_files_error=False))
    print("stored", (s, e), "found", [tuple(f.times) for f in found])
    sys.exit(0 if len(found) == 1 and list(found[0].times) == [s, e] and fs.read(found[0]) == "payload" else 1)
finally:
    shutil.rmtree(d)
