# C15-06: get_info aliases the FileInfo when it hands the decompressed copy to the handler: for COMPRESSED files
# with info_via='both'/'handler' the cached/returned path is the (deleted) temporary file.  C15: "find() gives
# the same answers with or without the cache" - here they differ (and point to files that do not exist).
import atexit, gzip, os, sys, shutil, tempfile
from datetime import datetime, timedelta
from typhon.files import FileSet, FileHandler
from typhon.files.handlers.common import FileInfo
d = tempfile.mkdtemp(prefix="mutdemo_")
try:
    pattern = os.path.join(d, "{year}{month}{day}_{hour}.dat.gz"); cache = os.path.join(d, "cache.json")
    info = lambda fi, **kw: FileInfo(fi.path, [None, None], {"size": os.path.getsize(fi.path)})
    mk = lambda c: FileSet(pattern, handler=FileHandler(info=info), info_via="both", info_cache=c, time_coverage="1h")
    for h in (3, 4):
        with gzip.open(mk(None).get_filename(datetime(2020, 1, 1, h)), "wb") as f: f.write(b"x" * h)
    ask = lambda fs: [i.path for i in fs.find(datetime(2020, 1, 1), datetime(2020, 1, 2))]
    plain = ask(mk(None)); fs = mk(cache); ask(fs); fs.save_cache(cache); restarted = ask(mk(cache))
    atexit.unregister(FileSet.save_cache)
    print("without cache:", plain, "\nafter restart:", restarted)
    sys.exit(0 if plain == restarted and all(os.path.exists(p) for p in plain) else 1)
finally:
    shutil.rmtree(d)
