# s1-C15-08 (found under C15, owned by C01): FileSet.__init__ no longer registers the file NAMES of its
# exclude= argument.  C01: "Files excluded by name ... are omitted".  exit 1 = the excluded file is returned.
import os, sys, shutil, tempfile
from datetime import datetime
from typhon.files import FileSet
d = tempfile.mkdtemp(prefix="mutdemo_")
try:
    tmpl = os.path.join(d, "{year}{month}{day}_{hour}.txt")
    names = [FileSet(tmpl).get_filename(datetime(2020, 1, 1, h)) for h in (3, 4, 5)]
    for n in names: open(n, "w").close()
    fs = FileSet(tmpl, exclude=[names[1]])
    found = [os.path.basename(f.path) for f in fs.find("2020-01-01", "2020-01-02")]
    print("excluded", os.path.basename(names[1]), "found", found)
    sys.exit(0 if found == ["20200101_03.txt", "20200101_05.txt"] else 1)
finally:
    shutil.rmtree(d)
