# C20-10: _get_data_path tests `not 'XDG_CACHE_HOME' in environ`: in an environment that sets neither
# TYPHON_DATA_PATH nor XDG_CACHE_HOME (the default on most machines) every tile request raises KeyError, so
# SRTM30.elevation / get_tile return nothing for any rectangle.  The network is replaced by an in-memory zip.
import io, os, sys, shutil, tempfile, zipfile, urllib.request
cwd = tempfile.mkdtemp(prefix="mutdemo_"); os.chdir(cwd); os.environ["HOME"] = cwd
os.environ.pop("TYPHON_DATA_PATH", None); os.environ.pop("XDG_CACHE_HOME", None)
try:
    from typhon.topography import SRTM30
    blob = io.BytesIO()
    with zipfile.ZipFile(blob, "w", zipfile.ZIP_DEFLATED) as z:
        z.writestr("E020N40.DEM", b"\x00\x07" * (6000 * 4800))
    urllib.request.urlopen = lambda url: io.BytesIO(blob.getvalue())
    try:
        tile = SRTM30.get_tile("E020N40"); print("tile", tile.shape, tile[0, 0])
        sys.exit(0 if tile.shape == (6000, 4800) and tile[0, 0] == 7 else 1)
    except KeyError as e:
        print("default environment: KeyError", e); sys.exit(1)
finally:
    os.chdir("/"); shutil.rmtree(cwd)
