# s1-C08-12: snell() takes the real-index formula when ANY (instead of all) element of n2 is real: in an array n2
# that mixes real and complex refractive indices the complex elements are then treated as real(n2).
# C08: "snell() satisfies n1 sin(theta1) = n2 sin(theta2) (NaN beyond total reflection)", "real or complex n2".
# The element-wise answers of the same function are the reference.  exit 1 = array answer differs.
import sys, numpy as np
from typhon.physics.em import snell
n2 = np.array([1.5 + 0j, 0.2 + 3j, 2.0 + 0.5j])
for theta in (30.0, 60.0, 90.0):
    got = np.asarray(snell(1.0, n2, theta), float)
    want = np.array([float(snell(1.0, complex(v) if v.imag else float(v.real), theta)) for v in n2])
    print(theta, got, want)
    if not np.allclose(got, want, rtol=1e-12, atol=0, equal_nan=True):
        sys.exit(1)
sys.exit(0)
