import Mathlib.LinearAlgebra.Matrix.PosDef
import Mathlib.Tactic

/-!
# Matrix lemmas behind C17 (optimal estimation)

Pure Mathlib `Matrix` facts over `ℝ`, independent of the generated model:
`P = Kᵀ Sy⁻¹ K` is positive semidefinite, the information matrix `M = P + Sa⁻¹` and the
measurement-space matrix `W = K Sa Kᵀ + Sy` are positive definite for ANY `K`, the push-through
identity `M⁻¹ Kᵀ Sy⁻¹ = Sa Kᵀ W⁻¹`, `M⁻¹ P = 1 − M⁻¹ Sa⁻¹`, and `Sa − M⁻¹ = (K Sa)ᵀ W⁻¹ (K Sa)`.
-/

open Matrix

namespace Oem

variable {m n : ℕ}

theorem PosDef.det_isUnit {k : ℕ} {A : Matrix (Fin k) (Fin k) ℝ} (h : A.PosDef) : IsUnit A.det :=
  (Matrix.isUnit_iff_isUnit_det A).mp h.isUnit

theorem PosDef.isSymm {k : ℕ} {A : Matrix (Fin k) (Fin k) ℝ} (h : A.PosDef) : Aᵀ = A := by
  have := h.isHermitian
  rwa [IsHermitian, conjTranspose_eq_transpose_of_trivial] at this

theorem PosSemidef.isSymm {k : ℕ} {A : Matrix (Fin k) (Fin k) ℝ} (h : A.PosSemidef) : Aᵀ = A := by
  have := h.isHermitian
  rwa [IsHermitian, conjTranspose_eq_transpose_of_trivial] at this

/-- `Kᵀ Sy⁻¹ K` is positive semidefinite for every `K` (zero and rank-deficient included). -/
theorem psd_P (K : Matrix (Fin m) (Fin n) ℝ) {Sy : Matrix (Fin m) (Fin m) ℝ} (hy : Sy.PosDef) :
    (Kᵀ * Sy⁻¹ * K).PosSemidef := by
  have := hy.inv.posSemidef.conjTranspose_mul_mul_same K
  rwa [conjTranspose_eq_transpose_of_trivial] at this

/-- `K Sa Kᵀ` is positive semidefinite for every `K`. -/
theorem psd_KSaKt (K : Matrix (Fin m) (Fin n) ℝ) {Sa : Matrix (Fin n) (Fin n) ℝ} (ha : Sa.PosDef) :
    (K * Sa * Kᵀ).PosSemidef := by
  have := ha.posSemidef.mul_mul_conjTranspose_same K
  rwa [conjTranspose_eq_transpose_of_trivial] at this

/-- the information matrix `Kᵀ Sy⁻¹ K + Sa⁻¹` is positive definite for every `K` -/
theorem posDef_M (K : Matrix (Fin m) (Fin n) ℝ) {Sa : Matrix (Fin n) (Fin n) ℝ}
    {Sy : Matrix (Fin m) (Fin m) ℝ} (ha : Sa.PosDef) (hy : Sy.PosDef) :
    (Kᵀ * Sy⁻¹ * K + Sa⁻¹).PosDef :=
  Matrix.PosDef.posSemidef_add (psd_P K hy) ha.inv

/-- the measurement-space matrix `K Sa Kᵀ + Sy` is positive definite for every `K` -/
theorem posDef_W (K : Matrix (Fin m) (Fin n) ℝ) {Sa : Matrix (Fin n) (Fin n) ℝ}
    {Sy : Matrix (Fin m) (Fin m) ℝ} (ha : Sa.PosDef) (hy : Sy.PosDef) :
    (K * Sa * Kᵀ + Sy).PosDef :=
  Matrix.PosDef.posSemidef_add (psd_KSaKt K ha) hy

/-- `M (Sa Kᵀ) = Kᵀ Sy⁻¹ W` — the heart of the push-through identity -/
theorem M_mul_SaKt (K : Matrix (Fin m) (Fin n) ℝ) {Sa : Matrix (Fin n) (Fin n) ℝ}
    {Sy : Matrix (Fin m) (Fin m) ℝ} (ha : Sa.PosDef) (hy : Sy.PosDef) :
    (Kᵀ * Sy⁻¹ * K + Sa⁻¹) * (Sa * Kᵀ) = Kᵀ * Sy⁻¹ * (K * Sa * Kᵀ + Sy) := by
  have h1 : Sa⁻¹ * Sa = 1 := Matrix.nonsing_inv_mul Sa (PosDef.det_isUnit ha)
  have h2 : Sy⁻¹ * Sy = 1 := Matrix.nonsing_inv_mul Sy (PosDef.det_isUnit hy)
  rw [Matrix.add_mul, Matrix.mul_add, ← Matrix.mul_assoc Sa⁻¹, h1, Matrix.one_mul,
    Matrix.mul_assoc Kᵀ Sy⁻¹ Sy, h2, Matrix.mul_one]
  simp only [Matrix.mul_assoc]

/-- push-through identity `M⁻¹ Kᵀ Sy⁻¹ = Sa Kᵀ W⁻¹` -/
theorem push_through (K : Matrix (Fin m) (Fin n) ℝ) {Sa : Matrix (Fin n) (Fin n) ℝ}
    {Sy : Matrix (Fin m) (Fin m) ℝ} (ha : Sa.PosDef) (hy : Sy.PosDef) :
    (Kᵀ * Sy⁻¹ * K + Sa⁻¹)⁻¹ * Kᵀ * Sy⁻¹ = Sa * Kᵀ * (K * Sa * Kᵀ + Sy)⁻¹ := by
  have hM := PosDef.det_isUnit (posDef_M K ha hy)
  have hW := PosDef.det_isUnit (posDef_W K ha hy)
  set M := Kᵀ * Sy⁻¹ * K + Sa⁻¹ with hMdef
  set W := K * Sa * Kᵀ + Sy with hWdef
  have key : M * (Sa * Kᵀ) = Kᵀ * Sy⁻¹ * W := M_mul_SaKt K ha hy
  calc M⁻¹ * Kᵀ * Sy⁻¹ = M⁻¹ * (Kᵀ * Sy⁻¹ * W) * W⁻¹ := by
        rw [Matrix.mul_assoc M⁻¹ (Kᵀ * Sy⁻¹ * W), Matrix.mul_assoc (Kᵀ * Sy⁻¹) W,
          Matrix.mul_nonsing_inv W hW, Matrix.mul_one, Matrix.mul_assoc]
    _ = M⁻¹ * (M * (Sa * Kᵀ)) * W⁻¹ := by rw [key]
    _ = Sa * Kᵀ * W⁻¹ := by
        rw [← Matrix.mul_assoc M⁻¹ M, Matrix.nonsing_inv_mul M hM, Matrix.one_mul]

/-- `M⁻¹ P = 1 − M⁻¹ Sa⁻¹` -/
theorem Minv_mul_P (K : Matrix (Fin m) (Fin n) ℝ) {Sa : Matrix (Fin n) (Fin n) ℝ}
    {Sy : Matrix (Fin m) (Fin m) ℝ} (ha : Sa.PosDef) (hy : Sy.PosDef) :
    (Kᵀ * Sy⁻¹ * K + Sa⁻¹)⁻¹ * (Kᵀ * Sy⁻¹ * K) = 1 - (Kᵀ * Sy⁻¹ * K + Sa⁻¹)⁻¹ * Sa⁻¹ := by
  have hM := PosDef.det_isUnit (posDef_M K ha hy)
  set M := Kᵀ * Sy⁻¹ * K + Sa⁻¹ with hMdef
  have hP : Kᵀ * Sy⁻¹ * K = M - Sa⁻¹ := by rw [hMdef]; abel
  rw [hP, Matrix.mul_sub, Matrix.nonsing_inv_mul M hM]

/-- `Sa − M⁻¹ = (K Sa)ᵀ W⁻¹ (K Sa)` -/
theorem Sa_sub_Minv (K : Matrix (Fin m) (Fin n) ℝ) {Sa : Matrix (Fin n) (Fin n) ℝ}
    {Sy : Matrix (Fin m) (Fin m) ℝ} (ha : Sa.PosDef) (hy : Sy.PosDef) :
    Sa - (Kᵀ * Sy⁻¹ * K + Sa⁻¹)⁻¹ = (K * Sa)ᵀ * (K * Sa * Kᵀ + Sy)⁻¹ * (K * Sa) := by
  have hSa := PosDef.det_isUnit ha
  have h1 := Minv_mul_P K ha hy
  have h2 := push_through K ha hy
  set M := Kᵀ * Sy⁻¹ * K + Sa⁻¹ with hMdef
  set W := K * Sa * Kᵀ + Sy with hWdef
  -- M⁻¹ Sa⁻¹ = 1 − M⁻¹ P = 1 − Sa Kᵀ W⁻¹ K
  have h3 : M⁻¹ * Sa⁻¹ = 1 - Sa * Kᵀ * W⁻¹ * K := by
    have : M⁻¹ * (Kᵀ * Sy⁻¹ * K) = Sa * Kᵀ * W⁻¹ * K := by
      rw [← h2]; simp only [Matrix.mul_assoc]
    rw [this] at h1
    rw [h1]; abel
  have h4 : M⁻¹ = (1 - Sa * Kᵀ * W⁻¹ * K) * Sa := by
    rw [← h3, Matrix.mul_assoc, Matrix.nonsing_inv_mul Sa hSa, Matrix.mul_one]
  rw [h4, Matrix.sub_mul, Matrix.one_mul, sub_sub_cancel, Matrix.transpose_mul, PosDef.isSymm ha]
  simp only [Matrix.mul_assoc]

end Oem
