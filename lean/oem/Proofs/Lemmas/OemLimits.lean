import Proofs.Lemmas.Oem
import Mathlib.Topology.Instances.Matrix
import Mathlib.Topology.Algebra.Order.Field
import Mathlib.Topology.Algebra.GroupWithZero
import Mathlib.Analysis.Normed.Field.Basic
import Mathlib.Algebra.Order.Star.Real

/-!
# Limits of the averaging kernel

* vanishing measurement noise (`Sy ↦ ε Sy`, `ε → 0⁺`) with `K` of full column rank: `A → 1`;
* vanishing prior variance (`Sa ↦ ε Sa`, `ε → 0⁺`), any `K`: `A → 0`.

Both rest on continuity of the matrix inverse at an invertible matrix
(`continuousAt_matrix_inv`).
-/

open Matrix Filter Topology

namespace Oem

variable {m n : ℕ}

theorem continuousAt_inv_of_isUnit_det {k : ℕ} (B : Matrix (Fin k) (Fin k) ℝ) (h : IsUnit B.det) :
    ContinuousAt (Inv.inv : Matrix (Fin k) (Fin k) ℝ → Matrix (Fin k) (Fin k) ℝ) B := by
  apply continuousAt_matrix_inv
  rw [Ring.inverse_eq_inv']
  exact continuousAt_inv₀ h.ne_zero

theorem inv_smul_ne_zero {k : ℕ} (A : Matrix (Fin k) (Fin k) ℝ) (hA : IsUnit A.det) {ε : ℝ}
    (hε : ε ≠ 0) : (ε • A)⁻¹ = ε⁻¹ • A⁻¹ := by
  apply Matrix.inv_eq_right_inv
  rw [Matrix.smul_mul, Matrix.mul_smul, smul_smul, mul_inv_cancel₀ hε, one_smul,
    Matrix.mul_nonsing_inv A hA]

theorem continuousAt_matrix_mul {X : Type*} [TopologicalSpace X] {a b c : ℕ}
    {A : X → Matrix (Fin a) (Fin b) ℝ} {B : X → Matrix (Fin b) (Fin c) ℝ} {x : X}
    (hA : ContinuousAt A x) (hB : ContinuousAt B x) : ContinuousAt (fun t => A t * B t) x := by
  have h : Continuous (fun p : Matrix (Fin a) (Fin b) ℝ × Matrix (Fin b) (Fin c) ℝ => p.1 * p.2) :=
    continuous_fst.matrix_mul continuous_snd
  exact (h.tendsto (A x, B x)).comp (hA.prodMk hB)

/-- `ε ↦ (B + ε • C)⁻¹` is continuous at `0` when `B` is invertible -/
theorem continuousAt_inv_add_smul {k : ℕ} (B C : Matrix (Fin k) (Fin k) ℝ) (h : IsUnit B.det) :
    ContinuousAt (fun ε : ℝ => (B + ε • C)⁻¹) 0 := by
  have hf : ContinuousAt (fun ε : ℝ => B + ε • C) 0 :=
    (continuous_const.add (continuous_id.smul continuous_const)).continuousAt
  have hB : (fun ε : ℝ => B + ε • C) 0 = B := by simp
  have hinv := continuousAt_inv_of_isUnit_det B h
  rw [← hB] at hinv
  exact ContinuousAt.comp (g := Inv.inv) (f := fun ε : ℝ => B + ε • C) hinv hf

/-- full column rank makes `Kᵀ Sy⁻¹ K` positive definite -/
theorem posDef_P_of_injective (K : Matrix (Fin m) (Fin n) ℝ) {Sy : Matrix (Fin m) (Fin m) ℝ}
    (hy : Sy.PosDef) (hK : Function.Injective K.mulVec) : (Kᵀ * Sy⁻¹ * K).PosDef := by
  have := hy.inv.conjTranspose_mul_mul_same hK
  rwa [conjTranspose_eq_transpose_of_trivial] at this

/-- for `ε > 0`: the averaging kernel with noise covariance `ε Sy` -/
theorem A_noise_scaled (K : Matrix (Fin m) (Fin n) ℝ) {Sa : Matrix (Fin n) (Fin n) ℝ}
    {Sy : Matrix (Fin m) (Fin m) ℝ} (ha : Sa.PosDef) (hy : Sy.PosDef)
    (hK : Function.Injective K.mulVec) {ε : ℝ} (hε : 0 < ε) :
    (Kᵀ * (ε • Sy)⁻¹ * K + Sa⁻¹)⁻¹ * Kᵀ * (ε • Sy)⁻¹ * K
      = 1 - (ε • (Kᵀ * Sy⁻¹ * K + ε • Sa⁻¹)⁻¹) * Sa⁻¹ := by
  have hyε : (ε • Sy).PosDef := hy.smul hε
  have h1 := Minv_mul_P K ha hyε
  have hinv : (ε • Sy)⁻¹ = ε⁻¹ • Sy⁻¹ := inv_smul_ne_zero Sy (PosDef.det_isUnit hy) hε.ne'
  have hM : Kᵀ * (ε • Sy)⁻¹ * K + Sa⁻¹ = ε⁻¹ • (Kᵀ * Sy⁻¹ * K + ε • Sa⁻¹) := by
    rw [hinv, Matrix.mul_smul, Matrix.smul_mul, smul_add, smul_smul, inv_mul_cancel₀ hε.ne', one_smul]
  have hB : (Kᵀ * Sy⁻¹ * K + ε • Sa⁻¹).PosDef :=
    Matrix.PosDef.add_posSemidef (posDef_P_of_injective K hy hK) (ha.inv.posSemidef.smul hε.le)
  have hMinv : (Kᵀ * (ε • Sy)⁻¹ * K + Sa⁻¹)⁻¹ = ε • (Kᵀ * Sy⁻¹ * K + ε • Sa⁻¹)⁻¹ := by
    rw [hM, inv_smul_ne_zero _ (PosDef.det_isUnit hB) (inv_ne_zero hε.ne'), inv_inv]
  calc (Kᵀ * (ε • Sy)⁻¹ * K + Sa⁻¹)⁻¹ * Kᵀ * (ε • Sy)⁻¹ * K
      = (Kᵀ * (ε • Sy)⁻¹ * K + Sa⁻¹)⁻¹ * (Kᵀ * (ε • Sy)⁻¹ * K) := by simp only [Matrix.mul_assoc]
    _ = 1 - (Kᵀ * (ε • Sy)⁻¹ * K + Sa⁻¹)⁻¹ * Sa⁻¹ := h1
    _ = 1 - (ε • (Kᵀ * Sy⁻¹ * K + ε • Sa⁻¹)⁻¹) * Sa⁻¹ := by rw [hMinv]

/-- vanishing noise, full column rank: `A → 1` -/
theorem tendsto_A_noise_zero (K : Matrix (Fin m) (Fin n) ℝ) {Sa : Matrix (Fin n) (Fin n) ℝ}
    {Sy : Matrix (Fin m) (Fin m) ℝ} (ha : Sa.PosDef) (hy : Sy.PosDef)
    (hK : Function.Injective K.mulVec) :
    Tendsto (fun ε : ℝ => (Kᵀ * (ε • Sy)⁻¹ * K + Sa⁻¹)⁻¹ * Kᵀ * (ε • Sy)⁻¹ * K)
      (𝓝[>] 0) (𝓝 1) := by
  have hP := PosDef.det_isUnit (posDef_P_of_injective K hy hK)
  have hc : ContinuousAt (fun ε : ℝ => 1 - (ε • (Kᵀ * Sy⁻¹ * K + ε • Sa⁻¹)⁻¹) * Sa⁻¹) 0 := by
    have h1 := continuousAt_inv_add_smul (Kᵀ * Sy⁻¹ * K) Sa⁻¹ hP
    have h2 : ContinuousAt (fun ε : ℝ => ε • (Kᵀ * Sy⁻¹ * K + ε • Sa⁻¹)⁻¹) 0 :=
      continuousAt_id.smul h1
    exact continuousAt_const.sub (h2.mul continuousAt_const)
  have hlim : Tendsto (fun ε : ℝ => 1 - (ε • (Kᵀ * Sy⁻¹ * K + ε • Sa⁻¹)⁻¹) * Sa⁻¹) (𝓝[>] 0)
      (𝓝 1) := by
    have := hc.tendsto
    simp only [zero_smul, Matrix.zero_mul, sub_zero] at this
    exact tendsto_nhdsWithin_of_tendsto_nhds this
  refine hlim.congr' ?_
  filter_upwards [self_mem_nhdsWithin] with ε hε
  exact (A_noise_scaled K ha hy hK hε).symm

/-- vanishing prior variance, any `K`: `A → 0` -/
theorem tendsto_A_prior_zero (K : Matrix (Fin m) (Fin n) ℝ) {Sa : Matrix (Fin n) (Fin n) ℝ}
    {Sy : Matrix (Fin m) (Fin m) ℝ} (ha : Sa.PosDef) (hy : Sy.PosDef) :
    Tendsto (fun ε : ℝ => (Kᵀ * Sy⁻¹ * K + (ε • Sa)⁻¹)⁻¹ * Kᵀ * Sy⁻¹ * K)
      (𝓝[>] 0) (𝓝 0) := by
  have hSy := PosDef.det_isUnit hy
  have hc : ContinuousAt (fun ε : ℝ => (ε • (Sa * Kᵀ)) * (Sy + ε • (K * Sa * Kᵀ))⁻¹ * K) 0 := by
    have h1 := continuousAt_inv_add_smul Sy (K * Sa * Kᵀ) hSy
    have h2 : ContinuousAt (fun ε : ℝ => ε • (Sa * Kᵀ)) 0 := continuousAt_id.smul continuousAt_const
    exact continuousAt_matrix_mul (continuousAt_matrix_mul h2 h1) continuousAt_const
  have hlim : Tendsto (fun ε : ℝ => (ε • (Sa * Kᵀ)) * (Sy + ε • (K * Sa * Kᵀ))⁻¹ * K) (𝓝[>] 0)
      (𝓝 0) := by
    have := hc.tendsto
    simp only [zero_smul, Matrix.zero_mul] at this
    exact tendsto_nhdsWithin_of_tendsto_nhds this
  refine hlim.congr' ?_
  filter_upwards [self_mem_nhdsWithin] with ε hε
  have hε' : (0 : ℝ) < ε := hε
  have haε : (ε • Sa).PosDef := ha.smul hε'
  rw [push_through K haε hy]
  congr 2
  · rw [Matrix.smul_mul]
  · rw [add_comm, Matrix.mul_smul, Matrix.smul_mul]

end Oem
