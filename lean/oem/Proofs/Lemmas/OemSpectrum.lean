import Proofs.Lemmas.Oem
import Mathlib.Data.Complex.Basic
import Mathlib.Data.Complex.BigOperators

/-!
# Spectrum of the averaging kernel `A = M⁻¹ P`  (`P = Kᵀ Sy⁻¹ K`, `M = P + Sa⁻¹`)

Every complex eigenvalue of the real matrix `A` is real and lies in `[0, 1)`.
The proof is elementary (no spectral theorem): for an eigenpair `(α + iβ, a + ib)` one has
`P a = M (α a − β b)`, `P b = M (β a + α b)`; pairing with `a`, `b` and using the symmetry of `P`
and `M` gives `β (aᵀMa + bᵀMb) = 0` and `aᵀPa + bᵀPb = α (aᵀMa + bᵀMb)`, where
`aᵀMa + bᵀMb = (aᵀPa + bᵀPb) + (aᵀSa⁻¹a + bᵀSa⁻¹b)` with the first bracket `≥ 0` and the
second `> 0`.
-/

open Matrix

namespace Oem

variable {m n : ℕ}

theorem dot_mulVec_symm {k : ℕ} {M : Matrix (Fin k) (Fin k) ℝ} (hM : Mᵀ = M) (u w : Fin k → ℝ) :
    u ⬝ᵥ (M *ᵥ w) = w ⬝ᵥ (M *ᵥ u) := by
  rw [Matrix.dotProduct_mulVec, ← Matrix.mulVec_transpose, hM, dotProduct_comm]

theorem psd_quad_nonneg {k : ℕ} {M : Matrix (Fin k) (Fin k) ℝ} (hM : M.PosSemidef) (u : Fin k → ℝ) :
    0 ≤ u ⬝ᵥ (M *ᵥ u) := by
  have := hM.dotProduct_mulVec_nonneg u
  rwa [star_trivial] at this

theorem pd_quad_pos {k : ℕ} {M : Matrix (Fin k) (Fin k) ℝ} (hM : M.PosDef) {u : Fin k → ℝ}
    (hu : u ≠ 0) : 0 < u ⬝ᵥ (M *ᵥ u) := by
  have := hM.dotProduct_mulVec_pos hu
  rwa [star_trivial] at this

/-- eigenvalues of `A`, in real form: `A (a + i b) = (α + i β)(a + i b)` with `a + i b ≠ 0`
forces `β = 0` and `0 ≤ α < 1`. -/
theorem eig_real_form (K : Matrix (Fin m) (Fin n) ℝ) {Sa : Matrix (Fin n) (Fin n) ℝ}
    {Sy : Matrix (Fin m) (Fin m) ℝ} (ha : Sa.PosDef) (hy : Sy.PosDef)
    (a b : Fin n → ℝ) (α β : ℝ) (hab : a ≠ 0 ∨ b ≠ 0)
    (h1 : ((Kᵀ * Sy⁻¹ * K + Sa⁻¹)⁻¹ * Kᵀ * Sy⁻¹ * K) *ᵥ a = α • a - β • b)
    (h2 : ((Kᵀ * Sy⁻¹ * K + Sa⁻¹)⁻¹ * Kᵀ * Sy⁻¹ * K) *ᵥ b = β • a + α • b) :
    β = 0 ∧ 0 ≤ α ∧ α < 1 := by
  have hPpsd := psd_P K hy
  have hMpd := posDef_M K ha hy
  have hMu := PosDef.det_isUnit hMpd
  have hQpd := ha.inv
  set P := Kᵀ * Sy⁻¹ * K with hP
  set Q := Sa⁻¹ with hQ
  set M := P + Q with hM
  have hA : M⁻¹ * Kᵀ * Sy⁻¹ * K = M⁻¹ * P := by rw [hP]; simp only [Matrix.mul_assoc]
  rw [hA] at h1 h2
  have hPsym : Pᵀ = P := PosSemidef.isSymm hPpsd
  have hMsym : Mᵀ = M := PosDef.isSymm hMpd
  -- P v = M (A v)
  have hPv : ∀ v, P *ᵥ v = M *ᵥ ((M⁻¹ * P) *ᵥ v) := fun v => by
    rw [Matrix.mulVec_mulVec, ← Matrix.mul_assoc, Matrix.mul_nonsing_inv M hMu, Matrix.one_mul]
  have e1 : P *ᵥ a = α • (M *ᵥ a) - β • (M *ᵥ b) := by
    rw [hPv a, h1, Matrix.mulVec_sub, Matrix.mulVec_smul, Matrix.mulVec_smul]
  have e2 : P *ᵥ b = β • (M *ᵥ a) + α • (M *ᵥ b) := by
    rw [hPv b, h2, Matrix.mulVec_add, Matrix.mulVec_smul, Matrix.mulVec_smul]
  -- scalar consequences
  have paa : a ⬝ᵥ (P *ᵥ a) = α * (a ⬝ᵥ (M *ᵥ a)) - β * (a ⬝ᵥ (M *ᵥ b)) := by
    rw [e1, dotProduct_sub, dotProduct_smul, dotProduct_smul, smul_eq_mul, smul_eq_mul]
  have pba : b ⬝ᵥ (P *ᵥ a) = α * (b ⬝ᵥ (M *ᵥ a)) - β * (b ⬝ᵥ (M *ᵥ b)) := by
    rw [e1, dotProduct_sub, dotProduct_smul, dotProduct_smul, smul_eq_mul, smul_eq_mul]
  have pab : a ⬝ᵥ (P *ᵥ b) = β * (a ⬝ᵥ (M *ᵥ a)) + α * (a ⬝ᵥ (M *ᵥ b)) := by
    rw [e2, dotProduct_add, dotProduct_smul, dotProduct_smul, smul_eq_mul, smul_eq_mul]
  have pbb : b ⬝ᵥ (P *ᵥ b) = β * (b ⬝ᵥ (M *ᵥ a)) + α * (b ⬝ᵥ (M *ᵥ b)) := by
    rw [e2, dotProduct_add, dotProduct_smul, dotProduct_smul, smul_eq_mul, smul_eq_mul]
  have sP : b ⬝ᵥ (P *ᵥ a) = a ⬝ᵥ (P *ᵥ b) := dot_mulVec_symm hPsym b a
  have sM : b ⬝ᵥ (M *ᵥ a) = a ⬝ᵥ (M *ᵥ b) := dot_mulVec_symm hMsym b a
  have maa : a ⬝ᵥ (M *ᵥ a) = a ⬝ᵥ (P *ᵥ a) + a ⬝ᵥ (Q *ᵥ a) := by
    rw [hM, Matrix.add_mulVec, dotProduct_add]
  have mbb : b ⬝ᵥ (M *ᵥ b) = b ⬝ᵥ (P *ᵥ b) + b ⬝ᵥ (Q *ᵥ b) := by
    rw [hM, Matrix.add_mulVec, dotProduct_add]
  have p1 := psd_quad_nonneg hPpsd a
  have p2 := psd_quad_nonneg hPpsd b
  have q1 := psd_quad_nonneg hQpd.posSemidef a
  have q2 := psd_quad_nonneg hQpd.posSemidef b
  have qpos : 0 < a ⬝ᵥ (Q *ᵥ a) + b ⬝ᵥ (Q *ᵥ b) := by
    rcases hab with h | h
    · have := pd_quad_pos hQpd h; linarith
    · have := pd_quad_pos hQpd h; linarith
  -- abbreviations
  generalize a ⬝ᵥ (P *ᵥ a) = xpaa at *
  generalize b ⬝ᵥ (P *ᵥ b) = xpbb at *
  generalize a ⬝ᵥ (P *ᵥ b) = xpab at *
  generalize b ⬝ᵥ (P *ᵥ a) = xpba at *
  generalize a ⬝ᵥ (M *ᵥ a) = xmaa at *
  generalize b ⬝ᵥ (M *ᵥ b) = xmbb at *
  generalize a ⬝ᵥ (M *ᵥ b) = xmab at *
  generalize b ⬝ᵥ (M *ᵥ a) = xmba at *
  generalize a ⬝ᵥ (Q *ᵥ a) = xqaa at *
  generalize b ⬝ᵥ (Q *ᵥ b) = xqbb at *
  subst sM sP
  have mpos : 0 < xmaa + xmbb := by linarith
  have hβ0 : β * (xmaa + xmbb) = 0 := by linarith
  have hβ : β = 0 := by
    rcases mul_eq_zero.mp hβ0 with h | h
    · exact h
    · linarith
  subst hβ
  have hsum : xpaa + xpbb = α * (xmaa + xmbb) := by linarith
  refine ⟨rfl, ?_, ?_⟩
  · by_contra hneg
    push Not at hneg
    have : α * (xmaa + xmbb) < 0 := mul_neg_of_neg_of_pos hneg mpos
    linarith
  · by_contra hge
    push Not at hge
    have : xmaa + xmbb ≤ α * (xmaa + xmbb) := le_mul_of_one_le_left mpos.le hge
    linarith

/-- The same over `ℂ`: every eigenvalue `μ` (with eigenvector `z ≠ 0`) of the real matrix `A`,
viewed as a complex matrix, is real and lies in `[0, 1)`. -/
theorem eig_complex (K : Matrix (Fin m) (Fin n) ℝ) {Sa : Matrix (Fin n) (Fin n) ℝ}
    {Sy : Matrix (Fin m) (Fin m) ℝ} (ha : Sa.PosDef) (hy : Sy.PosDef)
    (μ : ℂ) (z : Fin n → ℂ) (hz : z ≠ 0)
    (h : (((Kᵀ * Sy⁻¹ * K + Sa⁻¹)⁻¹ * Kᵀ * Sy⁻¹ * K).map Complex.ofReal) *ᵥ z = μ • z) :
    μ.im = 0 ∧ 0 ≤ μ.re ∧ μ.re < 1 := by
  set A := (Kᵀ * Sy⁻¹ * K + Sa⁻¹)⁻¹ * Kᵀ * Sy⁻¹ * K with hA
  have hab : (fun i => (z i).re) ≠ 0 ∨ (fun i => (z i).im) ≠ 0 := by
    by_contra hcon
    push Not at hcon
    apply hz
    funext i
    apply Complex.ext
    · simpa using congrFun hcon.1 i
    · simpa using congrFun hcon.2 i
  have hre : A *ᵥ (fun i => (z i).re) = μ.re • (fun i => (z i).re) - μ.im • (fun i => (z i).im) := by
    funext i
    have := congrArg Complex.re (congrFun h i)
    simpa [Matrix.mulVec, dotProduct, Complex.mul_re] using this
  have him : A *ᵥ (fun i => (z i).im) = μ.im • (fun i => (z i).re) + μ.re • (fun i => (z i).im) := by
    funext i
    have := congrArg Complex.im (congrFun h i)
    simp only [Matrix.mulVec, dotProduct, Matrix.map_apply, Complex.im_sum, Complex.mul_im,
      Complex.ofReal_re, Complex.ofReal_im, zero_mul, add_zero, Pi.smul_apply, smul_eq_mul] at this
    simp only [Matrix.mulVec, dotProduct, Pi.add_apply, Pi.smul_apply, smul_eq_mul]
    linarith
  exact eig_real_form K ha hy _ _ μ.re μ.im hab hre him

end Oem
