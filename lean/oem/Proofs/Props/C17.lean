import GenReal.Oem
import Proofs.Lemmas.Oem
import Proofs.Lemmas.OemSpectrum
import Proofs.Lemmas.OemLimits
import Proofs.Audit
import Mathlib.LinearAlgebra.Matrix.PosDef
import Mathlib.Tactic

/-!
# C17 — optimal-estimation matrices satisfy their defining identities

Theorems about `TM.*`, the Mathlib-`Matrix` reading of `typhon/retrieval/oem/common.py` and
`error.py` that `tools/py2lean/gen_oem.py` regenerates from /repo on every run.

`K : Matrix (Fin m) (Fin n) ℝ` Jacobian (`m` measurements, `n` state elements; ANY `K`, zero and
rank-deficient included, `m < n`, `m = n`, `m > n`), `Sa`, `Sy` positive definite covariances.
`⁻¹` is Mathlib's `Matrix.inv` (nonsingular inverse); every use below is on a matrix proved
positive definite, hence invertible (`IsUnit det`), so no theorem rests on the junk value
`A⁻¹ = 0` of a singular `A` — where `scipy.linalg.inv` raises.
-/

open Matrix TM Filter Topology

variable {m n : ℕ}

-- the normal-form tactic is deliberately redundant on the present source (it exists for rewrites)
set_option linter.unusedTactic false
set_option linter.unreachableTactic false
set_option linter.unnecessarySeqFocus false
set_option linter.unusedSimpArgs false

/-! ## Normal forms

One lemma per translated function states the regenerated definition in a fixed form, proved by
unfolding and reassociation/commutation only — harmless rewrites of the Python source (`A + B` for
`B + A`, a local variable, `K.T @ (inv(S_y) @ K)` for `(K.T @ inv(S_y)) @ K`, `np.linalg.inv` for
`scipy.linalg.inv`) do not disturb the theorems below, which use only these normal forms.  They
also pin the Lean printer of the translator to explicit Mathlib notation. -/

/-- closes `generated = normal form` after unfolding: reassociate products, commute sums -/
macro "oem_nf" : tactic =>
  `(tactic| first
    | rfl
    | (simp only [Matrix.mul_assoc, Matrix.transpose_transpose]; done)
    | (simp only [Matrix.mul_assoc, Matrix.transpose_transpose, add_comm]; done)
    | (simp only [Matrix.mul_assoc, Matrix.transpose_transpose, Matrix.mul_add, Matrix.add_mul,
        Matrix.mul_sub, Matrix.sub_mul, Matrix.mulVec_mulVec, Matrix.mulVec_sub, Matrix.mulVec_add,
        Matrix.sub_mulVec, Matrix.add_mulVec]; abel_nf))

private theorem nf_S (K : Matrix (Fin m) (Fin n) ℝ) (Sa : Matrix (Fin n) (Fin n) ℝ)
    (Sy : Matrix (Fin m) (Fin m) ℝ) :
    error_covariance_matrix K Sa Sy = (Kᵀ * Sy⁻¹ * K + Sa⁻¹)⁻¹ := by
  simp only [error_covariance_matrix] <;> oem_nf

private theorem nf_G (K : Matrix (Fin m) (Fin n) ℝ) (Sa : Matrix (Fin n) (Fin n) ℝ)
    (Sy : Matrix (Fin m) (Fin m) ℝ) :
    retrieval_gain_matrix K Sa Sy = (Kᵀ * Sy⁻¹ * K + Sa⁻¹)⁻¹ * Kᵀ * Sy⁻¹ := by
  simp only [retrieval_gain_matrix, nf_S] <;> oem_nf

private theorem nf_A (K : Matrix (Fin m) (Fin n) ℝ) (Sa : Matrix (Fin n) (Fin n) ℝ)
    (Sy : Matrix (Fin m) (Fin m) ℝ) :
    averaging_kernel_matrix K Sa Sy = (Kᵀ * Sy⁻¹ * K + Sa⁻¹)⁻¹ * Kᵀ * Sy⁻¹ * K := by
  simp only [averaging_kernel_matrix, nf_G, nf_S] <;> oem_nf

private theorem nf_smooth (x xa : Fin n → ℝ) (A : Matrix (Fin n) (Fin n) ℝ) :
    smoothing_error x xa A = A *ᵥ (x - xa) := by
  simp only [smoothing_error] <;> oem_nf

private theorem nf_noise (K : Matrix (Fin m) (Fin n) ℝ) (Sa : Matrix (Fin n) (Fin n) ℝ)
    (Sy : Matrix (Fin m) (Fin m) ℝ) (e : Fin m → ℝ) :
    retrieval_noise K Sa Sy e = ((Kᵀ * Sy⁻¹ * K + Sa⁻¹)⁻¹ * Kᵀ * Sy⁻¹) *ᵥ e := by
  simp only [retrieval_noise, nf_G, nf_S] <;> oem_nf

/-! ## Guard: every `inv` call of the code acts on an invertible matrix

`scipy.linalg.inv` raises `LinAlgError` for a singular argument, Mathlib's `⁻¹` returns `0`.
Under the property's hypotheses (positive definite `Sa`, `Sy`; ANY `K`) all four matrices that are
inverted — `Sa`, `Sy`, the information matrix and (in the m-form) `K Sa Kᵀ + Sy` — have a unit
determinant, so the error path is excluded and `⁻¹` is the genuine inverse everywhere below. -/

theorem C17_inverses_genuine (K : Matrix (Fin m) (Fin n) ℝ) {Sa : Matrix (Fin n) (Fin n) ℝ}
    {Sy : Matrix (Fin m) (Fin m) ℝ} (ha : Sa.PosDef) (hy : Sy.PosDef) :
    IsUnit Sa.det ∧ IsUnit Sy.det ∧ IsUnit (Kᵀ * Sy⁻¹ * K + Sa⁻¹).det ∧
    IsUnit (Sa⁻¹ + Kᵀ * Sy⁻¹ * K).det ∧ IsUnit (K * Sa * Kᵀ + Sy).det :=
  ⟨Oem.PosDef.det_isUnit ha, Oem.PosDef.det_isUnit hy, Oem.PosDef.det_isUnit (Oem.posDef_M K ha hy),
    add_comm (Kᵀ * Sy⁻¹ * K) Sa⁻¹ ▸ Oem.PosDef.det_isUnit (Oem.posDef_M K ha hy),
    Oem.PosDef.det_isUnit (Oem.posDef_W K ha hy)⟩

/-! ## Posterior covariance `S` -/

/-- `error_covariance_matrix = (Kᵀ Sy⁻¹ K + Sa⁻¹)⁻¹` (the n-form; no hypothesis: this is the
reading of the code), and under positive definite `Sa`, `Sy` the inverted matrix is invertible,
so `S` is its genuine two-sided inverse. -/
theorem C17_S_def (K : Matrix (Fin m) (Fin n) ℝ) (Sa : Matrix (Fin n) (Fin n) ℝ)
    (Sy : Matrix (Fin m) (Fin m) ℝ) :
    error_covariance_matrix K Sa Sy = (Kᵀ * Sy⁻¹ * K + Sa⁻¹)⁻¹ ∧
    (Sa.PosDef → Sy.PosDef →
      IsUnit (Kᵀ * Sy⁻¹ * K + Sa⁻¹).det ∧
      error_covariance_matrix K Sa Sy * (Kᵀ * Sy⁻¹ * K + Sa⁻¹) = 1 ∧
      (Kᵀ * Sy⁻¹ * K + Sa⁻¹) * error_covariance_matrix K Sa Sy = 1) := by
  refine ⟨nf_S K Sa Sy, fun ha hy => ?_⟩
  have hM := Oem.PosDef.det_isUnit (Oem.posDef_M K ha hy)
  rw [nf_S]
  exact ⟨hM, Matrix.nonsing_inv_mul _ hM, Matrix.mul_nonsing_inv _ hM⟩

/-- `S` is symmetric positive definite for positive definite `Sa`, `Sy` and ANY `K`. -/
theorem C17_S_posdef (K : Matrix (Fin m) (Fin n) ℝ) {Sa : Matrix (Fin n) (Fin n) ℝ}
    {Sy : Matrix (Fin m) (Fin m) ℝ} (ha : Sa.PosDef) (hy : Sy.PosDef) :
    (error_covariance_matrix K Sa Sy)ᵀ = error_covariance_matrix K Sa Sy ∧
    (error_covariance_matrix K Sa Sy).PosDef := by
  have h : (error_covariance_matrix K Sa Sy).PosDef := by
    rw [nf_S]; exact (Oem.posDef_M K ha hy).inv
  exact ⟨Oem.PosDef.isSymm h, h⟩

/-- `S ≤ Sa` in the Loewner order: `Sa − S` is positive semidefinite. -/
theorem C17_S_le_Sa (K : Matrix (Fin m) (Fin n) ℝ) {Sa : Matrix (Fin n) (Fin n) ℝ}
    {Sy : Matrix (Fin m) (Fin m) ℝ} (ha : Sa.PosDef) (hy : Sy.PosDef) :
    (Sa - error_covariance_matrix K Sa Sy).PosSemidef := by
  rw [nf_S, Oem.Sa_sub_Minv K ha hy]
  have := (Oem.posDef_W K ha hy).inv.posSemidef.conjTranspose_mul_mul_same (K * Sa)
  rwa [conjTranspose_eq_transpose_of_trivial] at this

/-! ## Gain matrix `G` -/

/-- `G = S Kᵀ Sy⁻¹`.  An identity between the two translated functions (the same `inv` calls
occur on both sides, so both sides of the real code raise on the same inputs); the inverses are
genuine under `C17_inverses_genuine`. -/
theorem C17_gain_n_form (K : Matrix (Fin m) (Fin n) ℝ) (Sa : Matrix (Fin n) (Fin n) ℝ)
    (Sy : Matrix (Fin m) (Fin m) ℝ) :
    retrieval_gain_matrix K Sa Sy = error_covariance_matrix K Sa Sy * Kᵀ * Sy⁻¹ := by
  rw [nf_G, nf_S]

/-- push-through identity: `G = Sa Kᵀ (K Sa Kᵀ + Sy)⁻¹` (measurement-space form), the inverted
matrix being positive definite (so invertible). -/
theorem C17_gain_m_form (K : Matrix (Fin m) (Fin n) ℝ) {Sa : Matrix (Fin n) (Fin n) ℝ}
    {Sy : Matrix (Fin m) (Fin m) ℝ} (ha : Sa.PosDef) (hy : Sy.PosDef) :
    retrieval_gain_matrix K Sa Sy = Sa * Kᵀ * (K * Sa * Kᵀ + Sy)⁻¹ ∧
    (K * Sa * Kᵀ + Sy).PosDef := by
  refine ⟨?_, Oem.posDef_W K ha hy⟩
  rw [nf_G]; exact Oem.push_through K ha hy

/-! ## Averaging kernel `A` -/

/-- `A = G K` (identity between the translated functions, no hypothesis needed) -/
theorem C17_A_eq_GK (K : Matrix (Fin m) (Fin n) ℝ) (Sa : Matrix (Fin n) (Fin n) ℝ)
    (Sy : Matrix (Fin m) (Fin m) ℝ) :
    averaging_kernel_matrix K Sa Sy = retrieval_gain_matrix K Sa Sy * K := by
  rw [nf_A, nf_G]

/-- `A = 1 − S Sa⁻¹` -/
theorem C17_A_eq_one_sub (K : Matrix (Fin m) (Fin n) ℝ) {Sa : Matrix (Fin n) (Fin n) ℝ}
    {Sy : Matrix (Fin m) (Fin m) ℝ} (ha : Sa.PosDef) (hy : Sy.PosDef) :
    averaging_kernel_matrix K Sa Sy = 1 - error_covariance_matrix K Sa Sy * Sa⁻¹ := by
  rw [nf_A, nf_S, ← Oem.Minv_mul_P K ha hy]
  simp only [Matrix.mul_assoc]

/-! ## Error terms are the linear maps `A (x − xa)` and `G e` -/

/-- `smoothing_error x xa A = A (x − xa)`; additive and homogeneous in `(x, xa)`. -/
theorem C17_smoothing_linear (A : Matrix (Fin n) (Fin n) ℝ) :
    (∀ x xa, smoothing_error x xa A = A *ᵥ (x - xa)) ∧
    (∀ x x' xa xa', smoothing_error (x + x') (xa + xa') A
        = smoothing_error x xa A + smoothing_error x' xa' A) ∧
    (∀ (c : ℝ) x xa, smoothing_error (c • x) (c • xa) A = c • smoothing_error x xa A) ∧
    (∀ x, smoothing_error x x A = 0) := by
  refine ⟨fun x xa => nf_smooth x xa A, fun x x' xa xa' => ?_, fun c x xa => ?_, fun x => ?_⟩
  · simp only [nf_smooth, ← Matrix.mulVec_add]; congr 1; abel
  · simp only [nf_smooth, ← Matrix.mulVec_smul, smul_sub]
  · simp only [nf_smooth, sub_self, Matrix.mulVec_zero]

/-- `retrieval_noise K Sa Sy e = G e`; additive and homogeneous in `e`. -/
theorem C17_noise_linear (K : Matrix (Fin m) (Fin n) ℝ) (Sa : Matrix (Fin n) (Fin n) ℝ)
    (Sy : Matrix (Fin m) (Fin m) ℝ) :
    (∀ e, retrieval_noise K Sa Sy e = retrieval_gain_matrix K Sa Sy *ᵥ e) ∧
    (∀ e e', retrieval_noise K Sa Sy (e + e')
        = retrieval_noise K Sa Sy e + retrieval_noise K Sa Sy e') ∧
    (∀ (c : ℝ) e, retrieval_noise K Sa Sy (c • e) = c • retrieval_noise K Sa Sy e) := by
  refine ⟨fun e => ?_, fun e e' => ?_, fun c e => ?_⟩
  · rw [nf_noise, nf_G]
  · simp only [nf_noise, Matrix.mulVec_add]
  · simp only [nf_noise, Matrix.mulVec_smul]

/-! ## Eigenvalues of the averaging kernel lie in `[0, 1)` -/

/-- Every complex eigenvalue `μ` of the (real) averaging kernel — eigenvector `z ≠ 0` of `A` read
as a complex matrix — is real with `0 ≤ μ < 1`. -/
theorem C17_A_eigenvalues (K : Matrix (Fin m) (Fin n) ℝ) {Sa : Matrix (Fin n) (Fin n) ℝ}
    {Sy : Matrix (Fin m) (Fin m) ℝ} (ha : Sa.PosDef) (hy : Sy.PosDef)
    (μ : ℂ) (z : Fin n → ℂ) (hz : z ≠ 0)
    (h : ((averaging_kernel_matrix K Sa Sy).map Complex.ofReal) *ᵥ z = μ • z) :
    μ.im = 0 ∧ 0 ≤ μ.re ∧ μ.re < 1 := by
  rw [nf_A] at h
  exact Oem.eig_complex K ha hy μ z hz h

/-- real eigenvalues (the special case of a real eigenvector): `A v = μ v`, `v ≠ 0` ⇒ `0 ≤ μ < 1` -/
theorem C17_A_eigenvalues_real (K : Matrix (Fin m) (Fin n) ℝ) {Sa : Matrix (Fin n) (Fin n) ℝ}
    {Sy : Matrix (Fin m) (Fin m) ℝ} (ha : Sa.PosDef) (hy : Sy.PosDef)
    (μ : ℝ) (v : Fin n → ℝ) (hv : v ≠ 0) (h : averaging_kernel_matrix K Sa Sy *ᵥ v = μ • v) :
    0 ≤ μ ∧ μ < 1 := by
  rw [nf_A] at h
  have := Oem.eig_real_form K ha hy v 0 μ 0 (Or.inl hv) (by simpa using h) (by simp)
  exact this.2

/-! ## Limits -/

/-- vanishing measurement noise (`Sy` scaled by `ε → 0⁺`), `K` of full column rank: `A → 1` -/
theorem C17_A_tendsto_one_noise (K : Matrix (Fin m) (Fin n) ℝ) {Sa : Matrix (Fin n) (Fin n) ℝ}
    {Sy : Matrix (Fin m) (Fin m) ℝ} (ha : Sa.PosDef) (hy : Sy.PosDef)
    (hK : Function.Injective K.mulVec) :
    Tendsto (fun ε : ℝ => averaging_kernel_matrix K Sa (ε • Sy)) (𝓝[>] 0) (𝓝 1) := by
  simp only [nf_A]
  exact Oem.tendsto_A_noise_zero K ha hy hK

/-- vanishing prior variance (`Sa` scaled by `ε → 0⁺`), ANY `K`: `A → 0` -/
theorem C17_A_tendsto_zero_prior (K : Matrix (Fin m) (Fin n) ℝ) {Sa : Matrix (Fin n) (Fin n) ℝ}
    {Sy : Matrix (Fin m) (Fin m) ℝ} (ha : Sa.PosDef) (hy : Sy.PosDef) :
    Tendsto (fun ε : ℝ => averaging_kernel_matrix K (ε • Sa) Sy) (𝓝[>] 0) (𝓝 0) := by
  simp only [nf_A]
  exact Oem.tendsto_A_prior_zero K ha hy

/-! ## Zero Jacobian: nothing is learnt -/

/-- `K = 0` (allowed by every theorem above): `S = Sa`, `G = 0`, `A = 0`. -/
theorem C17_zero_K {Sa : Matrix (Fin n) (Fin n) ℝ} (Sy : Matrix (Fin m) (Fin m) ℝ)
    (ha : Sa.PosDef) :
    error_covariance_matrix (0 : Matrix (Fin m) (Fin n) ℝ) Sa Sy = Sa ∧
    retrieval_gain_matrix (0 : Matrix (Fin m) (Fin n) ℝ) Sa Sy = 0 ∧
    averaging_kernel_matrix (0 : Matrix (Fin m) (Fin n) ℝ) Sa Sy = 0 := by
  refine ⟨?_, ?_, ?_⟩
  · rw [nf_S, Matrix.mul_zero, zero_add, Matrix.nonsing_inv_nonsing_inv Sa (Oem.PosDef.det_isUnit ha)]
  · rw [nf_G, Matrix.transpose_zero, Matrix.mul_zero, Matrix.zero_mul]
  · rw [nf_A, Matrix.mul_zero]

/-! ## Non-vacuity: the hypotheses are satisfiable, the definitions compute what they should -/

/-- positive definite matrices of every size exist (identity, diagonal, correlated) -/
example : (1 : Matrix (Fin n) (Fin n) ℝ).PosDef := Matrix.PosDef.one
example : (Matrix.diagonal ![(2 : ℝ), 3]).PosDef :=
  Matrix.PosDef.diagonal (by intro i; fin_cases i <;> norm_num)
/-- a correlated 2×2 covariance `[[3,1],[1,2]] = B Bᵀ + 1` -/
example : (!![(3 : ℝ), 1; 1, 2] : Matrix (Fin 2) (Fin 2) ℝ).PosDef := by
  have h : (!![(3 : ℝ), 1; 1, 2] : Matrix (Fin 2) (Fin 2) ℝ)
      = (!![(1 : ℝ), 1; 1, 0])ᴴ * !![(1 : ℝ), 1; 1, 0] + 1 := by
    ext i j; fin_cases i <;> fin_cases j <;>
      simp [Matrix.mul_apply, Fin.sum_univ_two, Matrix.one_apply] <;> norm_num
  rw [h]
  exact Matrix.PosDef.posSemidef_add (Matrix.posSemidef_conjTranspose_mul_self _) Matrix.PosDef.one
/-- a Jacobian of full column rank exists (hypothesis of `C17_A_tendsto_one_noise`) -/
example : Function.Injective (1 : Matrix (Fin 2) (Fin 2) ℝ).mulVec := by
  intro u v h; simpa using h

private theorem inv11 (a : ℝ) (ha : a ≠ 0) :
    (!![a] : Matrix (Fin 1) (Fin 1) ℝ)⁻¹ = !![a⁻¹] := by
  apply Matrix.inv_eq_right_inv
  ext i j; fin_cases i; fin_cases j
  simp [Matrix.mul_apply, ha]

/-- 1×1 instance `K = 2, Sa = 1, Sy = 4`: `S = 1/2`, `G = 1/4`, `A = 1/2 = 1 − S Sa⁻¹` -/
example : error_covariance_matrix !![(2 : ℝ)] !![(1 : ℝ)] !![(4 : ℝ)] = !![(1 / 2 : ℝ)] ∧
    retrieval_gain_matrix !![(2 : ℝ)] !![(1 : ℝ)] !![(4 : ℝ)] = !![(1 / 4 : ℝ)] ∧
    averaging_kernel_matrix !![(2 : ℝ)] !![(1 : ℝ)] !![(4 : ℝ)] = !![(1 / 2 : ℝ)] := by
  have hM : (!![(2 : ℝ)])ᵀ * (!![(4 : ℝ)])⁻¹ * !![(2 : ℝ)] + (!![(1 : ℝ)])⁻¹ = !![(2 : ℝ)] := by
    rw [inv11 4 (by norm_num), inv11 1 (by norm_num)]
    ext i j; fin_cases i; fin_cases j
    simp [Matrix.mul_apply]; norm_num
  refine ⟨?_, ?_, ?_⟩
  · rw [nf_S, hM, inv11 2 (by norm_num)]; norm_num
  · rw [nf_G, hM, inv11 2 (by norm_num), inv11 4 (by norm_num)]
    ext i j; fin_cases i; fin_cases j
    simp [Matrix.mul_apply, Matrix.vecMul, dotProduct, Matrix.transpose_apply] <;> norm_num
  · rw [nf_A, hM, inv11 2 (by norm_num), inv11 4 (by norm_num)]
    ext i j; fin_cases i; fin_cases j
    simp [Matrix.mul_apply, Matrix.vecMul, dotProduct, Matrix.transpose_apply] <;> norm_num

/-- 2×2 under-determined instance (`m = 1 < n = 2`, `K = [1 0]`, `Sa = Sy = 1`): the hypotheses of
all theorems hold and `A` has the eigenvalues `1/2` and `0` — inside `[0, 1)`. -/
example : (1 : Matrix (Fin 2) (Fin 2) ℝ).PosDef ∧ (1 : Matrix (Fin 1) (Fin 1) ℝ).PosDef ∧
    averaging_kernel_matrix !![(1 : ℝ), 0] (1 : Matrix (Fin 2) (Fin 2) ℝ) (1 : Matrix (Fin 1) (Fin 1) ℝ)
      = !![(1 / 2 : ℝ), 0; 0, 0] := by
  refine ⟨Matrix.PosDef.one, Matrix.PosDef.one, ?_⟩
  simp only [nf_A, inv_one, Matrix.mul_one]
  have hM : (!![(1 : ℝ), 0] : Matrix (Fin 1) (Fin 2) ℝ)ᵀ * !![(1 : ℝ), 0] + 1
      = Matrix.diagonal ![(2 : ℝ), 1] := by
    ext i j; fin_cases i <;> fin_cases j <;> simp [Matrix.mul_apply, Matrix.one_apply] <;> norm_num
  have hinv : (Matrix.diagonal ![(2 : ℝ), 1])⁻¹ = Matrix.diagonal ![(1 / 2 : ℝ), 1] := by
    apply Matrix.inv_eq_right_inv
    rw [Matrix.diagonal_mul_diagonal]
    ext i j; fin_cases i <;> fin_cases j <;> simp [Matrix.diagonal, Matrix.one_apply]
  rw [hM, hinv]
  ext i j; fin_cases i <;> fin_cases j <;>
    simp [Matrix.mul_apply, Fin.sum_univ_two, Matrix.diagonal, Matrix.vecMul, dotProduct,
      Matrix.transpose_apply] <;> norm_num

assert_axioms C17_inverses_genuine C17_S_def C17_S_posdef C17_S_le_Sa C17_gain_n_form C17_gain_m_form C17_A_eq_GK
  C17_A_eq_one_sub C17_smoothing_linear C17_noise_linear C17_A_eigenvalues C17_A_eigenvalues_real
  C17_A_tendsto_one_noise C17_A_tendsto_zero_prior C17_zero_K
