import GenReal.Oem
import Proofs.Lemmas.Oem
import Proofs.Audit
import Mathlib.LinearAlgebra.Matrix.PosDef
import Mathlib.Tactic

/-!
# C17 — optimal-estimation matrices satisfy their defining identities

Theorems about `TM.*`, the Mathlib-`Matrix` reading of `typhon/retrieval/oem/common.py` and
`error.py` that `tools/py2lean/gen_oem.py` regenerates from /repo on every run.

`K : Matrix (Fin m) (Fin n) ℝ` Jacobian (`m` measurements, `n` state elements; ANY `K`, zero and
rank-deficient included, `m < n`, `m = n`, `m > n`), `Sa`, `Sy` positive definite covariances.
`⁻¹` is Mathlib's `Matrix.inv` (nonsingular inverse); every use below is on a matrix proved
positive definite, hence invertible (`IsUnit det`), so no theorem rests on the junk value
`A⁻¹ = 0` of a singular `A` — where `scipy.linalg.inv` raises.
-/

open Matrix TM

variable {m n : ℕ}

-- the normal-form tactic is deliberately redundant on the present source (it exists for rewrites)
set_option linter.unusedTactic false
set_option linter.unreachableTactic false
set_option linter.unnecessarySeqFocus false
set_option linter.unusedSimpArgs false

/-! ## Normal forms

One lemma per translated function states the regenerated definition in a fixed form, proved by
unfolding and reassociation/commutation only — harmless rewrites of the Python source (`A + B` for
`B + A`, a local variable, `K.T @ (inv(S_y) @ K)` for `(K.T @ inv(S_y)) @ K`, `np.linalg.inv` for
`scipy.linalg.inv`) do not disturb the theorems below, which use only these normal forms.  They
also pin the Lean printer of the translator to explicit Mathlib notation. -/

/-- closes `generated = normal form` after unfolding: reassociate products, commute sums -/
macro "oem_nf" : tactic =>
  `(tactic| first
    | rfl
    | (simp only [Matrix.mul_assoc, Matrix.transpose_transpose]; done)
    | (simp only [Matrix.mul_assoc, Matrix.transpose_transpose, add_comm]; done)
    | (simp only [Matrix.mul_assoc, Matrix.transpose_transpose, Matrix.mul_add, Matrix.add_mul,
        Matrix.mul_sub, Matrix.sub_mul, Matrix.mulVec_mulVec, Matrix.mulVec_sub, Matrix.mulVec_add,
        Matrix.sub_mulVec, Matrix.add_mulVec]; abel_nf))

private theorem nf_S (K : Matrix (Fin m) (Fin n) ℝ) (Sa : Matrix (Fin n) (Fin n) ℝ)
    (Sy : Matrix (Fin m) (Fin m) ℝ) :
    error_covariance_matrix K Sa Sy = (Kᵀ * Sy⁻¹ * K + Sa⁻¹)⁻¹ := by
  simp only [error_covariance_matrix] <;> oem_nf

private theorem nf_G (K : Matrix (Fin m) (Fin n) ℝ) (Sa : Matrix (Fin n) (Fin n) ℝ)
    (Sy : Matrix (Fin m) (Fin m) ℝ) :
    retrieval_gain_matrix K Sa Sy = (Kᵀ * Sy⁻¹ * K + Sa⁻¹)⁻¹ * Kᵀ * Sy⁻¹ := by
  simp only [retrieval_gain_matrix, nf_S] <;> oem_nf

private theorem nf_A (K : Matrix (Fin m) (Fin n) ℝ) (Sa : Matrix (Fin n) (Fin n) ℝ)
    (Sy : Matrix (Fin m) (Fin m) ℝ) :
    averaging_kernel_matrix K Sa Sy = (Kᵀ * Sy⁻¹ * K + Sa⁻¹)⁻¹ * Kᵀ * Sy⁻¹ * K := by
  simp only [averaging_kernel_matrix, nf_G, nf_S] <;> oem_nf

private theorem nf_smooth (x xa : Fin n → ℝ) (A : Matrix (Fin n) (Fin n) ℝ) :
    smoothing_error x xa A = A *ᵥ (x - xa) := by
  simp only [smoothing_error] <;> oem_nf

private theorem nf_noise (K : Matrix (Fin m) (Fin n) ℝ) (Sa : Matrix (Fin n) (Fin n) ℝ)
    (Sy : Matrix (Fin m) (Fin m) ℝ) (e : Fin m → ℝ) :
    retrieval_noise K Sa Sy e = ((Kᵀ * Sy⁻¹ * K + Sa⁻¹)⁻¹ * Kᵀ * Sy⁻¹) *ᵥ e := by
  simp only [retrieval_noise, nf_G, nf_S] <;> oem_nf

/-! ## Posterior covariance `S` -/

/-- `error_covariance_matrix = (Kᵀ Sy⁻¹ K + Sa⁻¹)⁻¹` (the n-form; no hypothesis: this is the
reading of the code), and under positive definite `Sa`, `Sy` the inverted matrix is invertible,
so `S` is its genuine two-sided inverse. -/
theorem C17_S_def (K : Matrix (Fin m) (Fin n) ℝ) (Sa : Matrix (Fin n) (Fin n) ℝ)
    (Sy : Matrix (Fin m) (Fin m) ℝ) :
    error_covariance_matrix K Sa Sy = (Kᵀ * Sy⁻¹ * K + Sa⁻¹)⁻¹ ∧
    (Sa.PosDef → Sy.PosDef →
      IsUnit (Kᵀ * Sy⁻¹ * K + Sa⁻¹).det ∧
      error_covariance_matrix K Sa Sy * (Kᵀ * Sy⁻¹ * K + Sa⁻¹) = 1 ∧
      (Kᵀ * Sy⁻¹ * K + Sa⁻¹) * error_covariance_matrix K Sa Sy = 1) := by
  refine ⟨nf_S K Sa Sy, fun ha hy => ?_⟩
  have hM := Oem.PosDef.det_isUnit (Oem.posDef_M K ha hy)
  rw [nf_S]
  exact ⟨hM, Matrix.nonsing_inv_mul _ hM, Matrix.mul_nonsing_inv _ hM⟩

/-- `S` is symmetric positive definite for positive definite `Sa`, `Sy` and ANY `K`. -/
theorem C17_S_posdef (K : Matrix (Fin m) (Fin n) ℝ) {Sa : Matrix (Fin n) (Fin n) ℝ}
    {Sy : Matrix (Fin m) (Fin m) ℝ} (ha : Sa.PosDef) (hy : Sy.PosDef) :
    (error_covariance_matrix K Sa Sy)ᵀ = error_covariance_matrix K Sa Sy ∧
    (error_covariance_matrix K Sa Sy).PosDef := by
  have h : (error_covariance_matrix K Sa Sy).PosDef := by
    rw [nf_S]; exact (Oem.posDef_M K ha hy).inv
  exact ⟨Oem.PosDef.isSymm h, h⟩

/-- `S ≤ Sa` in the Loewner order: `Sa − S` is positive semidefinite. -/
theorem C17_S_le_Sa (K : Matrix (Fin m) (Fin n) ℝ) {Sa : Matrix (Fin n) (Fin n) ℝ}
    {Sy : Matrix (Fin m) (Fin m) ℝ} (ha : Sa.PosDef) (hy : Sy.PosDef) :
    (Sa - error_covariance_matrix K Sa Sy).PosSemidef := by
  rw [nf_S, Oem.Sa_sub_Minv K ha hy]
  have := (Oem.posDef_W K ha hy).inv.posSemidef.conjTranspose_mul_mul_same (K * Sa)
  rwa [conjTranspose_eq_transpose_of_trivial] at this

/-! ## Gain matrix `G` -/

/-- `G = S Kᵀ Sy⁻¹` -/
theorem C17_gain_n_form (K : Matrix (Fin m) (Fin n) ℝ) (Sa : Matrix (Fin n) (Fin n) ℝ)
    (Sy : Matrix (Fin m) (Fin m) ℝ) :
    retrieval_gain_matrix K Sa Sy = error_covariance_matrix K Sa Sy * Kᵀ * Sy⁻¹ := by
  rw [nf_G, nf_S]

/-- push-through identity: `G = Sa Kᵀ (K Sa Kᵀ + Sy)⁻¹` (measurement-space form), the inverted
matrix being positive definite (so invertible). -/
theorem C17_gain_m_form (K : Matrix (Fin m) (Fin n) ℝ) {Sa : Matrix (Fin n) (Fin n) ℝ}
    {Sy : Matrix (Fin m) (Fin m) ℝ} (ha : Sa.PosDef) (hy : Sy.PosDef) :
    retrieval_gain_matrix K Sa Sy = Sa * Kᵀ * (K * Sa * Kᵀ + Sy)⁻¹ ∧
    (K * Sa * Kᵀ + Sy).PosDef := by
  refine ⟨?_, Oem.posDef_W K ha hy⟩
  rw [nf_G]; exact Oem.push_through K ha hy

/-! ## Averaging kernel `A` -/

/-- `A = G K` -/
theorem C17_A_eq_GK (K : Matrix (Fin m) (Fin n) ℝ) (Sa : Matrix (Fin n) (Fin n) ℝ)
    (Sy : Matrix (Fin m) (Fin m) ℝ) :
    averaging_kernel_matrix K Sa Sy = retrieval_gain_matrix K Sa Sy * K := by
  rw [nf_A, nf_G]

/-- `A = 1 − S Sa⁻¹` -/
theorem C17_A_eq_one_sub (K : Matrix (Fin m) (Fin n) ℝ) {Sa : Matrix (Fin n) (Fin n) ℝ}
    {Sy : Matrix (Fin m) (Fin m) ℝ} (ha : Sa.PosDef) (hy : Sy.PosDef) :
    averaging_kernel_matrix K Sa Sy = 1 - error_covariance_matrix K Sa Sy * Sa⁻¹ := by
  rw [nf_A, nf_S, ← Oem.Minv_mul_P K ha hy]
  simp only [Matrix.mul_assoc]

/-! ## Error terms are the linear maps `A (x − xa)` and `G e` -/

/-- `smoothing_error x xa A = A (x − xa)`; additive and homogeneous in `(x, xa)`. -/
theorem C17_smoothing_linear (A : Matrix (Fin n) (Fin n) ℝ) :
    (∀ x xa, smoothing_error x xa A = A *ᵥ (x - xa)) ∧
    (∀ x x' xa xa', smoothing_error (x + x') (xa + xa') A
        = smoothing_error x xa A + smoothing_error x' xa' A) ∧
    (∀ (c : ℝ) x xa, smoothing_error (c • x) (c • xa) A = c • smoothing_error x xa A) ∧
    (∀ x, smoothing_error x x A = 0) := by
  refine ⟨fun x xa => nf_smooth x xa A, fun x x' xa xa' => ?_, fun c x xa => ?_, fun x => ?_⟩
  · simp only [nf_smooth, ← Matrix.mulVec_add]; congr 1; abel
  · simp only [nf_smooth, ← Matrix.mulVec_smul, smul_sub]
  · simp only [nf_smooth, sub_self, Matrix.mulVec_zero]

/-- `retrieval_noise K Sa Sy e = G e`; additive and homogeneous in `e`. -/
theorem C17_noise_linear (K : Matrix (Fin m) (Fin n) ℝ) (Sa : Matrix (Fin n) (Fin n) ℝ)
    (Sy : Matrix (Fin m) (Fin m) ℝ) :
    (∀ e, retrieval_noise K Sa Sy e = retrieval_gain_matrix K Sa Sy *ᵥ e) ∧
    (∀ e e', retrieval_noise K Sa Sy (e + e')
        = retrieval_noise K Sa Sy e + retrieval_noise K Sa Sy e') ∧
    (∀ (c : ℝ) e, retrieval_noise K Sa Sy (c • e) = c • retrieval_noise K Sa Sy e) := by
  refine ⟨fun e => ?_, fun e e' => ?_, fun c e => ?_⟩
  · rw [nf_noise, nf_G]
  · simp only [nf_noise, Matrix.mulVec_add]
  · simp only [nf_noise, Matrix.mulVec_smul]

assert_axioms C17_S_def C17_S_posdef C17_S_le_Sa C17_gain_n_form C17_gain_m_form C17_A_eq_GK
  C17_A_eq_one_sub C17_smoothing_linear C17_noise_linear
