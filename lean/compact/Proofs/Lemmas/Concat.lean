import Proofs.Lemmas.Compact

/-!
Helper lemmas for C13: `expand` and `concat`.
-/

namespace Compact

/-- `expand` with the two value tables explicit -/
def gp (P S : List Row) : List (Nat × Nat) → Option (List (Row × Row))
  | [] => some []
  | p :: ps =>
    match P[p.1]?, S[p.2]?, gp P S ps with
    | some a, some b, some r => some ((a, b) :: r)
    | _, _, _ => none

theorem expand_go_eq_gp (c : Compact) (l : List (Nat × Nat)) : expand.go c l = gp c.P c.S l := by
  induction l with
  | nil => rfl
  | cons p ps ih =>
    simp only [expand.go, gp, ih]
    cases c.P[p.1]? <;> cases c.S[p.2]? <;> cases gp c.P c.S ps <;> rfl

theorem expand_eq_gp (c : Compact) : expand c = gp c.P c.S c.pairs := expand_go_eq_gp c c.pairs

/-- indices in range (first part of `Valid`) -/
def InRange (c : Compact) : Prop := ∀ p ∈ c.pairs, p.1 < c.P.length ∧ p.2 < c.S.length

theorem Valid.inRange {c : Compact} (h : Valid c) : InRange c := h.1

theorem gp_spec (P S : List Row) (l : List (Nat × Nat))
    (h : ∀ p ∈ l, p.1 < P.length ∧ p.2 < S.length) :
    ∃ e, gp P S l = some e ∧ e.length = l.length ∧
      ∀ k (hk : k < l.length), e[k]? = some (P[l[k].1]'(h _ (List.getElem_mem hk)).1,
                                              S[l[k].2]'(h _ (List.getElem_mem hk)).2) := by
  induction l with
  | nil => exact ⟨[], rfl, rfl, by simp⟩
  | cons p ps ih =>
    obtain ⟨e, he, hl, hs⟩ := ih (fun q hq => h q (List.mem_cons_of_mem _ hq))
    have hp := h p (List.mem_cons_self ..)
    refine ⟨(P[p.1]'hp.1, S[p.2]'hp.2) :: e, ?_, by simp [hl], ?_⟩
    · simp [gp, he, List.getElem?_eq_getElem hp.1, List.getElem?_eq_getElem hp.2]
    · intro k hk
      cases k with
      | zero => simp
      | succ k => simpa using hs k (by simpa using hk)

theorem gp_none (P S : List Row) (l : List (Nat × Nat))
    (h : ∃ p ∈ l, P.length ≤ p.1 ∨ S.length ≤ p.2) : gp P S l = none := by
  induction l with
  | nil => simp at h
  | cons p ps ih =>
    obtain ⟨q, hq, hb⟩ := h
    unfold gp
    rcases List.mem_cons.mp hq with rfl | hq
    · rcases hb with hb | hb
      · rw [List.getElem?_eq_none hb]
      · rw [List.getElem?_eq_none hb]
        split <;> simp_all
    · rw [ih ⟨q, hq, hb⟩]
      split <;> simp_all

theorem gp_append (P S : List Row) (l1 l2 : List (Nat × Nat)) (e1 e2 : List (Row × Row))
    (h1 : gp P S l1 = some e1) (h2 : gp P S l2 = some e2) : gp P S (l1 ++ l2) = some (e1 ++ e2) := by
  induction l1 generalizing e1 with
  | nil => simp [gp] at h1; subst h1; simpa using h2
  | cons p ps ih =>
    unfold gp at h1
    split at h1
    · rename_i a b r ha hb hr
      simp only [Option.some.injEq] at h1; subst h1
      simp only [List.cons_append, gp, ha, hb, ih r hr]
    · simp at h1

theorem getElem?_mid {α : Type} (pre mid post : List α) (i : Nat) (hi : i < mid.length) :
    (pre ++ (mid ++ post))[i + pre.length]? = mid[i]? := by
  rw [List.getElem?_append_right (by omega)]
  simp only [Nat.add_sub_cancel]
  rw [List.getElem?_append_left hi]

theorem gp_shift (Ppre P X Spre S Y : List Row) (l : List (Nat × Nat))
    (h : ∀ p ∈ l, p.1 < P.length ∧ p.2 < S.length) :
    gp (Ppre ++ (P ++ X)) (Spre ++ (S ++ Y)) (shift Ppre.length Spre.length l) = gp P S l := by
  induction l with
  | nil => rfl
  | cons p ps ih =>
    have hp := h p (List.mem_cons_self ..)
    have ih' := ih (fun q hq => h q (List.mem_cons_of_mem _ hq))
    simp only [shift, List.map_cons] at ih' ⊢
    simp only [gp, getElem?_mid _ _ _ _ hp.1, getElem?_mid _ _ _ _ hp.2, ih']

/-- generalised statement: the part of `concat` built from offsets `|Ppre|`, `|Spre|`
expands, on the full tables, to the concatenation of the individual expansions -/
theorem gp_concatGo (ds : List Compact) (Ppre Spre : List Row) (h : ∀ d ∈ ds, InRange d) :
    ∃ es, expandAll ds = some es ∧
      gp (Ppre ++ (concatGo Ppre.length Spre.length ds).P)
         (Spre ++ (concatGo Ppre.length Spre.length ds).S)
         (concatGo Ppre.length Spre.length ds).pairs = some es.flatten := by
  induction ds generalizing Ppre Spre with
  | nil => exact ⟨[], rfl, rfl⟩
  | cons d ds ih =>
    have hd : InRange d := h d (List.mem_cons_self ..)
    obtain ⟨e, he, -, -⟩ := gp_spec d.P d.S d.pairs hd
    obtain ⟨es, hes, hg⟩ := ih (Ppre ++ d.P) (Spre ++ d.S) (fun x hx => h x (List.mem_cons_of_mem _ hx))
    refine ⟨e :: es, ?_, ?_⟩
    · simp only [expandAll, expand_eq_gp, he, hes]
    · simp only [concatGo, List.flatten_cons]
      simp only [List.length_append, List.append_assoc] at hg
      apply gp_append
      · rw [gp_shift _ _ _ _ _ _ _ hd]; exact he
      · exact hg

/-! ## validity of the concatenation -/

def ValidOff (np ns : Nat) (c : Compact) : Prop :=
  (∀ p ∈ c.pairs, np ≤ p.1 ∧ p.1 < np + c.P.length ∧ ns ≤ p.2 ∧ p.2 < ns + c.S.length) ∧
  (∀ i, i < c.P.length → ∃ p ∈ c.pairs, p.1 = np + i) ∧
  (∀ j, j < c.S.length → ∃ p ∈ c.pairs, p.2 = ns + j)

theorem validOff_zero {c : Compact} : ValidOff 0 0 c ↔ Valid c := by
  unfold ValidOff Valid
  simp

theorem validOff_concatGo (ds : List Compact) (np ns : Nat) (h : ∀ d ∈ ds, Valid d) :
    ValidOff np ns (concatGo np ns ds) := by
  induction ds generalizing np ns with
  | nil => exact ⟨by simp [concatGo], by simp [concatGo], by simp [concatGo]⟩
  | cons d ds ih =>
    obtain ⟨hd1, hd2, hd3⟩ := h d (List.mem_cons_self ..)
    obtain ⟨i1, i2, i3⟩ := ih (np + d.P.length) (ns + d.S.length)
      (fun x hx => h x (List.mem_cons_of_mem _ hx))
    simp only [concatGo]
    refine ⟨?_, ?_, ?_⟩
    · intro p hp
      simp only [List.mem_append, shift, List.mem_map, List.length_append] at hp ⊢
      rcases hp with ⟨q, hq, rfl⟩ | hp
      · have := hd1 q hq
        simp only; omega
      · have := i1 p hp
        omega
    · intro i hi
      simp only [List.length_append] at hi
      by_cases hlt : i < d.P.length
      · obtain ⟨q, hq, e⟩ := hd2 i hlt
        refine ⟨(q.1 + np, q.2 + ns), ?_, by simp only; omega⟩
        simp only [List.mem_append, shift, List.mem_map]
        exact Or.inl ⟨q, hq, rfl⟩
      · obtain ⟨q, hq, e⟩ := i2 (i - d.P.length) (by omega)
        exact ⟨q, List.mem_append_right _ hq, by omega⟩
    · intro j hj
      simp only [List.length_append] at hj
      by_cases hlt : j < d.S.length
      · obtain ⟨q, hq, e⟩ := hd3 j hlt
        refine ⟨(q.1 + np, q.2 + ns), ?_, by simp only; omega⟩
        simp only [List.mem_append, shift, List.mem_map]
        exact Or.inl ⟨q, hq, rfl⟩
      · obtain ⟨q, hq, e⟩ := i3 (j - d.S.length) (by omega)
        exact ⟨q, List.mem_append_right _ hq, by omega⟩

theorem concatGo_lengths (ds : List Compact) (np ns : Nat) :
    (concatGo np ns ds).pairs.length = (ds.map (·.pairs.length)).sum ∧
    (concatGo np ns ds).P = (ds.map (·.P)).flatten ∧
    (concatGo np ns ds).S = (ds.map (·.S)).flatten := by
  induction ds generalizing np ns with
  | nil => simp [concatGo]
  | cons d ds ih =>
    obtain ⟨h1, h2, h3⟩ := ih (np + d.P.length) (ns + d.S.length)
    simp [concatGo, shift, h1, h2, h3]

theorem concatMixedGo_false (ds : List Compact) (np ns : Nat) :
    concatMixedGo np ns (ds.map (·, false)) = concatGo np ns ds := by
  induction ds generalizing np ns with
  | nil => rfl
  | cons d ds ih => simp [concatMixedGo, concatGo, ih]

end Compact
