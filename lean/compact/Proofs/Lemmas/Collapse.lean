import Proofs.Lemmas.Compact

/-!
Helper lemmas for C13: the bin matrix of `collapse`.  Column `j` of the matrix, read from
row 0 downwards and skipping unfilled slots, lists exactly the partner points of
reference point `j` in pair order.
-/

namespace Compact

/-! ## the slots of one column are filled consecutively from `current_row[j]` on -/

theorem colEntries_cons (e : (Nat × Nat) × Row) (m : Mat) (j : Nat) :
    colEntries (e :: m) j = if e.1.2 = j then (e.1.1, e.2) :: colEntries m j else colEntries m j := by
  unfold colEntries
  by_cases h : e.1.2 = j <;> simp [h]

theorem colEntries_rowsGo (rf : List Nat) (cur rs : List Nat) (vals : List Row) (j : Nat)
    (h : rowsGo rf cur = some rs) (hv : vals.length = rf.length) :
    (colEntries ((rs.zip rf).zip vals) j).map Prod.fst = List.range' (cur[j]?.getD 0) (rf.count j) ∧
    (colEntries ((rs.zip rf).zip vals) j).map Prod.snd =
      ((rf.zip vals).filter (fun e => e.1 == j)).map Prod.snd := by
  induction rf generalizing cur rs vals with
  | nil =>
    simp [rowsGo] at h; subst h
    simp [colEntries]
  | cons p ps ih =>
    unfold rowsGo at h
    cases hc : cur[p]? with
    | none => simp [hc] at h
    | some r =>
      simp only [hc] at h
      cases hr : rowsGo ps (cur.set p (r + 1)) with
      | none => simp [hr] at h
      | some rs' =>
        simp only [hr, Option.map_some, Option.some.injEq] at h
        subst h
        cases vals with
        | nil => simp at hv
        | cons v vals' =>
          have hv' : vals'.length = ps.length := by simpa using hv
          obtain ⟨ih1, ih2⟩ := ih (cur.set p (r + 1)) rs' vals' hr hv'
          simp only [List.zip_cons_cons, colEntries_cons]
          have hp : p < cur.length := by
            by_contra hc'
            rw [List.getElem?_eq_none (by omega)] at hc
            simp at hc
          by_cases e : p = j
          · subst e
            simp only [if_true, List.map_cons, ih1, ih2, List.count_cons_self, List.filter_cons,
              beq_self_eq_true]
            refine ⟨?_, trivial⟩
            rw [List.range'_succ, hc]
            simp [hp]
          · have e' : ¬ (p == j) = true := by simpa using e
            simp only [e, if_false, ih1, ih2, List.filter_cons, e']
            refine ⟨?_, by simp⟩
            rw [List.count_cons_of_ne e]
            simp [e]

/-! ## reading a column whose rows are consecutive -/

theorem lookupRow_of_ne (L : List (Nat × Row)) (s r : Nat) (h : L.map Prod.fst = List.range' s L.length)
    (hr : r < s) : lookupRow L r = none := by
  induction L generalizing s with
  | nil => rfl
  | cons e L ih =>
    simp only [List.map_cons, List.length_cons, List.range'_succ, List.cons.injEq] at h
    unfold lookupRow
    have : ¬ e.1 = r := by omega
    simp only [this, if_false]
    exact ih (s + 1) h.2 (by omega)

theorem filterMap_lookupRow (L : List (Nat × Row)) (s d : Nat)
    (h : L.map Prod.fst = List.range' s L.length) :
    (List.range' s (L.length + d)).filterMap (lookupRow L) = L.map Prod.snd := by
  induction L generalizing s with
  | nil =>
    simp only [List.length_nil, Nat.zero_add, List.map_nil]
    rw [List.filterMap_eq_nil_iff]
    intro a _
    rfl
  | cons e L ih =>
    simp only [List.map_cons, List.length_cons, List.range'_succ, List.cons.injEq] at h
    obtain ⟨h1, h2⟩ := h
    have hlen : (e :: L).length + d = (L.length + d) + 1 := by simp; omega
    rw [hlen, List.range'_succ, List.filterMap_cons]
    have h0 : lookupRow (e :: L) s = some e.2 := by
      unfold lookupRow; simp [h1]
    rw [h0]
    simp only [List.map_cons, List.cons.injEq, true_and]
    rw [← ih (s + 1) h2]
    apply List.filterMap_congr
    intro r hr
    have hr' : s + 1 ≤ r := (List.mem_range'_1.mp hr).1
    show lookupRow (e :: L) r = lookupRow L r
    conv_lhs => unfold lookupRow
    have : ¬ e.1 = r := by omega
    simp [this]

theorem colEntries_fst_subset (rs rf : List Nat) (vals : List Row) (j : Nat) :
    ∀ r ∈ (colEntries ((rs.zip rf).zip vals) j).map Prod.fst, r ∈ rs := by
  intro r hr
  simp only [colEntries, List.map_map, List.mem_map, List.mem_filter, Function.comp] at hr
  obtain ⟨e, ⟨he, _⟩, rfl⟩ := hr
  have h1 := (List.of_mem_zip he).1
  exact (List.of_mem_zip h1).1

/-- column `j`, unfilled slots skipped = the partner values of `j` in pair order -/
theorem column_filterMap (rf rs : List Nat) (vals : List Row) (j : Nat)
    (h : rows rf = some rs) (hv : vals.length = rf.length) :
    (column ((rs.zip rf).zip vals) (rs.foldl max 0 + 1) j).filterMap id =
      ((rf.zip vals).filter (fun e => e.1 == j)).map Prod.snd := by
  obtain ⟨h1, h2⟩ := colEntries_rowsGo rf _ rs vals j h hv
  set L := colEntries ((rs.zip rf).zip vals) j with hL
  have h1' : L.map Prod.fst = List.range' 0 L.length := by
    have hlen : L.length = rf.count j := by
      have := congrArg List.length h1
      simpa using this
    rw [h1, hlen]
    congr 1
    by_cases hj : j < rf.length <;> simp [hj]
  -- the matrix has at least as many rows as the column has entries
  have hrows : L.length ≤ rs.foldl max 0 + 1 := by
    rcases Nat.eq_zero_or_pos L.length with h0 | hpos
    · omega
    · have hm : L.length - 1 ∈ L.map Prod.fst := by
        rw [h1']; exact List.mem_range'_1.mpr ⟨by omega, by omega⟩
      have := (le_foldl_max rs 0).2 _ (colEntries_fst_subset rs rf vals j _ hm)
      omega
  obtain ⟨d, hd⟩ := Nat.exists_eq_add_of_le hrows
  unfold column
  rw [List.filterMap_map, ← h2, hd, List.range_eq_range']
  simpa using filterMap_lookupRow L 0 d h1'

/-! ## the matrix as a partial map -/

theorem matGet_eq_lookupRow (m : Mat) (r j : Nat) : matGet m r j = lookupRow (colEntries m j) r := by
  induction m with
  | nil => rfl
  | cons e m ih =>
    obtain ⟨⟨r', c'⟩, v⟩ := e
    rw [colEntries_cons]
    by_cases hc : c' = j
    · subst hc
      simp only [matGet, if_true, lookupRow, and_true, ih]
    · simp only [matGet, hc, and_false, if_false, ih]

theorem lookupRow_eq_getElem? (L : List (Nat × Row)) (s r : Nat)
    (h : L.map Prod.fst = List.range' s L.length) :
    lookupRow L r = if s ≤ r then (L.map Prod.snd)[r - s]? else none := by
  induction L generalizing s with
  | nil => simp [lookupRow]
  | cons e L ih =>
    simp only [List.map_cons, List.length_cons, List.range'_succ, List.cons.injEq] at h
    obtain ⟨h1, h2⟩ := h
    unfold lookupRow
    by_cases he : e.1 = r
    · subst he; simp [h1]
    · simp only [he, if_false, ih (s + 1) h2]
      by_cases hs : s ≤ r
      · have : s + 1 ≤ r := by omega
        have e2 : r - s = (r - (s + 1)) + 1 := by omega
        simp only [this, hs, if_true, List.map_cons, e2, List.getElem?_cons_succ]
      · have : ¬ s + 1 ≤ r := by omega
        simp [this, hs]

theorem colEntries_length_le (rf rs : List Nat) (vals : List Row) (j : Nat)
    (h : rows rf = some rs) (hv : vals.length = rf.length) :
    (colEntries ((rs.zip rf).zip vals) j).length ≤ rs.foldl max 0 + 1 := by
  obtain ⟨h1, -⟩ := colEntries_rowsGo rf _ rs vals j h hv
  set L := colEntries ((rs.zip rf).zip vals) j with hL
  have hlen : L.length = rf.count j := by simpa using congrArg List.length h1
  have h1' : L.map Prod.fst = List.range' 0 L.length := by
    rw [h1, hlen]; congr 1
    by_cases hj : j < rf.length <;> simp [hj]
  rcases Nat.eq_zero_or_pos L.length with h0 | hpos
  · omega
  · have hm : L.length - 1 ∈ L.map Prod.fst := by
      rw [h1']; exact List.mem_range'_1.mpr ⟨by omega, by omega⟩
    have := (le_foldl_max rs 0).2 _ (colEntries_fst_subset rs rf vals j _ hm)
    omega

/-- the bin matrix as a partial map: slot `(r, j)` holds the `r`-th partner value of `j` -/
theorem matGet_spec (rf rs : List Nat) (vals : List Row) (r j : Nat)
    (h : rows rf = some rs) (hv : vals.length = rf.length) :
    matGet ((rs.zip rf).zip vals) r j = (((rf.zip vals).filter (fun e => e.1 == j)).map Prod.snd)[r]? := by
  obtain ⟨h1, h2⟩ := colEntries_rowsGo rf _ rs vals j h hv
  set L := colEntries ((rs.zip rf).zip vals) j with hL
  have hlen : L.length = rf.count j := by simpa using congrArg List.length h1
  have h1' : L.map Prod.fst = List.range' 0 L.length := by
    rw [h1, hlen]; congr 1
    by_cases hj : j < rf.length <;> simp [hj]
  rw [matGet_eq_lookupRow, ← hL, lookupRow_eq_getElem? L 0 r h1', h2]
  simp
/-! ## channels and statistics -/

theorem filterMap_cellChan (col : List (Option Row)) (ch : Nat) :
    (col.map (cellChan ch)).filterMap id = ((col.filterMap id).map (chan ch)).filterMap id := by
  induction col with
  | nil => rfl
  | cons x xs ih =>
    cases x with
    | none =>
      have e1 : List.filterMap id (List.map (cellChan ch) (none :: xs)) =
          List.filterMap id (List.map (cellChan ch) xs) := by
        simp only [List.map_cons, List.filterMap_cons, cellChan, id]
      have e2 : List.filterMap id ((none : Option Row) :: xs) = List.filterMap id xs := by simp
      rw [e1, e2, ih]
    | some r =>
      have e1 : List.filterMap id (List.map (cellChan ch) (some r :: xs)) =
          (chan ch r).toList ++ List.filterMap id (List.map (cellChan ch) xs) := by
        cases h : chan ch r <;> simp [cellChan, h]
      have e2 : List.filterMap id (List.map (chan ch) (List.filterMap id (some r :: xs))) =
          (chan ch r).toList ++ List.filterMap id (List.map (chan ch) (List.filterMap id xs)) := by
        cases h : chan ch r <;> simp [h]
      rw [e1, e2, ih]

theorem stat_congr {a b : List Val} (h : a.filterMap id = b.filterMap id) : stat a = stat b := by
  unfold stat; simp only [h]

theorem partners_eq (pairs : List (Nat × Nat)) (S : List Row) (vals : List Row) (j : Nat)
    (h : gather S (pairs.map Prod.snd) = some vals) :
    (((pairs.map Prod.fst).zip vals).filter (fun e => e.1 == j)).map Prod.snd =
      (pairs.filter (fun p => p.1 == j)).filterMap (fun p => S[p.2]?) := by
  induction pairs generalizing vals with
  | nil => simp
  | cons p ps ih =>
    simp only [List.map_cons] at h
    unfold gather at h
    split at h
    · rename_i v vs h1 h2
      simp only [Option.some.injEq] at h; subst h
      simp only [List.map_cons, List.zip_cons_cons, List.filter_cons]
      by_cases e : (p.1 == j) = true
      · simp only [e, if_true, List.map_cons, List.filterMap_cons, h1, ih vs h2]
      · simp only [e, Bool.false_eq_true, if_false, ih vs h2]
    · simp at h

end Compact
