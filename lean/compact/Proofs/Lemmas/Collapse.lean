import Proofs.Lemmas.Compact
