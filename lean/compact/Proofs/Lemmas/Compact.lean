import Model.Compact
import Mathlib.Tactic
import Mathlib.Data.List.Perm.Subperm

/-!
Helper lemmas for C13: `uniq`, `gather`, validity, `swap`, and the row assignment
(`_rows_for_secondaries`).
-/

namespace Compact

/-! ## uniq -/

theorem mem_uniqGo {seen l : List Nat} {a : Nat} : a ∈ uniqGo seen l ↔ a ∈ l ∧ a ∉ seen := by
  induction l generalizing seen with
  | nil => simp [uniqGo]
  | cons x xs ih =>
    unfold uniqGo
    by_cases hx : x ∈ seen
    · simp only [hx, if_true, ih, List.mem_cons]
      constructor
      · rintro ⟨h1, h2⟩; exact ⟨Or.inr h1, h2⟩
      · rintro ⟨h1 | h1, h2⟩
        · subst h1; exact absurd hx h2
        · exact ⟨h1, h2⟩
    · simp only [hx, if_false, List.mem_cons, ih]
      constructor
      · rintro (h | ⟨h1, h2⟩)
        · subst h; exact ⟨Or.inl rfl, hx⟩
        · exact ⟨Or.inr h1, fun h => h2 (Or.inr h)⟩
      · rintro ⟨h1 | h1, h2⟩
        · exact Or.inl h1
        · by_cases e : a = x
          · exact Or.inl e
          · exact Or.inr ⟨h1, by rintro (h | h); exacts [e h, h2 h]⟩

theorem nodup_uniqGo (seen l : List Nat) : (uniqGo seen l).Nodup := by
  induction l generalizing seen with
  | nil => simp [uniqGo]
  | cons x xs ih =>
    unfold uniqGo
    by_cases hx : x ∈ seen
    · simp only [hx, if_true]; exact ih seen
    · simp only [hx, if_false, List.nodup_cons]
      refine ⟨?_, ih _⟩
      intro h
      exact (mem_uniqGo.mp h).2 (List.mem_cons_self ..)

theorem mem_uniq {l : List Nat} {a : Nat} : a ∈ uniq l ↔ a ∈ l := by
  simp [uniq, mem_uniqGo]

theorem nodup_uniq (l : List Nat) : (uniq l).Nodup := nodup_uniqGo [] l

/-- `np.unique(x).size` ≤ `x.size` -/
theorem length_uniq_le (l : List Nat) : (uniq l).length ≤ l.length :=
  ((nodup_uniq l).subperm (fun _ h => mem_uniq.mp h)).length_le

theorem le_foldl_max (l : List Nat) (a : Nat) : a ≤ l.foldl max a ∧ ∀ x ∈ l, x ≤ l.foldl max a := by
  induction l generalizing a with
  | nil => simp
  | cons y ys ih =>
    simp only [List.foldl_cons, List.mem_cons]
    obtain ⟨h1, h2⟩ := ih (max a y)
    refine ⟨by omega, ?_⟩
    rintro x (rfl | hx)
    · omega
    · exact h2 x hx

/-! ## the `new_indices` lookup table -/

theorem tableGo_length (u : List Nat) (k : Nat) (t : List (Option Nat)) :
    (tableGo u k t).length = t.length := by
  induction u generalizing k t with
  | nil => rfl
  | cons x xs ih => simp [tableGo, ih]

theorem tableGo_get (u : List Nat) (k : Nat) (t : List (Option Nat)) (hn : u.Nodup)
    (hb : ∀ x ∈ u, x < t.length) (x : Nat) :
    (tableGo u k t)[x]? = if x ∈ u then some (some (k + u.idxOf x)) else t[x]? := by
  induction u generalizing k t with
  | nil => simp [tableGo]
  | cons y ys ih =>
    have hy : y < t.length := hb y (List.mem_cons_self ..)
    obtain ⟨hny, hn'⟩ := List.nodup_cons.mp hn
    simp only [tableGo]
    rw [ih (k + 1) (t.set y (some k)) hn' (by intro z hz; simpa using hb z (List.mem_cons_of_mem _ hz))]
    by_cases hxy : x = y
    · subst hxy
      simp [hny, hy]
    · have hyx : ¬ y = x := fun h => hxy h.symm
      by_cases hm : x ∈ ys
      · have hb' : (y == x) = false := by simpa using hyx
        simp only [hm, if_true, List.mem_cons, or_true, List.idxOf_cons, hb', cond_false]
        congr 2; omega
      · simp [hm, hxy, hyx]

theorem newIndex_mkTable (u : List Nat) (hn : u.Nodup) (x : Nat) (hx : x ∈ u) :
    newIndex (mkTable u) x = some (u.idxOf x) := by
  unfold newIndex mkTable
  rw [tableGo_get u 0 _ hn ?_ x]
  · simp [hx]
  · intro z hz
    have := (le_foldl_max u 0).2 z hz
    simp; omega

theorem newPairs_eq (uP uS : List Nat) (hP : uP.Nodup) (hS : uS.Nodup) (l : List (Nat × Nat))
    (h : ∀ q ∈ l, q.1 ∈ uP ∧ q.2 ∈ uS) :
    newPairs (mkTable uP) (mkTable uS) l = some (l.map fun p => (uP.idxOf p.1, uS.idxOf p.2)) := by
  induction l with
  | nil => rfl
  | cons q qs ih =>
    have hq := h q (List.mem_cons_self ..)
    simp only [newPairs, newIndex_mkTable uP hP q.1 hq.1, newIndex_mkTable uS hS q.2 hq.2,
      ih (fun x hx => h x (List.mem_cons_of_mem _ hx)), List.map_cons]

/-! ## collapser dict -/

theorem lookup_upsert_self {α : Type} (d : List (String × α)) (k : String) (v : α) :
    (upsert d k v).lookup k = some v := by
  induction d with
  | nil => simp [upsert]
  | cons e d ih =>
    obtain ⟨k', v'⟩ := e
    unfold upsert
    by_cases h : k' = k
    · simp [h]
    · have h' : (k == k') = false := by simpa using fun e => h e.symm
      simp [h, List.lookup, h', ih]

theorem lookup_upsert_ne {α : Type} (d : List (String × α)) (k k2 : String) (v : α) (hne : k2 ≠ k) :
    (upsert d k v).lookup k2 = d.lookup k2 := by
  induction d with
  | nil =>
    have : (k2 == k) = false := by simpa using hne
    simp [upsert, List.lookup, this]
  | cons e d ih =>
    obtain ⟨k', v'⟩ := e
    unfold upsert
    by_cases h : k' = k
    · subst h
      have : (k2 == k') = false := by simpa using hne
      simp [List.lookup, this]
    · simp only [h, if_false, List.lookup]
      cases k2 == k' <;> simp [ih]

/-! ## gather -/

theorem gather_length {data : List Row} {idx : List Nat} {r : List Row}
    (h : gather data idx = some r) : r.length = idx.length := by
  induction idx generalizing r with
  | nil => simp [gather] at h; subst h; rfl
  | cons i is ih =>
    unfold gather at h
    split at h
    · rename_i v vs h1 h2
      simp only [Option.some.injEq] at h; subst h
      simp [ih h2]
    · simp at h

theorem gather_getElem? {data : List Row} {idx : List Nat} {r : List Row}
    (h : gather data idx = some r) (k : Nat) : r[k]? = (idx[k]?).bind (fun i => data[i]?) := by
  induction idx generalizing r k with
  | nil => simp [gather] at h; subst h; simp
  | cons i is ih =>
    unfold gather at h
    split at h
    · rename_i v vs h1 h2
      simp only [Option.some.injEq] at h; subst h
      cases k with
      | zero => simp [h1]
      | succ k => simpa using ih h2 k
    · simp at h

theorem gather_isSome {data : List Row} {idx : List Nat} (h : ∀ i ∈ idx, i < data.length) :
    ∃ r, gather data idx = some r := by
  induction idx with
  | nil => exact ⟨[], rfl⟩
  | cons i is ih =>
    obtain ⟨r, hr⟩ := ih (fun j hj => h j (List.mem_cons_of_mem _ hj))
    have hi : i < data.length := h i (List.mem_cons_self ..)
    refine ⟨data[i] :: r, ?_⟩
    unfold gather
    simp [hr, List.getElem?_eq_getElem hi]

theorem gather_some_bound {data : List Row} {idx : List Nat} {r : List Row}
    (h : gather data idx = some r) : ∀ i ∈ idx, i < data.length := by
  induction idx generalizing r with
  | nil => simp
  | cons i is ih =>
    unfold gather at h
    split at h
    · rename_i v vs h1 h2
      intro j hj
      rcases List.mem_cons.mp hj with rfl | hj
      · by_contra hc
        rw [List.getElem?_eq_none (by omega)] at h1
        simp at h1
      · exact ih h2 j hj
    · simp at h

/-! ## validity -/

theorem validB_iff (c : Compact) : validB c = true ↔ Valid c := by
  unfold validB Valid
  simp only [Bool.and_eq_true, List.all_eq_true, List.any_eq_true, decide_eq_true_eq,
    List.mem_range, beq_iff_eq, and_assoc]

instance (c : Compact) : Decidable (Valid c) := decidable_of_iff _ (validB_iff c)

theorem swap_swap (c : Compact) : swap (swap c) = c := by
  cases c with
  | mk pairs P S =>
    simp [swap, List.map_map, Function.comp_def]

theorem valid_swap {c : Compact} (h : Valid c) : Valid (swap c) := by
  obtain ⟨h1, h2, h3⟩ := h
  refine ⟨?_, ?_, ?_⟩
  · intro p hp
    simp only [swap, List.mem_map] at hp
    obtain ⟨q, hq, rfl⟩ := hp
    exact ⟨(h1 q hq).2, (h1 q hq).1⟩
  · intro i hi
    obtain ⟨q, hq, e⟩ := h3 i hi
    exact ⟨(q.2, q.1), by simp only [swap, List.mem_map]; exact ⟨q, hq, rfl⟩, e⟩
  · intro i hi
    obtain ⟨q, hq, e⟩ := h2 i hi
    exact ⟨(q.2, q.1), by simp only [swap, List.mem_map]; exact ⟨q, hq, rfl⟩, e⟩

/-- a valid dataset has at least as many pairs as stored reference points (pigeonhole) -/
theorem valid_P_le_pairs {c : Compact} (h : Valid c) : c.P.length ≤ c.pairs.length := by
  have hsub : List.range c.P.length ⊆ refs c := by
    intro i hi
    obtain ⟨p, hp, e⟩ := h.2.1 i (List.mem_range.mp hi)
    exact List.mem_map.mpr ⟨p, hp, e⟩
  have := ((List.nodup_range (n := c.P.length)).subperm hsub).length_le
  simpa [refs] using this

theorem valid_uniq_refs {c : Compact} (h : Valid c) : (uniq (refs c)).length = c.P.length := by
  have h1 : (uniq (refs c)).Perm (List.range c.P.length) := by
    refine (List.perm_ext_iff_of_nodup (nodup_uniq _) List.nodup_range).mpr ?_
    intro a
    rw [mem_uniq, List.mem_range]
    constructor
    · intro ha
      obtain ⟨p, hp, e⟩ := List.mem_map.mp ha
      exact e ▸ (h.1 p hp).1
    · intro ha
      obtain ⟨p, hp, e⟩ := h.2.1 a ha
      exact List.mem_map.mpr ⟨p, hp, e⟩
  simpa using h1.length_eq

/-! ## row assignment -/

/-- the `current_row` array after/before processing: a counter per reference index -/
theorem rowsGo_spec (rf : List Nat) (cur : List Nat) (h : ∀ x ∈ rf, x < cur.length) :
    ∃ r, rowsGo rf cur = some r ∧ r.length = rf.length ∧
      ∀ k (hk : k < rf.length), r[k]? = some (cur[rf[k]]?.getD 0 + (rf.take k).count rf[k]) := by
  induction rf generalizing cur with
  | nil => exact ⟨[], rfl, rfl, by simp⟩
  | cons p ps ih =>
    have hp : p < cur.length := h p (List.mem_cons_self ..)
    obtain ⟨r, hr, hl, hs⟩ := ih (cur.set p (cur[p] + 1))
      (by intro x hx; simpa using h x (List.mem_cons_of_mem _ hx))
    refine ⟨cur[p] :: r, ?_, by simp [hl], ?_⟩
    · unfold rowsGo
      simp [List.getElem?_eq_getElem hp, hr]
    · intro k hk
      cases k with
      | zero => simp [List.getElem?_eq_getElem hp]
      | succ k =>
        have hk' : k < ps.length := by simpa using hk
        have := hs k hk'
        simp only [List.getElem?_cons_succ, List.getElem_cons_succ, List.take_succ_cons, this]
        congr 1
        by_cases e : ps[k] = p
        · have hp' : ps[k] < cur.length := e ▸ hp
          simp [e, hp]
          omega
        · have e' : ¬ p = ps[k] := fun h => e h.symm
          simp [e']

theorem rows_spec (rf : List Nat) (h : ∀ x ∈ rf, x < rf.length) :
    ∃ r, rows rf = some r ∧ r.length = rf.length ∧
      ∀ k (hk : k < rf.length), r[k]? = some ((rf.take k).count rf[k]) := by
  obtain ⟨r, hr, hl, hs⟩ := rowsGo_spec rf (List.replicate rf.length 0) (by simpa using h)
  refine ⟨r, hr, hl, ?_⟩
  intro k hk
  rw [hs k hk]
  have : rf[k] < rf.length := h _ (List.getElem_mem hk)
  simp [this]

theorem rows_none_of_oob (rf : List Nat) (cur : List Nat) (h : ∃ x ∈ rf, cur.length ≤ x) :
    rowsGo rf cur = none := by
  induction rf generalizing cur with
  | nil => simp at h
  | cons p ps ih =>
    unfold rowsGo
    by_cases hp : p < cur.length
    · simp only [List.getElem?_eq_getElem hp]
      obtain ⟨x, hx, hxl⟩ := h
      rcases List.mem_cons.mp hx with rfl | hx
      · omega
      · rw [ih _ ⟨x, hx, by simpa using hxl⟩]; rfl
    · rw [List.getElem?_eq_none (by omega)]

theorem count_take_lt_count (rf : List Nat) (k : Nat) (hk : k < rf.length) :
    (rf.take k).count rf[k] < rf.count rf[k] := by
  have h1 : rf.take (k + 1) = rf.take k ++ [rf[k]] := by
    rw [List.take_add_one, List.getElem?_eq_getElem hk]; rfl
  have h2 : (rf.take (k + 1)).count rf[k] ≤ rf.count rf[k] :=
    (List.take_sublist _ _).count_le _
  rw [h1, List.count_append] at h2
  simp at h2
  omega

theorem count_take_injective (rf : List Nat) (k l : Nat) (hk : k < rf.length) (hl : l < rf.length)
    (hx : rf[k] = rf[l]) (hc : (rf.take k).count rf[k] = (rf.take l).count rf[l]) : k = l := by
  by_contra hne
  -- wlog k < l
  have key : ∀ a b (ha : a < rf.length) (hb : b < rf.length), a < b → rf[a] = rf[b] →
      (rf.take a).count rf[a] < (rf.take b).count rf[b] := by
    intro a b ha hb hab e
    have h1 : rf.take (a + 1) = rf.take a ++ [rf[a]] := by
      rw [List.take_add_one, List.getElem?_eq_getElem ha]; rfl
    have h2 : (rf.take (a + 1)).count rf[a] ≤ (rf.take b).count rf[a] := by
      have : rf.take (a + 1) = (rf.take b).take (a + 1) := by
        rw [List.take_take]; congr 1; omega
      rw [this]
      exact (List.take_sublist _ _).count_le _
    rw [h1, List.count_append] at h2
    simp at h2
    rw [← e]; omega
  rcases Nat.lt_or_gt_of_ne hne with h | h
  · have := key k l hk hl h hx; omega
  · have := key l k hl hk h hx.symm; omega

end Compact
