import Model.Compact
namespace Compact
theorem swap_swap (c : Compact) : swap (swap c) = c := by
  cases c with
  | mk pairs P S =>
    simp [swap, List.map_map, Function.comp_def]
end Compact
