import Proofs.Lemmas.Collapse
import Proofs.Lemmas.Concat
import Proofs.Audit

/-!
# C13 — compact collocation data stay consistent under expand, collapse and concat

Property theorems only (helper lemmas live in `Proofs/Lemmas/{Compact,Collapse,Concat}.lean`).
All statements hold for arbitrary pair lists (any length, any order, duplicates,
one-to-many and many-to-one), arbitrary stored rows (`none` = NaN, any number of
flattened extra-dimension entries) and arbitrary lists of datasets.
-/

open Compact

/-! ## compaction (`Collocator._create_return`) -/

/-- **C13_compact_valid** — whatever original index pairs the search delivers, the compact
result has indices in range, every stored point takes part in at least one pair, there is
one new pair per original pair, and no point is stored twice (`P.length` = number of
distinct original primary indices, same for `S`). -/
theorem C13_compact_valid (op : List (Nat × Nat)) (P0 S0 : List Row) (c : Compact.Compact)
    (h : compactify op P0 S0 = .ok (some c)) :
    Valid c ∧ c.pairs.length = op.length ∧
    c.P.length = (uniq (op.map Prod.fst)).length ∧ c.S.length = (uniq (op.map Prod.snd)).length := by
  simp only [compactify] at h
  split at h
  · simp at h
  · rw [newPairs_eq _ _ (nodup_uniq _) (nodup_uniq _) op (fun q hq =>
      ⟨mem_uniq.mpr (List.mem_map.mpr ⟨q, hq, rfl⟩), mem_uniq.mpr (List.mem_map.mpr ⟨q, hq, rfl⟩)⟩)] at h
    split at h
    · rename_i P S prs hP hS hprs
      simp only [Option.some.injEq] at hprs
      simp only [Except.ok.injEq, Option.some.injEq] at h
      subst h hprs
      have lP := gather_length hP
      have lS := gather_length hS
      refine ⟨⟨?_, ?_, ?_⟩, by simp, lP, lS⟩
      · intro p hp
        simp only [List.mem_map] at hp
        obtain ⟨q, hq, rfl⟩ := hp
        simp only [lP, lS]
        exact ⟨List.idxOf_lt_length_of_mem (mem_uniq.mpr (List.mem_map.mpr ⟨q, hq, rfl⟩)),
               List.idxOf_lt_length_of_mem (mem_uniq.mpr (List.mem_map.mpr ⟨q, hq, rfl⟩))⟩
      · intro i hi
        simp only [lP] at hi
        have hm : (uniq (op.map Prod.fst))[i] ∈ op.map Prod.fst := mem_uniq.mp (List.getElem_mem hi)
        obtain ⟨q, hq, e⟩ := List.mem_map.mp hm
        refine ⟨_, List.mem_map.mpr ⟨q, hq, rfl⟩, ?_⟩
        simp only [e]
        exact (nodup_uniq _).idxOf_getElem i hi
      · intro i hi
        simp only [lS] at hi
        have hm : (uniq (op.map Prod.snd))[i] ∈ op.map Prod.snd := mem_uniq.mp (List.getElem_mem hi)
        obtain ⟨q, hq, e⟩ := List.mem_map.mp hm
        refine ⟨_, List.mem_map.mpr ⟨q, hq, rfl⟩, ?_⟩
        simp only [e]
        exact (nodup_uniq _).idxOf_getElem i hi
    · simp at h

/-- **C13_compact_total** — with original indices inside the data and at least one pair,
the compaction succeeds (no IndexError, not the empty result). -/
theorem C13_compact_total (op : List (Nat × Nat)) (P0 S0 : List Row) (hne : op ≠ [])
    (h : ∀ p ∈ op, p.1 < P0.length ∧ p.2 < S0.length) :
    ∃ c, compactify op P0 S0 = .ok (some c) := by
  obtain ⟨P, hP⟩ := gather_isSome (data := P0) (idx := uniq (op.map Prod.fst)) (by
    intro i hi
    obtain ⟨q, hq, e⟩ := List.mem_map.mp (mem_uniq.mp hi)
    exact e ▸ (h q hq).1)
  obtain ⟨S, hS⟩ := gather_isSome (data := S0) (idx := uniq (op.map Prod.snd)) (by
    intro i hi
    obtain ⟨q, hq, e⟩ := List.mem_map.mp (mem_uniq.mp hi)
    exact e ▸ (h q hq).2)
  have : op.isEmpty = false := by cases op <;> simp_all
  have hn := newPairs_eq _ _ (nodup_uniq (op.map Prod.fst)) (nodup_uniq (op.map Prod.snd)) op (fun q hq =>
    ⟨mem_uniq.mpr (List.mem_map.mpr ⟨q, hq, rfl⟩), mem_uniq.mpr (List.mem_map.mpr ⟨q, hq, rfl⟩)⟩)
  exact ⟨_, by simp only [compactify, this, hP, hS, hn]; rfl⟩

/-- **C13_compact_expand** — compaction loses nothing: expanding the compact result gives,
pair by pair, the values of the original points of that pair. -/
theorem C13_compact_expand (op : List (Nat × Nat)) (P0 S0 : List Row) (c : Compact.Compact)
    (h : compactify op P0 S0 = .ok (some c)) :
    expand c = gp P0 S0 op := by
  simp only [compactify] at h
  split at h
  · simp at h
  · rw [newPairs_eq _ _ (nodup_uniq _) (nodup_uniq _) op (fun q hq =>
      ⟨mem_uniq.mpr (List.mem_map.mpr ⟨q, hq, rfl⟩), mem_uniq.mpr (List.mem_map.mpr ⟨q, hq, rfl⟩)⟩)] at h
    split at h
    · rename_i P S prs hP hS hprs
      simp only [Option.some.injEq] at hprs
      simp only [Except.ok.injEq, Option.some.injEq] at h
      subst h hprs
      rw [expand_eq_gp]
      simp only
      -- only the membership of the original indices in `op` matters
      have key : ∀ l : List (Nat × Nat), (∀ q ∈ l, q ∈ op) →
          gp P S (l.map fun p => ((uniq (op.map Prod.fst)).idxOf p.1, (uniq (op.map Prod.snd)).idxOf p.2))
            = gp P0 S0 l := by
        intro l hl
        induction l with
        | nil => rfl
        | cons q qs ih =>
          have hq := hl q (List.mem_cons_self ..)
          have m1 : q.1 ∈ uniq (op.map Prod.fst) := mem_uniq.mpr (List.mem_map.mpr ⟨q, hq, rfl⟩)
          have m2 : q.2 ∈ uniq (op.map Prod.snd) := mem_uniq.mpr (List.mem_map.mpr ⟨q, hq, rfl⟩)
          have e1 : P[(uniq (op.map Prod.fst)).idxOf q.1]? = P0[q.1]? := by
            rw [gather_getElem? hP, List.getElem?_eq_getElem (List.idxOf_lt_length_of_mem m1)]
            simp [List.getElem_idxOf]
          have e2 : S[(uniq (op.map Prod.snd)).idxOf q.2]? = S0[q.2]? := by
            rw [gather_getElem? hS, List.getElem?_eq_getElem (List.idxOf_lt_length_of_mem m2)]
            simp [List.getElem_idxOf]
          simp only [List.map_cons, gp, e1, e2, ih (fun x hx => hl x (List.mem_cons_of_mem _ hx))]
      exact key op (fun _ h => h)
    · simp at h

/-! ## row assignment (`_rows_for_secondaries`) -/

/-- **C13_rows_injective** — for a valid dataset the row loop succeeds; `rows k` is the
number of earlier pairs with the same reference point, it stays below the multiplicity of
that reference point, and `k ↦ (rows k, ref k)` is injective: the bin matrix is filled
without collision and without leaving its `max rows + 1` rows. -/
theorem C13_rows_injective (c : Compact.Compact) (hv : Valid c) :
    ∃ r, rows (refs c) = some r ∧ r.length = c.pairs.length ∧
      (∀ k (hk : k < (refs c).length),
          r[k]? = some (((refs c).take k).count (refs c)[k]) ∧
          ((refs c).take k).count (refs c)[k] < (refs c).count (refs c)[k]) ∧
      (∀ k l (hk : k < (refs c).length) (hl : l < (refs c).length),
          r[k]? = r[l]? → (refs c)[k] = (refs c)[l] → k = l) := by
  have hb : ∀ x ∈ refs c, x < (refs c).length := by
    intro x hx
    obtain ⟨p, hp, e⟩ := List.mem_map.mp hx
    have := (hv.1 p hp).1
    have := valid_P_le_pairs hv
    simp only [refs, List.length_map]
    omega
  obtain ⟨r, hr, hl, hs⟩ := rows_spec (refs c) hb
  refine ⟨r, hr, by simpa [refs] using hl, ?_, ?_⟩
  · intro k hk
    exact ⟨hs k hk, count_take_lt_count _ k hk⟩
  · intro k l hk hl' he hx
    rw [hs k hk, hs l hl'] at he
    exact count_take_injective _ k l hk hl' hx (Option.some.inj he)

/-- **C13_matrix_spec** — for a valid dataset the NaN-padded bin matrix is exactly the partial
map `(r, j) ↦` the `r`-th partner point of reference point `j` (in pair order): no slot is
overwritten, no value is lost, the matrix has a column per stored reference point and at
least as many rows as any reference point has partners. -/
theorem C13_matrix_spec (c : Compact.Compact) (hv : Valid c) :
    ∃ m nrows, binMatrix c = some (m, nrows, c.P.length) ∧
      (∀ r j, matGet m r j = (partners c j)[r]?) ∧
      (∀ j, (partners c j).length ≤ nrows) := by
  obtain ⟨rs, hrs, -, -, -⟩ := C13_rows_injective c hv
  obtain ⟨vals, hvals⟩ := gather_isSome (data := c.S) (idx := secs c) (by
    intro i hi
    obtain ⟨p, hp, e⟩ := List.mem_map.mp hi
    exact e ▸ (hv.1 p hp).2)
  have hlen : vals.length = (refs c).length := by
    rw [gather_length hvals]; simp [refs, secs]
  have hpart : ∀ j, (((refs c).zip vals).filter (fun e => e.1 == j)).map Prod.snd = partners c j :=
    fun j => partners_eq c.pairs c.S vals j hvals
  refine ⟨(rs.zip (refs c)).zip vals, rs.foldl max 0 + 1,
    by simp only [binMatrix, hrs, hvals, valid_uniq_refs hv], ?_, ?_⟩
  · intro r j
    rw [matGet_spec (refs c) rs vals r j hrs hlen, hpart]
  · intro j
    have h1 := colEntries_length_le (refs c) rs vals j hrs hlen
    have h2 := (colEntries_rowsGo (refs c) _ rs vals j hrs hlen).2
    have := congrArg List.length h2
    rw [hpart] at this
    simp only [List.length_map] at this
    omega

/-! ## collapse -/

/-- **C13_collapse_spec** — on a valid dataset with at least one pair `collapse` succeeds,
copies the reference group unchanged, returns one row per stored reference point, and the
statistics of reference point `j`, flattened extra-dimension entry `ch`, are count / sum /
sum of squares over the non-NaN values of exactly the partner points of `j`
(`mean`, `var` are functions of these three, see `C13_mean_var`). -/
theorem C13_collapse_spec (c : Compact.Compact) (w : Nat) (hv : Valid c) (hne : c.pairs ≠ []) :
    ∃ o, collapse c w = .ok o ∧ o.ref = c.P ∧ o.stats.length = c.P.length ∧
      ∀ j, j < c.P.length → ∀ ch, ch < w →
        (o.stats[j]?).bind (·[ch]?) = some (stat ((partners c j).map (chan ch))) := by
  obtain ⟨rs, hrs, -, -, -⟩ := C13_rows_injective c hv
  obtain ⟨vals, hvals⟩ := gather_isSome (data := c.S) (idx := secs c) (by
    intro i hi
    obtain ⟨p, hp, e⟩ := List.mem_map.mp hi
    exact e ▸ (hv.1 p hp).2)
  have hu := valid_uniq_refs hv
  have hany : (refs c).any (fun x => decide ((uniq (refs c)).length ≤ x)) = false := by
    rw [List.any_eq_false]
    intro x hx
    obtain ⟨p, hp, e⟩ := List.mem_map.mp hx
    have := (hv.1 p hp).1
    simp only [decide_eq_true_eq, hu]
    omega
  have hemp : (refs c).isEmpty = false := by
    cases hc : c.pairs with
    | nil => exact absurd hc hne
    | cons a l => simp [refs, hc]
  have hlen : vals.length = (refs c).length := by
    rw [gather_length hvals]; simp [refs, secs]
  rw [hu] at hany
  refine ⟨_, by simp only [collapse, hemp, hrs, hvals, hu, hany, Bool.false_eq_true, if_false, ne_eq,
    not_true_eq_false]; rfl, rfl, by simp, ?_⟩
  intro j hj ch hch
  simp only [List.getElem?_map, List.getElem?_range hj, Option.map_some, Option.bind_some,
    List.getElem?_range hch]
  congr 1
  apply stat_congr
  rw [filterMap_cellChan, column_filterMap (refs c) rs vals j hrs hlen]
  congr 2
  exact partners_eq c.pairs c.S vals j hvals

/-- **C13_collapse_spec_second_reference** — `reference=<second group>` is the same
statement for the swapped dataset, which is valid whenever the dataset is. -/
theorem C13_collapse_spec_second_reference (c : Compact.Compact) (w : Nat) (hv : Valid c)
    (hne : c.pairs ≠ []) :
    ∃ o, collapse (swap c) w = .ok o ∧ o.ref = c.S ∧ o.stats.length = c.S.length ∧
      ∀ j, j < c.S.length → ∀ ch, ch < w →
        (o.stats[j]?).bind (·[ch]?) = some (stat ((partners (swap c) j).map (chan ch))) :=
  C13_collapse_spec (swap c) w (valid_swap hv) (by cases h : c.pairs <;> simp_all [swap])

/-- **C13_collapse_ok_inv** — `collapse` never returns silently on a dataset whose reference
side is malformed: a result exists only if there is at least one pair, all reference indices
are below the number of stored reference points, all partner indices are inside the other
group, and the reference group stores exactly as many points as there are distinct
reference indices. -/
theorem C13_collapse_ok_inv (c : Compact.Compact) (w : Nat) (o : Collapsed)
    (h : collapse c w = .ok o) :
    c.pairs ≠ [] ∧ (∀ p ∈ c.pairs, p.1 < c.P.length ∧ p.2 < c.S.length) ∧
    c.P.length = (uniq (refs c)).length := by
  simp only [collapse] at h
  split at h
  · simp at h
  · rename_i hemp
    split at h
    · rename_i rs vals hrs hvals
      split at h
      · simp at h
      · rename_i hany
        split at h
        · simp at h
        · rename_i hlen
          have hlen' : c.P.length = (uniq (refs c)).length := by
            by_contra hc; exact hlen hc
          refine ⟨?_, ?_, hlen'⟩
          · intro hp; apply hemp; simp [refs, hp]
          · intro p hp
            have h1 : ¬ (uniq (refs c)).length ≤ p.1 := by
              intro hle
              apply hany
              rw [List.any_eq_true]
              exact ⟨p.1, List.mem_map.mpr ⟨p, hp, rfl⟩, by simpa using hle⟩
            have h2 := gather_some_bound hvals p.2 (List.mem_map.mpr ⟨p, hp, rfl⟩)
            exact ⟨by omega, h2⟩
    · simp at h

/-- … and then every stored reference point has a partner: a successful `collapse` implies the
reference side of `Valid`. -/
theorem C13_collapse_ok_ref_used (c : Compact.Compact) (w : Nat) (o : Collapsed)
    (h : collapse c w = .ok o) : ∀ i, i < c.P.length → ∃ p ∈ c.pairs, p.1 = i := by
  obtain ⟨-, hb, hl⟩ := C13_collapse_ok_inv c w o h
  have hsub : uniq (refs c) ⊆ List.range c.P.length := by
    intro x hx
    obtain ⟨p, hp, e⟩ := List.mem_map.mp (mem_uniq.mp hx)
    exact List.mem_range.mpr (e ▸ (hb p hp).1)
  have hperm : (uniq (refs c)).Perm (List.range c.P.length) :=
    ((nodup_uniq _).subperm hsub).perm_of_length_le (by simp [hl])
  intro i hi
  have : i ∈ uniq (refs c) := hperm.mem_iff.mpr (List.mem_range.mpr hi)
  obtain ⟨p, hp, e⟩ := List.mem_map.mp (mem_uniq.mp this)
  exact ⟨p, hp, e⟩

/-- the partners of `j` after the swap are the primary points paired with secondary `j` -/
theorem C13_partners_swap (c : Compact.Compact) (j : Nat) :
    partners (swap c) j = (c.pairs.filter (fun p => p.2 == j)).filterMap (fun p => c.P[p.1]?) := by
  unfold partners swap
  simp only [List.filter_map, List.filterMap_map]
  rfl

/-- **C13_mean_var** — the derived statistics: with `n > 0` non-NaN values `xs`, the model's
`mean` is `Σx / n` and its `var` (`= np.nanstd²`) is the mean squared deviation from the
mean, `Σ(x - mean)² / n`; with `n = 0` both are NaN. -/
theorem C13_mean_var (vs : List Val) :
    let xs := vs.filterMap id
    let s := stat vs
    (xs = [] → s.mean = none ∧ s.var = none) ∧
    (xs ≠ [] → s.mean = some ((xs.sum : ℚ) / xs.length) ∧
      s.var = some (((xs.map (fun (x : Int) => ((x : ℚ) - (xs.sum : ℚ) / xs.length) ^ 2)).sum) / xs.length)) := by
  intro xs s
  constructor
  · intro h
    have : s.count = 0 := by show xs.length = 0; rw [h]; rfl
    simp [Stat.mean, Stat.var, this]
  · intro h
    have hc : s.count = xs.length := rfl
    have hpos : xs.length ≠ 0 := by simpa using h
    have hs : s.sum = xs.sum := rfl
    have hq : s.sumsq = (xs.map (fun x => x * x)).sum := rfl
    have hn : (xs.length : ℚ) ≠ 0 := by exact_mod_cast hpos
    refine ⟨by simp [Stat.mean, hc, hpos, hs], ?_⟩
    simp only [Stat.var, hc, hpos, if_false, hs, hq, Option.some.injEq]
    -- Σ (x - m)² = Σ x² - 2 m Σ x + n m²
    have expand_sq : ∀ (l : List Int) (m : ℚ),
        (l.map (fun (x : Int) => ((x : ℚ) - m) ^ 2)).sum =
          (((l.map (fun x => x * x)).sum : Int) : ℚ) - 2 * m * ((l.sum : Int) : ℚ) + l.length * m ^ 2 := by
      intro l m
      induction l with
      | nil => simp
      | cons a l ih =>
        simp only [List.map_cons, List.sum_cons, ih, List.length_cons]
        push_cast
        ring
    rw [expand_sq]
    field_simp
    ring

/-! ## collapse is a function of its arguments (no hidden state) -/

/-- **C13_history_independent** — in any history of `collapse` calls of one process, the result
of a call (statistics and the names of the statistics variables) is the result of that call
alone, whatever collapsers earlier calls were given.  (In the model this holds by construction:
`runHistory` threads no state; the tie to the code is the history test of the harness.) -/
theorem C13_history_independent (pre post : List Call) (c : Call) :
    (runHistory (pre ++ c :: post))[pre.length]? = some (runCall c) := by
  simp [runHistory]

/-- **C13_collapser_default** — a call without user collapsers produces exactly `_mean`, `_std`,
`_number`; a user entry replaces the statistic of the same name and leaves the other names and
the defaults of other names untouched. -/
theorem C13_collapser_default :
    outNames [] = ["mean", "std", "number"] ∧
    (∀ {α : Type} (d : List (String × α)) (k : String) (v : α), (upsert d k v).lookup k = some v) ∧
    (∀ {α : Type} (d : List (String × α)) (k k2 : String) (v : α), k2 ≠ k →
        (upsert d k v).lookup k2 = d.lookup k2) :=
  ⟨by decide, fun d k v => lookup_upsert_self d k v, fun d k k2 v h => lookup_upsert_ne d k k2 v h⟩

/-! ## expand -/

/-- **C13_expand_spec** — on a valid dataset `expand` succeeds and returns one row per
pair carrying exactly the primary and the secondary values of that pair. -/
theorem C13_expand_spec (c : Compact.Compact) (hv : Valid c) :
    ∃ e, expand c = some e ∧ e.length = c.pairs.length ∧
      ∀ k (hk : k < c.pairs.length),
        e[k]? = some (c.P[c.pairs[k].1]'(hv.1 _ (List.getElem_mem hk)).1,
                      c.S[c.pairs[k].2]'(hv.1 _ (List.getElem_mem hk)).2) := by
  rw [expand_eq_gp]
  exact gp_spec c.P c.S c.pairs hv.1

/-- an index outside the stored points is an IndexError, never a silently wrong row -/
theorem C13_expand_error (c : Compact.Compact)
    (h : ∃ p ∈ c.pairs, c.P.length ≤ p.1 ∨ c.S.length ≤ p.2) : expand c = none := by
  rw [expand_eq_gp]; exact gp_none _ _ _ h

/-! ## concat -/

/-- **C13_concat_expand** — `expand (concat ds) = (ds.map expand).flatten` for every list
of datasets with in-range indices (in particular valid ones). -/
theorem C13_concat_expand (ds : List Compact.Compact) (h : ∀ d ∈ ds, Valid d) :
    ∃ es, expandAll ds = some es ∧ expand (concat ds) = some es.flatten := by
  obtain ⟨es, h1, h2⟩ := gp_concatGo ds [] [] (fun d hd => (h d hd).inRange)
  exact ⟨es, h1, by rw [expand_eq_gp]; simpa [concat] using h2⟩

/-- **C13_concat_valid** — the concatenation of valid datasets is valid; it stores the
concatenated points and has one pair per input pair. -/
theorem C13_concat_valid (ds : List Compact.Compact) (h : ∀ d ∈ ds, Valid d) :
    Valid (concat ds) ∧ (concat ds).pairs.length = (ds.map (·.pairs.length)).sum ∧
    (concat ds).P = (ds.map (·.P)).flatten ∧ (concat ds).S = (ds.map (·.S)).flatten :=
  ⟨validOff_zero.mp (validOff_concatGo ds 0 0 h), concatGo_lengths ds 0 0⟩

/-- the model of lists with mixed `Collocations/group` order (outside the claim: C13's concat
statement presupposes one group order per list) reduces to `concat` when no member is flipped -/
theorem C13_concatMixed_uniform (ds : List Compact.Compact) :
    concatMixed (ds.map (·, false)) = concat ds := concatMixedGo_false ds 0 0

/-! ## non-vacuity -/

/-- one-to-many (primary 0 ↦ secondaries 0, 2, 1) and many-to-one (secondary 1 ↤ primaries
1, 0), unsorted pair order, a NaN value -/
def exA : Compact.Compact :=
  { pairs := [(1, 1), (0, 0), (0, 2), (0, 1)], P := [[some 10], [some 11]],
    S := [[some 5], [some 7], [none]] }

/-- many-to-one only, two channels -/
def exB : Compact.Compact :=
  { pairs := [(2, 0), (0, 0), (1, 0)], P := [[some 1, none], [some 2, some 3], [some 4, some 5]],
    S := [[some 9, some 8]] }

example : Valid exA := by decide
example : Valid exB := by decide
example : Valid (swap exA) := valid_swap (by decide)
example : exA.pairs ≠ [] := by decide
-- hypotheses of C13_compact_valid / C13_compact_expand are satisfiable, duplicates included
example : compactify [(7, 3), (2, 3), (7, 9), (7, 3)] (List.replicate 8 [some 1]) (List.replicate 10 [none])
    = .ok (some { pairs := [(0, 0), (1, 0), (0, 1), (0, 0)], P := [[some 1], [some 1]], S := [[none], [none]] }) := by
  decide
-- the conclusions are not trivial on these instances
example : rows (refs exA) = some [0, 0, 1, 2] := by decide
example : (collapse exA 1).toOption.map (·.stats) = some [[⟨2, 12, 74⟩], [⟨1, 7, 49⟩]] := by decide
example : (collapse (swap exB) 2).toOption.map (·.stats) = some [[⟨3, 7, 21⟩, ⟨2, 8, 34⟩]] := by decide
example : expand (concat [exA, exA]) = (expandAll [exA, exA]).map List.flatten := by decide
example : Valid (concat [exA, swap exA]) := by decide
-- without aliasing the in-place model coincides with `concat`; passing the same object twice
-- double-shifts both copies (the observation recorded in DESIGN §6, outside the property)
example : concatAliased [exA, swap exA] [0, 1] = concat [exA, swap exA] := by decide
example : (concatAliased [exA] [0, 0]).pairs = shift 2 3 exA.pairs ++ shift 2 3 exA.pairs := by decide
example : (stat [some 1, none, some 3]).mean = some 2 ∧ (stat [some 1, none, some 3]).var = some 1 := by
  constructor <;> simp [stat, Stat.mean, Stat.var] <;> norm_num

assert_axioms C13_compact_valid C13_compact_total C13_compact_expand C13_rows_injective C13_matrix_spec
  C13_collapse_spec C13_collapse_spec_second_reference C13_collapse_ok_inv C13_collapse_ok_ref_used
  C13_partners_swap C13_mean_var C13_history_independent C13_collapser_default
  C13_expand_spec C13_expand_error C13_concat_expand C13_concat_valid C13_concatMixed_uniform
