import Proofs.Lemmas.Collapse
import Proofs.Lemmas.Concat
import Proofs.Audit
open Compact
theorem C13_stub (c : Compact.Compact) : swap (swap c) = c := swap_swap c
assert_axioms C13_stub
