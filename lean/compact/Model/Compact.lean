/-
Model of typhon's *compact* collocation format and the three operations on it.
Core Lean only (no Mathlib) so that the driver links.

Python (typhon/collocations/collocator.py `_create_return`, per group i):

    original_indices = pd.unique(original_pairs[i])            -- first-occurrence order
    new_indices = np.empty(original_indices.max() + 1, dtype=int)
    new_indices[original_indices] = np.arange(original_indices.size)
    pairs.append(new_indices[original_pairs[i]])
    output[name] = dataset.isel(collocation=original_indices)

(typhon/collocations/common.py)

    _rows_for_secondaries(primary):
        current_row = zeros(primary.size); rows = zeros(primary.size)
        for i, p in enumerate(primary): rows[i] = current_row[p]; current_row[p] += 1
    collapse(data, reference):
        primary_indices, secondary_indices = pairs[ref], pairs[1 - ref]
        rows_in_bins = _rows_for_secondaries(primary_indices)      -- same function for >= 1000 pairs (no numba)
        binned = full([max(rows_in_bins) + 1, unique(primary_indices).size, *extra], nan)
        binned[rows_in_bins, primary_indices] = var.isel(collocation=secondary_indices)
        <var>_mean/_std/_number = nanmean/nanstd/count_nonzero(~isnan) (binned, axis 0)
    expand(data):  isel(<g0>/collocation = pairs[0]), isel(<g1>/collocation = pairs[1])
    concat_collocations(list):
        for obj in list: pairs[0] += primary_size; pairs[1] += secondary_size
                         primary_size += |obj primary|; secondary_size += |obj secondary|
        groups concatenated along their collocation dimension

Values are `Option Int` (`none` = NaN; the harness uses integer-valued data so that
float sums are exact).  A stored point is a `Row`: all its data values along the extra
dimensions (channels, …) flattened — the operations act pointwise on them.
-/

namespace Compact

abbrev Val := Option Int
abbrev Row := List Val

structure Compact where
  pairs : List (Nat × Nat)
  P : List Row
  S : List Row
deriving Repr, DecidableEq

inductive Err where
  | indexError | valueError
deriving Repr, DecidableEq

/-! ## compaction (`_create_return`) -/

/-- `typhon.utils.unique` / `pd.unique`: drop duplicates, keep first-occurrence order -/
def uniqGo (seen : List Nat) : List Nat → List Nat
  | [] => []
  | x :: xs => if x ∈ seen then uniqGo seen xs else x :: uniqGo (x :: seen) xs

def uniq (l : List Nat) : List Nat := uniqGo [] l

/-- `dataset.isel(collocation=idx)`; `none` = IndexError -/
def gather (data : List Row) : List Nat → Option (List Row)
  | [] => some []
  | i :: is =>
    match data[i]?, gather data is with
    | some r, some rs => some (r :: rs)
    | _, _ => none

/-- `new_indices = np.empty(original_indices.max() + 1); new_indices[original_indices] =
np.arange(original_indices.size)`: the lookup array, written entry by entry; `none` is a slot
of `np.empty` that was never written. -/
def tableGo : List Nat → Nat → List (Option Nat) → List (Option Nat)
  | [], _, t => t
  | x :: xs, k, t => tableGo xs (k + 1) (t.set x (some k))

def mkTable (u : List Nat) : List (Option Nat) :=
  tableGo u 0 (List.replicate (u.foldl max 0 + 1) none)

/-- `new_indices[x]`; `none` = out of range or never written -/
def newIndex (t : List (Option Nat)) (x : Nat) : Option Nat := (t[x]?).join

/-- `new_indices[original_pairs[i]]` for both groups -/
def newPairs (tP tS : List (Option Nat)) : List (Nat × Nat) → Option (List (Nat × Nat))
  | [] => some []
  | p :: ps =>
    match newIndex tP p.1, newIndex tS p.2, newPairs tP tS ps with
    | some a, some b, some r => some ((a, b) :: r)
    | _, _, _ => none

/-- `_create_return` on the original index pairs; `ok none` is `Collocator.empty`
(no pair at all), `error` is the IndexError of `isel` (or of the table lookup, which
`newPairs_eq` shows impossible). -/
def compactify (op : List (Nat × Nat)) (P0 S0 : List Row) : Except Err (Option Compact) :=
  if op.isEmpty then .ok none else
  let uP := uniq (op.map Prod.fst)
  let uS := uniq (op.map Prod.snd)
  match gather P0 uP, gather S0 uS, newPairs (mkTable uP) (mkTable uS) op with
  | some P, some S, some prs => .ok (some { pairs := prs, P := P, S := S })
  | _, _, _ => .error .indexError

/-! ## validity of a compact dataset -/

/-- indices in range and every stored point used by at least one pair -/
def Valid (c : Compact) : Prop :=
  (∀ p ∈ c.pairs, p.1 < c.P.length ∧ p.2 < c.S.length) ∧
  (∀ i, i < c.P.length → ∃ p ∈ c.pairs, p.1 = i) ∧
  (∀ j, j < c.S.length → ∃ p ∈ c.pairs, p.2 = j)

def validB (c : Compact) : Bool :=
  c.pairs.all (fun p => decide (p.1 < c.P.length) && decide (p.2 < c.S.length)) &&
  (List.range c.P.length).all (fun i => c.pairs.any (fun p => p.1 == i)) &&
  (List.range c.S.length).all (fun j => c.pairs.any (fun p => p.2 == j))

/-- exchange the roles of the two groups (`reference=<second group>`) -/
def swap (c : Compact) : Compact :=
  { pairs := c.pairs.map (fun p => (p.2, p.1)), P := c.S, S := c.P }

def refs (c : Compact) : List Nat := c.pairs.map Prod.fst
def secs (c : Compact) : List Nat := c.pairs.map Prod.snd

/-! ## row assignment (`_rows_for_secondaries`) -/

/-- the loop with the `current_row` array; `none` = IndexError (`p ≥ primary.size`) -/
def rowsGo : List Nat → List Nat → Option (List Nat)
  | [], _ => some []
  | p :: ps, cur =>
    match cur[p]? with
    | none => none
    | some r => (rowsGo ps (cur.set p (r + 1))).map (r :: ·)

def rows (rf : List Nat) : Option (List Nat) := rowsGo rf (List.replicate rf.length 0)

/-! ## bin matrix -/

/-- the assignment log of `binned[rows, refs] = values`: ((row, col), value) per pair -/
abbrev Mat := List ((Nat × Nat) × Row)

/-- partial map (row, col) ⇀ value; an unassigned slot stays NaN (`none`) -/
def matGet : Mat → Nat → Nat → Option Row
  | [], _, _ => none
  | ((r', c'), v) :: m, r, c => if r' = r ∧ c' = c then some v else matGet m r c

def lookupRow : List (Nat × Row) → Nat → Option Row
  | [], _ => none
  | (r', v) :: m, r => if r' = r then some v else lookupRow m r

/-- the entries of column `j` as (row, value), in pair order -/
def colEntries (m : Mat) (j : Nat) : List (Nat × Row) :=
  (m.filter (fun e => e.1.2 == j)).map (fun e => (e.1.1, e.2))

/-- column `j` of the matrix, rows `0 .. nrows-1` -/
def column (m : Mat) (nrows j : Nat) : List (Option Row) :=
  let ej := colEntries m j
  (List.range nrows).map (lookupRow ej)

/-! ## collapser functions (NaN-ignoring) -/

structure Stat where
  count : Nat
  sum : Int
  sumsq : Int
deriving Repr, DecidableEq

def stat (vs : List Val) : Stat :=
  let xs := vs.filterMap id
  { count := xs.length, sum := xs.sum, sumsq := (xs.map (fun x => x * x)).sum }

/-- `np.nanmean`: NaN for an all-NaN bin -/
def Stat.mean (s : Stat) : Option Rat :=
  if s.count = 0 then none else some ((s.sum : Rat) / (s.count : Rat))

/-- `np.nanstd ** 2` (ddof = 0) -/
def Stat.var (s : Stat) : Option Rat :=
  if s.count = 0 then none else
    some ((s.sumsq : Rat) / (s.count : Rat) - ((s.sum : Rat) / (s.count : Rat)) * ((s.sum : Rat) / (s.count : Rat)))

/-- value of channel `ch` of a point; a missing entry counts as NaN -/
def chan (ch : Nat) (r : Row) : Val := (r[ch]?).join

/-- value of channel `ch` in a matrix slot; an unfilled slot is NaN -/
def cellChan (ch : Nat) : Option Row → Val
  | none => none
  | some r => chan ch r

structure Collapsed where
  ref : List Row
  nrows : Nat
  rows : List Nat
  stats : List (List Stat)       -- [reference point][channel]
deriving Repr, DecidableEq

/-- `collapse(data)` with the first group as reference and `w` flattened channels in the
other group.  Error order as in the code: `np.max` of nothing → ValueError; IndexError of
the row loop / `isel` / the fancy assignment; finally xarray's ValueError when the
reference group has another length than the number of distinct reference indices. -/
def collapse (c : Compact) (w : Nat) : Except Err Collapsed :=
  let rf := refs c
  if rf.isEmpty then .error .valueError else
  match rows rf, gather c.S (secs c) with
  | some rs, some vals =>
    let u := (uniq rf).length
    if rf.any (fun x => decide (u ≤ x)) then .error .indexError else
    let m : Mat := (rs.zip rf).zip vals
    let nrows := rs.foldl max 0 + 1
    let stats := (List.range u).map (fun j =>
      let col := column m nrows j
      (List.range w).map (fun ch => stat (col.map (cellChan ch))))
    if c.P.length ≠ u then .error .valueError else
    .ok { ref := c.P, nrows := nrows, rows := rs, stats := stats }
  | _, _ => .error .indexError

/-- the bin matrix itself (for the correspondence run) -/
def binMatrix (c : Compact) : Option (Mat × Nat × Nat) :=
  match rows (refs c), gather c.S (secs c) with
  | some rs, some vals => some ((rs.zip (refs c)).zip vals, rs.foldl max 0 + 1, (uniq (refs c)).length)
  | _, _ => none

/-- the partner points of reference point `j`, in pair order -/
def partners (c : Compact) (j : Nat) : List Row :=
  (c.pairs.filter (fun p => p.1 == j)).filterMap (fun p => c.S[p.2]?)

/-! ## collapser functions in effect, histories of calls -/

/-- python `d[k] = v` on an insertion-ordered dict -/
def upsert {α : Type} : List (String × α) → String → α → List (String × α)
  | [], k, v => [(k, v)]
  | (k', v') :: d, k, v => if k' = k then (k, v) :: d else (k', v') :: upsert d k v

/-- `{**defaults, **user}`: a user entry replaces the default of the same name in place, new
names are appended; built afresh in every call (no module-level state) -/
def mergeCollapser {α : Type} (defaults user : List (String × α)) : List (String × α) :=
  user.foldl (fun d kv => upsert d kv.1 kv.2) defaults

def defaultNames : List String := ["mean", "std", "number"]

/-- the suffixes of the `<var>_<name>` variables a call produces, in order -/
def outNames (user : List String) : List String :=
  (mergeCollapser (defaultNames.map (fun n => (n, false))) (user.map (fun n => (n, true)))).map Prod.fst

/-- one `collapse(data, reference, collapser)` call: the dataset, the flattened width of the
collapsed group, whether the second group is the reference, the names of the user collapsers -/
structure Call where
  data : Compact
  w : Nat
  second : Bool
  user : List String

def runCall (c : Call) : Except Err Collapsed × List String :=
  (collapse (if c.second then swap c.data else c.data) c.w, outNames c.user)

/-- a history of calls in one process: there is no state to thread through -/
def runHistory (h : List Call) : List (Except Err Collapsed × List String) := h.map runCall

#guard outNames [] == ["mean", "std", "number"]
#guard outNames ["sum", "mean", "first", "sum"] == ["mean", "std", "number", "sum", "first"]

/-! ## expand -/

/-- one row per pair: (primary values, secondary values); `none` = IndexError -/
def expand (c : Compact) : Option (List (Row × Row)) :=
  go c.pairs
where
  go : List (Nat × Nat) → Option (List (Row × Row))
    | [] => some []
    | p :: ps =>
      match c.P[p.1]?, c.S[p.2]?, go ps with
      | some a, some b, some r => some ((a, b) :: r)
      | _, _, _ => none

/-! ## concat -/

def shift (np ns : Nat) (l : List (Nat × Nat)) : List (Nat × Nat) :=
  l.map (fun p => (p.1 + np, p.2 + ns))

/-- `concat_collocations` on distinct (deep-copied) datasets; `np`/`ns` are the
accumulated group sizes -/
def concatGo (np ns : Nat) : List Compact → Compact
  | [] => { pairs := [], P := [], S := [] }
  | d :: ds =>
    let r := concatGo (np + d.P.length) (ns + d.S.length) ds
    { pairs := shift np ns d.pairs ++ r.pairs, P := d.P ++ r.P, S := d.S ++ r.S }

def concat (ds : List Compact) : Compact := concatGo 0 0 ds

/-- `concat_collocations` on a list whose members do NOT all have the group order of the first
(flag `true` = this member's first group carries the name of the first member's second group):
the code takes names and sizes from the group *names* but shifts the pair rows by *position*.
Outside the property (precondition: one group order per list); modelled so that model and code
can be compared on such lists. -/
def concatMixedGo (np ns : Nat) : List (Compact × Bool) → Compact
  | [] => { pairs := [], P := [], S := [] }
  | (d, f) :: ds =>
    let dP := if f then d.S else d.P
    let dS := if f then d.P else d.S
    let r := concatMixedGo (np + dP.length) (ns + dS.length) ds
    { pairs := shift np ns d.pairs ++ r.pairs, P := dP ++ r.P, S := dS ++ r.S }

def concatMixed (ds : List (Compact × Bool)) : Compact := concatMixedGo 0 0 ds

def expandAll : List Compact → Option (List (List (Row × Row)))
  | [] => some []
  | d :: ds =>
    match expand d, expandAll ds with
    | some e, some es => some (e :: es)
    | _, _ => none

/-- `concat_collocations` when list positions alias each other (`ids[i]` = identity of the
object at position `i`): the pair indices are shifted *in place*, so an object occurring at
several positions accumulates all their offsets, at every position. -/
def concatAliased (objs : List Compact) (ids : List Nat) : Compact :=
  let at_ (i : Nat) : Compact := (objs[ids.getD i 0]?).getD { pairs := [], P := [], S := [] }
  let k := ids.length
  let sizesP := (List.range k).map (fun i => (at_ i).P.length)
  let sizesS := (List.range k).map (fun i => (at_ i).S.length)
  let offP (i : Nat) := (sizesP.take i).sum
  let offS (i : Nat) := (sizesS.take i).sum
  let totP (o : Nat) := (((List.range k).filter (fun i => ids.getD i 0 == o)).map offP).sum
  let totS (o : Nat) := (((List.range k).filter (fun i => ids.getD i 0 == o)).map offS).sum
  { pairs := ((List.range k).map (fun i => shift (totP (ids.getD i 0)) (totS (ids.getD i 0)) (at_ i).pairs)).flatten,
    P := ((List.range k).map (fun i => (at_ i).P)).flatten,
    S := ((List.range k).map (fun i => (at_ i).S)).flatten }

/-! ## executable sanity tests -/

private def r1 (x : Int) : Row := [some x]

-- one-to-many (primary 0 has three partners) and many-to-one (secondary 1 has two primaries)
private def ex1 : Compact :=
  { pairs := [(1, 1), (0, 0), (0, 2), (0, 1)], P := [r1 10, r1 11], S := [r1 5, r1 7, none :: []] }

#guard validB ex1
#guard rows (refs ex1) == some [0, 0, 1, 2]
#guard rows (refs (swap ex1)) == some [0, 0, 0, 1]
#guard (collapse ex1 1).toOption.map (·.stats) == some [[⟨2, 12, 74⟩], [⟨1, 7, 49⟩]]
#guard (collapse (swap ex1) 1).toOption.map (·.stats) == some [[⟨1, 10, 100⟩], [⟨2, 21, 221⟩], [⟨1, 10, 100⟩]]
#guard expand ex1 == some [(r1 11, r1 7), (r1 10, r1 5), (r1 10, [none]), (r1 10, r1 7)]
#guard (concat [ex1, ex1]).pairs == [(1, 1), (0, 0), (0, 2), (0, 1), (3, 4), (2, 3), (2, 5), (2, 4)]
#guard expand (concat [ex1, ex1]) == (expandAll [ex1, ex1]).map List.flatten
#guard (concatAliased [ex1] [0, 0]).pairs == [(3, 4), (2, 3), (2, 5), (2, 4), (3, 4), (2, 3), (2, 5), (2, 4)]
#guard concatAliased [ex1, swap ex1] [0, 1] == concat [ex1, swap ex1]
#guard concatMixed [(ex1, false), (ex1, false)] == concat [ex1, ex1]
#guard (concatMixed [(ex1, false), (swap ex1, true)]).pairs == [(1, 1), (0, 0), (0, 2), (0, 1), (3, 4), (2, 3), (4, 3), (3, 3)]
#guard (compactify [(7, 3), (2, 3), (7, 9)] (List.replicate 8 (r1 0)) (List.replicate 10 (r1 1))).toOption.map (·.map (·.pairs))
         == some (some [(0, 0), (1, 0), (0, 1)])
#guard uniq [5, 0, 5, 1, 0, 3] == [5, 0, 1, 3]
#guard (match collapse { ex1 with P := [r1 10, r1 11, r1 12] } 1 with | .error .valueError => true | _ => false)
#guard (match collapse { ex1 with pairs := [(0, 0), (2, 1)] } 1 with | .error .indexError => true | _ => false)

end Compact
