import Model.Compact
/-!
Line-protocol driver for C13 (compact collocation data).  One output line per input line.

A dataset `DS` is the token sequence
    nP nS wP wS n   p0 s0 p1 s1 …(2n)   P values (nP·wP)   S values (nS·wS)
with values as integers or `n` (NaN).

  valid DS                      -> true | false
  rows k r0 … r(k-1)            -> row indices | index-error
  collapse ref DS               -> ok | U nrows | rows | c:s:q … | mean;var …     (ref 0/1)
                                   | index-error | value-error
  matrix ref DS                 -> ok | nrows U | cells (row-major; `-` or v,v,…) | error
  expand DS                     -> ok | Pvals;Svals …  | index-error
  concat k DS…                  -> ok | nP nS n | pairs | P rows | S rows
  concatalias m DS… k ids…      -> same
  outnames u1 u2 …              -> suffixes of the statistics variables, in order
  concatmixed k DS… f1 … fk     -> same (fi = 1: member i has the opposite group order)
  compact nP0 nS0 n p s …       -> ok | uP | uS | new pairs   | empty | index-error
Anything else -> bad-op.
-/
open Compact

abbrev Toks := List String

def pNat : Toks → Option (Nat × Toks)
  | t :: ts => t.toNat?.map (·, ts)
  | [] => none

def pVal : Toks → Option (Val × Toks)
  | "n" :: ts => some (none, ts)
  | t :: ts => t.toInt?.map (fun v => (some v, ts))
  | [] => none

def pMany {α : Type} (p : Toks → Option (α × Toks)) : Nat → Toks → Option (List α × Toks)
  | 0, ts => some ([], ts)
  | k + 1, ts =>
    match p ts with
    | none => none
    | some (a, ts') =>
      match pMany p k ts' with
      | none => none
      | some (as, ts'') => some (a :: as, ts'')

def pPair (ts : Toks) : Option ((Nat × Nat) × Toks) :=
  match pNat ts with
  | some (a, ts') => (pNat ts').map (fun (b, ts'') => ((a, b), ts''))
  | none => none

def pDS (ts : Toks) : Option (Compact × Nat × Nat × Toks) := do
  let (nP, ts) ← pNat ts
  let (nS, ts) ← pNat ts
  let (wP, ts) ← pNat ts
  let (wS, ts) ← pNat ts
  let (n, ts) ← pNat ts
  let (pairs, ts) ← pMany pPair n ts
  let (P, ts) ← pMany (pMany pVal wP) nP ts
  let (S, ts) ← pMany (pMany pVal wS) nS ts
  pure ({ pairs := pairs, P := P, S := S }, wP, wS, ts)

def showVal : Val → String
  | none => "n"
  | some v => toString v

def showRow (r : Row) : String := if r.isEmpty then "." else ",".intercalate (r.map showVal)

def showNats (l : List Nat) : String := if l.isEmpty then "-" else " ".intercalate (l.map toString)

def showRat (r : Option Rat) : String :=
  match r with
  | none => "n"
  | some q => toString q.num ++ "/" ++ toString q.den

def showErr : Err → String
  | .indexError => "index-error"
  | .valueError => "value-error"

def showDS (c : Compact) : String :=
  "ok | " ++ toString c.P.length ++ " " ++ toString c.S.length ++ " " ++ toString c.pairs.length ++ " | " ++
  (if c.pairs.isEmpty then "-" else " ".intercalate (c.pairs.map (fun p => toString p.1 ++ " " ++ toString p.2))) ++ " | " ++
  (if c.P.isEmpty then "-" else " ".intercalate (c.P.map showRow)) ++ " | " ++
  (if c.S.isEmpty then "-" else " ".intercalate (c.S.map showRow))

def step (line : String) : String :=
  match (line.splitOn " ").filter (· ≠ "") with
  | "valid" :: rest =>
    match pDS rest with
    | some (c, _, _, []) => toString (validB c)
    | _ => "bad-op"
  | "rows" :: rest =>
    match pNat rest with
    | some (k, ts) =>
      match pMany pNat k ts with
      | some (rf, []) =>
        match rows rf with
        | some r => showNats r
        | none => "index-error"
      | _ => "bad-op"
    | none => "bad-op"
  | "collapse" :: ref :: rest =>
    match pDS rest with
    | some (c, wP, wS, []) =>
      let (c, w) := if ref == "1" then (swap c, wP) else (c, wS)
      match collapse c w with
      | .error e => showErr e
      | .ok o =>
        let flat := o.stats.flatten
        "ok | " ++ toString o.stats.length ++ " " ++ toString o.nrows ++ " | " ++ showNats o.rows ++ " | " ++
          " ".intercalate (flat.map (fun s => toString s.count ++ ":" ++ toString s.sum ++ ":" ++ toString s.sumsq)) ++ " | " ++
          " ".intercalate (flat.map (fun s => showRat s.mean ++ ";" ++ showRat s.var)) ++ " | " ++
          (if o.ref.isEmpty then "-" else " ".intercalate (o.ref.map showRow))
    | _ => "bad-op"
  | "matrix" :: ref :: rest =>
    match pDS rest with
    | some (c, _, _, []) =>
      let c := if ref == "1" then swap c else c
      match binMatrix c with
      | none => "error"
      | some (m, nrows, u) =>
        let cells := (List.range nrows).flatMap (fun r => (List.range u).map (fun j =>
          match matGet m r j with
          | none => "-"
          | some v => showRow v))
        "ok | " ++ toString nrows ++ " " ++ toString u ++ " | " ++ " ".intercalate cells
    | _ => "bad-op"
  | "expand" :: rest =>
    match pDS rest with
    | some (c, _, _, []) =>
      match expand c with
      | none => "index-error"
      | some e => "ok | " ++ (if e.isEmpty then "-" else " ".intercalate (e.map (fun pr => showRow pr.1 ++ ";" ++ showRow pr.2)))
    | _ => "bad-op"
  | "concat" :: rest =>
    match pNat rest with
    | some (k, ts) =>
      match pMany (fun t => (pDS t).map (fun (c, _, _, t') => (c, t'))) k ts with
      | some (ds, []) => showDS (concat ds)
      | _ => "bad-op"
    | none => "bad-op"
  | "outnames" :: rest => " ".intercalate (outNames rest)
  | "concatmixed" :: rest =>
    match pNat rest with
    | some (k, ts) =>
      match pMany (fun t => (pDS t).map (fun (c, _, _, t') => (c, t'))) k ts with
      | some (ds, ts') =>
        match pMany pNat k ts' with
        | some (fl, []) => showDS (concatMixed (ds.zip (fl.map (· != 0))))
        | _ => "bad-op"
      | none => "bad-op"
    | none => "bad-op"
  | "concatalias" :: rest =>
    match pNat rest with
    | some (m, ts) =>
      match pMany (fun t => (pDS t).map (fun (c, _, _, t') => (c, t'))) m ts with
      | some (ds, ts') =>
        match pNat ts' with
        | some (k, ts'') =>
          match pMany pNat k ts'' with
          | some (ids, []) => if ids.all (· < m) then showDS (concatAliased ds ids) else "bad-op"
          | _ => "bad-op"
        | none => "bad-op"
      | none => "bad-op"
    | none => "bad-op"
  | "compact" :: rest =>
    match pNat rest with
    | some (nP0, ts) =>
      match pNat ts with
      | some (nS0, ts) =>
        match pNat ts with
        | some (n, ts) =>
          match pMany pPair n ts with
          | some (op, []) =>
            let ids (k : Nat) : List Row := (List.range k).map (fun i => [some (Int.ofNat i)])
            match compactify op (ids nP0) (ids nS0) with
            | .error e => showErr e
            | .ok none => "empty"
            | .ok (some c) =>
              "ok | " ++ " ".intercalate (c.P.map showRow) ++ " | " ++ " ".intercalate (c.S.map showRow) ++ " | " ++
                " ".intercalate (c.pairs.map (fun p => toString p.1 ++ " " ++ toString p.2))
          | _ => "bad-op"
        | none => "bad-op"
      | none => "bad-op"
    | none => "bad-op"
  | _ => "bad-op"

partial def loop (h : IO.FS.Stream) (out : IO.FS.Stream) : IO Unit := do
  let line ← h.getLine
  if line.isEmpty then return ()
  out.putStrLn (step (line.trimAscii.toString))
  loop h out

def main : IO Unit := do
  let out ← IO.getStdout
  loop (← IO.getStdin) out
  out.flush
