import Model.Column
import GenFloat.Atmosphere
/-!
Driver for the array-level model of C14, instantiated with `Float` and the translated scalar
functions `TF.*`.  All numbers cross the pipe as IEEE bit patterns (unsigned decimal).

  trapz  n x1..xn y1..yn        -> bits
  trapzu n y1..yn               -> bits
  iwv    n vmr1..n p1..n        -> bits      (hydrostatic)
  iwvg   n vmr p T z (4n)       -> bits      (general form)
  crh    n q p t (3n)           -> bits
  p2h    n p1..n T1..n          -> n bit patterns
  interp k x1..xk y1..yk x      -> bits | "none"
-/
open Col

def fl (b : Nat) : Float := Float.ofBits (UInt64.ofNat b)
def sb (x : Float) : String := toString x.toBits.toNat

def chunks (l : List Float) (n : Nat) : List (List Float) :=
  if n = 0 then [] else
  (List.range (l.length / n)).map (fun i => (l.drop (i * n)).take n)

def gF : Float := CF.earth_standard_gravity

def handle (line : String) : String :=
  match (line.splitOn " ").filter (· ≠ "") with
  | cmd :: n :: rest =>
    match n.toNat?, rest.mapM String.toNat? with
    | some n, some bits =>
      let v := bits.map fl
      match cmd, chunks v n with
      | "trapz", [x, y] => if v.length = 2 * n then sb (trapz x y) else "bad-op"
      | "trapzu", [y] => if v.length = n then sb (trapzUnit y) else "bad-op"
      | "iwv", [vmr, p] =>
        if v.length = 2 * n then sb (iwvHydro TF.vmr2specific_humidity gF vmr p) else "bad-op"
      | "iwvg", [vmr, p, T, z] =>
        if v.length = 4 * n then
          sb (iwvGeneral (fun p T => p / (CF.gas_constant_water_vapor * T)) vmr p T z)
        else "bad-op"
      | "crh", [q, p, t] =>
        if v.length = 3 * n then
          sb (crh TF.specific_humidity2vmr TF.vmr2specific_humidity
            (fun ti pi => TF.water_vapor_pressure2specific_humidity (TF.e_eq_mixed_mk ti) pi) gF q p t)
        else "bad-op"
      | "p2h", [p, T] =>
        if v.length = 2 * n then
          " ".intercalate ((p2h TF.density gF p T).map sb)
        else "bad-op"
      | "interp", _ =>
        if v.length = 2 * n + 1 then
          let xs := v.take n
          let ys := (v.drop n).take n
          match v.getLast? with
          | some x => match interpAux x (List.zip xs ys) with
            | some r => sb r
            | none => "none"
          | none => "bad-op"
        else "bad-op"
      | _, _ => "bad-op"
    | _, _ => "bad-op"
  | _ => "bad-op"

partial def loop (h : IO.FS.Stream) (out : IO.FS.Stream) : IO Unit := do
  let line ← h.getLine
  if line.isEmpty then return ()
  out.putStrLn (handle (line.trimAscii.toString))
  loop h out

def main : IO Unit := do
  let out ← IO.getStdout
  loop (← IO.getStdin) out
  out.flush
