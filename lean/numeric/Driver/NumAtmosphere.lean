import GenFloat.DispatchAtmosphere
/-!
Driver for the translated Float functions.  One request per line:
    <function name> <arg bits as unsigned decimal UInt64> ...
answer:  result bits (one or two numbers) | "unknown" | "bad-op".
Doubles cross the pipe as IEEE bit patterns only.
-/

def handle (line : String) : String :=
  match (line.splitOn " ").filter (· ≠ "") with
  | [] => "bad-op"
  | name :: rest =>
    match rest.mapM String.toNat? with
    | none => "bad-op"
    | some bits =>
      let args := (bits.map (fun b => Float.ofBits (UInt64.ofNat b))).toArray
      match TF.dispatchAtmosphere name args with
      | none => "unknown"
      | some r => " ".intercalate (r.toList.map (fun x => toString x.toBits.toNat))

partial def loop (h : IO.FS.Stream) (out : IO.FS.Stream) : IO Unit := do
  let line ← h.getLine
  if line.isEmpty then return ()
  out.putStrLn (handle (line.trimAscii.toString))
  loop h out

def main : IO Unit := do
  let out ← IO.getStdout
  loop (← IO.getStdin) out
  out.flush
