/-!
Hand-written model of the array-level code of C14 (core Lean only, polymorphic in the number
type so that the SAME definitions are run with `Float` by the driver and reasoned about over
`ℝ` by the theorems):

* `typhon.math.integrate_column(y, x)`  = `numpy.trapezoid(y, x)` along one axis
      sum(diff(x) * (y[1:] + y[:-1]) / 2.0)           (x = None: unit spacing)
* `integrate_water_vapor(vmr, p)`       = -integrate_column(vmr2specific_humidity(vmr), p) / g
* `integrate_water_vapor(vmr, p, T, z)` =  integrate_column(vmr * density(p, T, R_v), z)
* `column_relative_humidity(q, p, t)`   = IWV(specific_humidity2vmr(q), p) / IWV(specific_humidity2vmr(qs), p),
      qs[i] = water_vapor_pressure2specific_humidity(e_eq_mixed_mk(t[i]), p[i])
* `pressure2height(p, T)`               = hstack([0, cumsum(-diff(p) / (0.5 (rho[:-1] + rho[1:]) g))])
* `standard_atmosphere`                 = scipy `interp1d(z_ref, temp + K, fill_value='extrapolate')`
      (linear; indices from searchsorted clipped to [1, n-1])

The scalar converters (`vmr2specific_humidity`, `density`, …) are PARAMETERS here: the driver
passes the translated Float functions `TF.*`, the theorems the translated real functions `TR.*`.
-/

namespace Col

variable {α : Type} [Add α] [Sub α] [Mul α] [Div α] [Neg α] [OfNat α 0] [OfNat α 2]

/-- `numpy.trapezoid(y, x)` for 1-d data -/
def trapz : List α → List α → α
  | x0 :: x1 :: xs, y0 :: y1 :: ys => (x1 - x0) * (y0 + y1) / 2 + trapz (x1 :: xs) (y1 :: ys)
  | _, _ => 0

/-- `numpy.trapezoid(y)` (unit spacing) -/
def trapzUnit : List α → α
  | y0 :: y1 :: ys => (y0 + y1) / 2 + trapzUnit (y1 :: ys)
  | _ => 0

/-- hydrostatic IWV -/
def iwvHydro (toQ : α → α) (g : α) (vmr p : List α) : α :=
  -(trapz p (vmr.map toQ)) / g

/-- general IWV: `integrate_column(vmr * rho, z)` with `rho = density(p, T, R_v)` -/
def iwvGeneral (rhoV : α → α → α) (vmr p T z : List α) : α :=
  trapz z (List.zipWith (fun v (pt : α × α) => v * rhoV pt.1 pt.2) vmr (List.zip p T))

/-- column relative humidity -/
def crh (toX toQ : α → α) (qsat : α → α → α) (g : α) (q p t : List α) : α :=
  iwvHydro toQ g (q.map toX) p /
    iwvHydro toQ g ((List.zipWith (fun ti pi => qsat ti pi) t p).map toX) p

/-- `pressure2height`: running sum starting at 0 -/
def p2hAux (rho : α → α → α) (g : α) (acc : α) : List (α × α) → List α
  | (p0, t0) :: (p1, t1) :: rest =>
    let half : α := (OfNat.ofNat 2 : α)
    let rhoLayer := (rho p0 t0 + rho p1 t1) / half           -- 0.5 * (rho0 + rho1)
    let acc' := acc + (-(p1 - p0)) / (rhoLayer * g)
    acc' :: p2hAux rho g acc' ((p1, t1) :: rest)
  | _ => []

def p2h (rho : α → α → α) (g : α) (p T : List α) : List α :=
  (0 : α) :: p2hAux rho g 0 (List.zip p T)

/-- scipy `interp1d` (linear, extrapolating) on nodes sorted by abscissa: segment index =
`clip(searchsorted_left(xs, x), 1, n-1)` -/
def interpAux [LT α] [DecidableRel (α := α) (· < ·)] (x : α) : List (α × α) → Option α
  | (x0, y0) :: (x1, y1) :: rest =>
    -- use this segment if it is the last one, or if x ≤ x1 (searchsorted 'left': first k with xs[k] ≥ x)
    match rest with
    | [] => some ((y1 - y0) / (x1 - x0) * (x - x0) + y0)
    | _ :: _ =>
      if x1 < x then interpAux x ((x1, y1) :: rest)
      else some ((y1 - y0) / (x1 - x0) * (x - x0) + y0)
  | _ => none

end Col
