import Proofs.Lemmas.Trapz
import Proofs.Props.C09
import Proofs.Audit
import Mathlib.Analysis.SpecialFunctions.Integrals.Basic
import Mathlib.MeasureTheory.Integral.IntervalIntegral.Basic

/-!
# C14 — column integrals and hydrostatic conversions agree with their defining integrals

`Col.*` is the hand-written array-level model (Model/Column.lean, tied to the code by the
correspondence run of the C14 check with `Float`); the scalar converters inside are the
translated functions `TR.*` (regenerated from /repo every run).
-/

open Col

/-! ## integrate_column = trapezoidal rule -/

/-- linear in `y` -/
theorem C14_trapz_linear (c d : ℝ) (x y z : List ℝ) (h : y.length = z.length) :
    trapz x (List.zipWith (· + ·) (y.map (c * ·)) (z.map (d * ·))) = c * trapz x y + d * trapz x z := by
  rw [trapz_add _ _ _ (by simpa using h), trapz_smul, trapz_smul]

/-- additive when the range is split at a grid point -/
theorem C14_trapz_split (xa ya xb yb : List ℝ) (xm ym : ℝ) (h : xa.length = ya.length) :
    trapz (xa ++ xm :: xb) (ya ++ ym :: yb)
      = trapz (xa ++ [xm]) (ya ++ [ym]) + trapz (xm :: xb) (ym :: yb) :=
  trapz_split xm ym xb yb xa ya h

/-- changes sign when the coordinate is reversed -/
theorem C14_trapz_reverse (x y : List ℝ) (h : x.length = y.length) :
    trapz x.reverse y.reverse = -trapz x y := trapz_reverse x y h

/-- unit-spaced grid `s, s+1, s+2, …` -/
def unitGrid (s : ℝ) : Nat → List ℝ
  | 0 => []
  | n + 1 => s :: unitGrid (s + 1) n

/-- `x = None` defaults to unit spacing -/
theorem C14_trapz_unit_spacing (y : List ℝ) (s : ℝ) : trapzUnit y = trapz (unitGrid s y.length) y := by
  induction y generalizing s with
  | nil => simp [unitGrid]
  | cons y0 ys ih =>
    rcases ys with _ | ⟨y1, ys'⟩
    · simp [unitGrid]
    · have := ih (s + 1)
      simp only [List.length_cons, unitGrid] at this ⊢
      rw [trapzUnit_cons_cons, trapz_cons_cons, this]
      ring

/-- each trapezoid is the exact integral of the linear interpolant on its segment; `trapz` is
by definition the sum of these over consecutive segments, hence the integral of the
piecewise-linear interpolant -/
theorem C14_segment_integral (x0 x1 y0 y1 : ℝ) (hx : x0 ≠ x1) :
    ∫ t in x0..x1, (y0 + (y1 - y0) / (x1 - x0) * (t - x0)) = (x1 - x0) * (y0 + y1) / 2 := by
  have hne : x1 - x0 ≠ 0 := sub_ne_zero.mpr (Ne.symm hx)
  have : (fun t : ℝ => y0 + (y1 - y0) / (x1 - x0) * (t - x0))
      = fun t => (y0 - (y1 - y0) / (x1 - x0) * x0) + (y1 - y0) / (x1 - x0) * t := by
    funext t; ring
  rw [this, intervalIntegral.integral_add (by simp) (by
        exact (continuous_const.mul continuous_id).intervalIntegrable _ _)]
  rw [intervalIntegral.integral_const, intervalIntegral.integral_const_mul, integral_id]
  simp only [smul_eq_mul]
  field_simp
  ring

/-- `f` agrees on every segment `[x_i, x_{i+1}]` with the linear interpolant of the table -/
def IsInterp (f : ℝ → ℝ) : List ℝ → List ℝ → Prop
  | x0 :: x1 :: xs, y0 :: y1 :: ys =>
    (∀ t ∈ Set.uIcc x0 x1, f t = y0 + (y1 - y0) / (x1 - x0) * (t - x0)) ∧
      IsInterp f (x1 :: xs) (y1 :: ys)
  | _, _ => True

private theorem seg_integrable (f : ℝ → ℝ) (x0 x1 y0 y1 : ℝ)
    (h : ∀ t ∈ Set.uIcc x0 x1, f t = y0 + (y1 - y0) / (x1 - x0) * (t - x0)) :
    IntervalIntegrable f MeasureTheory.volume x0 x1 := by
  have haff : IntervalIntegrable (fun t : ℝ => y0 + (y1 - y0) / (x1 - x0) * (t - x0))
      MeasureTheory.volume x0 x1 :=
    (continuous_const.add (continuous_const.mul (continuous_id.sub continuous_const))).intervalIntegrable _ _
  refine haff.congr ?_
  exact fun t ht => (h t (Set.uIoc_subset_uIcc ht)).symm

/-- **integrate_column equals the integral of the piecewise-linear interpolant**: for every grid
with distinct neighbouring coordinates (increasing, decreasing or mixed) and every function `f`
that is the linear interpolant of `(x, y)` on each segment, `f` is interval integrable from the
first to the last grid point and its integral is `trapz x y`. -/
theorem C14_trapz_is_integral (f : ℝ → ℝ) : ∀ (x y : List ℝ) (hne : x ≠ []),
    x.length = y.length → x.IsChain (· ≠ ·) → IsInterp f x y →
    IntervalIntegrable f MeasureTheory.volume (x.head hne) (x.getLast hne) ∧
      ∫ t in (x.head hne)..(x.getLast hne), f t = trapz x y := by
  intro x
  induction x with
  | nil => intro y hne; exact absurd rfl hne
  | cons x0 xs ih =>
    intro y hne hlen hch hint
    rcases xs with _ | ⟨x1, xs'⟩
    · simp
    · rcases y with _ | ⟨y0, _ | ⟨y1, ys'⟩⟩
      · simp at hlen
      · simp at hlen
      · obtain ⟨hseg, hrest⟩ := hint
        have hx01 : x0 ≠ x1 := (List.isChain_cons_cons.mp hch).1
        have hch' := (List.isChain_cons_cons.mp hch).2
        obtain ⟨hI, hint'⟩ := ih (y1 :: ys') (by simp) (by simpa using hlen) hch' hrest
        have h01 := seg_integrable f x0 x1 y0 y1 hseg
        have hval : ∫ t in x0..x1, f t = (x1 - x0) * (y0 + y1) / 2 := by
          rw [intervalIntegral.integral_congr (g := fun t => y0 + (y1 - y0) / (x1 - x0) * (t - x0))
            (fun t ht => hseg t ht)]
          exact C14_segment_integral x0 x1 y0 y1 hx01
        simp only [List.head_cons, List.getLast_cons_cons] at hI hint' ⊢
        refine ⟨h01.trans hI, ?_⟩
        rw [← intervalIntegral.integral_add_adjacent_intervals h01 hI, hval, hint', trapz_cons_cons]

/-! ## integrated water vapour -/

local notation "g₀" => C.earth_standard_gravity

/-- the hydrostatic IWV is non-negative for non-negative vmr (< 1) and decreasing pressure -/
theorem C14_iwv_nonneg (vmr p : List ℝ) (hv : ∀ v ∈ vmr, 0 ≤ v ∧ v < 1) (hp : p.IsChain (· ≥ ·)) :
    0 ≤ iwvHydro TR.vmr2specific_humidity g₀ vmr p := by
  unfold iwvHydro
  have hq : ∀ q ∈ vmr.map TR.vmr2specific_humidity, 0 ≤ q := by
    intro q hq
    obtain ⟨v, hv', rfl⟩ := List.mem_map.mp hq
    exact (C09_range v 0 0 (hv v hv').1 (hv v hv').2 le_rfl le_rfl one_pos).2.1.1
  have := trapz_nonpos_of_antitone p _ hp hq
  have hg := C.earth_standard_gravity_pos
  apply div_nonneg _ hg.le
  linarith

/-- inside CRH the round trip q → vmr → q is the identity (C09) -/
private theorem roundtrip_q (q : List ℝ) (hq : ∀ v ∈ q, 0 ≤ v ∧ v < 1) :
    (q.map TR.specific_humidity2vmr).map TR.vmr2specific_humidity = q := by
  rw [List.map_map]
  conv_rhs => rw [← List.map_id q]
  apply List.map_congr_left
  intro v hv
  simp only [Function.comp, id]
  exact C09_inverse_qx v (hq v hv).1 (hq v hv).2

/-- column relative humidity is the ratio of the two pressure integrals of `q` and `q_s` -/
theorem C14_crh_ratio (qsat : ℝ → ℝ → ℝ) (q p t : List ℝ) (hq : ∀ v ∈ q, 0 ≤ v ∧ v < 1)
    (hs : ∀ v ∈ List.zipWith qsat t p, 0 ≤ v ∧ v < 1)
    (h0 : trapz p (List.zipWith qsat t p) ≠ 0) :
    crh TR.specific_humidity2vmr TR.vmr2specific_humidity qsat g₀ q p t
      = trapz p q / trapz p (List.zipWith qsat t p) := by
  unfold crh iwvHydro
  rw [roundtrip_q q hq, roundtrip_q _ hs]
  have hg := C.earth_standard_gravity_pos
  field_simp

/-- a profile saturated with respect to the (mixed-phase) saturation humidity has CRH = 1 -/
theorem C14_crh_saturated (qsat : ℝ → ℝ → ℝ) (p t : List ℝ)
    (hs : ∀ v ∈ List.zipWith qsat t p, 0 ≤ v ∧ v < 1)
    (hne : trapz p (List.zipWith qsat t p) ≠ 0) :
    crh TR.specific_humidity2vmr TR.vmr2specific_humidity qsat g₀ (List.zipWith qsat t p) p t = 1 := by
  rw [C14_crh_ratio qsat _ p t hs hs hne]
  exact div_self hne

/-- … and CRH scales linearly with `q` (as long as `a·q` stays a valid specific humidity) -/
theorem C14_crh_linear (qsat : ℝ → ℝ → ℝ) (a : ℝ) (q p t : List ℝ)
    (hq : ∀ v ∈ q, 0 ≤ v ∧ v < 1) (haq : ∀ v ∈ q.map (a * ·), 0 ≤ v ∧ v < 1)
    (hs : ∀ v ∈ List.zipWith qsat t p, 0 ≤ v ∧ v < 1)
    (hne : trapz p (List.zipWith qsat t p) ≠ 0) :
    crh TR.specific_humidity2vmr TR.vmr2specific_humidity qsat g₀ (q.map (a * ·)) p t
      = a * crh TR.specific_humidity2vmr TR.vmr2specific_humidity qsat g₀ q p t := by
  rw [C14_crh_ratio qsat _ p t haq hs hne, C14_crh_ratio qsat q p t hq hs hne, trapz_smul]
  ring

/-! ## pressure2height -/

/-- starts at 0 -/
theorem C14_p2h_zero (rho : ℝ → ℝ → ℝ) (g : ℝ) (p T : List ℝ) :
    (p2h rho g p T).head? = some 0 := by simp [p2h]

private theorem p2hAux_chain (rho : ℝ → ℝ → ℝ) (g : ℝ) (hg : 0 < g)
    (hrho : ∀ p T, 0 < p → 0 < T → 0 < rho p T) :
    ∀ (l : List (ℝ × ℝ)) (acc : ℝ), (∀ x ∈ l, 0 < x.1 ∧ 0 < x.2) →
      (l.map Prod.fst).IsChain (· > ·) → (acc :: p2hAux rho g acc l).IsChain (· < ·) := by
  intro l
  induction l with
  | nil => intro acc _ _; simp [p2hAux]
  | cons a l ih =>
    intro acc hpos hc
    rcases l with _ | ⟨b, rest⟩
    · simp [p2hAux]
    · obtain ⟨p0, t0⟩ := a
      obtain ⟨p1, t1⟩ := b
      simp only [p2hAux]
      have hdec : p1 < p0 := by
        simp only [List.map_cons] at hc
        exact (List.isChain_cons_cons.mp hc).1
      have h0 := hpos (p0, t0) (by simp)
      have h1 := hpos (p1, t1) (by simp)
      have hr0 := hrho p0 t0 h0.1 h0.2
      have hr1 := hrho p1 t1 h1.1 h1.2
      have hstep : 0 < -(p1 - p0) / ((rho p0 t0 + rho p1 t1) / 2 * g) := by
        apply div_pos (by linarith) (by positivity)
      refine List.isChain_cons_cons.mpr ⟨by linarith, ?_⟩
      apply ih
      · intro x hx; exact hpos x (List.mem_cons_of_mem _ hx)
      · simp only [List.map_cons] at hc ⊢
        exact (List.isChain_cons_cons.mp hc).2

/-- increases strictly with strictly decreasing pressure (positive density, g > 0) -/
theorem C14_p2h_strictMono (rho : ℝ → ℝ → ℝ) (g : ℝ) (hg : 0 < g)
    (hrho : ∀ p T, 0 < p → 0 < T → 0 < rho p T) (p T : List ℝ)
    (hlen : p.length = T.length) (hp : ∀ x ∈ p, 0 < x) (hT : ∀ x ∈ T, 0 < x)
    (hdec : p.IsChain (· > ·)) :
    (p2h rho g p T).IsChain (· < ·) := by
  unfold p2h
  apply p2hAux_chain rho g hg hrho
  · intro x hx
    have := List.of_mem_zip hx
    exact ⟨hp _ this.1, hT _ this.2⟩
  · rw [List.map_fst_zip (by omega)]
    exact hdec

/-- the translated `density` is positive for positive pressure and temperature -/
theorem C14_density_pos (p T : ℝ) (hp : 0 < p) (hT : 0 < T) : 0 < TR.density p T := by
  simp only [TR.density]
  have := C.gas_constant_dry_air_pos
  positivity

/-! ## standard atmosphere: the interpolant reproduces the tabulated nodes -/

/-- linear interpolation (scipy `interp1d`, extrapolating) returns the node value at every node
of a strictly increasing table — in particular the height addressing and the log-pressure
addressing of `standard_atmosphere` agree at the eight tabulated levels -/
theorem C14_interp_nodes : ∀ (nodes : List (ℝ × ℝ)), 2 ≤ nodes.length →
    (nodes.map Prod.fst).IsChain (· < ·) → ∀ nd ∈ nodes, interpAux nd.1 nodes = some nd.2 := by
  intro nodes
  induction nodes with
  | nil => intro h; simp at h
  | cons a rest ih =>
    intro hlen hc nd hmem
    rcases rest with _ | ⟨b, rest'⟩
    · simp at hlen
    · obtain ⟨x0, y0⟩ := a
      obtain ⟨x1, y1⟩ := b
      have hx01 : x0 < x1 := by
        simp only [List.map_cons] at hc; exact (List.isChain_cons_cons.mp hc).1
      have hc' : (((x1, y1) :: rest').map Prod.fst).IsChain (· < ·) := by
        simp only [List.map_cons] at hc ⊢; exact (List.isChain_cons_cons.mp hc).2
      have hne : x1 - x0 ≠ 0 := by linarith
      rcases rest' with _ | ⟨c, rest''⟩
      · -- exactly two nodes
        simp only [List.mem_cons, List.not_mem_nil, or_false] at hmem
        rcases hmem with rfl | rfl
        · simp [interpAux]
        · simp only [interpAux]; congr 1; field_simp; ring
      · rcases List.mem_cons.mp hmem with rfl | hmem'
        · -- first node: x0 ≤ x1, segment 0
          simp only [interpAux, not_lt.mpr hx01.le, if_false]
          simp
        · rcases List.mem_cons.mp hmem' with rfl | hmem''
          · -- second node: not (x1 < x1)
            simp only [interpAux, lt_irrefl, if_false]
            congr 1; field_simp; ring
          · -- a later node: x1 < nd.1
            have hgt : x1 < nd.1 := by
              have hpw : ((x1, y1) :: c :: rest'').map Prod.fst |>.Pairwise (· < ·) :=
                List.isChain_iff_pairwise.mp hc'
              simp only [List.map_cons, List.pairwise_cons] at hpw
              exact hpw.1 nd.1 (by
                have : nd.1 ∈ (c :: rest'').map Prod.fst := List.mem_map_of_mem hmem''
                simpa using this)
            simp only [interpAux, hgt, if_true]
            exact ih (by simp) hc' nd hmem'

/-! ## Limits of grid refinement

The trapezoid error bound `M/12 · mesh² · length` (no differentiability needed), the convergence of the
trapezoid sums to the integral, the agreement of the hydrostatic and the general form of the IWV for the
isothermal well-mixed column (exact hydrostatic value on every grid, explicit O(mesh²) bound and `Tendsto`
for the general form, with the 1e-16 inconsistency of the double gas constants made explicit) and
`pressure2height → (R T/g) ln(p₀/p)` for an isothermal column (exact layer thickness, two-sided bounds,
`Tendsto`) are proved in `Proofs/Props/C14Refine.lean` (lemmas: `Proofs/Lemmas/Refine.lean`). -/

/-! ## Non-vacuity -/
example : ([1000, 900, 700] : List ℝ).IsChain (· ≥ ·) := by simp; norm_num
example : trapz ([0, 1, 3] : List ℝ) [1, 1, 1] = 3 := by simp; norm_num
example : ((unitGrid 0 3 : List ℝ)) = [0, 0 + 1, 0 + 1 + 1] := by simp [unitGrid]

assert_axioms C14_trapz_linear C14_trapz_split C14_trapz_reverse C14_trapz_unit_spacing
  C14_segment_integral C14_trapz_is_integral C14_iwv_nonneg C14_crh_ratio C14_crh_saturated C14_crh_linear C14_p2h_zero
  C14_p2h_strictMono C14_density_pos C14_interp_nodes
