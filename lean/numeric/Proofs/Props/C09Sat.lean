import GenReal.Atmosphere
import Proofs.Lemmas.Consts
import Proofs.Lemmas.Saturation
import Proofs.Props.C09
import Proofs.Audit
import Mathlib.Tactic
import Mathlib.Analysis.SpecialFunctions.Exp
import Mathlib.Analysis.SpecialFunctions.Log.Basic

/-!
# C09 (continued) — the two Murphy–Koop saturation pressures against each other

All theorems are about `TR.e_eq_water_mk`, `TR.e_eq_ice_mk`, `TR.e_eq_mixed_mk`, the real-number
reading of `typhon/physics/atmosphere.py`; they only use the normal forms
`Sat.nf_water : e_eq_water_mk T = exp (Sat.W T)` and `Sat.nf_ice : e_eq_ice_mk T = exp (Sat.I T)`
of `Proofs/Lemmas/Saturation.lean`.

**Numerical finding.**  With `D = ln e_w − ln e_i`, `D(T_t) ≈ −4.114·10⁻⁸ < 0` at
`T_t = C.triple_point_water` (the double nearest 273.16): the published formulas cross about
`4.25 µK` *below* 273.16 K (at ≈ 273.159995748 K), not exactly at the triple point.  Hence
`e_i ≤ e_w` is provable only up to a hair below `T_t` (`C09_ice_le_water_partial`, to `T_t − 10 µK`),
it fails at `T_t` itself (`C09_water_lt_ice_at_triple`), and the reading "ice ≤ liquid below the triple
point, equal there to 1e-6 relative" holds in the relative form (`C09_ice_le_water_rel`,
`C09_triple_point_agree`).
-/

open TR

/-- `ln e_w − ln e_i` at the triple point lies in `(−4.12e-8, −4.11e-8)`. -/
theorem C09_log_ratio_at_triple :
    (-4.12e-8 : ℝ) < Real.log (e_eq_water_mk C.triple_point_water / e_eq_ice_mk C.triple_point_water) ∧
    Real.log (e_eq_water_mk C.triple_point_water / e_eq_ice_mk C.triple_point_water) < -4.11e-8 := by
  rw [Sat.nf_water, Sat.nf_ice, ← Real.exp_sub, Real.log_exp, Sat.Tt_eq]
  exact Sat.D_Tt_bounds

/-- **1.** `e_eq_water_mk` is strictly increasing on [100 K, 400 K]. -/
theorem C09_e_water_strictMono : StrictMonoOn e_eq_water_mk (Set.Icc 100 400) := by
  intro a ha b hb hab
  rw [Sat.nf_water, Sat.nf_water]
  exact Real.exp_lt_exp.mpr (Sat.W_strictMonoOn ha hb hab)

/-- **2a.** ice saturation pressure does not exceed the liquid value from 100 K up to 10 µK below
the triple point (the formulas cross ≈ 4.25 µK below `T_t`, see `C09_water_lt_ice_at_triple`). -/
theorem C09_ice_le_water_partial (T : ℝ) (h1 : 100 ≤ T) (h2 : T ≤ C.triple_point_water - 1 / 100000) :
    e_eq_ice_mk T ≤ e_eq_water_mk T := by
  rw [Sat.nf_water, Sat.nf_ice]
  apply Real.exp_le_exp.mpr
  rw [Sat.Tt_eq] at h2
  have := Sat.D_nonneg h1 h2
  simp only [Sat.D] at this
  linarith

/-- … in particular for every temperature from 100 K to the freezing point 273.15 K. -/
theorem C09_ice_le_water_below_freezing (T : ℝ) (h1 : 100 ≤ T) (h2 : T ≤ 273.15) :
    e_eq_ice_mk T ≤ e_eq_water_mk T := by
  apply C09_ice_le_water_partial T h1
  have := Sat.Tt_bounds.1
  rw [Sat.Tt_eq]; norm_num at this ⊢; linarith

/-- **2b.** on the whole range 100 K … `T_t` the ice value exceeds the liquid value by at most
`10⁻⁶` relative (the property's reading "ice ≤ liquid below the triple point, equal there to 1e-6"). -/
theorem C09_ice_le_water_rel (T : ℝ) (h1 : 100 ≤ T) (h2 : T ≤ C.triple_point_water) :
    e_eq_ice_mk T ≤ (1 + 1e-6) * e_eq_water_mk T := by
  rw [Sat.Tt_eq] at h2
  have hD := Sat.D_ge h1 h2
  exact Sat.ice_le_of_D_ge (δ := 4.12e-8) (by linarith) (by norm_num) (by norm_num)

/-- sharp form of 2b: the excess is at most `4.2·10⁻⁸` relative. -/
theorem C09_ice_le_water_rel_sharp (T : ℝ) (h1 : 100 ≤ T) (h2 : T ≤ C.triple_point_water) :
    e_eq_ice_mk T ≤ (1 + 4.2e-8) * e_eq_water_mk T := by
  rw [Sat.Tt_eq] at h2
  have hD := Sat.D_ge h1 h2
  exact Sat.ice_le_of_D_ge (δ := 4.12e-8) (by linarith) (by norm_num) (by norm_num)

/-- **2c.** at the triple point itself (and above it, up to 400 K) the liquid formula is strictly *below* the
ice formula — the reason why 2a cannot reach `T_t`. -/
theorem C09_water_lt_ice_above_triple (T : ℝ) (h1 : C.triple_point_water ≤ T) (h2 : T ≤ 400) :
    e_eq_water_mk T < e_eq_ice_mk T := by
  rw [Sat.nf_water, Sat.nf_ice]
  apply Real.exp_lt_exp.mpr
  rw [Sat.Tt_eq] at h1
  have := Sat.D_neg h1 h2
  simp only [Sat.D] at this
  linarith

theorem C09_water_lt_ice_at_triple :
    e_eq_water_mk C.triple_point_water < e_eq_ice_mk C.triple_point_water :=
  C09_water_lt_ice_above_triple _ (le_refl _) (by rw [Sat.Tt_eq]; linarith [Sat.Tt_bounds.2])

/-- **3.** the two formulas agree to `10⁻⁶` relative at the triple point (actually to `4.2·10⁻⁸`). -/
theorem C09_triple_point_agree :
    |e_eq_water_mk C.triple_point_water - e_eq_ice_mk C.triple_point_water|
      ≤ 1e-6 * e_eq_ice_mk C.triple_point_water := by
  have hlt := C09_water_lt_ice_at_triple
  have hpos := (C09_e_pos C.triple_point_water).1
  rw [abs_of_neg (by linarith)]
  -- e_w = e_i * exp D ≥ e_i * (1 + D)
  have hD := Sat.D_Tt_bounds.1
  have hw : e_eq_water_mk C.triple_point_water
      = e_eq_ice_mk C.triple_point_water * Real.exp (Sat.D Sat.Tt) := by
    rw [Sat.nf_water, Sat.nf_ice, ← Real.exp_add, Sat.Tt_eq]; congr 1; simp only [Sat.D]; ring
  have hexp : Sat.D Sat.Tt + 1 ≤ Real.exp (Sat.D Sat.Tt) := Real.add_one_le_exp _
  rw [hw]
  nlinarith

/-! ## The mixed-phase value between the two -/

/-- for every `T` the mixed-phase value lies between the smaller and the larger of the two -/
theorem C09_mixed_between_minmax (T : ℝ) :
    min (e_eq_ice_mk T) (e_eq_water_mk T) ≤ e_eq_mixed_mk T ∧
    e_eq_mixed_mk T ≤ max (e_eq_ice_mk T) (e_eq_water_mk T) := by
  by_cases h1 : T < C.triple_point_water - 23
  · rw [(C09_mixed_branches T).1 h1]; exact ⟨min_le_left _ _, le_max_left _ _⟩
  by_cases h2 : T > C.triple_point_water
  · rw [(C09_mixed_branches T).2.1 h2]; exact ⟨min_le_right _ _, le_max_right _ _⟩
  rw [(C09_mixed_branches T).2.2 (not_lt.mp h1) (not_lt.mp h2)]
  set s := (T - C.triple_point_water + 23) / 23 with hs
  have hs0 : 0 ≤ s := by rw [hs]; apply div_nonneg <;> linarith [not_lt.mp h1]
  have hs1 : s ≤ 1 := by rw [hs, div_le_one (by norm_num)]; linarith [not_lt.mp h2]
  have hsq : s ^ 2 ≤ 1 := by nlinarith
  have hsq0 : 0 ≤ s ^ 2 := by positivity
  rcases le_total (e_eq_ice_mk T) (e_eq_water_mk T) with h | h
  · rw [min_eq_left h, max_eq_right h]; constructor <;> nlinarith
  · rw [min_eq_right h, max_eq_left h]; constructor <;> nlinarith

/-- **4.** `C09_mixed_between` without its hypothesis, on 100 K … `T_t − 10 µK`. -/
theorem C09_mixed_between_uncond (T : ℝ) (h1 : 100 ≤ T) (h2 : T ≤ C.triple_point_water - 1 / 100000) :
    e_eq_ice_mk T ≤ e_eq_mixed_mk T ∧ e_eq_mixed_mk T ≤ e_eq_water_mk T :=
  C09_mixed_between T (C09_ice_le_water_partial T h1 h2)

/-- relative version on the whole range 100 K … `T_t` (so including the blend interval
`[T_t − 23, T_t]` completely) -/
theorem C09_mixed_between_rel (T : ℝ) (h1 : 100 ≤ T) (h2 : T ≤ C.triple_point_water) :
    (1 - 1e-6) * e_eq_ice_mk T ≤ e_eq_mixed_mk T ∧
    e_eq_mixed_mk T ≤ (1 + 1e-6) * e_eq_water_mk T := by
  obtain ⟨hmin, hmax⟩ := C09_mixed_between_minmax T
  have hrel := C09_ice_le_water_rel T h1 h2
  have hi := (C09_e_pos T).1
  have hw := (C09_e_pos T).2
  constructor
  · refine le_trans ?_ hmin
    apply le_min <;> nlinarith
  · refine le_trans hmax ?_
    apply max_le <;> nlinarith

/-! ## Non-vacuity -/

example : (100 : ℝ) ≤ 250 ∧ (250 : ℝ) ≤ C.triple_point_water - 1 / 100000 := by
  unfold C.triple_point_water; constructor <;> norm_num
example : (100 : ℝ) ≤ 273.15 ∧ (273.15 : ℝ) ≤ 273.15 := by norm_num
example : (100 : ℝ) ≤ C.triple_point_water ∧ C.triple_point_water ≤ C.triple_point_water := by
  unfold C.triple_point_water; constructor <;> norm_num
example : C.triple_point_water ≤ 300 ∧ (300 : ℝ) ≤ 400 := by
  unfold C.triple_point_water; constructor <;> norm_num
example : ∃ a b : ℝ, a ∈ Set.Icc (100 : ℝ) 400 ∧ b ∈ Set.Icc (100 : ℝ) 400 ∧ a < b :=
  ⟨200, 300, by norm_num, by norm_num, by norm_num⟩

assert_axioms C09_log_ratio_at_triple C09_e_water_strictMono C09_ice_le_water_partial
  C09_ice_le_water_below_freezing C09_ice_le_water_rel C09_ice_le_water_rel_sharp
  C09_water_lt_ice_above_triple C09_water_lt_ice_at_triple C09_triple_point_agree
  C09_mixed_between_minmax C09_mixed_between_uncond C09_mixed_between_rel
