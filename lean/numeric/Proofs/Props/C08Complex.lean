import GenReal.Em
import Proofs.Lemmas.SnellComplex
import Proofs.Audit
import Mathlib.Tactic
import Mathlib.Analysis.SpecialFunctions.Trigonometric.Inverse
import Mathlib.Analysis.Complex.Basic

/-!
# C08 — Snell / Fresnel for a COMPLEX refractive index n₂ = n2re + i·n2im

Theorems about `TR.snell_c` / `TR.fresnel_c`: the second translation (spec variant "c", parameter
`n2` complex) of `typhon.physics.em.snell` / `fresnel`, regenerated from /repo by `tools/py2lean`
on every run.  `snell_c` is Liou's branch of `snell` (it only uses `np.real(n2)`, `np.imag(n2)`, so
it is real-valued); `fresnel_c` returns two numbers of Mathlib's `ℂ`.

The variant decides `np.isreal(n2)` False, i.e. it is the code path for `Im n₂ ≠ 0`
(`C08_snell_c_real_limit` / `C08_fresnel_c_real_limit`: at `Im n₂ = 0` its formulas coincide with the
real branch whenever there is no total reflection).
-/

open TR SnellC

/-- Liou's "adjusted real index of refraction" `Nr` exactly as `snell` computes it
(`m = n₂/n₁`, `mr2 = (Re m)²`, `mi2 = (Im m)²`, `s2 = sin²θ₁`). -/
noncomputable def Nr (n1 n2re n2im θ1 : ℝ) : ℝ :=
  Real.sqrt (NrSq ((n2re / n1) ^ 2) ((n2im / n1) ^ 2) (Real.sin (θ1 * (Real.pi / 180)) ^ 2))

private theorem deg_rad (z : ℝ) : z * (180 / Real.pi) * (Real.pi / 180) = z := by
  have := Real.pi_pos; field_simp

/-- normal form of the generated term: `θ₂ = arcsin (sin θ₁ / Nr)` in degrees -/
theorem snell_c_eq (n1 n2re n2im θ1 : ℝ) :
    snell_c n1 n2re n2im θ1
      = Real.arcsin (Real.sin (θ1 * (Real.pi / 180)) / Nr n1 n2re n2im θ1) * (180 / Real.pi) := by
  -- robust against commutative-ring rewrites of the source (`sin1 * sin1` / `sin1**2`, reordered sums)
  simp only [snell_c, Nr, NrSq] <;> ring_nf

private theorem mr2_pos (n1 n2re : ℝ) (hn1 : 0 < n1) (hn2 : 0 < n2re) : 0 < (n2re / n1) ^ 2 := by
  positivity

/-- `Nr² = NrSq …` (the outer square root is taken of a positive number) -/
private theorem Nr_sq (n1 n2re n2im θ1 : ℝ) (hn1 : 0 < n1) (hn2 : 0 < n2re) :
    Nr n1 n2re n2im θ1 ^ 2
      = NrSq ((n2re / n1) ^ 2) ((n2im / n1) ^ 2) (Real.sin (θ1 * (Real.pi / 180)) ^ 2) := by
  unfold Nr
  exact Real.sq_sqrt (NrSq_pos _ _ _ (mr2_pos n1 n2re hn1 hn2) (sq_nonneg _)).le

/-- **No NaN in the complex branch**: for accepted inputs (`n₁ > 0`, `Re n₂ > 0`) the effective index
is positive and at least `|sin θ₁|`, so the argument of `arcsin` lies in `[-1, 1]` — for EVERY
imaginary part and every angle, in particular in the total-reflection limit `Im n₂ → 0`, `n₁ > Re n₂`. -/
theorem C08_snell_c_domain (n1 n2re n2im θ1 : ℝ) (hn1 : 0 < n1) (hn2 : 0 < n2re) :
    0 < Nr n1 n2re n2im θ1 ∧ |Real.sin (θ1 * (Real.pi / 180))| ≤ Nr n1 n2re n2im θ1 ∧
    |Real.sin (θ1 * (Real.pi / 180)) / Nr n1 n2re n2im θ1| ≤ 1 := by
  have hpos : 0 < Nr n1 n2re n2im θ1 :=
    Real.sqrt_pos.mpr (NrSq_pos _ _ _ (mr2_pos n1 n2re hn1 hn2) (sq_nonneg _))
  have hle : |Real.sin (θ1 * (Real.pi / 180))| ≤ Nr n1 n2re n2im θ1 :=
    Real.abs_le_sqrt (s2_le_NrSq _ _ _ (sq_nonneg _) (sq_nonneg _))
  refine ⟨hpos, hle, ?_⟩
  rw [abs_div, abs_of_pos hpos, div_le_one hpos]
  exact hle

/-- **Complex Snell law as the code (Liou 5.4.1.3) states it**: `Nr · sin θ₂ = sin θ₁`, under exactly
the conditions the code accepts (`¬ snell_c_rejects`); no further domain hypothesis is needed
(`C08_snell_c_domain`). -/
theorem C08_snell_c_law (n1 n2re n2im θ1 : ℝ) (hn1 : 0 < n1) (hn2 : 0 < n2re) :
    Nr n1 n2re n2im θ1 * Real.sin (snell_c n1 n2re n2im θ1 * (Real.pi / 180))
      = Real.sin (θ1 * (Real.pi / 180)) := by
  obtain ⟨hpos, _, hx⟩ := C08_snell_c_domain n1 n2re n2im θ1 hn1 hn2
  rw [snell_c_eq, deg_rad, Real.sin_arcsin (abs_le.mp hx).1 (abs_le.mp hx).2]
  field_simp

/-- the rejected inputs of the complex variant are those with a non-positive (real part of an) index -/
theorem C08_snell_c_guard (n1 n2re n2im θ1 : ℝ) :
    snell_c_rejects n1 n2re n2im θ1 ↔ (n1 ≤ 0 ∨ n2re ≤ 0) := by
  simp [snell_c_rejects]

/-- `Nr` is the real index of the planes of constant phase of the complex Snell law:
for any complex root `w` of `w² = (n₂/n₁)² - sin²θ₁`,  `Nr² = sin²θ₁ + (Re w)²`
(so `tan θ₂ = sin θ₁ / |Re √(m² - sin²θ₁)|`: the independent formula the harness oracle uses). -/
theorem C08_snell_c_phase (n1 n2re n2im θ1 : ℝ) (hn1 : 0 < n1) (hn2 : 0 < n2re) (w : ℂ)
    (hw : w ^ 2 = (⟨n2re / n1, n2im / n1⟩ : ℂ) ^ 2
            - ((Real.sin (θ1 * (Real.pi / 180)) ^ 2 : ℝ) : ℂ)) :
    Nr n1 n2re n2im θ1 ^ 2 = Real.sin (θ1 * (Real.pi / 180)) ^ 2 + w.re ^ 2 := by
  rw [Nr_sq n1 n2re n2im θ1 hn1 hn2]
  exact NrSq_eq_phase _ _ _ w hw

/-- **Real limit**: at `Im n₂ = 0` and without total reflection (`n₁ |sin θ₁| ≤ n₂`) the complex-branch
formula has `Nr = n₂/n₁` and returns the angle of the real branch. -/
theorem C08_snell_c_real_limit (n1 n2 θ1 : ℝ) (hn1 : 0 < n1) (hn2 : 0 < n2)
    (h : |n1 * Real.sin (θ1 * (Real.pi / 180))| ≤ n2) :
    Nr n1 n2 0 θ1 = n2 / n1 ∧ snell_c n1 n2 0 θ1 = snell n1 n2 θ1 := by
  have hq : 0 < n2 / n1 := div_pos hn2 hn1
  have hs : Real.sin (θ1 * (Real.pi / 180)) ^ 2 ≤ (n2 / n1) ^ 2 := by
    rw [abs_mul, abs_of_pos hn1] at h
    have h' : |Real.sin (θ1 * (Real.pi / 180))| ≤ n2 / n1 := by
      rw [le_div_iff₀ hn1]; linarith
    calc Real.sin (θ1 * (Real.pi / 180)) ^ 2 = |Real.sin (θ1 * (Real.pi / 180))| ^ 2 := (sq_abs _).symm
      _ ≤ (n2 / n1) ^ 2 := by gcongr
  have hNr : Nr n1 n2 0 θ1 = n2 / n1 := by
    unfold Nr
    rw [zero_div, show (0 : ℝ) ^ 2 = 0 by norm_num, NrSq_real, max_eq_left hs, Real.sqrt_sq hq.le]
  refine ⟨hNr, ?_⟩
  rw [snell_c_eq, hNr]
  simp only [snell]
  congr 2
  field_simp

/-- beyond total reflection with a real index (`Im n₂ = 0`, `n₂ < n₁ sin θ₁`) the complex-branch formula
gives `Nr = sin θ₁` and grazing refraction `θ₂ = 90°` (where the real branch of the code returns NaN) -/
theorem C08_snell_c_total_reflection (n1 n2 θ1 : ℝ) (hn1 : 0 < n1) (hn2 : 0 < n2)
    (h : n2 < n1 * Real.sin (θ1 * (Real.pi / 180))) :
    Nr n1 n2 0 θ1 = Real.sin (θ1 * (Real.pi / 180)) ∧ snell_c n1 n2 0 θ1 = 90 := by
  have hq : 0 < n2 / n1 := div_pos hn2 hn1
  have hsin : n2 / n1 < Real.sin (θ1 * (Real.pi / 180)) := by
    rw [div_lt_iff₀ hn1]; linarith
  have hsp : 0 < Real.sin (θ1 * (Real.pi / 180)) := lt_trans hq hsin
  have hs : (n2 / n1) ^ 2 ≤ Real.sin (θ1 * (Real.pi / 180)) ^ 2 := by gcongr
  have hNr : Nr n1 n2 0 θ1 = Real.sin (θ1 * (Real.pi / 180)) := by
    unfold Nr
    rw [zero_div, show (0 : ℝ) ^ 2 = 0 by norm_num, NrSq_real, max_eq_right hs, Real.sqrt_sq hsp.le]
  refine ⟨hNr, ?_⟩
  rw [snell_c_eq, hNr, div_self hsp.ne', Real.arcsin_one]
  have := Real.pi_pos
  field_simp
  norm_num

/-! ## Fresnel coefficients for complex n₂ -/

/-- the cosine of the (real) refraction angle is non-negative -/
private theorem cos_snell_c_nonneg (n1 n2re n2im θ1 : ℝ) :
    0 ≤ Real.cos (snell_c n1 n2re n2im θ1 * (Real.pi / 180)) := by
  rw [snell_c_eq, deg_rad]
  exact Real.cos_arcsin_nonneg _

/-- it is positive as soon as `sin²θ₁ < Nr²` -/
private theorem cos_snell_c_pos (n1 n2re n2im θ1 : ℝ) (hn1 : 0 < n1) (hn2 : 0 < n2re)
    (hlt : Real.sin (θ1 * (Real.pi / 180)) ^ 2
        < NrSq ((n2re / n1) ^ 2) ((n2im / n1) ^ 2) (Real.sin (θ1 * (Real.pi / 180)) ^ 2)) :
    0 < Real.cos (snell_c n1 n2re n2im θ1 * (Real.pi / 180)) := by
  obtain ⟨hpos, _, _⟩ := C08_snell_c_domain n1 n2re n2im θ1 hn1 hn2
  rw [snell_c_eq, deg_rad, Real.cos_arcsin, Real.sqrt_pos, div_pow, sub_pos,
    div_lt_one (by positivity), Nr_sq n1 n2re n2im θ1 hn1 hn2]
  exact hlt

private theorem cos_deg_nonneg (θ1 : ℝ) (h0 : 0 ≤ θ1) (h90 : θ1 ≤ 90) :
    0 ≤ Real.cos (θ1 * (Real.pi / 180)) := by
  apply Real.cos_nonneg_of_mem_Icc
  have := Real.pi_pos
  constructor <;> nlinarith

private theorem cos_deg_pos (θ1 : ℝ) (h0 : 0 ≤ θ1) (h90 : θ1 < 90) :
    0 < Real.cos (θ1 * (Real.pi / 180)) := by
  apply Real.cos_pos_of_mem_Ioo
  have := Real.pi_pos
  constructor <;> nlinarith

/-- outside the degenerate corner (grazing incidence on a transparent, optically thinner medium) at
least one of the two cosines is positive -/
private theorem cos_not_both_zero (n1 n2re n2im θ1 : ℝ) (hn1 : 0 < n1) (hn2 : 0 < n2re)
    (h0 : 0 ≤ θ1) (hnd : θ1 < 90 ∨ n2im ≠ 0 ∨ n1 < n2re) :
    0 < Real.cos (θ1 * (Real.pi / 180)) ∨
      0 < Real.cos (snell_c n1 n2re n2im θ1 * (Real.pi / 180)) := by
  rcases hnd with h | h | h
  · exact Or.inl (cos_deg_pos θ1 h0 h)
  · right
    apply cos_snell_c_pos n1 n2re n2im θ1 hn1 hn2
    exact s2_lt_NrSq _ _ _ (mr2_pos n1 n2re hn1 hn2) (by positivity)
  · right
    apply cos_snell_c_pos n1 n2re n2im θ1 hn1 hn2
    apply s2_lt_NrSq_of_lt _ _ _ (sq_nonneg _) (sq_nonneg _)
    have h1 : (1 : ℝ) < n2re / n1 := by rw [lt_div_iff₀ hn1]; linarith
    have h2 : Real.sin (θ1 * (Real.pi / 180)) ^ 2 ≤ 1 := Real.sin_sq_le_one _
    nlinarith

/-- **|Rv| ≤ 1 and |Rh| ≤ 1 for a complex index**: `n₁ > 0`, `Re n₂ > 0` (`¬ snell_c_rejects`),
`0° ≤ θ₁ ≤ 90°`, outside the degenerate corner `θ₁ = 90° ∧ Im n₂ = 0 ∧ Re n₂ ≤ n₁` (there both
denominators vanish: `C08_fresnel_c_degenerate`).  Both denominators are non-zero, so no `x / 0 = 0`
is involved.  The sign of `Im n₂` plays no role in the bound (it only needs `Re (n₂ cos θ) ≥ 0`), so the
theorem covers all accepted inputs `Im n₂ ≥ 0` (`¬ fresnel_c_rejects`, see `C08_fresnel_c_accepted`). -/
theorem C08_fresnel_c_le_one (n1 n2re n2im θ1 : ℝ) (hn1 : 0 < n1) (hn2 : 0 < n2re)
    (h0 : 0 ≤ θ1) (h90 : θ1 ≤ 90) (hnd : θ1 < 90 ∨ n2im ≠ 0 ∨ n1 < n2re) :
    ‖(fresnel_c n1 n2re n2im θ1).1‖ ≤ 1 ∧ ‖(fresnel_c n1 n2re n2im θ1).2‖ ≤ 1 ∧
    (⟨n2re, n2im⟩ : ℂ) * ((Real.cos (θ1 * (Real.pi / 180)) : ℝ) : ℂ)
      + ((n1 * Real.cos (snell_c n1 n2re n2im θ1 * (Real.pi / 180)) : ℝ) : ℂ) ≠ 0 ∧
    ((n1 * Real.cos (θ1 * (Real.pi / 180)) : ℝ) : ℂ)
      + (⟨n2re, n2im⟩ : ℂ) * ((Real.cos (snell_c n1 n2re n2im θ1 * (Real.pi / 180)) : ℝ) : ℂ) ≠ 0 := by
  have hc1 := cos_deg_nonneg θ1 h0 h90
  have hc2 := cos_snell_c_nonneg n1 n2re n2im θ1
  have hcc := cos_not_both_zero n1 n2re n2im θ1 hn1 hn2 h0 hnd
  simp only [fresnel_c]
  set a := Real.cos (θ1 * (Real.pi / 180))
  set b := Real.cos (snell_c n1 n2re n2im θ1 * (Real.pi / 180))
  -- vertical: z = n₂ cos θ₁, w = n₁ cos θ₂
  have hz1 : 0 ≤ ((⟨n2re, n2im⟩ : ℂ) * ((a : ℝ) : ℂ)).re := by
    simp only [Complex.mul_re, Complex.ofReal_re, Complex.ofReal_im, mul_zero, sub_zero]
    positivity
  have hd1 : (⟨n2re, n2im⟩ : ℂ) * ((a : ℝ) : ℂ) + ((n1 * b : ℝ) : ℂ) ≠ 0 := by
    apply add_ofReal_ne_zero
    simp only [Complex.mul_re, Complex.ofReal_re, Complex.ofReal_im, mul_zero, sub_zero]
    rcases hcc with h | h
    · have := mul_pos hn2 h; have := mul_nonneg hn1.le hc2; linarith
    · have := mul_pos hn1 h; have := mul_nonneg hn2.le hc1; linarith
  -- horizontal: z = n₂ cos θ₂, w = n₁ cos θ₁
  have hz2 : 0 ≤ ((⟨n2re, n2im⟩ : ℂ) * ((b : ℝ) : ℂ)).re := by
    simp only [Complex.mul_re, Complex.ofReal_re, Complex.ofReal_im, mul_zero, sub_zero]
    positivity
  have hd2 : ((n1 * a : ℝ) : ℂ) + (⟨n2re, n2im⟩ : ℂ) * ((b : ℝ) : ℂ) ≠ 0 := by
    rw [add_comm]
    apply add_ofReal_ne_zero
    simp only [Complex.mul_re, Complex.ofReal_re, Complex.ofReal_im, mul_zero, sub_zero]
    rcases hcc with h | h
    · have := mul_pos hn1 h; have := mul_nonneg hn2.le hc2; linarith
    · have := mul_pos hn2 h; have := mul_nonneg hn1.le hc1; linarith
  exact ⟨norm_quot_le_one _ _ hz1 (by positivity) hd1, norm_quot_le_one' _ _ hz2 (by positivity) hd2,
    hd1, hd2⟩

/-- `fresnel` rejects exactly the negative imaginary parts (of `n₂`; `n₁` is real) -/
theorem C08_fresnel_c_guard (n1 n2re n2im θ1 : ℝ) :
    fresnel_c_rejects n1 n2re n2im θ1 ↔ n2im < 0 := by
  simp [fresnel_c_rejects]

/-- the property's quantifier, literally: every input the code accepts (`n₁ > 0`, `Re n₂ > 0`,
`Im n₂ ≥ 0`) with `0° ≤ θ₁ ≤ 90°`, except the `0/0` corner, has `|Rv| ≤ 1` and `|Rh| ≤ 1` -/
theorem C08_fresnel_c_accepted (n1 n2re n2im θ1 : ℝ)
    (hs : ¬ snell_c_rejects n1 n2re n2im θ1) (hf : ¬ fresnel_c_rejects n1 n2re n2im θ1)
    (h0 : 0 ≤ θ1) (h90 : θ1 ≤ 90) (hnd : ¬ (θ1 = 90 ∧ n2im = 0 ∧ n2re ≤ n1)) :
    0 ≤ n2im ∧ ‖(fresnel_c n1 n2re n2im θ1).1‖ ≤ 1 ∧ ‖(fresnel_c n1 n2re n2im θ1).2‖ ≤ 1 := by
  rw [C08_snell_c_guard] at hs
  rw [C08_fresnel_c_guard] at hf
  push Not at hs hf
  have hnd' : θ1 < 90 ∨ n2im ≠ 0 ∨ n1 < n2re := by
    by_contra hc
    push Not at hc
    exact hnd ⟨le_antisymm h90 hc.1, hc.2.1, hc.2.2⟩
  obtain ⟨h1, h2, _, _⟩ := C08_fresnel_c_le_one n1 n2re n2im θ1 hs.1 hs.2 h0 h90 hnd'
  exact ⟨hf, h1, h2⟩

/-- the excluded corner is exactly where the quotients are `0/0`: at grazing incidence on a
transparent medium that is not optically denser both cosines, hence both denominators, vanish -/
theorem C08_fresnel_c_degenerate (n1 n2re : ℝ) (hn1 : 0 < n1) (hn2 : 0 < n2re) (hle : n2re ≤ n1) :
    (⟨n2re, 0⟩ : ℂ) * ((Real.cos ((90 : ℝ) * (Real.pi / 180)) : ℝ) : ℂ)
      + ((n1 * Real.cos (snell_c n1 n2re 0 90 * (Real.pi / 180)) : ℝ) : ℂ) = 0 ∧
    ((n1 * Real.cos ((90 : ℝ) * (Real.pi / 180)) : ℝ) : ℂ)
      + (⟨n2re, 0⟩ : ℂ) * ((Real.cos (snell_c n1 n2re 0 90 * (Real.pi / 180)) : ℝ) : ℂ) = 0 := by
  have h90 : (90 : ℝ) * (Real.pi / 180) = Real.pi / 2 := by ring
  have hq : 0 < n2re / n1 := div_pos hn2 hn1
  have hq1 : n2re / n1 ≤ 1 := by rw [div_le_one hn1]; exact hle
  have hs : (n2re / n1) ^ 2 ≤ 1 := by nlinarith
  have hNr : Nr n1 n2re 0 90 = 1 := by
    unfold Nr
    rw [h90, Real.sin_pi_div_two, zero_div, show (0 : ℝ) ^ 2 = 0 by norm_num, one_pow, NrSq_real,
      max_eq_right hs, Real.sqrt_one]
  have hc2 : Real.cos (snell_c n1 n2re 0 90 * (Real.pi / 180)) = 0 := by
    rw [snell_c_eq, deg_rad, hNr, h90, Real.sin_pi_div_two, div_one, Real.arcsin_one,
      Real.cos_pi_div_two]
  rw [hc2, h90, Real.cos_pi_div_two]
  simp

/-- **normal incidence**: `Rv = (n₂ - n₁)/(n₂ + n₁) = -Rh`, hence `|Rv| = |Rh|`; the common
denominator is non-zero -/
theorem C08_fresnel_c_normal (n1 n2re n2im : ℝ) (hn1 : 0 < n1) (hn2 : 0 < n2re) :
    ‖(fresnel_c n1 n2re n2im 0).1‖ = ‖(fresnel_c n1 n2re n2im 0).2‖ ∧
    (fresnel_c n1 n2re n2im 0).1 = ((⟨n2re, n2im⟩ : ℂ) - (n1 : ℂ)) / ((⟨n2re, n2im⟩ : ℂ) + (n1 : ℂ)) ∧
    (fresnel_c n1 n2re n2im 0).2 = -(fresnel_c n1 n2re n2im 0).1 ∧
    (⟨n2re, n2im⟩ : ℂ) + (n1 : ℂ) ≠ 0 := by
  have hth : snell_c n1 n2re n2im 0 = 0 := by
    rw [snell_c_eq]; simp
  have hv : (fresnel_c n1 n2re n2im 0).1
      = ((⟨n2re, n2im⟩ : ℂ) - (n1 : ℂ)) / ((⟨n2re, n2im⟩ : ℂ) + (n1 : ℂ)) := by
    simp only [fresnel_c, hth]; simp
  have hh : (fresnel_c n1 n2re n2im 0).2 = -(fresnel_c n1 n2re n2im 0).1 := by
    rw [hv]
    simp only [fresnel_c, hth]
    simp only [zero_mul, Real.cos_zero, mul_one, Complex.ofReal_one]
    rw [← neg_div, neg_sub, add_comm]
  refine ⟨by rw [hh, norm_neg], hv, hh, ?_⟩
  apply add_ofReal_ne_zero
  show 0 < n2re + n1
  positivity

/-- **No Brewster angle for an absorbing medium**: with `Im n₂ ≠ 0` the vertically polarised amplitude
never vanishes on `0° ≤ θ₁ ≤ 90°` (only `|Rv|` has a minimum, the pseudo-Brewster angle); the
property's "Rv = 0 at the Brewster angle" is a statement about real indices (`C08_brewster`). -/
theorem C08_fresnel_c_no_brewster (n1 n2re n2im θ1 : ℝ) (hn1 : 0 < n1) (hn2 : 0 < n2re)
    (hb : n2im ≠ 0) (h0 : 0 ≤ θ1) (h90 : θ1 ≤ 90) :
    (fresnel_c n1 n2re n2im θ1).1 ≠ 0 := by
  obtain ⟨_, _, hd1, _⟩ :=
    C08_fresnel_c_le_one n1 n2re n2im θ1 hn1 hn2 h0 h90 (Or.inr (Or.inl hb))
  have hc2 : 0 < Real.cos (snell_c n1 n2re n2im θ1 * (Real.pi / 180)) :=
    cos_snell_c_pos n1 n2re n2im θ1 hn1 hn2
      (s2_lt_NrSq _ _ _ (mr2_pos n1 n2re hn1 hn2) (by positivity))
  simp only [fresnel_c]
  rw [div_ne_zero_iff]
  refine ⟨?_, hd1⟩
  intro hnum
  have hre := congrArg Complex.re hnum
  have him := congrArg Complex.im hnum
  simp only [Complex.sub_re, Complex.sub_im, Complex.mul_re, Complex.mul_im, Complex.ofReal_re,
    Complex.ofReal_im, Complex.zero_re, Complex.zero_im, mul_zero, sub_zero, zero_add] at hre him
  -- Im: n2im · cos θ₁ = 0  ⇒  cos θ₁ = 0;  Re: n1 · cos θ₂ = 0, impossible
  have hc1 : Real.cos (θ1 * (Real.pi / 180)) = 0 := by
    rcases mul_eq_zero.mp him with h | h
    · exact absurd h hb
    · exact h
  rw [hc1, mul_zero, zero_sub, neg_eq_zero] at hre
  rcases mul_eq_zero.mp hre with h | h
  · exact hn1.ne' h
  · exact hc2.ne' h

/-- **Real limit of the Fresnel coefficients**: at `Im n₂ = 0`, without total reflection, the complex
variant returns the (real) coefficients of the real variant -/
theorem C08_fresnel_c_real_limit (n1 n2 θ1 : ℝ) (hn1 : 0 < n1) (hn2 : 0 < n2)
    (h : |n1 * Real.sin (θ1 * (Real.pi / 180))| ≤ n2) :
    (fresnel_c n1 n2 0 θ1).1 = (((fresnel n1 n2 θ1).1 : ℝ) : ℂ) ∧
    (fresnel_c n1 n2 0 θ1).2 = (((fresnel n1 n2 θ1).2 : ℝ) : ℂ) := by
  have hs := (C08_snell_c_real_limit n1 n2 θ1 hn1 hn2 h).2
  have hz : (⟨n2, 0⟩ : ℂ) = ((n2 : ℝ) : ℂ) := rfl
  simp only [fresnel_c, fresnel, hs, hz]
  constructor <;> push_cast <;> rfl

/-! ## Non-vacuity: the hypotheses are satisfiable by concrete non-trivial states -/

-- water-like absorbing medium at 45°, a metal (0.2 + 3i) at grazing incidence, the total-reflection
-- geometry (n₁ = 2 > Re n₂ = 1.5, θ₁ = 80°) with a tiny imaginary part: the theorems apply
example : ‖(fresnel_c 1 1.33 0.05 45).1‖ ≤ 1 ∧ ‖(fresnel_c 1 1.33 0.05 45).2‖ ≤ 1 :=
  let h := C08_fresnel_c_le_one 1 1.33 0.05 45 (by norm_num) (by norm_num) (by norm_num) (by norm_num)
    (Or.inl (by norm_num))
  ⟨h.1, h.2.1⟩
example : ‖(fresnel_c 1 0.2 3 90).1‖ ≤ 1 :=
  (C08_fresnel_c_le_one 1 0.2 3 90 (by norm_num) (by norm_num) (by norm_num) (by norm_num)
    (Or.inr (Or.inl (by norm_num)))).1
example : Nr 2 1.5 1e-12 80 * Real.sin (snell_c 2 1.5 1e-12 80 * (Real.pi / 180))
    = Real.sin (80 * (Real.pi / 180)) :=
  C08_snell_c_law 2 1.5 1e-12 80 (by norm_num) (by norm_num)
example : (fresnel_c 1 0.2 3 60).1 ≠ 0 :=
  C08_fresnel_c_no_brewster 1 0.2 3 60 (by norm_num) (by norm_num) (by norm_num) (by norm_num) (by norm_num)
-- the model's guards accept these inputs
example : ¬ snell_c_rejects 1 0.2 3 90 ∧ ¬ fresnel_c_rejects 1 0.2 3 90 := by
  constructor
  · rw [C08_snell_c_guard]; norm_num
  · rw [C08_fresnel_c_guard]; norm_num
-- real limit: n₁ = 1, n₂ = 1.5, θ₁ = 0 satisfies |n₁ sin θ₁| ≤ n₂
example : |(1 : ℝ) * Real.sin (0 * (Real.pi / 180))| ≤ 1.5 := by simp; norm_num
-- total reflection: n₁ = 2, n₂ = 1, θ₁ = 90° has n₂ < n₁ sin θ₁
example : (1 : ℝ) < 2 * Real.sin (90 * (Real.pi / 180)) := by
  rw [show (90 : ℝ) * (Real.pi / 180) = Real.pi / 2 by ring, Real.sin_pi_div_two]; norm_num
-- a complex root `w` as required by `C08_snell_c_phase` exists (normal incidence: w = m)
example : ((⟨1.5 / 1, 0.3 / 1⟩ : ℂ)) ^ 2
    = (⟨1.5 / 1, 0.3 / 1⟩ : ℂ) ^ 2 - ((Real.sin (0 * (Real.pi / 180)) ^ 2 : ℝ) : ℂ) := by simp
-- a concrete value: normal incidence on n₂ = 3 + 4i from vacuum gives |Rv|² = (4+16)/(16+16)
example : Complex.normSq (fresnel_c 1 3 4 0).1 = 5 / 8 := by
  rw [(C08_fresnel_c_normal 1 3 4 (by norm_num) (by norm_num)).2.1]
  rw [Complex.normSq_div, Complex.normSq_apply, Complex.normSq_apply]
  simp only [Complex.sub_re, Complex.sub_im, Complex.add_re, Complex.add_im, Complex.ofReal_re,
    Complex.ofReal_im]
  norm_num

assert_axioms C08_snell_c_domain C08_snell_c_law C08_snell_c_guard C08_snell_c_phase
  C08_snell_c_real_limit C08_snell_c_total_reflection C08_fresnel_c_le_one C08_fresnel_c_accepted
  C08_fresnel_c_degenerate C08_fresnel_c_normal C08_fresnel_c_no_brewster C08_fresnel_c_guard
  C08_fresnel_c_real_limit
