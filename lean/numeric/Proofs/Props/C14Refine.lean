import Proofs.Lemmas.Refine
import Proofs.Props.C14
import Proofs.Audit
import Mathlib.Analysis.SpecificLimits.Basic

/-!
# C14 — grid refinement: the column integrals converge to their defining integrals

Closes the two items that `Proofs/Props/C14.lean` lists as "not proved":

* (R1) error bound `M/12 · mesh² · (b - a)` of `integrate_column` (`Col.trapz`) against `∫ f`, and
  convergence along any family of grids whose mesh tends to 0;
* (R2) for an isothermal, well-mixed column the hydrostatic form of `integrate_water_vapor` is
  exact on every grid and the general form (on the hydrostatic height of the moist column)
  converges to the same value, with an explicit `O(mesh²)` bound;
* (R3) `pressure2height` of an isothermal column follows `z = (R T / g) ln(p₀ / p)` at every level
  up to an explicit `O(mesh²)` error, never exceeds it, and every layer thickness lies between
  the two one-sided bounds.

* (G) the general statement of the property: for merely continuous integrands `integrate_column`
  converges to the integral (G1); for arbitrary continuous profiles `vmr(p) ∈ [0,1)`, `T(p) > 0`
  the hydrostatic and the general form of `integrate_water_vapor` converge to the same value when
  `z` is the hydrostatic height of the moist column (G2, `C14_iwv_forms_tendsto_general`), and
  `pressure2height` converges to the hydrostatic integral `∫ R_d T/(g p) dp` (G3).

`Col.*` is the hand-written array model, `TR.*`/`C.*` the translated scalar functions and
constants.  Helper lemmas: `Proofs/Lemmas/Refine.lean`.
-/

open Col Filter Topology

local notation "g₀" => C.earth_standard_gravity
local notation "Rv" => C.gas_constant_water_vapor
local notation "Rd" => C.gas_constant_dry_air
local notation "Md" => C.molar_mass_dry_air
local notation "Mw" => C.molar_mass_water

/-! ## (R1) error of the trapezoidal rule and convergence under refinement -/

/-- **Trapezoid error, weakest form.**  `f` is continuous on the convex set `s` and its derivative
is `M`-Lipschitz in the weak sense that `f + M/2·t²` and `M/2·t² - f` are convex on `s`
(no differentiability assumed).  Then on EVERY grid inside `s` — increasing, decreasing or mixed,
any spacing — `integrate_column` differs from the integral between the first and the last grid
point by at most `M/12 · mesh² · ∑|x_{i+1} - x_i|`. -/
theorem C14_trapz_error {s : Set ℝ} {f : ℝ → ℝ} {M : ℝ} (hM : 0 ≤ M)
    (h1 : ConvexOn ℝ s (fun t => f t + M / 2 * t ^ 2))
    (h2 : ConvexOn ℝ s (fun t => M / 2 * t ^ 2 - f t))
    (hc : ContinuousOn f s) (x : List ℝ) (hne : x ≠ []) (hmem : ∀ t ∈ x, t ∈ s) :
    |trapz x (x.map f) - ∫ t in (x.head hne)..(x.getLast hne), f t|
      ≤ M / 12 * mesh x ^ 2 * pathLen x :=
  trapz_err_le hM h1 h2 hc x hne hmem (mesh x) le_rfl

/-- … on a monotone grid (either direction) the total length is `|last - first|` -/
theorem C14_trapz_error_monotone {s : Set ℝ} {f : ℝ → ℝ} {M : ℝ} (hM : 0 ≤ M)
    (h1 : ConvexOn ℝ s (fun t => f t + M / 2 * t ^ 2))
    (h2 : ConvexOn ℝ s (fun t => M / 2 * t ^ 2 - f t))
    (hc : ContinuousOn f s) (x : List ℝ) (hne : x ≠ []) (hmem : ∀ t ∈ x, t ∈ s)
    (hmono : x.IsChain (· ≤ ·) ∨ x.IsChain (· ≥ ·)) :
    |trapz x (x.map f) - ∫ t in (x.head hne)..(x.getLast hne), f t|
      ≤ M / 12 * mesh x ^ 2 * |x.getLast hne - x.head hne| := by
  have := C14_trapz_error hM h1 h2 hc x hne hmem
  rcases hmono with h | h
  · rw [pathLen_of_increasing x hne h] at this
    exact this.trans (mul_le_mul_of_nonneg_left (le_abs_self _)
      (mul_nonneg (by positivity) (sq_nonneg _)))
  · rw [pathLen_of_decreasing x hne h] at this
    rw [abs_sub_comm (x.getLast hne)]
    exact this.trans (mul_le_mul_of_nonneg_left (le_abs_self _)
      (mul_nonneg (by positivity) (sq_nonneg _)))

/-- **Trapezoid error for a function with `M`-Lipschitz derivative** on `[a, b]`, increasing grid
from `a` to `b`. -/
theorem C14_trapz_error_lipschitz_deriv {a b M : ℝ} {f f' : ℝ → ℝ} (hM : 0 ≤ M)
    (hc : ContinuousOn f (Set.Icc a b)) (hd : ∀ t ∈ Set.Ioo a b, HasDerivAt f (f' t) t)
    (hL : ∀ u ∈ Set.Ioo a b, ∀ v ∈ Set.Ioo a b, |f' u - f' v| ≤ M * |u - v|)
    (x : List ℝ) (hne : x ≠ []) (hinc : x.IsChain (· ≤ ·))
    (ha : x.head hne = a) (hb : x.getLast hne = b) :
    |trapz x (x.map f) - ∫ t in a..b, f t| ≤ M / 12 * mesh x ^ 2 * (b - a) := by
  obtain ⟨h1, h2⟩ := semiconvex_of_lipschitz_deriv (convex_Icc a b) hc
    (by rwa [interior_Icc]) (by rwa [interior_Icc])
  have hmem : ∀ t ∈ x, t ∈ Set.Icc a b := by
    intro t ht
    have := chain_le_bounds x hne hinc t ht
    rw [ha, hb] at this
    exact this
  have := C14_trapz_error hM h1 h2 hc x hne hmem
  rwa [pathLen_of_increasing x hne hinc, ha, hb] at this

/-- **Trapezoid error for a `C²`-type function**: `|f''| ≤ M` inside `[a, b]`, increasing grid from
`a` to `b`: `|trapz - ∫_a^b f| ≤ M/12 · mesh² · (b - a)`. -/
theorem C14_trapz_error_C2 {a b M : ℝ} {f f' f'' : ℝ → ℝ} (hM : 0 ≤ M)
    (hc : ContinuousOn f (Set.Icc a b)) (hd : ∀ t ∈ Set.Ioo a b, HasDerivAt f (f' t) t)
    (hd2 : ∀ t ∈ Set.Ioo a b, HasDerivAt f' (f'' t) t) (hbd : ∀ t ∈ Set.Ioo a b, |f'' t| ≤ M)
    (x : List ℝ) (hne : x ≠ []) (hinc : x.IsChain (· ≤ ·))
    (ha : x.head hne = a) (hb : x.getLast hne = b) :
    |trapz x (x.map f) - ∫ t in a..b, f t| ≤ M / 12 * mesh x ^ 2 * (b - a) := by
  obtain ⟨h1, h2⟩ := semiconvex_of_deriv2_bound (convex_Icc a b) hc
    (by rwa [interior_Icc]) (by rwa [interior_Icc]) (by rwa [interior_Icc])
  have hmem : ∀ t ∈ x, t ∈ Set.Icc a b := by
    intro t ht
    have := chain_le_bounds x hne hinc t ht
    rw [ha, hb] at this
    exact this
  have := C14_trapz_error hM h1 h2 hc x hne hmem
  rwa [pathLen_of_increasing x hne hinc, ha, hb] at this

/-- … the same for a DEcreasing grid from `b` down to `a` (pressure coordinate): the integral is
taken in the direction of the grid. -/
theorem C14_trapz_error_C2_decreasing {a b M : ℝ} {f f' f'' : ℝ → ℝ} (hM : 0 ≤ M)
    (hc : ContinuousOn f (Set.Icc a b)) (hd : ∀ t ∈ Set.Ioo a b, HasDerivAt f (f' t) t)
    (hd2 : ∀ t ∈ Set.Ioo a b, HasDerivAt f' (f'' t) t) (hbd : ∀ t ∈ Set.Ioo a b, |f'' t| ≤ M)
    (x : List ℝ) (hne : x ≠ []) (hdec : x.IsChain (· ≥ ·))
    (hb : x.head hne = b) (ha : x.getLast hne = a) :
    |trapz x (x.map f) - ∫ t in b..a, f t| ≤ M / 12 * mesh x ^ 2 * (b - a) := by
  obtain ⟨h1, h2⟩ := semiconvex_of_deriv2_bound (convex_Icc a b) hc
    (by rwa [interior_Icc]) (by rwa [interior_Icc]) (by rwa [interior_Icc])
  have hmem : ∀ t ∈ x, t ∈ Set.Icc a b := by
    intro t ht
    have := chain_ge_bounds x hne hdec t ht
    rw [ha, hb] at this
    exact this
  have := C14_trapz_error hM h1 h2 hc x hne hmem
  rwa [pathLen_of_decreasing x hne hdec, ha, hb] at this

/-- **Convergence under grid refinement.**  Along any family of monotone grids inside `s` from `a`
to `b` whose mesh tends to 0, `integrate_column` of the samples of `f` tends to `∫_a^b f`. -/
theorem C14_trapz_tendsto {ι : Type*} {l : Filter ι} {s : Set ℝ} {f : ℝ → ℝ} {M : ℝ} (hM : 0 ≤ M)
    (h1 : ConvexOn ℝ s (fun t => f t + M / 2 * t ^ 2))
    (h2 : ConvexOn ℝ s (fun t => M / 2 * t ^ 2 - f t))
    (hc : ContinuousOn f s) (X : ι → List ℝ) (a b : ℝ) (hne : ∀ i, X i ≠ [])
    (hmem : ∀ i, ∀ t ∈ X i, t ∈ s)
    (hmono : ∀ i, (X i).IsChain (· ≤ ·) ∨ (X i).IsChain (· ≥ ·))
    (ha : ∀ i, (X i).head (hne i) = a) (hb : ∀ i, (X i).getLast (hne i) = b)
    (hmesh : Tendsto (fun i => mesh (X i)) l (𝓝 0)) :
    Tendsto (fun i => trapz (X i) ((X i).map f)) l (𝓝 (∫ t in a..b, f t)) := by
  rw [← tendsto_sub_nhds_zero_iff]
  have hg : Tendsto (fun i => M / 12 * mesh (X i) ^ 2 * |b - a|) l (𝓝 0) := by
    have := ((hmesh.pow 2).const_mul (M / 12)).mul_const |b - a|
    simpa using this
  refine squeeze_zero_norm (fun i => ?_) hg
  have := C14_trapz_error_monotone hM h1 h2 hc (X i) (hne i) (hmem i) (hmono i)
  rw [ha i, hb i] at this
  simpa using this

/-- … in particular for `numpy.linspace(a, b, n+1)` as `n → ∞` (`C²`-type `f`) -/
theorem C14_trapz_tendsto_linspace {a b M : ℝ} {f f' f'' : ℝ → ℝ} (hab : a ≤ b) (hM : 0 ≤ M)
    (hc : ContinuousOn f (Set.Icc a b)) (hd : ∀ t ∈ Set.Ioo a b, HasDerivAt f (f' t) t)
    (hd2 : ∀ t ∈ Set.Ioo a b, HasDerivAt f' (f'' t) t) (hbd : ∀ t ∈ Set.Ioo a b, |f'' t| ≤ M) :
    Tendsto (fun n : ℕ => trapz (linspace a b (n + 1)) ((linspace a b (n + 1)).map f)) atTop
      (𝓝 (∫ t in a..b, f t)) := by
  obtain ⟨h1, h2⟩ := semiconvex_of_deriv2_bound (convex_Icc a b) hc
    (by rwa [interior_Icc]) (by rwa [interior_Icc]) (by rwa [interior_Icc])
  refine C14_trapz_tendsto hM h1 h2 hc (fun n => linspace a b (n + 1)) a b
    (fun n => linspace_ne_nil _ _ _) ?_ (fun n => Or.inl (linspace_chain_le a b hab _))
    (fun n => linspace_head _ _ _) (fun n => linspace_getLast _ _ _ (Nat.succ_ne_zero n)) ?_
  · intro n t ht
    have := chain_le_bounds _ (linspace_ne_nil a b (n + 1)) (linspace_chain_le a b hab _) t ht
    rwa [linspace_head, linspace_getLast _ _ _ (Nat.succ_ne_zero n)] at this
  · have h0 : Tendsto (fun n : ℕ => |b - a| / ((n + 1 : ℕ) : ℝ)) atTop (𝓝 0) :=
      (tendsto_const_div_atTop_nhds_zero_nat |b - a|).comp (tendsto_add_atTop_nat 1)
    exact squeeze_zero (fun n => mesh_nonneg _) (fun n => linspace_mesh_le a b (n + 1)) h0

/-- non-vacuity of R1: `f = t²` (`f'' = 2`) on the grid `0, 1, 3` -/
example : |trapz [0, 1, 3] (([0, 1, 3] : List ℝ).map fun t => t ^ 2) - ∫ t in (0:ℝ)..3, t ^ 2|
    ≤ 2 / 12 * mesh [0, 1, 3] ^ 2 * (3 - 0) :=
  C14_trapz_error_C2 (f := fun t => t ^ 2) (f' := fun t => 2 * t) (f'' := fun _ => 2)
    (by norm_num) (by fun_prop) (fun t _ => by simpa using hasDerivAt_pow 2 t)
    (fun t _ => by simpa using (hasDerivAt_id t).const_mul 2) (fun t _ => by norm_num)
    [0, 1, 3] (by simp) (by simp) (by simp) (by simp)

example : Tendsto (fun n : ℕ => trapz (linspace 0 3 (n + 1)) ((linspace 0 3 (n + 1)).map fun t => t ^ 2))
    atTop (𝓝 (∫ t in (0:ℝ)..3, t ^ 2)) :=
  C14_trapz_tendsto_linspace (M := 2) (f := fun t => t ^ 2) (f' := fun t => 2 * t)
    (f'' := fun _ => 2) (by norm_num) (by norm_num) (by fun_prop) (fun t _ => by simpa using hasDerivAt_pow 2 t)
    (fun t _ => by simpa using (hasDerivAt_id t).const_mul 2) (fun t _ => by norm_num)

/-! ## (R2) isothermal, well-mixed column: the two forms of `integrate_water_vapor`

`vmr ≡ x0`, `T ≡ T0`, any non-increasing positive pressure grid `p` (any spacing);
`z_i = H·ln(p_first/p_i)` is the hydrostatic height for the scale height `H`. -/

set_option linter.unusedTactic false in
set_option linter.unreachableTactic false in
private theorem nf_x2q (x : ℝ) : TR.vmr2specific_humidity x = x / ((1 - x) * Md / Mw + x) := by
  simp only [TR.vmr2specific_humidity] <;> ring

/-- (a) **the hydrostatic form is exact on every grid**: `q(x0)·(p_first - p_last)/g`
(no hypothesis on the grid at all) -/
theorem C14_iwv_hydro_wellmixed (x0 : ℝ) (p : List ℝ) (hne : p ≠ []) :
    iwvHydro TR.vmr2specific_humidity g₀ (List.replicate p.length x0) p
      = TR.vmr2specific_humidity x0 * (p.head hne - p.getLast hne) / g₀ := by
  unfold iwvHydro
  rw [List.map_replicate, trapz_const _ p hne]; ring

/-- (b) the general form is `x0/(R_v·T0)` times `integrate_column(p, z)` -/
theorem C14_iwv_general_wellmixed (x0 T0 : ℝ) (p z : List ℝ) :
    iwvGeneral (fun p T => p / (Rv * T)) (List.replicate p.length x0) p
        (List.replicate p.length T0) z
      = x0 / (Rv * T0) * trapz z p := by
  have h := zipWith_const_profile (fun p T => p / (Rv * T)) x0 T0 p
  have e : (p.map fun pi => x0 * (pi / (Rv * T0))) = p.map ((x0 / (Rv * T0)) * ·) := by
    apply List.map_congr_left; intro t _; ring
  simp only [iwvGeneral]
  beta_reduce at h
  rw [h, e, trapz_smul]

/-- (b) **general form on the log-pressure heights of scale height `H`**: it is never below
`x0·H/(R_v·T0)·(p_first - p_last)` (`= ∫ x0·ρ_v dz` for `p(z) = p_first·exp(-z/H)`) and exceeds it
by at most `x0/(R_v T0) · p_first/(12 H²) · mesh(z)² · z_last` (R1 for `f(z) = p_first·exp(-z/H)`). -/
theorem C14_iwv_general_isothermal (x0 T0 H : ℝ) (hx0 : 0 ≤ x0) (hT0 : 0 < T0) (hH : 0 < H)
    (p : List ℝ) (hne : p ≠ []) (hpos : ∀ t ∈ p, 0 < t) (hdec : p.IsChain (· ≥ ·)) :
    x0 * H / (Rv * T0) * (p.head hne - p.getLast hne)
        ≤ iwvGeneral (fun p T => p / (Rv * T)) (List.replicate p.length x0) p
            (List.replicate p.length T0) (p.map fun pi => H * Real.log (p.head hne / pi)) ∧
      iwvGeneral (fun p T => p / (Rv * T)) (List.replicate p.length x0) p
            (List.replicate p.length T0) (p.map fun pi => H * Real.log (p.head hne / pi))
          - x0 * H / (Rv * T0) * (p.head hne - p.getLast hne)
        ≤ x0 / (Rv * T0) * (p.head hne / H ^ 2 / 12
            * mesh (p.map fun pi => H * Real.log (p.head hne / pi)) ^ 2
            * (H * Real.log (p.head hne / p.getLast hne))) := by
  have hRv := C.gas_constant_water_vapor_pos
  have hc : 0 ≤ x0 / (Rv * T0) := by positivity
  rw [C14_iwv_general_wellmixed]
  have hp0 : 0 < p.head hne := hpos _ (List.head_mem hne)
  have lo := trapz_loggrid_ge H (p.head hne) hH.le hp0 p hne hpos hdec
  have up := (abs_le.mp (trapz_loggrid_err H hH p hne hpos hdec)).2
  have e : x0 * H / (Rv * T0) * (p.head hne - p.getLast hne)
      = x0 / (Rv * T0) * (H * (p.head hne - p.getLast hne)) := by ring
  rw [e, ← mul_sub]
  exact ⟨mul_le_mul_of_nonneg_left lo hc, mul_le_mul_of_nonneg_left up hc⟩

/-- the continuum identity behind the agreement of the two forms: with the scale height of the
MOIST column `H = R*/M_m · T0/g`, `M_m = (1-x0)·M_d + x0·M_w`,
`x0·H/(R_v·T0) = q(x0)/g · R*/(R_v·M_w)` — the last factor is 1 iff `R_v = R*/M_w`. -/
theorem C14_moist_scale_height_identity (Rstar x0 T0 : ℝ) (hx0 : 0 ≤ x0) (hx1 : x0 < 1)
    (hT0 : 0 < T0) :
    x0 * (Rstar / ((1 - x0) * Md + x0 * Mw) * T0 / g₀) / (Rv * T0)
      = TR.vmr2specific_humidity x0 / g₀ * (Rstar / (Rv * Mw)) := by
  have hRv := C.gas_constant_water_vapor_pos
  have hMd := C.molar_mass_dry_air_pos
  have hMw := C.molar_mass_water_pos
  have hg := C.earth_standard_gravity_pos
  have hMm : 0 < (1 - x0) * Md + x0 * Mw := by
    have : 0 < (1 - x0) * Md := mul_pos (by linarith) hMd
    have : 0 ≤ x0 * Mw := mul_nonneg hx0 hMw.le
    linarith
  rw [nf_x2q]
  have e1 : (1 - x0) * Md / Mw + x0 = ((1 - x0) * Md + x0 * Mw) / Mw := by field_simp
  rw [e1]
  field_simp

/-- the generated constants satisfy `R_v·M_w = R_d·M_d = R*` (`scipy.constants.gas_constant
= 8.31446261815324` as a double) only up to rounding: relative defect below `10⁻¹⁶` -/
theorem C14_gas_constants_consistent :
    |(2340313171806303 / 281474976710656 : ℝ) - Rv * Mw| ≤ 1e-16 * (Rv * Mw) ∧
      |(2340313171806303 / 281474976710656 : ℝ) - Rd * Md| ≤ 1e-16 * (Rd * Md) := by
  unfold C.gas_constant_water_vapor C.molar_mass_water C.gas_constant_dry_air C.molar_mass_dry_air
  constructor <;> rw [abs_le] <;> constructor <;> norm_num

private theorem q_nonneg (x0 : ℝ) (hx0 : 0 ≤ x0) (hx1 : x0 < 1) :
    0 ≤ TR.vmr2specific_humidity x0 := by
  have hMd := C.molar_mass_dry_air_pos
  have hMw := C.molar_mass_water_pos
  rw [nf_x2q]
  have : 0 ≤ (1 - x0) * Md / Mw := div_nonneg (mul_nonneg (by linarith) hMd.le) hMw.le
  exact div_nonneg hx0 (by linarith)

private theorem moist_H_pos (Rstar x0 T0 : ℝ) (hRs : 0 < Rstar) (hx0 : 0 ≤ x0) (hx1 : x0 < 1)
    (hT0 : 0 < T0) : 0 < Rstar / ((1 - x0) * Md + x0 * Mw) * T0 / g₀ := by
  have hMd := C.molar_mass_dry_air_pos
  have hMw := C.molar_mass_water_pos
  have hg := C.earth_standard_gravity_pos
  have hMm : 0 < (1 - x0) * Md + x0 * Mw := by
    have : 0 < (1 - x0) * Md := mul_pos (by linarith) hMd
    have : 0 ≤ x0 * Mw := mul_nonneg hx0 hMw.le
    linarith
  positivity

/-- **The two forms agree in the limit, with an explicit bound (exact gas-constant relation).**
If `R_v·M_w = R*` and `z` is the hydrostatic height of the moist column
(`H = R*/M_m·T0/g`), then on EVERY non-increasing positive pressure grid
`hydrostatic ≤ general ≤ hydrostatic + x0/(R_v T0)·p_first/(12H²)·mesh(z)²·z_last`. -/
theorem C14_iwv_forms_agree (Rstar x0 T0 H : ℝ) (hR : Rv * Mw = Rstar) (hx0 : 0 ≤ x0)
    (hx1 : x0 < 1) (hT0 : 0 < T0) (hH : H = Rstar / ((1 - x0) * Md + x0 * Mw) * T0 / g₀)
    (p : List ℝ) (hne : p ≠ []) (hpos : ∀ t ∈ p, 0 < t) (hdec : p.IsChain (· ≥ ·)) :
    iwvHydro TR.vmr2specific_humidity g₀ (List.replicate p.length x0) p
        ≤ iwvGeneral (fun p T => p / (Rv * T)) (List.replicate p.length x0) p
            (List.replicate p.length T0) (p.map fun pi => H * Real.log (p.head hne / pi)) ∧
      iwvGeneral (fun p T => p / (Rv * T)) (List.replicate p.length x0) p
            (List.replicate p.length T0) (p.map fun pi => H * Real.log (p.head hne / pi))
          - iwvHydro TR.vmr2specific_humidity g₀ (List.replicate p.length x0) p
        ≤ x0 / (Rv * T0) * (p.head hne / H ^ 2 / 12
            * mesh (p.map fun pi => H * Real.log (p.head hne / pi)) ^ 2
            * (H * Real.log (p.head hne / p.getLast hne))) := by
  have hRv := C.gas_constant_water_vapor_pos
  have hMw := C.molar_mass_water_pos
  have hRs : 0 < Rstar := by rw [← hR]; positivity
  have hHpos : 0 < H := by rw [hH]; exact moist_H_pos Rstar x0 T0 hRs hx0 hx1 hT0
  have key := C14_iwv_general_isothermal x0 T0 H hx0 hT0 hHpos p hne hpos hdec
  have hid : x0 * H / (Rv * T0) * (p.head hne - p.getLast hne)
      = iwvHydro TR.vmr2specific_humidity g₀ (List.replicate p.length x0) p := by
    rw [C14_iwv_hydro_wellmixed x0 p hne, hH, C14_moist_scale_height_identity Rstar x0 T0 hx0 hx1 hT0,
      ← hR, div_self (by positivity)]
    ring
  rw [hid] at key
  exact key

/-- **… with the generated (rounded) constants**: if `R*` is only approximately `R_v·M_w`
(relative defect `ε`, cf. `C14_gas_constants_consistent`: `ε = 10⁻¹⁶` for the doubles), the two
forms differ by at most the discretisation error plus `ε` times the hydrostatic value. -/
theorem C14_iwv_forms_agree_approx (Rstar ε x0 T0 H : ℝ) (hRs : 0 < Rstar)
    (hR : |Rstar - Rv * Mw| ≤ ε * (Rv * Mw)) (hx0 : 0 ≤ x0)
    (hx1 : x0 < 1) (hT0 : 0 < T0) (hH : H = Rstar / ((1 - x0) * Md + x0 * Mw) * T0 / g₀)
    (p : List ℝ) (hne : p ≠ []) (hpos : ∀ t ∈ p, 0 < t) (hdec : p.IsChain (· ≥ ·)) :
    |iwvGeneral (fun p T => p / (Rv * T)) (List.replicate p.length x0) p
            (List.replicate p.length T0) (p.map fun pi => H * Real.log (p.head hne / pi))
          - iwvHydro TR.vmr2specific_humidity g₀ (List.replicate p.length x0) p|
        ≤ x0 / (Rv * T0) * (p.head hne / H ^ 2 / 12
            * mesh (p.map fun pi => H * Real.log (p.head hne / pi)) ^ 2
            * (H * Real.log (p.head hne / p.getLast hne)))
          + ε * iwvHydro TR.vmr2specific_humidity g₀ (List.replicate p.length x0) p := by
  have hRv := C.gas_constant_water_vapor_pos
  have hMw := C.molar_mass_water_pos
  have hg := C.earth_standard_gravity_pos
  have hRM : 0 < Rv * Mw := by positivity
  have hHpos : 0 < H := by rw [hH]; exact moist_H_pos Rstar x0 T0 hRs hx0 hx1 hT0
  obtain ⟨lo, up⟩ := C14_iwv_general_isothermal x0 T0 H hx0 hT0 hHpos p hne hpos hdec
  have hD : 0 ≤ p.head hne - p.getLast hne :=
    sub_nonneg.mpr (chain_ge_bounds p hne hdec _ (List.head_mem hne)).1
  have hhyd : 0 ≤ iwvHydro TR.vmr2specific_humidity g₀ (List.replicate p.length x0) p := by
    rw [C14_iwv_hydro_wellmixed x0 p hne]
    exact div_nonneg (mul_nonneg (q_nonneg x0 hx0 hx1) hD) hg.le
  have hid : x0 * H / (Rv * T0) * (p.head hne - p.getLast hne)
      = iwvHydro TR.vmr2specific_humidity g₀ (List.replicate p.length x0) p
          * (Rstar / (Rv * Mw)) := by
    rw [C14_iwv_hydro_wellmixed x0 p hne, hH, C14_moist_scale_height_identity Rstar x0 T0 hx0 hx1 hT0]
    ring
  have hrho : |Rstar / (Rv * Mw) - 1| ≤ ε := by
    have e : Rstar / (Rv * Mw) - 1 = (Rstar - Rv * Mw) / (Rv * Mw) := by field_simp
    rw [e, abs_div, abs_of_pos hRM, div_le_iff₀ hRM]
    exact hR
  rw [hid] at lo up
  have h2 := abs_le.mp hrho
  have h3 : iwvHydro TR.vmr2specific_humidity g₀ (List.replicate p.length x0) p
      * (Rstar / (Rv * Mw) - 1) ≤ iwvHydro TR.vmr2specific_humidity g₀ (List.replicate p.length x0) p * ε :=
    mul_le_mul_of_nonneg_left h2.2 hhyd
  have h4 : iwvHydro TR.vmr2specific_humidity g₀ (List.replicate p.length x0) p * (-ε)
      ≤ iwvHydro TR.vmr2specific_humidity g₀ (List.replicate p.length x0) p
        * (Rstar / (Rv * Mw) - 1) :=
    mul_le_mul_of_nonneg_left h2.1 hhyd
  have hdisc : 0 ≤ x0 / (Rv * T0) * (p.head hne / H ^ 2 / 12
            * mesh (p.map fun pi => H * Real.log (p.head hne / pi)) ^ 2
            * (H * Real.log (p.head hne / p.getLast hne))) := by linarith
  rw [abs_le]
  constructor <;> nlinarith [lo, up, h3, h4, hdisc]

/-- the mesh of the height grid is controlled by the mesh of the pressure grid:
`mesh(z) ≤ H/p_last · mesh(p)` -/
theorem C14_logheight_mesh_le (H : ℝ) (hH : 0 ≤ H) (p : List ℝ) (hne : p ≠ [])
    (hpos : ∀ t ∈ p, 0 < t) (hdec : p.IsChain (· ≥ ·)) :
    mesh (p.map fun pi => H * Real.log (p.head hne / pi)) ≤ H / p.getLast hne * mesh p := by
  have hl : 0 < p.getLast hne := hpos _ (List.getLast_mem hne)
  exact mesh_map_le _ (H / p.getLast hne) (by positivity) (Set.Ici (p.getLast hne))
    (logheight_lipschitz H (p.head hne) (p.getLast hne) hH (hpos _ (List.head_mem hne)) hl) p
    (fun t ht => (chain_ge_bounds p hne hdec t ht).1)

/-- the bound of `C14_iwv_forms_agree` in terms of the PRESSURE spacing -/
theorem C14_iwv_forms_agree_pmesh (Rstar x0 T0 H : ℝ) (hR : Rv * Mw = Rstar) (hx0 : 0 ≤ x0)
    (hx1 : x0 < 1) (hT0 : 0 < T0) (hH : H = Rstar / ((1 - x0) * Md + x0 * Mw) * T0 / g₀)
    (p : List ℝ) (hne : p ≠ []) (hpos : ∀ t ∈ p, 0 < t) (hdec : p.IsChain (· ≥ ·)) :
    iwvGeneral (fun p T => p / (Rv * T)) (List.replicate p.length x0) p
          (List.replicate p.length T0) (p.map fun pi => H * Real.log (p.head hne / pi))
        - iwvHydro TR.vmr2specific_humidity g₀ (List.replicate p.length x0) p
      ≤ x0 / (Rv * T0) * (p.head hne / H ^ 2 / 12 * (H / p.getLast hne * mesh p) ^ 2
          * (H * Real.log (p.head hne / p.getLast hne))) := by
  have hRv := C.gas_constant_water_vapor_pos
  have hMw := C.molar_mass_water_pos
  have hRs : 0 < Rstar := by rw [← hR]; positivity
  have hHpos : 0 < H := by rw [hH]; exact moist_H_pos Rstar x0 T0 hRs hx0 hx1 hT0
  have hp0 : 0 < p.head hne := hpos _ (List.head_mem hne)
  have hl : 0 < p.getLast hne := hpos _ (List.getLast_mem hne)
  have hlog : 0 ≤ Real.log (p.head hne / p.getLast hne) := by
    apply Real.log_nonneg
    rw [le_div_iff₀ hl, one_mul]
    exact (chain_ge_bounds p hne hdec _ (List.head_mem hne)).1
  have hm := C14_logheight_mesh_le H hHpos.le p hne hpos hdec
  have hsq : mesh (p.map fun pi => H * Real.log (p.head hne / pi)) ^ 2
      ≤ (H / p.getLast hne * mesh p) ^ 2 := pow_le_pow_left₀ (mesh_nonneg _) hm 2
  refine (C14_iwv_forms_agree Rstar x0 T0 H hR hx0 hx1 hT0 hH p hne hpos hdec).2.trans ?_
  have hc : 0 ≤ x0 / (Rv * T0) := by positivity
  have h1 : 0 ≤ p.head hne / H ^ 2 / 12 := by positivity
  have h2 : 0 ≤ H * Real.log (p.head hne / p.getLast hne) := mul_nonneg hHpos.le hlog
  exact mul_le_mul_of_nonneg_left
    (mul_le_mul_of_nonneg_right (mul_le_mul_of_nonneg_left hsq h1) h2) hc

/-- **Convergence of the general form to the hydrostatic value.**  Along any family of
non-increasing positive pressure grids from `p0` down to `p1` whose spacing tends to 0, the
general form (on the hydrostatic height of the moist column) tends to `q(x0)·(p0 - p1)/g`, which
is the value of the hydrostatic form on every one of these grids. -/
theorem C14_iwv_forms_tendsto {ι : Type*} {l : Filter ι} (Rstar x0 T0 H p0 p1 : ℝ)
    (hR : Rv * Mw = Rstar) (hx0 : 0 ≤ x0) (hx1 : x0 < 1) (hT0 : 0 < T0)
    (hH : H = Rstar / ((1 - x0) * Md + x0 * Mw) * T0 / g₀)
    (P : ι → List ℝ) (hne : ∀ i, P i ≠ []) (hpos : ∀ i, ∀ t ∈ P i, 0 < t)
    (hdec : ∀ i, (P i).IsChain (· ≥ ·))
    (ha : ∀ i, (P i).head (hne i) = p0) (hb : ∀ i, (P i).getLast (hne i) = p1)
    (hmesh : Tendsto (fun i => mesh (P i)) l (𝓝 0)) :
    (∀ i, iwvHydro TR.vmr2specific_humidity g₀ (List.replicate (P i).length x0) (P i)
        = TR.vmr2specific_humidity x0 * (p0 - p1) / g₀) ∧
    Tendsto (fun i => iwvGeneral (fun p T => p / (Rv * T)) (List.replicate (P i).length x0) (P i)
        (List.replicate (P i).length T0) ((P i).map fun pi => H * Real.log (p0 / pi))) l
      (𝓝 (TR.vmr2specific_humidity x0 * (p0 - p1) / g₀)) := by
  have hhyd : ∀ i, iwvHydro TR.vmr2specific_humidity g₀ (List.replicate (P i).length x0) (P i)
      = TR.vmr2specific_humidity x0 * (p0 - p1) / g₀ := by
    intro i; rw [C14_iwv_hydro_wellmixed x0 (P i) (hne i), ha i, hb i]
  refine ⟨hhyd, ?_⟩
  rw [← tendsto_sub_nhds_zero_iff]
  have hg : Tendsto (fun i => x0 / (Rv * T0) * (p0 / H ^ 2 / 12 * (H / p1 * mesh (P i)) ^ 2
      * (H * Real.log (p0 / p1)))) l (𝓝 0) := by
    have := ((((hmesh.const_mul (H / p1)).pow 2).const_mul (p0 / H ^ 2 / 12)).mul_const
      (H * Real.log (p0 / p1))).const_mul (x0 / (Rv * T0))
    simpa using this
  refine squeeze_zero (fun i => ?_) (fun i => ?_) hg
  · have := (C14_iwv_forms_agree Rstar x0 T0 H hR hx0 hx1 hT0 hH (P i) (hne i) (hpos i) (hdec i)).1
    rw [ha i, hhyd i] at this
    linarith
  · have := C14_iwv_forms_agree_pmesh Rstar x0 T0 H hR hx0 hx1 hT0 hH (P i) (hne i) (hpos i) (hdec i)
    rw [ha i, hb i, hhyd i] at this
    exact this

/-- … in particular on `numpy.linspace(p0, p1, n+1)` as `n → ∞` — the grids of the C14 check -/
theorem C14_iwv_forms_tendsto_linspace (Rstar x0 T0 H p0 p1 : ℝ)
    (hR : Rv * Mw = Rstar) (hx0 : 0 ≤ x0) (hx1 : x0 < 1) (hT0 : 0 < T0)
    (hH : H = Rstar / ((1 - x0) * Md + x0 * Mw) * T0 / g₀) (hp1 : 0 < p1) (hp : p1 ≤ p0) :
    Tendsto (fun n : ℕ => iwvGeneral (fun p T => p / (Rv * T))
        (List.replicate (linspace p0 p1 (n + 1)).length x0) (linspace p0 p1 (n + 1))
        (List.replicate (linspace p0 p1 (n + 1)).length T0)
        ((linspace p0 p1 (n + 1)).map fun pi => H * Real.log (p0 / pi))) atTop
      (𝓝 (TR.vmr2specific_humidity x0 * (p0 - p1) / g₀)) := by
  refine (C14_iwv_forms_tendsto Rstar x0 T0 H p0 p1 hR hx0 hx1 hT0 hH
    (fun n => linspace p0 p1 (n + 1)) (fun n => linspace_ne_nil _ _ _) ?_
    (fun n => linspace_chain_ge p0 p1 hp _) (fun n => linspace_head _ _ _)
    (fun n => linspace_getLast _ _ _ (Nat.succ_ne_zero n)) ?_).2
  · intro n t ht
    have := (chain_ge_bounds _ (linspace_ne_nil p0 p1 (n + 1)) (linspace_chain_ge p0 p1 hp _) t ht).1
    rw [linspace_getLast _ _ _ (Nat.succ_ne_zero n)] at this
    linarith
  · have h0 : Tendsto (fun n : ℕ => |p1 - p0| / ((n + 1 : ℕ) : ℝ)) atTop (𝓝 0) :=
      (tendsto_const_div_atTop_nhds_zero_nat |p1 - p0|).comp (tendsto_add_atTop_nat 1)
    exact squeeze_zero (fun n => mesh_nonneg _) (fun n => linspace_mesh_le p0 p1 (n + 1)) h0

/-- **… and with the rounded constants**: if `R*` is only approximately `R_v·M_w` (relative defect
`ε`), then along any such family of grids the two forms eventually differ by at most
`ε·hydrostatic + η` for every `η > 0`. -/
theorem C14_iwv_forms_eventually_approx {ι : Type*} {l : Filter ι} (Rstar ε x0 T0 H p0 p1 : ℝ)
    (hRs : 0 < Rstar) (hR : |Rstar - Rv * Mw| ≤ ε * (Rv * Mw)) (hx0 : 0 ≤ x0) (hx1 : x0 < 1)
    (hT0 : 0 < T0) (hH : H = Rstar / ((1 - x0) * Md + x0 * Mw) * T0 / g₀)
    (P : ι → List ℝ) (hne : ∀ i, P i ≠ []) (hpos : ∀ i, ∀ t ∈ P i, 0 < t)
    (hdec : ∀ i, (P i).IsChain (· ≥ ·))
    (ha : ∀ i, (P i).head (hne i) = p0) (hb : ∀ i, (P i).getLast (hne i) = p1)
    (hmesh : Tendsto (fun i => mesh (P i)) l (𝓝 0)) (η : ℝ) (hη : 0 < η) :
    ∀ᶠ i in l, |iwvGeneral (fun p T => p / (Rv * T)) (List.replicate (P i).length x0) (P i)
          (List.replicate (P i).length T0) ((P i).map fun pi => H * Real.log (p0 / pi))
        - TR.vmr2specific_humidity x0 * (p0 - p1) / g₀|
      ≤ ε * (TR.vmr2specific_humidity x0 * (p0 - p1) / g₀) + η := by
  have hRv := C.gas_constant_water_vapor_pos
  have hHpos : 0 < H := by rw [hH]; exact moist_H_pos Rstar x0 T0 hRs hx0 hx1 hT0
  have hg : Tendsto (fun i => x0 / (Rv * T0) * (p0 / H ^ 2 / 12 * (H / p1 * mesh (P i)) ^ 2
      * (H * Real.log (p0 / p1)))) l (𝓝 0) := by
    have := ((((hmesh.const_mul (H / p1)).pow 2).const_mul (p0 / H ^ 2 / 12)).mul_const
      (H * Real.log (p0 / p1))).const_mul (x0 / (Rv * T0))
    simpa using this
  filter_upwards [(tendsto_order.1 hg).2 η hη] with i hi
  have hp0 : 0 < p0 := by rw [← ha i]; exact hpos i _ (List.head_mem _)
  have hp1 : 0 < p1 := by rw [← hb i]; exact hpos i _ (List.getLast_mem _)
  have hle : p1 ≤ p0 := by
    have := (chain_ge_bounds (P i) (hne i) (hdec i) _ (List.head_mem (hne i))).1
    rwa [ha i, hb i] at this
  have hlog : 0 ≤ Real.log (p0 / p1) := Real.log_nonneg (by rw [le_div_iff₀ hp1]; linarith)
  have key := C14_iwv_forms_agree_approx Rstar ε x0 T0 H hRs hR hx0 hx1 hT0 hH (P i) (hne i)
    (hpos i) (hdec i)
  have hm := C14_logheight_mesh_le H hHpos.le (P i) (hne i) (hpos i) (hdec i)
  rw [C14_iwv_hydro_wellmixed x0 (P i) (hne i), ha i, hb i] at key
  rw [ha i, hb i] at hm
  have hsq : mesh ((P i).map fun pi => H * Real.log (p0 / pi)) ^ 2 ≤ (H / p1 * mesh (P i)) ^ 2 :=
    pow_le_pow_left₀ (mesh_nonneg _) hm 2
  have hc : 0 ≤ x0 / (Rv * T0) := by positivity
  have h1 : 0 ≤ p0 / H ^ 2 / 12 := by positivity
  have h2 : 0 ≤ H * Real.log (p0 / p1) := mul_nonneg hHpos.le hlog
  have hdisc := mul_le_mul_of_nonneg_left
    (mul_le_mul_of_nonneg_right (mul_le_mul_of_nonneg_left hsq h1) h2) hc
  linarith

/-! ### non-vacuity of R2 -/

/-- the hypotheses of `C14_iwv_forms_agree` are jointly satisfiable … -/
example : ∃ (Rstar x0 T0 H : ℝ) (p : List ℝ), Rv * Mw = Rstar ∧ 0 ≤ x0 ∧ x0 < 1 ∧ 0 < T0 ∧
    H = Rstar / ((1 - x0) * Md + x0 * Mw) * T0 / g₀ ∧ p ≠ [] ∧ (∀ t ∈ p, 0 < t) ∧
    p.IsChain (· > ·) ∧ p.IsChain (· ≥ ·) ∧ p.length = 3 :=
  ⟨Rv * Mw, 1 / 100, 250, _, [1000, 900, 700], rfl, by norm_num, by norm_num, by norm_num, rfl,
    by simp, by intro t ht; simp at ht; rcases ht with rfl | rfl | rfl <;> norm_num,
    by simp; norm_num, by simp; norm_num, rfl⟩

/-- … so it applies to the three-level column `1000, 900, 700`, `vmr ≡ 0.01`, `T ≡ 250` -/
example := C14_iwv_forms_agree (Rv * Mw) (1 / 100) 250 _ rfl (by norm_num) (by norm_num)
  (by norm_num) rfl [1000, 900, 700] (by simp)
  (by intro t ht; simp at ht; rcases ht with rfl | rfl | rfl <;> norm_num) (by simp; norm_num)

/-- the approximate version applies with the ACTUAL double `scipy.constants.gas_constant` and
`ε = 10⁻¹⁶` -/
example := C14_iwv_forms_agree_approx (2340313171806303 / 281474976710656) 1e-16 (1 / 100) 250 _
  (by norm_num) C14_gas_constants_consistent.1 (by norm_num) (by norm_num)
  (by norm_num) rfl [1000, 900, 700] (by simp)
  (by intro t ht; simp at ht; rcases ht with rfl | rfl | rfl <;> norm_num) (by simp; norm_num)

example : iwvHydro TR.vmr2specific_humidity g₀ [1 / 100, 1 / 100, 1 / 100] [1000, 900, 700]
    = TR.vmr2specific_humidity (1 / 100) * (1000 - 700) / g₀ := by
  simpa using C14_iwv_hydro_wellmixed (1 / 100) [1000, 900, 700] (by simp)

/-- the refinement sequence of the check: `linspace(10⁵, 3·10⁴, n+1)`, `vmr ≡ 0.01`, `T ≡ 250` -/
example := C14_iwv_forms_tendsto_linspace (Rv * Mw) (1 / 100) 250 _ 100000 30000 rfl (by norm_num)
  (by norm_num) (by norm_num) rfl (by norm_num) (by norm_num)

/-! ## (R3) `pressure2height` of an isothermal column

`T ≡ T0`, `ρ = density(p, T) = p/(R_d·T)`, any non-increasing positive pressure grid. -/

set_option linter.unusedTactic false in
set_option linter.unreachableTactic false in
private theorem nf_density : TR.density = fun p T => p / (Rd * T) := by
  funext p T
  simp only [TR.density] <;> ring

/-- **every layer**: consecutive (height, pressure) pairs `(h, p) , (h', p')` of the output satisfy
`h' - h = (R_d T0/g)·2(p - p')/(p + p')` (mean-density layer) and this thickness lies between the
one-sided bounds `(R_d T0/g)(p - p')/p` and `(R_d T0/g)(p - p')/p'`. -/
theorem C14_p2h_isothermal_layers (T0 : ℝ) (hT0 : 0 < T0) (p : List ℝ)
    (hpos : ∀ t ∈ p, 0 < t) (hdec : p.IsChain (· ≥ ·)) :
    (List.zip (p2h TR.density g₀ p (List.replicate p.length T0)) p).IsChain
      (fun a b : ℝ × ℝ => b.1 - a.1 = Rd * T0 / g₀ * (2 * (a.2 - b.2) / (a.2 + b.2)) ∧
        Rd * T0 / g₀ * ((a.2 - b.2) / a.2) ≤ b.1 - a.1 ∧
        b.1 - a.1 ≤ Rd * T0 / g₀ * ((a.2 - b.2) / b.2)) := by
  rw [p2h_const_T, nf_density]
  exact p2hAux_iso_layers Rd T0 g₀ C.gas_constant_dry_air_pos hT0 C.earth_standard_gravity_pos
    p 0 hpos hdec

/-- **every level follows `z = (R_d T0/g)·ln(p_first/p)`**: each (height, pressure) pair `(h, pk)`
of the output satisfies
`(R_d T0/g)·ln(p_first/pk) - (R_d T0/g)·mesh(p)²·(p_first - pk)/(12·p_last³) ≤ h ≤ (R_d T0/g)·ln(p_first/pk)`. -/
theorem C14_p2h_isothermal_levels (T0 : ℝ) (hT0 : 0 < T0) (p : List ℝ) (hne : p ≠ [])
    (hpos : ∀ t ∈ p, 0 < t) (hdec : p.IsChain (· ≥ ·)) :
    ∀ hp ∈ List.zip (p2h TR.density g₀ p (List.replicate p.length T0)) p,
      Rd * T0 / g₀ * Real.log (p.head hne / hp.2)
          - Rd * T0 / g₀ * (mesh p ^ 2 * (p.head hne - hp.2) / (12 * p.getLast hne ^ 3)) ≤ hp.1 ∧
        hp.1 ≤ Rd * T0 / g₀ * Real.log (p.head hne / hp.2) := by
  have hl : 0 < p.getLast hne := hpos _ (List.getLast_mem hne)
  have hmin : ∀ t ∈ p, p.getLast hne ≤ t := fun t ht => (chain_ge_bounds p hne hdec t ht).1
  have key := p2hAux_iso Rd T0 g₀ (p.getLast hne) (mesh p) C.gas_constant_dry_air_pos hT0
    C.earth_standard_gravity_pos hl p 0 hmin hdec le_rfl
  rw [p2h_const_T, nf_density]
  obtain ⟨p0, rest, rfl⟩ := List.exists_cons_of_ne_nil hne
  intro hp hmem
  have hp0 : 0 < p0 := hpos p0 (by simp)
  simp only [List.zip_cons_cons, List.mem_cons, List.head_cons] at hmem ⊢
  rcases hmem with rfl | hmem
  · simp [div_self hp0.ne']
  · have := key hp (by simpa using hmem)
    simpa using this

/-- **the top height** (last level): within `(R_d T0/g)·mesh(p)²·(p_first - p_last)/(12 p_last³)`
below `(R_d T0/g)·ln(p_first/p_last)`, never above -/
theorem C14_p2h_isothermal_top (T0 : ℝ) (hT0 : 0 < T0) (p : List ℝ) (hne : p ≠ [])
    (hpos : ∀ t ∈ p, 0 < t) (hdec : p.IsChain (· ≥ ·)) :
    Rd * T0 / g₀ * Real.log (p.head hne / p.getLast hne)
        - Rd * T0 / g₀ * (mesh p ^ 2 * (p.head hne - p.getLast hne) / (12 * p.getLast hne ^ 3))
      ≤ (p2h TR.density g₀ p (List.replicate p.length T0)).getLast (p2h_ne_nil _ _ _ _) ∧
    (p2h TR.density g₀ p (List.replicate p.length T0)).getLast (p2h_ne_nil _ _ _ _)
      ≤ Rd * T0 / g₀ * Real.log (p.head hne / p.getLast hne) := by
  have hmem := getLast_pair_mem_zip (p2h TR.density g₀ p (List.replicate p.length T0)) p
    (p2h_ne_nil _ _ _ _) hne (p2h_length _ _ _ _ hne (by simp))
  exact C14_p2h_isothermal_levels T0 hT0 p hne hpos hdec _ hmem

/-- **Convergence**: along any family of non-increasing positive pressure grids from `p0` down
to `p1` whose spacing tends to 0, the top height of `pressure2height` for the isothermal column
tends to `(R_d·T0/g)·ln(p0/p1)`. -/
theorem C14_p2h_isothermal_tendsto {ι : Type*} {l : Filter ι} (T0 p0 p1 : ℝ) (hT0 : 0 < T0)
    (P : ι → List ℝ) (hne : ∀ i, P i ≠ []) (hpos : ∀ i, ∀ t ∈ P i, 0 < t)
    (hdec : ∀ i, (P i).IsChain (· ≥ ·))
    (ha : ∀ i, (P i).head (hne i) = p0) (hb : ∀ i, (P i).getLast (hne i) = p1)
    (hmesh : Tendsto (fun i => mesh (P i)) l (𝓝 0)) :
    Tendsto (fun i => (p2h TR.density g₀ (P i) (List.replicate (P i).length T0)).getLast
        (p2h_ne_nil _ _ _ _)) l (𝓝 (Rd * T0 / g₀ * Real.log (p0 / p1))) := by
  have hlo : Tendsto (fun i => Rd * T0 / g₀ * Real.log (p0 / p1)
      - Rd * T0 / g₀ * (mesh (P i) ^ 2 * (p0 - p1) / (12 * p1 ^ 3))) l
      (𝓝 (Rd * T0 / g₀ * Real.log (p0 / p1))) := by
    have := (((hmesh.pow 2).mul_const (p0 - p1)).div_const (12 * p1 ^ 3)).const_mul (Rd * T0 / g₀)
    have := (tendsto_const_nhds (x := Rd * T0 / g₀ * Real.log (p0 / p1))).sub this
    simpa using this
  refine tendsto_of_tendsto_of_tendsto_of_le_of_le hlo tendsto_const_nhds (fun i => ?_) (fun i => ?_)
  · have := (C14_p2h_isothermal_top T0 hT0 (P i) (hne i) (hpos i) (hdec i)).1
    rw [ha i, hb i] at this
    exact this
  · have := (C14_p2h_isothermal_top T0 hT0 (P i) (hne i) (hpos i) (hdec i)).2
    rw [ha i, hb i] at this
    exact this

/-- … in particular on `numpy.linspace(p0, p1, n+1)` as `n → ∞` — the grids of the C14 check -/
theorem C14_p2h_isothermal_tendsto_linspace (T0 p0 p1 : ℝ) (hT0 : 0 < T0) (hp1 : 0 < p1)
    (hp : p1 ≤ p0) :
    Tendsto (fun n : ℕ => (p2h TR.density g₀ (linspace p0 p1 (n + 1))
        (List.replicate (linspace p0 p1 (n + 1)).length T0)).getLast (p2h_ne_nil _ _ _ _)) atTop
      (𝓝 (Rd * T0 / g₀ * Real.log (p0 / p1))) := by
  refine C14_p2h_isothermal_tendsto T0 p0 p1 hT0
    (fun n => linspace p0 p1 (n + 1)) (fun n => linspace_ne_nil _ _ _) ?_
    (fun n => linspace_chain_ge p0 p1 hp _) (fun n => linspace_head _ _ _)
    (fun n => linspace_getLast _ _ _ (Nat.succ_ne_zero n)) ?_
  · intro n t ht
    have := (chain_ge_bounds _ (linspace_ne_nil p0 p1 (n + 1)) (linspace_chain_ge p0 p1 hp _) t ht).1
    rw [linspace_getLast _ _ _ (Nat.succ_ne_zero n)] at this
    linarith
  · have h0 : Tendsto (fun n : ℕ => |p1 - p0| / ((n + 1 : ℕ) : ℝ)) atTop (𝓝 0) :=
      (tendsto_const_div_atTop_nhds_zero_nat |p1 - p0|).comp (tendsto_add_atTop_nat 1)
    exact squeeze_zero (fun n => mesh_nonneg _) (fun n => linspace_mesh_le p0 p1 (n + 1)) h0

/-! ### non-vacuity of R3 -/

example : ∃ (T0 : ℝ) (p : List ℝ), 0 < T0 ∧ p ≠ [] ∧ (∀ t ∈ p, 0 < t) ∧ p.IsChain (· > ·) ∧
    p.IsChain (· ≥ ·) ∧ p.length = 3 :=
  ⟨250, [1000, 900, 700], by norm_num, by simp,
    by intro t ht; simp at ht; rcases ht with rfl | rfl | rfl <;> norm_num,
    by simp; norm_num, by simp; norm_num, rfl⟩

example := C14_p2h_isothermal_top 250 (by norm_num) [1000, 900, 700] (by simp)
  (by intro t ht; simp at ht; rcases ht with rfl | rfl | rfl <;> norm_num) (by simp; norm_num)

example := C14_p2h_isothermal_layers 250 (by norm_num) [1000, 900, 700]
  (by intro t ht; simp at ht; rcases ht with rfl | rfl | rfl <;> norm_num) (by simp; norm_num)

example := C14_p2h_isothermal_tendsto_linspace 250 100000 30000 (by norm_num) (by norm_num)
  (by norm_num)

/-! ## (G) general profiles: merely continuous integrands, arbitrary `vmr(p)` and `T(p)`

The theorems of (R1)–(R3) give explicit `O(mesh²)` bounds for smooth integrands resp. the
isothermal well-mixed column.  Here: convergence (no rate) for every profile the property allows. -/

private theorem linspace_mesh_tendsto (a b : ℝ) :
    Tendsto (fun n : ℕ => mesh (linspace a b (n + 1))) atTop (𝓝 0) := by
  have h0 : Tendsto (fun n : ℕ => |b - a| / ((n + 1 : ℕ) : ℝ)) atTop (𝓝 0) :=
    (tendsto_const_div_atTop_nhds_zero_nat |b - a|).comp (tendsto_add_atTop_nat 1)
  exact squeeze_zero (fun n => mesh_nonneg _) (fun n => linspace_mesh_le a b (n + 1)) h0

/-- (G1) **trapezoid error for a merely continuous `f`**, in terms of a modulus of continuity:
if `|f v - f u| ≤ ω` whenever `|v - u| ≤ δ` (`u, v ∈ S`), then on every grid in `S` (any
orientation) with mesh `≤ δ`, `|trapz - ∫| ≤ ω · ∑|x_{i+1} - x_i|`. -/
theorem C14_trapz_error_continuous {S : Set ℝ} (hS : Convex ℝ S) {f : ℝ → ℝ}
    (hc : ContinuousOn f S) {ω δ : ℝ}
    (hmod : ∀ u ∈ S, ∀ v ∈ S, |v - u| ≤ δ → |f v - f u| ≤ ω)
    (x : List ℝ) (hne : x ≠ []) (hmem : ∀ t ∈ x, t ∈ S) (hmesh : mesh x ≤ δ) :
    |trapz x (x.map f) - ∫ t in (x.head hne)..(x.getLast hne), f t| ≤ ω * pathLen x := by
  rw [trapz_self_map_eq_pairSum]
  have hseg : ∀ u ∈ S, ∀ v ∈ S, |v - u| ≤ δ →
      |(v - u) * ((f u + f v) / 2) - ∫ s in u..v, f s| ≤ ω * |v - u| := by
    intro u hu v hv huv
    have hcs : ∀ s ∈ Set.uIcc u v, |(f u + f v) / 2 - f s| ≤ ω := by
      intro s hs
      have hsS : s ∈ S := hS.ordConnected.uIcc_subset hu hv hs
      have h1 : |s - u| ≤ |v - u| := Set.abs_sub_left_of_mem_uIcc hs
      have h2 : |v - s| ≤ |v - u| := Set.abs_sub_right_of_mem_uIcc hs
      have e1 := hmod s hsS u hu (by rw [abs_sub_comm]; linarith)
      have e2 := hmod s hsS v hv (by linarith)
      have : (f u + f v) / 2 - f s = ((f u - f s) + (f v - f s)) / 2 := by ring
      rw [this, abs_div, abs_two, div_le_iff₀ two_pos]
      exact (abs_add_le _ _).trans (by linarith)
    have := rs_seg_le hS (F := f) (ζ := fun _ => 1) (Z := fun t => t) hc continuousOn_const
      (L := 1) (by intro s _; simp) (by intro u _ v _; simp) hu hv hcs
    simpa using this
  exact pairSum_err_le hS hc hseg x hne hmem hmesh

/-- (G1) **convergence for a merely continuous `f`**: along any family of monotone grids in
`[a, b]` from `α` to `β` (either orientation: `α = a, β = b` or `α = b, β = a`, or any sub-range)
whose mesh tends to 0, `integrate_column` of the samples tends to `∫_α^β f`. -/
theorem C14_trapz_tendsto_continuous {ι : Type*} {l : Filter ι} {a b : ℝ} {f : ℝ → ℝ}
    (hc : ContinuousOn f (Set.Icc a b)) (X : ι → List ℝ) (α β : ℝ) (hne : ∀ i, X i ≠ [])
    (hmem : ∀ i, ∀ t ∈ X i, t ∈ Set.Icc a b)
    (hmono : ∀ i, (X i).IsChain (· ≤ ·) ∨ (X i).IsChain (· ≥ ·))
    (ha : ∀ i, (X i).head (hne i) = α) (hb : ∀ i, (X i).getLast (hne i) = β)
    (hmesh : Tendsto (fun i => mesh (X i)) l (𝓝 0)) :
    Tendsto (fun i => trapz (X i) ((X i).map f)) l (𝓝 (∫ t in α..β, f t)) := by
  have := rs_tendsto (F := f) (ζ := fun _ => 1) (Z := fun t => t)
    (m := fun u v => (f u + f v) / 2) hc continuousOn_const (by intro u _ v _; simp)
    (mean_consistent hc) X α β hne hmem hmono ha hb hmesh
  simp only [trapz_self_map_eq_pairSum]
  simpa using this

/-- … in particular on `linspace(a, b, n+1)` (increasing) and on `linspace(b, a, n+1)`
(decreasing; the integral is taken in the direction of the grid) -/
theorem C14_trapz_tendsto_continuous_linspace {a b : ℝ} (hab : a ≤ b) {f : ℝ → ℝ}
    (hc : ContinuousOn f (Set.Icc a b)) :
    Tendsto (fun n : ℕ => trapz (linspace a b (n + 1)) ((linspace a b (n + 1)).map f)) atTop
        (𝓝 (∫ t in a..b, f t)) ∧
      Tendsto (fun n : ℕ => trapz (linspace b a (n + 1)) ((linspace b a (n + 1)).map f)) atTop
        (𝓝 (∫ t in b..a, f t)) := by
  constructor
  · refine C14_trapz_tendsto_continuous hc (fun n => linspace a b (n + 1)) a b
      (fun n => linspace_ne_nil _ _ _) ?_ (fun n => Or.inl (linspace_chain_le a b hab _))
      (fun n => linspace_head _ _ _) (fun n => linspace_getLast _ _ _ (Nat.succ_ne_zero n))
      (linspace_mesh_tendsto a b)
    intro n t ht
    have := chain_le_bounds _ (linspace_ne_nil a b (n + 1)) (linspace_chain_le a b hab _) t ht
    rwa [linspace_head, linspace_getLast _ _ _ (Nat.succ_ne_zero n)] at this
  · refine C14_trapz_tendsto_continuous hc (fun n => linspace b a (n + 1)) b a
      (fun n => linspace_ne_nil _ _ _) ?_ (fun n => Or.inr (linspace_chain_ge b a hab _))
      (fun n => linspace_head _ _ _) (fun n => linspace_getLast _ _ _ (Nat.succ_ne_zero n))
      (linspace_mesh_tendsto b a)
    intro n t ht
    have := chain_ge_bounds _ (linspace_ne_nil b a (n + 1)) (linspace_chain_ge b a hab _) t ht
    rwa [linspace_head, linspace_getLast _ _ _ (Nat.succ_ne_zero n)] at this

/-- non-vacuity of G1: `f = |t - 1|` (continuous, not differentiable) -/
example : Tendsto (fun n : ℕ => trapz (linspace 0 3 (n + 1)) ((linspace 0 3 (n + 1)).map fun t => |t - 1|))
    atTop (𝓝 (∫ t in (0:ℝ)..3, |t - 1|)) :=
  (C14_trapz_tendsto_continuous_linspace (f := fun t => |t - 1|) (by norm_num)
    (by fun_prop)).1

/-- members of a non-increasing grid from `p0` down to `p1` lie in `[p1, p0]` -/
private theorem mem_Icc_of_dec (p : List ℝ) (hne : p ≠ []) (hdec : p.IsChain (· ≥ ·)) (p0 p1 : ℝ)
    (ha : p.head hne = p0) (hb : p.getLast hne = p1) : ∀ t ∈ p, t ∈ Set.Icc p1 p0 := by
  intro t ht
  have := chain_ge_bounds p hne hdec t ht
  rwa [ha, hb] at this

/-- (G3) **`pressure2height` with an arbitrary continuous temperature profile `Tf(p) > 0`**
(dry air, `ρ = p/(R_d·T)`, layer-mean density): along any family of non-increasing pressure grids
from `p0` down to `p1 > 0` whose spacing tends to 0, the top height tends to the hydrostatic
integral `∫_{p1}^{p0} R_d·Tf(p)/(g·p) dp`. -/
theorem C14_p2h_tendsto_general {ι : Type*} {l : Filter ι} (p0 p1 : ℝ) (hp1 : 0 < p1)
    (hp : p1 ≤ p0) (Tf : ℝ → ℝ) (hT : ContinuousOn Tf (Set.Icc p1 p0)) (hTpos : ∀ s ∈ Set.Icc p1 p0, 0 < Tf s)
    (P : ι → List ℝ) (hne : ∀ i, P i ≠ []) (hdec : ∀ i, (P i).IsChain (· ≥ ·))
    (ha : ∀ i, (P i).head (hne i) = p0) (hb : ∀ i, (P i).getLast (hne i) = p1)
    (hmesh : Tendsto (fun i => mesh (P i)) l (𝓝 0)) :
    Tendsto (fun i => (p2h TR.density g₀ (P i) ((P i).map Tf)).getLast (p2h_ne_nil _ _ _ _)) l
      (𝓝 (∫ s in p1..p0, Rd * Tf s / (g₀ * s))) := by
  have hRd := C.gas_constant_dry_air_pos
  have hg := C.earth_standard_gravity_pos
  have hspos : ∀ s ∈ Set.Icc p1 p0, 0 < s := fun s hs => lt_of_lt_of_le hp1 hs.1
  have hρ : ContinuousOn (fun s => s / (Rd * Tf s)) (Set.Icc p1 p0) :=
    continuousOn_id.div (continuousOn_const.mul hT)
      (fun s hs => (mul_pos hRd (hTpos s hs)).ne')
  have hρpos : ∀ s ∈ Set.Icc p1 p0, 0 < s / (Rd * Tf s) :=
    fun s hs => div_pos (hspos s hs) (mul_pos hRd (hTpos s hs))
  have hF : ContinuousOn (fun s => -1 / (s / (Rd * Tf s) * g₀)) (Set.Icc p1 p0) :=
    continuousOn_const.div (hρ.mul continuousOn_const)
      (fun s hs => (mul_pos (hρpos s hs) hg).ne')
  have key := rs_tendsto (F := fun s => -1 / (s / (Rd * Tf s) * g₀)) (ζ := fun _ => 1)
    (Z := fun t => t)
    (m := fun u v => -1 / ((u / (Rd * Tf u) + v / (Rd * Tf v)) / 2 * g₀)) hF continuousOn_const
    (by intro u _ v _; simp) (invmean_consistent hg hρ hρpos) P p0 p1 hne
    (fun i => mem_Icc_of_dec (P i) (hne i) (hdec i) p0 p1 (ha i) (hb i))
    (fun i => Or.inr (hdec i)) ha hb hmesh
  have hlim : ∫ s in p0..p1, -1 / (s / (Rd * Tf s) * g₀) * 1 = ∫ s in p1..p0, Rd * Tf s / (g₀ * s) := by
    rw [intervalIntegral.integral_symm, ← intervalIntegral.integral_neg]
    apply intervalIntegral.integral_congr
    intro s hs
    rw [Set.uIcc_of_le hp] at hs
    have h1 := hspos s hs
    have h2 := hTpos s hs
    simp only
    field_simp
  rw [hlim] at key
  refine key.congr (fun i => ?_)
  rw [p2h_getLast_eq_pairSum, nf_density]

/-! ### (G2) arbitrary continuous profiles `vmr = X(p) ∈ [0, 1)`, `T = Tf(p) > 0` on `[p1, p0]` -/

private theorem moist_M_pos (x : ℝ) (hx0 : 0 ≤ x) (hx1 : x < 1) : 0 < (1 - x) * Md + x * Mw := by
  have hMd := C.molar_mass_dry_air_pos
  have hMw := C.molar_mass_water_pos
  have : 0 < (1 - x) * Md := mul_pos (by linarith) hMd
  have : 0 ≤ x * Mw := mul_nonneg hx0 hMw.le
  linarith

private theorem q_comp_continuousOn (p0 p1 : ℝ) (X : ℝ → ℝ) (hX : ContinuousOn X (Set.Icc p1 p0))
    (hXr : ∀ s ∈ Set.Icc p1 p0, 0 ≤ X s ∧ X s < 1) :
    ContinuousOn (fun s => TR.vmr2specific_humidity (X s)) (Set.Icc p1 p0) := by
  have hMd := C.molar_mass_dry_air_pos
  have hMw := C.molar_mass_water_pos
  have e : (fun s => TR.vmr2specific_humidity (X s)) = fun s => X s / ((1 - X s) * Md / Mw + X s) := by
    funext s; exact nf_x2q _
  rw [e]
  refine hX.div ((((continuousOn_const.sub hX).mul continuousOn_const).div_const _).add hX) ?_
  intro s hs
  have h := hXr s hs
  have : 0 < (1 - X s) * Md / Mw := div_pos (mul_pos (by linarith) hMd) hMw
  linarith

/-- the hydrostatic form on sampled profiles tends to `(1/g)·∫_{p1}^{p0} q(X(p)) dp` -/
theorem C14_iwv_hydro_tendsto_general {ι : Type*} {l : Filter ι} (p0 p1 : ℝ)
    (X : ℝ → ℝ) (hX : ContinuousOn X (Set.Icc p1 p0))
    (hXr : ∀ s ∈ Set.Icc p1 p0, 0 ≤ X s ∧ X s < 1)
    (P : ι → List ℝ) (hne : ∀ i, P i ≠ []) (hdec : ∀ i, (P i).IsChain (· ≥ ·))
    (ha : ∀ i, (P i).head (hne i) = p0) (hb : ∀ i, (P i).getLast (hne i) = p1)
    (hmesh : Tendsto (fun i => mesh (P i)) l (𝓝 0)) :
    Tendsto (fun i => iwvHydro TR.vmr2specific_humidity g₀ ((P i).map X) (P i)) l
      (𝓝 ((∫ s in p1..p0, TR.vmr2specific_humidity (X s)) / g₀)) := by
  have key := C14_trapz_tendsto_continuous (q_comp_continuousOn p0 p1 X hX hXr) P p0 p1 hne
    (fun i => mem_Icc_of_dec (P i) (hne i) (hdec i) p0 p1 (ha i) (hb i))
    (fun i => Or.inr (hdec i)) ha hb hmesh
  have := (key.neg).div_const g₀
  rw [← intervalIntegral.integral_symm] at this
  refine this.congr (fun i => ?_)
  simp only [iwvHydro, List.map_map]
  rfl

/-- the general form on sampled profiles, with `z_i = Z(p_i)` the hydrostatic height of the moist
column `Z(p) = ∫_p^{p0} R*/M_m(X)·Tf/(g·s) ds`, tends to `(1/g)·∫_{p1}^{p0} X·(R*/M_m(X))/R_v dp`
(`= ∫ vmr·ρ_v dz` after the substitution `dz = -R_m T/(g p) dp`; no relation between the gas
constants is used here) -/
theorem C14_iwv_general_tendsto_general {ι : Type*} {l : Filter ι} (Rstar p0 p1 : ℝ)
    (hp1 : 0 < p1) (hp : p1 ≤ p0)
    (X Tf Z : ℝ → ℝ) (hX : ContinuousOn X (Set.Icc p1 p0)) (hT : ContinuousOn Tf (Set.Icc p1 p0))
    (hXr : ∀ s ∈ Set.Icc p1 p0, 0 ≤ X s ∧ X s < 1) (hTpos : ∀ s ∈ Set.Icc p1 p0, 0 < Tf s)
    (hZ : ∀ s ∈ Set.Icc p1 p0,
      Z s = ∫ t in s..p0, Rstar / ((1 - X t) * Md + X t * Mw) * Tf t / (g₀ * t))
    (P : ι → List ℝ) (hne : ∀ i, P i ≠ []) (hdec : ∀ i, (P i).IsChain (· ≥ ·))
    (ha : ∀ i, (P i).head (hne i) = p0) (hb : ∀ i, (P i).getLast (hne i) = p1)
    (hmesh : Tendsto (fun i => mesh (P i)) l (𝓝 0)) :
    Tendsto (fun i => iwvGeneral (fun p T => p / (Rv * T)) ((P i).map X) (P i) ((P i).map Tf)
        ((P i).map Z)) l
      (𝓝 ((∫ s in p1..p0, X s * (Rstar / ((1 - X s) * Md + X s * Mw)) / Rv) / g₀)) := by
  have hRv := C.gas_constant_water_vapor_pos
  have hg := C.earth_standard_gravity_pos
  have hspos : ∀ s ∈ Set.Icc p1 p0, 0 < s := fun s hs => lt_of_lt_of_le hp1 hs.1
  have hp0I : p0 ∈ Set.Icc p1 p0 := ⟨hp, le_rfl⟩
  -- the integrand `Y = vmr·ρ_v` and the height density `r = -dZ/dp`
  have hY : ContinuousOn (fun s => X s * (s / (Rv * Tf s))) (Set.Icc p1 p0) :=
    hX.mul (continuousOn_id.div (continuousOn_const.mul hT)
      (fun s hs => (mul_pos hRv (hTpos s hs)).ne'))
  have hr : ContinuousOn (fun t => Rstar / ((1 - X t) * Md + X t * Mw) * Tf t / (g₀ * t))
      (Set.Icc p1 p0) := by
    refine ((continuousOn_const.div (((continuousOn_const.sub hX).mul continuousOn_const).add
      (hX.mul continuousOn_const)) ?_).mul hT).div (continuousOn_const.mul continuousOn_id) ?_
    · intro s hs; exact (moist_M_pos _ (hXr s hs).1 (hXr s hs).2).ne'
    · intro s hs; exact (mul_pos hg (hspos s hs)).ne'
  have hζ : ContinuousOn (fun t => -(Rstar / ((1 - X t) * Md + X t * Mw) * Tf t / (g₀ * t)))
      (Set.Icc p1 p0) := hr.neg
  have hZinc : ∀ u ∈ Set.Icc p1 p0, ∀ v ∈ Set.Icc p1 p0,
      Z v - Z u = ∫ s in u..v, -(Rstar / ((1 - X s) * Md + X s * Mw) * Tf s / (g₀ * s)) := by
    intro u hu v hv
    have iuv := intervalIntegrable_of_mem (convex_Icc p1 p0) hr hu hv
    have ivp := intervalIntegrable_of_mem (convex_Icc p1 p0) hr hv hp0I
    rw [hZ u hu, hZ v hv, intervalIntegral.integral_neg,
      ← intervalIntegral.integral_add_adjacent_intervals iuv ivp]
    ring
  have key := rs_tendsto (F := fun s => X s * (s / (Rv * Tf s)))
    (ζ := fun t => -(Rstar / ((1 - X t) * Md + X t * Mw) * Tf t / (g₀ * t))) (Z := Z)
    (m := fun u v => (X u * (u / (Rv * Tf u)) + X v * (v / (Rv * Tf v))) / 2) hY hζ hZinc
    (mean_consistent hY) P p0 p1 hne
    (fun i => mem_Icc_of_dec (P i) (hne i) (hdec i) p0 p1 (ha i) (hb i))
    (fun i => Or.inr (hdec i)) ha hb hmesh
  have hlim : ∫ s in p0..p1, X s * (s / (Rv * Tf s))
        * -(Rstar / ((1 - X s) * Md + X s * Mw) * Tf s / (g₀ * s))
      = (∫ s in p1..p0, X s * (Rstar / ((1 - X s) * Md + X s * Mw)) / Rv) / g₀ := by
    rw [intervalIntegral.integral_symm, ← intervalIntegral.integral_neg,
      ← intervalIntegral.integral_div]
    apply intervalIntegral.integral_congr
    intro s hs
    rw [Set.uIcc_of_le hp] at hs
    have h1 := hspos s hs
    have h2 := hTpos s hs
    simp only
    field_simp
  rw [hlim] at key
  refine key.congr (fun i => ?_)
  simp only [iwvGeneral]
  have h := zipWith_sampled_profile (fun p T => p / (Rv * T)) X Tf (P i)
  beta_reduce at h
  rw [h, trapz_map_eq_pairSum]

/-- pointwise continuum identity: `x·R_m(x)/R_v = q(x)·R*/(R_v·M_w)` -/
private theorem xRm_eq_q (Rstar x : ℝ) (hx0 : 0 ≤ x) (hx1 : x < 1) :
    x * (Rstar / ((1 - x) * Md + x * Mw)) / Rv
      = TR.vmr2specific_humidity x * (Rstar / (Rv * Mw)) := by
  have hRv := C.gas_constant_water_vapor_pos
  have hMw := C.molar_mass_water_pos
  have hMm := moist_M_pos x hx0 hx1
  rw [nf_x2q]
  have e1 : (1 - x) * Md / Mw + x = ((1 - x) * Md + x * Mw) / Mw := by field_simp
  rw [e1]
  field_simp

/-- the two limits are related by the constant factor `R*/(R_v·M_w)` -/
theorem C14_iwv_limits_ratio (Rstar p0 p1 : ℝ) (hp : p1 ≤ p0) (X : ℝ → ℝ)
    (hXr : ∀ s ∈ Set.Icc p1 p0, 0 ≤ X s ∧ X s < 1) :
    (∫ s in p1..p0, X s * (Rstar / ((1 - X s) * Md + X s * Mw)) / Rv) / g₀
      = (∫ s in p1..p0, TR.vmr2specific_humidity (X s)) / g₀ * (Rstar / (Rv * Mw)) := by
  have : ∫ s in p1..p0, X s * (Rstar / ((1 - X s) * Md + X s * Mw)) / Rv
      = ∫ s in p1..p0, TR.vmr2specific_humidity (X s) * (Rstar / (Rv * Mw)) := by
    apply intervalIntegral.integral_congr
    intro s hs
    rw [Set.uIcc_of_le hp] at hs
    exact xRm_eq_q Rstar (X s) (hXr s hs).1 (hXr s hs).2
  rw [this, intervalIntegral.integral_mul_const]
  ring

/-- (G2) **the hydrostatic and the general form converge to the same value for every admissible
profile**: `vmr = X(p) ∈ [0,1)` and `T = Tf(p) > 0` continuous on `[p1, p0]`, `z = Z(p)` the
hydrostatic height of the moist column, `R_v·M_w = R*`.  Along any family of non-increasing
pressure grids from `p0` down to `p1 > 0` whose spacing tends to 0, both forms of
`integrate_water_vapor` tend to `(1/g)·∫_{p1}^{p0} q(X(p)) dp`. -/
theorem C14_iwv_forms_tendsto_general {ι : Type*} {l : Filter ι} (Rstar p0 p1 : ℝ)
    (hR : Rv * Mw = Rstar) (hp1 : 0 < p1) (hp : p1 ≤ p0)
    (X Tf Z : ℝ → ℝ) (hX : ContinuousOn X (Set.Icc p1 p0)) (hT : ContinuousOn Tf (Set.Icc p1 p0))
    (hXr : ∀ s ∈ Set.Icc p1 p0, 0 ≤ X s ∧ X s < 1) (hTpos : ∀ s ∈ Set.Icc p1 p0, 0 < Tf s)
    (hZ : ∀ s ∈ Set.Icc p1 p0,
      Z s = ∫ t in s..p0, Rstar / ((1 - X t) * Md + X t * Mw) * Tf t / (g₀ * t))
    (P : ι → List ℝ) (hne : ∀ i, P i ≠ []) (hdec : ∀ i, (P i).IsChain (· ≥ ·))
    (ha : ∀ i, (P i).head (hne i) = p0) (hb : ∀ i, (P i).getLast (hne i) = p1)
    (hmesh : Tendsto (fun i => mesh (P i)) l (𝓝 0)) :
    Tendsto (fun i => iwvHydro TR.vmr2specific_humidity g₀ ((P i).map X) (P i)) l
        (𝓝 ((∫ s in p1..p0, TR.vmr2specific_humidity (X s)) / g₀)) ∧
      Tendsto (fun i => iwvGeneral (fun p T => p / (Rv * T)) ((P i).map X) (P i) ((P i).map Tf)
          ((P i).map Z)) l
        (𝓝 ((∫ s in p1..p0, TR.vmr2specific_humidity (X s)) / g₀)) := by
  have hRv := C.gas_constant_water_vapor_pos
  have hMw := C.molar_mass_water_pos
  refine ⟨C14_iwv_hydro_tendsto_general p0 p1 X hX hXr P hne hdec ha hb hmesh, ?_⟩
  have := C14_iwv_general_tendsto_general Rstar p0 p1 hp1 hp X Tf Z hX hT hXr hTpos hZ P hne hdec
    ha hb hmesh
  rwa [C14_iwv_limits_ratio Rstar p0 p1 hp X hXr, ← hR, div_self (by positivity), mul_one] at this

/-- … with the rounded constants (`|R* - R_v·M_w| ≤ ε·R_v·M_w`, `ε = 10⁻¹⁶` for the doubles): the
limit of the general form differs from the limit of the hydrostatic form by at most `ε` times
the latter. -/
theorem C14_iwv_limits_approx (Rstar ε p0 p1 : ℝ) (hR : |Rstar - Rv * Mw| ≤ ε * (Rv * Mw))
    (hp : p1 ≤ p0) (X : ℝ → ℝ) (hXr : ∀ s ∈ Set.Icc p1 p0, 0 ≤ X s ∧ X s < 1) :
    |(∫ s in p1..p0, X s * (Rstar / ((1 - X s) * Md + X s * Mw)) / Rv) / g₀
        - (∫ s in p1..p0, TR.vmr2specific_humidity (X s)) / g₀|
      ≤ ε * ((∫ s in p1..p0, TR.vmr2specific_humidity (X s)) / g₀) := by
  have hRv := C.gas_constant_water_vapor_pos
  have hMw := C.molar_mass_water_pos
  have hg := C.earth_standard_gravity_pos
  have hRM : 0 < Rv * Mw := by positivity
  have hnn : 0 ≤ (∫ s in p1..p0, TR.vmr2specific_humidity (X s)) / g₀ := by
    apply div_nonneg _ hg.le
    apply intervalIntegral.integral_nonneg hp
    intro s hs
    exact q_nonneg (X s) (hXr s hs).1 (hXr s hs).2
  have hrho : |Rstar / (Rv * Mw) - 1| ≤ ε := by
    have e : Rstar / (Rv * Mw) - 1 = (Rstar - Rv * Mw) / (Rv * Mw) := by field_simp
    rw [e, abs_div, abs_of_pos hRM, div_le_iff₀ hRM]
    exact hR
  rw [C14_iwv_limits_ratio Rstar p0 p1 hp X hXr]
  have e : (∫ s in p1..p0, TR.vmr2specific_humidity (X s)) / g₀ * (Rstar / (Rv * Mw))
      - (∫ s in p1..p0, TR.vmr2specific_humidity (X s)) / g₀
      = (∫ s in p1..p0, TR.vmr2specific_humidity (X s)) / g₀ * (Rstar / (Rv * Mw) - 1) := by ring
  rw [e, abs_mul, abs_of_nonneg hnn, mul_comm ε]
  exact mul_le_mul_of_nonneg_left hrho hnn

/-- the hydrostatic height of the moist column used above vanishes at `p0` and strictly
decreases with pressure (so `z = Z(p)` is a strictly increasing height grid on a strictly
decreasing pressure grid) -/
theorem C14_moist_height_props (Rstar p0 p1 : ℝ) (hRs : 0 < Rstar) (hp1 : 0 < p1) (hp : p1 ≤ p0)
    (X Tf Z : ℝ → ℝ) (hX : ContinuousOn X (Set.Icc p1 p0)) (hT : ContinuousOn Tf (Set.Icc p1 p0))
    (hXr : ∀ s ∈ Set.Icc p1 p0, 0 ≤ X s ∧ X s < 1) (hTpos : ∀ s ∈ Set.Icc p1 p0, 0 < Tf s)
    (hZ : ∀ s ∈ Set.Icc p1 p0,
      Z s = ∫ t in s..p0, Rstar / ((1 - X t) * Md + X t * Mw) * Tf t / (g₀ * t)) :
    Z p0 = 0 ∧ StrictAntiOn Z (Set.Icc p1 p0) := by
  have hg := C.earth_standard_gravity_pos
  have hspos : ∀ s ∈ Set.Icc p1 p0, 0 < s := fun s hs => lt_of_lt_of_le hp1 hs.1
  have hp0I : p0 ∈ Set.Icc p1 p0 := ⟨hp, le_rfl⟩
  have hr : ContinuousOn (fun t => Rstar / ((1 - X t) * Md + X t * Mw) * Tf t / (g₀ * t))
      (Set.Icc p1 p0) := by
    refine ((continuousOn_const.div (((continuousOn_const.sub hX).mul continuousOn_const).add
      (hX.mul continuousOn_const)) ?_).mul hT).div (continuousOn_const.mul continuousOn_id) ?_
    · intro s hs; exact (moist_M_pos _ (hXr s hs).1 (hXr s hs).2).ne'
    · intro s hs; exact (mul_pos hg (hspos s hs)).ne'
  refine ⟨by rw [hZ p0 hp0I]; simp, ?_⟩
  intro u hu v hv huv
  have iuv := intervalIntegrable_of_mem (convex_Icc p1 p0) hr hu hv
  have ivp := intervalIntegrable_of_mem (convex_Icc p1 p0) hr hv hp0I
  rw [hZ u hu, hZ v hv, ← intervalIntegral.integral_add_adjacent_intervals iuv ivp]
  have hpos : 0 < ∫ t in u..v, Rstar / ((1 - X t) * Md + X t * Mw) * Tf t / (g₀ * t) := by
    apply intervalIntegral.intervalIntegral_pos_of_pos_on iuv _ huv
    intro t ht
    have htI : t ∈ Set.Icc p1 p0 := ⟨le_trans hu.1 ht.1.le, le_trans ht.2.le hv.2⟩
    have := moist_M_pos _ (hXr t htI).1 (hXr t htI).2
    have := hTpos t htI
    have := hspos t htI
    positivity
  linarith

/-- **the limit of the general form is the height integral `∫_0^{Z(p1)} vmr·ρ_v dz`**: for any
continuous `G` on the height range that represents the integrand as a function of height
(`G(Z(p)) = X(p)·p/(R_v·Tf(p))`), substitution `z = Z(p)`, `dz = -R_m T/(g p) dp` gives
`∫_0^{Z p1} G dz = (1/g)·∫_{p1}^{p0} X·(R*/M_m(X))/R_v dp` — the limit in
`C14_iwv_general_tendsto_general`. -/
theorem C14_iwv_general_limit_as_height_integral (Rstar p0 p1 : ℝ) (hp1 : 0 < p1) (hp : p1 ≤ p0)
    (X Tf Z G : ℝ → ℝ) (hX : ContinuousOn X (Set.Icc p1 p0)) (hT : ContinuousOn Tf (Set.Icc p1 p0))
    (hXr : ∀ s ∈ Set.Icc p1 p0, 0 ≤ X s ∧ X s < 1) (hTpos : ∀ s ∈ Set.Icc p1 p0, 0 < Tf s)
    (hZ : ∀ s ∈ Set.Icc p1 p0,
      Z s = ∫ t in s..p0, Rstar / ((1 - X t) * Md + X t * Mw) * Tf t / (g₀ * t))
    (hG : ContinuousOn G (Z '' Set.Icc p1 p0))
    (hGY : ∀ s ∈ Set.Icc p1 p0, G (Z s) = X s * (s / (Rv * Tf s))) :
    ∫ z in (0:ℝ)..Z p1, G z
      = (∫ s in p1..p0, X s * (Rstar / ((1 - X s) * Md + X s * Mw)) / Rv) / g₀ := by
  have hg := C.earth_standard_gravity_pos
  have hspos : ∀ s ∈ Set.Icc p1 p0, 0 < s := fun s hs => lt_of_lt_of_le hp1 hs.1
  have hp0I : p0 ∈ Set.Icc p1 p0 := ⟨hp, le_rfl⟩
  have hr : ContinuousOn (fun t => Rstar / ((1 - X t) * Md + X t * Mw) * Tf t / (g₀ * t))
      (Set.Icc p1 p0) := by
    refine ((continuousOn_const.div (((continuousOn_const.sub hX).mul continuousOn_const).add
      (hX.mul continuousOn_const)) ?_).mul hT).div (continuousOn_const.mul continuousOn_id) ?_
    · intro s hs; exact (moist_M_pos _ (hXr s hs).1 (hXr s hs).2).ne'
    · intro s hs; exact (mul_pos hg (hspos s hs)).ne'
  have hu : Set.uIcc p0 p1 = Set.Icc p1 p0 := Set.uIcc_of_ge hp
  have hZc : ContinuousOn Z (Set.uIcc p0 p1) := by
    rw [hu]
    have h1 : ContinuousOn (fun x => ∫ t in x..p0, Rstar / ((1 - X t) * Md + X t * Mw) * Tf t / (g₀ * t))
        (Set.uIcc p1 p0) :=
      intervalIntegral.continuousOn_primitive_interval_left (by
        rw [Set.uIcc_of_le hp]; exact hr.integrableOn_Icc)
    rw [Set.uIcc_of_le hp] at h1
    exact h1.congr (fun s hs => hZ s hs)
  have hder : ∀ x ∈ Set.Ioo (min p0 p1) (max p0 p1), HasDerivWithinAt Z
      (-(Rstar / ((1 - X x) * Md + X x * Mw) * Tf x / (g₀ * x))) (Set.Ioi x) x := by
    intro x hx
    rw [min_eq_right hp, max_eq_left hp] at hx
    have hxI : x ∈ Set.Icc p1 p0 := Set.Ioo_subset_Icc_self hx
    have hnh : Set.Icc p1 p0 ∈ nhds x := Icc_mem_nhds hx.1 hx.2
    have h1 := intervalIntegral.integral_hasDerivAt_left (a := x) (b := p0)
      (f := fun t => Rstar / ((1 - X t) * Md + X t * Mw) * Tf t / (g₀ * t))
      (intervalIntegrable_of_mem (convex_Icc p1 p0) hr hxI hp0I)
      ((hr.mono Set.Ioo_subset_Icc_self).stronglyMeasurableAtFilter isOpen_Ioo x hx)
      (hr.continuousAt hnh)
    have h2 : HasDerivAt Z (-(Rstar / ((1 - X x) * Md + X x * Mw) * Tf x / (g₀ * x))) x := by
      refine h1.congr_of_eventuallyEq ?_
      filter_upwards [hnh] with s hs using hZ s hs
    exact h2.hasDerivWithinAt
  have hsub := intervalIntegral.integral_comp_mul_deriv'' (a := p0) (b := p1) (f := Z)
    (f' := fun t => -(Rstar / ((1 - X t) * Md + X t * Mw) * Tf t / (g₀ * t))) (g := G) hZc hder
    (by rw [hu]; exact hr.neg) (by rw [hu]; exact hG)
  have hZ0 : Z p0 = 0 := by rw [hZ p0 hp0I]; simp
  rw [hZ0] at hsub
  rw [← hsub]
  have hcongr : ∫ x in p0..p1, (G ∘ Z) x * -(Rstar / ((1 - X x) * Md + X x * Mw) * Tf x / (g₀ * x))
      = ∫ s in p0..p1, X s * (s / (Rv * Tf s))
          * -(Rstar / ((1 - X s) * Md + X s * Mw) * Tf s / (g₀ * s)) := by
    apply intervalIntegral.integral_congr
    intro s hs
    rw [hu] at hs
    simp only [Function.comp, hGY s hs]
  rw [hcongr, intervalIntegral.integral_symm, ← intervalIntegral.integral_neg,
    ← intervalIntegral.integral_div]
  apply intervalIntegral.integral_congr
  intro s hs
  rw [Set.uIcc_of_le hp] at hs
  have h1 := hspos s hs
  have h2 := hTpos s hs
  simp only
  field_simp

/-! ### non-vacuity of (G): `vmr(p) = 0.01·p/p0`, `T(p) = 200 + 80·p/p0`, `p0 = 10⁵`, `p1 = 3·10⁴`,
grids `linspace(p0, p1, n+1)` -/

private theorem ex_lin_family (p0 p1 : ℝ) (hp : p1 ≤ p0) :
    (∀ n : ℕ, (linspace p0 p1 (n + 1)).IsChain (· ≥ ·)) ∧
    (∀ n : ℕ, (linspace p0 p1 (n + 1)).head (linspace_ne_nil _ _ _) = p0) ∧
    (∀ n : ℕ, (linspace p0 p1 (n + 1)).getLast (linspace_ne_nil _ _ _) = p1) :=
  ⟨fun _ => linspace_chain_ge p0 p1 hp _, fun _ => linspace_head _ _ _,
    fun n => linspace_getLast _ _ _ (Nat.succ_ne_zero n)⟩

example := C14_iwv_forms_tendsto_general (l := atTop) (Rv * Mw) 100000 30000 rfl (by norm_num)
  (by norm_num) (fun p => 1 / 100 * p / 100000) (fun p => 200 + 80 * p / 100000)
  (fun s => ∫ t in s..100000, Rv * Mw / ((1 - 1 / 100 * t / 100000) * Md
      + 1 / 100 * t / 100000 * Mw) * (200 + 80 * t / 100000) / (g₀ * t))
  (by fun_prop) (by fun_prop)
  (fun s hs => ⟨by have := hs.1; positivity, by have := hs.2; linarith⟩)
  (fun s hs => by have := hs.1; positivity) (fun s _ => rfl)
  (fun n : ℕ => linspace 100000 30000 (n + 1)) (fun n => linspace_ne_nil _ _ _)
  (ex_lin_family 100000 30000 (by norm_num)).1 (ex_lin_family 100000 30000 (by norm_num)).2.1
  (ex_lin_family 100000 30000 (by norm_num)).2.2 (linspace_mesh_tendsto _ _)

example := C14_p2h_tendsto_general (l := atTop) 100000 30000 (by norm_num) (by norm_num)
  (fun p => 200 + 80 * p / 100000) (by fun_prop) (fun s hs => by have := hs.1; positivity)
  (fun n : ℕ => linspace 100000 30000 (n + 1)) (fun n => linspace_ne_nil _ _ _)
  (ex_lin_family 100000 30000 (by norm_num)).1 (ex_lin_family 100000 30000 (by norm_num)).2.1
  (ex_lin_family 100000 30000 (by norm_num)).2.2 (linspace_mesh_tendsto _ _)

/-- non-vacuity of `C14_iwv_general_limit_as_height_integral`: the isothermal well-mixed column of
(R2), where `Z(p) = H·ln(p0/p)` and the integrand as a function of height is
`G(z) = x0·p0·exp(-z/H)/(R_v·T0)` -/
example : ∫ z in (0:ℝ)..(Rv * Mw / ((1 - 1 / 100) * Md + 1 / 100 * Mw) * 250 / g₀) * Real.log (100000 / 30000),
      1 / 100 * (100000 * Real.exp (-z / (Rv * Mw / ((1 - 1 / 100) * Md + 1 / 100 * Mw) * 250 / g₀)) / (Rv * 250))
    = (∫ _s in (30000:ℝ)..100000, 1 / 100 * (Rv * Mw / ((1 - 1 / 100) * Md + 1 / 100 * Mw)) / Rv) / g₀ := by
  have hRv := C.gas_constant_water_vapor_pos
  have hMw := C.molar_mass_water_pos
  have hg := C.earth_standard_gravity_pos
  have hH : 0 < Rv * Mw / ((1 - 1 / 100) * Md + 1 / 100 * Mw) * 250 / g₀ :=
    moist_H_pos (Rv * Mw) (1 / 100) 250 (by positivity) (by norm_num) (by norm_num) (by norm_num)
  refine C14_iwv_general_limit_as_height_integral (Rv * Mw) 100000 30000 (by norm_num) (by norm_num)
    (fun _ => 1 / 100) (fun _ => 250)
    (fun s => (Rv * Mw / ((1 - 1 / 100) * Md + 1 / 100 * Mw) * 250 / g₀) * Real.log (100000 / s))
    (fun z => 1 / 100 * (100000 * Real.exp (-z / (Rv * Mw / ((1 - 1 / 100) * Md + 1 / 100 * Mw) * 250 / g₀)) / (Rv * 250)))
    continuousOn_const continuousOn_const (fun s _ => ⟨by norm_num, by norm_num⟩)
    (fun s _ => by norm_num) ?_ (by fun_prop) ?_
  · intro s hs
    have hs0 : 0 < s := lt_of_lt_of_le (by norm_num) hs.1
    have e : (fun t : ℝ => Rv * Mw / ((1 - 1 / 100) * Md + 1 / 100 * Mw) * 250 / (g₀ * t))
        = fun t => (Rv * Mw / ((1 - 1 / 100) * Md + 1 / 100 * Mw) * 250 / g₀) * t⁻¹ := by
      funext t; rw [div_mul_eq_div_div, div_eq_mul_inv _ t]
    rw [e, intervalIntegral.integral_const_mul, integral_inv_of_pos hs0 (by norm_num)]
  · intro s hs
    have hs0 : 0 < s := lt_of_lt_of_le (by norm_num) hs.1
    rw [expProfile_at_logheight 100000 _ s (by norm_num) hs0 hH.ne']

/-! ## Scope
Everything above is about the real-number model (`Col.*` over `ℝ` with the translated `TR.*`):
rounding errors of the floating-point evaluation are not part of these statements (the C14 check
ties the `Float` instantiation of the same `Col.*` definitions to the code numerically).
`C14_iwv_forms_agree`/`…_tendsto`/`…_tendsto_general` assume the exact relation `R_v·M_w = R*`;
with the generated double constants it holds only up to `10⁻¹⁶` (`C14_gas_constants_consistent`),
which is what `C14_iwv_forms_agree_approx`/`C14_iwv_forms_eventually_approx`/
`C14_iwv_limits_approx` account for.
The (G) theorems give convergence without a rate (only continuity is assumed); rates are in
(R1)–(R3) (`O(mesh²)` for `C²`-type integrands resp. the isothermal well-mixed column) and in
`C14_trapz_error_continuous` (modulus of continuity).  Profiles in (G2)/(G3) are functions of
pressure sampled on the grid (`vmr_i = X(p_i)`, `T_i = Tf(p_i)`, `z_i = Z(p_i)`); grids are
non-increasing in pressure from `p0` to `p1 > 0`.
-/

assert_axioms C14_trapz_error C14_trapz_error_monotone C14_trapz_error_lipschitz_deriv
  C14_trapz_error_C2 C14_trapz_error_C2_decreasing C14_trapz_tendsto C14_trapz_tendsto_linspace
  C14_iwv_hydro_wellmixed C14_iwv_general_wellmixed C14_iwv_general_isothermal
  C14_moist_scale_height_identity C14_gas_constants_consistent C14_iwv_forms_agree
  C14_iwv_forms_agree_approx C14_logheight_mesh_le C14_iwv_forms_agree_pmesh C14_iwv_forms_tendsto
  C14_iwv_forms_tendsto_linspace C14_iwv_forms_eventually_approx
  C14_p2h_isothermal_layers C14_p2h_isothermal_levels C14_p2h_isothermal_top
  C14_p2h_isothermal_tendsto C14_p2h_isothermal_tendsto_linspace
  C14_trapz_error_continuous C14_trapz_tendsto_continuous C14_trapz_tendsto_continuous_linspace
  C14_p2h_tendsto_general C14_iwv_hydro_tendsto_general C14_iwv_general_tendsto_general
  C14_iwv_limits_ratio C14_iwv_forms_tendsto_general C14_iwv_limits_approx C14_moist_height_props
  C14_iwv_general_limit_as_height_integral
