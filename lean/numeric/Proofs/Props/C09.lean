import GenReal.Atmosphere
import Proofs.Lemmas.Consts
import Proofs.Audit
import Mathlib.Tactic
import Mathlib.Analysis.SpecialFunctions.Exp
import Mathlib.Topology.Algebra.Order.Field

/-!
# C09 — humidity measures and saturation pressures are mutually consistent

Theorems about `TR.*`, the real-number reading of `typhon/physics/atmosphere.py`
that `tools/py2lean` regenerates from /repo on every run.  `x` = volume mixing ratio,
`w` = mass mixing ratio, `q` = specific humidity.
-/

open TR

local notation "Md" => C.molar_mass_dry_air
local notation "Mw" => C.molar_mass_water

private theorem hMd : (0 : ℝ) < Md := C.molar_mass_dry_air_pos
private theorem hMw : (0 : ℝ) < Mw := C.molar_mass_water_pos

/-! ## Normal forms

One lemma per translated converter states the regenerated definition in a fixed algebraic
normal form (proved by `ring`, so that harmless rewrites of the Python source — reordered
operands, `np.divide(a, b)` for `a / b`, renamed locals — do not disturb the theorems below,
which only use these normal forms). -/

private theorem nf_w2q (w : ℝ) : mixing_ratio2specific_humidity w = w / (1 + w) := by
  simp only [mixing_ratio2specific_humidity] <;> ring
private theorem nf_w2x (w : ℝ) : mixing_ratio2vmr w = w / (w + Mw / Md) := by
  simp only [mixing_ratio2vmr] <;> ring
private theorem nf_q2w (q : ℝ) : specific_humidity2mixing_ratio q = q / (1 - q) := by
  simp only [specific_humidity2mixing_ratio] <;> ring
private theorem nf_q2x (q : ℝ) : specific_humidity2vmr q = q / ((1 - q) * Mw / Md + q) := by
  simp only [specific_humidity2vmr] <;> ring
private theorem nf_x2w (x : ℝ) : vmr2mixing_ratio x = x / (1 - x) * Mw / Md := by
  simp only [vmr2mixing_ratio] <;> ring
private theorem nf_x2q (x : ℝ) : vmr2specific_humidity x = x / ((1 - x) * Md / Mw + x) := by
  simp only [vmr2specific_humidity] <;> ring

/-- Murphy–Koop ice formula, fixed form (exact rationals of the decimal literals) -/
private theorem nf_ice (T : ℝ) : e_eq_ice_mk T =
    Real.exp (4775213 / 500000 - 1144653 / 200 / T + 88267 / 25000 * Real.log T
      - 182083 / 25000000 * T) := by
  simp only [e_eq_ice_mk] <;> ring_nf
/-- Murphy–Koop liquid-water formula, fixed form -/
private theorem nf_water (T : ℝ) : e_eq_water_mk T =
    Real.exp (54842763 / 1000000 - 338161 / 50 / T - 421 / 100 * Real.log T + 367 / 1000000 * T
      + Real.tanh (83 / 2000 * (T - 1094 / 5))
        * (26939 / 500 - 66561 / 50 / T - 944523 / 100000 * Real.log T + 561 / 40000 * T)) := by
  simp only [e_eq_water_mk] <;> ring_nf
/-- moist-adiabatic lapse rate, fixed form -/
private theorem nf_lapse (e_eq : ℝ → ℝ) (p T : ℝ) : moist_lapse_rate p T e_eq =
    C.earth_standard_gravity / C.isobaric_mass_heat_capacity *
      ((1 + C.heat_of_vaporization * vmr2mixing_ratio (e_eq T / p) / (C.gas_constant_dry_air * T)) /
        (1 + C.heat_of_vaporization ^ 2 * vmr2mixing_ratio (e_eq T / p) /
          (C.isobaric_mass_heat_capacity * C.gas_constant_water_vapor * T ^ 2))) := by
  simp only [moist_lapse_rate] <;> ring_nf

/-! ## The six converters are exact inverses of their counterparts -/

/-- x → w → x -/
theorem C09_inverse_xw (x : ℝ) (hx : x ≠ 1) : mixing_ratio2vmr (vmr2mixing_ratio x) = x := by
  have h1 : (1 : ℝ) - x ≠ 0 := sub_ne_zero.mpr (Ne.symm hx)
  have := hMd; have := hMw
  simp only [nf_w2x, nf_x2w]
  have e : x / (1 - x) * Mw / Md + Mw / Md = Mw / (Md * (1 - x)) := by field_simp; ring
  rw [e]; field_simp

/-- w → x → w -/
theorem C09_inverse_wx (w : ℝ) (hw : 0 ≤ w) : vmr2mixing_ratio (mixing_ratio2vmr w) = w := by
  have := hMd; have := hMw
  have h2 : w + Mw / Md ≠ 0 := by positivity
  have h3 : w * Md + Mw ≠ 0 := by positivity
  simp only [nf_w2x, nf_x2w]
  have e : (1 : ℝ) - w / (w + Mw / Md) = (Mw / Md) / (w + Mw / Md) := by field_simp; ring
  rw [e]; field_simp

/-- x → q → x -/
theorem C09_inverse_xq (x : ℝ) (hx0 : 0 ≤ x) (hx : x < 1) :
    specific_humidity2vmr (vmr2specific_humidity x) = x := by
  have := hMd; have := hMw
  have h1 : 0 < 1 - x := by linarith
  have hden : 0 < (1 - x) * Md / Mw + x := by positivity
  simp only [nf_q2x, nf_x2q]
  have e : (1 : ℝ) - x / ((1 - x) * Md / Mw + x) = ((1 - x) * Md / Mw) / ((1 - x) * Md / Mw + x) := by
    field_simp; ring
  rw [e]
  have hden' : (1 - x) * Md + x * Mw ≠ 0 := by positivity
  field_simp
  ring

/-- q → x → q -/
theorem C09_inverse_qx (q : ℝ) (hq0 : 0 ≤ q) (hq : q < 1) :
    vmr2specific_humidity (specific_humidity2vmr q) = q := by
  have := hMd; have := hMw
  have h1 : 0 < 1 - q := by linarith
  have hden : 0 < (1 - q) * Mw / Md + q := by positivity
  simp only [nf_q2x, nf_x2q]
  have e : (1 : ℝ) - q / ((1 - q) * Mw / Md + q) = ((1 - q) * Mw / Md) / ((1 - q) * Mw / Md + q) := by
    field_simp; ring
  rw [e]
  have hden' : (1 - q) * Mw + q * Md ≠ 0 := by positivity
  field_simp
  ring

/-- w → q → w -/
theorem C09_inverse_wq (w : ℝ) (hw : w ≠ -1) :
    specific_humidity2mixing_ratio (mixing_ratio2specific_humidity w) = w := by
  have h1 : (1 : ℝ) + w ≠ 0 := by intro h; apply hw; linarith
  simp only [nf_q2w, nf_w2q]
  have e : (1 : ℝ) - w / (1 + w) = 1 / (1 + w) := by field_simp; ring
  rw [e]; field_simp

/-- q → w → q -/
theorem C09_inverse_qw (q : ℝ) (hq : q ≠ 1) :
    mixing_ratio2specific_humidity (specific_humidity2mixing_ratio q) = q := by
  have h1 : (1 : ℝ) - q ≠ 0 := sub_ne_zero.mpr (Ne.symm hq)
  simp only [nf_q2w, nf_w2q]
  have e : (1 : ℝ) + q / (1 - q) = 1 / (1 - q) := by field_simp; ring
  rw [e]; field_simp

/-! ## Every two-step route equals the direct one -/

/-- x → w → q = x → q -/
theorem C09_commute_xwq (x : ℝ) (hx0 : 0 ≤ x) (hx : x < 1) :
    mixing_ratio2specific_humidity (vmr2mixing_ratio x) = vmr2specific_humidity x := by
  have := hMd; have := hMw
  have h1 : 0 < 1 - x := by linarith
  simp only [nf_w2q, nf_x2w, nf_x2q]
  have h2 : (1 : ℝ) + x / (1 - x) * Mw / Md ≠ 0 := by positivity
  have h3 : (1 - x) * Md / Mw + x ≠ 0 := by positivity
  have h4 : (1 - x) * Md + x * Mw ≠ 0 := by positivity
  field_simp <;> ring

/-- x → q → w = x → w -/
theorem C09_commute_xqw (x : ℝ) (hx0 : 0 ≤ x) (hx : x < 1) :
    specific_humidity2mixing_ratio (vmr2specific_humidity x) = vmr2mixing_ratio x := by
  rw [← C09_commute_xwq x hx0 hx]
  apply C09_inverse_wq
  have := hMd; have := hMw
  have h1 : 0 < 1 - x := by linarith
  have : 0 ≤ vmr2mixing_ratio x := by simp only [nf_x2w]; positivity
  linarith

/-- w → x → q = w → q -/
theorem C09_commute_wxq (w : ℝ) (hw : 0 ≤ w) :
    vmr2specific_humidity (mixing_ratio2vmr w) = mixing_ratio2specific_humidity w := by
  have := hMd; have := hMw
  have hx0 : 0 ≤ mixing_ratio2vmr w := by simp only [nf_w2x]; positivity
  have hx1 : mixing_ratio2vmr w < 1 := by
    simp only [nf_w2x]
    rw [div_lt_one (by positivity)]
    have : 0 < Mw / Md := by positivity
    linarith
  rw [← C09_commute_xwq _ hx0 hx1, C09_inverse_wx w hw]

/-- w → q → x = w → x -/
theorem C09_commute_wqx (w : ℝ) (hw : 0 ≤ w) :
    specific_humidity2vmr (mixing_ratio2specific_humidity w) = mixing_ratio2vmr w := by
  have := hMd; have := hMw
  have hx0 : 0 ≤ mixing_ratio2vmr w := by simp only [nf_w2x]; positivity
  have hx1 : mixing_ratio2vmr w < 1 := by
    simp only [nf_w2x]
    rw [div_lt_one (by positivity)]
    have : 0 < Mw / Md := by positivity
    linarith
  rw [← C09_commute_wxq w hw, C09_inverse_xq _ hx0 hx1]

/-- q → x → w = q → w -/
theorem C09_commute_qxw (q : ℝ) (hq0 : 0 ≤ q) (hq : q < 1) :
    vmr2mixing_ratio (specific_humidity2vmr q) = specific_humidity2mixing_ratio q := by
  have h1 : 0 < 1 - q := by linarith
  have hw : 0 ≤ specific_humidity2mixing_ratio q := by
    simp only [nf_q2w]; positivity
  have := C09_commute_wqx _ hw
  rw [C09_inverse_qw q (ne_of_lt hq)] at this
  rw [this, C09_inverse_wx _ hw]

/-- q → w → x = q → x -/
theorem C09_commute_qwx (q : ℝ) (hq0 : 0 ≤ q) (hq : q < 1) :
    mixing_ratio2vmr (specific_humidity2mixing_ratio q) = specific_humidity2vmr q := by
  have h1 : 0 < 1 - q := by linarith
  have hw : 0 ≤ specific_humidity2mixing_ratio q := by
    simp only [nf_q2w]; positivity
  have := C09_commute_wqx _ hw
  rw [C09_inverse_qw q (ne_of_lt hq)] at this
  exact this.symm

/-! ## 0 ↦ 0, ranges, monotonicity on the physical domain -/

theorem C09_zero :
    vmr2mixing_ratio 0 = 0 ∧ vmr2specific_humidity 0 = 0 ∧ mixing_ratio2vmr 0 = 0 ∧
    mixing_ratio2specific_humidity 0 = 0 ∧ specific_humidity2vmr 0 = 0 ∧
    specific_humidity2mixing_ratio 0 = 0 := by
  simp [nf_x2w, nf_x2q, nf_w2x, nf_w2q, nf_q2x, nf_q2w]

/-- values stay inside the next converter's domain -/
theorem C09_range (x w q : ℝ) (hx0 : 0 ≤ x) (hx : x < 1) (hw : 0 ≤ w) (hq0 : 0 ≤ q) (hq : q < 1) :
    0 ≤ vmr2mixing_ratio x ∧
    (0 ≤ vmr2specific_humidity x ∧ vmr2specific_humidity x < 1) ∧
    (0 ≤ mixing_ratio2vmr w ∧ mixing_ratio2vmr w < 1) ∧
    (0 ≤ mixing_ratio2specific_humidity w ∧ mixing_ratio2specific_humidity w < 1) ∧
    (0 ≤ specific_humidity2vmr q ∧ specific_humidity2vmr q < 1) ∧
    0 ≤ specific_humidity2mixing_ratio q := by
  have := hMd; have := hMw
  have h1 : 0 < 1 - x := by linarith
  have h2 : 0 < 1 - q := by linarith
  have hε : 0 < Mw / Md := by positivity
  refine ⟨?_, ⟨?_, ?_⟩, ⟨?_, ?_⟩, ⟨?_, ?_⟩, ⟨?_, ?_⟩, ?_⟩
  · simp only [nf_x2w]; positivity
  · simp only [nf_x2q]; positivity
  · simp only [nf_x2q]
    rw [div_lt_one (by positivity)]
    have : 0 < (1 - x) * Md / Mw := by positivity
    linarith
  · simp only [nf_w2x]; positivity
  · simp only [nf_w2x]
    rw [div_lt_one (by positivity)]; linarith
  · simp only [nf_w2q]; positivity
  · simp only [nf_w2q]
    rw [div_lt_one (by positivity)]; linarith
  · simp only [nf_q2x]; positivity
  · simp only [nf_q2x]
    rw [div_lt_one (by positivity)]
    have : 0 < (1 - q) * Mw / Md := by positivity
    linarith
  · simp only [nf_q2w]; positivity

theorem C09_strictMono_vmr2mixing_ratio : StrictMonoOn vmr2mixing_ratio (Set.Ico 0 1) := by
  intro a ha b hb hab
  have := hMd; have := hMw
  have h1 : 0 < 1 - a := by linarith [ha.2]
  have h2 : 0 < 1 - b := by linarith [hb.2]
  simp only [nf_x2w]
  have : a / (1 - a) < b / (1 - b) := by
    rw [div_lt_div_iff₀ h1 h2]; nlinarith
  have hε : 0 < Mw / Md := by positivity
  calc a / (1 - a) * Mw / Md = a / (1 - a) * (Mw / Md) := by ring
    _ < b / (1 - b) * (Mw / Md) := by exact mul_lt_mul_of_pos_right this hε
    _ = b / (1 - b) * Mw / Md := by ring

theorem C09_strictMono_mixing_ratio2specific_humidity :
    StrictMonoOn mixing_ratio2specific_humidity (Set.Ici 0) := by
  intro a ha b hb hab
  have h1 : (0 : ℝ) < 1 + a := by linarith [Set.mem_Ici.mp ha]
  have h2 : (0 : ℝ) < 1 + b := by linarith [Set.mem_Ici.mp hb]
  simp only [nf_w2q]
  rw [div_lt_div_iff₀ h1 h2]; nlinarith

theorem C09_strictMono_mixing_ratio2vmr : StrictMonoOn mixing_ratio2vmr (Set.Ici 0) := by
  intro a ha b hb hab
  have := hMd; have := hMw
  have hε : 0 < Mw / Md := by positivity
  have h1 : (0 : ℝ) < a + Mw / Md := by linarith [Set.mem_Ici.mp ha]
  have h2 : (0 : ℝ) < b + Mw / Md := by linarith [Set.mem_Ici.mp hb]
  simp only [nf_w2x]
  rw [div_lt_div_iff₀ h1 h2]; nlinarith

theorem C09_strictMono_specific_humidity2mixing_ratio :
    StrictMonoOn specific_humidity2mixing_ratio (Set.Ico 0 1) := by
  intro a ha b hb hab
  have h1 : 0 < 1 - a := by linarith [ha.2]
  have h2 : 0 < 1 - b := by linarith [hb.2]
  simp only [nf_q2w]
  rw [div_lt_div_iff₀ h1 h2]; nlinarith

/-- x ↦ q and q ↦ x are compositions of strictly increasing maps (routes commute). -/
theorem C09_strictMono_vmr2specific_humidity : StrictMonoOn vmr2specific_humidity (Set.Ico 0 1) := by
  intro a ha b hb hab
  rw [← C09_commute_xwq a ha.1 ha.2, ← C09_commute_xwq b hb.1 hb.2]
  have h1 : 0 < 1 - a := by linarith [ha.2]
  have h2 : 0 < 1 - b := by linarith [hb.2]
  have := hMd; have := hMw
  apply C09_strictMono_mixing_ratio2specific_humidity
  · simp only [Set.mem_Ici, nf_x2w]; have := ha.1; positivity
  · simp only [Set.mem_Ici, nf_x2w]; have := hb.1; positivity
  · exact C09_strictMono_vmr2mixing_ratio ha hb hab

theorem C09_strictMono_specific_humidity2vmr : StrictMonoOn specific_humidity2vmr (Set.Ico 0 1) := by
  intro a ha b hb hab
  rw [← C09_commute_qwx a ha.1 ha.2, ← C09_commute_qwx b hb.1 hb.2]
  have h1 : 0 < 1 - a := by linarith [ha.2]
  have h2 : 0 < 1 - b := by linarith [hb.2]
  apply C09_strictMono_mixing_ratio2vmr
  · simp only [Set.mem_Ici, nf_q2w]; have := ha.1; positivity
  · simp only [Set.mem_Ici, nf_q2w]; have := hb.1; positivity
  · exact C09_strictMono_specific_humidity2mixing_ratio ha hb hab

/-! ## Saturation pressures -/

/-- both Murphy–Koop formulas are positive (they are exponentials) -/
theorem C09_e_pos (T : ℝ) : 0 < e_eq_ice_mk T ∧ 0 < e_eq_water_mk T := by
  simp only [e_eq_ice_mk, e_eq_water_mk]
  exact ⟨Real.exp_pos _, Real.exp_pos _⟩

/-- non-positive temperatures are exactly the rejected inputs (the guard that raises) -/
theorem C09_T_guard (T : ℝ) :
    (e_eq_ice_mk_rejects T ↔ T ≤ 0) ∧ (e_eq_water_mk_rejects T ↔ T ≤ 0) := by
  simp [e_eq_ice_mk_rejects, e_eq_water_mk_rejects]

/-- `e_eq_ice_mk` is strictly increasing on [100 K, 400 K] (indeed on (0, 400]). -/
theorem C09_e_ice_strictMono : StrictMonoOn e_eq_ice_mk (Set.Icc 100 400) := by
  intro a ha b hb hab
  simp only [e_eq_ice_mk]
  apply Real.exp_lt_exp.mpr
  have ha0 : (0 : ℝ) < a := by linarith [ha.1]
  have hb0 : (0 : ℝ) < b := by linarith [hb.1]
  have hlog : Real.log a < Real.log b := Real.log_lt_log ha0 hab
  -- 1/a - 1/b = (b-a)/(ab) ≥ (b-a)/160000
  have hinv : (b - a) / 160000 ≤ 1 / a - 1 / b := by
    have hab' : a * b ≤ 160000 := by nlinarith [ha.2, hb.2, ha.1, hb.1]
    have e : 1 / a - 1 / b = (b - a) / (a * b) := by field_simp
    rw [e]
    apply div_le_div_of_nonneg_left (by linarith) (by positivity) hab'
  have e1 : (1144653 : ℝ) / 200 / a = 1144653 / 200 * (1 / a) := by ring
  have e2 : (1144653 : ℝ) / 200 / b = 1144653 / 200 * (1 / b) := by ring
  rw [e1, e2]
  nlinarith

/-- below `T_t − 23 K` the mixed-phase value is the ice value, above `T_t` the liquid value,
in between the quadratic blend -/
theorem C09_mixed_branches (T : ℝ) :
    (T < C.triple_point_water - 23 → e_eq_mixed_mk T = e_eq_ice_mk T) ∧
    (T > C.triple_point_water → e_eq_mixed_mk T = e_eq_water_mk T) ∧
    (C.triple_point_water - 23 ≤ T → T ≤ C.triple_point_water →
      e_eq_mixed_mk T = e_eq_ice_mk T +
        (e_eq_water_mk T - e_eq_ice_mk T) * ((T - C.triple_point_water + 23) / 23) ^ 2) := by
  refine ⟨fun h => ?_, fun h => ?_, fun h1 h2 => ?_⟩
  · have h' : ¬ T > C.triple_point_water := by linarith
    simp only [e_eq_mixed_mk, h, h', if_true, if_false]
  · simp only [e_eq_mixed_mk, h, if_true]
  · have h1' : ¬ T < C.triple_point_water - 23 := not_lt.mpr h1
    have h2' : ¬ T > C.triple_point_water := not_lt.mpr h2
    -- `<;> ring`: the blend keeps this normal form when the source spells the square differently
    -- (`w * w`, a named weight, …); on the current source `simp only` already closes the goal
    simp only [e_eq_mixed_mk, h1', h2', if_false] <;> ring

/-- continuity of the mixed-phase formula across both branch temperatures: the blend takes the
ice value at `T_t − 23` and the liquid value at `T_t` -/
theorem C09_mixed_continuous_at_branches :
    e_eq_mixed_mk (C.triple_point_water - 23) = e_eq_ice_mk (C.triple_point_water - 23) ∧
    e_eq_mixed_mk C.triple_point_water = e_eq_water_mk C.triple_point_water := by
  constructor
  · have := (C09_mixed_branches (C.triple_point_water - 23)).2.2 (le_refl _) (by linarith)
    rw [this]; ring_nf
  · have := (C09_mixed_branches C.triple_point_water).2.2 (by linarith) (le_refl _)
    rw [this]
    have : (C.triple_point_water - C.triple_point_water + 23) / 23 = (1 : ℝ) := by
      rw [sub_self]; norm_num
    rw [this]; ring

/-- wherever ice ≤ liquid, the mixed value lies between them -/
theorem C09_mixed_between (T : ℝ) (h : e_eq_ice_mk T ≤ e_eq_water_mk T) :
    e_eq_ice_mk T ≤ e_eq_mixed_mk T ∧ e_eq_mixed_mk T ≤ e_eq_water_mk T := by
  by_cases h1 : T < C.triple_point_water - 23
  · rw [(C09_mixed_branches T).1 h1]; exact ⟨le_refl _, h⟩
  by_cases h2 : T > C.triple_point_water
  · rw [(C09_mixed_branches T).2.1 h2]; exact ⟨h, le_refl _⟩
  rw [(C09_mixed_branches T).2.2 (not_lt.mp h1) (not_lt.mp h2)]
  set s := (T - C.triple_point_water + 23) / 23 with hs
  have hs0 : 0 ≤ s := by rw [hs]; apply div_nonneg <;> linarith [not_lt.mp h1]
  have hs1 : s ≤ 1 := by rw [hs, div_le_one (by norm_num)]; linarith [not_lt.mp h2]
  have hsq : s ^ 2 ≤ 1 := by nlinarith
  have hsq0 : 0 ≤ s ^ 2 := by positivity
  constructor
  · nlinarith
  · nlinarith

private theorem ice_continuousOn : ContinuousOn e_eq_ice_mk (Set.Ioi 0) := by
  have hlog : ContinuousOn Real.log (Set.Ioi (0 : ℝ)) :=
    Real.continuousOn_log.mono (fun x hx => ne_of_gt hx)
  have hinv : ∀ c : ℝ, ContinuousOn (fun T : ℝ => c / T) (Set.Ioi 0) := fun c =>
    continuousOn_const.div continuousOn_id (fun x hx => ne_of_gt hx)
  rw [show e_eq_ice_mk = _ from funext nf_ice]
  apply Real.continuous_exp.comp_continuousOn
  exact (((continuousOn_const.sub (hinv _)).add (continuousOn_const.mul hlog)).sub
    (continuousOn_const.mul continuousOn_id))

private theorem water_continuousOn : ContinuousOn e_eq_water_mk (Set.Ioi 0) := by
  have hlog : ContinuousOn Real.log (Set.Ioi (0 : ℝ)) :=
    Real.continuousOn_log.mono (fun x hx => ne_of_gt hx)
  have hinv : ∀ c : ℝ, ContinuousOn (fun T : ℝ => c / T) (Set.Ioi 0) := fun c =>
    continuousOn_const.div continuousOn_id (fun x hx => ne_of_gt hx)
  rw [show e_eq_water_mk = _ from funext nf_water]
  apply Real.continuous_exp.comp_continuousOn
  have htanh : Continuous (fun T : ℝ => Real.tanh ((83 : ℝ) / 2000 * (T - 1094 / 5))) := by
    have : Continuous Real.tanh := by
      have h : Real.tanh = fun x => Real.sinh x / Real.cosh x := by
        funext x; exact Real.tanh_eq_sinh_div_cosh x
      rw [h]
      exact Real.continuous_sinh.div Real.continuous_cosh (fun x => ne_of_gt (Real.cosh_pos x))
    exact this.comp (continuous_const.mul (continuous_id.sub continuous_const))
  exact ((((continuousOn_const.sub (hinv _)).sub (continuousOn_const.mul hlog)).add
    (continuousOn_const.mul continuousOn_id)).add
    (htanh.continuousOn.mul
      (((continuousOn_const.sub (hinv _)).sub (continuousOn_const.mul hlog)).add
        (continuousOn_const.mul continuousOn_id))))

/-- the blend expression is continuous for positive temperatures -/
theorem C09_mixed_blend_continuousOn :
    ContinuousOn (fun T => e_eq_ice_mk T +
        (e_eq_water_mk T - e_eq_ice_mk T) * ((T - C.triple_point_water + 23) / 23) ^ 2)
      (Set.Ioi 0) :=
  ice_continuousOn.add ((water_continuousOn.sub ice_continuousOn).mul
    (((continuousOn_id.sub continuousOn_const).add continuousOn_const).div_const _ |>.pow 2))

/-- **`e_eq_mixed_mk` itself is continuous for all positive temperatures** — across both branch
temperatures (the three pieces agree there) and in between. -/
theorem C09_mixed_continuousOn : ContinuousOn e_eq_mixed_mk (Set.Ioi 0) := by
  set Tt := C.triple_point_water with hTt
  -- the function as a two-level `if … ≤ …` whose pieces agree on the boundaries
  have hform : ∀ T, e_eq_mixed_mk T =
      if T ≤ Tt - 23 then e_eq_ice_mk T
      else if T ≤ Tt then e_eq_ice_mk T + (e_eq_water_mk T - e_eq_ice_mk T) * ((T - Tt + 23) / 23) ^ 2
      else e_eq_water_mk T := by
    intro T
    by_cases h1 : T ≤ Tt - 23
    · rw [if_pos h1]
      rcases eq_or_lt_of_le h1 with heq | hlt
      · rw [heq]; exact C09_mixed_continuous_at_branches.1
      · exact (C09_mixed_branches T).1 hlt
    · rw [if_neg h1]
      by_cases h2 : T ≤ Tt
      · rw [if_pos h2]
        exact (C09_mixed_branches T).2.2 (not_le.mp h1).le h2
      · rw [if_neg h2]
        exact (C09_mixed_branches T).2.1 (not_le.mp h2)
  rw [continuousOn_iff_continuous_restrict]
  have hI := continuousOn_iff_continuous_restrict.mp ice_continuousOn
  have hW := continuousOn_iff_continuous_restrict.mp water_continuousOn
  have hB := continuousOn_iff_continuous_restrict.mp C09_mixed_blend_continuousOn
  have hval : Continuous (fun x : Set.Ioi (0 : ℝ) => (x : ℝ)) := continuous_subtype_val
  have hinner : Continuous (fun x : Set.Ioi (0 : ℝ) =>
      if (x : ℝ) ≤ Tt then (Set.Ioi (0 : ℝ)).restrict (fun T => e_eq_ice_mk T +
        (e_eq_water_mk T - e_eq_ice_mk T) * ((T - Tt + 23) / 23) ^ 2) x
      else (Set.Ioi (0 : ℝ)).restrict e_eq_water_mk x) := by
    apply Continuous.if_le hB hW hval continuous_const
    intro x hx
    have hx' : (x : ℝ) = Tt := hx
    show e_eq_ice_mk (x : ℝ) + (e_eq_water_mk (x : ℝ) - e_eq_ice_mk (x : ℝ)) * (((x : ℝ) - Tt + 23) / 23) ^ 2
      = e_eq_water_mk (x : ℝ)
    rw [hx']
    have : (Tt - Tt + 23) / 23 = (1 : ℝ) := by rw [sub_self]; norm_num
    rw [this]; ring
  have houter : Continuous (fun x : Set.Ioi (0 : ℝ) =>
      if (x : ℝ) ≤ Tt - 23 then (Set.Ioi (0 : ℝ)).restrict e_eq_ice_mk x
      else (if (x : ℝ) ≤ Tt then (Set.Ioi (0 : ℝ)).restrict (fun T => e_eq_ice_mk T +
        (e_eq_water_mk T - e_eq_ice_mk T) * ((T - Tt + 23) / 23) ^ 2) x
      else (Set.Ioi (0 : ℝ)).restrict e_eq_water_mk x)) := by
    apply Continuous.if_le hI hinner hval continuous_const
    intro x hx
    have hx' : (x : ℝ) = Tt - 23 := hx
    have hle : (x : ℝ) ≤ Tt := by rw [hx']; linarith
    show e_eq_ice_mk (x : ℝ) = if (x : ℝ) ≤ Tt then
        (e_eq_ice_mk (x : ℝ) + (e_eq_water_mk (x : ℝ) - e_eq_ice_mk (x : ℝ)) * (((x : ℝ) - Tt + 23) / 23) ^ 2)
      else e_eq_water_mk (x : ℝ)
    rw [if_pos hle, hx']
    have h0 : (Tt - 23 - Tt + 23) / 23 = (0 : ℝ) := by ring
    rw [h0]; ring
  refine houter.congr ?_
  intro x
  simp only [Set.restrict_apply]
  exact (hform x).symm

/-! ## Relative humidity and the moist-adiabatic lapse rate -/

/-- `relative_humidity2vmr` and `vmr2relative_humidity` are inverse for ANY saturation function
that is non-zero at `T` (and non-zero pressure) -/
theorem C09_rh_vmr_inverse (e_eq : ℝ → ℝ) (p T : ℝ) (hp : p ≠ 0) (he : e_eq T ≠ 0) :
    (∀ RH, vmr2relative_humidity (relative_humidity2vmr RH p T e_eq) p T e_eq = RH) ∧
    (∀ x, relative_humidity2vmr (vmr2relative_humidity x p T e_eq) p T e_eq = x) := by
  constructor
  · intro RH; simp only [vmr2relative_humidity, relative_humidity2vmr]; field_simp
  · intro x; simp only [vmr2relative_humidity, relative_humidity2vmr]; field_simp

/-- The moist-adiabatic lapse rate lies strictly between 0 and the dry-adiabatic `g/cp`
whenever the saturation mixing ratio is positive (0 < e_s < p) and `0 < T ≤ 400 K`
(the upper bound holds up to `Lv·Rd/(cp·Rv)` ≈ 1550 K). -/
theorem C09_lapse_bounds (e_eq : ℝ → ℝ) (p T : ℝ) (hT : 0 < T) (hT4 : T ≤ 400)
    (he : 0 < e_eq T) (hep : e_eq T < p) :
    0 < moist_lapse_rate p T e_eq ∧
    moist_lapse_rate p T e_eq < C.earth_standard_gravity / C.isobaric_mass_heat_capacity := by
  have hg := C.earth_standard_gravity_pos
  have hL := C.heat_of_vaporization_pos
  have hRd := C.gas_constant_dry_air_pos
  have hRv := C.gas_constant_water_vapor_pos
  have hCp := C.isobaric_mass_heat_capacity_pos
  have := hMd; have := hMw
  have hp : 0 < p := lt_trans he hep
  have hx0 : 0 < e_eq T / p := div_pos he hp
  have hx1 : e_eq T / p < 1 := (div_lt_one hp).mpr hep
  have hw : 0 < vmr2mixing_ratio (e_eq T / p) := by
    have h1 : 0 < 1 - e_eq T / p := by linarith
    simp only [nf_x2w]; positivity
  simp only [nf_lapse]
  set w := vmr2mixing_ratio (e_eq T / p) with hwdef
  set g := C.earth_standard_gravity
  set Lv := C.heat_of_vaporization
  set Rd := C.gas_constant_dry_air
  set Rv := C.gas_constant_water_vapor
  set Cp := C.isobaric_mass_heat_capacity
  have hA : 0 < Lv * w / (Rd * T) := by positivity
  have hB : 0 < Lv ^ 2 * w / (Cp * Rv * T ^ 2) := by positivity
  constructor
  · positivity
  · have hkey : Lv * w / (Rd * T) < Lv ^ 2 * w / (Cp * Rv * T ^ 2) := by
      rw [div_lt_div_iff₀ (by positivity) (by positivity)]
      -- Cp * Rv * T < Lv * Rd
      have hnum : Cp * Rv * T < Lv * Rd := by
        have h1 : Cp * Rv * T ≤ Cp * Rv * 400 := by
          apply mul_le_mul_of_nonneg_left hT4; positivity
        have h2 : Cp * Rv * 400 < Lv * Rd := by
          simp only [Cp, Rv, Lv, Rd, C.isobaric_mass_heat_capacity, C.gas_constant_water_vapor,
            C.heat_of_vaporization, C.gas_constant_dry_air]
          norm_num
        linarith
      have hpos : 0 < Lv * w * T := by positivity
      nlinarith [mul_lt_mul_of_pos_left hnum hpos]
    have hfrac : (1 + Lv * w / (Rd * T)) / (1 + Lv ^ 2 * w / (Cp * Rv * T ^ 2)) < 1 := by
      rw [div_lt_one (by positivity)]; linarith
    have hγ : 0 < g / Cp := by positivity
    calc g / Cp * ((1 + Lv * w / (Rd * T)) / (1 + Lv ^ 2 * w / (Cp * Rv * T ^ 2)))
        < g / Cp * 1 := mul_lt_mul_of_pos_left hfrac hγ
      _ = g / Cp := mul_one _

/-- … and it approaches the dry-adiabatic value as the saturation mixing ratio vanishes
(here: as the pressure grows without bound at fixed temperature, `e_s/p → 0`). -/
theorem C09_lapse_dry_limit (e_eq : ℝ → ℝ) (T : ℝ) (_hT : 0 < T) :
    Filter.Tendsto (fun p => moist_lapse_rate p T e_eq) Filter.atTop
      (nhds (C.earth_standard_gravity / C.isobaric_mass_heat_capacity)) := by
  have hRd := C.gas_constant_dry_air_pos
  have hRv := C.gas_constant_water_vapor_pos
  have hCp := C.isobaric_mass_heat_capacity_pos
  have := hMd; have := hMw
  simp only [nf_lapse]
  -- e/p → 0
  have h0 : Filter.Tendsto (fun p : ℝ => e_eq T / p) Filter.atTop (nhds 0) :=
    Filter.Tendsto.div_atTop tendsto_const_nhds Filter.tendsto_id
  -- w(x) = x/(1-x) * Mw/Md → 0
  have hw : Filter.Tendsto (fun p : ℝ => vmr2mixing_ratio (e_eq T / p)) Filter.atTop (nhds 0) := by
    simp only [nf_x2w]
    have h1 : Filter.Tendsto (fun p : ℝ => 1 - e_eq T / p) Filter.atTop (nhds (1 - 0)) :=
      tendsto_const_nhds.sub h0
    have h2 := (h0.div h1 (by norm_num)).mul_const Mw |>.div_const Md
    simpa using h2
  have hnum : Filter.Tendsto (fun p : ℝ => 1 + C.heat_of_vaporization *
      vmr2mixing_ratio (e_eq T / p) / (C.gas_constant_dry_air * T)) Filter.atTop (nhds (1 + C.heat_of_vaporization * 0 / (C.gas_constant_dry_air * T))) :=
    tendsto_const_nhds.add ((tendsto_const_nhds.mul hw).div_const _)
  have hden : Filter.Tendsto (fun p : ℝ => 1 + C.heat_of_vaporization ^ 2 *
      vmr2mixing_ratio (e_eq T / p) / (C.isobaric_mass_heat_capacity * C.gas_constant_water_vapor * T ^ 2))
      Filter.atTop (nhds (1 + C.heat_of_vaporization ^ 2 * 0 /
        (C.isobaric_mass_heat_capacity * C.gas_constant_water_vapor * T ^ 2))) :=
    tendsto_const_nhds.add ((tendsto_const_nhds.mul hw).div_const _)
  have := (hnum.div hden (by norm_num)).const_mul
    (C.earth_standard_gravity / C.isobaric_mass_heat_capacity)
  simpa using this

/-! ## Saturation-pressure inequalities

Strict monotonicity of `e_eq_water_mk` on [100 K, 400 K], `ice ≤ liquid` below the triple point
(literally up to `T_t − 10 µK`; to 1e-6 relative up to `T_t`, where the Murphy–Koop formulas
cross: `e_w(T_t) < e_i(T_t)`), the 1e-6 agreement at `T_t` and the unconditional forms of
`C09_mixed_between` are proved in `Proofs/Props/C09Sat.lean` (lemmas: `Proofs/Lemmas/Saturation.lean`).
-/

/-! ## Non-vacuity: the hypotheses are satisfiable at physically typical values -/

example : (0 : ℝ) ≤ 0.02 ∧ (0.02 : ℝ) < 1 := by norm_num
example : ∃ T : ℝ, T ∈ Set.Icc (100 : ℝ) 400 := ⟨250, by norm_num⟩
example : ∃ (e_eq : ℝ → ℝ) (p T : ℝ), 0 < T ∧ T ≤ 400 ∧ 0 < e_eq T ∧ e_eq T < p :=
  ⟨fun _ => 1000, 100000, 280, by norm_num, by norm_num, by norm_num, by norm_num⟩
example : C.triple_point_water - 23 ≤ 260 ∧ (260 : ℝ) ≤ C.triple_point_water := by
  unfold C.triple_point_water; constructor <;> norm_num

assert_axioms C09_inverse_xw C09_inverse_wx C09_inverse_xq C09_inverse_qx C09_inverse_wq
  C09_inverse_qw C09_commute_xwq C09_commute_xqw C09_commute_wxq C09_commute_wqx C09_commute_qxw
  C09_commute_qwx C09_zero C09_range C09_strictMono_vmr2mixing_ratio
  C09_strictMono_mixing_ratio2specific_humidity C09_strictMono_mixing_ratio2vmr
  C09_strictMono_specific_humidity2mixing_ratio C09_strictMono_vmr2specific_humidity
  C09_strictMono_specific_humidity2vmr C09_e_pos C09_T_guard C09_e_ice_strictMono
  C09_mixed_branches C09_mixed_continuous_at_branches C09_mixed_between
  C09_mixed_blend_continuousOn C09_mixed_continuousOn C09_rh_vmr_inverse C09_lapse_bounds C09_lapse_dry_limit
