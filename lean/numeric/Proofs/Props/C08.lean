import GenReal.Em
import Proofs.Lemmas.Consts
import Proofs.Audit
import Mathlib.Tactic
import Mathlib.Analysis.SpecialFunctions.Exp
import Mathlib.Analysis.SpecialFunctions.Log.Basic
import Mathlib.Analysis.SpecialFunctions.ExpDeriv
import Mathlib.Analysis.SpecialFunctions.Trigonometric.Inverse
import Mathlib.Analysis.SpecialFunctions.Trigonometric.Arctan

/-!
# C08 — Planck radiance, brightness temperature and spectral units are consistent

Theorems about `TR.*`, the real-number reading of `typhon/physics/em.py` regenerated from
/repo by `tools/py2lean` on every run.
-/

open TR

local notation "hP" => C.planck
local notation "kB" => C.boltzmann
local notation "c₀" => C.speed_of_light

private theorem hh : (0 : ℝ) < hP := C.planck_pos
private theorem hk : (0 : ℝ) < kB := C.boltzmann_pos
private theorem hc : (0 : ℝ) < c₀ := C.speed_of_light_pos

/-! ## Normal forms (one per translated function, proved by `ring`-like normalisation) -/

private theorem nf_planck (f T : ℝ) :
    planck f T = 2 * hP * f ^ 3 / (c₀ ^ 2 * (Real.exp (hP * f / (kB * T)) - 1)) := by
  simp only [planck] <;> ring_nf
private theorem nf_planck_wl (l T : ℝ) :
    planck_wavelength l T = 2 * hP * c₀ ^ 2 / (l ^ 5 * (Real.exp (hP * c₀ / (l * kB * T)) - 1)) := by
  simp only [planck_wavelength] <;> ring_nf
private theorem nf_planck_wn (n T : ℝ) :
    planck_wavenumber n T = 2 * hP * c₀ ^ 2 * n ^ 3 / (Real.exp (hP * c₀ * n / (kB * T)) - 1) := by
  simp only [planck_wavenumber] <;> ring_nf
private theorem nf_rj (f T : ℝ) : rayleighjeans f T = 2 * f ^ 2 * kB * T / c₀ ^ 2 := by
  simp only [rayleighjeans] <;> ring_nf
private theorem nf_planckTb (f r : ℝ) :
    radiance2planckTb f r = hP / kB * f / Real.log (2 * hP / c₀ ^ 2 * f ^ 3 / r + 1) := by
  simp only [radiance2planckTb] <;> ring_nf
private theorem nf_rjTb (f r : ℝ) :
    radiance2rayleighjeansTb f r = c₀ ^ 2 / (2 * f ^ 2 * kB) * r := by
  simp only [radiance2rayleighjeansTb] <;> ring_nf

/-- `x = h f / (k T)` is positive for positive `f`, `T`. -/
private theorem x_pos {f T : ℝ} (hf : 0 < f) (hT : 0 < T) : 0 < hP * f / (kB * T) := by
  have := hh; have := hk; positivity

private theorem expm1_pos {x : ℝ} (hx : 0 < x) : 0 < Real.exp x - 1 := by
  have := Real.add_one_lt_exp (ne_of_gt hx); linarith

/-! ## Planck function -/

/-- planck is positive -/
theorem C08_planck_pos (f T : ℝ) (hf : 0 < f) (hT : 0 < T) : 0 < planck f T := by
  rw [nf_planck]
  have := hh; have := hc
  have := expm1_pos (x_pos hf hT)
  positivity

/-- `radiance2planckTb f (planck f T) = T` -/
theorem C08_planckTb_inverse (f T : ℝ) (hf : 0 < f) (hT : 0 < T) :
    radiance2planckTb f (planck f T) = T := by
  rw [nf_planckTb, nf_planck]
  have := hh; have := hk; have := hc
  have hx := x_pos hf hT
  have he := expm1_pos hx
  have harg : 2 * hP / c₀ ^ 2 * f ^ 3 /
      (2 * hP * f ^ 3 / (c₀ ^ 2 * (Real.exp (hP * f / (kB * T)) - 1))) + 1
      = Real.exp (hP * f / (kB * T)) := by
    field_simp
    ring
  rw [harg, Real.log_exp]
  field_simp

/-- `radiance2rayleighjeansTb` inverts `rayleighjeans` -/
theorem C08_rjTb_inverse (f T : ℝ) (hf : 0 < f) :
    radiance2rayleighjeansTb f (rayleighjeans f T) = T := by
  rw [nf_rjTb, nf_rj]
  have := hk; have := hc
  field_simp

/-- planck increases strictly with temperature -/
theorem C08_planck_strictMono_T (f : ℝ) (hf : 0 < f) :
    StrictMonoOn (fun T => planck f T) (Set.Ioi 0) := by
  intro T1 h1 T2 h2 h12
  simp only [nf_planck]
  have := hh; have := hk; have := hc
  have hT1 : (0 : ℝ) < T1 := h1
  have hT2 : (0 : ℝ) < T2 := h2
  have hx : hP * f / (kB * T2) < hP * f / (kB * T1) := by
    apply div_lt_div_of_pos_left (by positivity) (by positivity)
    exact mul_lt_mul_of_pos_left h12 hk
  have he : Real.exp (hP * f / (kB * T2)) - 1 < Real.exp (hP * f / (kB * T1)) - 1 := by
    have := Real.exp_lt_exp.mpr hx; linarith
  have hp2 := expm1_pos (x_pos hf hT2)
  apply div_lt_div_of_pos_left (by positivity) (by positivity)
  exact mul_lt_mul_of_pos_left he (by positivity)

/-- planck never exceeds the Rayleigh–Jeans value -/
theorem C08_planck_le_rj (f T : ℝ) (hf : 0 < f) (hT : 0 < T) : planck f T ≤ rayleighjeans f T := by
  rw [nf_planck, nf_rj]
  have := hh; have := hk; have := hc
  have hx := x_pos hf hT
  have he := expm1_pos hx
  have hle : hP * f / (kB * T) ≤ Real.exp (hP * f / (kB * T)) - 1 := by
    have := Real.add_one_le_exp (hP * f / (kB * T)); linarith
  rw [div_le_div_iff₀ (by positivity) (by positivity)]
  -- 2 h f^3 c^2 ≤ 2 f^2 k T c^2 (e^x - 1)   ⇐   h f ≤ k T (e^x - 1)
  have h1 : hP * f ≤ kB * T * (Real.exp (hP * f / (kB * T)) - 1) := by
    have hkT : 0 < kB * T := by positivity
    calc hP * f = kB * T * (hP * f / (kB * T)) := by field_simp
      _ ≤ kB * T * (Real.exp (hP * f / (kB * T)) - 1) := mul_le_mul_of_nonneg_left hle hkT.le
  have h2 : 0 ≤ 2 * f ^ 2 * c₀ ^ 2 := by positivity
  nlinarith [mul_le_mul_of_nonneg_left h1 h2]

/-- the ratio planck / Rayleigh–Jeans is `x / (eˣ − 1)` with `x = h f / k T` … -/
theorem C08_planck_rj_ratio (f T : ℝ) (hf : 0 < f) (hT : 0 < T) :
    planck f T / rayleighjeans f T
      = (hP * f / (kB * T)) / (Real.exp (hP * f / (kB * T)) - 1) := by
  rw [nf_planck, nf_rj]
  have := hh; have := hk; have := hc
  have he := expm1_pos (x_pos hf hT)
  field_simp

/-- … which tends to 1 as `x → 0⁺` (here: `T → ∞` at fixed frequency): planck approaches the
Rayleigh–Jeans law as `h f / k T → 0`. -/
theorem C08_planck_rj_limit (f : ℝ) (hf : 0 < f) :
    Filter.Tendsto (fun T => planck f T / rayleighjeans f T) Filter.atTop (nhds 1) := by
  have := hh; have := hk
  -- x(T) → 0 within x ≠ 0
  have hx0 : Filter.Tendsto (fun T : ℝ => hP * f / (kB * T)) Filter.atTop (nhds 0) := by
    apply Filter.Tendsto.div_atTop tendsto_const_nhds
    exact Filter.Tendsto.const_mul_atTop hk Filter.tendsto_id
  have hxne : ∀ᶠ T : ℝ in Filter.atTop, hP * f / (kB * T) ∈ ({0}ᶜ : Set ℝ) := by
    filter_upwards [Filter.eventually_gt_atTop (0 : ℝ)] with T hT
    exact ne_of_gt (x_pos hf hT)
  have hx : Filter.Tendsto (fun T : ℝ => hP * f / (kB * T)) Filter.atTop (nhdsWithin 0 {0}ᶜ) :=
    tendsto_nhdsWithin_iff.mpr ⟨hx0, hxne⟩
  -- slope of exp at 0 tends to 1
  have hslope : Filter.Tendsto (fun x : ℝ => (Real.exp x - 1) / x) (nhdsWithin 0 {0}ᶜ) (nhds 1) := by
    have h := (Real.hasDerivAt_exp 0).tendsto_slope
    simp only [Real.exp_zero] at h
    refine h.congr' ?_
    filter_upwards [self_mem_nhdsWithin] with x _
    simp [slope, div_eq_inv_mul]
  have hinv : Filter.Tendsto (fun x : ℝ => x / (Real.exp x - 1)) (nhdsWithin 0 {0}ᶜ) (nhds 1) := by
    have := hslope.inv₀ (by norm_num : (1 : ℝ) ≠ 0)
    simpa [inv_div] using this
  have hcomp := hinv.comp hx
  refine hcomp.congr' ?_
  filter_upwards [Filter.eventually_gt_atTop (0 : ℝ)] with T hT
  simp only [Function.comp]
  exact (C08_planck_rj_ratio f T hf hT).symm

/-! ## The wavelength and wavenumber forms describe the same spectrum -/

theorem C08_wavelength_form (f T : ℝ) (hf : 0 < f) (hT : 0 < T) :
    planck_wavelength (c₀ / f) T = planck f T * f ^ 2 / c₀ := by
  rw [nf_planck_wl, nf_planck]
  have := hh; have := hk; have := hc
  have hx : hP * c₀ / (c₀ / f * kB * T) = hP * f / (kB * T) := by field_simp
  rw [hx]
  have he := expm1_pos (x_pos hf hT)
  field_simp

theorem C08_wavenumber_form (f T : ℝ) (hf : 0 < f) (hT : 0 < T) :
    planck_wavenumber (f / c₀) T = c₀ * planck f T := by
  rw [nf_planck_wn, nf_planck]
  have := hh; have := hk; have := hc
  have hx : hP * c₀ * (f / c₀) / (kB * T) = hP * f / (kB * T) := by field_simp
  rw [hx]
  have he := expm1_pos (x_pos hf hT)
  field_simp

/-! ## Frequency / wavelength / wavenumber converters are mutually inverse -/

theorem C08_unit_converters_inverse (v : ℝ) (hv : v ≠ 0) :
    frequency2wavelength (wavelength2frequency v) = v ∧
    wavelength2frequency (frequency2wavelength v) = v ∧
    frequency2wavenumber (wavenumber2frequency v) = v ∧
    wavenumber2frequency (frequency2wavenumber v) = v ∧
    wavelength2wavenumber (wavenumber2wavelength v) = v ∧
    wavenumber2wavelength (wavelength2wavenumber v) = v := by
  have := hc
  simp only [frequency2wavelength, wavelength2frequency, frequency2wavenumber,
    wavenumber2frequency, wavelength2wavenumber, wavenumber2wavelength]
  refine ⟨?_, ?_, ?_, ?_, ?_, ?_⟩ <;> field_simp

/-- the three descriptions are consistent with each other: λ = c/f, ν̃ = f/c = 1/λ -/
theorem C08_unit_converters_consistent (f : ℝ) (hf : f ≠ 0) :
    wavelength2wavenumber (frequency2wavelength f) = frequency2wavenumber f ∧
    wavenumber2wavelength (frequency2wavenumber f) = frequency2wavelength f := by
  have := hc
  simp only [frequency2wavelength, frequency2wavenumber, wavelength2wavenumber,
    wavenumber2wavelength]
  constructor <;> field_simp

/-! ## Spectral-density converters (pointwise part; the grid reversal is `List.reverse`) -/

/-- per-frequency ↔ per-wavelength are inverse to each other, point by point -/
theorem C08_density_wavelength_inverse (p g : ℝ) (hg : g ≠ 0) :
    (perwavelength2perfrequency (perfrequency2perwavelength p g).1
        (perfrequency2perwavelength p g).2 = (p, g)) ∧
    (perfrequency2perwavelength (perwavelength2perfrequency p g).1
        (perwavelength2perfrequency p g).2 = (p, g)) := by
  have := hc
  simp only [perwavelength2perfrequency, perfrequency2perwavelength, frequency2wavelength,
    wavelength2frequency, Prod.mk.injEq]
  refine ⟨⟨?_, ?_⟩, ⟨?_, ?_⟩⟩ <;> field_simp

/-- per-frequency ↔ per-wavenumber are inverse to each other, point by point -/
theorem C08_density_wavenumber_inverse (p g : ℝ) :
    (perwavenumber2perfrequency (perfrequency2perwavenumber p g).1
        (perfrequency2perwavenumber p g).2 = (p, g)) ∧
    (perfrequency2perwavenumber (perwavenumber2perfrequency p g).1
        (perwavenumber2perfrequency p g).2 = (p, g)) := by
  have := hc
  simp only [perwavenumber2perfrequency, perfrequency2perwavenumber, frequency2wavenumber,
    wavenumber2frequency, Prod.mk.injEq]
  refine ⟨⟨?_, ?_⟩, ⟨?_, ?_⟩⟩ <;> field_simp

/-- the converters map one Planck form onto the other: converting the per-frequency Planck
spectrum gives the per-wavelength / per-wavenumber Planck function on the converted grid -/
theorem C08_density_maps_planck (f T : ℝ) (hf : 0 < f) (hT : 0 < T) :
    perfrequency2perwavelength (planck f T) f = (planck_wavelength (c₀ / f) T, c₀ / f) ∧
    perfrequency2perwavenumber (planck f T) f = (planck_wavenumber (f / c₀) T, f / c₀) := by
  rw [C08_wavelength_form f T hf hT, C08_wavenumber_form f T hf hT]
  constructor
  · apply Prod.ext
    · simp only [perfrequency2perwavelength] <;> ring
    · simp only [perfrequency2perwavelength, frequency2wavelength]
  · apply Prod.ext
    · simp only [perfrequency2perwavenumber] <;> ring
    · simp only [perfrequency2perwavenumber, frequency2wavenumber]

-- (the `[::-1]` reversal of the grids is array glue: exercised by the harness on real arrays)

/-! ## Snell and Fresnel (real refractive indices) -/

private theorem deg_rad (z : ℝ) : z * (180 / Real.pi) * (Real.pi / 180) = z := by
  have := Real.pi_pos; field_simp

/-- Snell's law `n₁ sin θ₁ = n₂ sin θ₂` whenever there is no total reflection -/
theorem C08_snell_law (n1 n2 θ1 : ℝ) (hn2 : 0 < n2)
    (h : |n1 * Real.sin (θ1 * (Real.pi / 180))| ≤ n2) :
    n2 * Real.sin (snell n1 n2 θ1 * (Real.pi / 180)) = n1 * Real.sin (θ1 * (Real.pi / 180)) := by
  simp only [snell]
  rw [deg_rad]
  have hb := abs_le.mp h
  have h1 : -1 ≤ n1 * Real.sin (θ1 * (Real.pi / 180)) / n2 := by
    rw [le_div_iff₀ hn2]; linarith [hb.1]
  have h2 : n1 * Real.sin (θ1 * (Real.pi / 180)) / n2 ≤ 1 := by
    rw [div_le_iff₀ hn2]; linarith [hb.2]
  rw [Real.sin_arcsin h1 h2]
  field_simp

/-- non-positive indices are the rejected inputs -/
theorem C08_snell_guard (n1 n2 θ1 : ℝ) : snell_rejects n1 n2 θ1 ↔ (n1 ≤ 0 ∨ n2 ≤ 0) := by
  simp [snell_rejects]

/-- the cosine of the refraction angle is non-negative -/
private theorem cos_snell_nonneg (n1 n2 θ1 : ℝ) :
    0 ≤ Real.cos (snell n1 n2 θ1 * (Real.pi / 180)) := by
  simp only [snell]
  rw [deg_rad]
  exact Real.cos_arcsin_nonneg _

/-- |Rv|, |Rh| ≤ 1 for real positive indices, incidence angles in [0°, 90°) and no total
reflection (`n₁ sin θ₁ ≤ n₂`; beyond it the real code returns NaN).  Under these guards both
denominators are strictly positive, so no `x / 0 = 0` is involved. -/
theorem C08_fresnel_le_one (n1 n2 θ1 : ℝ) (hn1 : 0 < n1) (hn2 : 0 < n2)
    (hθ0 : 0 ≤ θ1) (hθ1 : θ1 < 90)
    (_hnt : n1 * Real.sin (θ1 * (Real.pi / 180)) ≤ n2) :
    |(fresnel n1 n2 θ1).1| ≤ 1 ∧ |(fresnel n1 n2 θ1).2| ≤ 1 ∧
    0 < n2 * Real.cos (θ1 * (Real.pi / 180)) + n1 * Real.cos (snell n1 n2 θ1 * (Real.pi / 180)) ∧
    0 < n1 * Real.cos (θ1 * (Real.pi / 180)) + n2 * Real.cos (snell n1 n2 θ1 * (Real.pi / 180)) := by
  have hc1 : 0 < Real.cos (θ1 * (Real.pi / 180)) := by
    apply Real.cos_pos_of_mem_Ioo
    constructor
    · have := Real.pi_pos; nlinarith
    · have := Real.pi_pos; nlinarith
  have hc2 := cos_snell_nonneg n1 n2 θ1
  simp only [fresnel]
  set a := Real.cos (θ1 * (Real.pi / 180))
  set b := Real.cos (snell n1 n2 θ1 * (Real.pi / 180))
  have key : ∀ u v : ℝ, 0 ≤ u → 0 ≤ v → 0 < u + v → |(u - v) / (u + v)| ≤ 1 := by
    intro u v hu hv hpos
    rw [abs_div, abs_of_pos hpos, div_le_one hpos, abs_le]
    constructor <;> linarith
  have hd1 : 0 < n2 * a + n1 * b := by positivity
  have hd2 : 0 < n1 * a + n2 * b := by positivity
  exact ⟨key _ _ (by positivity) (by positivity) hd1, key _ _ (by positivity) (by positivity) hd2,
    hd1, hd2⟩

/-- at normal incidence |Rv| = |Rh| (positive indices: the common denominator is non-zero) -/
theorem C08_fresnel_normal (n1 n2 : ℝ) (hn1 : 0 < n1) (hn2 : 0 < n2) :
    |(fresnel n1 n2 0).1| = |(fresnel n1 n2 0).2| ∧ n1 + n2 ≠ 0 := by
  refine ⟨?_, by positivity⟩
  simp only [fresnel, snell, zero_mul, Real.sin_zero, mul_zero, zero_div, Real.arcsin_zero,
    Real.cos_zero, mul_one]
  rw [show (n1 - n2) / (n1 + n2) = -((n2 - n1) / (n2 + n1)) by
    rw [add_comm n1 n2, ← neg_div]; ring_nf, abs_neg]

/-- at the Brewster angle `θ_B = arctan(n₂/n₁)` the vertically polarised reflection vanishes -/
theorem C08_brewster (n1 n2 : ℝ) (hn1 : 0 < n1) (hn2 : 0 < n2) :
    (fresnel n1 n2 (Real.arctan (n2 / n1) * (180 / Real.pi))).1 = 0 := by
  simp only [fresnel, snell]
  rw [deg_rad, deg_rad]
  have hs : 0 < 1 + (n2 / n1) ^ 2 := by positivity
  have hsq : 0 < Real.sqrt (1 + (n2 / n1) ^ 2) := Real.sqrt_pos.mpr hs
  rw [Real.sin_arctan, Real.cos_arctan, Real.cos_arcsin]
  set S := Real.sqrt (1 + (n2 / n1) ^ 2) with hSdef
  have hS : S ^ 2 = 1 + (n2 / n1) ^ 2 := Real.sq_sqrt hs.le
  have hSne : S ≠ 0 := ne_of_gt hsq
  -- sin θ₂ = n1 sinθ₁ / n2 = 1/S = cos θ₁ ;  cos θ₂ = √(1 - 1/S²) = (n2/n1)/S
  have hy : n1 * (n2 / n1 / S) / n2 = 1 / S := by field_simp
  rw [hy]
  have h1 : 1 - (1 / S) ^ 2 = ((n2 / n1) / S) ^ 2 := by
    rw [div_pow (1 : ℝ) S, div_pow (n2 / n1) S, hS]
    field_simp
    ring
  rw [h1, Real.sqrt_sq (by positivity)]
  rw [div_eq_zero_iff]; left
  field_simp
  ring

/-! ## Not proved (validated numerically only)
* complex refractive index `n₂`: `|R| ≤ 1` — the complex branch of `snell` is not translated
  (real-valued model); `C08_fresnel_le_one` is the real-index part.  NOT PROVED for complex n₂.
* NaN beyond total reflection is floating-point behaviour (harness only).
-/

/-! ## Non-vacuity -/
example : (0 : ℝ) < 1e11 ∧ (0 : ℝ) < 250 := by norm_num
example : |(1 : ℝ) * Real.sin (0 * (Real.pi / 180))| ≤ 1.5 := by simp; norm_num
example : (0 : ℝ) ≤ 45 ∧ (45 : ℝ) < 90 := by norm_num

assert_axioms C08_planck_pos C08_planckTb_inverse C08_rjTb_inverse C08_planck_strictMono_T
  C08_planck_le_rj C08_planck_rj_ratio C08_planck_rj_limit C08_wavelength_form
  C08_wavenumber_form C08_unit_converters_inverse C08_unit_converters_consistent
  C08_density_wavelength_inverse C08_density_wavenumber_inverse C08_density_maps_planck
  C08_snell_law C08_snell_guard C08_fresnel_le_one C08_fresnel_normal
  C08_brewster
