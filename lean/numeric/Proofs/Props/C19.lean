import GenReal.Scores
import Proofs.Audit
import Mathlib.Tactic
import Mathlib.Algebra.BigOperators.Group.List.Basic
import Mathlib.Data.List.Perm.Basic

/-!
# C19 — retrieval scores behave as proper error measures

`TR.mape`, `TR.bias`, `TR.quantile_score`, `TR.mean_quantile_score` are the POINTWISE terms that
`tools/py2lean` regenerates from `typhon/retrieval/scores.py` (the top-level `np.mean` /
`np.nanmean(…, axis=0)` over the samples is recognised by the translator and emitted as the
term).  The sample mean over a NaN-free list is defined here once.
-/

open TR

/-- mean over the samples (`np.mean` / `np.nanmean` on NaN-free data) -/
noncomputable def smean (l : List ℝ) : ℝ := l.sum / l.length

/-- `mape(y_pred, y_test)` for samples given as pairs (prediction, truth) -/
noncomputable def mapeL (l : List (ℝ × ℝ)) : ℝ := smean (l.map fun x => mape x.1 x.2)
/-- `bias(y_pred, y_test)` -/
noncomputable def biasL (l : List (ℝ × ℝ)) : ℝ := smean (l.map fun x => bias x.1 x.2)
/-- `mean_quantile_score` of the constant estimate `c` for fraction `τ` on the sample `ys` -/
noncomputable def mqsConst (c τ : ℝ) (ys : List ℝ) : ℝ :=
  smean (ys.map fun y => mean_quantile_score c y τ)

/-! ## normal forms -/
private theorem nf_qs (e y τ : ℝ) :
    quantile_score e y τ = if e < y then τ * |e - y| else (1 - τ) * |e - y| := by
  first
  | (simp only [quantile_score]; done)
  | (simp only [quantile_score]
     -- a differently written but equivalent branch condition (e.g. `<=`: both branches are 0 at e = y)
     split_ifs <;> first
       | rfl
       | (have h : e = y := le_antisymm (by linarith) (by linarith); subst h; simp)
       | (exfalso; linarith))
private theorem nf_mqs (e y τ : ℝ) : mean_quantile_score e y τ = quantile_score e y τ := by
  simp only [mean_quantile_score]
private theorem nf_mape (p t : ℝ) : mape p t = 100 * |t - p| / |t| := by
  simp only [mape]
private theorem nf_bias (p t : ℝ) : bias p t = 100 * (p - t) / t := by
  simp only [bias]

/-! ## quantile_score is the pinball loss -/

/-- τ·|d| when the estimate is below the observation, (1−τ)·|d| when it is above (or equal) -/
theorem C19_pinball_cases (e y τ : ℝ) :
    (e < y → quantile_score e y τ = τ * (y - e)) ∧
    (y ≤ e → quantile_score e y τ = (1 - τ) * (e - y)) := by
  constructor
  · intro h
    rw [nf_qs, if_pos h, abs_of_neg (by linarith)]; ring
  · intro h
    rw [nf_qs, if_neg (not_lt.mpr h), abs_of_nonneg (by linarith)]

theorem C19_nonneg (e y τ : ℝ) (h0 : 0 ≤ τ) (h1 : τ ≤ 1) : 0 ≤ quantile_score e y τ := by
  rw [nf_qs]
  split_ifs
  · exact mul_nonneg h0 (abs_nonneg _)
  · exact mul_nonneg (by linarith) (abs_nonneg _)

/-- zero exactly when estimate and observation coincide (τ strictly inside (0,1)) -/
theorem C19_zero_iff (e y τ : ℝ) (h0 : 0 < τ) (h1 : τ < 1) : quantile_score e y τ = 0 ↔ e = y := by
  rw [nf_qs]
  constructor
  · intro h
    split_ifs at h with hlt
    · rcases mul_eq_zero.mp h with h' | h'
      · linarith
      · exact sub_eq_zero.mp (abs_eq_zero.mp h')
    · rcases mul_eq_zero.mp h with h' | h'
      · linarith
      · exact sub_eq_zero.mp (abs_eq_zero.mp h')
  · intro h; subst h; simp

/-! ## the minimiser of the mean pinball loss is a τ-quantile -/

/-- moving the constant estimate up from `c` to `c'` changes each point's loss by at least
`(1−τ)(c'−c)` for observations `≤ c` and at least `−τ(c'−c)` for observations `> c` -/
private theorem step_up (c c' y τ : ℝ) (hc : c ≤ c') (h0 : 0 ≤ τ) (h1 : τ ≤ 1) :
    quantile_score c y τ + (if y ≤ c then (1 - τ) * (c' - c) else -τ * (c' - c))
      ≤ quantile_score c' y τ := by
  rw [nf_qs, nf_qs]
  by_cases hy : y ≤ c
  · have h2 : ¬ c < y := not_lt.mpr hy
    have h3 : ¬ c' < y := not_lt.mpr (le_trans hy hc)
    rw [if_pos hy, if_neg h2, if_neg h3, abs_of_nonneg (by linarith), abs_of_nonneg (by linarith)]
    nlinarith
  · have h2 : c < y := not_le.mp hy
    rw [if_neg hy, if_pos h2, abs_of_neg (by linarith)]
    by_cases h3 : c' < y
    · rw [if_pos h3, abs_of_neg (by linarith)]; nlinarith
    · rw [if_neg h3, abs_of_nonneg (by linarith [not_lt.mp h3])]
      have : y ≤ c' := not_lt.mp h3
      nlinarith

private theorem step_down (c c' y τ : ℝ) (hc : c' ≤ c) (h0 : 0 ≤ τ) (h1 : τ ≤ 1) :
    quantile_score c y τ + (if y < c then -(1 - τ) * (c - c') else τ * (c - c'))
      ≤ quantile_score c' y τ := by
  rw [nf_qs, nf_qs]
  by_cases hy : y < c
  · have h2 : ¬ c < y := not_lt.mpr hy.le
    rw [if_pos hy, if_neg h2, abs_of_nonneg (by linarith)]
    by_cases h3 : c' < y
    · rw [if_pos h3, abs_of_neg (by linarith)]; nlinarith
    · rw [if_neg h3, abs_of_nonneg (by linarith [not_lt.mp h3])]
      nlinarith
  · have h2 : c ≤ y := not_lt.mp hy
    rw [if_neg hy]
    rcases eq_or_lt_of_le h2 with heq | hlt
    · subst heq
      rw [if_neg (lt_irrefl _), sub_self, abs_zero, mul_zero, zero_add]
      rcases eq_or_lt_of_le hc with h4 | h4
      · subst h4; simp
      · rw [if_pos h4, abs_of_neg (by linarith)]; nlinarith
    · have h3 : c' < y := lt_of_le_of_lt hc hlt
      rw [if_pos hlt, if_pos h3, abs_of_neg (by linarith), abs_of_neg (by linarith)]
      nlinarith

private theorem sum_ite_count (p : ℝ → Prop) [DecidablePred p] (a b : ℝ) (ys : List ℝ) :
    (ys.map fun y => if p y then a else b).sum
      = a * (ys.countP fun y => decide (p y)) + b * (ys.length - ys.countP fun y => decide (p y)) := by
  induction ys with
  | nil => simp
  | cons y ys ih =>
    simp only [List.map_cons, List.sum_cons, List.countP_cons, List.length_cons, ih]
    by_cases h : p y <;> simp [h] <;> ring

private theorem sum_le_sum_of_pointwise (f g : ℝ → ℝ) (ys : List ℝ) (h : ∀ y, f y ≤ g y) :
    (ys.map f).sum ≤ (ys.map g).sum := by
  induction ys with
  | nil => simp
  | cons y ys ih => simp only [List.map_cons, List.sum_cons]; linarith [h y]

/-- **the constant estimate minimising `mean_quantile_score` is a τ-quantile**: if `c`
satisfies `#{y < c} ≤ τ·n ≤ #{y ≤ c}` on the sample then no other constant has a smaller mean
score.  Holds for every finite sample (ties, repeated values, heavy tails) and `τ ∈ [0,1]`. -/
theorem C19_minimiser_is_quantile (ys : List ℝ) (τ c : ℝ) (h0 : 0 ≤ τ) (h1 : τ ≤ 1)
    (hlo : ((ys.countP fun y => decide (y < c)) : ℝ) ≤ τ * ys.length)
    (hhi : τ * ys.length ≤ (ys.countP fun y => decide (y ≤ c))) (c' : ℝ) :
    mqsConst c τ ys ≤ mqsConst c' τ ys := by
  unfold mqsConst smean
  simp only [nf_mqs, List.length_map]
  apply div_le_div_of_nonneg_right _ (Nat.cast_nonneg _)
  rcases le_total c c' with hc | hc
  · -- moving up
    have hpt := sum_le_sum_of_pointwise
      (fun y => quantile_score c y τ + (if y ≤ c then (1 - τ) * (c' - c) else -τ * (c' - c)))
      (fun y => quantile_score c' y τ) ys (fun y => step_up c c' y τ hc h0 h1)
    have hsplit : (ys.map fun y => quantile_score c y τ +
        (if y ≤ c then (1 - τ) * (c' - c) else -τ * (c' - c))).sum
        = (ys.map fun y => quantile_score c y τ).sum
          + (ys.map fun y => if y ≤ c then (1 - τ) * (c' - c) else -τ * (c' - c)).sum := by
      rw [← List.sum_map_add]
    rw [hsplit, sum_ite_count (fun y => y ≤ c)] at hpt
    have hd : 0 ≤ c' - c := by linarith
    set E := ((ys.countP fun y => decide (y ≤ c)) : ℝ)
    set n := (ys.length : ℝ)
    have : 0 ≤ (1 - τ) * (c' - c) * E + -τ * (c' - c) * (n - E) := by
      have : (1 - τ) * (c' - c) * E + -τ * (c' - c) * (n - E) = (c' - c) * (E - τ * n) := by ring
      rw [this]; exact mul_nonneg hd (by linarith)
    linarith
  · -- moving down
    have hpt := sum_le_sum_of_pointwise
      (fun y => quantile_score c y τ + (if y < c then -(1 - τ) * (c - c') else τ * (c - c')))
      (fun y => quantile_score c' y τ) ys (fun y => step_down c c' y τ hc h0 h1)
    have hsplit : (ys.map fun y => quantile_score c y τ +
        (if y < c then -(1 - τ) * (c - c') else τ * (c - c'))).sum
        = (ys.map fun y => quantile_score c y τ).sum
          + (ys.map fun y => if y < c then -(1 - τ) * (c - c') else τ * (c - c')).sum := by
      rw [← List.sum_map_add]
    rw [hsplit, sum_ite_count (fun y => y < c)] at hpt
    have hd : 0 ≤ c - c' := by linarith
    set Lc := ((ys.countP fun y => decide (y < c)) : ℝ)
    set n := (ys.length : ℝ)
    have : 0 ≤ -(1 - τ) * (c - c') * Lc + τ * (c - c') * (n - Lc) := by
      have : -(1 - τ) * (c - c') * Lc + τ * (c - c') * (n - Lc) = (c - c') * (τ * n - Lc) := by ring
      rw [this]; exact mul_nonneg hd (by linarith)
    linarith

/-- exact change of one point's loss when the constant moves from `c` up to `c'` and no
observation lies strictly between them on the side that matters -/
private theorem step_exact_up (c c' y τ : ℝ) (hc : c ≤ c') (hy : y ≤ c ∨ c' ≤ y) :
    quantile_score c' y τ = quantile_score c y τ +
      (if y < c' then (1 - τ) * (c' - c) else -τ * (c' - c)) := by
  rw [nf_qs, nf_qs]
  rcases hy with hy | hy
  · by_cases hyc : y < c'
    · rw [if_pos hyc, if_neg (not_lt.mpr hy), if_neg (not_lt.mpr hyc.le),
        abs_of_nonneg (by linarith), abs_of_nonneg (by linarith)]
      ring
    · -- y ≤ c ≤ c' and ¬ y < c'  ⇒  y = c = c'
      have h1 : c' ≤ y := not_lt.mp hyc
      have : c = c' := le_antisymm hc (le_trans h1 hy)
      subst this
      have : y = c := le_antisymm hy h1
      subst this
      simp
  · have hyc : ¬ y < c' := not_lt.mpr hy
    rw [if_neg hyc]
    rcases eq_or_lt_of_le hy with heq | hlt
    · subst heq
      rcases eq_or_lt_of_le hc with h2 | h2
      · subst h2; simp
      · rw [if_neg (lt_irrefl _), if_pos h2, sub_self, abs_zero, mul_zero,
          abs_of_neg (by linarith)]
        ring
    · have h3 : c < y := lt_of_le_of_lt hc hlt
      rw [if_pos hlt, if_pos h3, abs_of_neg (by linarith), abs_of_neg (by linarith)]
      ring

private theorem sum_add_ite (f : ℝ → ℝ) (p : ℝ → Prop) [DecidablePred p] (a b : ℝ) (ys : List ℝ) :
    (ys.map fun y => f y + (if p y then a else b)).sum
      = (ys.map f).sum + (a * (ys.countP fun y => decide (p y))
          + b * (ys.length - ys.countP fun y => decide (p y))) := by
  rw [List.sum_map_add, sum_ite_count]

/-- **converse: every minimiser of the mean pinball loss is a τ-quantile** — if the constant `c'`
minimises `mean_quantile_score` over all constants on a non-empty sample then
`#{y < c'} ≤ τ·n ≤ #{y ≤ c'}`.  (Otherwise moving `c'` to the neighbouring sample value
strictly decreases the score.) -/
theorem C19_minimiser_is_quantile_converse (ys : List ℝ) (τ c' : ℝ) (hτ0 : 0 ≤ τ) (hne : ys ≠ [])
    (hmin : ∀ c, mqsConst c' τ ys ≤ mqsConst c τ ys) :
    ((ys.countP fun y => decide (y < c')) : ℝ) ≤ τ * ys.length ∧
    τ * ys.length ≤ (ys.countP fun y => decide (y ≤ c')) := by
  have hn : (0 : ℝ) < ys.length := by exact_mod_cast List.length_pos_of_ne_nil hne
  -- minimality in terms of sums
  have hsum : ∀ c, (ys.map fun y => quantile_score c' y τ).sum ≤ (ys.map fun y => quantile_score c y τ).sum := by
    intro c
    have := hmin c
    unfold mqsConst smean at this
    simp only [nf_mqs, List.length_map] at this
    exact (div_le_div_iff_of_pos_right hn).mp this
  constructor
  · -- too many observations strictly below c'
    by_contra hcon
    push Not at hcon
    set L := ys.countP fun y => decide (y < c') with hL
    have hLpos : 0 < L := by
      by_contra h0
      have : L = 0 := by omega
      rw [this] at hcon
      simp at hcon
      have := mul_nonneg hτ0 hn.le
      linarith
    -- the largest sample value below c'
    let S := (ys.filter fun y => decide (y < c')).toFinset
    have hS : S.Nonempty := by
      obtain ⟨y, hy, hyc⟩ := List.countP_pos_iff.mp hLpos
      exact ⟨y, by simpa [S] using ⟨hy, by simpa using hyc⟩⟩
    set c := S.max' hS with hcdef
    have hcS : c ∈ S := Finset.max'_mem S hS
    have hcys : c < c' := by
      have := hcS; simp only [S, List.mem_toFinset, List.mem_filter, decide_eq_true_eq] at this; exact this.2
    have hmax : ∀ y ∈ ys, y < c' → y ≤ c := by
      intro y hy hyc
      apply Finset.le_max'
      simpa [S] using ⟨hy, hyc⟩
    have hexact : (ys.map fun y => quantile_score c' y τ)
        = ys.map fun y => quantile_score c y τ + (if y < c' then (1 - τ) * (c' - c) else -τ * (c' - c)) := by
      apply List.map_congr_left
      intro y hy
      apply step_exact_up c c' y τ hcys.le
      by_cases hyc : y < c'
      · exact Or.inl (hmax y hy hyc)
      · exact Or.inr (not_lt.mp hyc)
    have h1 := hsum c
    rw [hexact, sum_add_ite] at h1
    have : (1 - τ) * (c' - c) * (L : ℝ) + -τ * (c' - c) * ((ys.length : ℝ) - L)
        = (c' - c) * ((L : ℝ) - τ * ys.length) := by ring
    rw [this] at h1
    have hpos : 0 < (c' - c) * ((L : ℝ) - τ * ys.length) := mul_pos (by linarith) (by linarith)
    linarith
  · -- too few observations ≤ c'
    by_contra hcon
    push Not at hcon
    set E := ys.countP fun y => decide (y ≤ c') with hE
    have hElt : E < ys.length := by
      by_contra h0
      have hle := List.countP_le_length (p := fun y => decide (y ≤ c')) (l := ys)
      have : E = ys.length := by omega
      rw [this] at hcon
      have hτ : τ * (ys.length : ℝ) ≤ ys.length ∨ True := Or.inr trivial
      -- τ n > n is impossible only if τ ≤ 1; derive a contradiction from minimality instead:
      -- all observations are ≤ c', so moving up is never better, but we need τ*n ≤ n.
      -- use c = c' + 1: each point's loss grows by (1-τ), total (1-τ) n ≥ 0 ⇒ τ ≤ 1 is not needed:
      -- from hsum (c'+1): Σρ(c') ≤ Σρ(c'+1) = Σρ(c') + (1-τ) n  ⇒ (1-τ) n ≥ 0 ⇒ τ n ≤ n.
      have hex : (ys.map fun y => quantile_score (c' + 1) y τ)
          = ys.map fun y => quantile_score c' y τ + (if y < c' + 1 then (1 - τ) * (c' + 1 - c') else -τ * (c' + 1 - c')) := by
        apply List.map_congr_left
        intro y hy
        apply step_exact_up c' (c' + 1) y τ (by linarith)
        left
        have : decide (y ≤ c') = true := by
          have hall : ys.countP (fun y => decide (y ≤ c')) = ys.length := this
          exact (List.countP_eq_length.mp hall) y hy
        simpa using this
      have h1 := hsum (c' + 1)
      rw [hex, sum_add_ite] at h1
      have hall2 : (ys.countP fun y => decide (y < c' + 1)) = ys.length := by
        apply List.countP_eq_length.mpr
        intro y hy
        have : decide (y ≤ c') = true := (List.countP_eq_length.mp this) y hy
        have : y ≤ c' := by simpa using this
        simp; linarith
      rw [hall2] at h1
      simp at h1
      nlinarith
    -- the smallest sample value above c'
    let S := (ys.filter fun y => decide (c' < y)).toFinset
    have hS : S.Nonempty := by
      have : ∃ y ∈ ys, ¬ (decide (y ≤ c') = true) := by
        by_contra hno
        push Not at hno
        have : ys.countP (fun y => decide (y ≤ c')) = ys.length := List.countP_eq_length.mpr hno
        omega
      obtain ⟨y, hy, hyc⟩ := this
      exact ⟨y, by simpa [S] using ⟨hy, by simpa using hyc⟩⟩
    set c := S.min' hS with hcdef
    have hcS : c ∈ S := Finset.min'_mem S hS
    have hcys : c' < c := by
      have := hcS; simp only [S, List.mem_toFinset, List.mem_filter, decide_eq_true_eq] at this; exact this.2
    have hmin' : ∀ y ∈ ys, c' < y → c ≤ y := by
      intro y hy hyc
      apply Finset.min'_le
      simpa [S] using ⟨hy, hyc⟩
    -- moving from c' up to c: points ≤ c' gain (1-τ)(c-c'), points ≥ c lose τ(c-c')
    have hexact : (ys.map fun y => quantile_score c y τ)
        = ys.map fun y => quantile_score c' y τ + (if y < c then (1 - τ) * (c - c') else -τ * (c - c')) := by
      apply List.map_congr_left
      intro y hy
      apply step_exact_up c' c y τ hcys.le
      by_cases hyc : c' < y
      · exact Or.inr (hmin' y hy hyc)
      · exact Or.inl (not_lt.mp hyc)
    have hcount : (ys.countP fun y => decide (y < c)) = E := by
      apply List.countP_congr
      intro y hy
      simp only [decide_eq_true_eq]
      constructor
      · intro hlt
        by_contra hgt
        exact absurd (hmin' y hy (not_le.mp hgt)) (not_le.mpr hlt)
      · intro hle; linarith
    have h1 := hsum c
    rw [hexact, sum_add_ite, hcount] at h1
    have : (1 - τ) * (c - c') * (E : ℝ) + -τ * (c - c') * ((ys.length : ℝ) - E)
        = (c - c') * ((E : ℝ) - τ * ys.length) := by ring
    rw [this] at h1
    have hneg : (c - c') * ((E : ℝ) - τ * ys.length) < 0 := mul_neg_of_pos_of_neg (by linarith) (by linarith)
    linarith

/-! ## mape and bias -/

/-- perfect predictions score 0 -/
theorem C19_perfect (t : ℝ) (_ht : t ≠ 0) : mape t t = 0 ∧ bias t t = 0 := by
  rw [nf_mape, nf_bias]; simp

theorem C19_perfect_mean (ts : List ℝ) (hts : ∀ t ∈ ts, t ≠ 0) :
    mapeL (ts.map fun t => (t, t)) = 0 ∧ biasL (ts.map fun t => (t, t)) = 0 := by
  unfold mapeL biasL smean
  have h1 : ts.map (fun t => mape t t) = ts.map (fun _ => (0 : ℝ)) :=
    List.map_congr_left (fun t ht => (C19_perfect t (hts t ht)).1)
  have h2 : ts.map (fun t => bias t t) = ts.map (fun _ => (0 : ℝ)) :=
    List.map_congr_left (fun t ht => (C19_perfect t (hts t ht)).2)
  simp only [List.map_map, Function.comp_def, h1, h2]
  simp

/-- predictions uniformly `p` percent too high (too low) give `mape = p` and `bias = +p (−p)`,
point by point (`t ≠ 0`, `p ≥ 0`) -/
theorem C19_offset (t p : ℝ) (ht : t ≠ 0) (hp : 0 ≤ p) :
    mape (t * (1 + p / 100)) t = p ∧ mape (t * (1 - p / 100)) t = p ∧
    bias (t * (1 + p / 100)) t = p ∧ bias (t * (1 - p / 100)) t = -p := by
  have habs : |t| ≠ 0 := abs_ne_zero.mpr ht
  refine ⟨?_, ?_, ?_, ?_⟩
  · rw [nf_mape]
    have : t - t * (1 + p / 100) = -(t * (p / 100)) := by ring
    rw [this, abs_neg, abs_mul, abs_of_nonneg (by positivity : (0 : ℝ) ≤ p / 100)]
    field_simp
  · rw [nf_mape]
    have : t - t * (1 - p / 100) = t * (p / 100) := by ring
    rw [this, abs_mul, abs_of_nonneg (by positivity : (0 : ℝ) ≤ p / 100)]
    field_simp
  · rw [nf_bias]; field_simp; ring
  · rw [nf_bias]; field_simp; ring

/-- … hence the mean over any non-empty sample of non-zero truths is `p` / `±p` -/
theorem C19_offset_mean (ts : List ℝ) (p : ℝ) (hne : ts ≠ []) (hts : ∀ t ∈ ts, t ≠ 0) (hp : 0 ≤ p) :
    mapeL (ts.map fun t => (t * (1 + p / 100), t)) = p ∧
    biasL (ts.map fun t => (t * (1 + p / 100), t)) = p ∧
    biasL (ts.map fun t => (t * (1 - p / 100), t)) = -p := by
  have hlen : (ts.length : ℝ) ≠ 0 := by
    exact_mod_cast (List.length_pos_of_ne_nil hne).ne'
  have hconst : ∀ (f : ℝ → ℝ) (v : ℝ), (∀ t ∈ ts, f t = v) → (ts.map f).sum = v * ts.length := by
    intro f v hf
    have : ts.map f = ts.map (fun _ => v) := List.map_congr_left hf
    rw [this, List.map_const', List.sum_replicate, nsmul_eq_mul, mul_comm]
  unfold mapeL biasL smean
  simp only [List.map_map, Function.comp_def, List.length_map]
  refine ⟨?_, ?_, ?_⟩
  · rw [hconst _ p (fun t ht => (C19_offset t p (hts t ht) hp).1)]; field_simp
  · rw [hconst _ p (fun t ht => (C19_offset t p (hts t ht) hp).2.2.1)]; field_simp
  · rw [hconst _ (-p) (fun t ht => (C19_offset t p (hts t ht) hp).2.2.2)]; field_simp

/-- the order of the samples is irrelevant -/
theorem C19_perm_invariant (l1 l2 : List (ℝ × ℝ)) (h : l1.Perm l2) :
    mapeL l1 = mapeL l2 ∧ biasL l1 = biasL l2 := by
  unfold mapeL biasL smean
  simp only [List.length_map]
  rw [(h.map _).sum_eq, (h.map _).sum_eq, h.length_eq]
  exact ⟨rfl, rfl⟩

/-- scaling prediction and truth by the same non-zero factor changes nothing -/
theorem C19_scale_invariant (s p t : ℝ) (hs : s ≠ 0) (ht : t ≠ 0) :
    mape (s * p) (s * t) = mape p t ∧ bias (s * p) (s * t) = bias p t := by
  constructor
  · rw [nf_mape, nf_mape]
    have : s * t - s * p = s * (t - p) := by ring
    rw [this, abs_mul, abs_mul]
    have : |s| ≠ 0 := abs_ne_zero.mpr hs
    have : |t| ≠ 0 := abs_ne_zero.mpr ht
    field_simp
  · rw [nf_bias, nf_bias]
    field_simp

theorem C19_scale_invariant_mean (s : ℝ) (hs : s ≠ 0) (l : List (ℝ × ℝ))
    (hl : ∀ x ∈ l, x.2 ≠ 0) :
    mapeL (l.map fun x => (s * x.1, s * x.2)) = mapeL l ∧
    biasL (l.map fun x => (s * x.1, s * x.2)) = biasL l := by
  unfold mapeL biasL smean
  have h1 : l.map (fun x => mape (s * x.1) (s * x.2)) = l.map (fun x => mape x.1 x.2) :=
    List.map_congr_left (fun x hx => (C19_scale_invariant s x.1 x.2 hs (hl x hx)).1)
  have h2 : l.map (fun x => bias (s * x.1) (s * x.2)) = l.map (fun x => bias x.1 x.2) :=
    List.map_congr_left (fun x hx => (C19_scale_invariant s x.1 x.2 hs (hl x hx)).2)
  simp only [List.map_map, Function.comp_def, List.length_map, h1, h2]
  exact ⟨trivial, trivial⟩

/-! ## Non-vacuity: the median of [1,2,3,4,5] satisfies the quantile condition for τ = 1/2 -/
example : (([1, 2, 3, 4, 5] : List ℝ).countP fun y => decide (y < 3) : ℝ)
      ≤ (1 / 2 : ℝ) * ([1, 2, 3, 4, 5] : List ℝ).length ∧
    (1 / 2 : ℝ) * ([1, 2, 3, 4, 5] : List ℝ).length
      ≤ (([1, 2, 3, 4, 5] : List ℝ).countP fun y => decide (y ≤ 3) : ℝ) := by
  simp [List.countP_cons]; norm_num

assert_axioms C19_pinball_cases C19_nonneg C19_zero_iff C19_minimiser_is_quantile
  C19_minimiser_is_quantile_converse C19_perfect
  C19_perfect_mean C19_offset C19_offset_mean C19_perm_invariant C19_scale_invariant
  C19_scale_invariant_mean
