import GenReal.Atmosphere
import Proofs.Lemmas.Consts
import Mathlib.Tactic
import Mathlib.Analysis.SpecialFunctions.Exp
import Mathlib.Analysis.SpecialFunctions.Log.Deriv
import Mathlib.Analysis.SpecialFunctions.Trigonometric.DerivHyp
import Mathlib.Analysis.Calculus.Deriv.MeanValue
import Mathlib.Analysis.Complex.ExponentialBounds

/-!
# Helper lemmas for the Murphy–Koop saturation pressures (C09)

`ln e_w(T) = W T = A T + tanh (u T) * G T`, `ln e_i(T) = I T`, `D = W - I`; every function `A`, `G`,
`I` has the shape `mk a b c d T = a + b / T + c * log T + d * T`.  The regenerated definitions
`TR.e_eq_water_mk`, `TR.e_eq_ice_mk` are only touched by the two normal-form lemmas `nf_water`,
`nf_ice` (proved by `simp only … ; ring_nf`, so reordered operands in the source are harmless).

Contents
* derivatives `W' = Wd`, `D' = Wd - Id` (`hasDerivAt_W`, `hasDerivAt_D`);
* `log` is replaced by its tangent at a point `T0 ∈ {100, 128, 150, 200, 225, 256, 360}` whose `log`
  is known from Mathlib's 9-digit bounds on `log 2, log 3, log 5`; every remaining side condition is a
  quadratic inequality in `T` on an interval (`nlinarith`);
* `Wd > 0` on `[100, 400]` (three pieces) ⇒ `W_strictMonoOn`;
* `D ≥ 0` on `[100, 240]` (no `tanh` numerics: `D` is affine in `tanh ∈ (-1, 1)` whose sign is known);
* `D' ≤ -0.005` on `[240, 400]` ⇒ `D_sub_le` (mean value inequality);
* 13-digit enclosures of `log 2`, `log T_t`, `tanh (u T_t)` (Taylor series with explicit remainders,
  evaluated by `norm_num` on exact rationals) ⇒ `D_Tt_bounds : -4.12e-8 < D T_t < -4.11e-8`.
-/

namespace Sat

open Real Finset

/-- the common shape `a + b / T + c * log T + d * T` -/
noncomputable def mk (a b c d T : ℝ) : ℝ := a + b / T + c * Real.log T + d * T
/-- its derivative -/
noncomputable def mkd (b c d T : ℝ) : ℝ := -b / T ^ 2 + c / T + d

noncomputable def A (T : ℝ) : ℝ := mk (54842763 / 1000000) (-(338161 / 50)) (-(421 / 100)) (367 / 1000000) T
noncomputable def G (T : ℝ) : ℝ := mk (26939 / 500) (-(66561 / 50)) (-(944523 / 100000)) (561 / 40000) T
noncomputable def I (T : ℝ) : ℝ := mk (4775213 / 500000) (-(1144653 / 200)) (88267 / 25000) (-(182083 / 25000000)) T
noncomputable def Ad (T : ℝ) : ℝ := mkd (-(338161 / 50)) (-(421 / 100)) (367 / 1000000) T
noncomputable def Gd (T : ℝ) : ℝ := mkd (-(66561 / 50)) (-(944523 / 100000)) (561 / 40000) T
noncomputable def Id (T : ℝ) : ℝ := mkd (-(1144653 / 200)) (88267 / 25000) (-(182083 / 25000000)) T
/-- argument of the `tanh` switch -/
noncomputable def u (T : ℝ) : ℝ := 83 / 2000 * (T - 1094 / 5)
/-- `ln e_w` -/
noncomputable def W (T : ℝ) : ℝ := A T + Real.tanh (u T) * G T
noncomputable def Wd (T : ℝ) : ℝ :=
  Ad T + 83 / 2000 * (1 - Real.tanh (u T) ^ 2) * G T + Real.tanh (u T) * Gd T
/-- `ln e_w - ln e_i` -/
noncomputable def D (T : ℝ) : ℝ := W T - I T

/-! ## Normal forms of the regenerated definitions -/

theorem nf_water (T : ℝ) : TR.e_eq_water_mk T = Real.exp (W T) := by
  simp only [TR.e_eq_water_mk, W, A, G, u, mk]
  ring_nf

theorem nf_ice (T : ℝ) : TR.e_eq_ice_mk T = Real.exp (I T) := by
  simp only [TR.e_eq_ice_mk, I, mk]
  ring_nf

/-! ## Derivatives -/

theorem hasDerivAt_mk (a b c d T : ℝ) (hT : T ≠ 0) :
    HasDerivAt (mk a b c d) (mkd b c d T) T := by
  have h1 : HasDerivAt (fun T : ℝ => b / T) (-b / T ^ 2) T := by
    have := (hasDerivAt_const T b).fun_div (hasDerivAt_id T) hT
    exact this.congr_deriv (by simp only [id]; ring)
  have h2 : HasDerivAt (fun T : ℝ => c * Real.log T) (c * T⁻¹) T :=
    (Real.hasDerivAt_log hT).const_mul c
  have h3 : HasDerivAt (fun T : ℝ => d * T) (d * 1) T := (hasDerivAt_id T).const_mul d
  have h4 : HasDerivAt (fun T : ℝ => a + b / T + c * Real.log T + d * T)
      (0 + -b / T ^ 2 + c * T⁻¹ + d * 1) T :=
    (((hasDerivAt_const T a).fun_add h1).fun_add h2).fun_add h3
  exact h4.congr_deriv (by simp only [mkd]; ring)

theorem hasDerivAt_tanh (x : ℝ) : HasDerivAt Real.tanh (1 - Real.tanh x ^ 2) x := by
  have hc : Real.cosh x ≠ 0 := ne_of_gt (Real.cosh_pos x)
  have h := (Real.hasDerivAt_sinh x).fun_div (Real.hasDerivAt_cosh x) hc
  have hfun : Real.tanh = fun y => Real.sinh y / Real.cosh y := by
    funext y; exact Real.tanh_eq_sinh_div_cosh y
  rw [hfun]
  refine h.congr_deriv ?_
  have h2 := Real.cosh_sq x
  field_simp

theorem hasDerivAt_u (T : ℝ) : HasDerivAt u (83 / 2000) T := by
  have h : HasDerivAt (fun T : ℝ => 83 / 2000 * (T - 1094 / 5)) (83 / 2000 * 1) T :=
    ((hasDerivAt_id T).sub_const (1094 / 5 : ℝ)).const_mul (83 / 2000 : ℝ)
  exact h.congr_deriv (by ring)

theorem hasDerivAt_W (T : ℝ) (hT : T ≠ 0) : HasDerivAt W (Wd T) T := by
  have hA : HasDerivAt A (Ad T) T := hasDerivAt_mk _ _ _ _ T hT
  have hG : HasDerivAt G (Gd T) T := hasDerivAt_mk _ _ _ _ T hT
  have ht : HasDerivAt (fun T => Real.tanh (u T)) ((1 - Real.tanh (u T) ^ 2) * (83 / 2000)) T :=
    (hasDerivAt_tanh (u T)).comp T (hasDerivAt_u T)
  have h : HasDerivAt (fun T => A T + Real.tanh (u T) * G T)
      (Ad T + ((1 - Real.tanh (u T) ^ 2) * (83 / 2000) * G T + Real.tanh (u T) * Gd T)) T :=
    hA.fun_add (ht.fun_mul hG)
  exact h.congr_deriv (by simp only [Wd]; ring)

theorem hasDerivAt_I (T : ℝ) (hT : T ≠ 0) : HasDerivAt I (Id T) T :=
  hasDerivAt_mk _ _ _ _ T hT

theorem hasDerivAt_D (T : ℝ) (hT : T ≠ 0) : HasDerivAt D (Wd T - Id T) T :=
  (hasDerivAt_W T hT).fun_sub (hasDerivAt_I T hT)

/-! ## Elementary bounds -/

theorem log_le_tangent {T T0 : ℝ} (hT : 0 < T) (hT0 : 0 < T0) :
    Real.log T ≤ Real.log T0 + T / T0 - 1 := by
  have h := Real.log_le_sub_one_of_pos (div_pos hT hT0)
  rw [Real.log_div (ne_of_gt hT) (ne_of_gt hT0)] at h
  linarith

theorem log_ge_tangent {T T0 : ℝ} (hT : 0 < T) (hT0 : 0 < T0) :
    Real.log T0 + 1 - T0 / T ≤ Real.log T := by
  have h := log_le_tangent hT0 hT
  linarith

theorem log_128_lt : Real.log 128 < 4.8520302656 := by
  have : Real.log 128 = 7 * Real.log 2 := by
    rw [show (128 : ℝ) = 2 ^ 7 by norm_num, Real.log_pow]; norm_num
  rw [this]; linarith [Real.log_two_lt_d9]

theorem log_256_lt : Real.log 256 < 5.5451774464 := by
  have : Real.log 256 = 8 * Real.log 2 := by
    rw [show (256 : ℝ) = 2 ^ 8 by norm_num, Real.log_pow]; norm_num
  rw [this]; linarith [Real.log_two_lt_d9]

theorem log_256_gt : 5.5451774424 < Real.log 256 := by
  have : Real.log 256 = 8 * Real.log 2 := by
    rw [show (256 : ℝ) = 2 ^ 8 by norm_num, Real.log_pow]; norm_num
  rw [this]; linarith [Real.log_two_gt_d9]

theorem log_360_lt : Real.log 360 < 5.8861040326 := by
  have : Real.log 360 = 3 * Real.log 2 + 2 * Real.log 3 + Real.log 5 := by
    rw [show (360 : ℝ) = 2 ^ 3 * 3 ^ 2 * 5 by norm_num,
      Real.log_mul (by norm_num) (by norm_num), Real.log_mul (by norm_num) (by norm_num),
      Real.log_pow, Real.log_pow]
    norm_num
  rw [this]; linarith [Real.log_two_lt_d9, Real.log_three_lt_d9, Real.log_five_lt_d9]

theorem tanh_sq_bounds (x : ℝ) : 0 ≤ 1 - Real.tanh x ^ 2 ∧ 1 - Real.tanh x ^ 2 ≤ 1 := by
  have := Real.tanh_sq_lt_one x
  have := sq_nonneg (Real.tanh x)
  constructor <;> linarith

/-- generic positivity criterion for `Wd` from a lower bound on `Ad`, a lower bound `-g` on `G`
and a bound on `|Gd|` -/
theorem Wd_pos_of_bounds (T a g m : ℝ) (ha : a ≤ Ad T) (hg : -g ≤ G T) (hg0 : 0 ≤ g)
    (hm : |Gd T| ≤ m) (h : 83 / 2000 * g + m < a) : 0 < Wd T := by
  obtain ⟨hq0, hq1⟩ := tanh_sq_bounds (u T)
  have ht : |Real.tanh (u T)| ≤ 1 := (Real.abs_tanh_lt_one _).le
  have h1 : -m ≤ Real.tanh (u T) * Gd T := by
    have : |Real.tanh (u T) * Gd T| ≤ m := by
      rw [abs_mul]
      calc |Real.tanh (u T)| * |Gd T| ≤ 1 * m :=
            mul_le_mul ht hm (abs_nonneg _) zero_le_one
        _ = m := one_mul m
    linarith [neg_abs_le (Real.tanh (u T) * Gd T)]
  have h2 : -g ≤ (1 - Real.tanh (u T) ^ 2) * G T := by
    have : (1 - Real.tanh (u T) ^ 2) * (-g) ≤ (1 - Real.tanh (u T) ^ 2) * G T :=
      mul_le_mul_of_nonneg_left hg hq0
    nlinarith
  simp only [Wd]
  nlinarith

/-! ## Generic bounds for the shape `mk` and its derivative `mkd`

Every side condition is a quadratic inequality in `T` (closed by `nlinarith` at the use site). -/

theorem mkd_ge {b c d lo T : ℝ} (hT : 0 < T) (h : 0 ≤ -b + c * T + (d - lo) * T ^ 2) :
    lo ≤ mkd b c d T := by
  have e : mkd b c d T - lo = (-b + c * T + (d - lo) * T ^ 2) / T ^ 2 := by
    simp only [mkd]; field_simp; ring
  have := div_nonneg h (sq_nonneg T)
  rw [← e] at this; linarith

theorem mkd_le {b c d hi T : ℝ} (hT : 0 < T) (h : -b + c * T + (d - hi) * T ^ 2 ≤ 0) :
    mkd b c d T ≤ hi := by
  have e : mkd b c d T - hi = (-b + c * T + (d - hi) * T ^ 2) / T ^ 2 := by
    simp only [mkd]; field_simp; ring
  have := div_nonpos_of_nonpos_of_nonneg h (sq_nonneg T)
  rw [← e] at this; linarith

/-- lower bound of `mk` when the `log` coefficient is `≤ 0` (tangent of `log` at `T0`) -/
theorem mk_lower_neg {a b c d T T0 L0 lo : ℝ} (hT : 0 < T) (hT0 : 0 < T0) (hc : c ≤ 0)
    (hL : Real.log T0 ≤ L0)
    (h : 0 ≤ b + (a + c * (L0 - 1) - lo) * T + (c / T0 + d) * T ^ 2) : lo ≤ mk a b c d T := by
  have h1 : Real.log T ≤ L0 + T / T0 - 1 := by linarith [log_le_tangent hT hT0]
  have h2 : c * (L0 + T / T0 - 1) ≤ c * Real.log T := mul_le_mul_of_nonpos_left h1 hc
  have e : a + b / T + c * (L0 + T / T0 - 1) + d * T - lo
      = (b + (a + c * (L0 - 1) - lo) * T + (c / T0 + d) * T ^ 2) / T := by
    field_simp; ring
  have := div_nonneg h hT.le
  rw [← e] at this
  simp only [mk]; linarith

/-- upper bound of `mk` when the `log` coefficient is `≤ 0` (secant-type bound `log T ≥ log T0 + 1 - T0/T`) -/
theorem mk_upper_neg {a b c d T T0 L0 hi : ℝ} (hT : 0 < T) (hT0 : 0 < T0) (hc : c ≤ 0)
    (hL : L0 ≤ Real.log T0)
    (h : (b - c * T0) + (a + c * (L0 + 1) - hi) * T + d * T ^ 2 ≤ 0) : mk a b c d T ≤ hi := by
  have h1 : L0 + 1 - T0 / T ≤ Real.log T := by linarith [log_ge_tangent hT hT0]
  have h2 : c * Real.log T ≤ c * (L0 + 1 - T0 / T) := mul_le_mul_of_nonpos_left h1 hc
  have e : a + b / T + c * (L0 + 1 - T0 / T) + d * T - hi
      = ((b - c * T0) + (a + c * (L0 + 1) - hi) * T + d * T ^ 2) / T := by
    field_simp; ring
  have := div_nonpos_of_nonpos_of_nonneg h hT.le
  rw [← e] at this
  simp only [mk]; linarith

/-- lower bound of `mk` when the `log` coefficient is `≥ 0` -/
theorem mk_lower_pos {a b c d T T0 L0 lo : ℝ} (hT : 0 < T) (hT0 : 0 < T0) (hc : 0 ≤ c)
    (hL : L0 ≤ Real.log T0)
    (h : 0 ≤ (b - c * T0) + (a + c * (L0 + 1) - lo) * T + d * T ^ 2) : lo ≤ mk a b c d T := by
  have h1 : L0 + 1 - T0 / T ≤ Real.log T := by linarith [log_ge_tangent hT hT0]
  have h2 : c * (L0 + 1 - T0 / T) ≤ c * Real.log T := mul_le_mul_of_nonneg_left h1 hc
  have e : a + b / T + c * (L0 + 1 - T0 / T) + d * T - lo
      = ((b - c * T0) + (a + c * (L0 + 1) - lo) * T + d * T ^ 2) / T := by
    field_simp; ring
  have := div_nonneg h hT.le
  rw [← e] at this
  simp only [mk]; linarith

/-- upper bound of `mk` when the `log` coefficient is `≥ 0` -/
theorem mk_upper_pos {a b c d T T0 L0 hi : ℝ} (hT : 0 < T) (hT0 : 0 < T0) (hc : 0 ≤ c)
    (hL : Real.log T0 ≤ L0)
    (h : b + (a + c * (L0 - 1) - hi) * T + (c / T0 + d) * T ^ 2 ≤ 0) : mk a b c d T ≤ hi := by
  have h1 : Real.log T ≤ L0 + T / T0 - 1 := by linarith [log_le_tangent hT hT0]
  have h2 : c * Real.log T ≤ c * (L0 + T / T0 - 1) := mul_le_mul_of_nonneg_left h1 hc
  have e : a + b / T + c * (L0 + T / T0 - 1) + d * T - hi
      = (b + (a + c * (L0 - 1) - hi) * T + (c / T0 + d) * T ^ 2) / T := by
    field_simp; ring
  have := div_nonpos_of_nonpos_of_nonneg h hT.le
  rw [← e] at this
  simp only [mk]; linarith

/-! ## `Wd > 0` on `[100, 400]` in three pieces -/

theorem abs_Gd_le_P1 {T : ℝ} (h1 : 100 ≤ T) (_h2 : T ≤ 200) : |Gd T| ≤ 0.053 := by
  have hT : 0 < T := by linarith
  rw [abs_le]; constructor
  · apply mkd_ge hT; norm_num; nlinarith
  · apply mkd_le hT; norm_num; nlinarith

theorem abs_Gd_le_P23 {T : ℝ} (h1 : 200 ≤ T) (h2 : T ≤ 400) : |Gd T| ≤ 0.0028 := by
  have hT : 0 < T := by linarith
  rw [abs_le]; constructor
  · apply mkd_ge hT; norm_num; nlinarith [sq_nonneg (T - 280)]
  · apply mkd_le hT; norm_num; nlinarith

theorem Wd_pos_P1 {T : ℝ} (h1 : 100 ≤ T) (h2 : T ≤ 200) : 0 < Wd T := by
  have hT : 0 < T := by linarith
  refine Wd_pos_of_bounds T 0.148 1.8 0.053 ?_ ?_ (by norm_num) (abs_Gd_le_P1 h1 h2) (by norm_num)
  · apply mkd_ge hT; norm_num; nlinarith
  · apply mk_lower_neg hT (by norm_num : (0 : ℝ) < 128) (by norm_num) log_128_lt.le
    norm_num; nlinarith

theorem Wd_pos_P2 {T : ℝ} (h1 : 200 ≤ T) (h2 : T ≤ 300) : 0 < Wd T := by
  have hT : 0 < T := by linarith
  refine Wd_pos_of_bounds T 0.0614 0.36 0.0028 ?_ ?_ (by norm_num)
    (abs_Gd_le_P23 h1 (by linarith)) (by norm_num)
  · apply mkd_ge hT; norm_num; nlinarith
  · apply mk_lower_neg hT (by norm_num : (0 : ℝ) < 256) (by norm_num) log_256_lt.le
    norm_num; nlinarith

theorem Wd_pos_P3 {T : ℝ} (h1 : 300 ≤ T) (h2 : T ≤ 400) : 0 < Wd T := by
  have hT : 0 < T := by linarith
  refine Wd_pos_of_bounds T 0.0321 0.5 0.0028 ?_ ?_ (by norm_num)
    (abs_Gd_le_P23 (by linarith) h2) (by norm_num)
  · apply mkd_ge hT; norm_num; nlinarith
  · apply mk_lower_neg hT (by norm_num : (0 : ℝ) < 360) (by norm_num) log_360_lt.le
    norm_num; nlinarith

theorem Wd_pos {T : ℝ} (h1 : 100 ≤ T) (h2 : T ≤ 400) : 0 < Wd T := by
  rcases le_total T 200 with h | h
  · exact Wd_pos_P1 h1 h
  rcases le_total T 300 with h' | h'
  · exact Wd_pos_P2 h h'
  · exact Wd_pos_P3 h' h2

theorem W_strictMonoOn : StrictMonoOn W (Set.Icc 100 400) := by
  apply strictMonoOn_of_deriv_pos (convex_Icc _ _)
  · intro x hx
    exact (hasDerivAt_W x (by linarith [hx.1])).continuousAt.continuousWithinAt
  · intro x hx
    rw [interior_Icc] at hx
    rw [(hasDerivAt_W x (by linarith [hx.1])).deriv]
    exact Wd_pos hx.1.le hx.2.le

/-! ## Sign of `tanh`, more `log` constants -/

theorem tanh_nonneg {x : ℝ} (h : 0 ≤ x) : 0 ≤ Real.tanh x := by
  rw [Real.tanh_eq_sinh_div_cosh]
  exact div_nonneg (Real.sinh_nonneg_iff.2 h) (Real.cosh_pos x).le

theorem tanh_nonpos {x : ℝ} (h : x ≤ 0) : Real.tanh x ≤ 0 := by
  rw [Real.tanh_eq_sinh_div_cosh]
  exact div_nonpos_of_nonpos_of_nonneg (Real.sinh_nonpos_iff.2 h) (Real.cosh_pos x).le

theorem log_100_lt : Real.log 100 < 4.6051701868 := by
  have : Real.log 100 = 2 * Real.log 2 + 2 * Real.log 5 := by
    rw [show (100 : ℝ) = 2 ^ 2 * 5 ^ 2 by norm_num, Real.log_mul (by norm_num) (by norm_num),
      Real.log_pow, Real.log_pow]
    norm_num
  rw [this]; linarith [Real.log_two_lt_d9, Real.log_five_lt_d9]

theorem log_150_lt : Real.log 150 < 5.0106352948 := by
  have : Real.log 150 = Real.log 2 + Real.log 3 + 2 * Real.log 5 := by
    rw [show (150 : ℝ) = 2 * 3 * 5 ^ 2 by norm_num, Real.log_mul (by norm_num) (by norm_num),
      Real.log_mul (by norm_num) (by norm_num), Real.log_pow]
    norm_num
  rw [this]; linarith [Real.log_two_lt_d9, Real.log_three_lt_d9, Real.log_five_lt_d9]

theorem log_200_lt : Real.log 200 < 5.2983173676 := by
  have : Real.log 200 = 3 * Real.log 2 + 2 * Real.log 5 := by
    rw [show (200 : ℝ) = 2 ^ 3 * 5 ^ 2 by norm_num, Real.log_mul (by norm_num) (by norm_num),
      Real.log_pow, Real.log_pow]
    norm_num
  rw [this]; linarith [Real.log_two_lt_d9, Real.log_five_lt_d9]

theorem log_225_lt : Real.log 225 < 5.4161004028 := by
  have : Real.log 225 = 2 * Real.log 3 + 2 * Real.log 5 := by
    rw [show (225 : ℝ) = 3 ^ 2 * 5 ^ 2 by norm_num, Real.log_mul (by norm_num) (by norm_num),
      Real.log_pow, Real.log_pow]
    norm_num
  rw [this]; linarith [Real.log_three_lt_d9, Real.log_five_lt_d9]

theorem log_128_gt : 4.8520302621 < Real.log 128 := by
  have : Real.log 128 = 7 * Real.log 2 := by
    rw [show (128 : ℝ) = 2 ^ 7 by norm_num, Real.log_pow]; norm_num
  rw [this]; linarith [Real.log_two_gt_d9]

/-! ## `D ≥ 0` on `[100, 240]` without any `tanh` numerics -/

theorem A_sub_I (T : ℝ) : A T - I T =
    mk (45292337 / 1000000) (-(207991 / 200)) (-(193517 / 25000)) (95629 / 12500000) T := by
  simp only [A, I, mk]; ring

theorem A_sub_I_sub_G (T : ℝ) : A T - I T - G T =
    mk (-(8585663 / 1000000)) (58253 / 200) (34091 / 20000) (-(159367 / 25000000)) T := by
  simp only [A, I, G, mk]; ring

theorem A_sub_I_add_G (T : ℝ) : A T - I T + G T =
    mk (99170337 / 1000000) (-(94847 / 40)) (-(1718591 / 100000)) (541883 / 25000000) T := by
  simp only [A, I, G, mk]; ring

theorem A_sub_I_nonneg {T : ℝ} (h1 : 100 ≤ T) (h2 : T ≤ 240) : 0 ≤ A T - I T := by
  have hT : 0 < T := by linarith
  rw [A_sub_I]
  rcases le_total T 128 with h | h
  · apply mk_lower_neg hT (by norm_num : (0 : ℝ) < 100) (by norm_num) log_100_lt.le
    norm_num; nlinarith
  rcases le_total T 180 with h' | h'
  · apply mk_lower_neg hT (by norm_num : (0 : ℝ) < 150) (by norm_num) log_150_lt.le
    norm_num; nlinarith
  · apply mk_lower_neg hT (by norm_num : (0 : ℝ) < 200) (by norm_num) log_200_lt.le
    norm_num; nlinarith

theorem A_sub_I_sub_G_nonneg {T : ℝ} (h1 : 100 ≤ T) (h2 : T ≤ 1094 / 5) : 0 ≤ A T - I T - G T := by
  have hT : 0 < T := by linarith
  rw [A_sub_I_sub_G]
  apply mk_lower_pos hT (by norm_num : (0 : ℝ) < 128) (by norm_num) log_128_gt.le
  norm_num; nlinarith

theorem A_sub_I_add_G_nonneg {T : ℝ} (h1 : 1094 / 5 ≤ T) (h2 : T ≤ 240) : 0 ≤ A T - I T + G T := by
  have hT : 0 < T := by linarith
  rw [A_sub_I_add_G]
  apply mk_lower_neg hT (by norm_num : (0 : ℝ) < 225) (by norm_num) log_225_lt.le
  norm_num; nlinarith

theorem D_nonneg_low {T : ℝ} (h1 : 100 ≤ T) (h2 : T ≤ 240) : 0 ≤ D T := by
  have hD : D T = (A T - I T) + Real.tanh (u T) * G T := by simp only [D, W]; ring
  have hAI := A_sub_I_nonneg h1 h2
  have htl := Real.neg_one_lt_tanh (u T)
  have htu := Real.tanh_lt_one (u T)
  rw [hD]
  rcases le_total T (1094 / 5) with h | h
  · have ht : Real.tanh (u T) ≤ 0 := tanh_nonpos (by unfold u; nlinarith)
    have h3 := A_sub_I_sub_G_nonneg h1 h
    rcases le_total (G T) 0 with hG | hG
    · have := mul_nonneg_of_nonpos_of_nonpos ht hG
      linarith
    · have := mul_nonneg (by linarith : 0 ≤ Real.tanh (u T) + 1) hG
      nlinarith
  · have ht : 0 ≤ Real.tanh (u T) := tanh_nonneg (by unfold u; nlinarith)
    have h3 := A_sub_I_add_G_nonneg h h2
    rcases le_total (G T) 0 with hG | hG
    · have := mul_nonneg (by linarith : 0 ≤ 1 - Real.tanh (u T)) (neg_nonneg.2 hG)
      nlinarith
    · have := mul_nonneg ht hG
      linarith

/-! ## `D' ≤ -0.005` on `[240, 400]` -/

theorem log_360_gt : 5.8861040302 < Real.log 360 := by
  have : Real.log 360 = 3 * Real.log 2 + 2 * Real.log 3 + Real.log 5 := by
    rw [show (360 : ℝ) = 2 ^ 3 * 3 ^ 2 * 5 by norm_num,
      Real.log_mul (by norm_num) (by norm_num), Real.log_mul (by norm_num) (by norm_num),
      Real.log_pow, Real.log_pow]
    norm_num
  rw [this]; linarith [Real.log_two_gt_d9, Real.log_three_gt_d9, Real.log_five_gt_d9]

theorem Ad_sub_Id (T : ℝ) : Ad T - Id T =
    mkd (-(207991 / 200)) (-(193517 / 25000)) (95629 / 12500000) T := by
  simp only [Ad, Id, mkd]; ring

/-- the `tanh` amplitude `G` is negative on `[240, 400]` -/
theorem G_nonpos {T : ℝ} (h1 : 240 ≤ T) (h2 : T ≤ 400) : G T ≤ 0 := by
  have hT : 0 < T := by linarith
  rcases le_total T 300 with h | h
  · apply mk_upper_neg hT (by norm_num : (0 : ℝ) < 256) (by norm_num) log_256_gt.le
    norm_num; nlinarith
  · apply mk_upper_neg hT (by norm_num : (0 : ℝ) < 360) (by norm_num) log_360_gt.le
    norm_num; nlinarith

theorem Dd_le {T : ℝ} (h1 : 240 ≤ T) (h2 : T ≤ 400) : Wd T - Id T ≤ -0.005 := by
  have hT : 0 < T := by linarith
  have hAI : Ad T - Id T ≤ -0.005 := by
    rw [Ad_sub_Id]; apply mkd_le hT; norm_num; nlinarith
  have hG : G T ≤ 0 := G_nonpos h1 h2
  have hGd : Gd T ≤ 0 := by
    apply mkd_le hT; norm_num; nlinarith
  have ht : 0 ≤ Real.tanh (u T) := tanh_nonneg (by unfold u; nlinarith)
  obtain ⟨hq0, _⟩ := tanh_sq_bounds (u T)
  have s1 : (1 - Real.tanh (u T) ^ 2) * G T ≤ 0 := mul_nonpos_of_nonneg_of_nonpos hq0 hG
  have s2 : Real.tanh (u T) * Gd T ≤ 0 := mul_nonpos_of_nonneg_of_nonpos ht hGd
  have e : Wd T - Id T = (Ad T - Id T) + 83 / 2000 * ((1 - Real.tanh (u T) ^ 2) * G T)
      + Real.tanh (u T) * Gd T := by simp only [Wd]; ring
  rw [e]; linarith

/-- mean-value inequality: on `[240, 400]`, `D` decreases at rate at least `0.005 / K` -/
theorem D_sub_le {x y : ℝ} (hx : 240 ≤ x) (hxy : x ≤ y) (hy : y ≤ 400) :
    D y - D x ≤ -0.005 * (y - x) := by
  have hd : ∀ z ∈ Set.Icc (240 : ℝ) 400, HasDerivAt D (Wd z - Id z) z := fun z hz =>
    hasDerivAt_D z (by linarith [hz.1])
  apply (convex_Icc (240 : ℝ) 400).image_sub_le_mul_sub_of_deriv_le
  · intro z hz; exact (hd z hz).continuousAt.continuousWithinAt
  · intro z hz
    exact (hd z (interior_subset hz)).differentiableAt.differentiableWithinAt
  · intro z hz
    have hz' := interior_subset hz
    rw [(hd z hz').deriv]; exact Dd_le hz'.1 hz'.2
  · exact ⟨hx, by linarith⟩
  · exact ⟨by linarith, hy⟩
  · exact hxy

/-! ## High-precision evaluation at the triple point -/

/-- two-sided Taylor bound for `log (1 - x)`, `0 ≤ x < 1` -/
theorem log_one_sub_bounds {x : ℝ} (h0 : 0 ≤ x) (h1 : x < 1) (n : ℕ) :
    -(∑ i ∈ range n, x ^ (i + 1) / (i + 1)) - x ^ (n + 1) / (1 - x) ≤ Real.log (1 - x) ∧
    Real.log (1 - x) ≤ -(∑ i ∈ range n, x ^ (i + 1) / (i + 1)) + x ^ (n + 1) / (1 - x) := by
  have hx : |x| < 1 := by rw [abs_of_nonneg h0]; exact h1
  have z := Real.abs_log_sub_add_sum_range_le hx n
  rw [abs_of_nonneg h0] at z
  have := abs_le.mp z
  constructor <;> linarith [this.1, this.2]

theorem log_two_lo : (0.6931471805599 : ℝ) < Real.log 2 := by
  have h := (log_one_sub_bounds (x := 1 / 2) (by norm_num) (by norm_num) 46).2
  rw [show (1 : ℝ) - 1 / 2 = 2⁻¹ by norm_num, Real.log_inv] at h
  have : -(∑ i ∈ range 46, ((1 : ℝ) / 2) ^ (i + 1) / ((i : ℝ) + 1)) + (1 / 2) ^ (46 + 1) / (1 - 1 / 2)
      < -0.6931471805599 := by
    norm_num [Finset.sum_range_succ]
  linarith

theorem log_two_hi : Real.log 2 < (0.6931471805600 : ℝ) := by
  have h := (log_one_sub_bounds (x := 1 / 2) (by norm_num) (by norm_num) 46).1
  rw [show (1 : ℝ) - 1 / 2 = 2⁻¹ by norm_num, Real.log_inv] at h
  have : -0.6931471805600 <
      -(∑ i ∈ range 46, ((1 : ℝ) / 2) ^ (i + 1) / ((i : ℝ) + 1)) - (1 / 2) ^ (46 + 1) / (1 - 1 / 2) := by
    norm_num [Finset.sum_range_succ]
  linarith

/-- the double nearest 273.16 -/
noncomputable def Tt : ℝ := 4805481539892675 / 17592186044416

theorem log_Tt_bounds : (5.6100577040925 : ℝ) < Real.log Tt ∧ Real.log Tt < 5.6100577040934 := by
  -- log Tt = 8 log 2 - log (256 / Tt),  256 / Tt = 1 - x
  have hx : (256 : ℝ) / Tt = 1 - 301881912522179 / 4805481539892675 := by
    unfold Tt; norm_num
  have h256 : Real.log 256 = 8 * Real.log 2 := by
    rw [show (256 : ℝ) = 2 ^ 8 by norm_num, Real.log_pow]; norm_num
  have hTt : (0 : ℝ) < Tt := by unfold Tt; norm_num
  have e : Real.log Tt = 8 * Real.log 2 - Real.log (256 / Tt) := by
    rw [Real.log_div (by norm_num) (ne_of_gt hTt), h256]; ring
  have h := log_one_sub_bounds (x := 301881912522179 / 4805481539892675) (by norm_num) (by norm_num) 12
  rw [← hx] at h
  have b1 : (-0.0648802596133264 : ℝ) <
      -(∑ i ∈ range 12, ((301881912522179 : ℝ) / 4805481539892675) ^ (i + 1) / ((i : ℝ) + 1)) -
        (301881912522179 / 4805481539892675) ^ (12 + 1) / (256 / Tt) := by
    rw [hx]
    norm_num [Finset.sum_range_succ]
  have b2 : -(∑ i ∈ range 12, ((301881912522179 : ℝ) / 4805481539892675) ^ (i + 1) / ((i : ℝ) + 1)) +
        (301881912522179 / 4805481539892675) ^ (12 + 1) / (256 / Tt)
      < (-0.0648802596133255 : ℝ) := by
    rw [hx]
    norm_num [Finset.sum_range_succ]
  have := log_two_lo; have := log_two_hi
  rw [e]
  constructor <;> linarith [h.1, h.2]


theorem tanh_eq_exp2 (x : ℝ) : Real.tanh x = 1 - 2 / (Real.exp (2 * x) + 1) := by
  have h1 : Real.exp (2 * x) = Real.exp x * Real.exp x := by rw [← Real.exp_add]; ring_nf
  have h2 : Real.exp (-x) = (Real.exp x)⁻¹ := Real.exp_neg x
  have hp := Real.exp_pos x
  rw [Real.tanh_eq, h1, h2]
  field_simp
  ring

theorem exp_bounds_of_le_one {x : ℝ} (h0 : 0 ≤ x) (h1 : x ≤ 1) (n : ℕ) (hn : 0 < n) :
    (∑ m ∈ range n, x ^ m / (m.factorial : ℝ)) - x ^ n * ((n.succ : ℝ) / (n.factorial * n)) ≤ Real.exp x ∧
    Real.exp x ≤ (∑ m ∈ range n, x ^ m / (m.factorial : ℝ)) + x ^ n * ((n.succ : ℝ) / (n.factorial * n)) := by
  have hx : |x| ≤ 1 := by rw [abs_of_nonneg h0]; exact h1
  have z := Real.exp_bound hx hn
  rw [abs_of_nonneg h0] at z
  have := abs_le.mp z
  constructor <;> linarith [this.1, this.2]

theorem u_Tt : u Tt = 4 * (396869161850398493 / 703687441776640000) := by
  unfold u Tt; norm_num

theorem exp_y_bounds : (1.7576628492293405 : ℝ) < Real.exp (396869161850398493 / 703687441776640000) ∧
    Real.exp (396869161850398493 / 703687441776640000) < 1.7576628492293407 := by
  have h := exp_bounds_of_le_one (x := 396869161850398493 / 703687441776640000)
    (by norm_num) (by norm_num) 16 (by norm_num)
  have b1 : (1.7576628492293405 : ℝ) <
      (∑ m ∈ range 16, ((396869161850398493 : ℝ) / 703687441776640000) ^ m / (m.factorial : ℝ)) -
      (396869161850398493 / 703687441776640000) ^ 16 * (((16 : ℕ).succ : ℝ) / ((16 : ℕ).factorial * (16 : ℕ))) := by
    norm_num [Finset.sum_range_succ, Nat.factorial]
  have b2 : (∑ m ∈ range 16, ((396869161850398493 : ℝ) / 703687441776640000) ^ m / (m.factorial : ℝ)) +
      (396869161850398493 / 703687441776640000) ^ 16 * (((16 : ℕ).succ : ℝ) / ((16 : ℕ).factorial * (16 : ℕ)))
      < (1.7576628492293407 : ℝ) := by
    norm_num [Finset.sum_range_succ, Nat.factorial]
  constructor <;> linarith [h.1, h.2]

theorem tanh_u_Tt_bounds : (0.9782828021191 : ℝ) < Real.tanh (u Tt) ∧
    Real.tanh (u Tt) < 0.9782828021192 := by
  obtain ⟨h1, h2⟩ := exp_y_bounds
  set y : ℝ := 396869161850398493 / 703687441776640000 with hy
  have hE : Real.exp (2 * u Tt) = Real.exp y ^ 8 := by
    rw [u_Tt, ← hy, ← Real.exp_nat_mul]; congr 1; push_cast; ring
  have hlo : (1.7576628492293405 : ℝ) ^ 8 ≤ Real.exp y ^ 8 :=
    pow_le_pow_left₀ (by norm_num) h1.le 8
  have hhi : Real.exp y ^ 8 ≤ (1.7576628492293407 : ℝ) ^ 8 :=
    pow_le_pow_left₀ (Real.exp_pos y).le h2.le 8
  have c1 : (91.0929123071054 : ℝ) < (1.7576628492293405 : ℝ) ^ 8 := by norm_num
  have c2 : (1.7576628492293407 : ℝ) ^ 8 < (91.0929123071056 : ℝ) := by norm_num
  rw [tanh_eq_exp2, hE]
  set E := Real.exp y ^ 8
  have hE1 : (91.0929123071054 : ℝ) < E := lt_of_lt_of_le c1 hlo
  have hE2 : E < (91.0929123071056 : ℝ) := lt_of_le_of_lt hhi c2
  have hpos : (0 : ℝ) < E + 1 := by linarith
  constructor
  · have : 2 / (E + 1) < 2 / (91.0929123071054 + 1) :=
      div_lt_div_of_pos_left (by norm_num) (by norm_num) (by linarith)
    have : (2 : ℝ) / (91.0929123071054 + 1) < 1 - 0.9782828021191 := by norm_num
    linarith
  · have : 2 / (91.0929123071056 + 1) < 2 / (E + 1) :=
      div_lt_div_of_pos_left (by norm_num) hpos (by linarith)
    have : (1 : ℝ) - 0.9782828021192 < 2 / (91.0929123071056 + 1) := by norm_num
    linarith


theorem mk_split (a b c d T : ℝ) : mk a b c d T = (a + b / T + d * T) + c * Real.log T := by
  simp only [mk]; ring

theorem kG_Tt : (52.8356614732757 : ℝ) < 26939 / 500 + -(66561 / 50) / Tt + 561 / 40000 * Tt ∧
    26939 / 500 + -(66561 / 50) / Tt + 561 / 40000 * Tt < (52.8356614732758 : ℝ) := by
  unfold Tt; constructor <;> norm_num

theorem kA_sub_kI_Tt : (43.5749707204692 : ℝ) <
      (54842763 / 1000000 + -(338161 / 50) / Tt + 367 / 1000000 * Tt)
      - (4775213 / 500000 + -(1144653 / 200) / Tt + -(182083 / 25000000) * Tt) ∧
    (54842763 / 1000000 + -(338161 / 50) / Tt + 367 / 1000000 * Tt)
      - (4775213 / 500000 + -(1144653 / 200) / Tt + -(182083 / 25000000) * Tt)
      < (43.5749707204693 : ℝ) := by
  unfold Tt; constructor <;> norm_num

/-- **high-precision value of `ln e_w - ln e_i` at the triple point**: about `-4.114e-8`. -/
theorem D_Tt_bounds : (-4.12e-8 : ℝ) < D Tt ∧ D Tt < -4.11e-8 := by
  obtain ⟨l1, l2⟩ := log_Tt_bounds
  obtain ⟨t1, t2⟩ := tanh_u_Tt_bounds
  obtain ⟨g1, g2⟩ := kG_Tt
  obtain ⟨k1, k2⟩ := kA_sub_kI_Tt
  have hG : G Tt = (26939 / 500 + -(66561 / 50) / Tt + 561 / 40000 * Tt)
      + -(944523 / 100000) * Real.log Tt := mk_split _ _ _ _ _
  have hD : D Tt = ((54842763 / 1000000 + -(338161 / 50) / Tt + 367 / 1000000 * Tt)
      - (4775213 / 500000 + -(1144653 / 200) / Tt + -(182083 / 25000000) * Tt))
      + -(193517 / 25000) * Real.log Tt + Real.tanh (u Tt) * G Tt := by
    simp only [D, W, A, I, mk_split]; ring
  set ℓ := Real.log Tt
  set t := Real.tanh (u Tt)
  set g := G Tt
  have hg1 : (-0.1526238551585 : ℝ) < g := by rw [hG]; linarith
  have hg2 : g < (-0.1526238551498 : ℝ) := by rw [hG]; linarith
  constructor
  · -- t * g ≥ 0.9782828021192 * g ≥ 0.9782828021192 * (-0.1526238551585)
    have s1 : 0.9782828021192 * g ≤ t * g := by
      have := mul_nonneg (sub_nonneg.2 t2.le) (neg_nonneg.2 (by linarith : g ≤ 0))
      nlinarith [this]
    rw [hD]; linarith
  · have s1 : t * g ≤ 0.9782828021191 * g := by
      have := mul_nonneg (sub_nonneg.2 t1.le) (neg_nonneg.2 (by linarith : g ≤ 0))
      nlinarith [this]
    rw [hD]; linarith

/-! ## Consequences for `D = ln e_w - ln e_i` -/

theorem Tt_eq : C.triple_point_water = Tt := by
  unfold C.triple_point_water Tt; norm_num

theorem Tt_bounds : (273.16 : ℝ) ≤ Tt ∧ Tt ≤ 273.17 := by
  unfold Tt; constructor <;> norm_num

/-- below the triple point `D` never drops under its value at the triple point -/
theorem D_ge_D_Tt {T : ℝ} (h1 : 100 ≤ T) (h2 : T ≤ Tt) : D Tt + 0.005 * (Tt - T) ≤ D T ∨ 0 ≤ D T := by
  rcases le_total T 240 with h | h
  · exact Or.inr (D_nonneg_low h1 h)
  · left
    have := D_sub_le h h2 (by linarith [Tt_bounds.2])
    linarith

/-- `ln e_i ≤ ln e_w` up to `10 µK` below the triple point -/
theorem D_nonneg {T : ℝ} (h1 : 100 ≤ T) (h2 : T ≤ Tt - 1 / 100000) : 0 ≤ D T := by
  rcases D_ge_D_Tt h1 (by linarith) with h | h
  · have := D_Tt_bounds.1
    nlinarith
  · exact h

/-- `ln e_i ≤ ln e_w + 4.12e-8` everywhere on `[100, T_t]` -/
theorem D_ge {T : ℝ} (h1 : 100 ≤ T) (h2 : T ≤ Tt) : (-4.12e-8 : ℝ) ≤ D T := by
  rcases D_ge_D_Tt h1 h2 with h | h
  · have := D_Tt_bounds.1
    nlinarith
  · linarith

/-- `ln e_w < ln e_i` from the triple point up to 400 K -/
theorem D_neg {T : ℝ} (h1 : Tt ≤ T) (h2 : T ≤ 400) : D T < 0 := by
  have := D_sub_le (by linarith [Tt_bounds.1] : (240 : ℝ) ≤ Tt) h1 h2
  have := D_Tt_bounds.2
  nlinarith

/-- generic step: `D T ≥ -δ` and `δ ≤ ε / (1 + ε)` give `e_i ≤ (1 + ε) e_w` -/
theorem ice_le_of_D_ge {T δ ε : ℝ} (hD : -δ ≤ D T) (hε : 0 < ε) (hδ : δ ≤ ε / (1 + ε)) :
    TR.e_eq_ice_mk T ≤ (1 + ε) * TR.e_eq_water_mk T := by
  rw [nf_water, nf_ice]
  have h1 : (0 : ℝ) < 1 + ε := by linarith
  have hlog : δ ≤ Real.log (1 + ε) := by
    have := Real.one_sub_inv_le_log_of_pos h1
    have e : 1 - (1 + ε)⁻¹ = ε / (1 + ε) := by field_simp; ring
    linarith
  have hI : I T ≤ Real.log (1 + ε) + W T := by
    simp only [D] at hD; linarith
  calc Real.exp (I T) ≤ Real.exp (Real.log (1 + ε) + W T) := Real.exp_le_exp.mpr hI
    _ = (1 + ε) * Real.exp (W T) := by rw [Real.exp_add, Real.exp_log h1]

end Sat
