import GenReal.Constants
import Mathlib.Tactic.NormNum
import Mathlib.Tactic.Positivity

/-! Sign facts about the constants read from `typhon.constants` (re-proved on every run from
the regenerated values: a constant changed to a non-positive value breaks these). -/

namespace C

theorem molar_mass_dry_air_pos : 0 < molar_mass_dry_air := by unfold molar_mass_dry_air; norm_num
theorem molar_mass_water_pos : 0 < molar_mass_water := by unfold molar_mass_water; norm_num
theorem boltzmann_pos : 0 < boltzmann := by unfold boltzmann; norm_num
theorem planck_pos : 0 < planck := by unfold planck; norm_num
theorem speed_of_light_pos : 0 < speed_of_light := by unfold speed_of_light; norm_num
theorem earth_standard_gravity_pos : 0 < earth_standard_gravity := by
  unfold earth_standard_gravity; norm_num
theorem gas_constant_dry_air_pos : 0 < gas_constant_dry_air := by
  unfold gas_constant_dry_air; norm_num
theorem gas_constant_water_vapor_pos : 0 < gas_constant_water_vapor := by
  unfold gas_constant_water_vapor; norm_num
theorem heat_of_vaporization_pos : 0 < heat_of_vaporization := by
  unfold heat_of_vaporization; norm_num
theorem isobaric_mass_heat_capacity_pos : 0 < isobaric_mass_heat_capacity := by
  unfold isobaric_mass_heat_capacity; norm_num
theorem triple_point_water_pos : 0 < triple_point_water := by unfold triple_point_water; norm_num

end C
