import Mathlib.Analysis.SpecialFunctions.Trigonometric.Inverse
import Mathlib.Analysis.SpecialFunctions.Sqrt
import Mathlib.Analysis.Complex.Basic
import Mathlib.Tactic

/-!
# Helper lemmas for the complex-refractive-index branch of `snell` / `fresnel` (C08)

Pure real / complex analysis; nothing here mentions the generated model.  `NrSq` is the square of
Liou's "adjusted real index of refraction" exactly as `typhon.physics.em.snell` computes it from
`mr2 = (Re n₂/n₁)²`, `mi2 = (Im n₂/n₁)²`, `s2 = sin²θ₁`; the property file proves that the generated
`TR.snell_c` is `arcsin (sin θ₁ / √NrSq)`.
-/

namespace SnellC

/-- `Nr²` of the code: `(mr2 - mi2 + s2 + √((mr2 - mi2 - s2)² + 4 mr2 mi2)) / 2` -/
noncomputable def NrSq (mr2 mi2 s2 : ℝ) : ℝ :=
  (mr2 - mi2 + s2 + Real.sqrt ((mr2 - mi2 - s2) ^ 2 + 4 * mr2 * mi2)) / 2

/-- the radicand of the inner square root is non-negative -/
theorem disc_nonneg (mr2 mi2 s2 : ℝ) (hmr : 0 ≤ mr2) (hmi : 0 ≤ mi2) :
    0 ≤ (mr2 - mi2 - s2) ^ 2 + 4 * mr2 * mi2 := by positivity

/-- `s2 ≤ Nr²`: the argument of `arcsin` never leaves `[-1, 1]` -/
theorem s2_le_NrSq (mr2 mi2 s2 : ℝ) (hmr : 0 ≤ mr2) (hmi : 0 ≤ mi2) : s2 ≤ NrSq mr2 mi2 s2 := by
  unfold NrSq
  have h1 : |mr2 - mi2 - s2| ≤ Real.sqrt ((mr2 - mi2 - s2) ^ 2 + 4 * mr2 * mi2) := by
    apply Real.abs_le_sqrt
    nlinarith [mul_nonneg hmr hmi]
  have h2 := neg_abs_le (mr2 - mi2 - s2)
  linarith

/-- `Nr² > 0` when the real part of the relative index is non-zero (no `x / 0`) -/
theorem NrSq_pos (mr2 mi2 s2 : ℝ) (hmr : 0 < mr2) (hs : 0 ≤ s2) :
    0 < NrSq mr2 mi2 s2 := by
  unfold NrSq
  apply div_pos _ two_pos
  by_cases hS : 0 < mr2 - mi2 + s2
  · have := Real.sqrt_nonneg ((mr2 - mi2 - s2) ^ 2 + 4 * mr2 * mi2)
    linarith
  · rw [not_lt] at hS
    have hmi' : 0 < mi2 := by linarith
    have hlt : -(mr2 - mi2 + s2) < Real.sqrt ((mr2 - mi2 - s2) ^ 2 + 4 * mr2 * mi2) := by
      apply Real.lt_sqrt_of_sq_lt
      have h1 : 0 < mr2 * mi2 := mul_pos hmr hmi'
      have h2 : 0 ≤ s2 * (mi2 - mr2) := mul_nonneg hs (by linarith)
      nlinarith
    linarith

/-- `Nr²` is the larger root of `(t - s2)(t - (mr2 - mi2)) = mr2 mi2` -/
theorem NrSq_quadratic (mr2 mi2 s2 : ℝ) (hmr : 0 ≤ mr2) (hmi : 0 ≤ mi2) :
    (NrSq mr2 mi2 s2 - s2) * (NrSq mr2 mi2 s2 - (mr2 - mi2)) = mr2 * mi2 := by
  unfold NrSq
  have h := Real.sq_sqrt (disc_nonneg mr2 mi2 s2 hmr hmi)
  nlinarith

/-- real index (`mi2 = 0`): `Nr² = max mr2 s2` -/
theorem NrSq_real (mr2 s2 : ℝ) : NrSq mr2 0 s2 = max mr2 s2 := by
  unfold NrSq
  rw [mul_zero, add_zero, sub_zero, Real.sqrt_sq_eq_abs]
  rcases le_total mr2 s2 with h | h
  · rw [max_eq_right h, abs_of_nonpos (by linarith)]; ring
  · rw [max_eq_left h, abs_of_nonneg (by linarith)]; ring

/-- strictly absorbing medium: `s2 < Nr²` (the refraction angle stays below 90°) -/
theorem s2_lt_NrSq (mr2 mi2 s2 : ℝ) (hmr : 0 < mr2) (hmi : 0 < mi2) : s2 < NrSq mr2 mi2 s2 := by
  unfold NrSq
  have h1 : |mr2 - mi2 - s2| < Real.sqrt ((mr2 - mi2 - s2) ^ 2 + 4 * mr2 * mi2) := by
    rw [← Real.sqrt_sq_eq_abs]
    apply Real.sqrt_lt_sqrt (sq_nonneg _)
    nlinarith [mul_pos hmr hmi]
  have h2 := neg_abs_le (mr2 - mi2 - s2)
  linarith

/-- no total reflection (`s2 < mr2`): `s2 < Nr²` also for a transparent medium -/
theorem s2_lt_NrSq_of_lt (mr2 mi2 s2 : ℝ) (hmi : 0 ≤ mi2) (hs : 0 ≤ s2) (h : s2 < mr2) :
    s2 < NrSq mr2 mi2 s2 := by
  rcases hmi.eq_or_lt with h0 | h0
  · rw [← h0, NrSq_real]; exact lt_max_of_lt_left h
  · exact s2_lt_NrSq mr2 mi2 s2 (by linarith) h0

/-- **Complex Snell law.**  For ANY complex `w` with `w² = m² - sin²θ₁` (`m = mr + i·mi` the relative
index), `Nr² = sin²θ₁ + (Re w)²`: the code's real index is the one of the planes of constant phase,
`tan θ₂ = sin θ₁ / Re √(m² - sin²θ₁)` (Born & Wolf §14.2 / Liou §5.4.1.3). -/
theorem NrSq_eq_phase (mr mi s2 : ℝ) (w : ℂ)
    (hw : w ^ 2 = (⟨mr, mi⟩ : ℂ) ^ 2 - ((s2 : ℝ) : ℂ)) :
    NrSq (mr ^ 2) (mi ^ 2) s2 = s2 + w.re ^ 2 := by
  have hre := congrArg Complex.re hw
  have him := congrArg Complex.im hw
  simp only [pow_two, Complex.mul_re, Complex.mul_im, Complex.sub_re, Complex.sub_im,
    Complex.ofReal_re, Complex.ofReal_im] at hre him
  -- a² - b² = A,  2ab = 2 mr mi  with w = a + b i
  have e1 : w.re ^ 2 - w.im ^ 2 = mr ^ 2 - mi ^ 2 - s2 := by linarith
  have e2 : 2 * w.re * w.im = 2 * mr * mi := by linarith
  have hD : (w.re ^ 2 + w.im ^ 2) ^ 2 = (mr ^ 2 - mi ^ 2 - s2) ^ 2 + 4 * mr ^ 2 * mi ^ 2 := by
    calc (w.re ^ 2 + w.im ^ 2) ^ 2 = (w.re ^ 2 - w.im ^ 2) ^ 2 + (2 * w.re * w.im) ^ 2 := by ring
      _ = (mr ^ 2 - mi ^ 2 - s2) ^ 2 + 4 * mr ^ 2 * mi ^ 2 := by rw [e1, e2]; ring
  have hs : Real.sqrt ((mr ^ 2 - mi ^ 2 - s2) ^ 2 + 4 * mr ^ 2 * mi ^ 2) = w.re ^ 2 + w.im ^ 2 := by
    rw [← hD, Real.sqrt_sq (by positivity)]
  unfold NrSq
  rw [hs]
  linarith

/-! ## Fresnel quotients -/

/-- `‖z - w‖ ≤ ‖z + w‖` for `Re z ≥ 0`, real `w ≥ 0` -/
theorem norm_sub_le_norm_add (z : ℂ) (w : ℝ) (hz : 0 ≤ z.re) (hw : 0 ≤ w) :
    ‖z - (w : ℂ)‖ ≤ ‖z + (w : ℂ)‖ := by
  rw [← sq_le_sq₀ (norm_nonneg _) (norm_nonneg _), Complex.sq_norm, Complex.sq_norm,
    Complex.normSq_apply, Complex.normSq_apply]
  simp only [Complex.sub_re, Complex.sub_im, Complex.add_re, Complex.add_im, Complex.ofReal_re,
    Complex.ofReal_im]
  nlinarith [mul_nonneg hz hw]

/-- `z + w ≠ 0` when the real parts do not both vanish -/
theorem add_ofReal_ne_zero (z : ℂ) (w : ℝ) (h : 0 < z.re + w) : z + (w : ℂ) ≠ 0 := by
  intro h0
  have := congrArg Complex.re h0
  simp only [Complex.add_re, Complex.ofReal_re, Complex.zero_re] at this
  linarith

/-- amplitude quotient `(z - w)/(z + w)` with `Re z ≥ 0`, `w ≥ 0`, `z + w ≠ 0`: modulus ≤ 1 -/
theorem norm_quot_le_one (z : ℂ) (w : ℝ) (hz : 0 ≤ z.re) (hw : 0 ≤ w) (hne : z + (w : ℂ) ≠ 0) :
    ‖(z - (w : ℂ)) / (z + (w : ℂ))‖ ≤ 1 := by
  rw [norm_div, div_le_one (norm_pos_iff.mpr hne)]
  exact norm_sub_le_norm_add z w hz hw

/-- the mirrored quotient `(w - z)/(w + z)` -/
theorem norm_quot_le_one' (z : ℂ) (w : ℝ) (hz : 0 ≤ z.re) (hw : 0 ≤ w) (hne : (w : ℂ) + z ≠ 0) :
    ‖((w : ℂ) - z) / ((w : ℂ) + z)‖ ≤ 1 := by
  have hne' : z + (w : ℂ) ≠ 0 := by rwa [add_comm]
  have := norm_quot_le_one z w hz hw hne'
  rwa [show ((w : ℂ) - z) / ((w : ℂ) + z) = -((z - (w : ℂ)) / (z + (w : ℂ))) by
    rw [add_comm, ← neg_div, neg_sub], norm_neg]

end SnellC
