import Proofs.Lemmas.Trapz
import Mathlib.Analysis.Convex.Function
import Mathlib.Analysis.Convex.Deriv
import Mathlib.MeasureTheory.Integral.IntervalIntegral.Basic
import Mathlib.Analysis.SpecialFunctions.Integrals.Basic
import Mathlib.Analysis.SpecialFunctions.Log.Deriv
import Mathlib.Topology.UniformSpace.HeineCantor
import Mathlib.Topology.MetricSpace.Pseudo.Defs

/-!
Helper lemmas for the grid-refinement theorems of C14 (`Proofs/Props/C14Refine.lean`):
error of the trapezoidal rule `Col.trapz` against the integral, and the elementary
inequality behind `pressure2height` of an isothermal column.
-/

open MeasureTheory

namespace Col

/-- largest spacing `max |x_{i+1} - x_i|` of a grid -/
noncomputable def mesh : List ℝ → ℝ
  | x0 :: x1 :: xs => max |x1 - x0| (mesh (x1 :: xs))
  | _ => 0

/-- total length `∑ |x_{i+1} - x_i|` of a grid (`= |last - first|` for a monotone grid) -/
noncomputable def pathLen : List ℝ → ℝ
  | x0 :: x1 :: xs => |x1 - x0| + pathLen (x1 :: xs)
  | _ => 0

@[simp] theorem mesh_nil : mesh [] = 0 := by simp [mesh]
@[simp] theorem mesh_single (a : ℝ) : mesh [a] = 0 := by simp [mesh]
@[simp] theorem mesh_cons_cons (a b : ℝ) (l : List ℝ) :
    mesh (a :: b :: l) = max |b - a| (mesh (b :: l)) := by simp [mesh]
@[simp] theorem pathLen_nil : pathLen [] = 0 := by simp [pathLen]
@[simp] theorem pathLen_single (a : ℝ) : pathLen [a] = 0 := by simp [pathLen]
@[simp] theorem pathLen_cons_cons (a b : ℝ) (l : List ℝ) :
    pathLen (a :: b :: l) = |b - a| + pathLen (b :: l) := by simp [pathLen]

theorem mesh_nonneg : ∀ l : List ℝ, 0 ≤ mesh l
  | [] => by simp
  | [_] => by simp
  | a :: b :: l => by
    rw [mesh_cons_cons]; exact le_max_of_le_left (abs_nonneg _)

theorem pathLen_nonneg : ∀ l : List ℝ, 0 ≤ pathLen l
  | [] => by simp
  | [_] => by simp
  | a :: b :: l => by
    rw [pathLen_cons_cons]; have := pathLen_nonneg (b :: l); positivity

/-- a convex function lies below its chord -/
theorem convexOn_le_chord {s : Set ℝ} {φ : ℝ → ℝ} (h : ConvexOn ℝ s φ) {a b t : ℝ}
    (ha : a ∈ s) (hb : b ∈ s) (hab : a < b) (ht : t ∈ Set.Icc a b) :
    φ t ≤ φ a + (φ b - φ a) / (b - a) * (t - a) := by
  have hba : 0 < b - a := sub_pos.mpr hab
  have h1 : 0 ≤ (b - t) / (b - a) := div_nonneg (by linarith [ht.2]) hba.le
  have h2 : 0 ≤ (t - a) / (b - a) := div_nonneg (by linarith [ht.1]) hba.le
  have h3 : (b - t) / (b - a) + (t - a) / (b - a) = 1 := by field_simp; ring
  have := h.2 ha hb h1 h2 h3
  have e : ((b - t) / (b - a)) • a + ((t - a) / (b - a)) • b = t := by
    simp only [smul_eq_mul]; field_simp; ring
  rw [e] at this
  simp only [smul_eq_mul] at this
  calc φ t ≤ _ := this
    _ = _ := by field_simp; ring

/-- integral of the chord through `(a, ya)`, `(b, yb)` (same statement as `C14_segment_integral`) -/
theorem integral_chord (a b ya yb : ℝ) (hx : a ≠ b) :
    ∫ t in a..b, (ya + (yb - ya) / (b - a) * (t - a)) = (b - a) * (ya + yb) / 2 := by
  have hne : b - a ≠ 0 := sub_ne_zero.mpr (Ne.symm hx)
  have : (fun t : ℝ => ya + (yb - ya) / (b - a) * (t - a))
      = fun t => (ya - (yb - ya) / (b - a) * a) + (yb - ya) / (b - a) * t := by
    funext t; ring
  rw [this, intervalIntegral.integral_add (by simp) (by
        exact (continuous_const.mul continuous_id).intervalIntegrable _ _)]
  rw [intervalIntegral.integral_const, intervalIntegral.integral_const_mul, integral_id]
  simp only [smul_eq_mul]
  field_simp
  ring

/-- `∫_a^b (t-a)(b-t) dt = (b-a)³/6` -/
theorem integral_bump (a b : ℝ) : ∫ t in a..b, (t - a) * (b - t) = (b - a) ^ 3 / 6 := by
  have h : ∀ t ∈ Set.uIcc a b,
      HasDerivAt (fun t : ℝ => -t ^ 3 / 3 + (a + b) * t ^ 2 / 2 - a * b * t) ((t - a) * (b - t)) t := by
    intro t _
    have h1 : HasDerivAt (fun t : ℝ => t ^ 3) (3 * t ^ 2) t := by simpa using hasDerivAt_pow 3 t
    have h2 : HasDerivAt (fun t : ℝ => t ^ 2) (2 * t) t := by simpa using hasDerivAt_pow 2 t
    have h3 : HasDerivAt (fun t : ℝ => t) 1 t := hasDerivAt_id t
    have h4 : HasDerivAt (fun t : ℝ => -t ^ 3 / 3 + (a + b) * t ^ 2 / 2 - a * b * t)
        (-(3 * t ^ 2) / 3 + (a + b) * (2 * t) / 2 - a * b * 1) t :=
      (((h1.neg.div_const 3).add ((h2.const_mul (a + b)).div_const 2)).sub (h3.const_mul (a * b)))
    exact h4.congr_deriv (by ring)
  rw [intervalIntegral.integral_eq_sub_of_hasDerivAt h]
  · ring
  · exact (by fun_prop : Continuous fun t : ℝ => (t - a) * (b - t)).intervalIntegrable _ _

/-- Error of one trapezoid.  `f` has an `M`-Lipschitz derivative in the weak (semi-convex /
semi-concave) sense: `f + M/2·t²` and `M/2·t² - f` are convex on `s`. -/
theorem seg_err_le {s : Set ℝ} {f : ℝ → ℝ} {M : ℝ}
    (h1 : ConvexOn ℝ s (fun t => f t + M / 2 * t ^ 2))
    (h2 : ConvexOn ℝ s (fun t => M / 2 * t ^ 2 - f t))
    (hc : ContinuousOn f s) {a b : ℝ} (ha : a ∈ s) (hb : b ∈ s) (hab : a < b) :
    |(b - a) * (f a + f b) / 2 - ∫ t in a..b, f t| ≤ M / 12 * (b - a) ^ 3 := by
  have hba : 0 < b - a := sub_pos.mpr hab
  have hsub : Set.Icc a b ⊆ s := h1.1.ordConnected.out ha hb
  have hfi : IntervalIntegrable f volume a b :=
    (hc.mono hsub).intervalIntegrable_of_Icc hab.le
  have hchord : IntervalIntegrable (fun t : ℝ => f a + (f b - f a) / (b - a) * (t - a)) volume a b :=
    (by fun_prop : Continuous fun t : ℝ => f a + (f b - f a) / (b - a) * (t - a)).intervalIntegrable _ _
  have hbump : IntervalIntegrable (fun t : ℝ => M / 2 * ((t - a) * (b - t))) volume a b :=
    (by fun_prop : Continuous fun t : ℝ => M / 2 * ((t - a) * (b - t))).intervalIntegrable _ _
  have hB : ∫ t in a..b, M / 2 * ((t - a) * (b - t)) = M / 12 * (b - a) ^ 3 := by
    rw [intervalIntegral.integral_const_mul, integral_bump]; ring
  -- pointwise: |f - chord| ≤ M/2 (t-a)(b-t)
  have up : ∀ t ∈ Set.Icc a b,
      f t - (f a + (f b - f a) / (b - a) * (t - a)) ≤ M / 2 * ((t - a) * (b - t)) := by
    intro t ht
    have := convexOn_le_chord h1 ha hb hab ht
    beta_reduce at this
    have e : (f b + M / 2 * b ^ 2 - (f a + M / 2 * a ^ 2)) / (b - a) * (t - a)
        = (f b - f a) / (b - a) * (t - a) + M / 2 * ((b + a) * (t - a)) := by
      field_simp; ring
    rw [e] at this
    nlinarith [this]
  have lo : ∀ t ∈ Set.Icc a b,
      (f a + (f b - f a) / (b - a) * (t - a)) - f t ≤ M / 2 * ((t - a) * (b - t)) := by
    intro t ht
    have := convexOn_le_chord h2 ha hb hab ht
    beta_reduce at this
    have e : (M / 2 * b ^ 2 - f b - (M / 2 * a ^ 2 - f a)) / (b - a) * (t - a)
        = -((f b - f a) / (b - a) * (t - a)) + M / 2 * ((b + a) * (t - a)) := by
      field_simp; ring
    rw [e] at this
    nlinarith [this]
  have I1 := intervalIntegral.integral_mono_on hab.le (hfi.sub hchord) hbump up
  have I2 := intervalIntegral.integral_mono_on hab.le (hchord.sub hfi) hbump lo
  rw [intervalIntegral.integral_sub hfi hchord, integral_chord a b _ _ hab.ne, hB] at I1
  rw [intervalIntegral.integral_sub hchord hfi, integral_chord a b _ _ hab.ne, hB] at I2
  rw [abs_le]; constructor <;> linarith

/-- one trapezoid, either orientation (or degenerate) -/
theorem seg_err_le' {s : Set ℝ} {f : ℝ → ℝ} {M : ℝ}
    (h1 : ConvexOn ℝ s (fun t => f t + M / 2 * t ^ 2))
    (h2 : ConvexOn ℝ s (fun t => M / 2 * t ^ 2 - f t))
    (hc : ContinuousOn f s) {a b : ℝ} (ha : a ∈ s) (hb : b ∈ s) :
    |(b - a) * (f a + f b) / 2 - ∫ t in a..b, f t| ≤ M / 12 * |b - a| ^ 3 := by
  rcases lt_trichotomy a b with hab | rfl | hab
  · rw [abs_of_pos (sub_pos.mpr hab)]; exact seg_err_le h1 h2 hc ha hb hab
  · simp
  · have := seg_err_le h1 h2 hc hb ha hab
    rw [abs_of_neg (sub_neg.mpr hab), intervalIntegral.integral_symm b a, ← abs_neg]
    calc _ = |(a - b) * (f b + f a) / 2 - ∫ t in b..a, f t| := by congr 1; ring
      _ ≤ _ := this
      _ = _ := by ring

theorem intervalIntegrable_of_mem {s : Set ℝ} (hs : Convex ℝ s) {f : ℝ → ℝ} (hc : ContinuousOn f s)
    {a b : ℝ} (ha : a ∈ s) (hb : b ∈ s) : IntervalIntegrable f volume a b :=
  (hc.mono (hs.ordConnected.uIcc_subset ha hb)).intervalIntegrable

/-- **Error of the trapezoidal rule on an arbitrary grid inside `s`** (increasing, decreasing or
mixed; repeated points allowed): at most `M/12 · δ² · ∑|x_{i+1} - x_i|` for every `δ ≥ mesh x`. -/
theorem trapz_err_le {s : Set ℝ} {f : ℝ → ℝ} {M : ℝ} (hM : 0 ≤ M)
    (h1 : ConvexOn ℝ s (fun t => f t + M / 2 * t ^ 2))
    (h2 : ConvexOn ℝ s (fun t => M / 2 * t ^ 2 - f t))
    (hc : ContinuousOn f s) : ∀ (x : List ℝ) (hne : x ≠ []), (∀ t ∈ x, t ∈ s) →
    ∀ δ, mesh x ≤ δ →
    |trapz x (x.map f) - ∫ t in (x.head hne)..(x.getLast hne), f t| ≤ M / 12 * δ ^ 2 * pathLen x := by
  intro x
  induction x with
  | nil => intro hne; exact absurd rfl hne
  | cons x0 xs ih =>
    intro hne hmem δ hδ
    rcases xs with _ | ⟨x1, xs'⟩
    · simp
    · have hx0 : x0 ∈ s := hmem x0 (by simp)
      have hx1 : x1 ∈ s := hmem x1 (by simp)
      have hmem' : ∀ t ∈ x1 :: xs', t ∈ s := fun t ht => hmem t (List.mem_cons_of_mem _ ht)
      have hlast : (x1 :: xs').getLast (by simp) ∈ s := hmem' _ (List.getLast_mem _)
      rw [mesh_cons_cons] at hδ
      have hδ0 : |x1 - x0| ≤ δ := le_trans (le_max_left _ _) hδ
      have hδ' : mesh (x1 :: xs') ≤ δ := le_trans (le_max_right _ _) hδ
      have IH := ih (by simp) hmem' δ hδ'
      have S := seg_err_le' h1 h2 hc hx0 hx1
      have i01 := intervalIntegrable_of_mem h1.1 hc hx0 hx1
      have i1l := intervalIntegrable_of_mem h1.1 hc hx1 hlast
      simp only [List.head_cons, List.getLast_cons_cons, List.map_cons, trapz_cons_cons,
        pathLen_cons_cons] at IH ⊢
      rw [← intervalIntegral.integral_add_adjacent_intervals i01 i1l]
      have hcube : M / 12 * |x1 - x0| ^ 3 ≤ M / 12 * δ ^ 2 * |x1 - x0| := by
        have h0 : 0 ≤ |x1 - x0| := abs_nonneg _
        have : |x1 - x0| ^ 2 ≤ δ ^ 2 := pow_le_pow_left₀ h0 hδ0 2
        have hM' : 0 ≤ M / 12 := by positivity
        calc M / 12 * |x1 - x0| ^ 3 = M / 12 * (|x1 - x0| ^ 2 * |x1 - x0|) := by ring
          _ ≤ M / 12 * (δ ^ 2 * |x1 - x0|) := by gcongr
          _ = _ := by ring
      calc _ = |((x1 - x0) * (f x0 + f x1) / 2 - ∫ t in x0..x1, f t)
              + (trapz (x1 :: xs') (f x1 :: List.map f xs')
                  - ∫ t in x1..(x1 :: xs').getLast (by simp), f t)| := by congr 1; ring
        _ ≤ _ := abs_add_le _ _
        _ ≤ M / 12 * |x1 - x0| ^ 3 + M / 12 * δ ^ 2 * pathLen (x1 :: xs') := add_le_add S IH
        _ ≤ _ := by linarith

theorem pathLen_of_increasing : ∀ (x : List ℝ) (hne : x ≠ []), x.IsChain (· ≤ ·) →
    pathLen x = x.getLast hne - x.head hne := by
  intro x
  induction x with
  | nil => intro hne; exact absurd rfl hne
  | cons x0 xs ih =>
    intro hne hc
    rcases xs with _ | ⟨x1, xs'⟩
    · simp
    · have h01 : x0 ≤ x1 := (List.isChain_cons_cons.mp hc).1
      have := ih (by simp) (List.isChain_cons_cons.mp hc).2
      simp only [List.head_cons, List.getLast_cons_cons, pathLen_cons_cons] at this ⊢
      rw [this, abs_of_nonneg (sub_nonneg.mpr h01)]; ring

theorem pathLen_of_decreasing : ∀ (x : List ℝ) (hne : x ≠ []), x.IsChain (· ≥ ·) →
    pathLen x = x.head hne - x.getLast hne := by
  intro x
  induction x with
  | nil => intro hne; exact absurd rfl hne
  | cons x0 xs ih =>
    intro hne hc
    rcases xs with _ | ⟨x1, xs'⟩
    · simp
    · have h01 : x0 ≥ x1 := (List.isChain_cons_cons.mp hc).1
      have := ih (by simp) (List.isChain_cons_cons.mp hc).2
      simp only [List.head_cons, List.getLast_cons_cons, pathLen_cons_cons] at this ⊢
      rw [this, abs_of_nonpos (sub_nonpos.mpr h01)]; ring

/-- a function whose derivative is `M`-Lipschitz on the interior of the convex set `s`
satisfies the two convexity hypotheses of `trapz_err_le` -/
theorem semiconvex_of_lipschitz_deriv {s : Set ℝ} (hs : Convex ℝ s) {f f' : ℝ → ℝ} {M : ℝ}
    (hc : ContinuousOn f s) (hd : ∀ t ∈ interior s, HasDerivAt f (f' t) t)
    (hL : ∀ u ∈ interior s, ∀ v ∈ interior s, |f' u - f' v| ≤ M * |u - v|) :
    ConvexOn ℝ s (fun t => f t + M / 2 * t ^ 2) ∧ ConvexOn ℝ s (fun t => M / 2 * t ^ 2 - f t) := by
  have hsq : ∀ t : ℝ, HasDerivAt (fun t : ℝ => M / 2 * t ^ 2) (M * t) t := by
    intro t
    have h2 : HasDerivAt (fun t : ℝ => t ^ 2) (2 * t) t := by simpa using hasDerivAt_pow 2 t
    exact (h2.const_mul (M / 2)).congr_deriv (by ring)
  have hsqc : Continuous fun t : ℝ => M / 2 * t ^ 2 := by fun_prop
  constructor
  · have hD : ∀ t ∈ interior s, HasDerivAt (fun t => f t + M / 2 * t ^ 2) (f' t + M * t) t :=
      fun t ht => (hd t ht).add (hsq t)
    refine MonotoneOn.convexOn_of_deriv hs (hc.add hsqc.continuousOn)
      (fun t ht => (hD t ht).differentiableAt.differentiableWithinAt) ?_
    intro u hu v hv huv
    rw [(hD u hu).deriv, (hD v hv).deriv]
    have := (abs_le.mp (hL u hu v hv)).2
    rw [abs_of_nonpos (sub_nonpos.mpr huv)] at this
    linarith
  · have hD : ∀ t ∈ interior s, HasDerivAt (fun t => M / 2 * t ^ 2 - f t) (M * t - f' t) t :=
      fun t ht => (hsq t).sub (hd t ht)
    refine MonotoneOn.convexOn_of_deriv hs (hsqc.continuousOn.sub hc)
      (fun t ht => (hD t ht).differentiableAt.differentiableWithinAt) ?_
    intro u hu v hv huv
    rw [(hD u hu).deriv, (hD v hv).deriv]
    have := (abs_le.mp (hL u hu v hv)).1
    rw [abs_of_nonpos (sub_nonpos.mpr huv)] at this
    linarith

/-- a `C²`-type sufficient condition: second derivative bounded by `M` on the interior -/
theorem semiconvex_of_deriv2_bound {s : Set ℝ} (hs : Convex ℝ s) {f f' f'' : ℝ → ℝ} {M : ℝ}
    (hc : ContinuousOn f s) (hd : ∀ t ∈ interior s, HasDerivAt f (f' t) t)
    (hd2 : ∀ t ∈ interior s, HasDerivAt f' (f'' t) t) (hb : ∀ t ∈ interior s, |f'' t| ≤ M) :
    ConvexOn ℝ s (fun t => f t + M / 2 * t ^ 2) ∧ ConvexOn ℝ s (fun t => M / 2 * t ^ 2 - f t) := by
  refine semiconvex_of_lipschitz_deriv hs hc hd ?_
  intro u hu v hv
  have := Convex.norm_image_sub_le_of_norm_hasDerivWithin_le (f := f') (f' := f'') (s := interior s)
    (fun x hx => (hd2 x hx).hasDerivWithinAt) (fun x hx => by simpa using hb x hx) hs.interior hv hu
  simpa using this

/-! ### `ln(a/b)` against the mid-point quotient `2(a-b)/(a+b)` -/

private theorem phi_deriv (b t : ℝ) (hb : 0 < b) (ht : 0 < t) :
    HasDerivAt (fun t : ℝ => Real.log t - Real.log b - 2 * (t - b) / (t + b))
      ((t - b) ^ 2 / (t * (t + b) ^ 2)) t := by
  have htb : t + b ≠ 0 := by positivity
  have h1 : HasDerivAt (fun t : ℝ => 2 * (t - b)) 2 t := by
    simpa using ((hasDerivAt_id t).sub_const b).const_mul 2
  have h2 : HasDerivAt (fun t : ℝ => t + b) 1 t := (hasDerivAt_id t).add_const b
  have h3 := h1.div h2 htb
  have h4 := ((Real.hasDerivAt_log ht.ne').sub_const (Real.log b)).sub h3
  refine h4.congr_deriv ?_
  field_simp
  ring

/-- `2(a-b)/(a+b) ≤ ln(a/b)` for `0 < b ≤ a` -/
theorem log_mid_lower {a b : ℝ} (hb : 0 < b) (hab : b ≤ a) :
    2 * (a - b) / (a + b) ≤ Real.log (a / b) := by
  have hmono : MonotoneOn (fun t : ℝ => Real.log t - Real.log b - 2 * (t - b) / (t + b)) (Set.Ici b) := by
    refine monotoneOn_of_deriv_nonneg (convex_Ici b) ?_ ?_ ?_
    · intro t ht
      exact (phi_deriv b t hb (lt_of_lt_of_le hb ht)).continuousAt.continuousWithinAt
    · intro t ht
      rw [interior_Ici] at ht
      exact (phi_deriv b t hb (hb.trans ht)).differentiableAt.differentiableWithinAt
    · intro t ht
      rw [interior_Ici] at ht
      have h0 : 0 < t := hb.trans ht
      rw [(phi_deriv b t hb h0).deriv]
      positivity
  have := hmono (Set.mem_Ici.mpr le_rfl) (Set.mem_Ici.mpr hab) hab
  simp only [sub_self, mul_zero, zero_div] at this
  rw [Real.log_div (lt_of_lt_of_le hb hab).ne' hb.ne']
  linarith

/-- `ln(a/b) - 2(a-b)/(a+b) ≤ (a-b)³/(12 b³)` for `0 < b ≤ a` -/
theorem log_mid_upper {a b : ℝ} (hb : 0 < b) (hab : b ≤ a) :
    Real.log (a / b) - 2 * (a - b) / (a + b) ≤ (a - b) ^ 3 / (12 * b ^ 3) := by
  have hcube : ∀ t : ℝ, HasDerivAt (fun t : ℝ => (t - b) ^ 3 / (12 * b ^ 3))
      ((t - b) ^ 2 / (4 * b ^ 3)) t := by
    intro t
    have h0 : HasDerivAt (fun t : ℝ => t - b) 1 t := (hasDerivAt_id t).sub_const b
    have h1 : HasDerivAt (fun t : ℝ => (t - b) ^ 3) (3 * (t - b) ^ 2) t :=
      (h0.fun_pow 3).congr_deriv (by simp)
    refine (h1.div_const (12 * b ^ 3)).congr_deriv ?_
    field_simp; ring
  have hD : ∀ t : ℝ, 0 < t → HasDerivAt (fun t : ℝ => (t - b) ^ 3 / (12 * b ^ 3)
      - (Real.log t - Real.log b - 2 * (t - b) / (t + b)))
      ((t - b) ^ 2 / (4 * b ^ 3) - (t - b) ^ 2 / (t * (t + b) ^ 2)) t :=
    fun t ht => (hcube t).sub (phi_deriv b t hb ht)
  have hmono : MonotoneOn (fun t : ℝ => (t - b) ^ 3 / (12 * b ^ 3)
      - (Real.log t - Real.log b - 2 * (t - b) / (t + b))) (Set.Ici b) := by
    refine monotoneOn_of_deriv_nonneg (convex_Ici b) ?_ ?_ ?_
    · intro t ht
      exact (hD t (lt_of_lt_of_le hb ht)).continuousAt.continuousWithinAt
    · intro t ht
      rw [interior_Ici] at ht
      exact (hD t (hb.trans ht)).differentiableAt.differentiableWithinAt
    · intro t ht
      rw [interior_Ici] at ht
      have ht : b < t := ht
      have h0 : 0 < t := hb.trans ht
      rw [(hD t h0).deriv, sub_nonneg]
      have hden : 4 * b ^ 3 ≤ t * (t + b) ^ 2 := by
        have h1 : b ^ 3 ≤ t ^ 3 := pow_le_pow_left₀ hb.le ht.le 3
        nlinarith [mul_pos h0 hb, mul_pos (mul_pos h0 hb) hb, mul_pos (mul_pos h0 h0) hb, ht.le,
          mul_le_mul ht.le ht.le hb.le h0.le]
      exact div_le_div_of_nonneg_left (sq_nonneg _) (by positivity) hden
  have := hmono (Set.mem_Ici.mpr le_rfl) (Set.mem_Ici.mpr hab) hab
  simp only [sub_self, mul_zero, zero_div] at this
  rw [Real.log_div (lt_of_lt_of_le hb hab).ne' hb.ne']
  have h3 : (0:ℝ) ^ 3 / (12 * b ^ 3) = 0 := by simp
  rw [h3] at this
  linarith

/-! ### constant profiles -/

/-- trapezoid of a constant -/
theorem trapz_const (c : ℝ) : ∀ (p : List ℝ) (hne : p ≠ []),
    trapz p (List.replicate p.length c) = c * (p.getLast hne - p.head hne) := by
  intro p
  induction p with
  | nil => intro hne; exact absurd rfl hne
  | cons p0 ps ih =>
    intro hne
    rcases ps with _ | ⟨p1, ps'⟩
    · simp
    · have := ih (by simp)
      simp only [List.length_cons, List.replicate_succ, List.head_cons, List.getLast_cons_cons]
        at this ⊢
      rw [trapz_cons_cons, this]; ring

theorem zip_replicate_right (c : ℝ) : ∀ p : List ℝ,
    List.zip p (List.replicate p.length c) = p.map (fun pi => (pi, c))
  | [] => by simp
  | a :: l => by simp [List.replicate_succ, zip_replicate_right c l]

/-- the integrand `vmr · ρ_v(p, T)` of the general IWV form for constant `vmr`, `T` -/
theorem zipWith_const_profile (rhoV : ℝ → ℝ → ℝ) (x0 T0 : ℝ) (p : List ℝ) :
    List.zipWith (fun v (pt : ℝ × ℝ) => v * rhoV pt.1 pt.2) (List.replicate p.length x0)
        (List.zip p (List.replicate p.length T0))
      = p.map (fun pi => x0 * rhoV pi T0) := by
  rw [zip_replicate_right]
  induction p with
  | nil => simp
  | cons a l ih => simp [List.replicate_succ, ih]

/-! ### `pressure2height` of an isothermal column -/

theorem p2hAux_length (rho : ℝ → ℝ → ℝ) (g : ℝ) : ∀ (l : List (ℝ × ℝ)) (acc : ℝ),
    (p2hAux rho g acc l).length = l.length - 1 := by
  intro l
  induction l with
  | nil => intro acc; simp [p2hAux]
  | cons a l ih =>
    intro acc
    rcases l with _ | ⟨b, rest⟩
    · simp [p2hAux]
    · obtain ⟨p0, t0⟩ := a
      obtain ⟨p1, t1⟩ := b
      simp only [p2hAux, List.length_cons, ih]
      simp

theorem p2h_length (rho : ℝ → ℝ → ℝ) (g : ℝ) (p T : List ℝ) (hne : p ≠ [])
    (hlen : p.length = T.length) : (p2h rho g p T).length = p.length := by
  unfold p2h
  rw [List.length_cons, p2hAux_length, List.length_zip, ← hlen, min_self]
  have : 0 < p.length := List.length_pos_iff.mpr hne
  omega

/-- thickness of one isothermal layer -/
theorem iso_layer (R T0 g p0 p1 : ℝ) (hR : 0 < R) (hT : 0 < T0) (hg : 0 < g) (hp : 0 < p0 + p1) :
    -(p1 - p0) / ((p0 / (R * T0) + p1 / (R * T0)) / 2 * g)
      = R * T0 / g * (2 * (p0 - p1) / (p0 + p1)) := by
  field_simp
  ring

/-- Invariant of the running sum of `pressure2height` for `ρ = p/(R·T0)`: every height above
the start differs from `(R T0/g)·ln(p_start/p)` by at most
`(R T0/g)·δ²·(p_start - p)/(12 pmin³)` and never exceeds it. -/
theorem p2hAux_iso (R T0 g pmin δ : ℝ) (hR : 0 < R) (hT : 0 < T0) (hg : 0 < g) (hpm : 0 < pmin) :
    ∀ (p : List ℝ) (acc : ℝ), (∀ t ∈ p, pmin ≤ t) → p.IsChain (· ≥ ·) → mesh p ≤ δ →
    ∀ hp ∈ List.zip (p2hAux (fun p T => p / (R * T)) g acc (p.map fun pi => (pi, T0))) p.tail,
      R * T0 / g * Real.log (p.headD 0 / hp.2)
          - R * T0 / g * (δ ^ 2 * (p.headD 0 - hp.2) / (12 * pmin ^ 3)) ≤ hp.1 - acc ∧
        hp.1 - acc ≤ R * T0 / g * Real.log (p.headD 0 / hp.2) := by
  intro p
  induction p with
  | nil => intro acc _ _ _ hp h; simp [p2hAux] at h
  | cons p0 ps ih =>
    intro acc hmin hch hδ hp hmem
    rcases ps with _ | ⟨p1, ps'⟩
    · simp [p2hAux] at hmem
    · have h0 : pmin ≤ p0 := hmin p0 (by simp)
      have h1 : pmin ≤ p1 := hmin p1 (by simp)
      have hp0 : 0 < p0 := lt_of_lt_of_le hpm h0
      have hp1 : 0 < p1 := lt_of_lt_of_le hpm h1
      have h01 : p1 ≤ p0 := (List.isChain_cons_cons.mp hch).1
      have hH : 0 < R * T0 / g := by positivity
      rw [mesh_cons_cons] at hδ
      have hδ0 : |p1 - p0| ≤ δ := le_trans (le_max_left _ _) hδ
      have hδ' : mesh (p1 :: ps') ≤ δ := le_trans (le_max_right _ _) hδ
      have hd : p0 - p1 ≤ δ := by
        rw [abs_of_nonpos (by linarith)] at hδ0; linarith
      -- the first layer
      have hlo := log_mid_lower hp1 h01
      have hup := log_mid_upper hp1 h01
      have hcube : (p0 - p1) ^ 3 / (12 * p1 ^ 3) ≤ δ ^ 2 * (p0 - p1) / (12 * pmin ^ 3) := by
        have hnn : 0 ≤ p0 - p1 := by linarith
        have e1 : (p0 - p1) ^ 3 ≤ δ ^ 2 * (p0 - p1) := by
          have : (p0 - p1) ^ 2 ≤ δ ^ 2 := pow_le_pow_left₀ hnn hd 2
          nlinarith
        have e2 : 12 * pmin ^ 3 ≤ 12 * p1 ^ 3 := by
          have := pow_le_pow_left₀ hpm.le h1 3; linarith
        calc (p0 - p1) ^ 3 / (12 * p1 ^ 3) ≤ (p0 - p1) ^ 3 / (12 * pmin ^ 3) :=
              div_le_div_of_nonneg_left (by positivity) (by positivity) e2
          _ ≤ _ := div_le_div_of_nonneg_right e1 (by positivity)
      simp only [List.map_cons, p2hAux, List.tail_cons, List.zip_cons_cons, List.mem_cons,
        List.headD_cons] at hmem ⊢
      rw [iso_layer R T0 g p0 p1 hR hT hg (by linarith)] at hmem
      rcases hmem with rfl | hmem
      · simp only
        constructor
        · have : R * T0 / g * (Real.log (p0 / p1) - δ ^ 2 * (p0 - p1) / (12 * pmin ^ 3))
              ≤ R * T0 / g * (2 * (p0 - p1) / (p0 + p1)) :=
            mul_le_mul_of_nonneg_left (by linarith) hH.le
          linarith
        · have : R * T0 / g * (2 * (p0 - p1) / (p0 + p1)) ≤ R * T0 / g * Real.log (p0 / p1) :=
            mul_le_mul_of_nonneg_left hlo hH.le
          linarith
      · have IH := ih (acc + R * T0 / g * (2 * (p0 - p1) / (p0 + p1)))
          (fun t ht => hmin t (List.mem_cons_of_mem _ ht)) (List.isChain_cons_cons.mp hch).2 hδ'
          hp (by simpa [List.map_cons] using hmem)
        simp only [List.headD_cons] at IH
        have hpk : 0 < hp.2 := by
          have : hp.2 ∈ ps' := (List.of_mem_zip hmem).2
          exact lt_of_lt_of_le hpm (hmin _ (by simp [this]))
        have hlog : Real.log (p0 / hp.2) = Real.log (p0 / p1) + Real.log (p1 / hp.2) := by
          rw [Real.log_div hp0.ne' hpk.ne', Real.log_div hp0.ne' hp1.ne',
            Real.log_div hp1.ne' hpk.ne']; ring
        rw [hlog]
        have a1 : R * T0 / g * (Real.log (p0 / p1) - δ ^ 2 * (p0 - p1) / (12 * pmin ^ 3))
              ≤ R * T0 / g * (2 * (p0 - p1) / (p0 + p1)) :=
            mul_le_mul_of_nonneg_left (by linarith) hH.le
        have a2 : R * T0 / g * (2 * (p0 - p1) / (p0 + p1)) ≤ R * T0 / g * Real.log (p0 / p1) :=
            mul_le_mul_of_nonneg_left hlo hH.le
        have e3 : δ ^ 2 * (p0 - hp.2) / (12 * pmin ^ 3)
            = δ ^ 2 * (p0 - p1) / (12 * pmin ^ 3) + δ ^ 2 * (p1 - hp.2) / (12 * pmin ^ 3) := by
          field_simp; ring
        rw [e3]
        constructor
        · nlinarith [IH.1, a1]
        · nlinarith [IH.2, a2]

/-! ### the exponential pressure profile `p(z) = p0·exp(-z/H)` and the log-pressure grid -/

theorem expProfile_hasDerivAt (p0 H t : ℝ) :
    HasDerivAt (fun t : ℝ => p0 * Real.exp (-t / H)) (-(p0 / H) * Real.exp (-t / H)) t := by
  have h1 : HasDerivAt (fun t : ℝ => -t / H) (-1 / H) t := by
    simpa using ((hasDerivAt_id t).neg).div_const H
  have := (h1.exp).const_mul p0
  refine this.congr_deriv ?_
  ring

theorem expProfile_hasDerivAt2 (p0 H t : ℝ) :
    HasDerivAt (fun t : ℝ => -(p0 / H) * Real.exp (-t / H)) (p0 / H ^ 2 * Real.exp (-t / H)) t := by
  have h1 : HasDerivAt (fun t : ℝ => -t / H) (-1 / H) t := by
    simpa using ((hasDerivAt_id t).neg).div_const H
  have := (h1.exp).const_mul (-(p0 / H))
  refine this.congr_deriv ?_
  ring

/-- `p0·exp(-z/H)` satisfies the hypotheses of `trapz_err_le` on `z ≥ 0` with `M = p0/H²` -/
theorem expProfile_semiconvex (p0 H : ℝ) (hp0 : 0 ≤ p0) (hH : 0 < H) :
    ConvexOn ℝ (Set.Ici (0:ℝ)) (fun t => p0 * Real.exp (-t / H) + p0 / H ^ 2 / 2 * t ^ 2) ∧
      ConvexOn ℝ (Set.Ici (0:ℝ)) (fun t => p0 / H ^ 2 / 2 * t ^ 2 - p0 * Real.exp (-t / H)) := by
  refine semiconvex_of_deriv2_bound (convex_Ici 0) (by fun_prop)
    (fun t _ => expProfile_hasDerivAt p0 H t) (fun t _ => expProfile_hasDerivAt2 p0 H t) ?_
  intro t ht
  rw [interior_Ici] at ht
  have ht : 0 < t := ht
  have hM : 0 ≤ p0 / H ^ 2 := by positivity
  rw [abs_of_nonneg (mul_nonneg hM (Real.exp_pos _).le)]
  have : Real.exp (-t / H) ≤ 1 := by
    rw [Real.exp_le_one_iff]
    have : 0 < t / H := div_pos ht hH
    rw [neg_div]; linarith
  calc p0 / H ^ 2 * Real.exp (-t / H) ≤ p0 / H ^ 2 * 1 := mul_le_mul_of_nonneg_left this hM
    _ = _ := mul_one _

theorem expProfile_integral (p0 H Z : ℝ) (hH : H ≠ 0) :
    ∫ t in (0:ℝ)..Z, p0 * Real.exp (-t / H) = H * (p0 - p0 * Real.exp (-Z / H)) := by
  have h : ∀ t ∈ Set.uIcc 0 Z,
      HasDerivAt (fun t : ℝ => -H * (p0 * Real.exp (-t / H))) (p0 * Real.exp (-t / H)) t := by
    intro t _
    refine ((expProfile_hasDerivAt p0 H t).const_mul (-H)).congr_deriv ?_
    field_simp
  rw [intervalIntegral.integral_eq_sub_of_hasDerivAt h]
  · simp; ring
  · exact (by fun_prop : Continuous fun t : ℝ => p0 * Real.exp (-t / H)).intervalIntegrable _ _

/-- the pressure profile takes the value `pi` at the height `H·ln(p0/pi)` -/
theorem expProfile_at_logheight (p0 H pi : ℝ) (hp0 : 0 < p0) (hpi : 0 < pi) (hH : H ≠ 0) :
    p0 * Real.exp (-(H * Real.log (p0 / pi)) / H) = pi := by
  have : -(H * Real.log (p0 / pi)) / H = Real.log (pi / p0) := by
    rw [Real.log_div hp0.ne' hpi.ne', Real.log_div hpi.ne' hp0.ne']; field_simp; ring
  rw [this, Real.exp_log (div_pos hpi hp0)]; field_simp

/-- a map that is `K`-Lipschitz on `S` scales the mesh of grids inside `S` by at most `K` -/
theorem mesh_map_le (φ : ℝ → ℝ) (K : ℝ) (hK : 0 ≤ K) (S : Set ℝ)
    (hL : ∀ u ∈ S, ∀ v ∈ S, |φ u - φ v| ≤ K * |u - v|) :
    ∀ x : List ℝ, (∀ t ∈ x, t ∈ S) → mesh (x.map φ) ≤ K * mesh x := by
  intro x
  induction x with
  | nil => intro _; simp
  | cons a l ih =>
    intro hmem
    rcases l with _ | ⟨b, l'⟩
    · simp
    · have IH := ih (fun t ht => hmem t (List.mem_cons_of_mem _ ht))
      simp only [List.map_cons, mesh_cons_cons] at IH ⊢
      apply max_le
      · exact le_trans (hL b (hmem b (by simp)) a (hmem a (by simp)))
          (mul_le_mul_of_nonneg_left (le_max_left _ _) hK)
      · exact le_trans IH (mul_le_mul_of_nonneg_left (le_max_right _ _) hK)

/-- `p ↦ H·ln(p0/p)` is `H/pmin`-Lipschitz on `p ≥ pmin > 0` -/
theorem logheight_lipschitz (H p0 pmin : ℝ) (hH : 0 ≤ H) (hp0 : 0 < p0) (hpm : 0 < pmin) :
    ∀ u ∈ Set.Ici pmin, ∀ v ∈ Set.Ici pmin,
      |H * Real.log (p0 / u) - H * Real.log (p0 / v)| ≤ H / pmin * |u - v| := by
  have key : ∀ u v : ℝ, pmin ≤ u → u ≤ v → Real.log v - Real.log u ≤ (v - u) / pmin ∧
      0 ≤ Real.log v - Real.log u := by
    intro u v hu huv
    have hu0 : 0 < u := lt_of_lt_of_le hpm hu
    have hv0 : 0 < v := lt_of_lt_of_le hu0 huv
    have h1 : Real.log (v / u) ≤ v / u - 1 := Real.log_le_sub_one_of_pos (div_pos hv0 hu0)
    rw [Real.log_div hv0.ne' hu0.ne'] at h1
    have h2 : v / u - 1 = (v - u) / u := by field_simp
    have h3 : (v - u) / u ≤ (v - u) / pmin :=
      div_le_div_of_nonneg_left (by linarith) hpm hu
    exact ⟨by linarith, sub_nonneg.mpr (Real.log_le_log hu0 huv)⟩
  intro u hu v hv
  have hu0 : 0 < u := lt_of_lt_of_le hpm hu
  have hv0 : 0 < v := lt_of_lt_of_le hpm hv
  rw [Real.log_div hp0.ne' hu0.ne', Real.log_div hp0.ne' hv0.ne']
  have e : H * (Real.log p0 - Real.log u) - H * (Real.log p0 - Real.log v)
      = H * (Real.log v - Real.log u) := by ring
  rw [e, abs_mul, abs_of_nonneg hH, div_mul_eq_mul_div, mul_div_assoc]
  apply mul_le_mul_of_nonneg_left _ hH
  rcases le_total u v with huv | hvu
  · obtain ⟨k1, k2⟩ := key u v hu huv
    rw [abs_of_nonneg k2, abs_of_nonpos (by linarith)]
    simpa using k1
  · obtain ⟨k1, k2⟩ := key v u hv hvu
    rw [abs_of_nonpos (by linarith), abs_of_nonneg (by linarith)]
    linarith

/-- members of a non-increasing grid lie between its last and first point -/
theorem chain_ge_bounds : ∀ (p : List ℝ) (hne : p ≠ []), p.IsChain (· ≥ ·) →
    ∀ t ∈ p, p.getLast hne ≤ t ∧ t ≤ p.head hne := by
  intro p
  induction p with
  | nil => intro hne; exact absurd rfl hne
  | cons p0 ps ih =>
    intro hne hch t ht
    rcases ps with _ | ⟨p1, ps'⟩
    · simp only [List.mem_singleton] at ht; subst ht; simp
    · have h01 : p1 ≤ p0 := (List.isChain_cons_cons.mp hch).1
      have IH := ih (by simp) (List.isChain_cons_cons.mp hch).2
      simp only [List.head_cons, List.getLast_cons_cons] at IH ⊢
      rcases List.mem_cons.mp ht with rfl | ht'
      · exact ⟨le_trans (IH p1 (by simp)).1 h01, le_rfl⟩
      · exact ⟨(IH t ht').1, le_trans (IH t ht').2 h01⟩

/-- members of a non-decreasing grid lie between its first and last point -/
theorem chain_le_bounds : ∀ (p : List ℝ) (hne : p ≠ []), p.IsChain (· ≤ ·) →
    ∀ t ∈ p, p.head hne ≤ t ∧ t ≤ p.getLast hne := by
  intro p
  induction p with
  | nil => intro hne; exact absurd rfl hne
  | cons p0 ps ih =>
    intro hne hch t ht
    rcases ps with _ | ⟨p1, ps'⟩
    · simp only [List.mem_singleton] at ht; subst ht; simp
    · have h01 : p0 ≤ p1 := (List.isChain_cons_cons.mp hch).1
      have IH := ih (by simp) (List.isChain_cons_cons.mp hch).2
      simp only [List.head_cons, List.getLast_cons_cons] at IH ⊢
      rcases List.mem_cons.mp ht with rfl | ht'
      · exact ⟨le_rfl, le_trans h01 (IH p1 (by simp)).2⟩
      · exact ⟨le_trans h01 (IH t ht').1, (IH t ht').2⟩

/-- the log-pressure heights of a non-increasing positive pressure grid are non-decreasing -/
theorem chain_map_logheight (H p0 : ℝ) (hH : 0 ≤ H) (hp0 : 0 < p0) : ∀ p : List ℝ,
    (∀ t ∈ p, 0 < t) → p.IsChain (· ≥ ·) →
    (p.map fun pi => H * Real.log (p0 / pi)).IsChain (· ≤ ·) := by
  intro p
  induction p with
  | nil => intro _ _; simp
  | cons a l ih =>
    intro hpos hch
    rcases l with _ | ⟨b, l'⟩
    · simp
    · have hab : b ≤ a := (List.isChain_cons_cons.mp hch).1
      have ha : 0 < a := hpos a (by simp)
      have hb : 0 < b := hpos b (by simp)
      have IH := ih (fun t ht => hpos t (List.mem_cons_of_mem _ ht)) (List.isChain_cons_cons.mp hch).2
      simp only [List.map_cons] at IH ⊢
      refine List.isChain_cons_cons.mpr ⟨?_, IH⟩
      apply mul_le_mul_of_nonneg_left _ hH
      apply Real.log_le_log (div_pos hp0 ha)
      exact div_le_div_of_nonneg_left hp0.le hb hab

/-- **trapezoid of `p` over the log-pressure heights** `z_i = H·ln(p0/p_i)` of a non-increasing
positive grid starting at `p0`: it differs from `H·(p0 - p_last)` (= `∫ p0·exp(-z/H) dz`) by at
most `p0/(12H²)·mesh(z)²·z_last`. -/
theorem trapz_loggrid_err (H : ℝ) (hH : 0 < H) (p : List ℝ) (hne : p ≠ [])
    (hpos : ∀ t ∈ p, 0 < t) (hch : p.IsChain (· ≥ ·)) :
    |trapz (p.map fun pi => H * Real.log (p.head hne / pi)) p
        - H * (p.head hne - p.getLast hne)|
      ≤ p.head hne / H ^ 2 / 12 * (mesh (p.map fun pi => H * Real.log (p.head hne / pi))) ^ 2
          * (H * Real.log (p.head hne / p.getLast hne)) := by
  set p0 := p.head hne with hp0def
  have hp0 : 0 < p0 := hpos _ (List.head_mem hne)
  have hlast : 0 < p.getLast hne := hpos _ (List.getLast_mem hne)
  set ζ : ℝ → ℝ := fun pi => H * Real.log (p0 / pi) with hζ
  set f : ℝ → ℝ := fun t => p0 * Real.exp (-t / H) with hf
  have hzne : p.map ζ ≠ [] := by simpa using hne
  have hpf : (p.map ζ).map f = p := by
    rw [List.map_map]
    conv_rhs => rw [← List.map_id p]
    apply List.map_congr_left
    intro t ht
    simp only [Function.comp, id, hf, hζ]
    exact expProfile_at_logheight p0 H t hp0 (hpos t ht) hH.ne'
  obtain ⟨h1, h2⟩ := expProfile_semiconvex p0 H hp0.le hH
  have hmem : ∀ t ∈ p.map ζ, t ∈ Set.Ici (0:ℝ) := by
    intro t ht
    obtain ⟨u, hu, rfl⟩ := List.mem_map.mp ht
    have hle : u ≤ p0 := (chain_ge_bounds p hne hch u hu).2
    have : 1 ≤ p0 / u := by rw [le_div_iff₀ (hpos u hu)]; linarith
    exact mul_nonneg hH.le (Real.log_nonneg this)
  have E := trapz_err_le (s := Set.Ici 0) (f := f) (M := p0 / H ^ 2) (by positivity) h1 h2
    (by fun_prop) (p.map ζ) hzne hmem (mesh (p.map ζ)) le_rfl
  have hhead : (p.map ζ).head hzne = 0 := by
    rw [List.head_map]; simp [hζ, ← hp0def, div_self hp0.ne']
  have hgl : (p.map ζ).getLast hzne = ζ (p.getLast hne) := by
    rw [List.getLast_map]
  have hpl : pathLen (p.map ζ) = ζ (p.getLast hne) := by
    rw [pathLen_of_increasing _ hzne (chain_map_logheight H p0 hH.le hp0 p hpos hch), hhead, hgl]
    ring
  rw [hpf, hhead, hgl, hpl, expProfile_integral p0 H _ hH.ne'] at E
  have hval : p0 * Real.exp (-ζ (p.getLast hne) / H) = p.getLast hne :=
    expProfile_at_logheight p0 H _ hp0 hlast hH.ne'
  rw [hval] at E
  exact E

/-- one-sided: the trapezoid over the log-pressure heights never falls below `H·(p_first - p_last)`
(the chord of the convex profile `p0·exp(-z/H)` lies above it) -/
theorem trapz_loggrid_ge (H p0 : ℝ) (hH : 0 ≤ H) (hp0 : 0 < p0) : ∀ (p : List ℝ) (hne : p ≠ []),
    (∀ t ∈ p, 0 < t) → p.IsChain (· ≥ ·) →
    H * (p.head hne - p.getLast hne) ≤ trapz (p.map fun pi => H * Real.log (p0 / pi)) p := by
  intro p
  induction p with
  | nil => intro hne; exact absurd rfl hne
  | cons a l ih =>
    intro hne hpos hch
    rcases l with _ | ⟨b, l'⟩
    · simp
    · have hab : b ≤ a := (List.isChain_cons_cons.mp hch).1
      have ha : 0 < a := hpos a (by simp)
      have hb : 0 < b := hpos b (by simp)
      have IH := ih (by simp) (fun t ht => hpos t (List.mem_cons_of_mem _ ht))
        (List.isChain_cons_cons.mp hch).2
      simp only [List.map_cons, List.head_cons, List.getLast_cons_cons, trapz_cons_cons] at IH ⊢
      have hlog : H * Real.log (p0 / b) - H * Real.log (p0 / a) = H * Real.log (a / b) := by
        rw [Real.log_div hp0.ne' hb.ne', Real.log_div hp0.ne' ha.ne', Real.log_div ha.ne' hb.ne']
        ring
      rw [hlog]
      have hlo := log_mid_lower hb hab
      have hsum : 0 < a + b := by linarith
      have h1 : a - b ≤ Real.log (a / b) * (a + b) / 2 := by
        rw [div_le_iff₀ hsum] at hlo
        linarith
      have h2 : H * (a - b) ≤ H * (Real.log (a / b) * (a + b) / 2) :=
        mul_le_mul_of_nonneg_left h1 hH
      nlinarith [h2, IH]

/-- every layer of `pressure2height` for `ρ = p/(R·T0)`: exact thickness and the two one-sided
bounds, as a chain relation on the (height, pressure) pairs -/
theorem p2hAux_iso_layers (R T0 g : ℝ) (hR : 0 < R) (hT : 0 < T0) (hg : 0 < g) :
    ∀ (p : List ℝ) (acc : ℝ), (∀ t ∈ p, 0 < t) → p.IsChain (· ≥ ·) →
    (List.zip (acc :: p2hAux (fun p T => p / (R * T)) g acc (p.map fun pi => (pi, T0))) p).IsChain
      (fun a b : ℝ × ℝ => b.1 - a.1 = R * T0 / g * (2 * (a.2 - b.2) / (a.2 + b.2)) ∧
        R * T0 / g * ((a.2 - b.2) / a.2) ≤ b.1 - a.1 ∧
        b.1 - a.1 ≤ R * T0 / g * ((a.2 - b.2) / b.2)) := by
  intro p
  induction p with
  | nil => intro acc _ _; simp
  | cons p0 ps ih =>
    intro acc hpos hch
    rcases ps with _ | ⟨p1, ps'⟩
    · simp [p2hAux]
    · have hp0 : 0 < p0 := hpos p0 (by simp)
      have hp1 : 0 < p1 := hpos p1 (by simp)
      have h01 : p1 ≤ p0 := (List.isChain_cons_cons.mp hch).1
      have hH : 0 < R * T0 / g := by positivity
      have IH := ih (acc + R * T0 / g * (2 * (p0 - p1) / (p0 + p1)))
        (fun t ht => hpos t (List.mem_cons_of_mem _ ht)) (List.isChain_cons_cons.mp hch).2
      simp only [List.map_cons, p2hAux, List.zip_cons_cons] at IH ⊢
      rw [iso_layer R T0 g p0 p1 hR hT hg (by linarith)]
      refine List.isChain_cons_cons.mpr ⟨?_, IH⟩
      simp only
      have hsum : 0 < p0 + p1 := by linarith
      refine ⟨by ring, ?_, ?_⟩
      · have : (p0 - p1) / p0 ≤ 2 * (p0 - p1) / (p0 + p1) := by
          rw [div_le_div_iff₀ hp0 hsum]; nlinarith
        have := mul_le_mul_of_nonneg_left this hH.le
        linarith
      · have : 2 * (p0 - p1) / (p0 + p1) ≤ (p0 - p1) / p1 := by
          rw [div_le_div_iff₀ hsum hp1]; nlinarith
        have := mul_le_mul_of_nonneg_left this hH.le
        linarith

theorem p2h_ne_nil (rho : ℝ → ℝ → ℝ) (g : ℝ) (p T : List ℝ) : p2h rho g p T ≠ [] := by
  simp [p2h]

/-- `pressure2height` with a constant temperature profile -/
theorem p2h_const_T (rho : ℝ → ℝ → ℝ) (g T0 : ℝ) (p : List ℝ) :
    p2h rho g p (List.replicate p.length T0) = 0 :: p2hAux rho g 0 (p.map fun pi => (pi, T0)) := by
  simp [p2h, zip_replicate_right]

/-- the pair of last elements of two equally long non-empty lists is the last pair of their zip -/
theorem getLast_pair_mem_zip {α β : Type} : ∀ (l1 : List α) (l2 : List β) (h1 : l1 ≠ [])
    (h2 : l2 ≠ []), l1.length = l2.length → (l1.getLast h1, l2.getLast h2) ∈ List.zip l1 l2 := by
  intro l1
  induction l1 with
  | nil => intro _ h1; exact absurd rfl h1
  | cons a l1' ih =>
    intro l2 h1 h2 hlen
    rcases l2 with _ | ⟨b, l2'⟩
    · exact absurd rfl h2
    · rcases l1' with _ | ⟨a', l1''⟩
      · have : l2' = [] := by simpa using hlen.symm
        subst this; simp
      · rcases l2' with _ | ⟨b', l2''⟩
        · simp at hlen
        · have := ih (b' :: l2'') (by simp) (by simp) (by simpa using hlen)
          simp only [List.getLast_cons_cons, List.zip_cons_cons] at this ⊢
          exact List.mem_cons_of_mem _ this

/-! ### uniform grids (`numpy.linspace`) -/

/-- `a, a+h, …, a+n·h` -/
noncomputable def ugrid (a h : ℝ) : ℕ → List ℝ
  | 0 => [a]
  | n + 1 => a :: ugrid (a + h) h n

/-- `numpy.linspace(a, b, n+1)` (as real numbers) -/
noncomputable def linspace (a b : ℝ) (n : ℕ) : List ℝ := ugrid a ((b - a) / n) n

theorem ugrid_ne_nil (a h : ℝ) (n : ℕ) : ugrid a h n ≠ [] := by cases n <;> simp [ugrid]

theorem ugrid_length (a h : ℝ) (n : ℕ) : (ugrid a h n).length = n + 1 := by
  induction n generalizing a with
  | zero => simp [ugrid]
  | succ n ih => simp [ugrid, ih]

theorem ugrid_head (a h : ℝ) (n : ℕ) : (ugrid a h n).head (ugrid_ne_nil a h n) = a := by
  cases n <;> simp [ugrid]

theorem ugrid_getLast (a h : ℝ) (n : ℕ) :
    (ugrid a h n).getLast (ugrid_ne_nil a h n) = a + n * h := by
  induction n generalizing a with
  | zero => simp [ugrid]
  | succ n ih =>
    have := ih (a + h)
    simp only [ugrid]
    rw [List.getLast_cons (ugrid_ne_nil _ _ _), this]
    push_cast; ring

theorem ugrid_mesh_le (a h : ℝ) (n : ℕ) : mesh (ugrid a h n) ≤ |h| := by
  induction n generalizing a with
  | zero => simp [ugrid]
  | succ n ih =>
    have IH := ih (a + h)
    cases n with
    | zero => simp [ugrid]
    | succ m =>
      simp only [ugrid] at IH ⊢
      rw [mesh_cons_cons]
      exact max_le (by simp) IH

theorem ugrid_chain_ge (a h : ℝ) (hh : h ≤ 0) (n : ℕ) : (ugrid a h n).IsChain (· ≥ ·) := by
  induction n generalizing a with
  | zero => simp [ugrid]
  | succ n ih =>
    have IH := ih (a + h)
    cases n with
    | zero => simp [ugrid]; linarith
    | succ m =>
      simp only [ugrid] at IH ⊢
      exact List.isChain_cons_cons.mpr ⟨by linarith, IH⟩

theorem ugrid_chain_le (a h : ℝ) (hh : 0 ≤ h) (n : ℕ) : (ugrid a h n).IsChain (· ≤ ·) := by
  induction n generalizing a with
  | zero => simp [ugrid]
  | succ n ih =>
    have IH := ih (a + h)
    cases n with
    | zero => simp [ugrid]; linarith
    | succ m =>
      simp only [ugrid] at IH ⊢
      exact List.isChain_cons_cons.mpr ⟨by linarith, IH⟩

theorem linspace_ne_nil (a b : ℝ) (n : ℕ) : linspace a b n ≠ [] := ugrid_ne_nil _ _ _
theorem linspace_length (a b : ℝ) (n : ℕ) : (linspace a b n).length = n + 1 := ugrid_length _ _ _
theorem linspace_head (a b : ℝ) (n : ℕ) : (linspace a b n).head (linspace_ne_nil a b n) = a :=
  ugrid_head _ _ _
theorem linspace_getLast (a b : ℝ) (n : ℕ) (hn : n ≠ 0) :
    (linspace a b n).getLast (linspace_ne_nil a b n) = b := by
  have hn' : (n : ℝ) ≠ 0 := by exact_mod_cast hn
  unfold linspace
  rw [ugrid_getLast]; field_simp; ring
theorem linspace_mesh_le (a b : ℝ) (n : ℕ) : mesh (linspace a b n) ≤ |b - a| / n := by
  have := ugrid_mesh_le a ((b - a) / n) n
  rwa [abs_div, Nat.abs_cast] at this
theorem linspace_chain_ge (a b : ℝ) (hab : b ≤ a) (n : ℕ) : (linspace a b n).IsChain (· ≥ ·) :=
  ugrid_chain_ge _ _ (div_nonpos_of_nonpos_of_nonneg (by linarith) (Nat.cast_nonneg n)) n
theorem linspace_chain_le (a b : ℝ) (hab : a ≤ b) (n : ℕ) : (linspace a b n).IsChain (· ≤ ·) :=
  ugrid_chain_le _ _ (div_nonneg (by linarith) (Nat.cast_nonneg n)) n


/-! ### generic two-point quadrature sums and Riemann–Stieltjes type convergence -/

/-- `∑ t(x_i, x_{i+1})` over consecutive grid points -/
noncomputable def pairSum (t : ℝ → ℝ → ℝ) : List ℝ → ℝ
  | x0 :: x1 :: xs => t x0 x1 + pairSum t (x1 :: xs)
  | _ => 0

@[simp] theorem pairSum_nil (t : ℝ → ℝ → ℝ) : pairSum t [] = 0 := by simp [pairSum]
@[simp] theorem pairSum_single (t : ℝ → ℝ → ℝ) (a : ℝ) : pairSum t [a] = 0 := by simp [pairSum]
@[simp] theorem pairSum_cons_cons (t : ℝ → ℝ → ℝ) (a b : ℝ) (l : List ℝ) :
    pairSum t (a :: b :: l) = t a b + pairSum t (b :: l) := by simp [pairSum]

/-- if every term approximates the integral of `φ` over its segment up to `ε·|segment|`
(for segments no longer than `δ`), the sum approximates the integral up to `ε·∑|segments|` -/
theorem pairSum_err_le {S : Set ℝ} (hS : Convex ℝ S) {t : ℝ → ℝ → ℝ} {φ : ℝ → ℝ}
    (hφ : ContinuousOn φ S) {ε δ : ℝ}
    (hseg : ∀ u ∈ S, ∀ v ∈ S, |v - u| ≤ δ → |t u v - ∫ s in u..v, φ s| ≤ ε * |v - u|) :
    ∀ (x : List ℝ) (hne : x ≠ []), (∀ s ∈ x, s ∈ S) → mesh x ≤ δ →
    |pairSum t x - ∫ s in (x.head hne)..(x.getLast hne), φ s| ≤ ε * pathLen x := by
  intro x
  induction x with
  | nil => intro hne; exact absurd rfl hne
  | cons x0 xs ih =>
    intro hne hmem hδ
    rcases xs with _ | ⟨x1, xs'⟩
    · simp
    · have hx0 : x0 ∈ S := hmem x0 (by simp)
      have hx1 : x1 ∈ S := hmem x1 (by simp)
      have hmem' : ∀ s ∈ x1 :: xs', s ∈ S := fun s hs => hmem s (List.mem_cons_of_mem _ hs)
      have hlast : (x1 :: xs').getLast (by simp) ∈ S := hmem' _ (List.getLast_mem _)
      rw [mesh_cons_cons] at hδ
      have hδ0 : |x1 - x0| ≤ δ := le_trans (le_max_left _ _) hδ
      have hδ' : mesh (x1 :: xs') ≤ δ := le_trans (le_max_right _ _) hδ
      have IH := ih (by simp) hmem' hδ'
      have Sg := hseg x0 hx0 x1 hx1 hδ0
      have i01 := intervalIntegrable_of_mem hS hφ hx0 hx1
      have i1l := intervalIntegrable_of_mem hS hφ hx1 hlast
      simp only [List.head_cons, List.getLast_cons_cons, pairSum_cons_cons,
        pathLen_cons_cons] at IH ⊢
      rw [← intervalIntegral.integral_add_adjacent_intervals i01 i1l]
      calc _ = |(t x0 x1 - ∫ s in x0..x1, φ s)
              + (pairSum t (x1 :: xs') - ∫ s in x1..(x1 :: xs').getLast (by simp), φ s)| := by
            congr 1; ring
        _ ≤ _ := abs_add_le _ _
        _ ≤ ε * |x1 - x0| + ε * pathLen (x1 :: xs') := add_le_add Sg IH
        _ = _ := by ring

/-- one Riemann–Stieltjes segment: `Z v - Z u = ∫_u^v ζ`, `c` within `ε` of `F` on the segment -/
theorem rs_seg_le {S : Set ℝ} (hS : Convex ℝ S) {F ζ Z : ℝ → ℝ} (hF : ContinuousOn F S)
    (hζ : ContinuousOn ζ S) {L : ℝ} (hL : ∀ s ∈ S, |ζ s| ≤ L)
    (hZ : ∀ u ∈ S, ∀ v ∈ S, Z v - Z u = ∫ s in u..v, ζ s) {u v c ε : ℝ} (hu : u ∈ S) (hv : v ∈ S)
    (hc : ∀ s ∈ Set.uIcc u v, |c - F s| ≤ ε) :
    |(Z v - Z u) * c - ∫ s in u..v, F s * ζ s| ≤ ε * L * |v - u| := by
  have hsub : Set.uIcc u v ⊆ S := hS.ordConnected.uIcc_subset hu hv
  have iζ : IntervalIntegrable ζ volume u v := intervalIntegrable_of_mem hS hζ hu hv
  have iFζ : IntervalIntegrable (fun s => F s * ζ s) volume u v :=
    intervalIntegrable_of_mem hS (hF.mul hζ) hu hv
  have icζ : IntervalIntegrable (fun s => c * ζ s) volume u v := iζ.const_mul c
  have e : (Z v - Z u) * c - ∫ s in u..v, F s * ζ s = ∫ s in u..v, (c - F s) * ζ s := by
    rw [hZ u hu v hv, mul_comm, ← intervalIntegral.integral_const_mul,
      ← intervalIntegral.integral_sub icζ iFζ]
    congr 1; funext s; ring
  rw [e]
  have := intervalIntegral.norm_integral_le_of_norm_le_const (a := u) (b := v)
    (f := fun s => (c - F s) * ζ s) (C := ε * L) (by
      intro s hs
      have hs' : s ∈ Set.uIcc u v := Set.uIoc_subset_uIcc hs
      rw [Real.norm_eq_abs, abs_mul]
      exact mul_le_mul (hc s hs') (hL s (hsub hs')) (abs_nonneg _)
        (le_trans (abs_nonneg _) (hc s hs')))
  simpa [Real.norm_eq_abs] using this

/-- uniform continuity on `[a, b]` in `ε`–`δ` form with non-strict inequalities -/
theorem uc_Icc {a b : ℝ} {f : ℝ → ℝ} (hf : ContinuousOn f (Set.Icc a b)) :
    ∀ ε > 0, ∃ δ > 0, ∀ u ∈ Set.Icc a b, ∀ v ∈ Set.Icc a b, |v - u| ≤ δ → |f v - f u| ≤ ε := by
  intro ε hε
  have huc := isCompact_Icc.uniformContinuousOn_of_continuous hf
  obtain ⟨δ0, hδ0, h⟩ := Metric.uniformContinuousOn_iff.mp huc ε hε
  refine ⟨δ0 / 2, by positivity, fun u hu v hv huv => ?_⟩
  have := h v hv u hu (by rw [Real.dist_eq]; linarith)
  rw [Real.dist_eq] at this
  exact this.le

/-- the mean of the two end values is uniformly close to `f` on short segments -/
theorem mean_consistent {a b : ℝ} {f : ℝ → ℝ} (hf : ContinuousOn f (Set.Icc a b)) :
    ∀ ε > 0, ∃ δ > 0, ∀ u ∈ Set.Icc a b, ∀ v ∈ Set.Icc a b, |v - u| ≤ δ →
      ∀ s ∈ Set.uIcc u v, |(f u + f v) / 2 - f s| ≤ ε := by
  intro ε hε
  obtain ⟨δ, hδ, h⟩ := uc_Icc hf ε hε
  refine ⟨δ, hδ, fun u hu v hv huv s hs => ?_⟩
  have hsI : s ∈ Set.Icc a b := (convex_Icc a b).ordConnected.uIcc_subset hu hv hs
  have h1 : |s - u| ≤ |v - u| := Set.abs_sub_left_of_mem_uIcc hs
  have h2 : |v - s| ≤ |v - u| := Set.abs_sub_right_of_mem_uIcc hs
  have e1 := h s hsI u hu (by rw [abs_sub_comm]; linarith)
  have e2 := h s hsI v hv (by linarith)
  have : (f u + f v) / 2 - f s = ((f u - f s) + (f v - f s)) / 2 := by ring
  rw [this, abs_div, abs_two, div_le_iff₀ two_pos]
  exact (abs_add_le _ _).trans (by linarith)

/-- `-1/(mean(ρ_u, ρ_v)·g)` is uniformly close to `-1/(ρ·g)` on short segments (`ρ > 0` continuous) -/
theorem invmean_consistent {a b g : ℝ} {ρ : ℝ → ℝ} (hg : 0 < g)
    (hρ : ContinuousOn ρ (Set.Icc a b)) (hpos : ∀ s ∈ Set.Icc a b, 0 < ρ s) :
    ∀ ε > 0, ∃ δ > 0, ∀ u ∈ Set.Icc a b, ∀ v ∈ Set.Icc a b, |v - u| ≤ δ →
      ∀ s ∈ Set.uIcc u v, |-1 / ((ρ u + ρ v) / 2 * g) - -1 / (ρ s * g)| ≤ ε := by
  intro ε hε
  rcases (Set.Icc a b).eq_empty_or_nonempty with hE | hN
  · exact ⟨1, one_pos, fun u hu => by simp [hE] at hu⟩
  obtain ⟨x0, hx0, hmin⟩ := isCompact_Icc.exists_isMinOn hN hρ
  have hc : 0 < ρ x0 := hpos x0 hx0
  have hmin' : ∀ s ∈ Set.Icc a b, ρ x0 ≤ ρ s := fun s hs => hmin hs
  obtain ⟨δ, hδ, h⟩ := mean_consistent hρ (ε * (ρ x0 ^ 2 * g)) (by positivity)
  refine ⟨δ, hδ, fun u hu v hv huv s hs => ?_⟩
  have hsI : s ∈ Set.Icc a b := (convex_Icc a b).ordConnected.uIcc_subset hu hv hs
  have hm := h u hu v hv huv s hs
  have hM : ρ x0 ≤ (ρ u + ρ v) / 2 := by linarith [hmin' u hu, hmin' v hv]
  have hs0 : ρ x0 ≤ ρ s := hmin' s hsI
  have hMpos : 0 < (ρ u + ρ v) / 2 := lt_of_lt_of_le hc hM
  have hspos : 0 < ρ s := lt_of_lt_of_le hc hs0
  have e : -1 / ((ρ u + ρ v) / 2 * g) - -1 / (ρ s * g)
      = ((ρ u + ρ v) / 2 - ρ s) / ((ρ u + ρ v) / 2 * ρ s * g) := by
    have aux : ∀ M r : ℝ, 0 < M → 0 < r → -1 / (M * g) - -1 / (r * g) = (M - r) / (M * r * g) := by
      intro M r hM hr; field_simp; ring
    exact aux _ _ hMpos hspos
  rw [e, abs_div, abs_of_pos (by positivity : 0 < (ρ u + ρ v) / 2 * ρ s * g), div_le_iff₀ (by positivity)]
  have hden : ρ x0 ^ 2 * g ≤ (ρ u + ρ v) / 2 * ρ s * g := by
    have : ρ x0 * ρ x0 ≤ (ρ u + ρ v) / 2 * ρ s := mul_le_mul hM hs0 hc.le hMpos.le
    nlinarith
  calc _ ≤ ε * (ρ x0 ^ 2 * g) := hm
    _ ≤ _ := mul_le_mul_of_nonneg_left hden hε.le

/-- **Riemann–Stieltjes convergence of two-point sums.**  `Z` has increments `∫ ζ` (`ζ` continuous
on `[a,b]`), `F` is continuous, and the sampling rule `m(u, v)` is uniformly consistent with `F`
on short segments.  Along monotone grids in `[a,b]` from `α` to `β` with mesh → 0,
`∑ (Z x_{i+1} - Z x_i)·m(x_i, x_{i+1}) → ∫_α^β F·ζ`. -/
theorem rs_tendsto {ι : Type*} {l : Filter ι} {a b : ℝ} {F ζ Z : ℝ → ℝ} {m : ℝ → ℝ → ℝ}
    (hF : ContinuousOn F (Set.Icc a b)) (hζ : ContinuousOn ζ (Set.Icc a b))
    (hZ : ∀ u ∈ Set.Icc a b, ∀ v ∈ Set.Icc a b, Z v - Z u = ∫ s in u..v, ζ s)
    (hm : ∀ ε > 0, ∃ δ > 0, ∀ u ∈ Set.Icc a b, ∀ v ∈ Set.Icc a b, |v - u| ≤ δ →
      ∀ s ∈ Set.uIcc u v, |m u v - F s| ≤ ε)
    (X : ι → List ℝ) (α β : ℝ) (hne : ∀ i, X i ≠ []) (hmem : ∀ i, ∀ s ∈ X i, s ∈ Set.Icc a b)
    (hmono : ∀ i, (X i).IsChain (· ≤ ·) ∨ (X i).IsChain (· ≥ ·))
    (ha : ∀ i, (X i).head (hne i) = α) (hb : ∀ i, (X i).getLast (hne i) = β)
    (hmesh : Filter.Tendsto (fun i => mesh (X i)) l (nhds 0)) :
    Filter.Tendsto (fun i => pairSum (fun u v => (Z v - Z u) * m u v) (X i)) l
      (nhds (∫ s in α..β, F s * ζ s)) := by
  obtain ⟨L0, hL0⟩ := isCompact_Icc.exists_bound_of_continuousOn hζ
  rw [Metric.tendsto_nhds]
  intro ε hε
  set L := |L0| + 1 with hLdef
  set D := |β - α| + 1 with hDdef
  have hLpos : 0 < L := by positivity
  have hDpos : 0 < D := by positivity
  have hL : ∀ s ∈ Set.Icc a b, |ζ s| ≤ L := fun s hs => by
    have := hL0 s hs; rw [Real.norm_eq_abs] at this
    linarith [le_abs_self L0]
  obtain ⟨δ, hδ, hδm⟩ := hm (ε / (2 * L * D)) (by positivity)
  filter_upwards [(tendsto_order.1 hmesh).2 δ hδ] with i hi
  have key := pairSum_err_le (convex_Icc a b) (t := fun u v => (Z v - Z u) * m u v)
    (φ := fun s => F s * ζ s) (hF.mul hζ) (ε := ε / (2 * L * D) * L) (δ := δ)
    (fun u hu v hv huv => rs_seg_le (convex_Icc a b) hF hζ hL hZ hu hv (hδm u hu v hv huv))
    (X i) (hne i) (hmem i) hi.le
  rw [ha i, hb i] at key
  have hpl : pathLen (X i) ≤ D := by
    rcases hmono i with h | h
    · rw [pathLen_of_increasing _ (hne i) h, ha i, hb i]; linarith [le_abs_self (β - α)]
    · rw [pathLen_of_decreasing _ (hne i) h, ha i, hb i]
      linarith [neg_le_abs (β - α)]
  rw [Real.dist_eq]
  have h1 : ε / (2 * L * D) * L * pathLen (X i) ≤ ε / (2 * L * D) * L * D :=
    mul_le_mul_of_nonneg_left hpl (by positivity)
  have h2 : ε / (2 * L * D) * L * D = ε / 2 := by field_simp
  linarith

/-! ### the array functions on sampled profiles as two-point sums -/

theorem trapz_map_eq_pairSum (Z Y : ℝ → ℝ) : ∀ p : List ℝ,
    trapz (p.map Z) (p.map Y) = pairSum (fun u v => (Z v - Z u) * ((Y u + Y v) / 2)) p := by
  intro p
  induction p with
  | nil => simp
  | cons a l ih =>
    rcases l with _ | ⟨b, l'⟩
    · simp
    · simp only [List.map_cons, trapz_cons_cons, pairSum_cons_cons] at ih ⊢
      rw [ih]; ring

theorem trapz_self_map_eq_pairSum (Y : ℝ → ℝ) (p : List ℝ) :
    trapz p (p.map Y) = pairSum (fun u v => (v - u) * ((Y u + Y v) / 2)) p := by
  have := trapz_map_eq_pairSum id Y p
  simpa using this

theorem zip_map_right (Tf : ℝ → ℝ) : ∀ p : List ℝ,
    List.zip p (p.map Tf) = p.map (fun s => (s, Tf s))
  | [] => by simp
  | a :: l => by simp [zip_map_right Tf l]

/-- the integrand `vmr·ρ_v(p, T)` of the general IWV form for sampled profiles -/
theorem zipWith_sampled_profile (rhoV : ℝ → ℝ → ℝ) (X Tf : ℝ → ℝ) (p : List ℝ) :
    List.zipWith (fun v (pt : ℝ × ℝ) => v * rhoV pt.1 pt.2) (p.map X) (List.zip p (p.map Tf))
      = p.map (fun s => X s * rhoV s (Tf s)) := by
  rw [zip_map_right]
  induction p with
  | nil => simp
  | cons a l ih => simp [ih]

theorem p2hAux_getLast_eq_pairSum (rho : ℝ → ℝ → ℝ) (g : ℝ) (Tf : ℝ → ℝ) :
    ∀ (p : List ℝ) (acc : ℝ),
    (acc :: p2hAux rho g acc (p.map fun s => (s, Tf s))).getLast (by simp)
      = acc + pairSum (fun u v => (v - u) * (-1 / ((rho u (Tf u) + rho v (Tf v)) / 2 * g))) p := by
  intro p
  induction p with
  | nil => intro acc; simp [p2hAux]
  | cons a l ih =>
    intro acc
    rcases l with _ | ⟨b, l'⟩
    · simp [p2hAux]
    · have IH := ih (acc + -(b - a) / ((rho a (Tf a) + rho b (Tf b)) / 2 * g))
      simp only [List.map_cons, p2hAux, List.getLast_cons_cons, pairSum_cons_cons] at IH ⊢
      rw [IH]; ring

/-- top height of `pressure2height` on a sampled temperature profile as a two-point sum -/
theorem p2h_getLast_eq_pairSum (rho : ℝ → ℝ → ℝ) (g : ℝ) (Tf : ℝ → ℝ) (p : List ℝ) :
    (p2h rho g p (p.map Tf)).getLast (p2h_ne_nil _ _ _ _)
      = pairSum (fun u v => (v - u) * (-1 / ((rho u (Tf u) + rho v (Tf v)) / 2 * g))) p := by
  have := p2hAux_getLast_eq_pairSum rho g Tf p 0
  simp only [p2h, zip_map_right]
  rw [this]; ring

end Col
