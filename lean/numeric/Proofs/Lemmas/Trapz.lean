import Model.Column
import Mathlib.Tactic
import Mathlib.Data.Real.Basic

/-! Helper lemmas about `Col.trapz` over ℝ. -/

namespace Col

@[simp] theorem trapz_nil_left (y : List ℝ) : trapz ([] : List ℝ) y = 0 := by
  cases y <;> simp [trapz]
@[simp] theorem trapz_single_left (a : ℝ) (y : List ℝ) : trapz [a] y = 0 := by
  cases y <;> simp [trapz]
@[simp] theorem trapz_nil_right (x : List ℝ) : trapz x ([] : List ℝ) = 0 := by
  rcases x with _ | ⟨a, _ | ⟨b, xs⟩⟩ <;> simp [trapz]
@[simp] theorem trapz_single_right (x : List ℝ) (b : ℝ) : trapz x [b] = 0 := by
  rcases x with _ | ⟨a, _ | ⟨c, xs⟩⟩ <;> simp [trapz]
@[simp] theorem trapz_cons_cons (x0 x1 y0 y1 : ℝ) (xs ys : List ℝ) :
    trapz (x0 :: x1 :: xs) (y0 :: y1 :: ys)
      = (x1 - x0) * (y0 + y1) / 2 + trapz (x1 :: xs) (y1 :: ys) := by
  simp [trapz]

@[simp] theorem trapzUnit_nil : trapzUnit ([] : List ℝ) = 0 := by simp [trapzUnit]
@[simp] theorem trapzUnit_single (a : ℝ) : trapzUnit [a] = 0 := by simp [trapzUnit]
@[simp] theorem trapzUnit_cons_cons (y0 y1 : ℝ) (ys : List ℝ) :
    trapzUnit (y0 :: y1 :: ys) = (y0 + y1) / 2 + trapzUnit (y1 :: ys) := by simp [trapzUnit]

/-- homogeneity in `y` -/
theorem trapz_smul (c : ℝ) : ∀ (x y : List ℝ), trapz x (y.map (c * ·)) = c * trapz x y := by
  intro x
  induction x with
  | nil => intro y; simp
  | cons x0 xs ih =>
    intro y
    rcases xs with _ | ⟨x1, xs'⟩
    · simp
    · rcases y with _ | ⟨y0, _ | ⟨y1, ys'⟩⟩
      · simp
      · simp
      · have := ih (y1 :: ys')
        simp only [List.map_cons] at this ⊢
        rw [trapz_cons_cons, trapz_cons_cons, this]; ring

/-- additivity in `y` -/
theorem trapz_add : ∀ (x y z : List ℝ), y.length = z.length →
    trapz x (List.zipWith (· + ·) y z) = trapz x y + trapz x z := by
  intro x
  induction x with
  | nil => intro y z _; simp
  | cons x0 xs ih =>
    intro y z h
    rcases xs with _ | ⟨x1, xs'⟩
    · simp
    · rcases y with _ | ⟨y0, ys⟩
      · have : z = [] := by simpa using h.symm
        subst this; simp
      · rcases z with _ | ⟨z0, zs⟩
        · simp at h
        · rcases ys with _ | ⟨y1, ys'⟩
          · have : zs = [] := by simpa using h.symm
            subst this; simp
          · rcases zs with _ | ⟨z1, zs'⟩
            · simp at h
            · have := ih (y1 :: ys') (z1 :: zs') (by simpa using h)
              simp only [List.zipWith_cons_cons] at this ⊢
              rw [trapz_cons_cons, trapz_cons_cons, trapz_cons_cons, this]; ring

/-- additivity when the range is split at a grid point -/
theorem trapz_split (xm ym : ℝ) (xb yb : List ℝ) : ∀ (xa ya : List ℝ), xa.length = ya.length →
    trapz (xa ++ xm :: xb) (ya ++ ym :: yb)
      = trapz (xa ++ [xm]) (ya ++ [ym]) + trapz (xm :: xb) (ym :: yb) := by
  intro xa
  induction xa with
  | nil =>
    intro ya h
    have : ya = [] := by simpa using h.symm
    subst this; simp
  | cons x0 xa' ih =>
    intro ya h
    rcases ya with _ | ⟨y0, ya'⟩
    · simp at h
    · have h' : xa'.length = ya'.length := by simpa using h
      have := ih ya' h'
      rcases xa' with _ | ⟨x1, xa''⟩
      · have : ya' = [] := by simpa using h'.symm
        subst this
        simp
      · rcases ya' with _ | ⟨y1, ya''⟩
        · simp at h'
        · simp only [List.cons_append] at this ⊢
          rw [trapz_cons_cons, trapz_cons_cons, this]; ring

/-- snoc form of the split -/
theorem trapz_snoc (xs ys : List ℝ) (a b c d : ℝ) (h : xs.length = ys.length) :
    trapz (xs ++ [a, b]) (ys ++ [c, d]) = trapz (xs ++ [a]) (ys ++ [c]) + (b - a) * (c + d) / 2 := by
  have := trapz_split a c [b] [d] xs ys h
  rw [this]; simp

/-- reversing the coordinate changes the sign -/
theorem trapz_reverse : ∀ (x y : List ℝ), x.length = y.length →
    trapz x.reverse y.reverse = -trapz x y := by
  intro x
  induction x with
  | nil => intro y _; simp
  | cons x0 xs ih =>
    intro y h
    rcases y with _ | ⟨y0, ys⟩
    · simp at h
    · have h' : xs.length = ys.length := by simpa using h
      rcases xs with _ | ⟨x1, xs'⟩
      · have : ys = [] := by simpa using h'.symm
        subst this; simp
      · rcases ys with _ | ⟨y1, ys'⟩
        · simp at h'
        · have ih' := ih (y1 :: ys') h'
          have h'' : xs'.reverse.length = ys'.reverse.length := by simpa using h'
          simp only [List.reverse_cons, List.append_assoc, List.cons_append, List.nil_append] at ih' ⊢
          rw [trapz_snoc _ _ _ _ _ _ h'', ih', trapz_cons_cons]; ring

/-- `p` decreasing and `y ≥ 0` ⇒ the integral over `p` is ≤ 0 -/
theorem trapz_nonpos_of_antitone : ∀ (p y : List ℝ), p.IsChain (· ≥ ·) → (∀ v ∈ y, 0 ≤ v) →
    trapz p y ≤ 0 := by
  intro p
  induction p with
  | nil => intro y _ _; simp
  | cons p0 ps ih =>
    intro y hc hy
    rcases ps with _ | ⟨p1, ps'⟩
    · simp
    · rcases y with _ | ⟨y0, _ | ⟨y1, ys'⟩⟩
      · simp
      · simp
      · rw [trapz_cons_cons]
        have h01 : p1 ≤ p0 := (List.isChain_cons_cons.mp hc).1
        have hrest := ih (y1 :: ys') (List.isChain_cons_cons.mp hc).2
          (fun v hv => hy v (List.mem_cons_of_mem _ hv))
        have hy0 := hy y0 (by simp)
        have hy1 := hy y1 (by simp)
        have : (p1 - p0) * (y0 + y1) / 2 ≤ 0 := by
          have : (p1 - p0) * (y0 + y1) ≤ 0 := mul_nonpos_of_nonpos_of_nonneg (by linarith) (by linarith)
          linarith
        linarith

end Col
