import Model.Pool
import Mathlib.Tactic

/-! Helper lemmas for C10: the invariant of the `imap` event system and its consequences. -/
namespace Pool

variable {ε β : Type}

/-- number of futures the generator has popped so far -/
def popped (s : State ε β) : Nat := s.out.length + (if s.failed.isSome then 1 else 0)

structure Inv (W : Nat) (tasks : List (Except ε β)) (s : State ε β) : Prop where
  queue_eq : s.queue = List.range' (popped s) (s.next - popped s)
  popped_le : popped s ≤ s.next
  next_le : s.next ≤ tasks.length
  log_eq : s.log = List.range s.next
  done_ok : ∀ i r, s.done.lookup i = some r → i < s.next ∧ tasks[i]? = some r
  done_nodup : (s.done.map (·.1)).Nodup
  out_ok : s.out.map Except.ok = tasks.take s.out.length
  fail_ok : ∀ e, s.failed = some e → tasks[s.out.length]? = some (.error e)
  bound : s.queue.length ≤ W

theorem inv_init (W : Nat) (tasks : List (Except ε β)) : Inv W tasks ({} : State ε β) := by
  refine ⟨by simp [popped], by simp [popped], by simp, by simp, ?_, by simp, by simp, ?_, by simp⟩
  · intro i r h; simp at h
  · intro e h; simp at h

theorem lookup_isSome_of_mem_keys {α γ : Type} [BEq α] [LawfulBEq α] (l : List (α × γ)) (a : α) :
    (l.lookup a).isSome ↔ a ∈ l.map (·.1) := by
  induction l with
  | nil => simp
  | cons kv t ih =>
    obtain ⟨k, v⟩ := kv
    simp only [List.lookup_cons, List.map_cons, List.mem_cons]
    by_cases h : a = k
    · subst h; simp
    · have : (a == k) = false := by simpa using h
      simp [this, ih, h]

theorem inv_step {W : Nat} {tasks : List (Except ε β)} {s s' : State ε β} {e : Event}
    (hI : Inv W tasks s) (h : step W tasks s e = some s') : Inv W tasks s' := by
  obtain ⟨hq, hp, hn, hl, hd, hnd, ho, hf, hb⟩ := hI
  cases e with
  | submit i =>
    simp only [step] at h
    split at h
    · rename_i hg
      obtain ⟨hfn, rfl, hlt, hqw⟩ := hg
      cases h
      have hpop : popped ({ s with next := s.next + 1, queue := s.queue ++ [s.next], log := s.log ++ [s.next] } : State ε β) = popped s := rfl
      refine ⟨?_, ?_, ?_, ?_, ?_, hnd, ho, hf, ?_⟩
      · rw [hpop]
        show s.queue ++ [s.next] = _
        rw [hq, show s.next + 1 - popped s = (s.next - popped s) + 1 by omega,
          List.range'_1_concat]
        congr 2; omega
      · rw [hpop]; show popped s ≤ s.next + 1; omega
      · show s.next + 1 ≤ tasks.length; omega
      · show s.log ++ [s.next] = List.range (s.next + 1)
        rw [hl, List.range_succ]
      · intro i r hi
        obtain ⟨h1, h2⟩ := hd i r hi
        exact ⟨by show i < s.next + 1; omega, h2⟩
      · show (s.queue ++ [s.next]).length ≤ W
        simp; omega
    · cases h
  | complete i =>
    simp only [step] at h
    split at h
    · rename_i hg
      obtain ⟨hmem, hnd'⟩ := hg
      split at h
      · rename_i r hr
        cases h
        have hpop : popped ({ s with done := (i, r) :: s.done } : State ε β) = popped s := rfl
        have hi : i < s.next := by
          rw [hq] at hmem
          simp [List.mem_range'_1] at hmem; omega
        refine ⟨by rw [hpop]; exact hq, by rw [hpop]; exact hp, hn, hl, ?_, ?_, ho, hf, hb⟩
        · intro j r' hj
          simp only [List.lookup_cons] at hj
          by_cases hji : j = i
          · subst hji; simp at hj; subst hj; exact ⟨hi, hr⟩
          · have : (j == i) = false := by simpa using hji
            rw [this] at hj; exact hd j r' hj
        · show ((i, r) :: s.done).map (·.1) |>.Nodup
          simp only [List.map_cons, List.nodup_cons]
          refine ⟨?_, hnd⟩
          intro hk
          have h1 := (lookup_isSome_of_mem_keys s.done i).mpr hk
          have h2 : (s.done.lookup i).isSome = false := hnd'
          rw [h1] at h2; cases h2
      · cases h
    · cases h
  | consume =>
    simp only [step] at h
    split at h
    · rename_i hg
      obtain ⟨hfn, hwait⟩ := hg
      have hfnone : s.failed = none := by simpa using hfn
      have hpopS : popped s = s.out.length := by simp [popped, hfnone]
      split at h
      · cases h
      · rename_i hd' q hqueue
        -- the head is the oldest unpopped task
        have hlen : 0 < s.next - popped s := by
          by_contra hc
          have : s.next - popped s = 0 := by omega
          rw [this] at hq; simp [hqueue] at hq
        have hcons : List.range' (popped s) (s.next - popped s)
            = popped s :: List.range' (popped s + 1) (s.next - popped s - 1) := by
          obtain ⟨m, hm⟩ : ∃ m, s.next - popped s = m + 1 := ⟨s.next - popped s - 1, by omega⟩
          rw [hm, List.range'_succ]; simp
        rw [hqueue, hcons] at hq
        obtain ⟨hhd, hqq⟩ := List.cons.inj hq
        split at h
        · cases h
        · rename_i v hv
          cases h
          obtain ⟨h1, h2⟩ := hd _ _ hv
          have hpop' : popped ({ s with queue := q, out := s.out ++ [v] } : State ε β)
              = popped s + 1 := by simp [popped, hfnone]
          refine ⟨?_, ?_, hn, hl, hd, hnd, ?_, ?_, ?_⟩
          · rw [hpop']; show q = _; rw [hqq]; congr 1
          · rw [hpop']; show popped s + 1 ≤ s.next; omega
          · show (s.out ++ [v]).map Except.ok = tasks.take (s.out ++ [v]).length
            rw [List.map_append, ho, List.length_append, List.length_singleton, List.take_add_one]
            rw [hhd, hpopS] at h2
            rw [h2]; rfl
          · intro e he; simp [hfnone] at he
          · show q.length ≤ W
            have : s.queue.length = q.length + 1 := by rw [hqueue]; rfl
            omega
        · rename_i e he
          cases h
          obtain ⟨h1, h2⟩ := hd _ _ he
          have hpop' : popped ({ s with queue := q, failed := some e } : State ε β)
              = popped s + 1 := by simp [popped, hfnone]
          refine ⟨?_, ?_, hn, hl, hd, hnd, ho, ?_, ?_⟩
          · rw [hpop']; show q = _; rw [hqq]; congr 1
          · rw [hpop']; show popped s + 1 ≤ s.next; omega
          · intro e' he'
            simp at he'; subst he'
            rw [hhd, hpopS] at h2; exact h2
          · show q.length ≤ W
            have : s.queue.length = q.length + 1 := by rw [hqueue]; rfl
            omega
    · cases h

theorem inv_run {W : Nat} {tasks : List (Except ε β)} (sched : List Event) :
    ∀ {s s' : State ε β}, Inv W tasks s → run W tasks s sched = some s' → Inv W tasks s' := by
  induction sched with
  | nil => intro s s' hI h; simp [run] at h; subst h; exact hI
  | cons e es ih =>
    intro s s' hI h
    simp only [run] at h
    split at h
    · cases h
    · rename_i s1 hs1
      exact ih (inv_step hI hs1) h

theorem inv_reach {W : Nat} {tasks : List (Except ε β)} {sched : List Event} {s : State ε β}
    (h : run W tasks {} sched = some s) : Inv W tasks s :=
  inv_run sched (inv_init W tasks) h

/-! `expected` on a list of successes followed (or not) by a failure -/

theorem expected_oks (vs : List β) : expected (vs.map (Except.ok (ε := ε))) = (vs, none) := by
  induction vs with
  | nil => rfl
  | cons v t ih => simp [expected, ih]

theorem expected_oks_err (vs : List β) (e : ε) (rest : List (Except ε β)) :
    expected (vs.map Except.ok ++ Except.error e :: rest) = (vs, some e) := by
  induction vs with
  | nil => rfl
  | cons v t ih => simp [expected, ih]

/-- in a terminal state the consumer has seen exactly `expected tasks` -/
theorem terminal_expected {W : Nat} {tasks : List (Except ε β)} {s : State ε β}
    (hI : Inv W tasks s) (ht : Terminal tasks s) : (s.out, s.failed) = expected tasks := by
  obtain ⟨hq, hp, hn, hl, hd, hnd, ho, hf, hb⟩ := hI
  cases hfail : s.failed with
  | some e =>
    have h2 := hf e hfail
    have hlt : s.out.length < tasks.length := by
      by_contra hc
      rw [List.getElem?_eq_none (by omega)] at h2; cases h2
    have hsplit : tasks = s.out.map Except.ok ++ Except.error e :: tasks.drop (s.out.length + 1) := by
      rw [ho]
      have := List.getElem?_eq_some_iff.mp h2
      obtain ⟨_, hget⟩ := this
      rw [← hget]
      simp
    rw [hsplit, expected_oks_err]
  | none =>
    rcases ht with ht | ⟨hnext, hqe⟩
    · simp [hfail] at ht
    · have hpopS : popped s = s.out.length := by simp [popped, hfail]
      rw [hqe] at hq
      have : s.next - popped s = 0 := by
        by_contra hc
        obtain ⟨m, hm⟩ : ∃ m, s.next - popped s = m + 1 := ⟨s.next - popped s - 1, by omega⟩
        rw [hm, List.range'_succ] at hq; cases hq
      have hlen : s.out.length = tasks.length := by omega
      rw [hlen, List.take_length] at ho
      rw [← ho, expected_oks]

/-- progress: a reachable, non-terminal state always has an enabled event -/
theorem progress {W : Nat} {tasks : List (Except ε β)} {s : State ε β}
    (hI : Inv W tasks s) (hW : 1 ≤ W) (hnt : ¬ Terminal tasks s) :
    ∃ e, (step W tasks s e).isSome := by
  obtain ⟨hq, hp, hn, hl, hd, hnd, ho, hf, hb⟩ := hI
  have hfnone : s.failed = none := by
    cases h : s.failed with
    | none => rfl
    | some e => exact absurd (Or.inl (by simp [h])) hnt
  by_cases hsub : s.next < tasks.length ∧ s.queue.length < W
  · refine ⟨.submit s.next, ?_⟩
    simp [step, hfnone, hsub.1, hsub.2]
  · have hwait : W ≤ s.queue.length ∨ s.next = tasks.length := by omega
    have hne : s.queue ≠ [] := by
      rcases hwait with h | h
      · intro hc; rw [hc] at h; simp at h; omega
      · intro hc; exact hnt (Or.inr ⟨h, hc⟩)
    obtain ⟨h0, q, hqueue⟩ := List.exists_cons_of_ne_nil hne
    cases hlk : s.done.lookup h0 with
    | some r =>
      refine ⟨.consume, ?_⟩
      have hwait' : W ≤ q.length + 1 ∨ s.next = tasks.length := by
        rw [hqueue] at hwait; simpa using hwait
      cases r <;> simp [step, hfnone, hqueue, hlk, hwait']
    | none =>
      refine ⟨.complete h0, ?_⟩
      have hmem : h0 ∈ s.queue := by rw [hqueue]; simp
      have hlt : h0 < s.next := by
        rw [hq] at hmem; simp [List.mem_range'_1] at hmem; omega
      have hlt' : h0 < tasks.length := by omega
      simp [step, hmem, isDone, hlk, List.getElem?_eq_getElem hlt']

/-- potential: every event increases it by one -/
def phi (s : State ε β) : Nat := s.next + s.done.length + popped s

theorem phi_step {W : Nat} {tasks : List (Except ε β)} {s s' : State ε β} {e : Event}
    (h : step W tasks s e = some s') : phi s' = phi s + 1 := by
  cases e with
  | submit i =>
    simp only [step] at h
    split at h
    · cases h; simp [phi, popped]; omega
    · cases h
  | complete i =>
    simp only [step] at h
    split at h
    · split at h
      · cases h; simp [phi, popped]; omega
      · cases h
    · cases h
  | consume =>
    simp only [step] at h
    split at h
    · rename_i hg
      have hfnone : s.failed = none := by simpa using hg.1
      split at h
      · cases h
      · split at h
        · cases h
        · cases h; simp [phi, popped, hfnone]; omega
        · cases h; simp [phi, popped, hfnone]; omega
    · cases h

theorem phi_run {W : Nat} {tasks : List (Except ε β)} (sched : List Event) :
    ∀ {s s' : State ε β}, run W tasks s sched = some s' → phi s' = phi s + sched.length := by
  induction sched with
  | nil => intro s s' h; simp [run] at h; subst h; simp
  | cons e es ih =>
    intro s s' h
    simp only [run] at h
    split at h
    · cases h
    · rename_i s1 hs1
      rw [ih h, phi_step hs1, List.length_cons]; omega

theorem nodup_lt_length_le (l : List Nat) (n : Nat) (hnd : l.Nodup) (hlt : ∀ x ∈ l, x < n) :
    l.length ≤ n := by
  have hsub : l ⊆ List.range n := fun x hx => List.mem_range.mpr (hlt x hx)
  have := (List.subperm_of_subset hnd hsub).length_le
  simpa using this

theorem phi_le {W : Nat} {tasks : List (Except ε β)} {s : State ε β} (hI : Inv W tasks s) :
    phi s ≤ 3 * tasks.length := by
  obtain ⟨hq, hp, hn, hl, hd, hnd, ho, hf, hb⟩ := hI
  have hdl : s.done.length ≤ s.next := by
    have := nodup_lt_length_le (s.done.map (·.1)) s.next hnd (by
      intro x hx
      have := (lookup_isSome_of_mem_keys s.done x).mpr hx
      obtain ⟨r, hr⟩ := Option.isSome_iff_exists.mp this
      exact (hd x r hr).1)
    simpa using this
  simp only [phi]; omega

theorem run_append {W : Nat} {tasks : List (Except ε β)} (a b : List Event) (s : State ε β) :
    run W tasks s (a ++ b) = (run W tasks s a).bind (fun s' => run W tasks s' b) := by
  induction a generalizing s with
  | nil => simp [run]
  | cons e es ih =>
    simp only [List.cons_append, run]
    split
    · simp
    · rename_i s1 hs1; exact ih s1

end Pool

/-! ## `map` -/
namespace Pool
variable {ε β : Type}

structure MInv (W : Nat) (tasks : List (Except ε β)) (s : MState ε β) : Prop where
  started_le : s.started ≤ tasks.length
  log_eq : s.log = List.range s.started
  done_ok : ∀ i r, s.done.lookup i = some r → i < s.started ∧ tasks[i]? = some r
  running : s.started - s.done.length ≤ W

theorem minv_init (W : Nat) (tasks : List (Except ε β)) : MInv W tasks ({} : MState ε β) :=
  ⟨by simp, by simp, by intro i r h; simp at h, by simp⟩

theorem minv_step {W : Nat} {tasks : List (Except ε β)} {s s' : MState ε β} {e : MEvent}
    (hI : MInv W tasks s) (h : mstep W tasks s e = some s') : MInv W tasks s' := by
  obtain ⟨hs, hl, hd, hr⟩ := hI
  cases e with
  | start i =>
    simp only [mstep] at h
    split at h
    · rename_i hg
      obtain ⟨rfl, hlt, hrun⟩ := hg
      cases h
      refine ⟨by show s.started + 1 ≤ _; omega, ?_, ?_, by show s.started + 1 - s.done.length ≤ W; omega⟩
      · show s.log ++ [s.started] = List.range (s.started + 1)
        rw [hl, List.range_succ]
      · intro j r hj
        obtain ⟨h1, h2⟩ := hd j r hj
        exact ⟨by show j < s.started + 1; omega, h2⟩
    · cases h
  | complete i =>
    simp only [mstep] at h
    split at h
    · rename_i hg
      split at h
      · rename_i r hr'
        cases h
        refine ⟨hs, hl, ?_, by show s.started - (s.done.length + 1) ≤ W; omega⟩
        intro j r' hj
        simp only [List.lookup_cons] at hj
        by_cases hji : j = i
        · subst hji; simp at hj; subst hj; exact ⟨hg.1, hr'⟩
        · have : (j == i) = false := by simpa using hji
          rw [this] at hj; exact hd j r' hj
      · cases h
    · cases h

theorem minv_run {W : Nat} {tasks : List (Except ε β)} (sched : List MEvent) :
    ∀ {s s' : MState ε β}, MInv W tasks s → mrun W tasks s sched = some s' → MInv W tasks s' := by
  induction sched with
  | nil => intro s s' hI h; simp [mrun] at h; subst h; exact hI
  | cons e es ih =>
    intro s s' hI h
    simp only [mrun] at h
    split at h
    · cases h
    · rename_i s1 hs1
      exact ih (minv_step hI hs1) h

/-- whatever the result iterator delivers is the in-order expectation -/
theorem mresult_go_sound {tasks : List (Except ε β)} {s : MState ε β}
    (hd : ∀ i r, s.done.lookup i = some r → tasks[i]? = some r) :
    ∀ (m k : Nat) (x : List β × Option ε), k + m = tasks.length →
      mresult.go s (List.range' k m) = some x → x = expected (tasks.drop k) := by
  intro m
  induction m with
  | zero =>
    intro k x hk h
    simp [mresult.go] at h
    subst h
    rw [List.drop_eq_nil_of_le (by omega)]; rfl
  | succ m ih =>
    intro k x hk h
    rw [List.range'_succ] at h
    simp only [mresult.go] at h
    have hlt : k < tasks.length := by omega
    rw [List.drop_eq_getElem_cons hlt]
    split at h
    · cases h
    · rename_i e he
      cases h
      have := hd k _ he
      rw [List.getElem?_eq_getElem hlt] at this
      have heq : tasks[k] = Except.error e := Option.some.inj this
      rw [heq]; rfl
    · rename_i v hv
      have hk' := hd k _ hv
      rw [List.getElem?_eq_getElem hlt] at hk'
      have heq : tasks[k] = Except.ok v := Option.some.inj hk'
      split at h
      · cases h
      · rename_i vs e hgo
        cases h
        have := ih (k + 1) (vs, e) (by omega) hgo
        rw [heq]
        simp only [expected, ← this]

theorem mresult_go_complete {s : MState ε β} :
    ∀ (l : List Nat), (∀ i ∈ l, (s.done.lookup i).isSome) → (mresult.go s l).isSome := by
  intro l
  induction l with
  | nil => intro _; simp [mresult.go]
  | cons i is ih =>
    intro h
    simp only [mresult.go]
    have hi := h i (by simp)
    obtain ⟨r, hr⟩ := Option.isSome_iff_exists.mp hi
    rw [hr]
    cases r with
    | error e => simp
    | ok v =>
      have := ih (fun j hj => h j (by simp [hj]))
      obtain ⟨x, hx⟩ := Option.isSome_iff_exists.mp this
      simp [hx]

end Pool
