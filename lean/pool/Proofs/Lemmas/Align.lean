import Model.Align

namespace Align
open Pool (Err)
variable {P S D : Type} [DecidableEq S]

/-- `uniq` started from an arbitrary accumulator -/
def G (acc l : List S) : List S := l.foldl uniqStep acc

theorem G_nil (acc : List S) : G acc [] = acc := rfl
theorem G_cons (acc : List S) (x : S) (l : List S) : G acc (x :: l) = G (uniqStep acc x) l := rfl
theorem G_append (acc l1 l2 : List S) : G acc (l1 ++ l2) = G (G acc l1) l2 := List.foldl_append
theorem uniq_eq_G (l : List S) : uniq l = G [] l := rfl
theorem uniq_append (pre l : List S) : uniq (pre ++ l) = G (uniq pre) l := by
  simp only [uniq_eq_G, G_append]
theorem uniq_snoc (pre : List S) (s : S) : uniq (pre ++ [s]) = uniqStep (uniq pre) s := by
  rw [uniq_append]; rfl

theorem G_prefix (acc l : List S) : ∃ t, G acc l = acc ++ t := by
  induction l generalizing acc with
  | nil => exact ⟨[], by simp [G]⟩
  | cons x l ih =>
    obtain ⟨t, ht⟩ := ih (uniqStep acc x)
    rw [G_cons, ht]
    unfold uniqStep; split
    · exact ⟨t, rfl⟩
    · exact ⟨x :: t, by simp⟩

theorem mem_G (acc l : List S) (x : S) : x ∈ G acc l ↔ x ∈ acc ∨ x ∈ l := by
  induction l generalizing acc with
  | nil => simp [G]
  | cons y l ih =>
    rw [G_cons, ih]; unfold uniqStep; split <;> simp <;> grind

theorem nodup_G (acc l : List S) (h : acc.Nodup) : (G acc l).Nodup := by
  induction l generalizing acc with
  | nil => simpa [G] using h
  | cons y l ih =>
    rw [G_cons]; apply ih; unfold uniqStep; split
    · exact h
    · rw [List.nodup_append]; refine ⟨h, by simp, ?_⟩; grind

theorem mem_uniq (l : List S) (x : S) : x ∈ uniq l ↔ x ∈ l := by
  rw [uniq_eq_G, mem_G]; simp
theorem nodup_uniq (l : List S) : (uniq l).Nodup := nodup_G [] l List.nodup_nil
theorem count_uniq (l : List S) (x : S) : (uniq l).count x = if x ∈ l then 1 else 0 := by
  rw [(nodup_uniq l).count]; simp only [mem_uniq]

/-! ### the tail of the loop body -/

/-- everything in `stepSec` after the secondary content `sd` has been obtained -/
def finish (skip : Bool) (p : P) (pd : Option D) (st : St P S D) (s : S) (sd : Option D) :
    St P S D :=
  let usage := fun x => if x = s then st.usage x - 1 else st.usage x
  let cache := if usage s = 0 then st.cache.filter (fun kv => kv.1 ≠ s) else st.cache
  let out := if pd.isNone || (sd.isNone && skip) then st.out else st.out ++ [((p, pd), (s, sd))]
  { st with usage := usage, cache := cache, out := out }

theorem stepSec_hit (skip : Bool) (p : P) (pd : Option D) (st : St P S D) (s : S) (d : Option D)
    (he : st.err = none) (hc : st.cache.lookup s = some d) :
    stepSec skip p pd st s = finish skip p pd st s d := by
  simp only [stepSec, he, hc, finish]; rfl

theorem stepSec_miss (skip : Bool) (p : P) (pd : Option D) (st : St P S D) (s : S) (d : Option D)
    (rest : List (S × Option D))
    (he : st.err = none) (hc : st.cache.lookup s = none) (hl : st.loader = (s, d) :: rest) :
    stepSec skip p pd st s =
      finish skip p pd { st with loader := rest, cache := st.cache ++ [(s, d)],
                                 requests := st.requests ++ [s] } s d := by
  simp only [stepSec, he, hc, hl, finish]; simp

theorem lookup_map_pair (f : S → Option D) (l : List S) (s : S) :
    (l.map (fun x => (x, f x))).lookup s = if s ∈ l then some (f s) else none := by
  induction l with
  | nil => simp
  | cons y l ih =>
    simp only [List.map_cons, List.lookup_cons, ih]
    by_cases h : s = y
    · subst h; simp
    · have : (s == y) = false := by simpa using h
      simp [this, h]

/-! ### cache eviction -/

theorem evict_zero (f : S → Option D) (U : List S) (s : S) (suf : List S) (h : suf.count s = 0) :
    ((U.filter (fun x => 0 < (s :: suf).count x)).map (fun x => (x, f x))).filter
        (fun kv => kv.1 ≠ s) =
      (U.filter (fun x => 0 < suf.count x)).map (fun x => (x, f x)) := by
  rw [List.filter_map, List.filter_filter]
  congr 1
  apply List.filter_congr
  intro x _
  by_cases hx : x = s
  · subst hx; simp [h]
  · have : (s == x) = false := by simpa using fun e => hx e.symm
    simp [List.count_cons, this, hx]

theorem evict_pos (U : List S) (s : S) (suf : List S) (h : suf.count s ≠ 0) :
    U.filter (fun x => 0 < (s :: suf).count x) = U.filter (fun x => 0 < suf.count x) := by
  apply List.filter_congr
  intro x _
  by_cases hx : x = s
  · subst hx
    have : 0 < suf.count x := Nat.pos_of_ne_zero h
    simp [this]
  · have : (s == x) = false := by simpa using fun e => hx e.symm
    simp [List.count_cons, this]

/-! ### the invariant -/

/-- state invariant when the secondaries `pre` have been processed and `suf` are still to come -/
structure Inv (load : S → Option D) (pre suf : List S) (st : St P S D) : Prop where
  err : st.err = none
  req : st.requests = uniq pre
  ldr : G st.requests suf = st.requests ++ st.loader.map (·.1)
  lval : ∀ kv ∈ st.loader, kv.2 = load kv.1
  usage : ∀ x, st.usage x = (suf.count x : Nat)
  cache : st.cache =
    ((uniq pre).filter (fun x => 0 < suf.count x)).map (fun x => (x, load x))

/-- the `filterMap` element of `specOut` for one pair -/
def specElem (skip : Bool) (load : S → Option D) (p : P) (pd : Option D) (s : S) :
    Option ((P × Option D) × (S × Option D)) :=
  if pd.isNone || ((load s).isNone && skip) then none else some ((p, pd), (s, load s))

theorem finish_inv (skip : Bool) (load : S → Option D) (p : P) (pd : Option D)
    (pre suf : List S) (s : S) (st : St P S D)
    (herr : st.err = none)
    (hreq : st.requests = uniq (pre ++ [s]))
    (hldr : G st.requests suf = st.requests ++ st.loader.map (·.1))
    (hlval : ∀ kv ∈ st.loader, kv.2 = load kv.1)
    (husage : ∀ x, st.usage x = ((s :: suf).count x : Nat))
    (hcache : st.cache = ((uniq (pre ++ [s])).filter (fun x => 0 < (s :: suf).count x)).map
        (fun x => (x, load x))) :
    Inv load (pre ++ [s]) suf (finish skip p pd st s (load s)) ∧
    (finish skip p pd st s (load s)).out = st.out ++ (specElem skip load p pd s).toList := by
  refine ⟨⟨herr, hreq, hldr, hlval, ?_, ?_⟩, ?_⟩
  · intro x
    simp only [finish, husage, List.count_cons]
    by_cases hx : x = s
    · subst hx; simp
    · have : (s == x) = false := by simpa using fun e => hx e.symm
      simp [this, hx]
  · simp only [finish, husage, if_true, List.count_cons_self]
    by_cases h0 : suf.count s = 0
    · have : ((List.count s suf + 1 : Nat) : Int) - 1 = 0 := by omega
      rw [if_pos this, hcache, evict_zero _ _ _ _ h0]
    · have : ¬ ((List.count s suf + 1 : Nat) : Int) - 1 = 0 := by omega
      rw [if_neg this, hcache, evict_pos _ _ _ h0]
  · simp only [finish, specElem]
    split <;> simp

/-- one secondary: the invariant moves from `pre | s :: suf` to `pre ++ [s] | suf` and the pair
of `specOut` is appended -/
theorem stepSec_inv (skip : Bool) (load : S → Option D) (p : P) (pd : Option D)
    (pre suf : List S) (s : S) (st : St P S D) (h : Inv load pre (s :: suf) st) :
    Inv load (pre ++ [s]) suf (stepSec skip p pd st s) ∧
    (stepSec skip p pd st s).out = st.out ++ (specElem skip load p pd s).toList := by
  have hlk : st.cache.lookup s = if s ∈ uniq pre then some (load s) else none := by
    rw [h.cache, lookup_map_pair]; simp [List.mem_filter]
  by_cases hs : s ∈ uniq pre
  · rw [if_pos hs] at hlk
    rw [stepSec_hit skip p pd st s _ h.err hlk]
    have hU : uniq (pre ++ [s]) = uniq pre := by rw [uniq_snoc, uniqStep, if_pos hs]
    apply finish_inv
    · exact h.err
    · rw [hU]; exact h.req
    · have := h.ldr
      rw [G_cons, h.req, uniqStep, if_pos hs, ← h.req] at this; exact this
    · exact h.lval
    · exact h.usage
    · rw [hU]; exact h.cache
  · rw [if_neg hs] at hlk
    have hU : uniq (pre ++ [s]) = uniq pre ++ [s] := by rw [uniq_snoc, uniqStep, if_neg hs]
    have h1 := h.ldr
    rw [G_cons, h.req, uniqStep, if_neg hs] at h1
    obtain ⟨t, ht⟩ := G_prefix (uniq pre ++ [s]) suf
    have h2 : [s] ++ t = st.loader.map (·.1) := by
      rw [ht, List.append_assoc] at h1
      exact List.append_cancel_left h1
    match hl : st.loader with
    | [] => simp [hl] at h2
    | (s', d) :: rest =>
      rw [hl] at h2
      simp only [List.map_cons, List.cons_append, List.nil_append, List.cons.injEq] at h2
      obtain ⟨hss, h3⟩ := h2
      subst hss
      have hd : d = load s := h.lval (s, d) (by simp [hl])
      subst hd
      rw [stepSec_miss skip p pd st s _ rest h.err hlk hl]
      apply finish_inv
      · exact h.err
      · show st.requests ++ [s] = _
        rw [hU, h.req]
      · show G (st.requests ++ [s]) suf = st.requests ++ [s] ++ rest.map (·.1)
        rw [h.req, ht, h3]
      · intro kv hkv
        exact h.lval kv (by rw [hl]; exact List.mem_cons_of_mem _ hkv)
      · exact h.usage
      · show st.cache ++ [(s, load s)] = _
        rw [h.cache, hU, List.filter_append, List.map_append]
        simp

theorem filterMap_cons_toList {α β : Type} (f : α → Option β) (a : α) (l : List α) :
    (a :: l).filterMap f = (f a).toList ++ l.filterMap f := by
  rw [List.filterMap_cons]; cases f a <;> rfl

/-- all secondaries of one primary -/
theorem foldSec_inv (skip : Bool) (load : S → Option D) (p : P) (pd : Option D) (l : List S) :
    ∀ (pre suf : List S) (st : St P S D), Inv load pre (l ++ suf) st →
      Inv load (pre ++ l) suf (l.foldl (stepSec skip p pd) st) ∧
      (l.foldl (stepSec skip p pd) st).out = st.out ++ l.filterMap (specElem skip load p pd) := by
  induction l with
  | nil => intro pre suf st h; simpa using h
  | cons s l ih =>
    intro pre suf st h
    obtain ⟨h1, h2⟩ := stepSec_inv skip load p pd pre (l ++ suf) s st h
    obtain ⟨h3, h4⟩ := ih (pre ++ [s]) suf _ h1
    rw [List.foldl_cons]
    refine ⟨?_, ?_⟩
    · have e : pre ++ s :: l = pre ++ [s] ++ l := by simp
      rw [e]; exact h3
    · rw [h4, h2, filterMap_cons_toList, List.append_assoc]

omit [DecidableEq S] in
theorem flat_nil : flat ([] : List (P × List S)) = [] := rfl
omit [DecidableEq S] in
theorem flat_cons (m : P × List S) (ms : List (P × List S)) : flat (m :: ms) = m.2 ++ flat ms := rfl
omit [DecidableEq S] in
theorem flat_append (a b : List (P × List S)) : flat (a ++ b) = flat a ++ flat b :=
  List.flatMap_append

omit [DecidableEq S] in
/-- `specOut` written with `specElem` -/
theorem specOut_eq (skip : Bool) (ms : List (P × List S)) (pdata : List (Option D))
    (load : S → Option D) :
    specOut skip ms pdata load =
      (ms.zip pdata).flatMap (fun m => m.1.2.filterMap (specElem skip load m.1.1 m.2)) := rfl

/-- a list of primaries -/
theorem foldPrim_inv (skip : Bool) (load : S → Option D) (zs : List ((P × List S) × Option D)) :
    ∀ (pre suf : List S) (st : St P S D), Inv load pre (flat (zs.map (·.1)) ++ suf) st →
      Inv load (pre ++ flat (zs.map (·.1))) suf (zs.foldl (stepPrim skip) st) ∧
      (zs.foldl (stepPrim skip) st).out =
        st.out ++ zs.flatMap (fun m => m.1.2.filterMap (specElem skip load m.1.1 m.2)) := by
  induction zs with
  | nil => intro pre suf st h; simpa [flat_nil] using h
  | cons m zs ih =>
    intro pre suf st h
    rw [List.map_cons, flat_cons, List.append_assoc] at h
    obtain ⟨h1, h2⟩ := foldSec_inv skip load m.1.1 m.2 m.1.2 pre _ st h
    obtain ⟨h3, h4⟩ := ih (pre ++ m.1.2) suf _ h1
    rw [List.foldl_cons]
    refine ⟨?_, ?_⟩
    · rw [List.map_cons, flat_cons, ← List.append_assoc]; exact h3
    · show (zs.foldl (stepPrim skip) (m.1.2.foldl (stepSec skip m.1.1 m.2) st)).out = _
      rw [h4, h2, List.flatMap_cons, List.append_assoc]

theorem initSt_inv (ms : List (P × List S)) (load : S → Option D) :
    Inv load [] (flat ms) (initSt ms load : St P S D) where
  err := rfl
  req := rfl
  ldr := by
    show G [] (flat ms) = [] ++ ((uniq (flat ms)).map (fun s => (s, load s))).map (·.1)
    rw [List.map_map, List.nil_append]
    show uniq (flat ms) = (uniq (flat ms)).map id
    simp
  lval := by
    intro kv hkv
    simp only [initSt, List.mem_map] at hkv
    obtain ⟨x, _, rfl⟩ := hkv
    rfl
  usage := fun _ => rfl
  cache := rfl

/-! ### main theorems -/

/-- general invariant after processing the first `k` matches -/
theorem align_prefix_inv (skip : Bool) (ms : List (P × List S)) (pdata : List (Option D))
    (load : S → Option D) (hlen : pdata.length = ms.length) (k : Nat) (hk : k ≤ ms.length) :
    let st := ((ms.zip pdata).take k).foldl (stepPrim skip) (initSt ms load)
    let pre := flat (ms.take k)
    let suf := flat (ms.drop k)
    st.err = none ∧
    st.requests = uniq pre ∧
    st.cache = ((uniq pre).filter (fun x => 0 < suf.count x)).map (fun x => (x, load x)) ∧
    (∀ x, st.usage x = (suf.count x : Nat)) ∧
    uniq (flat ms) = st.requests ++ st.loader.map (·.1) ∧
    (∀ kv ∈ st.loader, kv.2 = load kv.1) ∧
    st.out = specOut skip (ms.take k) (pdata.take k) load := by
  have hz : (ms.zip pdata).take k = (ms.take k).zip (pdata.take k) := by
    simp only [List.zip_eq_zipWith, List.take_zipWith]
  have hm : ((ms.zip pdata).take k).map (·.1) = ms.take k := by
    rw [hz]
    exact List.map_fst_zip (by simp only [List.length_take]; omega)
  have hflat : flat ms = flat (ms.take k) ++ flat (ms.drop k) := by
    rw [← flat_append, List.take_append_drop]
  have h0 := initSt_inv (P := P) ms load
  rw [hflat, ← hm] at h0
  obtain ⟨hI, hout⟩ := foldPrim_inv skip load ((ms.zip pdata).take k) [] (flat (ms.drop k))
    (initSt ms load) h0
  rw [hm, List.nil_append] at hI
  have h5 := hI.ldr
  rw [hI.req, ← uniq_append, ← hflat, ← hI.req] at h5
  have h7 : (((ms.zip pdata).take k).foldl (stepPrim skip) (initSt ms load)).out =
      specOut skip (ms.take k) (pdata.take k) load := by
    rw [hout, specOut_eq, ← hz]
    exact List.nil_append _
  exact ⟨hI.err, hI.req, hI.cache, hI.usage, h5, hI.lval, h7⟩

/-- end-to-end specification -/
theorem align_spec (skip : Bool) (ms : List (P × List S)) (pdata : List (Option D))
    (load : S → Option D) (hlen : pdata.length = ms.length) (hne : ms ≠ []) :
    let st := align skip ms pdata load
    st.err = none ∧ st.out = specOut skip ms pdata load ∧
    st.requests = uniq (flat ms) ∧ st.cache = [] ∧ st.loader = [] := by
  have hemp : ms.isEmpty = false := by
    cases ms with
    | nil => exact absurd rfl hne
    | cons _ _ => rfl
  have hal : align skip ms pdata load = (ms.zip pdata).foldl (stepPrim skip) (initSt ms load) := by
    simp only [align, hemp]; rfl
  have hzl : (ms.zip pdata).length = ms.length := by
    rw [List.length_zip, hlen, Nat.min_self]
  have h := align_prefix_inv skip ms pdata load hlen ms.length (Nat.le_refl _)
  simp only [] at h
  rw [← hzl, List.take_length, hzl, List.take_length, List.drop_length, ← hlen,
    List.take_length, ← hal] at h
  obtain ⟨h1, h2, h3, _, h5, _, h7⟩ := h
  refine ⟨h1, h7, h2, ?_, ?_⟩
  · rw [h3]; simp [flat_nil]
  · rw [h2] at h5
    have : (align skip ms pdata load).loader.map (·.1) = [] := by
      have := congrArg List.length h5
      simp only [List.length_append, List.length_map] at this
      exact List.eq_nil_of_length_eq_zero (by simp only [List.length_map]; omega)
    exact List.map_eq_nil_iff.1 this

end Align
