import Model.Align

namespace Align
open Pool (Err)
variable {P S D : Type} [DecidableEq S]

/-- `uniq` started from an arbitrary accumulator -/
def G (acc l : List S) : List S := l.foldl uniqStep acc

theorem G_nil (acc : List S) : G acc [] = acc := rfl
theorem G_cons (acc : List S) (x : S) (l : List S) : G acc (x :: l) = G (uniqStep acc x) l := rfl
theorem G_append (acc l1 l2 : List S) : G acc (l1 ++ l2) = G (G acc l1) l2 := List.foldl_append
theorem uniq_eq_G (l : List S) : uniq l = G [] l := rfl
theorem uniq_append (pre l : List S) : uniq (pre ++ l) = G (uniq pre) l := by
  simp only [uniq_eq_G, G_append]
theorem uniq_snoc (pre : List S) (s : S) : uniq (pre ++ [s]) = uniqStep (uniq pre) s := by
  rw [uniq_append]; rfl

theorem G_prefix (acc l : List S) : ∃ t, G acc l = acc ++ t := by
  induction l generalizing acc with
  | nil => exact ⟨[], by simp [G]⟩
  | cons x l ih =>
    obtain ⟨t, ht⟩ := ih (uniqStep acc x)
    rw [G_cons, ht]
    unfold uniqStep; split
    · exact ⟨t, rfl⟩
    · exact ⟨x :: t, by simp⟩

theorem mem_G (acc l : List S) (x : S) : x ∈ G acc l ↔ x ∈ acc ∨ x ∈ l := by
  induction l generalizing acc with
  | nil => simp [G]
  | cons y l ih =>
    rw [G_cons, ih]; unfold uniqStep; split <;> simp <;> grind

theorem nodup_G (acc l : List S) (h : acc.Nodup) : (G acc l).Nodup := by
  induction l generalizing acc with
  | nil => simpa [G] using h
  | cons y l ih =>
    rw [G_cons]; apply ih; unfold uniqStep; split
    · exact h
    · rw [List.nodup_append]; refine ⟨h, by simp, ?_⟩; grind

theorem mem_uniq (l : List S) (x : S) : x ∈ uniq l ↔ x ∈ l := by
  rw [uniq_eq_G, mem_G]; simp
theorem nodup_uniq (l : List S) : (uniq l).Nodup := nodup_G [] l List.nodup_nil
theorem count_uniq (l : List S) (x : S) : (uniq l).count x = if x ∈ l then 1 else 0 := by
  rw [(nodup_uniq l).count]; simp only [mem_uniq]

/-! ### the tail of the loop body -/

/-- everything in `stepSec` after the secondary content `sd` has been obtained -/
def finish (skip : Bool) (p : P) (pd : Option D) (st : St P S D) (s : S) (sd : Option D) :
    St P S D :=
  let usage := fun x => if x = s then st.usage x - 1 else st.usage x
  let cache := if usage s = 0 then st.cache.filter (fun kv => kv.1 ≠ s) else st.cache
  let out := if pd.isNone || (sd.isNone && skip) then st.out else st.out ++ [((p, pd), (s, sd))]
  { st with usage := usage, cache := cache, out := out }

theorem stepSec_hit (skip : Bool) (p : P) (pd : Option D) (st : St P S D) (s : S) (d : Option D)
    (he : st.err = none) (hc : st.cache.lookup s = some d) :
    stepSec skip p pd st s = finish skip p pd st s d := by
  simp only [stepSec, he, hc, finish]; rfl

theorem stepSec_miss (skip : Bool) (p : P) (pd : Option D) (st : St P S D) (s : S) (d : Option D)
    (rest : List (S × Option D))
    (he : st.err = none) (hc : st.cache.lookup s = none) (hl : st.loader = (s, d) :: rest) :
    stepSec skip p pd st s =
      finish skip p pd { st with loader := rest, cache := st.cache ++ [(s, d)],
                                 requests := st.requests ++ [s] } s d := by
  simp only [stepSec, he, hc, hl, finish]; simp

theorem lookup_map_pair (f : S → Option D) (l : List S) (s : S) :
    (l.map (fun x => (x, f x))).lookup s = if s ∈ l then some (f s) else none := by
  induction l with
  | nil => simp
  | cons y l ih =>
    simp only [List.map_cons, List.lookup_cons, ih]
    by_cases h : s = y
    · subst h; simp
    · have : (s == y) = false := by simpa using h
      simp [this, h]

/-! ### cache eviction -/

theorem evict_zero (f : S → Option D) (U : List S) (s : S) (suf : List S) (h : suf.count s = 0) :
    ((U.filter (fun x => 0 < (s :: suf).count x)).map (fun x => (x, f x))).filter
        (fun kv => kv.1 ≠ s) =
      (U.filter (fun x => 0 < suf.count x)).map (fun x => (x, f x)) := by
  rw [List.filter_map, List.filter_filter]
  congr 1
  apply List.filter_congr
  intro x _
  by_cases hx : x = s
  · subst hx; simp [h]
  · have : (s == x) = false := by simpa using fun e => hx e.symm
    simp [List.count_cons, this, hx]

theorem evict_pos (U : List S) (s : S) (suf : List S) (h : suf.count s ≠ 0) :
    U.filter (fun x => 0 < (s :: suf).count x) = U.filter (fun x => 0 < suf.count x) := by
  apply List.filter_congr
  intro x _
  by_cases hx : x = s
  · subst hx
    have : 0 < suf.count x := Nat.pos_of_ne_zero h
    simp [this]
  · have : (s == x) = false := by simpa using fun e => hx e.symm
    simp [List.count_cons, this]

/-! ### the invariant -/

/-- state invariant when the secondaries `pre` have been processed and `suf` are still to come -/
structure Inv (load : S → Option D) (pre suf : List S) (st : St P S D) : Prop where
  err : st.err = none
  req : st.requests = uniq pre
  ldr : G st.requests suf = st.requests ++ st.loader.map (·.1)
  lval : ∀ kv ∈ st.loader, kv.2 = load kv.1
  usage : ∀ x, st.usage x = (suf.count x : Nat)
  cache : st.cache =
    ((uniq pre).filter (fun x => 0 < suf.count x)).map (fun x => (x, load x))

/-- the `filterMap` element of `specOut` for one pair -/
def specElem (skip : Bool) (load : S → Option D) (p : P) (pd : Option D) (s : S) :
    Option ((P × Option D) × (S × Option D)) :=
  if pd.isNone || ((load s).isNone && skip) then none else some ((p, pd), (s, load s))

theorem finish_inv (skip : Bool) (load : S → Option D) (p : P) (pd : Option D)
    (pre suf : List S) (s : S) (st : St P S D)
    (herr : st.err = none)
    (hreq : st.requests = uniq (pre ++ [s]))
    (hldr : G st.requests suf = st.requests ++ st.loader.map (·.1))
    (hlval : ∀ kv ∈ st.loader, kv.2 = load kv.1)
    (husage : ∀ x, st.usage x = ((s :: suf).count x : Nat))
    (hcache : st.cache = ((uniq (pre ++ [s])).filter (fun x => 0 < (s :: suf).count x)).map
        (fun x => (x, load x))) :
    Inv load (pre ++ [s]) suf (finish skip p pd st s (load s)) ∧
    (finish skip p pd st s (load s)).out = st.out ++ (specElem skip load p pd s).toList := by
  refine ⟨⟨herr, hreq, hldr, hlval, ?_, ?_⟩, ?_⟩
  · intro x
    simp only [finish, husage, List.count_cons]
    by_cases hx : x = s
    · subst hx; simp
    · have : (s == x) = false := by simpa using fun e => hx e.symm
      simp [this, hx]
  · simp only [finish, husage, if_true, List.count_cons_self]
    by_cases h0 : suf.count s = 0
    · have : ((List.count s suf + 1 : Nat) : Int) - 1 = 0 := by omega
      rw [if_pos this, hcache, evict_zero _ _ _ _ h0]
    · have : ¬ ((List.count s suf + 1 : Nat) : Int) - 1 = 0 := by omega
      rw [if_neg this, hcache, evict_pos _ _ _ h0]
  · simp only [finish, specElem]
    split <;> simp

end Align
