import Proofs.Lemmas.Pool
import Proofs.Lemmas.Align
import Proofs.Audit

/-!
# C10 — parallel map / imap / collect process each file once and keep file order

Property theorems only (helper lemmas: `Proofs/Lemmas/Pool.lean`, `Proofs/Lemmas/Align.lean`).

The schedule quantifier: a *schedule* is an arbitrary `List Pool.Event`
(`submit i | complete i | consume`); `Pool.run W tasks {} sched = some s` says that every
event of the list was enabled at its turn (`Pool.Valid`).  The theorems hold for **every**
such list of any length — i.e. for every interleaving of completions (`complete i` is enabled
for any in-flight task at any time) with the generator's own steps — for every worker count
`W`, every number of tasks and every outcome (value or exception) of each task.
`tasks` = per-file outcomes of `_call_map_function` in `find()` / `files=` order.
-/

open Pool

variable {ε β : Type}

/-- **C10_imap_order.**  Whenever the generator has finished (`Terminal`: all inputs submitted
and flushed, or an exception left it) — after *any* valid schedule — the consumer has received
exactly the values of the tasks in input order up to the first failing task, and that task's
exception (`expected tasks`); every input was submitted at most once, in input order, and
exactly once when no exception occurred. -/
theorem C10_imap_order (W : Nat) (tasks : List (Except ε β)) (sched : List Event)
    (s : State ε β) (hrun : run W tasks {} sched = some s) (hterm : Terminal tasks s) :
    (s.out, s.failed) = expected tasks ∧
    s.log = List.range s.next ∧
    (s.failed = none → s.log = List.range tasks.length) := by
  have hI := inv_reach hrun
  refine ⟨terminal_expected hI hterm, hI.log_eq, ?_⟩
  intro hf
  rcases hterm with h | ⟨h, _⟩
  · simp [hf] at h
  · rw [hI.log_eq, h]

/-- the same for the plain reading "the yielded sequence equals `inputs.map f`" -/
theorem C10_imap_order_values {α : Type} (W : Nat) (inputs : List α) (f : α → β)
    (sched : List Event) (s : State ε β)
    (hrun : run W (inputs.map (fun a => (Except.ok (f a) : Except ε β))) {} sched = some s)
    (hterm : Terminal (inputs.map (fun a => (Except.ok (f a) : Except ε β))) s) :
    s.out = inputs.map f ∧ s.failed = none ∧ s.log = List.range inputs.length := by
  have h := C10_imap_order W _ sched s hrun hterm
  have hexp : expected (inputs.map (fun a => (Except.ok (f a) : Except ε β)))
      = (inputs.map f, none) := by
    have := expected_oks (ε := ε) (inputs.map f)
    rwa [List.map_map] at this
  rw [hexp] at h
  obtain ⟨h1, _, h3⟩ := h
  have ho : s.out = inputs.map f := congrArg Prod.fst h1
  have hf : s.failed = none := congrArg Prod.snd h1
  exact ⟨ho, hf, by simpa using h3 hf⟩

/-- **fairness / maximal schedules.**  A schedule that cannot be extended by any event ends in
a terminal state (no deadlock: while the generator is not finished some event is enabled), so
the order theorem applies to every maximal schedule. -/
theorem C10_imap_maximal (W : Nat) (hW : 1 ≤ W) (tasks : List (Except ε β)) (sched : List Event)
    (hmax : Maximal W tasks sched) :
    ∃ s, run W tasks {} sched = some s ∧ Terminal tasks s ∧ (s.out, s.failed) = expected tasks := by
  obtain ⟨s, hrun, hnone⟩ := hmax
  have hI := inv_reach hrun
  have hterm : Terminal tasks s := by
    by_contra hnt
    obtain ⟨e, he⟩ := progress hI hW hnt
    rw [hnone e] at he; cases he
  exact ⟨s, hrun, hterm, terminal_expected hI hterm⟩

/-- every valid schedule has at most `3·n` events, and can be extended to a maximal one:
the premise of `C10_imap_maximal` is satisfiable from any reachable state. -/
theorem C10_imap_terminates (W : Nat) (tasks : List (Except ε β)) (sched : List Event)
    (s : State ε β) (hrun : run W tasks {} sched = some s) :
    sched.length ≤ 3 * tasks.length ∧ ∃ ext, Maximal W tasks (sched ++ ext) := by
  have hI := inv_reach hrun
  have hlen : sched.length ≤ 3 * tasks.length := by
    have h1 := phi_run sched hrun
    have h2 := phi_le hI
    have : phi ({} : State ε β) = 0 := by simp [phi, popped]
    omega
  refine ⟨hlen, ?_⟩
  -- extend greedily; the potential bounds the number of further events
  suffices h : ∀ d (s : State ε β), Inv W tasks s → 3 * tasks.length - phi s = d →
      ∃ ext s', run W tasks s ext = some s' ∧ ∀ e, step W tasks s' e = none by
    obtain ⟨ext, s', hr, hn⟩ := h _ s hI rfl
    exact ⟨ext, s', by rw [run_append, hrun]; exact hr, hn⟩
  intro d
  induction d using Nat.strong_induction_on with
  | _ d ih =>
    intro s hI hd
    by_cases hall : ∀ e, step W tasks s e = none
    · exact ⟨[], s, rfl, hall⟩
    · push Not at hall
      obtain ⟨e, he⟩ := hall
      obtain ⟨s1, hs1⟩ := Option.ne_none_iff_exists'.mp he
      have hI1 := inv_step hI hs1
      have hphi := phi_step hs1
      have hle := phi_le hI1
      obtain ⟨ext, s', hr, hn⟩ := ih (3 * tasks.length - phi s1) (by omega) s1 hI1 rfl
      exact ⟨e :: ext, s', by simp [run, hs1, hr], hn⟩

/-- **C10_imap_bound.**  In every reachable state the number of submitted-but-unconsumed tasks
equals the length of the deque and never exceeds the worker count. -/
theorem C10_imap_bound (W : Nat) (tasks : List (Except ε β)) (sched : List Event)
    (s : State ε β) (hrun : run W tasks {} sched = some s) :
    s.queue.length ≤ W ∧
    s.next - (s.out.length + (if s.failed.isSome then 1 else 0)) = s.queue.length := by
  have hI := inv_reach hrun
  refine ⟨hI.bound, ?_⟩
  have := hI.queue_eq
  rw [this]; simp [popped]

/-- **C10_map_order.**  `map`: for every valid schedule of starts and completions, whatever the
result iterator of `Executor.map` can deliver is the in-order expectation (one result per
task in input order, or the values before the first failing task and its exception); it can
deliver as soon as everything is done; tasks are started once each, in order, never more
than `W` at a time. -/
theorem C10_map_order (W : Nat) (tasks : List (Except ε β)) (sched : List MEvent)
    (s : MState ε β) (hrun : mrun W tasks {} sched = some s) :
    (∀ x, mresult tasks.length s = some x → x = expected tasks) ∧
    ((∀ i < tasks.length, (s.done.lookup i).isSome) → (mresult tasks.length s).isSome) ∧
    s.log = List.range s.started ∧ s.started - s.done.length ≤ W := by
  have hI := minv_run sched (minv_init W tasks) hrun
  refine ⟨?_, ?_, hI.log_eq, hI.running⟩
  · intro x hx
    have := mresult_go_sound (tasks := tasks) (s := s) (fun i r h => (hI.done_ok i r h).2)
      tasks.length 0 x (by simp) (by simpa [mresult, List.range_eq_range'] using hx)
    simpa using this
  · intro hall
    have := mresult_go_complete (s := s) (List.range tasks.length)
      (fun i hi => hall i (List.mem_range.mp hi))
    simpa [mresult] using this

/-- **C10_exception_reaches_caller.**  If task `k` raises `e` and all earlier tasks succeed,
then after any schedule the finished `imap` generator has yielded exactly the `k` earlier
values and raised `e`, and `map` raises `e` — regardless of completion order and of later
failures.  (Which tasks raise is settled by `C10_wrapper_raises`.) -/
theorem C10_exception_reaches_caller (W : Nat) (vals : List β) (e : ε) (rest : List (Except ε β)) :
    let tasks := vals.map Except.ok ++ Except.error e :: rest
    (∀ sched (s : State ε β), run W tasks {} sched = some s → Terminal tasks s →
        s.out = vals ∧ s.failed = some e) ∧
    (∀ sched (s : MState ε β) x, mrun W tasks {} sched = some s →
        mresult tasks.length s = some x → x = (vals, some e)) := by
  intro tasks
  have hexp : expected tasks = (vals, some e) := expected_oks_err vals e rest
  constructor
  · intro sched s hrun hterm
    have := (C10_imap_order W tasks sched s hrun hterm).1
    rw [hexp] at this
    exact ⟨congrArg Prod.fst this, congrArg Prod.snd this⟩
  · intro sched s x hrun hx
    rw [← hexp]
    exact (C10_map_order W tasks sched s hrun).1 x hx

/-- the wrapper raises exactly when the function raises, or the read fails without
`error_to_warning` -/
theorem C10_wrapper_raises (cfg : Cfg) (rd : Reader) (func : Args → Except Err (Option β))
    (file : FileArg) (e : Err) :
    callMap cfg rd func file = .error e ↔
      (cfg.onContent = true ∧ cfg.errToWarn = false ∧ readArg rd file = .error e) ∨
      (cfg.onContent = true ∧ ∃ c, readArg rd file = .ok c ∧
          func (if cfg.passInfo then .both c file else .contentOnly c) = .error e) ∨
      (cfg.onContent = false ∧ func (.infoOnly file) = .error e) := by
  unfold callMap
  cases hoc : cfg.onContent <;> simp only [Bool.false_eq_true, if_false, if_true, false_and,
    true_and, false_or]
  · cases hf : func (.infoOnly file) with
    | error e' => simp
    | ok r => cases cfg.hasOutput <;> cases r <;> simp
  · cases hr : readArg rd file with
    | error e' => cases cfg.errToWarn <;> simp
    | ok c =>
      simp only [reduceCtorEq, and_false, false_or, Except.ok.injEq, exists_eq_left']
      cases hf : func (if cfg.passInfo = true then Args.both c file else Args.contentOnly c) with
      | error e' => simp
      | ok r => cases cfg.hasOutput <;> cases r <;> simp

/-- **C10_return_info_pairs.**  With `return_info` every task result carries the `FileInfo`
(or bundle) it was computed from, so — results being in input order — the i-th result of
`map`/`imap` is paired with the i-th file; without it no info is attached. -/
theorem C10_return_info_pairs (cfg : Cfg) (rd : Reader) (func : Args → Except Err (Option β))
    (files : List FileArg) (items : List (TaskOut β))
    (hall : taskList cfg rd func files = items.map Except.ok) :
    items.map (·.info) = files.map (fun f => if cfg.returnInfo then some f else none) := by
  have key : ∀ file t, callMap cfg rd func file = .ok t →
      t.info = if cfg.returnInfo then some file else none := by
    intro file t h
    unfold callMap at h
    simp only at h
    split at h
    · split at h
      · split at h
        · cases h; rfl
        · cases h
      · split at h
        · cases h
        · split at h
          · cases h; rfl
          · split at h <;> (cases h; rfl)
    · split at h
      · cases h
      · split at h
        · cases h; rfl
        · split at h <;> (cases h; rfl)
  induction files generalizing items with
  | nil => cases items <;> simp_all [taskList]
  | cons f fs ih =>
    cases items with
    | nil => simp [taskList] at hall
    | cons t ts =>
      simp only [taskList, List.map_cons, List.cons.injEq] at hall
      simp only [List.map_cons, List.cons.injEq]
      exact ⟨key f t hall.1, ih ts hall.2⟩

/-- files a task touches -/
def filesOf : FileArg → List Nat
  | .single f => [f]
  | .bundle fs => fs

private theorem readAll_congr (rd rd' : Reader) (fs : List Nat) (h : ∀ f ∈ fs, rd f = rd' f) :
    readAll rd fs = readAll rd' fs := by
  induction fs with
  | nil => rfl
  | cons f t ih =>
    simp only [readAll]
    rw [h f (by simp), ih (fun g hg => h g (by simp [hg]))]

/-- **C10_read_error_isolated.**  Under `on_content ∧ error_to_warning` a failing read turns
into *a warning and the result `None` for that file* (with its info when `return_info`), and
no exception; the result of every task whose files read the same is unchanged — position by
position, whatever happens to the other files.  Together with `C10_imap_order`/`C10_map_order`
(results are delivered in input order) the other files are not disturbed. -/
theorem C10_read_error_isolated (cfg : Cfg) (hc : cfg.onContent = true) (hw : cfg.errToWarn = true)
    (rd rd' : Reader) (func : Args → Except Err (Option β)) (files : List FileArg) :
    (∀ i (h : i < files.length) e, readArg rd files[i] = .error e →
        (taskList cfg rd func files)[i]? = some (.ok
          { info := if cfg.returnInfo then some files[i] else none, val := .none, warned := true })) ∧
    (∀ i (h : i < files.length), (∀ f ∈ filesOf files[i], rd f = rd' f) →
        (taskList cfg rd func files)[i]? = (taskList cfg rd' func files)[i]?) := by
  constructor
  · intro i h e he
    simp only [taskList, List.getElem?_map, List.getElem?_eq_getElem h, Option.map_some]
    unfold callMap
    simp [hc, hw, he]
  · intro i h hsame
    simp only [taskList, List.getElem?_map, List.getElem?_eq_getElem h, Option.map_some]
    have hread : readArg rd files[i] = readArg rd' files[i] := by
      cases hfi : files[i] with
      | single f =>
        rw [hfi] at hsame
        simp only [readArg]; rw [hsame f (by simp [filesOf])]
      | bundle fs =>
        rw [hfi] at hsame
        simp only [readArg]; rw [readAll_congr rd rd' fs (fun f hf => hsame f (by simpa [filesOf] using hf))]
    unfold callMap
    simp only [hc, if_true, hread]

/-- without `error_to_warning` (or without `on_content`) nothing is swallowed: no warning -/
theorem C10_warning_only_under_flags (cfg : Cfg) (rd : Reader) (func : Args → Except Err (Option β))
    (file : FileArg) (t : TaskOut β) (h : callMap cfg rd func file = .ok t) (hwarn : t.warned = true) :
    cfg.onContent = true ∧ cfg.errToWarn = true ∧ ∃ e, readArg rd file = .error e := by
  unfold callMap at h
  simp only at h
  split at h
  · rename_i hoc
    split at h
    · rename_i e he
      split at h
      · rename_i hw; exact ⟨hoc, hw, e, he⟩
      · cases h
    · split at h
      · cases h
      · split at h
        · cases h; simp at hwarn
        · split at h <;> (cases h; simp at hwarn)
  · split at h
    · cases h
    · split at h
      · cases h; simp at hwarn
      · split at h <;> (cases h; simp at hwarn)

/-- **C10_collect_drops_none.**  `collect` keeps exactly the non-`None` contents, in the order
of the `map` results, each still paired with its file; (after fix 42e45d8) nothing left gives
empty lists. -/
theorem C10_collect_drops_none (items : List (TaskOut β)) :
    let r := collectResults items
    r.2 = items.filterMap (fun t => match t.val with | .val c => some c | _ => none) ∧
    r.1 = (items.filter (fun t => match t.val with | .val _ => true | _ => false)).map (·.info) ∧
    r.1.length = r.2.length := by
  have h2 : ∀ items : List (TaskOut β), (collectResults items).2
      = items.filterMap (fun t => match t.val with | .val c => some c | _ => none) := by
    intro items
    induction items with
    | nil => rfl
    | cons t ts ih =>
      simp only [collectResults, collectOf, List.map_cons, List.filterMap_cons] at ih ⊢
      cases hv : t.val <;> simp_all
  have h1 : ∀ items : List (TaskOut β), (collectResults items).1
      = (items.filter (fun t => match t.val with | .val _ => true | _ => false)).map (·.info) := by
    intro items
    induction items with
    | nil => rfl
    | cons t ts ih =>
      simp only [collectResults, collectOf, List.map_cons, List.filterMap_cons,
        List.filter_cons] at ih ⊢
      cases hv : t.val <;> simp_all
  refine ⟨h2 items, h1 items, ?_⟩
  simp [collectResults, collectOf]

/-- what one `icollect`/`collect` task delivers (`func = _pseudo_passer`, `on_content`):
the file's content, `None` when the reader returned `None` -/
theorem C10_passer_task (ew : Bool) (ri : Bool) (rd : Reader) (file : FileArg) (c : Option Content)
    (h : readArg rd file = .ok c) :
    callMap { onContent := true, returnInfo := ri, errToWarn := ew } rd passer file =
      .ok { info := if ri then some file else none,
            val := match c with | none => .none | some c => .val c } := by
  unfold callMap
  cases c <;> simp [h, passer]

/-- **C10_align_spec.**  `align` on matches `ms` (primary, list of secondaries), with the
primary loader delivering `pdata` (one item per match, in order) and the secondary loader
delivering `(s, load s)` for the distinct secondaries in first-occurrence order — both
guaranteed by `C10_imap_order` for `icollect(files=…)`:
never raises AlignError/StopIteration; yields exactly the pairs
`[((p, pdata), (s, load s)) | (p, ss) ∈ ms, s ∈ ss]` in that order (minus pairs skipped because a
content is `None`), pulls each distinct secondary from the loader exactly once
(`requests = uniq (flat ms)`, duplicate-free), and ends with empty cache and loader. -/
theorem C10_align_spec {P S D : Type} [DecidableEq S] (skip : Bool) (ms : List (P × List S))
    (pdata : List (Option D)) (load : S → Option D) (hlen : pdata.length = ms.length)
    (hne : ms ≠ []) :
    let st := Align.align skip ms pdata load
    st.err = none ∧ st.out = Align.specOut skip ms pdata load ∧
    st.requests = Align.uniq (Align.flat ms) ∧ st.requests.Nodup ∧
    (∀ s, s ∈ st.requests ↔ s ∈ Align.flat ms) ∧
    st.cache = [] ∧ st.loader = [] := by
  intro st
  obtain ⟨h1, h2, h3, h4, h5⟩ := Align.align_spec skip ms pdata load hlen hne
  refine ⟨h1, h2, h3, ?_, ?_, h4, h5⟩
  · show (Align.align skip ms pdata load).requests.Nodup
    rw [h3]; exact Align.nodup_uniq _
  · intro s
    show s ∈ (Align.align skip ms pdata load).requests ↔ _
    rw [h3]; exact Align.mem_uniq _ _

/-- **C10_align_cache.**  Cache invariant at every primary boundary: after the first `k`
matches the cache holds exactly the secondaries seen so far that later matches still need,
with the content the loader delivered; the usage counter equals the remaining uses. -/
theorem C10_align_cache {P S D : Type} [DecidableEq S] (skip : Bool) (ms : List (P × List S))
    (pdata : List (Option D)) (load : S → Option D) (hlen : pdata.length = ms.length)
    (k : Nat) (hk : k ≤ ms.length) :
    let st := ((ms.zip pdata).take k).foldl (Align.stepPrim skip) (Align.initSt ms load)
    let seen := Align.flat (ms.take k)
    let rest := Align.flat (ms.drop k)
    st.cache = ((Align.uniq seen).filter (fun x => 0 < rest.count x)).map (fun x => (x, load x)) ∧
    (∀ x, st.usage x = (rest.count x : Nat)) ∧
    (∀ x, x ∈ st.cache.map (·.1) ↔ x ∈ seen ∧ 0 < rest.count x) := by
  intro st seen rest
  obtain ⟨_, _, h3, h4, _⟩ := Align.align_prefix_inv skip ms pdata load hlen k hk
  refine ⟨h3, h4, ?_⟩
  intro x
  show x ∈ List.map (·.1) (((ms.zip pdata).take k).foldl (Align.stepPrim skip)
    (Align.initSt ms load)).cache ↔ _
  rw [h3]
  simp [Align.mem_uniq, seen, rest]

/-! ## Composition: collect = collectResults ∘ map, icollect = imap ∘ passer, align on top of
the two `icollect` loaders -/

/-- the item one `collect`/`icollect` task delivers for `file` when it does not raise -/
def passItem (ri : Bool) (rd : Reader) (file : FileArg) : TaskOut Content :=
  { info := if ri then some file else none,
    val := match readArg rd file with | .ok (some c) => .val c | _ => .none,
    warned := match readArg rd file with | .error _ => true | _ => false }

/-- content of a file as `collect` sees it (`none`: reader returned None or read error) -/
def contentOf (rd : Reader) (file : FileArg) : Option Content :=
  match readArg rd file with | .ok (some c) => some c | _ => none

private theorem collectOf_map {α φ γ : Type} (k : α → φ) (c : α → Option γ) (l : List α) :
    collectOf (l.map (fun f => (k f, c f))) = ((l.filter (fun f => (c f).isSome)).map k, l.filterMap c) := by
  induction l with
  | nil => rfl
  | cons f t ih =>
    simp only [collectOf, List.map_cons, List.filterMap_cons, List.filter_cons] at ih ⊢
    cases hc : c f with
    | none => simpa [hc] using ih
    | some v =>
      simp only [Option.map_some, List.unzip_cons, ih, Option.isSome_some, if_true, List.map_cons]

private theorem collect_passItems (rd : Reader) (files : List FileArg) :
    collectResults (files.map (passItem true rd))
      = ((files.filter (fun f => (contentOf rd f).isSome)).map some, files.filterMap (contentOf rd)) := by
  unfold collectResults
  rw [List.map_map]
  refine Eq.trans (congrArg collectOf (List.map_congr_left
    (g := fun f => (some f, contentOf rd f)) (fun f _ => ?_))) ?_
  · simp only [Function.comp, passItem, contentOf]
    cases readArg rd f with
    | error e => rfl
    | ok c => cases c <;> rfl
  · exact collectOf_map some (contentOf rd) files

private theorem passer_tasks (ri ew : Bool) (rd : Reader) (files : List FileArg)
    (hok : ∀ f ∈ files, ew = true ∨ ∃ c, readArg rd f = .ok c) :
    taskList { onContent := true, returnInfo := ri, errToWarn := ew } rd passer files
      = (files.map (passItem ri rd)).map Except.ok := by
  simp only [taskList, List.map_map]
  apply List.map_congr_left
  intro f hf
  simp only [Function.comp]
  cases hr : readArg rd f with
  | ok c =>
    rw [C10_passer_task ew ri rd f c hr]
    cases c <;> simp [passItem, hr]
  | error e =>
    rcases hok f hf with h | ⟨c, hc⟩
    · subst h
      unfold callMap
      simp [hr, passItem]
    · rw [hr] at hc; cases hc

/-- **C10_icollect_compose.**  `icollect` = `imap` with `_pseudo_passer` and `on_content`: for
every schedule, once the generator has finished it has yielded exactly one item per file, in
`files=` / `find()` order, carrying that file's content (`None` for a `None` content or, under
`error_to_warning`, a failed read) — provided no read raises (`hok`). -/
theorem C10_icollect_compose (W : Nat) (ri ew : Bool) (rd : Reader) (files : List FileArg)
    (hok : ∀ f ∈ files, ew = true ∨ ∃ c, readArg rd f = .ok c)
    (sched : List Event) (s : State Err (TaskOut Content))
    (hrun : run W (taskList { onContent := true, returnInfo := ri, errToWarn := ew } rd passer files)
      {} sched = some s)
    (hterm : Terminal (taskList { onContent := true, returnInfo := ri, errToWarn := ew } rd passer files) s) :
    s.out = files.map (passItem ri rd) ∧ s.failed = none := by
  have h := (C10_imap_order W _ sched s hrun hterm).1
  rw [passer_tasks ri ew rd files hok, expected_oks] at h
  exact ⟨congrArg Prod.fst h, congrArg Prod.snd h⟩

/-- **C10_collect_compose.**  `collect` = `collectResults (map …)`: for every schedule of the
thread pool, when `map` returns, `collect` returns exactly the non-`None` contents of the files
in file order, each paired with its file. -/
theorem C10_collect_compose (W : Nat) (ew : Bool) (rd : Reader) (files : List FileArg)
    (hok : ∀ f ∈ files, ew = true ∨ ∃ c, readArg rd f = .ok c)
    (sched : List MEvent) (s : MState Err (TaskOut Content)) (x : List (TaskOut Content) × Option Err)
    (hrun : mrun W (taskList { onContent := true, returnInfo := true, errToWarn := ew } rd passer files)
      {} sched = some s)
    (hx : mresult (taskList { onContent := true, returnInfo := true, errToWarn := ew } rd passer files).length s
      = some x) :
    x.2 = none ∧
    (collectResults x.1).2 = files.filterMap (contentOf rd) ∧
    (collectResults x.1).1 = (files.filter (fun f => (contentOf rd f).isSome)).map some := by
  have h := (C10_map_order W _ sched s hrun).1 x hx
  rw [passer_tasks true ew rd files hok, expected_oks] at h
  subst h
  rw [collect_passItems]
  exact ⟨rfl, rfl, rfl⟩

/-- what the secondary loader of `align` delivers for file `s` -/
def loadOf (rd : Reader) (s : Nat) : Option Int :=
  match rd s with | .ok c => c | .error _ => none

/-- view of an `icollect` item of a single file as `(file id, content)` -/
def itemView (t : TaskOut Content) : Nat × Option Int :=
  (match t.info with | some (.single f) => f | _ => 0,
   match t.val with | .val (.one c) => some c | _ => none)

private theorem itemView_passItem (ri : Bool) (rd : Reader) (f : Nat) :
    (itemView (passItem ri rd (.single f))).2 = loadOf rd f ∧
    itemView (passItem true rd (.single f)) = (f, loadOf rd f) := by
  simp only [itemView, passItem, readArg, loadOf]
  cases rd f with
  | error e => simp
  | ok c => cases c <;> simp

/-- **C10_align_end_to_end.**  `align` composed with its two loaders.  Primaries are read by
`self.icollect(files=primaries, error_to_warning=skip)` and the distinct secondaries by
`other.icollect(files=unique_secondaries, return_info=True, error_to_warning=skip)`, each a
thread pool with its own arbitrary schedule (`schedP`, `schedS`).  If no read raises (always so
under `skip_errors`), then whatever the two schedules were:
* the secondary loader's stream is exactly the loader list the align model starts from
  (`Align.initSt`): one item per *distinct* secondary — so each is read once — in
  first-occurrence order, with its own `FileInfo`;
* the primary loader delivers one content per match in order; and
* `align` raises no AlignError/StopIteration and yields exactly the specified pairs. -/
theorem C10_align_end_to_end (Wp Ws : Nat) (skip : Bool) (rdP rdS : Reader)
    (ms : List (Nat × List Nat)) (hne : ms ≠ [])
    (hokP : ∀ m ∈ ms, skip = true ∨ ∃ c, rdP m.1 = .ok c)
    (hokS : ∀ x ∈ Align.flat ms, skip = true ∨ ∃ c, rdS x = .ok c)
    (schedP schedS : List Event) (sP sS : State Err (TaskOut Content))
    (hrunP : run Wp (taskList { onContent := true, returnInfo := false, errToWarn := skip } rdP passer
      (ms.map (fun m => FileArg.single m.1))) {} schedP = some sP)
    (htermP : Terminal (taskList { onContent := true, returnInfo := false, errToWarn := skip } rdP passer
      (ms.map (fun m => FileArg.single m.1))) sP)
    (hrunS : run Ws (taskList { onContent := true, returnInfo := true, errToWarn := skip } rdS passer
      ((Align.uniq (Align.flat ms)).map FileArg.single)) {} schedS = some sS)
    (htermS : Terminal (taskList { onContent := true, returnInfo := true, errToWarn := skip } rdS passer
      ((Align.uniq (Align.flat ms)).map FileArg.single)) sS) :
    sS.out.map itemView = (Align.initSt ms (loadOf rdS) : Align.St Nat Nat Int).loader ∧
    sP.out.map (fun t => (itemView t).2) = ms.map (fun m => loadOf rdP m.1) ∧
    (let st := Align.align skip ms (sP.out.map (fun t => (itemView t).2)) (loadOf rdS)
     st.err = none ∧
     st.out = Align.specOut skip ms (ms.map (fun m => loadOf rdP m.1)) (loadOf rdS) ∧
     st.requests = Align.uniq (Align.flat ms) ∧ st.cache = []) := by
  have readSingle : ∀ (rd : Reader) (f : Nat), (∃ c, rd f = .ok c) → ∃ c, readArg rd (.single f) = .ok c := by
    intro rd f ⟨c, hc⟩
    exact ⟨c.map Content.one, by simp [readArg, hc]⟩
  have hP := C10_icollect_compose Wp false skip rdP (ms.map (fun m => FileArg.single m.1))
    (by
      intro f hf
      obtain ⟨m, hm, rfl⟩ := List.mem_map.mp hf
      exact (hokP m hm).imp id (readSingle rdP m.1)) schedP sP hrunP htermP
  have hS := C10_icollect_compose Ws true skip rdS ((Align.uniq (Align.flat ms)).map FileArg.single)
    (by
      intro f hf
      obtain ⟨x, hx, rfl⟩ := List.mem_map.mp hf
      exact (hokS x ((Align.mem_uniq _ _).mp hx)).imp id (readSingle rdS x)) schedS sS hrunS htermS
  have e1 : sS.out.map itemView = (Align.initSt ms (loadOf rdS) : Align.St Nat Nat Int).loader := by
    rw [hS.1]
    simp only [Align.initSt, List.map_map]
    apply List.map_congr_left
    intro x _
    exact (itemView_passItem true rdS x).2
  have e2 : sP.out.map (fun t => (itemView t).2) = ms.map (fun m => loadOf rdP m.1) := by
    rw [hP.1]
    simp only [List.map_map]
    apply List.map_congr_left
    intro m _
    exact (itemView_passItem false rdP m.1).1
  refine ⟨e1, e2, ?_⟩
  rw [e2]
  obtain ⟨h1, h2, h3, _, _, h6, _⟩ := C10_align_spec skip ms (ms.map (fun m => loadOf rdP m.1)) (loadOf rdS)
    (by simp) hne
  exact ⟨h1, h2, h3, h6⟩

/-- user `args=` / `kwargs=`: every task calls the function with the same user arguments
(`callMapU` threads them unchanged; the wrapper's per-task `list(args)` copy is what the
correspondence run checks on the real code with one shared list object) -/
theorem C10_user_args_per_task (cfg : Cfg) (rd : Reader) (uargs : List String)
    (kwargs : List (String × String))
    (func : List String → List (String × String) → Args → Except Err (Option β)) (files : List FileArg) :
    files.map (callMapU cfg rd uargs kwargs func) = taskList cfg rd (func uargs kwargs) files := rfl

/-! ## Non-vacuity: concrete schedules, states and hypotheses -/

section Examples

/-- four tasks, the third raises -/
def exTasks : List (Except String Nat) := [.ok 10, .ok 11, .error "boom", .ok 13]
def exOk : List (Except String Nat) := [.ok 10, .ok 11, .ok 12, .ok 13]

-- reversed completion order with 2 workers: a valid, maximal schedule exists and is terminal
#guard (drive 2 exOk [3, 2, 1, 0]).1.out == [10, 11, 12, 13]
#guard (run 2 exOk {} (drive 2 exOk [3, 2, 1, 0]).2).isSome
#guard (drive 2 exOk [3, 2, 1, 0]).2 ==
  [.submit 0, .submit 1, .complete 0, .consume, .submit 2, .complete 1, .consume, .submit 3,
   .complete 3, .complete 2, .consume, .consume]
#guard (drive 3 exOk [2, 1, 0, 3]).2 ==
  [.submit 0, .submit 1, .submit 2, .complete 2, .complete 1, .complete 0, .consume, .submit 3,
   .consume, .consume, .complete 3, .consume]
#guard (drive 2 exTasks [1, 0, 3, 2]).1.out == [10, 11]
#guard (drive 2 exTasks [1, 0, 3, 2]).1.failed == some "boom"
#guard expected exTasks == ([10, 11], some "boom")
-- a schedule that violates the guards is rejected (third submit with two workers)
#guard (run 2 exOk {} [.submit 0, .submit 1, .submit 2]).isNone
-- consuming as-completed is not a transition of the model
#guard (run 2 exOk {} [.submit 0, .submit 1, .complete 1, .consume]).isNone
-- map
#guard (mdrive 2 exOk [3, 2, 1, 0]).2 ==
  [.start 0, .start 1, .complete 0, .start 2, .complete 1, .start 3, .complete 3, .complete 2]
#guard mresult 4 (mdrive 2 exOk [3, 2, 1, 0]).1 == some ([10, 11, 12, 13], none)
#guard mresult 4 (mdrive 2 exTasks [3, 2, 1, 0]).1 == some ([10, 11], some "boom")

/-- the hypotheses of `C10_imap_order` are satisfiable by a non-trivial schedule -/
example : ∃ sched s, sched.length = 12 ∧ run 2 exOk {} sched = some s ∧ Terminal exOk s :=
  ⟨(drive 2 exOk [3, 2, 1, 0]).2, (drive 2 exOk [3, 2, 1, 0]).1, by decide, by rfl,
    Or.inr ⟨by rfl, by rfl⟩⟩

/-- a maximal schedule (premise of `C10_imap_maximal`) ending in the exception state -/
example : Maximal 2 exTasks (drive 2 exTasks [1, 0, 3, 2]).2 := by
  refine ⟨(drive 2 exTasks [1, 0, 3, 2]).1, by rfl, ?_⟩
  have hq : (drive 2 exTasks [1, 0, 3, 2]).1.queue = [3] := by rfl
  have hf : (drive 2 exTasks [1, 0, 3, 2]).1.failed = some "boom" := by rfl
  have hd : isDone (drive 2 exTasks [1, 0, 3, 2]).1 3 = true := by rfl
  intro e
  cases e with
  | submit i => simp [step, hf]
  | complete i =>
    simp only [step, hq, List.mem_singleton]
    split
    · rename_i h; obtain ⟨rfl, h2⟩ := h; rw [hd] at h2; cases h2
    · rfl
  | consume => simp [step, hf]

-- wrapper: a bundle with one unreadable file under error_to_warning, and without
def exRd : Reader := fun f => if f = 1 then .error (.readError 1) else if f = 2 then .ok none else .ok (some (1000 + f))
def exFunc : Args → Except Err (Option Nat)
  | .contentOnly (some (.one c)) => .ok (some c.toNat)
  | .contentOnly (some (.many cs)) => .ok (some cs.length)
  | _ => .ok none

#guard callMap { onContent := true, errToWarn := true, returnInfo := true } exRd exFunc (.single 1)
  == .ok { info := some (.single 1), val := .none, warned := true }
#guard callMap { onContent := true } exRd exFunc (.single 1) == .error (.readError 1)
#guard callMap { onContent := true } exRd exFunc (.single 0) == .ok { info := none, val := .val 1000 }
#guard callMap { onContent := true } exRd exFunc (.bundle [0, 2, 3]) == .ok { info := none, val := .val 2 }
#guard callMap { onContent := true } exRd exFunc (.single 2) == .ok { info := none, val := .none }
#guard collectResults [({ info := some (.single 0), val := .val 5 } : TaskOut Nat),
    { info := some (.single 1), val := .none, warned := true }, { info := some (.single 2), val := .val 7 }]
  == ([some (.single 0), some (.single 2)], [5, 7])
#guard collectResults ([] : List (TaskOut Nat)) == ([], [])

-- align: secondary 0 is shared by primaries 0 and 2, secondary 1 by 0 and 1
def exMs : List (Nat × List Nat) := [(0, [0, 1]), (1, [1, 2]), (2, [0])]
#guard (Align.align false exMs [some 5, some 6, some 7] (fun s => some (10 + (s : Int)))).out ==
  [((0, some 5), (0, some 10)), ((0, some 5), (1, some 11)), ((1, some 6), (1, some 11)),
   ((1, some 6), (2, some 12)), ((2, some 7), (0, some 10))]
#guard (Align.align false exMs [some 5, some 6, some 7] (fun s => some (10 + (s : Int)))).requests == [0, 1, 2]
#guard ((exMs.zip [some 5, some 6, some (7 : Int)]).take 1 |>.foldl (Align.stepPrim false)
  (Align.initSt exMs (fun s => some (10 + (s : Int))))).cache.map (·.1) == [0, 1]
#guard ((exMs.zip [some 5, some 6, some (7 : Int)]).take 2 |>.foldl (Align.stepPrim false)
  (Align.initSt exMs (fun s => some (10 + (s : Int))))).cache.map (·.1) == [0]
-- a wrong loader order would be an AlignError in the model (so `err = none` is a real claim)
#guard (Align.stepSec false (0 : Nat) (some (1 : Int))
  ({ loader := [(1, some 11)], usage := fun _ => 1 } : Align.St Nat Nat Int) 0).err == some .alignError

-- composition theorems: their hypotheses hold for a concrete reader, match list and schedules
def exRdOk : Reader := fun f => .ok (some (1000 + (f : Int)))
def exSecTasks := taskList { onContent := true, returnInfo := true, errToWarn := false } exRdOk passer
  ((Align.uniq (Align.flat exMs)).map FileArg.single)
def exPrimTasks := taskList { onContent := true, returnInfo := false, errToWarn := false } exRdOk passer
  (exMs.map (fun m => FileArg.single m.1))

example : (∀ m ∈ exMs, false = true ∨ ∃ c, exRdOk m.1 = .ok c) ∧
    (∀ x ∈ Align.flat exMs, false = true ∨ ∃ c, exRdOk x = .ok c) ∧
    (∃ sched s, run 2 exSecTasks {} sched = some s ∧ Terminal exSecTasks s) ∧
    (∃ sched s, run 3 exPrimTasks {} sched = some s ∧ Terminal exPrimTasks s) :=
  ⟨fun m _ => Or.inr ⟨_, rfl⟩, fun x _ => Or.inr ⟨_, rfl⟩,
   ⟨(drive 2 exSecTasks [2, 1, 0]).2, (drive 2 exSecTasks [2, 1, 0]).1, by rfl, Or.inr ⟨by rfl, by rfl⟩⟩,
   ⟨(drive 3 exPrimTasks [1, 2, 0]).2, (drive 3 exPrimTasks [1, 2, 0]).1, by rfl, Or.inr ⟨by rfl, by rfl⟩⟩⟩

#guard (drive 2 exSecTasks [2, 1, 0]).1.out.map itemView == [(0, some 1000), (1, some 1001), (2, some 1002)]
#guard ((Align.initSt exMs (loadOf exRdOk) : Align.St Nat Nat Int).loader) == [(0, some 1000), (1, some 1001), (2, some 1002)]
-- collect over files with a None content and (under error_to_warning) a failing read
#guard collectResults ([FileArg.single 0, .single 1, .single 2].map (passItem true exRd))
  == ([some (.single 0)], [Content.one 1000])

end Examples

assert_axioms C10_imap_order C10_imap_order_values C10_imap_maximal C10_imap_terminates
  C10_imap_bound C10_map_order C10_exception_reaches_caller C10_wrapper_raises
  C10_return_info_pairs C10_read_error_isolated C10_warning_only_under_flags
  C10_collect_drops_none C10_passer_task C10_align_spec C10_align_cache
  C10_icollect_compose C10_collect_compose C10_align_end_to_end C10_user_args_per_task
