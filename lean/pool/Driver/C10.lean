import Model.Pool
import Model.Align
/-!
Line-protocol driver for C10.  Sections of a line are separated by " | ", tokens by blanks.

  imap W cfg [U<args>;<kwargs>] | files | reader | fb | perm
      -> events | items | failed | maxq | log | warn | writes
  map  W cfg | files | reader | fb | perm
      -> events | items | failed | maxrun | log | warn | writes
  collect W cfg | files | reader | fb | perm
      -> infos | contents | failed | warn
  align skip | p:s,s p:s ... | pdata | sload
      -> pairs | requests | err | cache keys after every inner step ("/" separated) | loader left

  cfg    : 5 chars 0/1 = onContent passInfo returnInfo errToWarn hasOutput
  files  : s<f> (single FileInfo)   b<f>,<f>,… (bundle)
  reader : one token per file id: o<int> (content) | n (returns None) | f (raises)
  fb     : one string, char k = behaviour of the function on the task whose first file is k:
           v = return the rendering of its arguments, n = return None, r = raise;
           the single token "P" = the function is `_pseudo_passer` (collect / icollect)
  perm   : wished completion order (task indices), "-" when empty
-/
open Pool

def renderFile : FileArg → String
  | .single f => s!"s{f}"
  | .bundle fs => "b" ++ ",".intercalate (fs.map toString)

def renderContent : Option Content → String
  | none => "N"
  | some (.one c) => s!"o{c}"
  | some (.many cs) => "m" ++ ",".intercalate (cs.map toString)

def renderArgs : Args → String
  | .infoOnly f => "I" ++ renderFile f
  | .contentOnly c => "C" ++ renderContent c
  | .both c f => "C" ++ renderContent c ++ "I" ++ renderFile f

def firstFile : FileArg → Option Nat
  | .single f => some f
  | .bundle fs => fs.head?

/-- the task a call belongs to, as far as the function can tell from its arguments
(contents written by the harness are 1000 + file id + 100000 · read_args tag) -/
def keyOf : Args → Option Nat
  | .infoOnly f => firstFile f
  | .both _ f => firstFile f
  | .contentOnly (some (.one c)) => some ((c - 1000) % 100000).toNat
  | .contentOnly (some (.many (c :: _))) => some ((c - 1000) % 100000).toNat
  | .contentOnly _ => none

def mkFunc (fb : List Char) (uargs : List String) (kwargs : List (String × String)) (a : Args) :
    Except Err (Option String) :=
  let beh := if fb = ['P'] then 'p' else match keyOf a with
    | some k => fb.getD k 'v'
    | none => 'v'
  match beh with
  | 'n' => .ok none
  | 'r' => .error (.funcError ((keyOf a).getD 0))
  | 'p' => match passer a with
    | .ok c => .ok (c.map (fun c => renderContent (some c)))
    | .error e => .error e
  | _ => .ok (some (String.join (uargs.map ("U" ++ ·)) ++ renderArgs a ++
      String.join (kwargs.map (fun kv => "K" ++ kv.1 ++ "=" ++ kv.2))))

def renderErr : Err → String
  | .readError f => s!"read:{f}"
  | .funcError t => s!"func:{t}"
  | .valueError => "value"
  | .noFiles => "nofiles"
  | .alignError => "align"
  | .stopIteration => "stop"

def renderItem (t : TaskOut String) : String :=
  (match t.info with | some f => renderFile f | none => "-") ++ "/" ++
  (match t.val with | .none => "N" | .val s => "V" ++ s | .flag b => if b then "F1" else "F0")

def parseFile (t : String) : Option FileArg :=
  match t.toList with
  | 's' :: r => (String.ofList r).toNat?.map FileArg.single
  | 'b' :: r => ((String.ofList r).splitOn ",").mapM String.toNat? |>.map FileArg.bundle
  | _ => none

def parseRead (t : String) : Option (Except Err (Option Int)) :=
  match t.toList with
  | ['n'] => some (.ok none)
  | ['f'] => some (.error (.readError 0))
  | 'o' :: r => (String.ofList r).toInt?.map (fun c => .ok (some c))
  | _ => none

def toks (s : String) : List String := (s.splitOn " ").filter (· ≠ "")

def spaced (l : List String) : String := if l.isEmpty then "-" else " ".intercalate l

def parseCfg (s : String) : Option Cfg :=
  match s.toList with
  | [a, b, c, d, e] =>
    some { onContent := a == '1', passInfo := b == '1', returnInfo := c == '1',
           errToWarn := d == '1', hasOutput := e == '1' }
  | _ => none

structure Case where
  workers : Nat
  cfg : Cfg
  files : List FileArg
  rd : Reader
  fb : List Char
  perm : List Nat
  uargs : List String := []
  kwargs : List (String × String) := []

def parseCase (secs : List String) : Option Case := do
  match secs with
  | [h, f, r, fb, p] =>
    match toks h with
    | _ :: w :: c :: ua =>
      -- optional 4th token  U<arg>,<arg>;<key>=<val>,…   (user args= / kwargs= of map)
      let (uargs, kwargs) : List String × List (String × String) :=
        match ua with
        | [t] =>
          match (t.drop 1).toString.splitOn ";" with
          | [a, k] =>
            ((a.splitOn ",").filter (· ≠ ""),
             ((k.splitOn ",").filter (· ≠ "")).map (fun kv =>
               match kv.splitOn "=" with
               | [x, y] => (x, y)
               | _ => (kv, "")))
          | _ => ([], [])
        | _ => ([], [])
      let workers ← w.toNat?
      let cfg ← parseCfg c
      let files ← (toks f).mapM parseFile
      let rtab ← (toks r).mapM parseRead
      let perm ← ((toks p).filter (· ≠ "-")).mapM String.toNat?
      let rd : Reader := fun i =>
        match rtab[i]? with
        | some (.error _) => .error (.readError i)
        | some x => x
        | none => .error (.readError i)
      some { workers, cfg, files, rd, fb := fb.trimAscii.toString.toList, perm, uargs, kwargs }
    | _ => none
  | _ => none

def renderEv : Event → String
  | .submit i => s!"s{i}"
  | .complete i => s!"c{i}"
  | .consume => "y"

def renderMEv : MEvent → String
  | .start i => s!"t{i}"
  | .complete i => s!"c{i}"

/-- replay the events, tracking the longest deque -/
def maxQueue (w : Nat) (tasks : List (Except Err (TaskOut String))) (evs : List Event) : Option Nat :=
  let rec go (s : State Err (TaskOut String)) (m : Nat) : List Event → Option Nat
    | [] => some m
    | e :: es =>
      match step w tasks s e with
      | none => none
      | some s' => go s' (max m s'.queue.length) es
  go {} 0 evs

def maxRunning (w : Nat) (tasks : List (Except Err (TaskOut String))) (evs : List MEvent) : Option Nat :=
  let rec go (s : MState Err (TaskOut String)) (m : Nat) : List MEvent → Option Nat
    | [] => some m
    | e :: es =>
      match mstep w tasks s e with
      | none => none
      | some s' => go s' (max m (s'.started - s'.done.length)) es
  go {} 0 evs

def countWarn (done : List (Nat × Except Err (TaskOut String))) : Nat :=
  (done.filter (fun d => match d.2 with | .ok t => t.warned | _ => false)).length

def writesOf (items : List (TaskOut String)) : String :=
  spaced (items.filterMap (fun t => t.wrote))

def doImap (c : Case) : String :=
  let tasks := c.files.map (callMapU c.cfg c.rd c.uargs c.kwargs (mkFunc c.fb))
  let (s, evs) := drive c.workers tasks c.perm
  -- the schedule produced by the driver must itself be valid and maximal
  let ok := match run c.workers tasks {} evs with
    | some _ => true
    | none => false
  let mq := match maxQueue c.workers tasks evs with | some m => toString m | none => "invalid"
  if !ok then "invalid-schedule" else
  " | ".intercalate [spaced (evs.map renderEv), spaced (s.out.map renderItem),
    (match s.failed with | some e => renderErr e | none => "-"), mq,
    spaced (s.log.map toString), toString (countWarn s.done), writesOf s.out]

def doMap (c : Case) : String :=
  let tasks := c.files.map (callMapU c.cfg c.rd c.uargs c.kwargs (mkFunc c.fb))
  let (s, evs) := mdrive c.workers tasks c.perm
  let mr := match maxRunning c.workers tasks evs with | some m => toString m | none => "invalid"
  match mresult tasks.length s with
  | none => "blocked"
  | some (items, failed) =>
    " | ".intercalate [spaced (evs.map renderMEv), spaced (items.map renderItem),
      (match failed with | some e => renderErr e | none => "-"), mr,
      spaced (s.log.map toString), toString (countWarn s.done), writesOf items]

def doCollect (c : Case) : String :=
  let tasks := c.files.map (callMapU c.cfg c.rd c.uargs c.kwargs (mkFunc c.fb))
  let (s, _) := mdrive c.workers tasks c.perm
  match mresult tasks.length s with
  | none => "blocked"
  | some (_, some e) => " | ".intercalate ["-", "-", renderErr e, toString (countWarn s.done)]
  | some (items, none) =>
    let (infos, data) := collectResults items
    " | ".intercalate [spaced (infos.map (fun i => match i with | some f => renderFile f | none => "-")),
      spaced data, "-", toString (countWarn s.done)]

/-! align -/

def parseMatch (t : String) : Option (Nat × List Nat) :=
  match t.splitOn ":" with
  | [p, ss] => do
    let p ← p.toNat?
    let ss ← if ss = "" then some [] else (ss.splitOn ",").mapM String.toNat?
    some (p, ss)
  | _ => none

def parseData (t : String) : Option (Option Int) :=
  match t.toList with
  | ['n'] => some none
  | 'o' :: r => (String.ofList r).toInt?.map some
  | _ => none

def renderData : Option Int → String
  | none => "N"
  | some c => toString c

def doAlign (secs : List String) : String :=
  match secs with
  | [h, m, pd, sl] =>
    match toks h, (toks m).mapM parseMatch, (toks pd).mapM parseData, (toks sl).mapM parseData with
    | [_, sk], some ms, some pdata, some stab =>
      let skip := sk == "1"
      let load : Nat → Option Int := fun s => (stab[s]?).getD none
      let st := Align.align skip ms pdata load
      -- cache keys after each inner step (the harness reads the generator's `cache` at yields)
      let trace : List (Nat × List Nat) :=
        if ms.isEmpty then [] else
        let init : Align.St Nat Nat Int × List (Nat × List Nat) := (Align.initSt ms load, [])
        ((ms.zip pdata).foldl (fun acc mp =>
          mp.1.2.foldl (fun (acc : Align.St Nat Nat Int × List (Nat × List Nat)) s =>
            let st' := Align.stepSec skip mp.1.1 mp.2 acc.1 s
            (st', acc.2 ++ [(st'.out.length, st'.cache.map (·.1))])) acc) init).2
      let pairs := st.out.map (fun o => s!"{o.1.1}:{renderData o.1.2}~{o.2.1}:{renderData o.2.2}")
      let tr := trace.map (fun t => s!"{t.1}=" ++ ",".intercalate (t.2.map toString))
      " | ".intercalate [spaced pairs, spaced (st.requests.map toString),
        (match st.err with | some e => renderErr e | none => "-"), spaced tr,
        toString st.loader.length]
    | _, _, _, _ => "bad-op"
  | _ => "bad-op"

def handle (line : String) : String :=
  let secs := line.splitOn " | "
  match secs.head?.map toks with
  | some ("imap" :: _) => match parseCase secs with | some c => doImap c | none => "bad-op"
  | some ("map" :: _) => match parseCase secs with | some c => doMap c | none => "bad-op"
  | some ("collect" :: _) => match parseCase secs with | some c => doCollect c | none => "bad-op"
  | some ("align" :: _) => doAlign secs
  | _ => "bad-op"

partial def loop (h : IO.FS.Stream) (out : IO.FS.Stream) : IO Unit := do
  let line ← h.getLine
  if line.isEmpty then return ()
  out.putStrLn (handle (line.trimAscii.toString))
  loop h out

def main : IO Unit := do
  let out ← IO.getStdout
  loop (← IO.getStdin) out
  out.flush
