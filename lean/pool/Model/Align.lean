import Model.Pool
/-!
# Model of `FileSet.align` (typhon/files/fileset.py)

`ms : List (P × List S)` (`matches`) — primaries with their matched secondaries.  The code

* flattens the secondaries and removes duplicates keeping first occurrences (`unique`),
* starts `primary_loader = self.icollect(files=primaries)` and
  `secondary_loader = other.icollect(files=unique_secondaries, return_info=True)` — by C10's
  imap theorems these deliver one item per file, in the order of `files=`,
* counts how often each secondary is needed (`Counter`), keeps loaded secondaries in `cache`
  until the counter reaches zero,
* for each primary and each of its secondaries: takes the secondary from the cache or pulls
  the next item from the loader (`AlignError` when it is a different file), decrements the
  counter, evicts at zero, skips the pair when the primary content is `None` or the secondary
  content is `None` under `skip_errors`, else yields `([p, pdata], [s, sdata])`.

Contents are `Option D` (`none` = Python `None`: reader returned None, or read error under
`skip_errors`).
-/
namespace Align
open Pool (Err)

variable {P S D : Type} [DecidableEq S]

/-- `typhon.utils.unique`: drop duplicates, keep first occurrences (left fold) -/
def uniqStep (acc : List S) (x : S) : List S := if x ∈ acc then acc else acc ++ [x]
def uniq (l : List S) : List S := l.foldl uniqStep []

structure St (P S D : Type) where
  /-- items the secondary loader has not delivered yet -/
  loader : List (S × Option D)
  /-- `cache` dict in insertion order -/
  cache : List (S × Option D) := []
  /-- `secondary_usage` Counter -/
  usage : S → Int
  /-- pairs yielded so far -/
  out : List ((P × Option D) × (S × Option D)) := []
  /-- files pulled from the secondary loader, in order -/
  requests : List S := []
  err : Option Err := none

/-- body of the inner loop for one secondary of the primary `(p, pd)` -/
def stepSec (skip : Bool) (p : P) (pd : Option D) (st : St P S D) (s : S) : St P S D :=
  if st.err.isSome then st else
  -- cache look-up or pull from the loader
  let got : Except Err (St P S D × Option D) :=
    match st.cache.lookup s with
    | some d => .ok (st, d)
    | none =>
      match st.loader with
      | [] => .error .stopIteration
      | (s', d) :: rest =>
        if s' ≠ s then .error .alignError
        else .ok ({ st with loader := rest, cache := st.cache ++ [(s, d)],
                            requests := st.requests ++ [s] }, d)
  match got with
  | .error e => { st with err := some e }
  | .ok (st, sd) =>
    let usage := fun x => if x = s then st.usage x - 1 else st.usage x
    let cache := if usage s = 0 then st.cache.filter (fun kv => kv.1 ≠ s) else st.cache
    let out := if pd.isNone || (sd.isNone && skip) then st.out else st.out ++ [((p, pd), (s, sd))]
    { st with usage := usage, cache := cache, out := out }

def stepPrim (skip : Bool) (st : St P S D) (m : (P × List S) × Option D) : St P S D :=
  m.1.2.foldl (stepSec skip m.1.1 m.2) st

/-- all secondaries in the order they are needed -/
def flat (ms : List (P × List S)) : List S := ms.flatMap (·.2)

def initSt (ms : List (P × List S)) (load : S → Option D) : St P S D :=
  { loader := (uniq (flat ms)).map (fun s => (s, load s)),
    usage := fun s => ((flat ms).count s : Nat) }

/-- `align(matches=…)`: `pdata` are the items of the primary loader (one per match, in
order), `load s` the content the secondary loader delivers for `s`. -/
def align (skip : Bool) (ms : List (P × List S)) (pdata : List (Option D))
    (load : S → Option D) : St P S D :=
  if ms.isEmpty then { initSt ms load with err := some .valueError }   -- `zip(*[])`
  else (ms.zip pdata).foldl (stepPrim skip) (initSt ms load)

/-- specification of the yielded pairs -/
def specOut (skip : Bool) (ms : List (P × List S)) (pdata : List (Option D))
    (load : S → Option D) : List ((P × Option D) × (S × Option D)) :=
  (ms.zip pdata).flatMap (fun m =>
    m.1.2.filterMap (fun s =>
      if m.2.isNone || ((load s).isNone && skip) then none
      else some ((m.1.1, m.2), (s, load s))))

end Align
