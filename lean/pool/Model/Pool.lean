/-!
# Model of `FileSet.imap`, `FileSet.map`, `_call_map_function`, `collect`/`icollect`
(typhon/files/fileset.py).  Core Lean only.

## The pool as an event system

One *task* is one call of `_call_map_function` on one element of the lazy `worker_args`
stream (a file or a bundle of files).  Its outcome (`Except ε β`: a value or the exception
it raises) is a function of the input alone; *when* it becomes available is decided by the
scheduler.  `tasks : List (Except ε β)` is the list of outcomes in `find()` / `files=` order.

`imap` (generator driven by a consumer) is the transition system `step`:

* `submit i`   – the generator's loop submits the next input (`pool.submit`), only when the
                 deque holds fewer than `workers` futures (`wait = len(worker_queue) >= workers`);
* `complete i` – scheduler nondeterminism: any submitted, not yet finished task finishes;
* `consume`    – `yield worker_queue.popleft().result()`: enabled when the loop has to wait
                 (`len >= workers`) or the inputs are exhausted (final flush) **and** the head
                 future is done; an exception stored in the head future leaves the generator
                 (`failed`).

A *schedule* is a list of events; `run` replays it and is `none` when some event was not
enabled.  All theorems quantify over every schedule with `run … = some s`.
-/
namespace Pool

inductive Event where
  | submit (i : Nat)
  | complete (i : Nat)
  | consume
  deriving Repr, DecidableEq, Inhabited

structure State (ε β : Type) where
  /-- position in the lazy `worker_args` stream = number of `pool.submit` calls so far -/
  next : Nat := 0
  /-- `worker_queue`: futures in submission order, head = oldest -/
  queue : List Nat := []
  /-- futures that are done, with their stored outcome -/
  done : List (Nat × Except ε β) := []
  /-- values yielded to the consumer so far -/
  out : List β := []
  /-- exception that left the generator (terminal) -/
  failed : Option ε := none
  /-- every submit ever made, in order -/
  log : List Nat := []

variable {ε β : Type}

def isDone (s : State ε β) (i : Nat) : Bool := (s.done.lookup i).isSome

/-- one transition; `none` = the event is not enabled in `s` -/
def step (workers : Nat) (tasks : List (Except ε β)) (s : State ε β) : Event → Option (State ε β)
  | .submit i =>
    if s.failed.isNone ∧ i = s.next ∧ i < tasks.length ∧ s.queue.length < workers then
      some { s with next := s.next + 1, queue := s.queue ++ [i], log := s.log ++ [i] }
    else none
  | .complete i =>
    if i ∈ s.queue ∧ isDone s i = false then
      match tasks[i]? with
      | some r => some { s with done := (i, r) :: s.done }
      | none => none
    else none
  | .consume =>
    if s.failed.isNone ∧ (workers ≤ s.queue.length ∨ s.next = tasks.length) then
      match s.queue with
      | [] => none
      | h :: q =>
        match s.done.lookup h with
        | none => none                                    -- `.result()` blocks
        | some (.ok v) => some { s with queue := q, out := s.out ++ [v] }
        | some (.error e) => some { s with queue := q, failed := some e }
    else none

def run (workers : Nat) (tasks : List (Except ε β)) : State ε β → List Event → Option (State ε β)
  | s, [] => some s
  | s, e :: es =>
    match step workers tasks s e with
    | none => none
    | some s' => run workers tasks s' es

/-- a schedule is valid when every event was enabled at its turn -/
def Valid (workers : Nat) (tasks : List (Except ε β)) (sched : List Event) : Prop :=
  (run workers tasks {} sched).isSome

/-- nothing more can happen -/
def Maximal (workers : Nat) (tasks : List (Except ε β)) (sched : List Event) : Prop :=
  ∃ s, run workers tasks {} sched = some s ∧ ∀ e, step workers tasks s e = none

/-- the generator has finished: exception raised, or all inputs submitted and flushed -/
def Terminal (tasks : List (Except ε β)) (s : State ε β) : Prop :=
  s.failed.isSome ∨ (s.next = tasks.length ∧ s.queue = [])

/-- the expected observable behaviour of iterating over the tasks in order: the values before
the first exception, and that exception -/
def expected : List (Except ε β) → List β × Option ε
  | [] => ([], none)
  | .ok v :: rest => let (vs, e) := expected rest; (v :: vs, e)
  | .error e :: _ => ([], some e)

/-! ## `map`: `list(pool.map(f, worker_args))`

`Executor.map` submits everything up front; a worker picks the next queued call when it is
free (`start i`, at most `workers` running), calls finish in any order, and the result
iterator delivers by index — the first stored exception (in index order) is raised. -/

inductive MEvent where
  | start (i : Nat)
  | complete (i : Nat)
  deriving Repr, DecidableEq, Inhabited

structure MState (ε β : Type) where
  started : Nat := 0
  done : List (Nat × Except ε β) := []
  log : List Nat := []

def mstep (workers : Nat) (tasks : List (Except ε β)) (s : MState ε β) : MEvent → Option (MState ε β)
  | .start i =>
    if i = s.started ∧ i < tasks.length ∧ s.started - s.done.length < workers then
      some { s with started := s.started + 1, log := s.log ++ [i] }
    else none
  | .complete i =>
    if i < s.started ∧ (s.done.lookup i).isNone then
      match tasks[i]? with
      | some r => some { s with done := (i, r) :: s.done }
      | none => none
    else none

def mrun (workers : Nat) (tasks : List (Except ε β)) : MState ε β → List MEvent → Option (MState ε β)
  | s, [] => some s
  | s, e :: es =>
    match mstep workers tasks s e with
    | none => none
    | some s' => mrun workers tasks s' es

/-- what the result iterator of `Executor.map` delivers once it can deliver everything:
`none` while some needed future is not done (it would block) -/
def mresult (n : Nat) (s : MState ε β) : Option (List β × Option ε) :=
  let rec go : List Nat → Option (List β × Option ε)
    | [] => some ([], none)
    | i :: is =>
      match s.done.lookup i with
      | none => none
      | some (.error e) => some ([], some e)
      | some (.ok v) =>
        match go is with
        | none => none
        | some (vs, e) => some (v :: vs, e)
  go (List.range n)

/-! ## The per-file wrapper `_call_map_function` -/

inductive Err where
  | readError (file : Nat)      -- the reader raised on this file
  | funcError (tag : Nat)       -- the mapped function raised
  | valueError                  -- bad arguments, `zip(*[])` of no matches in `align`
  | noFiles
  | alignError
  | stopIteration
  deriving Repr, DecidableEq, Inhabited

/-- an element of the `worker_args` stream: a `FileInfo` or a bundle (list of `FileInfo`) -/
inductive FileArg where
  | single (f : Nat)
  | bundle (fs : List Nat)
  deriving Repr, DecidableEq, Inhabited

/-- what a read delivers: one file's content, or the list of contents of a bundle -/
inductive Content where
  | one (c : Int)
  | many (cs : List Int)
  deriving Repr, DecidableEq, Inhabited

/-- positional arguments appended by the wrapper -/
inductive Args where
  | infoOnly (f : FileArg)                       -- `on_content=False`
  | contentOnly (c : Option Content)             -- `on_content=True`, `pass_info` false
  | both (c : Option Content) (f : FileArg)      -- `on_content=True`, `pass_info=True`
  deriving Repr, DecidableEq, Inhabited

inductive RVal (β : Type) where
  | none                 -- Python `None`
  | val (b : β)
  | flag (b : Bool)      -- with `output=`: whether something was written
  deriving Repr, DecidableEq, Inhabited

structure TaskOut (β : Type) where
  info : Option FileArg      -- `return_info`
  val : RVal β
  warned : Bool := false     -- a RuntimeWarning was issued for this file
  wrote : Option β := Option.none   -- value handed to `output.write`
  deriving Repr, DecidableEq

structure Cfg where
  onContent : Bool := false
  passInfo : Bool := false
  returnInfo : Bool := false
  errToWarn : Bool := false
  hasOutput : Bool := false
  deriving Repr, DecidableEq, Inhabited

/-- reader: file id ↦ raised / returned `None` / returned a content -/
abbrev Reader := Nat → Except Err (Option Int)

/-- `collect` on explicit results: drop `None` contents, keep order (after fix 42e45d8 an
empty remainder gives empty lists instead of the `zip(*[])` ValueError) -/
def collectOf {φ γ : Type} (results : List (φ × Option γ)) : List φ × List γ :=
  (results.filterMap (fun r => r.2.map (fun c => (r.1, c)))).unzip

/-- reads of a list of files by the inner `collect(files=bundle)`: thread `map`, results in
order, first failing file (in file order) raises -/
def readAll (rd : Reader) : List Nat → Except Err (List (Nat × Option Int))
  | [] => .ok []
  | f :: fs =>
    match rd f with
    | .error e => .error e
    | .ok c =>
      match readAll rd fs with
      | .error e => .error e
      | .ok rest => .ok ((f, c) :: rest)

def readArg (rd : Reader) : FileArg → Except Err (Option Content)
  | .single f =>
    match rd f with
    | .error e => .error e
    | .ok c => .ok (c.map Content.one)
  | .bundle fs =>
    match readAll rd fs with
    | .error e => .error e
    | .ok rs => .ok (some (Content.many (collectOf rs).2))

def callMap {β : Type} (cfg : Cfg) (rd : Reader) (func : Args → Except Err (Option β))
    (file : FileArg) : Except Err (TaskOut β) :=
  let info := if cfg.returnInfo then some file else none
  let call (a : Args) : Except Err (TaskOut β) :=
    match func a with
    | .error e => .error e
    | .ok r =>
      if !cfg.hasOutput then
        .ok { info := info, val := match r with | none => .none | some b => .val b }
      else match r with
        | none => .ok { info := info, val := .flag false }
        | some b => .ok { info := info, val := .flag true, wrote := some b }
  if cfg.onContent then
    match readArg rd file with
    | .error e =>
      if cfg.errToWarn then .ok { info := info, val := .none, warned := true } else .error e
    | .ok c => call (if cfg.passInfo then .both c file else .contentOnly c)
  else call (.infoOnly file)

/-- the wrapper with the user's `args=` / `kwargs=` of `map`: `args = [] if args is None else
list(args)` makes a fresh copy for every task, so every task's function call sees the same
user arguments followed by the file arguments (`rd` stands for the handler's reader applied
with the user's `read_args`, which the wrapper forwards to every read, also inside bundles). -/
def callMapU {β : Type} (cfg : Cfg) (rd : Reader) (uargs : List String) (kwargs : List (String × String))
    (func : List String → List (String × String) → Args → Except Err (Option β))
    (file : FileArg) : Except Err (TaskOut β) :=
  callMap cfg rd (func uargs kwargs) file

/-- `_pseudo_passer`: returns its first positional argument -/
def passer : Args → Except Err (Option Content)
  | .contentOnly c => .ok c
  | .both c _ => .ok c
  | .infoOnly _ => .ok none     -- not used by collect/icollect (they set on_content)

/-- the task list of `map`/`imap` for a configuration -/
def taskList {β : Type} (cfg : Cfg) (rd : Reader) (func : Args → Except Err (Option β))
    (files : List FileArg) : List (Except Err (TaskOut β)) :=
  files.map (callMap cfg rd func)

/-- `collect`: `map(on_content, return_info=True, func=passer)` then drop `None` contents.
`results` is what `map` returned. -/
def collectResults {β : Type} (results : List (TaskOut β)) :
    List (Option FileArg) × List β :=
  collectOf (results.map (fun r => (r.info, match r.val with | .val c => some c | _ => none)))

/-! ## Deterministic driver: generator + eager consumer + controller releasing tasks

`drive workers tasks perm` produces the event schedule that arises when the consumer pulls
eagerly and a controller releases (completes) tasks following the wish list `perm`: a wished
task that is not in flight yet cannot be released, so the earliest in-flight task is released
first (same rule in the Python harness). -/

/-- run generator/consumer steps while any is enabled (`fuel` bounds the loop) -/
def settle (workers : Nat) (tasks : List (Except ε β)) :
    Nat → State ε β → List Event → State ε β × List Event
  | 0, s, acc => (s, acc)
  | fuel + 1, s, acc =>
    match step workers tasks s (.submit s.next) with
    | some s' => settle workers tasks fuel s' (acc ++ [.submit s.next])
    | none =>
      match step workers tasks s .consume with
      | some s' => settle workers tasks fuel s' (acc ++ [.consume])
      | none => (s, acc)

def inFlight (s : State ε β) : List Nat := s.queue.filter (fun i => !isDone s i)

/-- release `target`, releasing earlier in-flight tasks first while it has not been submitted -/
def release (workers : Nat) (tasks : List (Except ε β)) (target : Nat) :
    Nat → State ε β → List Event → State ε β × List Event
  | 0, s, acc => (s, acc)
  | fuel + 1, s, acc =>
    let (s, acc) := settle workers tasks (3 * tasks.length + 3) s acc
    if isDone s target || target ≥ tasks.length || s.failed.isSome && !(target ∈ s.queue) then (s, acc)
    else
      let pick := if target ∈ s.queue then some target else (inFlight s).head?
      match pick with
      | none => (s, acc)
      | some i =>
        match step workers tasks s (.complete i) with
        | none => (s, acc)
        | some s' =>
          if i = target then (s', acc ++ [.complete i])
          else release workers tasks target fuel s' (acc ++ [.complete i])

def drive (workers : Nat) (tasks : List (Except ε β)) (perm : List Nat) : State ε β × List Event :=
  let n := tasks.length
  let (s, acc) := perm.foldl (fun (p : State ε β × List Event) t =>
      release workers tasks t (n + 1) p.1 p.2) ({}, [])
  -- release whatever is left (wish list incomplete), earliest first
  let (s, acc) := (List.range n).foldl (fun (p : State ε β × List Event) t =>
      release workers tasks t (n + 1) p.1 p.2) (s, acc)
  settle workers tasks (3 * n + 3) s acc

/-- same for `map`: started = first `min n (workers + released)` tasks -/
def msettle (workers : Nat) (tasks : List (Except ε β)) :
    Nat → MState ε β → List MEvent → MState ε β × List MEvent
  | 0, s, acc => (s, acc)
  | fuel + 1, s, acc =>
    match mstep workers tasks s (.start s.started) with
    | some s' => msettle workers tasks fuel s' (acc ++ [.start s.started])
    | none => (s, acc)

def mrelease (workers : Nat) (tasks : List (Except ε β)) (target : Nat) :
    Nat → MState ε β → List MEvent → MState ε β × List MEvent
  | 0, s, acc => (s, acc)
  | fuel + 1, s, acc =>
    let (s, acc) := msettle workers tasks (tasks.length + 1) s acc
    if (s.done.lookup target).isSome || target ≥ tasks.length then (s, acc)
    else
      let running := (List.range s.started).filter (fun i => (s.done.lookup i).isNone)
      let pick := if target < s.started then some target else running.head?
      match pick with
      | none => (s, acc)
      | some i =>
        match mstep workers tasks s (.complete i) with
        | none => (s, acc)
        | some s' =>
          if i = target then (s', acc ++ [.complete i])
          else mrelease workers tasks target fuel s' (acc ++ [.complete i])

def mdrive (workers : Nat) (tasks : List (Except ε β)) (perm : List Nat) : MState ε β × List MEvent :=
  let n := tasks.length
  let (s, acc) := perm.foldl (fun (p : MState ε β × List MEvent) t =>
      mrelease workers tasks t (n + 1) p.1 p.2) ({}, [])
  let (s, acc) := (List.range n).foldl (fun (p : MState ε β × List MEvent) t =>
      mrelease workers tasks t (n + 1) p.1 p.2) (s, acc)
  msettle workers tasks (n + 1) s acc

end Pool
