import Model.Srtm
/-!
Line-protocol driver for C20 (SRTM30).  Rationals cross the pipe as `num/den` (exact).

  rows  latMin latMax                 -> "iMax iMin"            (nativeRows)
  cols  lonMin lonMax                 -> "jMin jMax"            (nativeCols)
  tiles latMin lonMin latMax lonMax   -> tile names in order ("-" if none)     (getTiles)
  elev  latMin lonMin latMax lonMax [c1,c2,..]
                                      -> "ok|lats|lons|tiles|E|downloads" : lats/lons as num/den lists,
                                         tiles = names of getTiles of the block, E row-major ints
                                         (tile content = synthPix), downloads = names fetched by
                                         elevationC on the cache c1,c2,.. (tile ids; default empty);
                                         or "value-error"
  tgrid k                             -> "eq" if nativeGrids (bounds of tile k) = (tileLats, tileLons)
                                         followed by first/last lat and lon of the tile grid
  cache c1,c2,..|r1,r2,...            -> downloads in order ("-" if none) | final cache sorted
Anything else -> "bad-op".
-/
open Srtm

def parseRat (s : String) : Option Rat :=
  match s.splitOn "/" with
  | [a] => a.toInt?.map (fun n => (n : Rat))
  | [a, b] => match a.toInt?, b.toNat? with
    | some n, some d => if d = 0 then none else some (mkRat n d)
    | _, _ => none
  | _ => none

def showRat (q : Rat) : String := toString q.num ++ "/" ++ toString q.den

def nameOf (t : Tile) : String :=
  match (tiles.zip tileNames).find? (fun p => p.1 == t) with
  | some p => p.2
  | none => "?"

def showList (l : List String) : String := if l.isEmpty then "-" else " ".intercalate l

def parseNats (s : String) : Option (List Nat) :=
  if s.trimAscii.toString == "" then some [] else (s.splitOn ",").mapM (fun w => w.trimAscii.toString.toNat?)

def step (line : String) : String :=
  match (line.splitOn " ").filter (· ≠ "") with
  | ["rows", a, b] =>
    match parseRat a, parseRat b with
    | some la, some lb => let p := nativeRows la lb; s!"{p.1} {p.2}"
    | _, _ => "bad-op"
  | ["cols", a, b] =>
    match parseRat a, parseRat b with
    | some la, some lb => let p := nativeCols la lb; s!"{p.1} {p.2}"
    | _, _ => "bad-op"
  | ["tiles", a, b, c, d] =>
    match parseRat a, parseRat b, parseRat c, parseRat d with
    | some a, some b, some c, some d => showList ((getTiles ⟨a, b, c, d⟩).map nameOf)
    | _, _, _, _ => "bad-op"
  | "elev" :: a :: b :: c :: d :: rest =>
    match parseRat a, parseRat b, parseRat c, parseRat d, parseNats ("".intercalate rest) with
    | some a, some b, some c, some d, some cache =>
      let res := elevationC cache synthPix ⟨a, b, c, d⟩
      match res.1 with
      | .error _ => "value-error"
      | .ok (lats, lons, E) =>
        -- the tiles of the block (recomputed the way `elevation` does) for comparison
        let tl := match listMin lats, listMax lats, listMin lons, listMax lons with
          | some la, some lb, some lo, some lp =>
            (getTiles ⟨la - (1/2) * dlat, lo - (1/2) * dlon, lb + (1/2) * dlat, lp + (1/2) * dlon⟩).map nameOf
          | _, _, _, _ => []
        "ok|" ++ showList (lats.map showRat) ++ "|" ++ showList (lons.map showRat) ++ "|" ++
          showList tl ++ "|" ++ showList (E.toList.map toString) ++ "|" ++
          showList (res.2.2.map (fun k => tileNames.getD k "?"))
    | _, _, _, _, _ => "bad-op"
  | ["tgrid", k] =>
    match k.toNat? with
    | some k =>
      match tiles[k]? with
      | some t =>
        let g := nativeGrids (boundsRect t)
        let la := tileLats t
        let lo := tileLons t
        let eq := decide (g.1 = la) && decide (g.2 = lo)
        (if eq then "eq" else "ne") ++ " " ++ nameOf t ++ " " ++ toString la.length ++ " " ++ toString lo.length ++ " " ++
          showList ([la.head?, la.getLast?, lo.head?, lo.getLast?].filterMap (·.map showRat))
      | none => "bad-op"
    | none => "bad-op"
  | "cache" :: rest =>
    match ("".intercalate rest).splitOn "|" with
    | [c, r] =>
      match parseNats c, parseNats r with
      | some c, some r =>
        let (fin, dl) := runRequests c r
        showList (dl.map toString) ++ " | " ++ showList ((fin.toArray.qsort (· < ·)).toList.map toString)
      | _, _ => "bad-op"
    | _ => "bad-op"
  | _ => "bad-op"

partial def loop (h : IO.FS.Stream) (out : IO.FS.Stream) : IO Unit := do
  let line ← h.getLine
  if line.isEmpty then return ()
  out.putStrLn (step (line.trimAscii.toString))
  loop h out

def main : IO Unit := do
  let out ← IO.getStdout
  loop (← IO.getStdin) out
  out.flush
