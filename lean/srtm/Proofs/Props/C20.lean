import Model.Srtm
import Proofs.Audit
open Srtm
theorem C20_stub : (1:Nat) = 1 := rfl
assert_axioms C20_stub
