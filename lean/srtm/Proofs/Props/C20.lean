import Proofs.Lemmas.Arith
import Proofs.Lemmas.Lists
import Proofs.Lemmas.Mosaic
import Proofs.Lemmas.Elev
import Proofs.Audit

/-!
# C20 — SRTM30 elevation mosaics are seamless and match the tiles cell by cell

Property theorems only (helper lemmas: `Proofs/Lemmas/{Arith,Lists,Mosaic}.lean`).  They speak
about the exact-rational model `Model/Srtm.lean` of `typhon/topography.py`; all of them hold for
**every** rectangle with `-60 ≤ lat_min < lat_max ≤ 90`, `-180 ≤ lon_min < lon_max ≤ 180`
(`Valid`): aligned or not, thinner than a cell, over any number of tiles, on tile borders, at
±180°, and for **every** tile content `pix`.
-/

open Srtm

/-! ## the grid returned by `get_native_grids` -/

/-- Latitudes / longitudes are consecutive SRTM30 cell centres: the `i`-th latitude is the centre
`90 − (2(k₀+i) − 1)/240` of global row `k₀ + i` (1-based from 90° N), the `j`-th longitude the
centre `−180 + (2(c₀+j) + 1)/240` of global column `c₀ + j`; spacing `1/120`, latitude
descending, longitude ascending.  (Any rectangle.) -/
theorem C20_grid_consecutive (r : Rect) :
    (∃ k0 : ℤ, ∀ i (h : i < (nativeGrids r).1.length),
        (nativeGrids r).1[i] = 90 - (2 * ((k0 + i : ℤ) : ℚ) - 1) / 240) ∧
    (∃ c0 : ℤ, ∀ j (h : j < (nativeGrids r).2.length),
        (nativeGrids r).2[j] = -180 + (2 * ((c0 + j : ℤ) : ℚ) + 1) / 240) ∧
    (∀ i (h : i + 1 < (nativeGrids r).1.length),
        (nativeGrids r).1[i + 1] = (nativeGrids r).1[i] - 1 / 120) ∧
    (∀ j (h : j + 1 < (nativeGrids r).2.length),
        (nativeGrids r).2[j + 1] = (nativeGrids r).2[j] + 1 / 120) := by
  refine ⟨⟨(nativeRows r.latMin r.latMax).1, ?_⟩, ⟨(nativeCols r.lonMin r.lonMax).1, ?_⟩, ?_, ?_⟩
  · intro i h
    simp only [nativeGrids, List.getElem_map, getElem_intRange, rowCentre, dlat_eq]
    push_cast; ring
  · intro j h
    simp only [nativeGrids, List.getElem_map, getElem_intRange, colCentre, dlon_eq]
    push_cast; ring
  · intro i h
    simp only [nativeGrids, List.getElem_map, getElem_intRange, rowCentre, dlat_eq]
    push_cast; ring
  · intro j h
    simp only [nativeGrids, List.getElem_map, getElem_intRange, colCentre, dlon_eq]
    push_cast; ring

/-- The block is non-empty. -/
theorem C20_nonempty (r : Rect) (hv : Valid r) :
    (nativeGrids r).1 ≠ [] ∧ (nativeGrids r).2 ≠ [] :=
  ⟨(grids_shape r hv).lats_ne, (grids_shape r hv).lons_ne⟩

/-- The block covers the rectangle: the outer edges of the first / last cells (centre ± half a
cell) enclose it. -/
theorem C20_covers (r : Rect) (hv : Valid r) :
    ∃ (h1 : (nativeGrids r).1 ≠ []) (h2 : (nativeGrids r).2 ≠ []),
      r.latMax ≤ (nativeGrids r).1.head h1 + 1 / 240 ∧
      (nativeGrids r).1.getLast h1 - 1 / 240 ≤ r.latMin ∧
      (nativeGrids r).2.head h2 - 1 / 240 ≤ r.lonMin ∧
      r.lonMax ≤ (nativeGrids r).2.getLast h2 + 1 / 240 := by
  have s := grids_shape r hv
  refine ⟨s.lats_ne, s.lons_ne, ?_, ?_, ?_, ?_⟩
  · rw [s.head_lat]; linarith [s.top.1]
  · rw [s.last_lat]; linarith [s.bottom.2]
  · rw [s.head_lon]; linarith [s.left.1]
  · rw [s.last_lon]; linarith [s.right.2]

/-- … and extends beyond it by less than one cell (`1/120`°) on each side. -/
theorem C20_tight (r : Rect) (hv : Valid r) :
    ∃ (h1 : (nativeGrids r).1 ≠ []) (h2 : (nativeGrids r).2 ≠ []),
      (nativeGrids r).1.head h1 + 1 / 240 - r.latMax < 1 / 120 ∧
      r.latMin - ((nativeGrids r).1.getLast h1 - 1 / 240) < 1 / 120 ∧
      r.lonMin - ((nativeGrids r).2.head h2 - 1 / 240) < 1 / 120 ∧
      (nativeGrids r).2.getLast h2 + 1 / 240 - r.lonMax < 1 / 120 := by
  have s := grids_shape r hv
  refine ⟨s.lats_ne, s.lons_ne, ?_, ?_, ?_, ?_⟩
  · rw [s.head_lat]; linarith [s.top.2]
  · rw [s.last_lat]; linarith [s.bottom.1]
  · rw [s.head_lon]; linarith [s.left.2]
  · rw [s.last_lon]; linarith [s.right.1]

/-! ## `get_tiles` -/

/-- the open interiors of the rectangle and of the tile have a common point -/
def InteriorsMeet (r : Rect) (t : Tile) : Prop :=
  ∃ la lo : ℚ, r.latMin < la ∧ la < r.latMax ∧ r.lonMin < lo ∧ lo < r.lonMax ∧
    (t.latMin : ℚ) < la ∧ la < t.latMax ∧ (t.lonMin : ℚ) < lo ∧ lo < t.lonMax

/-- `get_tiles` names exactly the tiles of the table whose area intersects the rectangle, in
table order and without repetition (longitudes given in `[-180, 180]`). -/
theorem C20_tiles_spec (r : Rect) (h1 : -180 ≤ r.lonMin) (h2 : r.lonMin < 180)
    (h3 : -180 < r.lonMax) (h4 : r.lonMax ≤ 180) :
    (∀ t, t ∈ getTiles r ↔ t ∈ tiles ∧ InteriorsMeet r t) ∧
    (getTiles r).Sublist tiles ∧ (getTiles r).Nodup := by
  have hsub : (getTiles r).Sublist tiles := by unfold getTiles; exact List.filter_sublist
  refine ⟨?_, hsub, hsub.nodup tiles_nodup⟩
  intro t
  unfold getTiles
  simp only [List.mem_filter, normLonMin_id h1 h2, normLonMax_id h3 h4, doOverlap, boundsRect,
    Bool.and_eq_true, decide_eq_true_eq, InteriorsMeet]
  constructor
  · rintro ⟨ht, hla, hlo⟩
    have hla := of_decide_eq_true hla
    refine ⟨ht, (max r.latMin t.latMin + min r.latMax t.latMax) / 2,
      (max r.lonMin t.lonMin + min r.lonMax t.lonMax) / 2, ?_⟩
    have a1 := le_max_left r.latMin (t.latMin : ℚ)
    have a2 := le_max_right r.latMin (t.latMin : ℚ)
    have a3 := min_le_left r.latMax (t.latMax : ℚ)
    have a4 := min_le_right r.latMax (t.latMax : ℚ)
    have b1 := le_max_left r.lonMin (t.lonMin : ℚ)
    have b2 := le_max_right r.lonMin (t.lonMin : ℚ)
    have b3 := min_le_left r.lonMax (t.lonMax : ℚ)
    have b4 := min_le_right r.lonMax (t.lonMax : ℚ)
    refine ⟨?_, ?_, ?_, ?_, ?_, ?_, ?_, ?_⟩ <;> linarith
  · rintro ⟨ht, la, lo, c1, c2, c3, c4, c5, c6, c7, c8⟩
    exact ⟨ht, decide_eq_true (lt_trans (max_lt c1 c5) (lt_min c2 c6)), lt_trans (max_lt c3 c7) (lt_min c4 c8)⟩

/-! ## `get_native_grids` of a tile's own bounds = `get_grids` of that tile -/

theorem C20_native_eq_grids : ∀ t ∈ tiles, nativeGrids (boundsRect t) = (tileLats t, tileLons t) :=
  native_eq_grids

/-! ## tile cache -/

/-- One request: the tile is fetched iff it is not in the cache; afterwards it is cached and
nothing else changed. -/
theorem C20_download_iff_not_cached (cache : List ℕ) (n : ℕ) :
    ((getTile cache n).2 = true ↔ n ∉ cache) ∧
    (∀ m, m ∈ (getTile cache n).1 ↔ m ∈ cache ∨ m = n) := by
  unfold getTile
  by_cases h : n ∈ cache
  · simp only [h, if_true, not_true_eq_false, iff_false]
    refine ⟨by simp, fun m => ⟨Or.inl, ?_⟩⟩
    rintro (hm | rfl)
    · exact hm
    · exact h
  · simp only [h, if_false, not_false_eq_true, List.mem_cons, true_and]
    intro m; tauto

/-- Any request sequence on any (warm or cold) cache: the downloads are pairwise distinct (no tile
is fetched twice), they are exactly the requested tiles that were not cached at the start, and the
final cache holds the old content plus everything requested. -/
theorem C20_download_once (cache reqs : List ℕ) :
    (runRequests cache reqs).2.Nodup ∧
    (∀ n, n ∈ (runRequests cache reqs).2 ↔ n ∈ reqs ∧ n ∉ cache) ∧
    (∀ n, n ∈ (runRequests cache reqs).1 ↔ n ∈ cache ∨ n ∈ reqs) := by
  induction reqs generalizing cache with
  | nil => simp [runRequests]
  | cons a as ih =>
    by_cases h : a ∈ cache
    · obtain ⟨i1, i2, i3⟩ := ih cache
      have e : runRequests cache (a :: as) = runRequests cache as := by
        simp [runRequests, getTile, h]
      rw [e]
      refine ⟨i1, fun n => ?_, fun n => ?_⟩
      · rw [i2 n]; simp only [List.mem_cons]
        constructor
        · rintro ⟨x, y⟩; exact ⟨Or.inr x, y⟩
        · rintro ⟨x | x, y⟩
          · subst x; exact absurd h y
          · exact ⟨x, y⟩
      · rw [i3 n]; simp only [List.mem_cons]
        constructor
        · rintro (x | x)
          · exact Or.inl x
          · exact Or.inr (Or.inr x)
        · rintro (x | x | x)
          · exact Or.inl x
          · subst x; exact Or.inl h
          · exact Or.inr x
    · obtain ⟨i1, i2, i3⟩ := ih (a :: cache)
      have e : runRequests cache (a :: as) =
          ((runRequests (a :: cache) as).1, a :: (runRequests (a :: cache) as).2) := by
        simp [runRequests, getTile, h]
      rw [e]
      refine ⟨?_, fun n => ?_, fun n => ?_⟩
      · simp only [List.nodup_cons]
        refine ⟨?_, i1⟩
        rw [i2 a]; simp
      · simp only [List.mem_cons, i2 n, not_or]
        constructor
        · rintro (rfl | ⟨x, y, z⟩)
          · exact ⟨Or.inl rfl, h⟩
          · exact ⟨Or.inr x, z⟩
        · rintro ⟨rfl | x, y⟩
          · exact Or.inl rfl
          · by_cases hn : n = a
            · exact Or.inl hn
            · exact Or.inr ⟨x, hn, y⟩
      · simp only [i3 n, List.mem_cons]
        tauto

/-! ## the mosaic -/

/-- **Pixel identity.**  For every valid rectangle — over one, two, four or any number of tiles —
and every tile content `pix`, `elevation` succeeds and returns the native grids together with an
array `E` (row-major, `lats.length × lons.length`) such that for every `i`, `j` there is a tile
`t` of the table and a pixel `(p, q)` of it with

* the pixel is centred exactly at `(lats[i], lons[j])` (`get_grids` of the tile),
* `E[i, j]` is the value stored in that pixel,
* `t` is the **only** tile of the table whose half-open rectangle contains `(lats[i], lons[j])`
  (so nothing is filled from a wrong tile, no row / column is duplicated or dropped at a border:
  source and destination masks select the same lattice cells in the same order). -/
theorem C20_pixel_identity (pix : Tile → ℕ → ℕ → ℤ) (r : Rect) (hv : Valid r) :
    ∃ E : Array ℤ,
      elevation pix r = .ok ((nativeGrids r).1, (nativeGrids r).2, E) ∧
      E.size = (nativeGrids r).1.length * (nativeGrids r).2.length ∧
      ∀ i (hi : i < (nativeGrids r).1.length) j (hj : j < (nativeGrids r).2.length),
        ∃ t ∈ tiles, ∃ (p q : ℕ) (hp : p < (tileLats t).length) (hq : q < (tileLons t).length),
          (tileLats t)[p] = (nativeGrids r).1[i] ∧ (tileLons t)[q] = (nativeGrids r).2[j] ∧
          E[i * (nativeGrids r).2.length + j]? = some (pix t p q) ∧
          ∀ t' ∈ tiles, ((t'.latMin : ℚ) ≤ (nativeGrids r).1[i] ∧ (nativeGrids r).1[i] < t'.latMax ∧
              (t'.lonMin : ℚ) ≤ (nativeGrids r).2[j] ∧ (nativeGrids r).2[j] < t'.lonMax) ↔ t' = t := by
  obtain ⟨E, h1, h2, h3⟩ := elevation_spec pix r hv
  refine ⟨E, h1, h2, ?_⟩
  intro i hi j hj
  obtain ⟨t, htm, hin, hE⟩ := h3 i hi j hj
  have ht : t ∈ tiles := by unfold getTiles at htm; exact (List.mem_filter.mp htm).1
  obtain ⟨f1, f2, -⟩ := tiles_facts t ht
  have hlat : (nativeGrids r).1[i] = rowCentre (rF r - 1 + i + 1) := by
    simp only [nativeGrids_eq, List.getElem_map, getElem_intRange]
    congr 1; ring
  have hlon : (nativeGrids r).2[j] = colCentre (cF r + j) := by
    simp only [nativeGrids_eq, List.getElem_map, getElem_intRange]
  obtain ⟨i1, i2, i3, i4⟩ := hin
  have hp : (rF r - 1 + i - rowOff t).toNat < (tileLats t).length := by
    rw [tileLats_eq t f1]; simp only [List.length_map, List.length_range, tileH]; omega
  have hq : (cF r + j - colOff t).toNat < (tileLons t).length := by
    rw [tileLons_eq t f2]; simp only [List.length_map, List.length_range, tileW]; omega
  refine ⟨t, ht, _, _, hp, hq, ?_, ?_, hE, ?_⟩
  · rw [hlat]
    simp only [tileLats_eq t f1, List.getElem_map, List.getElem_range, rowCentre, dlat_eq]
    have c := rowOff_cast t
    have : (((rF r - 1 + i - rowOff t).toNat : ℤ) : ℚ) = ((rF r - 1 + i - rowOff t : ℤ) : ℚ) := by
      congr 1; omega
    rw [Int.cast_natCast] at this
    rw [this]; push_cast; rw [c]; ring
  · rw [hlon]
    simp only [tileLons_eq t f2, List.getElem_map, List.getElem_range, colCentre, dlon_eq]
    have c := colOff_cast t
    have : (((cF r + j - colOff t).toNat : ℤ) : ℚ) = ((cF r + j - colOff t : ℤ) : ℚ) := by
      congr 1; omega
    rw [Int.cast_natCast] at this
    rw [this]; push_cast; rw [c]; ring
  · intro t' ht'
    rw [hlat, hlon, centre_in_tile_iff t' ht']
    constructor
    · intro hin'
      by_contra hne
      exact inTile_disjoint ht' ht hne _ _ ⟨hin', ⟨i1, i2, i3, i4⟩⟩
    · rintro rfl; exact ⟨i1, i2, i3, i4⟩

/-- The tiles consulted for the block are exactly those whose interior meets it (`get_tiles` is
applied to the block's own bounds), each once. -/
theorem C20_block_tiles (r : Rect) (hv : Valid r) :
    ∀ t, t ∈ getTiles (blockRect (rF r) (rL r) (cF r) (cL r)) ↔
      t ∈ tiles ∧ InteriorsMeet (blockRect (rF r) (rL r) (cF r) (cL r)) t := by
  have s := grids_shape r hv
  have c0 : (0 : ℚ) ≤ (cF r : ℤ) := by exact_mod_cast s.cF_nonneg
  have c1 : ((cL r : ℤ) : ℚ) ≤ 43199 := by exact_mod_cast s.cL_le
  have c2 : ((cF r : ℤ) : ℚ) ≤ (cL r : ℤ) := by exact_mod_cast s.cols_le
  exact (C20_tiles_spec _ (by simp only [blockRect]; linarith) (by simp only [blockRect]; linarith)
    (by simp only [blockRect]; linarith) (by simp only [blockRect]; linarith)).1

/-! ## the tile cache seen from `elevation` -/

/-- **A tile is downloaded by `elevation` only if it is not already cached.**  `elevationC` is
`elevation` with the cache directory threaded through its tile loop (`dem = get_tile(t)` per
tile).  For every valid rectangle, every cache content and every tile content: the result is
that of `elevation`; the downloads of the call are pairwise distinct and are exactly the tiles
of the block (`get_tiles` of its bounds, cf. `C20_block_tiles`) that were **not** cached; the
cache afterwards is the old one plus the tiles of the block. -/
theorem C20_elevation_download_once (cache : List ℕ) (pix : Tile → ℕ → ℕ → ℤ) (r : Rect)
    (hv : Valid r) :
    (elevationC cache pix r).1 = elevation pix r ∧
    (elevationC cache pix r).2.2.Nodup ∧
    (∀ n, n ∈ (elevationC cache pix r).2.2 ↔
      (∃ t ∈ getTiles (blockRect (rF r) (rL r) (cF r) (cL r)), tileId t = n) ∧ n ∉ cache) ∧
    (∀ n, n ∈ (elevationC cache pix r).2.1 ↔
      n ∈ cache ∨ ∃ t ∈ getTiles (blockRect (rF r) (rL r) (cF r) (cL r)), tileId t = n) := by
  rw [elevationC_spec cache pix r hv]
  obtain ⟨h1, h2, h3⟩ := C20_download_once cache
    ((getTiles (blockRect (rF r) (rL r) (cF r) (cL r))).map tileId)
  refine ⟨rfl, h1, fun n => ?_, fun n => ?_⟩
  · rw [h2 n, List.mem_map]
  · rw [h3 n, List.mem_map]

/-- Any sequence of `elevation` calls on one cache directory (warm or cold): no tile is
downloaded twice and no tile that was cached at the start is downloaded at all. -/
theorem C20_calls_download_once (pix : Tile → ℕ → ℕ → ℤ) (rs : List Rect)
    (hv : ∀ r ∈ rs, Valid r) (cache : List ℕ) :
    (runCalls pix cache rs).2.Nodup ∧ (∀ n ∈ (runCalls pix cache rs).2, n ∉ cache) ∧
    (∀ n ∈ cache, n ∈ (runCalls pix cache rs).1) := by
  induction rs generalizing cache with
  | nil => simp [runCalls]
  | cons r rs ih =>
    obtain ⟨-, a2, a3, a4⟩ := C20_elevation_download_once cache pix r (hv r List.mem_cons_self)
    obtain ⟨b1, b2, b3⟩ := ih (fun r' h => hv r' (List.mem_cons_of_mem _ h)) (elevationC cache pix r).2.1
    simp only [runCalls]
    refine ⟨?_, ?_, ?_⟩
    · rw [List.nodup_append]
      refine ⟨a2, b1, ?_⟩
      intro x hx y hy hxy
      subst hxy
      exact b2 x hy ((a4 x).mpr (Or.inr ((a3 x).mp hx).1))
    · intro n hn
      rcases List.mem_append.mp hn with h | h
      · exact ((a3 n).mp h).2
      · intro hc
        exact b2 n h ((a4 n).mpr (Or.inl hc))
    · intro n hn
      exact b3 n ((a4 n).mpr (Or.inl hn))

/-! ## non-vacuity of the easy part -/

/-- a rectangle straddling the corner of four tiles at 40° N, 140° W, unaligned with the grid -/
def rect4 : Rect := ⟨3999 / 100, -14001 / 100, 4001 / 100, -13999 / 100⟩

example : Valid rect4 := by constructor <;> norm_num [rect4]
#guard (getTiles rect4).length = 4
#guard (nativeGrids rect4).1.length = 4 ∧ (nativeGrids rect4).2.length = 4
#guard (runRequests [1, 2] [3, 1, 3, 4, 2]).2 = [3, 4]
-- elevation over the four-tile corner on a cache holding w180n90 (id 0): downloads ids 1, 9, 10;
-- a second call downloads nothing
#guard (elevationC [0] synthPix rect4).2.2 = [1, 9, 10]
#guard (runCalls synthPix [0] [rect4, rect4]).2 = [1, 9, 10]
-- the mosaic over the four tiles equals the synthetic pixel formula at the global lattice cell
#guard (match elevation synthPix rect4 with
  | .ok (lats, lons, E) => lats.length = 4 ∧ lons.length = 4 ∧
      E.toList = (List.range 4).flatMap (fun i => (List.range 4).map (fun j =>
        (((5998 + i : ℕ) : ℤ) * 7 + ((4798 + j : ℕ) : ℤ) * 13) % 30000))
  | .error _ => False)
#guard nativeGrids (boundsRect ⟨-10, 20, 40, 60⟩) = (tileLats ⟨-10, 20, 40, 60⟩, tileLons ⟨-10, 20, 40, 60⟩)

assert_axioms C20_grid_consecutive C20_nonempty C20_covers C20_tight C20_tiles_spec
  C20_native_eq_grids C20_download_iff_not_cached C20_download_once C20_pixel_identity C20_block_tiles
  C20_elevation_download_once C20_calls_download_once
