import Model.Srtm
