import Mathlib.Tactic
import Model.Srtm
/-!
Arithmetic facts about the index computations of `get_native_grids` (floor / ceil / trunc over
exact rationals) and about `% 360`.
-/
namespace Srtm

theorem dlat_eq : dlat = 1 / 120 := by unfold dlat; norm_num
theorem dlon_eq : dlon = 1 / 120 := by unfold dlon; norm_num

theorem floor_spec (x : ℚ) : ((x.floor : ℤ) : ℚ) ≤ x ∧ x < ((x.floor : ℤ) : ℚ) + 1 := by
  refine ⟨Rat.floor_le x, ?_⟩
  have := Rat.lt_floor_add_one x
  push_cast at this
  exact this

theorem ceil_spec (x : ℚ) : ((x.ceil : ℤ) : ℚ) - 1 < x ∧ x ≤ ((x.ceil : ℤ) : ℚ) := by
  refine ⟨?_, Rat.le_ceil⟩
  have h : (x.ceil - 1 : ℤ) < x.ceil := by omega
  have := (Rat.lt_ceil_iff (x := x) (y := x.ceil - 1)).mp h
  push_cast at this
  exact this

theorem trunc_of_nonneg {x : ℚ} (h : 0 ≤ x) : trunc x = x.floor := by
  unfold trunc; simp [h]

/-- `(i_max, i_min)` in closed form -/
theorem nativeRows_eq (latMin latMax : ℚ) :
    nativeRows latMin latMax = (((90 - latMax) * 120).floor + 1, ((90 - latMin) * 120).ceil) := by
  unfold nativeRows
  simp only [dlat_eq]
  congr 2 <;> ring_nf

/-- first row `rF` (1-based): `rF - 1 ≤ (90 - lat_max)·120 < rF` -/
theorem rowFirst_spec (latMin latMax : ℚ) :
    (((nativeRows latMin latMax).1 : ℤ) : ℚ) - 1 ≤ (90 - latMax) * 120 ∧
    (90 - latMax) * 120 < ((nativeRows latMin latMax).1 : ℤ) := by
  rw [nativeRows_eq]
  have := floor_spec ((90 - latMax) * 120)
  push_cast
  constructor <;> linarith [this.1, this.2]

/-- last row `rL` (1-based): `rL - 1 < (90 - lat_min)·120 ≤ rL` -/
theorem rowLast_spec (latMin latMax : ℚ) :
    (((nativeRows latMin latMax).2 : ℤ) : ℚ) - 1 < (90 - latMin) * 120 ∧
    (90 - latMin) * 120 ≤ ((nativeRows latMin latMax).2 : ℤ) := by
  rw [nativeRows_eq]
  exact ceil_spec _

/-- first column `cF` (0-based), for `lon_min ≥ -180`: `cF ≤ (lon_min + 180)·120 < cF + 1` -/
theorem colFirst_spec (lonMin lonMax : ℚ) (h : -180 ≤ lonMin) :
    (((nativeCols lonMin lonMax).1 : ℤ) : ℚ) ≤ (lonMin + 180) * 120 ∧
    (lonMin + 180) * 120 < ((nativeCols lonMin lonMax).1 : ℤ) + 1 := by
  unfold nativeCols
  simp only [dlon_eq]
  have e : (lonMin + 180) / (1 / 120) = (lonMin + 180) * 120 := by ring
  rw [e, trunc_of_nonneg (by linarith)]
  exact floor_spec _

/-- last column `cL` (0-based), for `lon_max ≥ -180`: `cL < (lon_max + 180)·120 ≤ cL + 1` -/
theorem colLast_spec (lonMin lonMax : ℚ) (h : -180 ≤ lonMax) :
    (((nativeCols lonMin lonMax).2 : ℤ) : ℚ) < (lonMax + 180) * 120 ∧
    (lonMax + 180) * 120 ≤ ((nativeCols lonMin lonMax).2 : ℤ) + 1 := by
  unfold nativeCols
  simp only [dlon_eq]
  have e : (lonMax + 180) / (1 / 120) = (lonMax + 180) * 120 := by ring
  rw [e, trunc_of_nonneg (by linarith)]
  have := floor_spec ((lonMax + 180) * 120)
  by_cases hlt : ((((lonMax + 180) * 120).floor : ℤ) : ℚ) < (lonMax + 180) * 120
  · rw [if_neg (not_not.mpr hlt)]
    constructor <;> linarith [this.1, this.2]
  · rw [if_pos hlt]
    push_cast
    have hlt' := not_lt.mp hlt
    constructor <;> linarith [this.1, this.2]

/-- an integer strictly between `x - 1` and … is unique: `a ≤ x < a + 1`, `b ≤ x < b + 1` ⇒ `a = b` -/
theorem int_unique_floor {a b : ℤ} {x : ℚ} (ha : (a : ℚ) ≤ x) (ha' : x < a + 1)
    (hb : (b : ℚ) ≤ x) (hb' : x < b + 1) : a = b := by
  have h1 : (a : ℚ) < b + 1 := by linarith
  have h2 : (b : ℚ) < a + 1 := by linarith
  have h1' : a < b + 1 := by exact_mod_cast h1
  have h2' : b < a + 1 := by exact_mod_cast h2
  omega

theorem int_unique_ceil {a b : ℤ} {x : ℚ} (ha : (a : ℚ) - 1 < x) (ha' : x ≤ a)
    (hb : (b : ℚ) - 1 < x) (hb' : x ≤ b) : a = b := by
  have h1 : (a : ℚ) - 1 < b := by linarith
  have h2 : (b : ℚ) - 1 < a := by linarith
  have h1' : a - 1 < b := by exact_mod_cast h1
  have h2' : b - 1 < a := by exact_mod_cast h2
  omega

/-! ### `% 360` normalisation is the identity on the covered longitudes -/

theorem pymod_of_nonneg_lt {x : ℚ} (h0 : 0 ≤ x) (h1 : x < 360) : pymod x 360 = x := by
  unfold pymod
  have hf : (x / 360).floor = 0 := by
    have := floor_spec (x / 360)
    have h2 : x / 360 < 1 := by rw [div_lt_one (by norm_num)]; exact h1
    have h3 : 0 ≤ x / 360 := by positivity
    have a1 : ((x / 360).floor : ℚ) < 1 := by linarith [this.1]
    have a2 : (-1 : ℚ) < ((x / 360).floor : ℤ) := by linarith [this.2]
    have a1' : (x / 360).floor < 1 := by exact_mod_cast a1
    have a2' : -1 < (x / 360).floor := by exact_mod_cast a2
    omega
  rw [hf]; simp

theorem pymod_of_neg {x : ℚ} (h0 : -360 ≤ x) (h1 : x < 0) : pymod x 360 = x + 360 := by
  unfold pymod
  have hf : (x / 360).floor = -1 := by
    have := floor_spec (x / 360)
    have h2 : x / 360 < 0 := by apply div_neg_of_neg_of_pos h1; norm_num
    have h3 : -1 ≤ x / 360 := by rw [le_div_iff₀ (by norm_num)]; linarith
    have a1 : ((x / 360).floor : ℚ) < 0 := by linarith [this.1]
    have a2 : (-2 : ℚ) < ((x / 360).floor : ℤ) := by linarith [this.2]
    have a1' : (x / 360).floor < 0 := by exact_mod_cast a1
    have a2' : -2 < (x / 360).floor := by exact_mod_cast a2
    omega
  rw [hf]; push_cast; ring

theorem normLonMin_id {x : ℚ} (h0 : -180 ≤ x) (h1 : x < 180) : normLonMin x = x := by
  unfold normLonMin
  by_cases hx : 0 ≤ x
  · rw [pymod_of_nonneg_lt hx (by linarith)]
    simp only [ge_iff_le]
    rw [if_neg (by linarith)]
  · have hx := not_le.mp hx
    rw [pymod_of_neg (by linarith) hx]
    simp only [ge_iff_le]
    rw [if_pos (by linarith)]
    ring

theorem normLonMax_id {x : ℚ} (h0 : -180 < x) (h1 : x ≤ 180) : normLonMax x = x := by
  unfold normLonMax
  by_cases hx : 0 ≤ x
  · rw [pymod_of_nonneg_lt hx (by linarith)]
    simp only [gt_iff_lt]
    rw [if_neg (by linarith)]
  · have hx := not_le.mp hx
    rw [pymod_of_neg (by linarith) hx]
    simp only [gt_iff_lt]
    rw [if_pos (by linarith)]
    ring

end Srtm

namespace Srtm

/-- a rectangle inside the covered area (60° S … 90° N, 180° W … 180° E) with non-empty interior -/
structure Valid (r : Rect) : Prop where
  latLo : -60 ≤ r.latMin
  lat : r.latMin < r.latMax
  latHi : r.latMax ≤ 90
  lonLo : -180 ≤ r.lonMin
  lon : r.lonMin < r.lonMax
  lonHi : r.lonMax ≤ 180

/-- facts about the table of 27 tiles used by the proofs (checked by evaluation in the kernel) -/
theorem tiles_facts : ∀ t ∈ tiles, t.latMax - t.latMin = 50 ∧ t.lonMax - t.lonMin = 40 ∧
    -60 ≤ t.latMin ∧ t.latMax ≤ 90 ∧ -180 ≤ t.lonMin ∧ t.lonMax ≤ 180 := by decide +kernel

theorem tiles_nodup : tiles.Nodup := by decide +kernel

/-- two different tiles of the table have disjoint interiors -/
theorem tiles_disjoint : ∀ t ∈ tiles, ∀ t' ∈ tiles, t ≠ t' →
    (t.latMax ≤ t'.latMin ∨ t'.latMax ≤ t.latMin ∨ t.lonMax ≤ t'.lonMin ∨ t'.lonMax ≤ t.lonMin) := by
  decide +kernel

/-- the table has a tile for each of the 3 × 9 bands -/
theorem tiles_cover : ∀ a ∈ List.range 3, ∀ b ∈ List.range 9, ∃ t ∈ tiles,
    t.latMax = 90 - 50 * (a : ℤ) ∧ t.lonMin = -180 + 40 * (b : ℤ) := by decide +kernel

end Srtm
