import Mathlib.Tactic
import Model.Srtm
import Proofs.Lemmas.Arith
import Proofs.Lemmas.Lists
/-!
Shape of the native grid of a valid rectangle, the grids of whole tiles, and the mosaic loop of
`elevation` (source and destination masks select the same lattice cells in the same order).
-/
namespace Srtm

/-- first / last global row (1-based from 90° N) and column (0-based from 180° W) of the block -/
def rF (r : Rect) : ℤ := (nativeRows r.latMin r.latMax).1
def rL (r : Rect) : ℤ := (nativeRows r.latMin r.latMax).2
def cF (r : Rect) : ℤ := (nativeCols r.lonMin r.lonMax).1
def cL (r : Rect) : ℤ := (nativeCols r.lonMin r.lonMax).2

theorem nativeGrids_eq (r : Rect) :
    nativeGrids r = ((intRange (rF r) (rL r)).map rowCentre, (intRange (cF r) (cL r)).map colCentre) := rfl

theorem head_intRange {lo hi : ℤ} (h : intRange lo hi ≠ []) : (intRange lo hi).head h = lo := by
  rw [List.head_eq_getElem, getElem_intRange]; simp

theorem getLast_intRange {lo hi : ℤ} (h : intRange lo hi ≠ []) : (intRange lo hi).getLast h = hi := by
  have hl : 0 < (intRange lo hi).length := List.length_pos_iff.mpr h
  rw [List.getLast_eq_getElem, getElem_intRange]
  rw [length_intRange] at hl ⊢
  omega

theorem intRange_ne_nil {lo hi : ℤ} (h : lo ≤ hi) : intRange lo hi ≠ [] := by
  intro e
  have := congrArg List.length e
  rw [length_intRange] at this
  simp at this
  omega

/-- everything the property theorems need about the block of a valid rectangle -/
structure GridShape (r : Rect) : Prop where
  rows_le : rF r ≤ rL r
  cols_le : cF r ≤ cL r
  rF_pos : 1 ≤ rF r
  rL_le : rL r ≤ 18000
  cF_nonneg : 0 ≤ cF r
  cL_le : cL r ≤ 43199
  top : r.latMax ≤ 90 - ((rF r : ℚ) - 1) / 120 ∧ 90 - ((rF r : ℚ) - 1) / 120 - r.latMax < 1 / 120
  bottom : r.latMin - (90 - (rL r : ℚ) / 120) < 1 / 120 ∧ 90 - (rL r : ℚ) / 120 ≤ r.latMin
  left : -180 + (cF r : ℚ) / 120 ≤ r.lonMin ∧ r.lonMin - (-180 + (cF r : ℚ) / 120) < 1 / 120
  right : -180 + ((cL r : ℚ) + 1) / 120 - r.lonMax < 1 / 120 ∧ r.lonMax ≤ -180 + ((cL r : ℚ) + 1) / 120
  lats_ne : (nativeGrids r).1 ≠ []
  lons_ne : (nativeGrids r).2 ≠ []
  head_lat : ∀ h, (nativeGrids r).1.head h = 90 - ((rF r : ℚ) - 1) / 120 - 1 / 240
  last_lat : ∀ h, (nativeGrids r).1.getLast h = 90 - (rL r : ℚ) / 120 + 1 / 240
  head_lon : ∀ h, (nativeGrids r).2.head h = -180 + (cF r : ℚ) / 120 + 1 / 240
  last_lon : ∀ h, (nativeGrids r).2.getLast h = -180 + ((cL r : ℚ) + 1) / 120 - 1 / 240

theorem grids_shape (r : Rect) (hv : Valid r) : GridShape r := by
  obtain ⟨v1, v2, v3, v4, v5, v6⟩ := hv
  have a := rowFirst_spec r.latMin r.latMax
  have b := rowLast_spec r.latMin r.latMax
  have c := colFirst_spec r.lonMin r.lonMax v4
  have d := colLast_spec r.lonMin r.lonMax (by linarith)
  have hrows : rF r ≤ rL r := by
    have : ((rF r : ℤ) : ℚ) - 1 < (rL r : ℤ) := by unfold rF rL; linarith [a.1, b.2]
    have : rF r - 1 < rL r := by exact_mod_cast this
    omega
  have hcols : cF r ≤ cL r := by
    have : ((cF r : ℤ) : ℚ) < (cL r : ℤ) + 1 := by unfold cF cL; linarith [c.1, d.2]
    have : cF r < cL r + 1 := by exact_mod_cast this
    omega
  have n1 : intRange (rF r) (rL r) ≠ [] := intRange_ne_nil hrows
  have n2 : intRange (cF r) (cL r) ≠ [] := intRange_ne_nil hcols
  refine
    { rows_le := hrows, cols_le := hcols, rF_pos := ?_, rL_le := ?_, cF_nonneg := ?_, cL_le := ?_,
      top := ?_, bottom := ?_, left := ?_, right := ?_, lats_ne := ?_, lons_ne := ?_,
      head_lat := ?_, last_lat := ?_, head_lon := ?_, last_lon := ?_ }
  · have : (0 : ℚ) < (rF r : ℤ) := by unfold rF; linarith [a.2]
    have : 0 < rF r := by exact_mod_cast this
    omega
  · have : ((rL r : ℤ) : ℚ) - 1 < 18000 := by unfold rL; linarith [b.1]
    have : rL r - 1 < 18000 := by exact_mod_cast this
    omega
  · have : (-1 : ℚ) < (cF r : ℤ) := by unfold cF; linarith [c.2]
    have : -1 < cF r := by exact_mod_cast this
    omega
  · have : ((cL r : ℤ) : ℚ) < 43200 := by unfold cL; linarith [d.1]
    have : cL r < 43200 := by exact_mod_cast this
    omega
  · unfold rF; constructor <;> linarith [a.1, a.2]
  · unfold rL; constructor <;> linarith [b.1, b.2]
  · unfold cF; constructor <;> linarith [c.1, c.2]
  · unfold cL; constructor <;> linarith [d.1, d.2]
  · rw [nativeGrids_eq]; simpa using n1
  · rw [nativeGrids_eq]; simpa using n2
  · intro h
    simp only [nativeGrids_eq, List.head_map, head_intRange n1, rowCentre, dlat_eq]; ring
  · intro h
    simp only [nativeGrids_eq, List.getLast_map, getLast_intRange n1, rowCentre, dlat_eq]; ring
  · intro h
    simp only [nativeGrids_eq, List.head_map, head_intRange n2, colCentre, dlon_eq]; ring
  · intro h
    simp only [nativeGrids_eq, List.getLast_map, getLast_intRange n2, colCentre, dlon_eq]; ring

/-! ### whole tiles -/

theorem native_eq_grids : ∀ t ∈ tiles, nativeGrids (boundsRect t) = (tileLats t, tileLons t) := by
  intro t ht
  obtain ⟨f1, f2, f3, f4, f5, f6⟩ := tiles_facts t ht
  have a := rowFirst_spec (t.latMin : ℚ) (t.latMax : ℚ)
  have b := rowLast_spec (t.latMin : ℚ) (t.latMax : ℚ)
  have c := colFirst_spec (t.lonMin : ℚ) (t.lonMax : ℚ) (by exact_mod_cast f5)
  have d := colLast_spec (t.lonMin : ℚ) (t.lonMax : ℚ) (by
    have : (-180 : ℤ) ≤ t.lonMax := by omega
    exact_mod_cast this)
  have e1 : rF (boundsRect t) = (90 - t.latMax) * 120 + 1 := by
    unfold rF boundsRect
    have h1 : (((nativeRows (t.latMin : ℚ) (t.latMax : ℚ)).1 : ℤ) : ℚ) - 1 ≤ (((90 - t.latMax) * 120 : ℤ) : ℚ) := by
      push_cast; linarith [a.1]
    have h2 : (((90 - t.latMax) * 120 : ℤ) : ℚ) < ((nativeRows (t.latMin : ℚ) (t.latMax : ℚ)).1 : ℤ) := by
      push_cast; linarith [a.2]
    have h1' : (nativeRows (t.latMin : ℚ) (t.latMax : ℚ)).1 - 1 ≤ (90 - t.latMax) * 120 := by exact_mod_cast h1
    have h2' : (90 - t.latMax) * 120 < (nativeRows (t.latMin : ℚ) (t.latMax : ℚ)).1 := by exact_mod_cast h2
    simp only; omega
  have e2 : rL (boundsRect t) = (90 - t.latMin) * 120 := by
    unfold rL boundsRect
    have h1 : (((nativeRows (t.latMin : ℚ) (t.latMax : ℚ)).2 : ℤ) : ℚ) - 1 < (((90 - t.latMin) * 120 : ℤ) : ℚ) := by
      push_cast; linarith [b.1]
    have h2 : (((90 - t.latMin) * 120 : ℤ) : ℚ) ≤ ((nativeRows (t.latMin : ℚ) (t.latMax : ℚ)).2 : ℤ) := by
      push_cast; linarith [b.2]
    have h1' : (nativeRows (t.latMin : ℚ) (t.latMax : ℚ)).2 - 1 < (90 - t.latMin) * 120 := by exact_mod_cast h1
    have h2' : (90 - t.latMin) * 120 ≤ (nativeRows (t.latMin : ℚ) (t.latMax : ℚ)).2 := by exact_mod_cast h2
    simp only; omega
  have e3 : cF (boundsRect t) = (t.lonMin + 180) * 120 := by
    unfold cF boundsRect
    have h1 : (((nativeCols (t.lonMin : ℚ) (t.lonMax : ℚ)).1 : ℤ) : ℚ) ≤ (((t.lonMin + 180) * 120 : ℤ) : ℚ) := by
      push_cast; linarith [c.1]
    have h2 : (((t.lonMin + 180) * 120 : ℤ) : ℚ) < ((nativeCols (t.lonMin : ℚ) (t.lonMax : ℚ)).1 : ℤ) + 1 := by
      push_cast; linarith [c.2]
    have h1' : (nativeCols (t.lonMin : ℚ) (t.lonMax : ℚ)).1 ≤ (t.lonMin + 180) * 120 := by exact_mod_cast h1
    have h2' : (t.lonMin + 180) * 120 < (nativeCols (t.lonMin : ℚ) (t.lonMax : ℚ)).1 + 1 := by exact_mod_cast h2
    simp only; omega
  have e4 : cL (boundsRect t) = (t.lonMax + 180) * 120 - 1 := by
    unfold cL boundsRect
    have h1 : (((nativeCols (t.lonMin : ℚ) (t.lonMax : ℚ)).2 : ℤ) : ℚ) < (((t.lonMax + 180) * 120 : ℤ) : ℚ) := by
      push_cast; linarith [d.1]
    have h2 : (((t.lonMax + 180) * 120 : ℤ) : ℚ) ≤ ((nativeCols (t.lonMin : ℚ) (t.lonMax : ℚ)).2 : ℤ) + 1 := by
      push_cast; linarith [d.2]
    have h1' : (nativeCols (t.lonMin : ℚ) (t.lonMax : ℚ)).2 < (t.lonMax + 180) * 120 := by exact_mod_cast h1
    have h2' : (t.lonMax + 180) * 120 ≤ (nativeCols (t.lonMin : ℚ) (t.lonMax : ℚ)).2 + 1 := by exact_mod_cast h2
    simp only; omega
  rw [nativeGrids_eq, e1, e2, e3, e4, tileLats_eq t f1, tileLons_eq t f2, intRange_eq_map, intRange_eq_map]
  have n1 : ((90 - t.latMin) * 120 + 1 - ((90 - t.latMax) * 120 + 1)).toNat = tileH := by
    unfold tileH; omega
  have n2 : ((t.lonMax + 180) * 120 - 1 + 1 - (t.lonMin + 180) * 120).toNat = tileW := by
    unfold tileW; omega
  rw [n1, n2]
  have hl : List.map (fun (i : ℕ) => rowCentre ((90 - t.latMax) * 120 + 1 + (i : ℤ))) (List.range tileH) =
      List.map (fun (r : ℕ) => (t.latMax : ℚ) - 1 / 240 - (r : ℚ) / 120) (List.range tileH) :=
    List.map_congr_left (fun i _ => by simp only [rowCentre, dlat_eq]; push_cast; ring)
  have hr : List.map (fun (i : ℕ) => colCentre ((t.lonMin + 180) * 120 + (i : ℤ))) (List.range tileW) =
      List.map (fun (c : ℕ) => (t.lonMin : ℚ) + 1 / 240 + (c : ℚ) / 120) (List.range tileW) :=
    List.map_congr_left (fun i _ => by simp only [colCentre, dlon_eq]; push_cast; ring)
  rw [hl, hr]

end Srtm
