import Mathlib.Tactic
import Model.Srtm
import Proofs.Lemmas.Arith
/-!
List facts: `intRange`, masks over mapped ranges, `min()`/`max()` of a grid, closed forms of the
tile grids (`np.linspace`), row-major product of index lists, masked assignment.
-/
namespace Srtm

/-! ### `np.arange` -/

theorem length_intRange (lo hi : ℤ) : (intRange lo hi).length = (hi + 1 - lo).toNat := by
  simp [intRange]

theorem getElem_intRange (lo hi : ℤ) (i : ℕ) (h : i < (intRange lo hi).length) :
    (intRange lo hi)[i] = lo + i := by
  simp [intRange]

theorem mem_intRange {lo hi k : ℤ} : k ∈ intRange lo hi ↔ lo ≤ k ∧ k ≤ hi := by
  simp only [intRange, List.mem_map, List.mem_range]
  constructor
  · rintro ⟨n, hn, rfl⟩; omega
  · rintro ⟨h1, h2⟩; exact ⟨(k - lo).toNat, by omega, by omega⟩

theorem pairwise_intRange (lo hi : ℤ) : (intRange lo hi).Pairwise (· < ·) := by
  unfold intRange
  exact List.Pairwise.map _ (fun a b h => by omega) List.pairwise_lt_range

theorem intRange_eq_map (lo hi : ℤ) (f : ℤ → ℚ) :
    (intRange lo hi).map f = (List.range (hi + 1 - lo).toNat).map (fun (i : ℕ) => f (lo + i)) := by
  simp [intRange, List.map_map, Function.comp_def]

/-- indices `i < n` selected by an interval condition on `off + i`, mapped to `off + i`,
are the integers of the intersection of the two intervals, ascending -/
theorem filter_range_map_eq (n : ℕ) (p : ℕ → Bool) (off lo hi : ℤ)
    (hp : ∀ i, i < n → (p i = true ↔ lo ≤ off + i ∧ off + i ≤ hi)) :
    ((List.range n).filter p).map (fun (i : ℕ) => off + (i : ℤ)) =
      intRange (max lo off) (min hi (off + n - 1)) := by
  apply List.Pairwise.eq_of_mem_iff (r := (· < ·))
  · exact List.Pairwise.map _ (fun a b h => by omega) ((List.pairwise_lt_range).filter _)
  · exact pairwise_intRange _ _
  · intro k
    simp only [List.mem_map, List.mem_filter, List.mem_range, mem_intRange]
    constructor
    · rintro ⟨i, ⟨hi1, hi2⟩, rfl⟩
      have := (hp i hi1).mp hi2
      omega
    · rintro ⟨h1, h2⟩
      refine ⟨(k - off).toNat, ⟨by omega, ?_⟩, by omega⟩
      apply (hp _ (by omega)).mpr; omega

/-! ### masks -/

theorem zipIdx_map_range (n : ℕ) (f : ℕ → ℚ) :
    ((List.range n).map f).zipIdx = (List.range n).map (fun i => (f i, i)) := by
  apply List.ext_getElem <;> simp

theorem selIdx_map_range (lo hi : ℚ) (n : ℕ) (f : ℕ → ℚ) :
    selIdx lo hi ((List.range n).map f) =
      (List.range n).filter (fun i => decide (lo ≤ f i) && decide (f i < hi)) := by
  unfold selIdx
  rw [zipIdx_map_range, List.filter_map, List.map_map]
  simp [Function.comp_def]

/-! ### `.min()` / `.max()` -/

theorem foldl_min_spec (xs : List ℚ) :
    ∀ x, xs.foldl min x ∈ x :: xs ∧ ∀ y ∈ x :: xs, xs.foldl min x ≤ y := by
  induction xs with
  | nil => intro x; simp
  | cons a as ih =>
    intro x
    obtain ⟨h1, h2⟩ := ih (min x a)
    simp only [List.foldl_cons]
    constructor
    · rcases List.mem_cons.mp h1 with h | h
      · rw [h]; rcases min_choice x a with e | e <;> rw [e] <;> simp
      · exact List.mem_cons_of_mem _ (List.mem_cons_of_mem _ h)
    · intro y hy
      have hm := h2 (min x a) List.mem_cons_self
      rcases List.mem_cons.mp hy with rfl | hy
      · exact le_trans hm (min_le_left _ _)
      · rcases List.mem_cons.mp hy with rfl | hy
        · exact le_trans hm (min_le_right _ _)
        · exact h2 y (List.mem_cons_of_mem _ hy)

theorem foldl_max_spec (xs : List ℚ) :
    ∀ x, xs.foldl max x ∈ x :: xs ∧ ∀ y ∈ x :: xs, y ≤ xs.foldl max x := by
  induction xs with
  | nil => intro x; simp
  | cons a as ih =>
    intro x
    obtain ⟨h1, h2⟩ := ih (max x a)
    simp only [List.foldl_cons]
    constructor
    · rcases List.mem_cons.mp h1 with h | h
      · rw [h]; rcases max_choice x a with e | e <;> rw [e] <;> simp
      · exact List.mem_cons_of_mem _ (List.mem_cons_of_mem _ h)
    · intro y hy
      have hm := h2 (max x a) List.mem_cons_self
      rcases List.mem_cons.mp hy with rfl | hy
      · exact le_trans (le_max_left _ _) hm
      · rcases List.mem_cons.mp hy with rfl | hy
        · exact le_trans (le_max_right _ _) hm
        · exact h2 y (List.mem_cons_of_mem _ hy)

theorem listMin_eq {l : List ℚ} {m : ℚ} (hm : m ∈ l) (hle : ∀ x ∈ l, m ≤ x) : listMin l = some m := by
  cases l with
  | nil => simp at hm
  | cons a as =>
    obtain ⟨h1, h2⟩ := foldl_min_spec as a
    simp only [listMin, Option.some.injEq]
    exact le_antisymm (h2 m hm) (hle _ h1)

theorem listMax_eq {l : List ℚ} {m : ℚ} (hm : m ∈ l) (hle : ∀ x ∈ l, x ≤ m) : listMax l = some m := by
  cases l with
  | nil => simp at hm
  | cons a as =>
    obtain ⟨h1, h2⟩ := foldl_max_spec as a
    simp only [listMax, Option.some.injEq]
    exact le_antisymm (hle _ h1) (h2 m hm)

/-! ### tile grids (`np.linspace`) in closed form -/

theorem tileLats_eq (t : Tile) (h : t.latMax - t.latMin = 50) :
    tileLats t = (List.range tileH).map (fun (r : ℕ) => (t.latMax : ℚ) - 1 / 240 - (r : ℚ) / 120) := by
  have hq : (t.latMin : ℚ) = t.latMax - 50 := by
    have : ((t.latMax - t.latMin : ℤ) : ℚ) = 50 := by rw [h]; norm_num
    push_cast at this; linarith
  unfold tileLats
  apply List.ext_getElem
  · simp
  · intro i h1 h2
    have hi : i < 6000 := by simpa [tileH] using h2
    rw [List.getElem_reverse]
    simp only [List.getElem_map, List.getElem_range, List.length_map, List.length_range, tileH]
    unfold linspace
    rw [dlat_eq, hq]
    have : ((6000 - 1 - i : ℕ) : ℚ) = 5999 - (i : ℚ) := by
      rw [Nat.cast_sub (by omega)]; norm_num
    rw [this]
    push_cast
    ring

theorem tileLons_eq (t : Tile) (h : t.lonMax - t.lonMin = 40) :
    tileLons t = (List.range tileW).map (fun (c : ℕ) => (t.lonMin : ℚ) + 1 / 240 + (c : ℚ) / 120) := by
  have hq : (t.lonMax : ℚ) = t.lonMin + 40 := by
    have : ((t.lonMax - t.lonMin : ℤ) : ℚ) = 40 := by rw [h]; norm_num
    push_cast at this; linarith
  unfold tileLons
  apply List.ext_getElem
  · simp
  · intro i h1 h2
    simp only [List.getElem_map, List.getElem_range, tileW]
    unfold linspace
    rw [dlon_eq, hq]
    push_cast
    ring

/-! ### row-major product of index lists -/

theorem cells_map {α β : Type} (rows cols : List ℕ) (fR : ℕ → α) (fC : ℕ → β) :
    (cells rows cols).map (fun p => (fR p.1, fC p.2)) =
      (rows.map fR).flatMap (fun R => (cols.map fC).map (fun C => (R, C))) := by
  unfold cells
  simp [List.map_flatMap, List.flatMap_map, List.map_map, Function.comp_def]

theorem mem_cells {rows cols : List ℕ} {p : ℕ × ℕ} : p ∈ cells rows cols ↔ p.1 ∈ rows ∧ p.2 ∈ cols := by
  unfold cells
  simp only [List.mem_flatMap, List.mem_map]
  constructor
  · rintro ⟨i, hi, j, hj, rfl⟩; exact ⟨hi, hj⟩
  · rintro ⟨h1, h2⟩; exact ⟨p.1, h1, p.2, h2, rfl⟩

/-! ### masked assignment -/

/-- sequential `a[pos] = v` writes at pairwise distinct positions: every write survives,
everything else is untouched -/
theorem foldl_set_spec (ws : List (ℕ × ℤ)) (hn : (ws.map (·.1)).Nodup) :
    ∀ E : Array ℤ,
      let E' := ws.foldl (fun a w => a.setIfInBounds w.1 w.2) E
      E'.size = E.size ∧
      (∀ w ∈ ws, ∀ h : w.1 < E'.size, E'[w.1] = w.2) ∧
      (∀ q, q ∉ ws.map (·.1) → ∀ h : q < E'.size, ∀ h' : q < E.size, E'[q] = E[q]) := by
  induction ws with
  | nil => intro E; simp
  | cons w ws ih =>
    intro E
    simp only [List.map_cons, List.nodup_cons] at hn
    obtain ⟨hs, hw, hq⟩ := ih hn.2 (E.setIfInBounds w.1 w.2)
    simp only [List.foldl_cons]
    refine ⟨by simpa using hs, ?_, ?_⟩
    · intro w' hw' h
      rcases List.mem_cons.mp hw' with rfl | hw'
      · have h' : w'.1 < (E.setIfInBounds w'.1 w'.2).size := by simpa [hs] using h
        rw [hq w'.1 hn.1 h h']
        simp
      · exact hw w' hw' h
    · intro q hq' h h'
      simp only [List.map_cons, List.mem_cons, not_or] at hq'
      have h'' : q < (E.setIfInBounds w.1 w.2).size := by simpa using h'
      rw [hq q hq'.2 h h'']
      rw [Array.getElem_setIfInBounds]
      rw [if_neg (fun e => hq'.1 e.symm)]

end Srtm
