import Mathlib.Tactic
import Model.Srtm
import Proofs.Lemmas.Arith
import Proofs.Lemmas.Lists
import Proofs.Lemmas.Mosaic
/-!
The mosaic loop of `elevation`: for every tile of the table the source mask (on the tile grid)
and the destination mask (on the block) select the same cells of the global lattice in the same
row-major order, so the masked assignment copies each pixel to its own place; different tiles
write disjoint cells; every cell of the block is written by the one tile containing it.
-/
namespace Srtm

/-! ### integer / half-integer comparisons -/

theorem half_lt_iff (a b : ℤ) : (a : ℚ) < b + 1 / 2 ↔ a ≤ b := by
  constructor
  · intro h
    have : (a : ℚ) < ((b + 1 : ℤ) : ℚ) := by push_cast; linarith
    have : a < b + 1 := by exact_mod_cast this
    omega
  · intro h
    have : (a : ℚ) ≤ b := by exact_mod_cast h
    linarith

theorem half_le_iff (a b : ℤ) : (a : ℚ) + 1 / 2 ≤ b ↔ a + 1 ≤ b := by
  constructor
  · intro h
    have : (a : ℚ) < (b : ℚ) := by linarith
    have : a < b := by exact_mod_cast this
    omega
  · intro h
    have : ((a + 1 : ℤ) : ℚ) ≤ b := by exact_mod_cast h
    push_cast at this
    linarith

theorem half_le_iff' (a b : ℤ) : (a : ℚ) ≤ b + 1 / 2 ↔ a ≤ b := by
  constructor
  · intro h
    have : (a : ℚ) < ((b + 1 : ℤ) : ℚ) := by push_cast; linarith
    have : a < b + 1 := by exact_mod_cast this
    omega
  · intro h
    have : (a : ℚ) ≤ b := by exact_mod_cast h
    linarith

theorem half_lt_iff' (a b : ℤ) : (a : ℚ) + 1 / 2 < b ↔ a + 1 ≤ b := by
  constructor
  · intro h
    have : (a : ℚ) < (b : ℚ) := by linarith
    have : a < b := by exact_mod_cast this
    omega
  · intro h
    have : ((a + 1 : ℤ) : ℚ) ≤ b := by exact_mod_cast h
    push_cast at this
    linarith

/-! ### masked assignment -/

theorem pos_inj (n : ℕ) {i j i' j' : ℕ} (hj : j < n) (hj' : j' < n) (h : i * n + j = i' * n + j') :
    i = i' ∧ j = j' := by
  have hn : 0 < n := by omega
  have h1 : (i * n + j) / n = i := by
    rw [Nat.mul_comm, Nat.mul_add_div hn, Nat.div_eq_of_lt hj]; simp
  have h2 : (i' * n + j') / n = i' := by
    rw [Nat.mul_comm, Nat.mul_add_div hn, Nat.div_eq_of_lt hj']; simp
  have e : i = i' := by rw [← h1, h, h2]
  subst e
  exact ⟨rfl, by omega⟩

theorem assign_spec (E : Array ℤ) (ncols : ℕ) (dst : List (ℕ × ℕ)) (vals : List ℤ)
    (hlen : vals.length = dst.length) (hnd : dst.Nodup) (hcol : ∀ p ∈ dst, p.2 < ncols)
    (hin : ∀ p ∈ dst, p.1 * ncols + p.2 < E.size) :
    ∃ E', assign E ncols dst vals = .ok E' ∧ E'.size = E.size ∧
      (∀ k (hk : k < dst.length),
        E'[dst[k].1 * ncols + dst[k].2]? = some (vals[k]'(by omega))) ∧
      (∀ i j, j < ncols → (i, j) ∉ dst → E'[i * ncols + j]? = E[i * ncols + j]?) := by
  unfold assign
  rw [if_pos hlen]
  refine ⟨_, rfl, ?_⟩
  set ws' : List (ℕ × ℤ) := (dst.zip vals).map (fun w => (w.1.1 * ncols + w.1.2, w.2)) with hws
  have hfold : (dst.zip vals).foldl (fun a w => a.setIfInBounds (w.1.1 * ncols + w.1.2) w.2) E =
      ws'.foldl (fun a w => a.setIfInBounds w.1 w.2) E := by
    rw [hws, List.foldl_map]
  have hpos : ws'.map (·.1) = dst.map (fun p => p.1 * ncols + p.2) := by
    rw [hws, List.map_map]
    have : ((fun (w : ℕ × ℤ) => w.1) ∘ fun (w : (ℕ × ℕ) × ℤ) => (w.1.1 * ncols + w.1.2, w.2)) =
        (fun p : ℕ × ℕ => p.1 * ncols + p.2) ∘ Prod.fst := by
      funext w; rfl
    rw [this, ← List.map_map, List.map_fst_zip (le_of_eq hlen.symm)]
  have hinj : ∀ x ∈ dst, ∀ y ∈ dst, x.1 * ncols + x.2 = y.1 * ncols + y.2 → x = y := by
    intro x hx y hy h
    obtain ⟨e1, e2⟩ := pos_inj ncols (hcol x hx) (hcol y hy) h
    exact Prod.ext e1 e2
  have hnd' : (ws'.map (·.1)).Nodup := by
    rw [hpos]; exact List.Nodup.map_on hinj hnd
  obtain ⟨hs, hw, hq⟩ := foldl_set_spec ws' hnd' E
  rw [hfold]
  refine ⟨hs, ?_, ?_⟩
  · intro k hk
    have hk' : k < ws'.length := by simp [hws, hlen, hk]
    have hmem : ws'[k] ∈ ws' := List.getElem_mem hk'
    have hval : ws'[k] = (dst[k].1 * ncols + dst[k].2, vals[k]'(by omega)) := by
      simp [hws]
    have hb : dst[k].1 * ncols + dst[k].2 < (ws'.foldl (fun a w => a.setIfInBounds w.1 w.2) E).size := by
      rw [hs]; exact hin _ (List.getElem_mem hk)
    have := hw (dst[k].1 * ncols + dst[k].2, vals[k]'(by omega)) (by rw [← hval]; exact hmem) hb
    exact Array.getElem?_eq_some_iff.mpr ⟨hb, this⟩
  · intro i j hj hnot
    have hq' : i * ncols + j ∉ ws'.map (·.1) := by
      rw [hpos]
      intro hm
      obtain ⟨p, hp, he⟩ := List.mem_map.mp hm
      obtain ⟨e1, e2⟩ := pos_inj ncols (hcol p hp) hj he
      apply hnot
      have : p = (i, j) := Prod.ext e1 e2
      rw [← this]; exact hp
    by_cases hb : i * ncols + j < E.size
    · have hb' : i * ncols + j < (ws'.foldl (fun a w => a.setIfInBounds w.1 w.2) E).size := by
        rw [hs]; exact hb
      rw [Array.getElem?_eq_getElem hb', Array.getElem?_eq_getElem hb, hq _ hq' hb' hb]
    · have hb' : ¬ i * ncols + j < (ws'.foldl (fun a w => a.setIfInBounds w.1 w.2) E).size := by
        rw [hs]; exact hb
      rw [Array.getElem?_eq_none (by omega), Array.getElem?_eq_none (by omega)]

/-! ### the block and the lattice -/

/-- 0-based global row / column of pixel (0, 0) of a tile -/
def rowOff (t : Tile) : ℤ := (90 - t.latMax) * 120
def colOff (t : Tile) : ℤ := (t.lonMin + 180) * 120

/-- the lattice cell (0-based global row `R`, column `C`) belongs to tile `t` -/
def InTile (t : Tile) (R C : ℤ) : Prop :=
  rowOff t ≤ R ∧ R < rowOff t + 6000 ∧ colOff t ≤ C ∧ C < colOff t + 4800

/-- the rectangle spanned by the rows `rF … rL` (1-based) and columns `cF … cL` (0-based) -/
def blockRect (rF rL cF cL : ℤ) : Rect :=
  ⟨90 - (rL : ℚ) / 120, -180 + (cF : ℚ) / 120, 90 - ((rF : ℚ) - 1) / 120, -180 + ((cL : ℚ) + 1) / 120⟩

def latsOf (rF rL : ℤ) : List ℚ := (intRange rF rL).map rowCentre
def lonsOf (cF cL : ℤ) : List ℚ := (intRange cF cL).map colCentre

theorem latsOf_eq (rF rL : ℤ) : latsOf rF rL =
    (List.range (rL + 1 - rF).toNat).map (fun (i : ℕ) => 90 + 1 / 240 - ((rF : ℚ) + i) / 120) := by
  unfold latsOf
  rw [intRange_eq_map]
  apply List.map_congr_left
  intro i _
  simp only [rowCentre, dlat_eq]; push_cast; ring

theorem lonsOf_eq (cF cL : ℤ) : lonsOf cF cL =
    (List.range (cL + 1 - cF).toNat).map (fun (j : ℕ) => -180 + 1 / 240 + ((cF : ℚ) + j) / 120) := by
  unfold lonsOf
  rw [intRange_eq_map]
  apply List.map_congr_left
  intro i _
  simp only [colCentre, dlon_eq]; push_cast; ring

section masks
variable (t : Tile) (rF rL cF cL : ℤ)

theorem rowOff_cast : (rowOff t : ℚ) = (90 - (t.latMax : ℚ)) * 120 := by unfold rowOff; push_cast; ring
theorem colOff_cast : (colOff t : ℚ) = ((t.lonMin : ℚ) + 180) * 120 := by unfold colOff; push_cast; ring

/-- source rows of tile `t`, as global rows -/
theorem srcRows_map (f1 : t.latMax - t.latMin = 50) :
    (selIdx (blockRect rF rL cF cL).latMin (blockRect rF rL cF cL).latMax (tileLats t)).map
        (fun (r : ℕ) => rowOff t + (r : ℤ)) =
      intRange (max (rF - 1) (rowOff t)) (min (rL - 1) (rowOff t + (tileH : ℤ) - 1)) := by
  rw [tileLats_eq t f1, selIdx_map_range]
  apply filter_range_map_eq
  intro i _
  rw [Bool.and_eq_true, decide_eq_true_iff, decide_eq_true_iff]
  simp only [blockRect]
  have c := rowOff_cast t
  have e1 : (90 - (rL : ℚ) / 120 ≤ (t.latMax : ℚ) - 1 / 240 - (i : ℚ) / 120) ↔
      (((rowOff t + i : ℤ) : ℚ) + 1 / 2 ≤ (rL : ℤ)) := by
    push_cast; rw [c]; constructor <;> intro h <;> linarith
  have e2 : ((t.latMax : ℚ) - 1 / 240 - (i : ℚ) / 120 < 90 - ((rF : ℚ) - 1) / 120) ↔
      (((rF - 1 : ℤ) : ℚ) < ((rowOff t + i : ℤ) : ℚ) + 1 / 2) := by
    push_cast; rw [c]; constructor <;> intro h <;> linarith
  rw [e1, e2, half_le_iff, half_lt_iff]
  omega

/-- destination rows for tile `t`, as global rows -/
theorem dstRows_map (f1 : t.latMax - t.latMin = 50) :
    (selIdx t.latMin t.latMax (latsOf rF rL)).map (fun (i : ℕ) => (rF - 1) + (i : ℤ)) =
      intRange (max (rowOff t) (rF - 1)) (min (rowOff t + (tileH : ℤ) - 1) ((rF - 1) + ((rL + 1 - rF).toNat : ℤ) - 1)) := by
  rw [latsOf_eq, selIdx_map_range]
  apply filter_range_map_eq
  intro i _
  simp only [Bool.and_eq_true]
  rw [decide_eq_true_iff, decide_eq_true_iff]
  have c := rowOff_cast t
  have hq : (t.latMin : ℚ) = t.latMax - 50 := by
    have : ((t.latMax - t.latMin : ℤ) : ℚ) = 50 := by rw [f1]; norm_num
    push_cast at this; linarith
  have e1 : ((t.latMin : ℚ) ≤ 90 + 1 / 240 - ((rF : ℚ) + i) / 120) ↔
      (((rF - 1 + i : ℤ) : ℚ) + 1 / 2 ≤ ((rowOff t + 6000 : ℤ) : ℚ)) := by
    push_cast; rw [c, hq]; constructor <;> intro h <;> linarith
  have e2 : (90 + 1 / 240 - ((rF : ℚ) + i) / 120 < (t.latMax : ℚ)) ↔
      (((rowOff t : ℤ) : ℚ) < ((rF - 1 + i : ℤ) : ℚ) + 1 / 2) := by
    push_cast; rw [c]; constructor <;> intro h <;> linarith
  rw [e1, e2, half_le_iff, half_lt_iff]
  unfold tileH
  omega

/-- source columns of tile `t`, as global columns -/
theorem srcCols_map (f2 : t.lonMax - t.lonMin = 40) :
    (selIdx (blockRect rF rL cF cL).lonMin (blockRect rF rL cF cL).lonMax (tileLons t)).map
        (fun (c : ℕ) => colOff t + (c : ℤ)) =
      intRange (max cF (colOff t)) (min cL (colOff t + (tileW : ℤ) - 1)) := by
  rw [tileLons_eq t f2, selIdx_map_range]
  apply filter_range_map_eq
  intro i _
  rw [Bool.and_eq_true, decide_eq_true_iff, decide_eq_true_iff]
  simp only [blockRect]
  have c := colOff_cast t
  have e1 : (-180 + (cF : ℚ) / 120 ≤ (t.lonMin : ℚ) + 1 / 240 + (i : ℚ) / 120) ↔
      (((cF : ℤ) : ℚ) ≤ ((colOff t + i : ℤ) : ℚ) + 1 / 2) := by
    push_cast; rw [c]; constructor <;> intro h <;> linarith
  have e2 : ((t.lonMin : ℚ) + 1 / 240 + (i : ℚ) / 120 < -180 + ((cL : ℚ) + 1) / 120) ↔
      (((colOff t + i : ℤ) : ℚ) + 1 / 2 < ((cL + 1 : ℤ) : ℚ)) := by
    push_cast; rw [c]; constructor <;> intro h <;> linarith
  rw [e1, e2, half_le_iff', half_lt_iff']
  omega

/-- destination columns for tile `t`, as global columns -/
theorem dstCols_map (f2 : t.lonMax - t.lonMin = 40) :
    (selIdx t.lonMin t.lonMax (lonsOf cF cL)).map (fun (j : ℕ) => cF + (j : ℤ)) =
      intRange (max (colOff t) cF) (min (colOff t + (tileW : ℤ) - 1) (cF + ((cL + 1 - cF).toNat : ℤ) - 1)) := by
  rw [lonsOf_eq, selIdx_map_range]
  apply filter_range_map_eq
  intro i _
  simp only [Bool.and_eq_true]
  rw [decide_eq_true_iff, decide_eq_true_iff]
  have c := colOff_cast t
  have hq : (t.lonMax : ℚ) = t.lonMin + 40 := by
    have : ((t.lonMax - t.lonMin : ℤ) : ℚ) = 40 := by rw [f2]; norm_num
    push_cast at this; linarith
  have e1 : ((t.lonMin : ℚ) ≤ -180 + 1 / 240 + ((cF : ℚ) + i) / 120) ↔
      (((colOff t : ℤ) : ℚ) ≤ ((cF + i : ℤ) : ℚ) + 1 / 2) := by
    push_cast; rw [c]; constructor <;> intro h <;> linarith
  have e2 : (-180 + 1 / 240 + ((cF : ℚ) + i) / 120 < (t.lonMax : ℚ)) ↔
      (((cF + i : ℤ) : ℚ) + 1 / 2 < ((colOff t + 4800 : ℤ) : ℚ)) := by
    push_cast; rw [c, hq]; constructor <;> intro h <;> linarith
  rw [e1, e2, half_le_iff', half_lt_iff']
  unfold tileW
  omega

end masks

/-! ### one iteration of the tile loop -/

theorem length_latsOf (rF rL : ℤ) : (latsOf rF rL).length = (rL + 1 - rF).toNat := by
  simp [latsOf, length_intRange]
theorem length_lonsOf (cF cL : ℤ) : (lonsOf cF cL).length = (cL + 1 - cF).toNat := by
  simp [lonsOf, length_intRange]

theorem nodup_of_map_intRange {l : List ℕ} {g : ℕ → ℤ} {a b : ℤ} (h : l.map g = intRange a b) : l.Nodup := by
  apply List.Nodup.of_map g
  rw [h]
  exact (pairwise_intRange a b).imp (fun h => ne_of_lt h)

theorem mem_of_map_intRange {l : List ℕ} {off a b : ℤ} (h : l.map (fun (i : ℕ) => off + (i : ℤ)) = intRange a b)
    (i : ℕ) : i ∈ l ↔ a ≤ off + i ∧ off + i ≤ b := by
  rw [← mem_intRange, ← h, List.mem_map]
  constructor
  · intro hi; exact ⟨i, hi, rfl⟩
  · rintro ⟨i', hi', he⟩
    have : i' = i := by omega
    rw [← this]; exact hi'

theorem elevStep_def (pix : Tile → ℕ → ℕ → ℤ) (latsD lonsD : List ℚ) (r' : Rect) (E : Array ℤ) (t : Tile) :
    elevStep pix latsD lonsD r' E t =
      assign E lonsD.length
        (cells (selIdx t.latMin t.latMax latsD) (selIdx t.lonMin t.lonMax lonsD))
        ((cells (selIdx r'.latMin r'.latMax (tileLats t)) (selIdx r'.lonMin r'.lonMax (tileLons t))).map
          (fun p => pix t p.1 p.2)) := rfl

theorem elevStep_spec (pix : Tile → ℕ → ℕ → ℤ) (t : Tile) (ht : t ∈ tiles)
    (rF rL cF cL : ℤ) (hr : rF ≤ rL) (hc : cF ≤ cL) (E : Array ℤ)
    (hE : E.size = (latsOf rF rL).length * (lonsOf cF cL).length) :
    ∃ E', elevStep pix (latsOf rF rL) (lonsOf cF cL) (blockRect rF rL cF cL) E t = .ok E' ∧
      E'.size = E.size ∧
      ∀ i, i < (latsOf rF rL).length → ∀ j, j < (lonsOf cF cL).length →
        (InTile t (rF - 1 + i) (cF + j) →
          E'[i * (lonsOf cF cL).length + j]? =
            some (pix t (rF - 1 + i - rowOff t).toNat (cF + j - colOff t).toNat)) ∧
        (¬ InTile t (rF - 1 + i) (cF + j) →
          E'[i * (lonsOf cF cL).length + j]? = E[i * (lonsOf cF cL).length + j]?) := by
  obtain ⟨f1, f2, -, -, -, -⟩ := tiles_facts t ht
  have hsR := srcRows_map t rF rL cF cL f1
  have hdR := dstRows_map t rF rL f1
  have hsC := srcCols_map t rF rL cF cL f2
  have hdC := dstCols_map t cF cL f2
  have hnlat := length_latsOf rF rL
  have hnlon := length_lonsOf cF cL
  simp only [elevStep_def]
  generalize selIdx (blockRect rF rL cF cL).latMin (blockRect rF rL cF cL).latMax (tileLats t) = sR at hsR ⊢
  generalize selIdx (blockRect rF rL cF cL).lonMin (blockRect rF rL cF cL).lonMax (tileLons t) = sC at hsC ⊢
  generalize selIdx t.latMin t.latMax (latsOf rF rL) = dR at hdR ⊢
  generalize selIdx t.lonMin t.lonMax (lonsOf cF cL) = dC at hdC ⊢
  generalize (latsOf rF rL).length = nlat at hnlat hE ⊢
  generalize (lonsOf cF cL).length = nlon at hnlon hE ⊢
  have eR : intRange (max (rF - 1) (rowOff t)) (min (rL - 1) (rowOff t + (tileH : ℤ) - 1)) =
      intRange (max (rowOff t) (rF - 1)) (min (rowOff t + (tileH : ℤ) - 1) ((rF - 1) + ((rL + 1 - rF).toNat : ℤ) - 1)) := by
    have a1 : max (rF - 1) (rowOff t) = max (rowOff t) (rF - 1) := max_comm _ _
    have a2 : min (rL - 1) (rowOff t + (tileH : ℤ) - 1) =
        min (rowOff t + (tileH : ℤ) - 1) ((rF - 1) + ((rL + 1 - rF).toNat : ℤ) - 1) := by omega
    rw [a1, a2]
  have eC : intRange (max cF (colOff t)) (min cL (colOff t + (tileW : ℤ) - 1)) =
      intRange (max (colOff t) cF) (min (colOff t + (tileW : ℤ) - 1) (cF + ((cL + 1 - cF).toNat : ℤ) - 1)) := by
    have a1 : max cF (colOff t) = max (colOff t) cF := max_comm _ _
    have a2 : min cL (colOff t + (tileW : ℤ) - 1) =
        min (colOff t + (tileW : ℤ) - 1) (cF + ((cL + 1 - cF).toNat : ℤ) - 1) := by omega
    rw [a1, a2]
  have hRows : sR.map (fun (r : ℕ) => rowOff t + (r : ℤ)) = dR.map (fun (i : ℕ) => (rF - 1) + (i : ℤ)) := by
    rw [hsR, hdR, eR]
  have hCols : sC.map (fun (c : ℕ) => colOff t + (c : ℤ)) = dC.map (fun (j : ℕ) => cF + (j : ℤ)) := by
    rw [hsC, hdC, eC]
  have hcells : (cells sR sC).map (fun p => (rowOff t + (p.1 : ℤ), colOff t + (p.2 : ℤ))) =
      (cells dR dC).map (fun p => ((rF - 1) + (p.1 : ℤ), cF + (p.2 : ℤ))) := by
    rw [cells_map sR sC (fun (r : ℕ) => rowOff t + (r : ℤ)) (fun (c : ℕ) => colOff t + (c : ℤ)),
      cells_map dR dC (fun (i : ℕ) => (rF - 1) + (i : ℤ)) (fun (j : ℕ) => cF + (j : ℤ)), hRows, hCols]
  have hlen : (cells sR sC).length = (cells dR dC).length := by
    simpa using congrArg List.length hcells
  have mdR := mem_of_map_intRange hdR
  have mdC := mem_of_map_intRange hdC
  have ndR : dR.Nodup := nodup_of_map_intRange hdR
  have ndC : dC.Nodup := nodup_of_map_intRange hdC
  have hnd : (cells dR dC).Nodup := List.Nodup.product ndR ndC
  have hcol : ∀ p ∈ cells dR dC, p.2 < nlon := by
    intro p hp
    have := (mdC p.2).mp (mem_cells.mp hp).2
    omega
  have hin : ∀ p ∈ cells dR dC, p.1 * nlon + p.2 < E.size := by
    intro p hp
    have h1 := (mdR p.1).mp (mem_cells.mp hp).1
    have h2 := hcol p hp
    have h3 : p.1 < nlat := by omega
    rw [hE]
    calc p.1 * nlon + p.2 < p.1 * nlon + nlon := by omega
      _ = (p.1 + 1) * nlon := by ring
      _ ≤ nlat * nlon := Nat.mul_le_mul_right _ (by omega)
  obtain ⟨E', h1, h2, h3, h4⟩ := assign_spec E nlon (cells dR dC)
    ((cells sR sC).map (fun p => pix t p.1 p.2)) (by simp [hlen]) hnd hcol hin
  refine ⟨E', h1, h2, ?_⟩
  intro i hi j hj
  constructor
  · intro hT
    obtain ⟨t1, t2, t3, t4⟩ := hT
    have hiR : i ∈ dR := (mdR i).mpr (by unfold tileH; omega)
    have hjC : j ∈ dC := (mdC j).mpr (by unfold tileW; omega)
    have hmem : (i, j) ∈ cells dR dC := mem_cells.mpr ⟨hiR, hjC⟩
    obtain ⟨k, hk, hke⟩ := List.mem_iff_getElem.mp hmem
    have hk' : k < ((cells sR sC).map (fun p => (rowOff t + (p.1 : ℤ), colOff t + (p.2 : ℤ)))).length := by
      simp [hlen, hk]
    have hks : k < (cells sR sC).length := by rw [hlen]; exact hk
    have hg : (rowOff t + (((cells sR sC)[k]'hks).1 : ℤ), colOff t + (((cells sR sC)[k]'hks).2 : ℤ)) =
        ((rF - 1) + (i : ℤ), cF + (j : ℤ)) := by
      have := List.getElem_of_eq hcells hk'
      simpa only [List.getElem_map, hke] using this
    have hv := h3 k hk
    rw [List.getElem_map] at hv
    simp only [hke] at hv
    generalize (cells sR sC)[k]'hks = p at hg hv
    obtain ⟨p1, p2⟩ := p
    simp only [Prod.mk.injEq] at hg
    rw [hv]
    have ea : p1 = (rF - 1 + (i : ℤ) - rowOff t).toNat := by omega
    have eb : p2 = (cF + (j : ℤ) - colOff t).toNat := by omega
    rw [ea, eb]
  · intro hT
    apply h4 i j hj
    intro hmem
    apply hT
    have a := (mdR i).mp (mem_cells.mp hmem).1
    have b := (mdC j).mp (mem_cells.mp hmem).2
    unfold tileH at a
    unfold tileW at b
    unfold InTile
    omega

/-! ### the whole loop -/

theorem inTile_disjoint {t t' : Tile} (ht : t ∈ tiles) (ht' : t' ∈ tiles) (hne : t ≠ t') (R C : ℤ) :
    ¬ (InTile t R C ∧ InTile t' R C) := by
  obtain ⟨f1, f2, -⟩ := tiles_facts t ht
  obtain ⟨g1, g2, -⟩ := tiles_facts t' ht'
  have := tiles_disjoint t ht t' ht' hne
  unfold InTile rowOff colOff
  omega

theorem foldlM_spec (pix : Tile → ℕ → ℕ → ℤ) (rF rL cF cL : ℤ) (hr : rF ≤ rL) (hc : cF ≤ cL) :
    ∀ (ts : List Tile), (∀ t ∈ ts, t ∈ tiles) → ts.Nodup → ∀ (E : Array ℤ),
      E.size = (latsOf rF rL).length * (lonsOf cF cL).length →
      ∃ E', ts.foldlM (elevStep pix (latsOf rF rL) (lonsOf cF cL) (blockRect rF rL cF cL)) E = .ok E' ∧
        E'.size = E.size ∧
        ∀ i, i < (latsOf rF rL).length → ∀ j, j < (lonsOf cF cL).length →
          (∀ t ∈ ts, InTile t (rF - 1 + i) (cF + j) →
            E'[i * (lonsOf cF cL).length + j]? =
              some (pix t (rF - 1 + i - rowOff t).toNat (cF + j - colOff t).toNat)) ∧
          ((∀ t ∈ ts, ¬ InTile t (rF - 1 + i) (cF + j)) →
            E'[i * (lonsOf cF cL).length + j]? = E[i * (lonsOf cF cL).length + j]?) := by
  intro ts
  induction ts with
  | nil =>
    intro _ _ E _
    exact ⟨E, rfl, rfl, fun i _ j _ => ⟨fun t ht => by simp at ht, fun _ => rfl⟩⟩
  | cons t ts ih =>
    intro hts hnd E hE
    have htt : t ∈ tiles := hts t List.mem_cons_self
    obtain ⟨E1, s1, s2, s3⟩ := elevStep_spec pix t htt rF rL cF cL hr hc E hE
    have hnd' := List.nodup_cons.mp hnd
    obtain ⟨E', r1, r2, r3⟩ := ih (fun t' ht' => hts t' (List.mem_cons_of_mem _ ht')) hnd'.2 E1
      (by rw [s2]; exact hE)
    refine ⟨E', ?_, by rw [r2, s2], ?_⟩
    · rw [List.foldlM_cons, s1]; exact r1
    · intro i hi j hj
      obtain ⟨a1, a2⟩ := s3 i hi j hj
      obtain ⟨b1, b2⟩ := r3 i hi j hj
      constructor
      · intro t0 ht0 hin
        rcases List.mem_cons.mp ht0 with rfl | ht0
        · rw [b2 (fun t' ht' hin' => inTile_disjoint htt (hts t' (List.mem_cons_of_mem _ ht'))
            (fun e => hnd'.1 (e ▸ ht')) _ _ ⟨hin, hin'⟩)]
          exact a1 hin
        · exact b1 t0 ht0 hin
      · intro hnone
        rw [b2 (fun t' ht' => hnone t' (List.mem_cons_of_mem _ ht')), a2 (hnone t List.mem_cons_self)]

/-- every cell of the covered lattice lies in a tile of the table -/
theorem tile_of_cell (R C : ℤ) (hR0 : 0 ≤ R) (hR1 : R < 18000) (hC0 : 0 ≤ C) (hC1 : C < 43200) :
    ∃ t ∈ tiles, InTile t R C := by
  obtain ⟨t, ht, h1, h2⟩ := tiles_cover (R / 6000).toNat (List.mem_range.mpr (by omega))
    (C / 4800).toNat (List.mem_range.mpr (by omega))
  refine ⟨t, ht, ?_⟩
  unfold InTile rowOff colOff
  omega

theorem mem_getTiles_iff (r : Rect) (h1 : -180 ≤ r.lonMin) (h2 : r.lonMin < 180)
    (h3 : -180 < r.lonMax) (h4 : r.lonMax ≤ 180) (t : Tile) :
    t ∈ getTiles r ↔ t ∈ tiles ∧ max r.latMin (t.latMin : ℚ) < min r.latMax (t.latMax : ℚ) ∧
      max r.lonMin (t.lonMin : ℚ) < min r.lonMax (t.lonMax : ℚ) := by
  unfold getTiles
  simp only [List.mem_filter, normLonMin_id h1 h2, normLonMax_id h3 h4, doOverlap, boundsRect,
    Bool.and_eq_true, decide_eq_true_eq]
  constructor
  · rintro ⟨a, b, c⟩; exact ⟨a, of_decide_eq_true b, c⟩
  · rintro ⟨a, b, c⟩; exact ⟨a, decide_eq_true b, c⟩

theorem rowCentre_anti {a b : ℤ} (h : a ≤ b) : rowCentre b ≤ rowCentre a := by
  unfold rowCentre; rw [dlat_eq]
  have : (a : ℚ) ≤ b := by exact_mod_cast h
  linarith

theorem colCentre_mono {a b : ℤ} (h : a ≤ b) : colCentre a ≤ colCentre b := by
  unfold colCentre; rw [dlon_eq]
  have : (a : ℚ) ≤ b := by exact_mod_cast h
  linarith

theorem min_max_latsOf {rF rL : ℤ} (h : rF ≤ rL) :
    listMin (latsOf rF rL) = some (rowCentre rL) ∧ listMax (latsOf rF rL) = some (rowCentre rF) := by
  constructor
  · apply listMin_eq
    · exact List.mem_map_of_mem (mem_intRange.mpr ⟨h, le_refl _⟩)
    · intro x hx
      obtain ⟨k, hk, rfl⟩ := List.mem_map.mp hx
      exact rowCentre_anti (mem_intRange.mp hk).2
  · apply listMax_eq
    · exact List.mem_map_of_mem (mem_intRange.mpr ⟨le_refl _, h⟩)
    · intro x hx
      obtain ⟨k, hk, rfl⟩ := List.mem_map.mp hx
      exact rowCentre_anti (mem_intRange.mp hk).1

theorem min_max_lonsOf {cF cL : ℤ} (h : cF ≤ cL) :
    listMin (lonsOf cF cL) = some (colCentre cF) ∧ listMax (lonsOf cF cL) = some (colCentre cL) := by
  constructor
  · apply listMin_eq
    · exact List.mem_map_of_mem (mem_intRange.mpr ⟨le_refl _, h⟩)
    · intro x hx
      obtain ⟨k, hk, rfl⟩ := List.mem_map.mp hx
      exact colCentre_mono (mem_intRange.mp hk).1
  · apply listMax_eq
    · exact List.mem_map_of_mem (mem_intRange.mpr ⟨h, le_refl _⟩)
    · intro x hx
      obtain ⟨k, hk, rfl⟩ := List.mem_map.mp hx
      exact colCentre_mono (mem_intRange.mp hk).2

theorem block_eq (rF rL cF cL : ℤ) :
    (⟨rowCentre rL - (1 / 2) * dlat, colCentre cF - (1 / 2) * dlon, rowCentre rF + (1 / 2) * dlat,
      colCentre cL + (1 / 2) * dlon⟩ : Rect) = blockRect rF rL cF cL := by
  simp only [blockRect, rowCentre, colCentre, dlat_eq, dlon_eq, Rect.mk.injEq]
  refine ⟨by ring, by ring, by ring, by ring⟩

/-- a tile containing a cell of the block is among `get_tiles` of the block -/
theorem tile_mem_getTiles {t : Tile} (ht : t ∈ tiles) {rF rL cF cL : ℤ} (h0 : 0 ≤ cF) (h1 : cL ≤ 43199)
    {R C : ℤ} (hR : rF - 1 ≤ R ∧ R ≤ rL - 1) (hC : cF ≤ C ∧ C ≤ cL) (hin : InTile t R C) :
    t ∈ getTiles (blockRect rF rL cF cL) := by
  obtain ⟨f1, f2, -⟩ := tiles_facts t ht
  obtain ⟨i1, i2, i3, i4⟩ := hin
  have c0 : (0 : ℚ) ≤ cF := by exact_mod_cast h0
  have c1 : (cL : ℚ) ≤ 43199 := by exact_mod_cast h1
  have c2 : (cF : ℚ) ≤ cL := by
    have : cF ≤ cL := by omega
    exact_mod_cast this
  rw [mem_getTiles_iff _ (by simp only [blockRect]; linarith) (by simp only [blockRect]; linarith)
    (by simp only [blockRect]; linarith) (by simp only [blockRect]; linarith)]
  refine ⟨ht, ?_, ?_⟩
  · have a1 : ((rF - 1 : ℤ) : ℚ) < (rL : ℤ) := by
      have : rF - 1 < rL := by omega
      exact_mod_cast this
    have a2 : ((rowOff t : ℤ) : ℚ) < (rL : ℤ) := by
      have : rowOff t < rL := by omega
      exact_mod_cast this
    have a3 : ((rF - 1 : ℤ) : ℚ) < ((rowOff t + 6000 : ℤ) : ℚ) := by
      have : rF - 1 < rowOff t + 6000 := by omega
      exact_mod_cast this
    have a4 : (t.latMin : ℚ) = t.latMax - 50 := by
      have : ((t.latMax - t.latMin : ℤ) : ℚ) = 50 := by rw [f1]; norm_num
      push_cast at this; linarith
    have c := rowOff_cast t
    push_cast at a1 a3
    simp only [blockRect]
    apply max_lt <;> apply lt_min <;> linarith
  · have a1 : ((cF : ℤ) : ℚ) < ((cL + 1 : ℤ) : ℚ) := by
      have : cF < cL + 1 := by omega
      exact_mod_cast this
    have a2 : ((colOff t : ℤ) : ℚ) < ((cL + 1 : ℤ) : ℚ) := by
      have : colOff t < cL + 1 := by omega
      exact_mod_cast this
    have a3 : ((cF : ℤ) : ℚ) < ((colOff t + 4800 : ℤ) : ℚ) := by
      have : cF < colOff t + 4800 := by omega
      exact_mod_cast this
    have a4 : (t.lonMax : ℚ) = t.lonMin + 40 := by
      have : ((t.lonMax - t.lonMin : ℤ) : ℚ) = 40 := by rw [f2]; norm_num
      push_cast at this; linarith
    have c := colOff_cast t
    push_cast at a1 a2 a3
    simp only [blockRect]
    apply max_lt <;> apply lt_min <;> linarith

/-- `elevation` on a valid rectangle: it succeeds, returns the native grids, and every entry is
the pixel of a tile (one of `get_tiles` of the block) at the same cell of the global lattice -/
theorem elevation_spec (pix : Tile → ℕ → ℕ → ℤ) (r : Rect) (hv : Valid r) :
    ∃ E, elevation pix r = .ok ((nativeGrids r).1, (nativeGrids r).2, E) ∧
      E.size = (nativeGrids r).1.length * (nativeGrids r).2.length ∧
      ∀ i, i < (nativeGrids r).1.length → ∀ j, j < (nativeGrids r).2.length →
        ∃ t ∈ getTiles (blockRect (rF r) (rL r) (cF r) (cL r)),
          InTile t (rF r - 1 + i) (cF r + j) ∧
          E[i * (nativeGrids r).2.length + j]? =
            some (pix t (rF r - 1 + i - rowOff t).toNat (cF r + j - colOff t).toNat) := by
  have s := grids_shape r hv
  have hg : nativeGrids r = (latsOf (rF r) (rL r), lonsOf (cF r) (cL r)) := nativeGrids_eq r
  obtain ⟨m1, m2⟩ := min_max_latsOf s.rows_le
  obtain ⟨m3, m4⟩ := min_max_lonsOf s.cols_le
  have hts : ∀ t ∈ getTiles (blockRect (rF r) (rL r) (cF r) (cL r)), t ∈ tiles := by
    intro t ht; unfold getTiles at ht; exact (List.mem_filter.mp ht).1
  have hnd : (getTiles (blockRect (rF r) (rL r) (cF r) (cL r))).Nodup := by
    unfold getTiles; exact (List.filter_sublist).nodup tiles_nodup
  obtain ⟨E', f1, f2, f3⟩ := foldlM_spec pix _ _ _ _ s.rows_le s.cols_le _ hts hnd
    (Array.replicate ((latsOf (rF r) (rL r)).length * (lonsOf (cF r) (cL r)).length) 0) (by simp)
  have he : elevation pix r = .ok (latsOf (rF r) (rL r), lonsOf (cF r) (cL r), E') := by
    unfold elevation
    rw [hg]
    simp only [m1, m2, m3, m4, block_eq, f1]
  rw [hg]
  refine ⟨E', he, by rw [f2]; simp, ?_⟩
  intro i hi j hj
  simp only at hi hj ⊢
  have hi' := hi
  have hj' := hj
  rw [length_latsOf] at hi'
  rw [length_lonsOf] at hj'
  have b1 := s.rF_pos
  have b2 := s.rL_le
  have b3 := s.cF_nonneg
  have b4 := s.cL_le
  obtain ⟨t, ht, hin⟩ := tile_of_cell (rF r - 1 + i) (cF r + j) (by omega) (by omega) (by omega) (by omega)
  have hm := tile_mem_getTiles ht b3 b4 (R := rF r - 1 + i) (C := cF r + j) (rF := rF r) (rL := rL r)
    ⟨by omega, by omega⟩ ⟨by omega, by omega⟩ hin
  exact ⟨t, hm, hin, (f3 i hi j hj).1 t hm hin⟩

/-- the centre of lattice cell (R, C) lies in the half-open rectangle of tile `t` (the test of the
destination mask) iff the cell belongs to the tile -/
theorem centre_in_tile_iff (t : Tile) (ht : t ∈ tiles) (R C : ℤ) :
    ((t.latMin : ℚ) ≤ rowCentre (R + 1) ∧ rowCentre (R + 1) < t.latMax ∧
      (t.lonMin : ℚ) ≤ colCentre C ∧ colCentre C < t.lonMax) ↔ InTile t R C := by
  obtain ⟨f1, f2, -⟩ := tiles_facts t ht
  have c := rowOff_cast t
  have d := colOff_cast t
  have hq : (t.latMin : ℚ) = t.latMax - 50 := by
    have : ((t.latMax - t.latMin : ℤ) : ℚ) = 50 := by rw [f1]; norm_num
    push_cast at this; linarith
  have hq' : (t.lonMax : ℚ) = t.lonMin + 40 := by
    have : ((t.lonMax - t.lonMin : ℤ) : ℚ) = 40 := by rw [f2]; norm_num
    push_cast at this; linarith
  have e1 : ((t.latMin : ℚ) ≤ rowCentre (R + 1)) ↔ (((R : ℤ) : ℚ) + 1 / 2 ≤ ((rowOff t + 6000 : ℤ) : ℚ)) := by
    unfold rowCentre; rw [dlat_eq]; push_cast; rw [c, hq]; constructor <;> intro h <;> linarith
  have e2 : (rowCentre (R + 1) < (t.latMax : ℚ)) ↔ (((rowOff t : ℤ) : ℚ) < ((R : ℤ) : ℚ) + 1 / 2) := by
    unfold rowCentre; rw [dlat_eq]; push_cast; rw [c]; constructor <;> intro h <;> linarith
  have e3 : ((t.lonMin : ℚ) ≤ colCentre C) ↔ (((colOff t : ℤ) : ℚ) ≤ ((C : ℤ) : ℚ) + 1 / 2) := by
    unfold colCentre; rw [dlon_eq, d]; constructor <;> intro h <;> linarith
  have e4 : (colCentre C < (t.lonMax : ℚ)) ↔ (((C : ℤ) : ℚ) + 1 / 2 < ((colOff t + 4800 : ℤ) : ℚ)) := by
    unfold colCentre; rw [dlon_eq]; push_cast; rw [d, hq']; constructor <;> intro h <;> linarith
  rw [e1, e2, e3, e4, half_le_iff, half_lt_iff, half_le_iff', half_lt_iff']
  unfold InTile
  omega

/-! ### the cache threaded through the loop -/

theorem foldl_stepC (pix : Tile → ℕ → ℕ → ℤ) (latsD lonsD : List ℚ) (r' : Rect) :
    ∀ (ts : List Tile) (E : Array ℤ) (c d : List ℕ) (E' : Array ℤ),
      ts.foldlM (elevStep pix latsD lonsD r') E = .ok E' →
      ts.foldl (elevStepC pix latsD lonsD r') (.ok E, c, d) =
        (.ok E', (runRequests c (ts.map tileId)).1, d ++ (runRequests c (ts.map tileId)).2) := by
  intro ts
  induction ts with
  | nil =>
    intro E c d E' h
    have : E = E' := by
      have h' : (Except.ok E : Except Err (Array ℤ)) = .ok E' := h
      exact Except.ok.inj h'
    simp [runRequests, this]
  | cons t ts ih =>
    intro E c d E' h
    rw [List.foldlM_cons] at h
    cases hs : elevStep pix latsD lonsD r' E t with
    | error e =>
      rw [hs] at h
      exact absurd h (by intro h'; cases h')
    | ok E1 =>
      rw [hs] at h
      have h1 : ts.foldlM (elevStep pix latsD lonsD r') E1 = .ok E' := h
      rw [List.foldl_cons]
      have hstep : elevStepC pix latsD lonsD r' (.ok E, c, d) t =
          (.ok E1, (getTile c (tileId t)).1,
            if (getTile c (tileId t)).2 then d ++ [tileId t] else d) := by
        simp only [elevStepC, hs]
      rw [hstep, ih E1 _ _ E' h1]
      simp only [List.map_cons, runRequests]
      cases hg : (getTile c (tileId t)).2 <;> simp

/-- `elevation` with the cache: same result as `elevation`, and the cache evolves as
`runRequests` on the names of `get_tiles` of the block -/
theorem elevationC_spec (cache : List ℕ) (pix : Tile → ℕ → ℕ → ℤ) (r : Rect) (hv : Valid r) :
    elevationC cache pix r =
      (elevation pix r,
        runRequests cache ((getTiles (blockRect (rF r) (rL r) (cF r) (cL r))).map tileId)) := by
  have s := grids_shape r hv
  have hg : nativeGrids r = (latsOf (rF r) (rL r), lonsOf (cF r) (cL r)) := nativeGrids_eq r
  obtain ⟨m1, m2⟩ := min_max_latsOf s.rows_le
  obtain ⟨m3, m4⟩ := min_max_lonsOf s.cols_le
  have hts : ∀ t ∈ getTiles (blockRect (rF r) (rL r) (cF r) (cL r)), t ∈ tiles := by
    intro t ht; unfold getTiles at ht; exact (List.mem_filter.mp ht).1
  have hnd : (getTiles (blockRect (rF r) (rL r) (cF r) (cL r))).Nodup := by
    unfold getTiles; exact (List.filter_sublist).nodup tiles_nodup
  obtain ⟨E', f1, -, -⟩ := foldlM_spec pix _ _ _ _ s.rows_le s.cols_le _ hts hnd
    (Array.replicate ((latsOf (rF r) (rL r)).length * (lonsOf (cF r) (cL r)).length) 0) (by simp)
  have he : elevation pix r = .ok (latsOf (rF r) (rL r), lonsOf (cF r) (cL r), E') := by
    unfold elevation
    rw [hg]
    simp only [m1, m2, m3, m4, block_eq, f1]
  have hc := foldl_stepC pix (latsOf (rF r) (rL r)) (lonsOf (cF r) (cL r))
    (blockRect (rF r) (rL r) (cF r) (cL r)) _ _ cache [] E' f1
  rw [he]
  unfold elevationC
  rw [hg]
  simp only [m1, m2, m3, m4, block_eq, hc, List.nil_append]

end Srtm
