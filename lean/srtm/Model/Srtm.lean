/-!
# Model of `typhon/topography.py` (SRTM30), exact rational arithmetic, core Lean only

Every definition mirrors one piece of the anchored Python code (after the two `fix:` commits):

| Python                                   | here                                   |
|------------------------------------------|----------------------------------------|
| `_dlat = 50.0/6000`, `_dlon = 40.0/4800` | `dlat`, `dlon` (exact: 1/120)          |
| `SRTM30._tiles`                          | `tiles` (+ `tileNames`, same order)    |
| `_do_overlap`                            | `doOverlap`                            |
| `get_tiles` (`% 360` normalisation)      | `pymod`, `normLonMin/Max`, `getTiles`  |
| `get_bounds`                             | `boundsRect`                           |
| `get_grids` (`np.linspace`, `[::-1]`)    | `linspace`, `tileLats`, `tileLons`     |
| `get_native_grids`                       | `nativeRows`, `nativeCols`, `nativeGrids` |
| masks of `elevation`                     | `selIdx`, `cells` (row-major order of the True cells of an outer AND) |
| `elevation[inds_d] = dem[inds_s]`        | `assign` (numpy: equal counts, or broadcast of one value, else ValueError) |
| `elevation`                              | `elevation`                            |
| `get_tile` / `download_tile`             | `getTile`, `runRequests`               |

Numbers are exact rationals; what IEEE doubles do to `(90 - lat)/_dlat` is outside the model
(validated by the harness on all grid-aligned edges).
-/

namespace Srtm

/-- `_tile_height`, `_tile_width` -/
def tileH : Nat := 6000
def tileW : Nat := 4800
/-- `_dlat = 50.0 / _tile_height` -/
def dlat : Rat := 50 / 6000
/-- `_dlon = 40.0 / _tile_width` -/
def dlon : Rat := 40 / 4800

/-- one row of `SRTM30._tiles` without its name: `(lat_min, lon_min, lat_max, lon_max)` in degrees -/
structure Tile where
  latMin : Int
  lonMin : Int
  latMax : Int
  lonMax : Int
deriving DecidableEq, Repr

/-- `SRTM30._tiles`, same order -/
def tiles : List Tile :=
  [⟨40, -180, 90, -140⟩, ⟨40, -140, 90, -100⟩, ⟨40, -100, 90, -60⟩, ⟨40, -60, 90, -20⟩,
   ⟨40, -20, 90, 20⟩, ⟨40, 20, 90, 60⟩, ⟨40, 60, 90, 100⟩, ⟨40, 100, 90, 140⟩, ⟨40, 140, 90, 180⟩,
   ⟨-10, -180, 40, -140⟩, ⟨-10, -140, 40, -100⟩, ⟨-10, -100, 40, -60⟩, ⟨-10, -60, 40, -20⟩,
   ⟨-10, -20, 40, 20⟩, ⟨-10, 20, 40, 60⟩, ⟨-10, 60, 40, 100⟩, ⟨-10, 100, 40, 140⟩, ⟨-10, 140, 40, 180⟩,
   ⟨-60, -180, -10, -140⟩, ⟨-60, -140, -10, -100⟩, ⟨-60, -100, -10, -60⟩, ⟨-60, -60, -10, -20⟩,
   ⟨-60, -20, -10, 20⟩, ⟨-60, 20, -10, 60⟩, ⟨-60, 60, -10, 100⟩, ⟨-60, 100, -10, 140⟩, ⟨-60, 140, -10, 180⟩]

/-- names of `SRTM30._tiles`, same order as `tiles` (only the driver uses them) -/
def tileNames : List String :=
  ["w180n90", "w140n90", "w100n90", "w060n90", "w020n90", "e020n90", "e060n90", "e100n90", "e140n90",
   "w180n40", "w140n40", "w100n40", "w060n40", "w020n40", "e020n40", "e060n40", "e100n40", "e140n40",
   "w180s10", "w140s10", "w100s10", "w060s10", "w020s10", "e020s10", "e060s10", "e100s10", "e140s10"]

/-- a rectangle `(lat_min, lon_min, lat_max, lon_max)` -/
structure Rect where
  latMin : Rat
  lonMin : Rat
  latMax : Rat
  lonMax : Rat
deriving Repr

/-- `get_bounds(name)` as a rectangle -/
def boundsRect (t : Tile) : Rect := ⟨t.latMin, t.lonMin, t.latMax, t.lonMax⟩

/-- `_do_overlap` : strict inequalities on the intersection -/
def doOverlap (a b : Rect) : Bool :=
  let latMin := max a.latMin b.latMin
  let lonMin := max a.lonMin b.lonMin
  let latMax := min a.latMax b.latMax
  let lonMax := min a.lonMax b.lonMax
  decide (latMin < latMax) && decide (lonMin < lonMax)

/-- Python's `x % m` for `m > 0` (result in `[0, m)`) -/
def pymod (x m : Rat) : Rat := x - m * ((x / m).floor : Rat)

/-- `lon_min = lon_min % 360; if lon_min >= 180: lon_min -= 360` -/
def normLonMin (x : Rat) : Rat :=
  let y := pymod x 360
  if y ≥ 180 then y - 360 else y

/-- `lon_max = lon_max % 360; if lon_max > 180: lon_max -= 360` -/
def normLonMax (x : Rat) : Rat :=
  let y := pymod x 360
  if y > 180 then y - 360 else y

/-- `get_tiles` : the tiles (in table order) that `_do_overlap` with the normalised rectangle -/
def getTiles (r : Rect) : List Tile :=
  let r' : Rect := ⟨r.latMin, normLonMin r.lonMin, r.latMax, normLonMax r.lonMax⟩
  tiles.filter (fun t => doOverlap r' (boundsRect t))

/-- `np.linspace(start, stop, n)[k]` (exact) -/
def linspace (start stop : Rat) (n : Nat) (k : Nat) : Rat :=
  start + (k : Rat) * ((stop - start) / ((n : Rat) - 1))

/-- `get_grids(name)[0]` : `np.linspace(lat_min + dlat/2, lat_max - dlat/2, 6000)[::-1]` -/
def tileLats (t : Tile) : List Rat :=
  ((List.range tileH).map (linspace ((t.latMin : Rat) + (1/2) * dlat) ((t.latMax : Rat) - (1/2) * dlat) tileH)).reverse

/-- `get_grids(name)[1]` -/
def tileLons (t : Tile) : List Rat :=
  (List.range tileW).map (linspace ((t.lonMin : Rat) + (1/2) * dlon) ((t.lonMax : Rat) - (1/2) * dlon) tileW)

/-- `np.trunc` -/
def trunc (x : Rat) : Int := if 0 ≤ x then x.floor else x.ceil

/-- `np.arange(lo, hi + 1)` for integral `lo`, `hi` -/
def intRange (lo hi : Int) : List Int :=
  (List.range (hi + 1 - lo).toNat).map (fun (n : Nat) => lo + (n : Int))

/-- centre of the global row with 1-based index `k` counted from 90° N:
`90 + 0.5 * dlat - k * dlat` -/
def rowCentre (k : Int) : Rat := 90 + (1/2) * dlat - (k : Rat) * dlat

/-- centre of the global column with 0-based index `k` counted from 180° W:
`-180 + 0.5 * dlon + k * dlon` -/
def colCentre (k : Int) : Rat := -180 + (1/2) * dlon + (k : Rat) * dlon

/-- `(i_max, i_min)` of `get_native_grids` : first and last global row (1-based) -/
def nativeRows (latMin latMax : Rat) : Int × Int :=
  let i := (90 - latMax) / dlat
  let iMax := i.floor + 1
  let i' := (90 - latMin) / dlat
  let iMin := i'.ceil
  (iMax, iMin)

/-- `(j_min, j_max)` of `get_native_grids` : first and last global column (0-based) -/
def nativeCols (lonMin lonMax : Rat) : Int × Int :=
  let j := (lonMax + 180) / dlon
  let jMax := trunc j
  let jMax := if ¬ ((jMax : Rat) < j) then jMax - 1 else jMax
  let jMin := trunc ((lonMin + 180) / dlon)
  (jMin, jMax)

/-- `get_native_grids` -/
def nativeGrids (r : Rect) : List Rat × List Rat :=
  let (iMax, iMin) := nativeRows r.latMin r.latMax
  let (jMin, jMax) := nativeCols r.lonMin r.lonMax
  ((intRange iMax iMin).map rowCentre, (intRange jMin jMax).map colCentre)

inductive Err where
  | valueError
deriving DecidableEq, Repr

/-- `xs.min()` / `xs.max()` of a 1-d array (`ValueError` on an empty one) -/
def listMin : List Rat → Option Rat
  | [] => none
  | x :: xs => some (xs.foldl min x)
def listMax : List Rat → Option Rat
  | [] => none
  | x :: xs => some (xs.foldl max x)

/-- indices of the True entries of the 1-d mask `lo <= xs` ∧ `xs < hi` (ascending) -/
def selIdx (lo hi : Rat) (xs : List Rat) : List Nat :=
  (xs.zipIdx.filter (fun p => decide (lo ≤ p.1) && decide (p.1 < hi))).map (·.2)

/-- True cells, in row-major (C) order, of `logical_and(rows.reshape(-1,1), cols.reshape(1,-1))` -/
def cells (rows cols : List Nat) : List (Nat × Nat) :=
  rows.flatMap (fun i => cols.map (fun j => (i, j)))

/-- `E[mask_d] = vals` on the flattened array `E` with `ncols` columns: numpy assigns the values
to the True cells in row-major order, broadcasts a single value, and raises otherwise -/
def assign (E : Array Int) (ncols : Nat) (dst : List (Nat × Nat)) (vals : List Int) :
    Except Err (Array Int) :=
  if vals.length = dst.length then
    .ok ((dst.zip vals).foldl (fun a w => a.setIfInBounds (w.1.1 * ncols + w.1.2) w.2) E)
  else match vals with
    | [v] => .ok (dst.foldl (fun a p => a.setIfInBounds (p.1 * ncols + p.2) v) E)
    | _ => .error .valueError

/-- one iteration of the `for t in tiles` loop of `elevation` -/
def elevStep (pix : Tile → Nat → Nat → Int) (latsD lonsD : List Rat) (r' : Rect)
    (E : Array Int) (t : Tile) : Except Err (Array Int) :=
  let srcRows := selIdx r'.latMin r'.latMax (tileLats t)
  let srcCols := selIdx r'.lonMin r'.lonMax (tileLons t)
  let dstRows := selIdx t.latMin t.latMax latsD
  let dstCols := selIdx t.lonMin t.lonMax lonsD
  let vals := (cells srcRows srcCols).map (fun p => pix t p.1 p.2)      -- dem[inds_s]
  assign E lonsD.length (cells dstRows dstCols) vals

/-- `SRTM30.elevation`; `pix t r c` is the content of tile `t` at row `r`, column `c`.
Result: `(lats_d, lons_d, elevation)` with the 2-d array flattened row-major. -/
def elevation (pix : Tile → Nat → Nat → Int) (r : Rect) :
    Except Err (List Rat × List Rat × Array Int) :=
  let (latsD, lonsD) := nativeGrids r
  match listMin latsD, listMax latsD, listMin lonsD, listMax lonsD with
  | some la, some lb, some lo, some lp =>
    let r' : Rect := ⟨la - (1/2) * dlat, lo - (1/2) * dlon, lb + (1/2) * dlat, lp + (1/2) * dlon⟩
    let E0 : Array Int := Array.replicate (latsD.length * lonsD.length) 0
    match (getTiles r').foldlM (elevStep pix latsD lonsD r') E0 with
    | .ok E => .ok (latsD, lonsD, E)
    | .error e => .error e
  | _, _, _, _ => .error .valueError          -- `.min()` of an empty array

/-! ## tile cache (`get_tile` / `download_tile`) -/

/-- `get_tile(name)` on a cache directory holding the tiles `cache`:
returns the new cache and whether `download_tile` was called -/
def getTile (cache : List Nat) (name : Nat) : List Nat × Bool :=
  if name ∈ cache then (cache, false) else (name :: cache, true)

/-- a sequence of `get_tile` requests; returns the final cache and the downloads in order -/
def runRequests : List Nat → List Nat → List Nat × List Nat
  | cache, [] => (cache, [])
  | cache, n :: ns =>
    let (c1, d) := getTile cache n
    let (c2, ds) := runRequests c1 ns
    (c2, if d then n :: ds else ds)

/-! ## `elevation` with the cache directory threaded through the tile loop -/

/-- a tile's name in the cache model: its position in `_tiles` -/
def tileId (t : Tile) : Nat := tiles.idxOf t

/-- one iteration of `for t in tiles:` with the cache: `dem = SRTM30.get_tile(t)` (download iff
not cached), then the masked assignment.  State: the array — or the exception that ended the
loop, after which no further `get_tile` happens —, the cache, the downloads so far in order. -/
def elevStepC (pix : Tile → Nat → Nat → Int) (latsD lonsD : List Rat) (r' : Rect)
    (s : Except Err (Array Int) × List Nat × List Nat) (t : Tile) :
    Except Err (Array Int) × List Nat × List Nat :=
  match s.1 with
  | .error _ => s
  | .ok E =>
    let g := getTile s.2.1 (tileId t)
    (elevStep pix latsD lonsD r' E t, g.1, if g.2 then s.2.2 ++ [tileId t] else s.2.2)

/-- `SRTM30.elevation` started on the cache `cache`: result of `elevation`, the cache afterwards
and the tiles downloaded by this call, in order -/
def elevationC (cache : List Nat) (pix : Tile → Nat → Nat → Int) (r : Rect) :
    Except Err (List Rat × List Rat × Array Int) × List Nat × List Nat :=
  let (latsD, lonsD) := nativeGrids r
  match listMin latsD, listMax latsD, listMin lonsD, listMax lonsD with
  | some la, some lb, some lo, some lp =>
    let r' : Rect := ⟨la - (1/2) * dlat, lo - (1/2) * dlon, lb + (1/2) * dlat, lp + (1/2) * dlon⟩
    let E0 : Array Int := Array.replicate (latsD.length * lonsD.length) 0
    let res := (getTiles r').foldl (elevStepC pix latsD lonsD r') (.ok E0, cache, [])
    (match res.1 with
      | .ok E => .ok (latsD, lonsD, E)
      | .error e => .error e, res.2.1, res.2.2)
  | _, _, _, _ => (.error .valueError, cache, [])

/-- a sequence of `elevation` calls on one cache directory: final cache and all downloads -/
def runCalls (pix : Tile → Nat → Nat → Int) : List Nat → List Rect → List Nat × List Nat
  | cache, [] => (cache, [])
  | cache, r :: rs =>
    let x := elevationC cache pix r
    let y := runCalls pix x.2.1 rs
    (y.1, x.2.2 ++ y.2)

/-! ## the global lattice (used by the driver's synthetic tiles and by the theorems) -/

/-- 0-based global row of row `r` of tile `t` (rows counted from 90° N) -/
def globalRow (t : Tile) (r : Nat) : Int := (90 - t.latMax) * 120 + r
/-- 0-based global column of column `c` of tile `t` (columns counted from 180° W) -/
def globalCol (t : Tile) (c : Nat) : Int := (t.lonMin + 180) * 120 + c

/-- the synthetic tile content used by the correspondence run -/
def synthPix (t : Tile) (r c : Nat) : Int := (globalRow t r * 7 + globalCol t c * 13) % 30000

end Srtm
