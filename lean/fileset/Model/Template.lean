import Model.Digits
import Model.Time
/-!
# File-name templates: model of `FileSet.get_filename`, `parse_filename`, `get_info`

Anchors (typhon/files/fileset.py): `get_filename`, `_fill_placeholders`,
`_complete_placeholders_regex`, `_add_group_capturing`, `_remove_group_capturing`,
`parse_filename`, `_to_datetime_args`, `_standardise_datetime_args`,
`_retrieve_time_coverage`, `_get_superior_time_resolution`, `get_info`, the `path` setter;
typhon/files/handlers/common.py `FileInfo.update`.

Strings are `List Char`.  The regex engine is represented by `matchItems` for the fragment
{literal character, `\d{n}`, lazy `.+?` / `.*?`, alternation of literal words, character
class with `+` / `*` / `{n}`}: every item offers its possible match lengths in Python `re`'s
priority order (`cands`), and a sequence is matched by depth-first search in that order —
which is what a backtracking engine does for a concatenation of such items.
Core Lean only.
-/
namespace Template
open Time Digits

/-! ### Tokens -/

inductive TField
  | year | year2 | month | day | doy | hour | minute | second
  | decisecond | centisecond | millisecond | microsecond
  deriving DecidableEq, Repr

/-- `n` of the regex `\d{n}` in `FileSet._time_placeholder` -/
def TField.width : TField → Nat
  | .year => 4 | .year2 => 2 | .month => 2 | .day => 2 | .doy => 3 | .hour => 2
  | .minute => 2 | .second => 2 | .decisecond => 1 | .centisecond => 2
  | .millisecond => 3 | .microsecond => 6

/-- name of a placeholder: temporal (`end_` variant when `isEnd`) or user defined -/
inductive Key
  | time (isEnd : Bool) (f : TField)
  | user (name : String)
  deriving DecidableEq, Repr

inductive Tok
  | lit (c : Char)      -- one literal character of the template
  | ph (k : Key)        -- `{name}`
  | star                -- `*`
  deriving DecidableEq, Repr

inductive Quant
  | plus | star | exact (n : Nat)
  deriving DecidableEq, Repr

/-- the fragment of regular expressions accepted for user placeholders -/
inductive URegex
  | alt (ws : List (List Char))                   -- `w1|w2|…` (also a value list)
  | digits (n : Nat)                              -- `\d{n}`
  | lazyPlus                                      -- `.+?` (default of an undeclared name)
  | lazyStar                                      -- `.*?`
  | cls (ranges : List (Char × Char)) (q : Quant) -- `[a-z0-9_]+`, `…*`, `…{n}`
  deriving DecidableEq, Repr

def intercalateC (sep : List Char) : List (List Char) → List Char
  | [] => []
  | [w] => w
  | w :: ws => w ++ sep ++ intercalateC sep ws

def Quant.src : Quant → List Char
  | .plus => ['+'] | .star => ['*'] | .exact n => ['{'] ++ natDigits n ++ ['}']

/-- the regex source text (what `_remove_group_capturing` returns; default fill of
`get_filename`) -/
def URegex.src : URegex → List Char
  | .alt ws => intercalateC ['|'] ws
  | .digits n => ['\\', 'd', '{'] ++ natDigits n ++ ['}']
  | .lazyPlus => ['.', '+', '?']
  | .lazyStar => ['.', '*', '?']
  | .cls rs q =>
    ['['] ++ (rs.map (fun r => if r.1 = r.2 then [r.1] else [r.1, '-', r.2])).flatten ++ [']']
      ++ q.src

/-- configuration of a FileSet: its path template and the `placeholder=` dictionary -/
structure Cfg where
  path : List Tok
  env : List (String × URegex) := []

/-- `_user_placeholder[name]`: declared regex, `.+?` for an undeclared name of the path -/
def Cfg.regexOf (cfg : Cfg) (name : String) : Option URegex :=
  match cfg.env.lookup name with
  | some r => some r
  | none => if cfg.path.contains (.ph (.user name)) then some .lazyPlus else none

/-- `FileSet._special_chars` (non-Windows) -/
def special (c : Char) : Bool :=
  c = '{' || c = '*' || c = '[' || c = '<' || c = '(' || c = '?' || c = '!' || c = '|' || c = '\\'

/-! ### get_filename -/

structure Ctx where
  s : DateTime
  e : DateTime
  fill : List (String × List Char) := []

/-- the keyword arguments `get_filename` hands to `str.format` for a temporal field -/
def timePiece (t : DateTime) : TField → Except Err (List Char)
  | .year => .ok (natDigits t.y)
  | .year2 => .ok (lastTwo (natDigits t.y))
  | .month => .ok (pad 2 t.mo)
  | .day => .ok (pad 2 t.d)
  | .doy => .ok (pad 3 (doyOf t.y t.mo t.d))
  | .hour => .ok (pad 2 t.h)
  | .minute => .ok (pad 2 t.mi)
  | .second => .ok (pad 2 t.s)
  | .millisecond => .ok (pad 3 (t.us / 1000))
  | .decisecond => .error .unknownPlaceholder      -- KeyError in str.format
  | .centisecond => .error .unknownPlaceholder
  | .microsecond => .error .unknownPlaceholder

def piece (cfg : Cfg) (ctx : Ctx) : Tok → Except Err (List Char)
  | .lit c => .ok [c]
  | .star => .ok ['*']
  | .ph (.time isEnd f) => timePiece (if isEnd then ctx.e else ctx.s) f
  | .ph (.user n) =>
    match ctx.fill.lookup n with
    | some v => .ok v
    | none =>
      match cfg.regexOf n with
      | some r => .ok r.src
      | none => .error .unknownPlaceholder

def pieces (cfg : Cfg) (ctx : Ctx) : List Tok → Except Err (List (List Char))
  | [] => .ok []
  | t :: ts =>
    match piece cfg ctx t with
    | .error e => .error e
    | .ok p =>
      match pieces cfg ctx ts with
      | .error e => .error e
      | .ok ps => .ok (p :: ps)

/-- `FileSet.get_filename((s, e), template = tpl, fill = ctx.fill)` -/
def format (cfg : Cfg) (tpl : List Tok) (ctx : Ctx) : Except Err (List Char) :=
  match pieces cfg ctx tpl with
  | .error e => .error e
  | .ok ps =>
    if ps.flatten.any special then .error .unfilledPlaceholder else .ok ps.flatten

/-! ### The compiled regex and the matcher -/

inductive Item
  | char (c : Char)
  | digits (n : Nat)
  | lazy (min : Nat)                                -- `.*?` (0) / `.+?` (1)
  | alt (ws : List (List Char))
  | cls (ranges : List (Char × Char)) (q : Quant)
  deriving DecidableEq, Repr

def URegex.item : URegex → Item
  | .alt ws => .alt ws
  | .digits n => .digits n
  | .lazyPlus => .lazy 1
  | .lazyStar => .lazy 0
  | .cls rs q => .cls rs q

/-- characters that stay regex syntax in a template literal (only `.` and `\` are masked by
`_fill_placeholders`); templates containing them are outside the modelled fragment -/
def regexActive (c : Char) : Bool :=
  c = '+' || c = '^' || c = '$' || c = ')' || c = ']' || c = '}' || c = '{' || c = '(' ||
  c = '[' || c = '?' || c = '|'

/-- regex metacharacters: a value-list word containing one of them is a regex, not a literal
(typhon joins the values with `'|'` without `re.escape`) -/
def metaChar (c : Char) : Bool :=
  c = '.' || c = '+' || c = '*' || c = '?' || c = '^' || c = '$' || c = '(' || c = ')' ||
  c = '[' || c = ']' || c = '{' || c = '}' || c = '|' || c = '\\'

/-- characters with a special meaning inside `[...]` -/
def clsMeta (c : Char) : Bool := c = '^' || c = ']' || c = '\\' || c = '-' || c = '['

/-- the user regexes whose source text means what the model's literal reading says: value-list
words free of regex metacharacters; non-empty character classes with ordered ranges whose
endpoints are no class syntax.  Everything else is outside the modelled fragment. -/
def URegex.plain : URegex → Bool
  | .alt ws => ws.all (fun w => w.all (fun c => !metaChar c))
  | .cls rs _ => !rs.isEmpty &&
      rs.all (fun r => decide (r.1.toNat ≤ r.2.toNat) && !clsMeta r.1 && !clsMeta r.2)
  | _ => true

abbrev Caps := List (Key × List Char)

/-- the regex item of one token; a placeholder captures only at its first occurrence
(`seen` = names that occurred before) -/
def compileTok (cfg : Cfg) (seen : List Key) : Tok → Except Err ((Item × Option Key) × List Key)
  | .lit c => if regexActive c then .error .regexError else .ok ((.char c, none), seen)
  | .star => .ok ((.lazy 0, none), seen)
  | .ph (.time isEnd f) =>
    if seen.contains (.time isEnd f) then .ok ((.digits f.width, none), seen)
    else .ok ((.digits f.width, some (.time isEnd f)), .time isEnd f :: seen)
  | .ph (.user n) =>
    match cfg.regexOf n with
    | none => .error .unknownPlaceholder
    | some r =>
      if !r.plain then .error .regexError          -- outside the modelled fragment
      else if seen.contains (.user n) then .ok ((r.item, none), seen)
      else .ok ((r.item, some (.user n)), .user n :: seen)

/-- `_fill_placeholders`: one regex item per token -/
def compile (cfg : Cfg) : List Tok → List Key → Except Err (List (Item × Option Key))
  | [], _ => .ok []
  | t :: ts, seen =>
    match compileTok cfg seen t with
    | .error e => .error e
    | .ok (x, seen') =>
      match compile cfg ts seen' with
      | .error e => .error e
      | .ok xs => .ok (x :: xs)

def inCls (rs : List (Char × Char)) (c : Char) : Bool :=
  rs.any (fun r => decide (r.1.toNat ≤ c.toNat) && decide (c.toNat ≤ r.2.toNat))

/-- `k, k-1, …, lo` -/
def downTo (lo : Nat) : Nat → List Nat
  | 0 => if lo = 0 then [0] else []
  | k + 1 => if lo ≤ k + 1 then (k + 1) :: downTo lo k else []

/-- possible match lengths of an item at the head of `s`, in the engine's priority order -/
def cands : Item → List Char → List Nat
  | .char c, s =>
    match s with
    | x :: _ => if x = c then [1] else []
    | [] => []
  | .digits n, s => if n ≤ s.length ∧ (s.take n).all isDigit then [n] else []
  | .lazy m, s =>
    let k := (s.takeWhile (fun c => c ≠ '\n')).length        -- `.` does not match a newline
    List.range' m (k + 1 - m)
  | .alt ws, s => ws.filterMap (fun w => if w.isPrefixOf s then some w.length else none)
  | .cls rs q, s =>
    let k := (s.takeWhile (inCls rs)).length
    match q with
    | .plus => downTo 1 k
    | .star => downTo 0 k
    | .exact n => if n ≤ k then [n] else []

/-- `re.match("^…$", s)`: depth-first search over the candidate lengths; `$` also matches
before a final newline -/
def matchItems : List (Item × Option Key) → List Char → Option Caps
  | [], s => if s = [] ∨ s = ['\n'] then some [] else none
  | (it, key) :: rest, s =>
    (cands it s).findSome? (fun k =>
      match matchItems rest (s.drop k) with
      | none => none
      | some c =>
        match key with
        | some key => some ((key, s.take k) :: c)
        | none => some c)

/-- `FileSet.parse_filename(name)` (template = the FileSet's path) -/
def parseFilename (cfg : Cfg) (name : List Char) : Except Err Caps :=
  match compile cfg cfg.path [] with
  | .error e => .error e
  | .ok items =>
    match matchItems items name with
    | some c => .ok c
    | none => .error .valueError

/-! ### Placeholders → datetime arguments -/

/-- `int(value)` of the captured temporal placeholder, `none` when not captured -/
def fieldVal (caps : Caps) (isEnd : Bool) (f : TField) : Option Nat :=
  match caps.lookup (.time isEnd f) with
  | some v => parseNat v
  | none => none

/-- every captured temporal value is a non-empty digit string (so `int(value)` succeeds) -/
def capsNumeric (caps : Caps) : Bool :=
  caps.all (fun kv => match kv.1 with
    | .time _ _ => (parseNat kv.2).isSome
    | .user _ => true)

/-- keyword arguments for `datetime(...)` -/
structure Std where
  year : Option Nat := none
  month : Option Nat := none
  day : Option Nat := none
  hour : Option Nat := none
  minute : Option Nat := none
  second : Option Nat := none
  micro : Option Nat := none
  deriving DecidableEq, Repr

def Std.nonEmpty (a : Std) : Bool :=
  a.year.isSome || a.month.isSome || a.day.isSome || a.hour.isSome || a.minute.isSome ||
  a.second.isSome || a.micro.isSome

def year2Threshold : Nat := 65

def expandYear2 (y2 : Nat) : Nat := if y2 < year2Threshold then 2000 + y2 else 1900 + y2

/-- `_standardise_datetime_args` -/
def standardise (r : TField → Option Nat) : Except Err Std :=
  let year := match r .year2 with
    | some y2 => some (expandYear2 y2)
    | none => r .year
  let micro :=
    if (r .decisecond).isSome || (r .centisecond).isSome || (r .millisecond).isSome
        || (r .microsecond).isSome then
      some (100000 * (r .decisecond).getD 0 + 10000 * (r .centisecond).getD 0
            + 1000 * (r .millisecond).getD 0 + (r .microsecond).getD 0)
    else none
  match r .doy with
  | none => .ok { year := year, month := r .month, day := r .day, hour := r .hour,
                  minute := r .minute, second := r .second, micro := micro }
  | some doy =>
    match year with
    | none => .error .keyError                     -- args["year"]
    | some y =>
      if y < 1 ∨ 9999 < y then .error .valueError  -- datetime(year, 1, 1)
      else
        match ofYearDoy y doy with
        | none => .error .overflow
        | some (_, m, d) =>
          .ok { year := year, month := some m, day := some d, hour := r .hour,
                minute := r .minute, second := r .second, micro := micro }

/-- `_to_datetime_args` -/
def toDatetimeArgs (caps : Caps) : Except Err (Std × Std) :=
  match standardise (fieldVal caps false) with
  | .error e => .error e
  | .ok sa =>
    if sa.nonEmpty && !(sa.year.isSome || sa.month.isSome || sa.day.isSome) then
      .error .valueError
    else
      match standardise (fieldVal caps true) with
      | .error e => .error e
      | .ok ea => .ok (sa, ea)

/-- `datetime(**args)` -/
def mkDate (a : Std) : Except Err DateTime :=
  match a.year, a.month, a.day with
  | some y, some m, some d =>
    let t : DateTime := { y := y, mo := m, d := d, h := a.hour.getD 0, mi := a.minute.getD 0,
                          s := a.second.getD 0, us := a.micro.getD 0 }
    if valid t then .ok t else .error .valueError
  | _, _, _ => .error .typeError                  -- missing required argument

/-- `{**start_args, **end_args}` -/
def Std.merge (s e : Std) : Std :=
  { year := e.year <|> s.year, month := e.month <|> s.month, day := e.day <|> s.day,
    hour := e.hour <|> s.hour, minute := e.minute <|> s.minute, second := e.second <|> s.second,
    micro := e.micro <|> s.micro }

/-- index in `FileSet._temporal_resolution` (`none`: not in the table) -/
def TField.rank : TField → Option Nat
  | .year => some 0 | .month => some 1 | .day => some 2 | .hour => some 3 | .minute => some 4
  | .second => some 5 | .decisecond => some 6 | .centisecond => some 7 | .millisecond => some 8
  | .microsecond => some 9 | .year2 => none | .doy => none

/-- the values of `FileSet._temporal_resolution` in µs -/
def resolution : Nat → Int
  | 0 => 366 * 86400000000 | 1 => 31 * 86400000000 | 2 => 86400000000 | 3 => 3600000000
  | 4 => 60000000 | 5 => 1000000 | 6 => 100000 | 7 => 10000 | 8 => 1000 | _ => 1

def allFields : List TField :=
  [.year, .year2, .month, .day, .doy, .hour, .minute, .second, .decisecond, .centisecond,
   .millisecond, .microsecond]

/-- ranks of the `end_` placeholders of the path that are in the resolution table -/
def endRanks (path : List Tok) : List Nat :=
  allFields.filterMap (fun f => if path.contains (.ph (.time true f)) then f.rank else none)

/-- `_get_superior_time_resolution(end placeholders of the path)` = `_end_time_superior` -/
def superior (path : List Tok) : Option Int :=
  match endRanks path with
  | [] => none
  | r :: rs =>
    let coarsest := rs.foldl min r
    if coarsest = 0 then none else some (resolution (coarsest - 1))

/-- second half of `_retrieve_time_coverage`: build the two datetimes from the arguments -/
def coverageOf (path : List Tok) (sa ea : Std) : Except Err (Option DateTime × Option DateTime) :=
  let start : Except Err (Option DateTime) :=
    if sa.nonEmpty then
      match mkDate sa with
      | .ok t => .ok (some t)
      | .error e => .error e
    else .ok none
  match start with
  | .error e => .error e
  | .ok st =>
    if ea.nonEmpty then
      match mkDate (sa.merge ea) with
      | .error e => .error e
      | .ok en =>
        match st with
        | none => .error .typeError            -- end_date < None
        | some s =>
          if lt en s then
            match superior path with
            | none => .error .typeError        -- end_date += None
            | some δ =>
              match addDelta en δ with
              | .ok en' => .ok (some s, some en')
              | .error e => .error e
          else .ok (some s, some en)
    else .ok (st, none)

/-- `_retrieve_time_coverage` -/
def retrieveTimeCoverage (cfg : Cfg) (caps : Caps) :
    Except Err (Option DateTime × Option DateTime) :=
  if caps.isEmpty then .ok (none, none)
  else if !capsNumeric caps then .error .valueError
  else
    match toDatetimeArgs caps with
    | .error e => .error e
    | .ok (sa, ea) => coverageOf cfg.path sa ea

/-! ### get_info -/

inductive Mode
  | filename | handler | both
  deriving DecidableEq, Repr

abbrev Attrs := List (String × List Char)

/-- `dict.update` for one key -/
def attrSet (a : Attrs) (k : String) (v : List Char) : Attrs :=
  match a with
  | [] => [(k, v)]
  | (k', v') :: rest => if k' = k then (k, v) :: rest else (k', v') :: attrSet rest k v

def attrUpdate (a b : Attrs) : Attrs := b.foldl (fun acc kv => attrSet acc kv.1 kv.2) a

structure Info where
  start : Option DateTime := none
  stop : Option DateTime := none
  attrs : Attrs := []
  deriving DecidableEq, Repr

/-- `FileInfo.update(other)` with `ignore_none_time=True` -/
def Info.update (a b : Info) : Info :=
  { attrs := attrUpdate a.attrs b.attrs,
    start := match b.start with | some t => some t | none => a.start,
    stop := match b.stop with | some t => some t | none => a.stop }

/-- `FileSet.single_file`: no special character in the path -/
def singleFile (path : List Tok) : Bool :=
  path.all (fun t => match t with
    | .lit c => !special c
    | _ => false)

def userCaps (caps : Caps) : Attrs :=
  caps.filterMap (fun kv => match kv.1 with
    | .user n => some (n, kv.2)
    | .time _ _ => none)

/-- `FileSet.get_info(name)` on a fresh cache.  `tc`: `time_coverage` of a multi-file FileSet
as a timedelta in µs; `handler`: what the handler's `get_info` returns -/
def getInfo (cfg : Cfg) (mode : Mode) (tc : Option Int) (handler : Info) (name : List Char) :
    Except Err (DateTime × DateTime × Attrs) :=
  let info0 : Info :=
    if singleFile cfg.path then { start := some dtMin, stop := some dtMax } else {}
  let step1 : Except Err Info :=
    if mode = .filename ∨ mode = .both then
      match parseFilename cfg name with
      | .error e => .error e
      | .ok caps =>
        match retrieveTimeCoverage cfg caps with
        | .error e => .error e
        | .ok (st, en) => .ok (info0.update { start := st, stop := en, attrs := userCaps caps })
    else .ok info0
  match step1 with
  | .error e => .error e
  | .ok info1 =>
    let info2 := if mode = .handler ∨ mode = .both then info1.update handler else info1
    match info2.start, info2.stop with
    | none, none => .ok (dtMin, dtMax, info2.attrs)
    | none, some _ => .error .valueError
    | some s, some e => .ok (s, e, info2.attrs)
    | some s, none =>
      match tc with
      | some δ =>
        match addDelta s δ with
        | .ok e => .ok (s, e, info2.attrs)
        | .error err => .error err
      | none => .ok (s, s, info2.attrs)

end Template
