/-
Model of `typhon/trees.py :: IntervalTree` (centred interval tree) and of the
interval part of `FileSet.match`.  Core Lean only (no Mathlib) so that the
driver links.

Python (after the four `fix:` commits):

    indices   = arange(n);  rows = hstack([intervals, indices])
    rows      = rows[argsort(rows[:,0], kind="stable")]
    _build_tree(rows):
        if rows.shape[0] == 0: return None
        c      = rows[int(n/2), 0]
        center = rows[(lo <= c) & (hi >= c)]
        left   = rows[hi < c];  right = rows[lo > c]
        Node(c, center, build(left), build(right))
    _query(q, node):
        res = [idx for row in node.center if row.lo <= q.hi and row.hi >= q.lo]
        if q.lo <= c and node.left  is not None: res += _query(q, node.left)
        if q.hi >= c and node.right is not None: res += _query(q, node.right)
    _query_point(p, node, check_extreme):
        if check_extreme and not (L <= p <= R): return []
        res = [idx for row in node.center if row.lo <= p <= row.hi]
        if p < c and node.left  is not None: res += _query_point(p, node.left)
        if p > c and node.right is not None: res += _query_point(p, node.right)

The model is generic in the endpoint type: it only needs decidable `<` and `≤`.
-/

namespace ITree

structure Row (α : Type) where
  lo : α
  hi : α
  idx : Nat
deriving Repr

inductive Tree (α : Type) where
  | nil : Tree α
  | node (c : α) (center : List (Row α)) (left right : Tree α) : Tree α

variable {α : Type} [LT α] [LE α] [DecidableRel (α := α) (· < ·)] [DecidableRel (α := α) (· ≤ ·)]

/-- `interval_overlaps(row, q)` : `row.lo <= q.hi and row.hi >= q.lo`. -/
def overlaps (r : Row α) (qlo qhi : α) : Bool :=
  decide (r.lo ≤ qhi) && decide (qlo ≤ r.hi)

/-- `interval_contains(row, p)` : `row.lo <= p <= row.hi`. -/
def containsPt (r : Row α) (p : α) : Bool :=
  decide (r.lo ≤ p) && decide (p ≤ r.hi)

def inCenter (c : α) (r : Row α) : Bool := decide (r.lo ≤ c) && decide (c ≤ r.hi)
def inLeft (c : α) (r : Row α) : Bool := decide (r.hi < c)
def inRight (c : α) (r : Row α) : Bool := decide (c < r.lo)

/-- `_build_tree`; recursion is on explicit fuel (the Python recursion is
unbounded; `C03_build_total` shows that fuel = number of rows always suffices
when every interval has `lo ≤ hi`). Fuel exhausted ⇒ `nil` (observable as a
wrong answer, never hidden: the theorems are stated for sufficient fuel). -/
def build : Nat → List (Row α) → Tree α
  | 0, _ => .nil
  | fuel + 1, rows =>
    match rows[rows.length / 2]? with
    | none => .nil                                   -- empty array → None
    | some mid =>
      let c := mid.lo
      .node c (rows.filter (inCenter c))
        (build fuel (rows.filter (inLeft c)))
        (build fuel (rows.filter (inRight c)))

/-- `_query` -/
def query : Tree α → α → α → List Nat
  | .nil, _, _ => []
  | .node c center l r, qlo, qhi =>
    ((center.filter (fun row => overlaps row qlo qhi)).map (·.idx))
      ++ (if qlo ≤ c then query l qlo qhi else [])
      ++ (if c ≤ qhi then query r qlo qhi else [])

/-- `_query_point` without the extreme check -/
def queryPt : Tree α → α → List Nat
  | .nil, _ => []
  | .node c center l r, p =>
    ((center.filter (fun row => containsPt row p)).map (·.idx))
      ++ (if p < c then queryPt l p else [])
      ++ (if c < p then queryPt r p else [])

/-- rows with their original indices attached -/
def mkRows (ivs : List (α × α)) : List (Row α) :=
  ivs.zipIdx.map (fun (iv, i) => { lo := iv.1, hi := iv.2, idx := i })

/-- The constructor: attach indices, stable sort by lower bound, build. -/
def mk (ivs : List (α × α)) : Tree α :=
  let rows := (mkRows ivs).mergeSort (fun a b => decide (a.lo ≤ b.lo))
  build rows.length rows

/-- `tree.query(qs)` -/
def queryAll (t : Tree α) (qs : List (α × α)) : List (List Nat) :=
  qs.map (fun q => query t q.1 q.2)

/-- `tree.query_points(ps)`; `L`,`R` are `self.left`, `self.right`
(min and max over all endpoints). -/
def queryPoints (t : Tree α) (L R : α) (ps : List α) : List (List Nat) :=
  ps.map (fun p => if L ≤ p ∧ p ≤ R then queryPt t p else [])

end ITree

/-! ### `FileSet.match` — the interval part

Files are given by their coverage in integer microseconds.  `mi` is
`max_interval` in microseconds (0 when `None`). -/
namespace Match

open ITree

/-- For each primary (in the given = `find()` order) the sorted indices of the
secondaries whose widened coverage overlaps; primaries without partner are
dropped.  Returns `(primary index, secondary indices)`. -/
def matchFiles (times1 times2 : List (Int × Int)) (mi : Int) : List (Nat × List Nat) :=
  let widened := times2.map (fun t => (t.1 - mi, t.2 + mi))
  let tree := ITree.mk widened
  let results := ITree.queryAll tree times1
  (results.zipIdx.map (fun (ovl, i) => (i, ovl.mergeSort (fun a b => decide (a ≤ b))))).filter
    (fun p => !p.2.isEmpty)

end Match

namespace ITree
variable {α : Type} [LT α] [LE α] [DecidableRel (α := α) (· < ·)] [DecidableRel (α := α) (· ≤ ·)]

/-- `(lo, hi) in tree` -/
def containsIv (t : Tree α) (qlo qhi : α) : Bool := !(query t qlo qhi).isEmpty

/-- `p in tree` (with the extreme check against `self.left`, `self.right`) -/
def containsPoint (t : Tree α) (L R p : α) : Bool :=
  !(if L ≤ p ∧ p ≤ R then queryPt t p else []).isEmpty

end ITree
