/-!
# Decimal formatting and parsing (model of Python's `"{:0wd}".format(n)`, `str(n)`, `int(s)`)

Core Lean only.  Strings are `List Char`.
-/
namespace Digits

/-- the ASCII digit of `n % 10` -/
def digitChar (n : Nat) : Char :=
  match n % 10 with
  | 0 => '0' | 1 => '1' | 2 => '2' | 3 => '3' | 4 => '4'
  | 5 => '5' | 6 => '6' | 7 => '7' | 8 => '8' | _ => '9'

/-- ASCII digit test (`\d` of the modelled regex fragment, ASCII inputs only) -/
def isDigit (c : Char) : Bool := decide ('0'.toNat ≤ c.toNat) && decide (c.toNat ≤ '9'.toNat)

/-- value of an ASCII digit -/
def digitVal (c : Char) : Nat := c.toNat - 48

/-- the last `w` decimal digits of `n`, most significant first (exactly `w` characters) -/
def padW : Nat → Nat → List Char
  | 0, _ => []
  | w + 1, n => padW w (n / 10) ++ [digitChar n]

/-- number of decimal digits of `n` (`numDigits 0 = 1`) -/
def numDigits (n : Nat) : Nat :=
  if h : n < 10 then 1 else 1 + numDigits (n / 10)
decreasing_by omega

/-- Python `"{:0wd}".format(n)` for `n ≥ 0`: at least `w` digits, more when `n ≥ 10^w` -/
def pad (w n : Nat) : List Char := padW (max w (numDigits n)) n

/-- Python `str(n)` for `n ≥ 0` -/
def natDigits (n : Nat) : List Char := pad 1 n

/-- Python `s[-2:]` -/
def lastTwo (s : List Char) : List Char := s.drop (s.length - 2)

/-- Python `int(s)` for a string of ASCII digits; `none` for the empty string or a non-digit -/
def parseNat (s : List Char) : Option Nat :=
  if s.isEmpty || !s.all isDigit then none
  else some (s.foldl (fun a c => 10 * a + digitVal c) 0)

#guard pad 2 7 = ['0', '7']
#guard pad 2 123 = ['1', '2', '3']
#guard pad 3 0 = ['0', '0', '0']
#guard natDigits 0 = ['0']
#guard natDigits 2018 = ['2', '0', '1', '8']
#guard lastTwo (natDigits 2018) = ['1', '8']
#guard lastTwo (natDigits 5) = ['5']
#guard parseNat ['0', '4', '2'] = some 42
#guard parseNat [] = none
#guard parseNat ['4', 'x'] = none

end Digits
