/-!
# Calendar model (proleptic Gregorian, years 1..9999) — model of Python's `datetime`

`DateTime` is the 7-tuple (y, mo, d, h, mi, s, µs); `toMicros` counts µs since
0001-01-01T00:00:00.  Year-from-days is a bounded search (`findGreatest`), not CPython's
400/100/4/1 cascade; agreement with CPython is checked by the correspondence run.
Core Lean only.
-/
namespace Time

inductive Err
  | valueError | unknownPlaceholder | unfilledPlaceholder | regexError
  | typeError | keyError | overflow | other
  deriving DecidableEq, Repr

def Err.name : Err → String
  | .valueError => "valueError" | .unknownPlaceholder => "unknownPlaceholder"
  | .unfilledPlaceholder => "unfilledPlaceholder" | .regexError => "regexError"
  | .typeError => "typeError" | .keyError => "keyError" | .overflow => "overflow"
  | .other => "other"

def isLeap (y : Nat) : Bool := (y % 4 == 0 && y % 100 != 0) || y % 400 == 0

/-- 1 in leap years, else 0 -/
def leapN (y : Nat) : Nat := if isLeap y then 1 else 0

def yearLen (y : Nat) : Nat := 365 + leapN y

/-- days before January 1st of year `y` (`y ≥ 1`), counted from 0001-01-01 -/
def dby (y : Nat) : Nat := 365 * (y - 1) + (y - 1) / 4 - (y - 1) / 100 + (y - 1) / 400

/-- days before the first of month `m` in a year with leap flag `l ∈ {0,1}` -/
def dbmL (l : Nat) : Nat → Nat
  | 0 => 0 | 1 => 0 | 2 => 31 | 3 => 59 + l | 4 => 90 + l | 5 => 120 + l | 6 => 151 + l
  | 7 => 181 + l | 8 => 212 + l | 9 => 243 + l | 10 => 273 + l | 11 => 304 + l
  | 12 => 334 + l | _ => 365 + l

/-- days in month `m` -/
def dimL (l : Nat) : Nat → Nat
  | 2 => 28 + l | 4 => 30 | 6 => 30 | 9 => 30 | 11 => 30 | _ => 31

def dbm (y m : Nat) : Nat := dbmL (leapN y) m
def dim (y m : Nat) : Nat := dimL (leapN y) m

/-- month (1..12) containing the 0-based day-of-year offset `r` -/
def monthOfL (l r : Nat) : Nat :=
  if r < 31 then 1 else if r < 59 + l then 2 else if r < 90 + l then 3
  else if r < 120 + l then 4 else if r < 151 + l then 5 else if r < 181 + l then 6
  else if r < 212 + l then 7 else if r < 243 + l then 8 else if r < 273 + l then 9
  else if r < 304 + l then 10 else if r < 334 + l then 11 else 12

structure DateTime where
  y : Nat
  mo : Nat
  d : Nat
  h : Nat := 0
  mi : Nat := 0
  s : Nat := 0
  us : Nat := 0
  deriving DecidableEq, Repr

/-- what `datetime(y, mo, d, h, mi, s, us)` accepts -/
def valid (t : DateTime) : Bool :=
  decide (1 ≤ t.y) && decide (t.y ≤ 9999) && decide (1 ≤ t.mo) && decide (t.mo ≤ 12) &&
  decide (1 ≤ t.d) && decide (t.d ≤ dim t.y t.mo) &&
  decide (t.h < 24) && decide (t.mi < 60) && decide (t.s < 60) && decide (t.us < 1000000)

def Valid (t : DateTime) : Prop := valid t = true

instance (t : DateTime) : Decidable (Valid t) := by unfold Valid; infer_instance

/-- 0-based ordinal of a date (0001-01-01 ↦ 0) -/
def toDays (y m d : Nat) : Nat := dby y + dbm y m + (d - 1)

def usPerDay : Nat := 86400000000

def toMicrosN (t : DateTime) : Nat :=
  toDays t.y t.mo t.d * usPerDay + ((t.h * 3600 + t.mi * 60 + t.s) * 1000000 + t.us)

/-- µs since 0001-01-01T00:00:00 -/
def toMicros (t : DateTime) : Int := (toMicrosN t : Nat)

/-- greatest `k ≤ n` with `p k`, or 0 -/
def findGreatest (p : Nat → Bool) : Nat → Nat
  | 0 => 0
  | k + 1 => if p (k + 1) then k + 1 else findGreatest p k

/-- the year containing the 0-based ordinal `n` -/
def yearOf (n : Nat) : Nat := findGreatest (fun y => decide (dby y ≤ n)) (n / 365 + 1)

/-- (y, m, d) of the 0-based ordinal `n` -/
def ofDays (n : Nat) : Nat × Nat × Nat :=
  let y := yearOf n
  let r := n - dby y
  let m := monthOfL (leapN y) r
  (y, m, r - dbm y m + 1)

def ofMicrosN (n : Nat) : DateTime :=
  let days := n / usPerDay
  let rem := n % usPerDay
  let (y, m, d) := ofDays days
  let secs := rem / 1000000
  { y := y, mo := m, d := d, h := secs / 3600, mi := secs % 3600 / 60, s := secs % 60,
    us := rem % 1000000 }

def dtMin : DateTime := { y := 1, mo := 1, d := 1 }
def dtMax : DateTime := { y := 9999, mo := 12, d := 31, h := 23, mi := 59, s := 59, us := 999999 }

/-- `toMicros datetime.max` -/
def maxMicros : Nat := dby 10000 * usPerDay - 1

/-- inverse of `toMicros`; `none` outside `datetime.min … datetime.max` -/
def ofMicros (z : Int) : Option DateTime :=
  if 0 ≤ z ∧ z ≤ (maxMicros : Nat) then some (ofMicrosN z.toNat) else none

/-- `t + timedelta(microseconds = δ)`; Python raises `OverflowError` outside year 1..9999 -/
def addDelta (t : DateTime) (δ : Int) : Except Err DateTime :=
  match ofMicros (toMicros t + δ) with
  | some r => .ok r
  | none => .error .overflow

/-- day of the year, 1-based (`(t - datetime(t.year,1,1)).days + 1`) -/
def doyOf (y m d : Nat) : Nat := dbm y m + d

/-- `datetime(y,1,1) + timedelta(doy - 1)`: the (year, month, day) reached; the caller keeps
only month and day (as the code does).  `none` = OverflowError. -/
def ofYearDoy (y doy : Nat) : Option (Nat × Nat × Nat) :=
  let n : Int := (dby y : Int) + (doy : Int) - 1
  if 0 ≤ n ∧ n < (dby 10000 : Nat) then some (ofDays n.toNat) else none

/-- datetime comparison `a < b` -/
def lt (a b : DateTime) : Bool := decide (toMicros a < toMicros b)

#guard dby 1 = 0
#guard dby 2 = 365
#guard toDays 1970 1 1 = 719162
#guard ofDays 719162 = (1970, 1, 1)
#guard ofDays 0 = (1, 1, 1)
#guard ofDays (dby 10000 - 1) = (9999, 12, 31)
#guard ofDays (toDays 2000 2 29) = (2000, 2, 29)
#guard ofDays (toDays 1900 3 1) = (1900, 3, 1)
#guard ofMicrosN (toMicrosN dtMax) = dtMax
#guard toMicrosN dtMax = maxMicros
#guard doyOf 2016 12 31 = 366
#guard ofYearDoy 2016 366 = some (2016, 12, 31)
#guard ofYearDoy 2018 366 = some (2019, 1, 1)
#guard ofYearDoy 2018 0 = some (2017, 12, 31)
#guard ofYearDoy 1 0 = none
#guard ofYearDoy 9999 366 = none
#guard valid { y := 2016, mo := 2, d := 29 } = true
#guard valid { y := 2018, mo := 2, d := 29 } = false

end Time
