import Model.Template
/-!
Line-protocol driver for C02 (file-name templates).  Strings travel as dot-separated decimal
code points ("-" = empty string).  One output line per input line.

  tpl  <tok>*                    -> "ok"     sets the FileSet path (clears tpl2)
        tok: L<cp> literal char | T<i> temporal field i | E<i> end_ field i | U<str> user | S star
  tpl2 <tok>*                    -> "ok"     template= override for `fmt`
  env  (<name>=<regex>)*         -> "ok"     placeholder= dictionary
        regex: A:<w>/<w>/… | D:<n> | P (.+?) | Z (.*?) | C:<lo>-<hi>,…:<+|*|n>
  fmt  <s µs> <e µs> (<name>=<val>)*   -> "ok <str>" | "err <E>"
  parse <str>                    -> "ok (<key>=<val>)*" | "err <E>"     key: T<i> | E<i> | U<str>
  info <f|h|b> <tc|-> <hs|-> <he|-> <str> (<name>=<val>)*  -> "ok <s> <e> (<name>=<val>)*" | "err <E>"
  tom y mo d h mi s us           -> µs | "invalid"
  ofm <µs>                       -> "y mo d h mi s us" | "none"
  doy y n                        -> "y m d" | "none"
Anything else -> "bad-op".
-/
open Template Time

def decStr (w : String) : Option (List Char) :=
  if w = "-" then some [] else
  (w.splitOn ".").mapM (fun p => p.toNat?.map Char.ofNat)

def encStr (s : List Char) : String :=
  if s.isEmpty then "-" else ".".intercalate (s.map (fun c => toString c.toNat))

def fieldOfNat : Nat → Option TField
  | 0 => some .year | 1 => some .year2 | 2 => some .month | 3 => some .day | 4 => some .doy
  | 5 => some .hour | 6 => some .minute | 7 => some .second | 8 => some .decisecond
  | 9 => some .centisecond | 10 => some .millisecond | 11 => some .microsecond | _ => none

def natOfField : TField → Nat
  | .year => 0 | .year2 => 1 | .month => 2 | .day => 3 | .doy => 4 | .hour => 5 | .minute => 6
  | .second => 7 | .decisecond => 8 | .centisecond => 9 | .millisecond => 10 | .microsecond => 11

def decTok (w : String) : Option Tok :=
  match w.toList with
  | 'L' :: r => (String.ofList r).toNat?.map (fun n => Tok.lit (Char.ofNat n))
  | 'T' :: r => ((String.ofList r).toNat? >>= fieldOfNat).map (fun f => Tok.ph (.time false f))
  | 'E' :: r => ((String.ofList r).toNat? >>= fieldOfNat).map (fun f => Tok.ph (.time true f))
  | 'U' :: r => (decStr (String.ofList r)).map (fun n => Tok.ph (.user (String.ofList n)))
  | ['S'] => some .star
  | _ => none

def decQuant (w : String) : Option Quant :=
  if w = "+" then some .plus else if w = "*" then some .star else w.toNat?.map Quant.exact

def decRange (w : String) : Option (Char × Char) :=
  match w.splitOn "-" with
  | [a, b] => do
    let x ← a.toNat?
    let y ← b.toNat?
    pure (Char.ofNat x, Char.ofNat y)
  | _ => none

def decRegex (w : String) : Option URegex :=
  match w.splitOn ":" with
  | ["A", ws] => ((ws.splitOn "/").mapM decStr).map URegex.alt
  | ["D", n] => n.toNat?.map URegex.digits
  | ["P"] => some .lazyPlus
  | ["Z"] => some .lazyStar
  | ["C", rs, q] => do
    let rr ← (rs.splitOn ",").mapM decRange
    let qq ← decQuant q
    pure (.cls rr qq)
  | _ => none

def decPair (w : String) : Option (String × String) :=
  match w.splitOn "=" with
  | [a, b] => some (a, b)
  | _ => none

def decFill (ws : List String) : Option (List (String × List Char)) :=
  ws.mapM (fun w => do
    let (a, b) ← decPair w
    let n ← decStr a
    let v ← decStr b
    pure (String.ofList n, v))

def encKey : Key → String
  | .time false f => "T" ++ toString (natOfField f)
  | .time true f => "E" ++ toString (natOfField f)
  | .user n => "U" ++ encStr n.toList

def optInt (w : String) : Option (Option Int) :=
  if w = "-" then some none else w.toInt?.map some

def optTime (w : String) : Option (Option DateTime) :=
  if w = "-" then some none else
  match w.toInt? with
  | some z => (ofMicros z).map some
  | none => none

structure St where
  cfg : Cfg := { path := [] }
  tpl2 : Option (List Tok) := none

def showErr (e : Err) : String := "err " ++ e.name

def step (s : St) (line : String) : St × String :=
  match (line.splitOn " ").filter (· ≠ "") with
  | "tpl" :: rest =>
    match rest.mapM decTok with
    | some toks => ({ s with cfg := { s.cfg with path := toks }, tpl2 := none }, "ok")
    | none => (s, "bad-op")
  | "tpl2" :: rest =>
    match rest.mapM decTok with
    | some toks => ({ s with tpl2 := some toks }, "ok")
    | none => (s, "bad-op")
  | "env" :: rest =>
    let r := rest.mapM (fun w => do
      let (a, b) ← decPair w
      let n ← decStr a
      let rx ← decRegex b
      pure (String.ofList n, rx))
    match r with
    | some env => ({ s with cfg := { s.cfg with env := env } }, "ok")
    | none => (s, "bad-op")
  | "fmt" :: a :: b :: rest =>
    match a.toInt? >>= ofMicros, b.toInt? >>= ofMicros, decFill rest with
    | some st, some en, some fill =>
      match format s.cfg (s.tpl2.getD s.cfg.path) { s := st, e := en, fill := fill } with
      | .ok name => (s, "ok " ++ encStr name)
      | .error e => (s, showErr e)
    | _, _, _ => (s, "bad-op")
  | ["parse", w] =>
    match decStr w with
    | some name =>
      match parseFilename s.cfg name with
      | .ok caps => (s, " ".intercalate ("ok" :: caps.map (fun kv => encKey kv.1 ++ "=" ++ encStr kv.2)))
      | .error e => (s, showErr e)
    | none => (s, "bad-op")
  | "info" :: m :: tc :: hs :: he :: w :: rest =>
    let mode : Option Mode :=
      if m = "f" then some .filename else if m = "h" then some .handler
      else if m = "b" then some .both else none
    match mode, optInt tc, optTime hs, optTime he, decStr w, decFill rest with
    | some mode, some tc, some hs, some he, some name, some hattr =>
      match getInfo s.cfg mode tc { start := hs, stop := he, attrs := hattr } name with
      | .ok (a, b, attrs) =>
        (s, " ".intercalate (["ok", toString (toMicros a), toString (toMicros b)] ++
              attrs.map (fun kv => encStr kv.1.toList ++ "=" ++ encStr kv.2)))
      | .error e => (s, showErr e)
    | _, _, _, _, _, _ => (s, "bad-op")
  | ["tom", y, mo, d, h, mi, sec, us] =>
    match [y, mo, d, h, mi, sec, us].mapM String.toNat? with
    | some [y, mo, d, h, mi, sec, us] =>
      let t : DateTime := { y := y, mo := mo, d := d, h := h, mi := mi, s := sec, us := us }
      (s, if valid t then toString (toMicros t) else "invalid")
    | _ => (s, "bad-op")
  | ["ofm", z] =>
    match z.toInt? with
    | some z =>
      match ofMicros z with
      | some t => (s, s!"{t.y} {t.mo} {t.d} {t.h} {t.mi} {t.s} {t.us}")
      | none => (s, "none")
    | none => (s, "bad-op")
  | ["doy", y, n] =>
    match y.toNat?, n.toNat? with
    | some y, some n =>
      match ofYearDoy y n with
      | some (a, b, c) => (s, s!"{a} {b} {c}")
      | none => (s, "none")
    | _, _ => (s, "bad-op")
  | _ => (s, "bad-op")

partial def loop (h : IO.FS.Stream) (out : IO.FS.Stream) (s : St) : IO Unit := do
  let line ← h.getLine
  if line.isEmpty then return ()
  let (s', o) := step s (line.trimAscii.toString)
  out.putStrLn o
  loop h out s'

def main : IO Unit := do
  let out ← IO.getStdout
  loop (← IO.getStdin) out {}
  out.flush
