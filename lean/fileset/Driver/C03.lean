import Model.IntervalTree
/-!
Line-protocol driver for C03 (IntervalTree / FileSet.match), endpoints are integers.

  tree  lo1 hi1 lo2 hi2 ...     -> "ok"           (sets the current tree)
  query lo hi                   -> indices separated by blanks, model order ("-" if none)
  point p                       -> indices ("-" if none), with the extreme check
  match mi n1 a1 b1 ... n2 c1 d1 ...  -> "i:j,j,j i:j ..." ("-" if none)
Anything else -> "bad-op".
-/
open ITree

structure St where
  tree : Tree Int := .nil
  L : Int := 0
  R : Int := 0
  ok : Bool := false

def parseInts (ws : List String) : Option (List Int) :=
  ws.mapM String.toInt?

def pairs : List Int → Option (List (Int × Int))
  | [] => some []
  | a :: b :: rest => (pairs rest).map ((a, b) :: ·)
  | _ => none

def showNats (l : List Nat) : String :=
  if l.isEmpty then "-" else " ".intercalate (l.map toString)

def step (s : St) (line : String) : St × String :=
  match (line.splitOn " ").filter (· ≠ "") with
  | "tree" :: rest =>
    match parseInts rest >>= pairs with
    | some (iv :: ivs) =>
      let all := (iv :: ivs).flatMap (fun p => [p.1, p.2])
      let L := all.foldl min iv.1
      let R := all.foldl max iv.1
      ({ tree := ITree.mk (iv :: ivs), L := L, R := R, ok := true }, "ok")
    | some [] => ({ s with ok := false }, "value-error")   -- np.min of empty raises
    | none => (s, "bad-op")
  | ["query", a, b] =>
    match a.toInt?, b.toInt? with
    | some lo, some hi => if s.ok then (s, showNats (query s.tree lo hi)) else (s, "no-tree")
    | _, _ => (s, "bad-op")
  | ["point", a] =>
    match a.toInt? with
    | some p =>
      if s.ok then
        (s, showNats ((queryPoints s.tree s.L s.R [p]).flatten))
      else (s, "no-tree")
    | none => (s, "bad-op")
  | "match" :: mi :: n1 :: rest =>
    match mi.toInt?, n1.toNat?, parseInts rest with
    | some mi, some n1, some xs =>
      let a := xs.take (2 * n1)
      match xs.drop (2 * n1) with
      | n2 :: b =>
        if b.length ≠ 2 * n2.toNat ∨ a.length ≠ 2 * n1 then (s, "bad-op") else
        match pairs a, pairs b with
        | some t1, some t2 =>
          let r := Match.matchFiles t1 t2 mi
          let out := if r.isEmpty then "-" else
            " ".intercalate (r.map (fun p => toString p.1 ++ ":" ++ ",".intercalate (p.2.map toString)))
          (s, out)
        | _, _ => (s, "bad-op")
      | [] => (s, "bad-op")
    | _, _, _ => (s, "bad-op")
  | _ => (s, "bad-op")

partial def loop (h : IO.FS.Stream) (out : IO.FS.Stream) (s : St) : IO Unit := do
  let line ← h.getLine
  if line.isEmpty then return ()
  let (s', o) := step s (line.trimAscii.toString)
  out.putStrLn o
  loop h out s'

def main : IO Unit := do
  let out ← IO.getStdout
  loop (← IO.getStdin) out {}
  out.flush
