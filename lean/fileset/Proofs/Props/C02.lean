import Model.Template
import Proofs.Audit
theorem C02_placeholder : True := trivial
assert_axioms C02_placeholder
