import Proofs.Lemmas.Template
import Proofs.Lemmas.TemplateEnd
import Proofs.Lemmas.TemplateVar
import Proofs.Audit

/-!
# C02 — file names generated from a template parse back to the same times and attributes

Property theorems only (helper lemmas: `Proofs/Lemmas/{Digits,Time,Template}.lean`).
Model: `Model/{Digits,Time,Template}.lean`.  All statements are for arbitrary templates of
the stated shape, arbitrary valid datetimes (year 1000..9999, resp. 1965..2064 with `year2`)
— no bound on the template length.
-/

open Template Time Digits

/-! ### Digits and calendar -/

/-- zero-padded decimal text parses back and has exactly the field width -/
theorem C02_parse_pad (w n : Nat) (hw : 0 < w) (h : n < 10 ^ w) :
    parseNat (pad w n) = some n ∧ (pad w n).length = w :=
  ⟨parseNat_pad w n, pad_length w n hw h⟩

/-- day-of-year round trip for every valid date (leap day, doy 366 included) -/
theorem C02_ofYearDoy_doyOf (t : DateTime) (h : Valid t) :
    ofYearDoy t.y (doyOf t.y t.mo t.d) = some (t.y, t.mo, t.d) :=
  ofYearDoy_doyOf _ _ _ ((valid_iff t).1 h).1

/-- `toMicros` is strictly monotone w.r.t. the lexicographic order of the 7-tuples … -/
theorem C02_toMicros_strictMono (a b : DateTime) (ha : Valid a) (hb : Valid b) :
    lexLt a b → toMicros a < toMicros b := toMicros_strictMono a b ha hb

/-- … and the model's `<` (on `toMicros`) is exactly CPython's tuple comparison … -/
theorem C02_lt_iff_lex (a b : DateTime) (ha : Valid a) (hb : Valid b) :
    lt a b = true ↔ lexLt a b := lt_iff_lex a b ha hb

/-- … and `ofMicros` inverts it on valid datetimes -/
theorem C02_ofMicros_toMicros (t : DateTime) (h : Valid t) : ofMicros (toMicros t) = some t :=
  ofMicros_toMicros t h

/-- two-digit years: threshold 65, round trip on 1965..2064 -/
theorem C02_expandYear2_roundtrip (y : Nat) (h1 : 1965 ≤ y) (h2 : y ≤ 2064) :
    expandYear2 (y % 100) = y := expandYear2_mod y h1 h2

/-! ### Names → placeholder strings -/

/-- **fields recovered** for every template satisfying the decidable predicate `Unambig`:
literals without regex syntax (dots, directory separators …), the temporal placeholders
`get_filename` fills (fixed width, unrestricted position, also adjacent), and user placeholders
with a `plain` regex (value lists whose words contain no regex metacharacter, the default lazy
`.+?` / `.*?`, character classes, `\d{n}`) whose fill value satisfies the sufficient condition
`ValueOK` w.r.t. the literal text that follows; repeated placeholders allowed; any length.  The generated name exists, is parsed, and
every placeholder is recovered with the string it was written with (`keyStr`), in order of
first occurrence (`capsOf`).  The proof is by priority: an alternative shorter than the value
dead-ends at the following literal, the value itself succeeds. -/
theorem C02_fields_recovered (cfg : Cfg) (ctx : Ctx) (hu : Unambig cfg ctx cfg.path)
    (hs : GoodTime ctx.s) (he : GoodTime ctx.e) :
    ∃ name, format cfg cfg.path ctx = .ok name ∧
      parseFilename cfg name = .ok (capsOf ctx cfg.path []) ∧
      ∀ k, Tok.ph k ∈ cfg.path → (capsOf ctx cfg.path []).lookup k = some (keyStr ctx k) := by
  obtain ⟨items, ps, h1, h2, h3, h5, _⟩ := compile_match_unambig cfg ctx hs he cfg.path [] hu
  refine ⟨ps.flatten, ?_, ?_, ?_⟩
  · unfold format
    simp only [h2]
    have : ps.flatten.any special = false := by
      rw [List.any_eq_false]; intro c hc; simp [h5 c hc]
    simp [this]
  · unfold parseFilename
    simp only [h1, h3]
  · intro k hk
    rw [lookup_capsOf]; simp [hk]

/-- the fixed-width fragment (only literals and temporal placeholders) is unambiguous -/
theorem C02_fixed_unambig (cfg : Cfg) (ctx : Ctx) (hfix : ∀ t ∈ cfg.path, FixedTok t) :
    Unambig cfg ctx cfg.path := unambig_of_fixed cfg ctx cfg.path hfix

/-- **no mis-parse** (matcher soundness, whole fragment incl. lazy / alternation / class items):
an accepted name *is* an instantiation of the compiled template — it splits into one string per
token, each in the language of its token — and the captures are exactly the strings at the
capturing tokens.  (`$` also accepts one trailing newline, as Python's `re` does.) -/
theorem C02_no_misparse (cfg : Cfg) (name : List Char) (caps : Caps)
    (h : parseFilename cfg name = .ok caps) :
    ∃ items ps, compile cfg cfg.path [] = .ok items ∧ Inst items ps ∧
      (name = ps.flatten ∨ name = ps.flatten ++ ['\n']) ∧ caps = capsFrom items ps := by
  unfold parseFilename at h
  cases hc : compile cfg cfg.path [] with
  | error e => simp [hc] at h
  | ok items =>
    simp only [hc] at h
    cases hm : matchItems items name with
    | none => simp [hm] at h
    | some c =>
      simp only [hm, Except.ok.injEq] at h
      subst h
      obtain ⟨ps, h1, h2, h3⟩ := matchItems_sound items name c hm
      exact ⟨items, ps, rfl, h1, h2, h3⟩

/-- a name that does not match is rejected with ValueError by `parse_filename` and by
`get_info` (modes filename and both), never parsed into something else -/
theorem C02_rejected (cfg : Cfg) (name : List Char) (items : List (Item × Option Key))
    (hc : compile cfg cfg.path [] = .ok items) (hm : matchItems items name = none)
    (tc : Option Int) (h : Info) :
    parseFilename cfg name = .error .valueError ∧
      getInfo cfg .filename tc h name = .error .valueError ∧
      getInfo cfg .both tc h name = .error .valueError := by
  have hp : parseFilename cfg name = .error .valueError := by
    unfold parseFilename; simp [hc, hm]
  refine ⟨hp, ?_, ?_⟩ <;> simp [getInfo, hp]

/-- **rejection, stated from the input side** (contrapositive of `C02_no_misparse`): a name
that is not an instantiation of the template — no choice of one string per token, each in its
token's language, concatenates to the name (up to one trailing newline) — is rejected with
ValueError by `parse_filename` and by `get_info` in the modes filename and both -/
theorem C02_rejected_of_no_instance (cfg : Cfg) (name : List Char)
    (items : List (Item × Option Key)) (hc : compile cfg cfg.path [] = .ok items)
    (hno : ∀ ps, Inst items ps → name ≠ ps.flatten ∧ name ≠ ps.flatten ++ ['\n'])
    (tc : Option Int) (h : Info) :
    parseFilename cfg name = .error .valueError ∧
      getInfo cfg .filename tc h name = .error .valueError ∧
      getInfo cfg .both tc h name = .error .valueError := by
  apply C02_rejected cfg name items hc _ tc h
  cases hm : matchItems items name with
  | none => rfl
  | some c =>
    exfalso
    obtain ⟨ps, h1, h2, _⟩ := matchItems_sound items name c hm
    rcases h2 with h2 | h2
    · exact (hno ps h1).1 h2
    · exact (hno ps h1).2 h2

/-! ### Unknown / unfilled placeholders -/

theorem pieces_error (cfg : Cfg) (ctx : Ctx) :
    ∀ tpl : List Tok, (∃ t ∈ tpl, ∃ e, piece cfg ctx t = .error e) →
      pieces cfg ctx tpl = .error .unknownPlaceholder := by
  have hp : ∀ t e, piece cfg ctx t = .error e → e = .unknownPlaceholder := by
    intro t e h
    cases t with
    | lit c => simp [piece] at h
    | star => simp [piece] at h
    | ph k =>
      cases k with
      | time isEnd f => cases f <;> simp [piece, timePiece] at h <;> exact h.symm
      | user n =>
        simp only [piece] at h
        split at h
        · simp at h
        · split at h <;> simp at h
          exact h.symm
  intro tpl
  induction tpl with
  | nil => rintro ⟨t, ht, _⟩; simp at ht
  | cons t ts ih =>
    rintro ⟨t', ht', e, he⟩
    simp only [pieces]
    cases hpt : piece cfg ctx t with
    | error e' => rw [hp t e' hpt]
    | ok p =>
      simp only [List.mem_cons] at ht'
      rcases ht' with rfl | ht'
      · rw [hpt] at he; simp at he
      · rw [ih ⟨t', ht', e, he⟩]

/-- a placeholder `get_filename` has no value for (decisecond / centisecond / microsecond, or a
user name that is neither declared, part of the path, nor filled) raises
UnknownPlaceholderError — whatever else the template contains -/
theorem C02_unknown_placeholder (cfg : Cfg) (tpl : List Tok) (ctx : Ctx)
    (h : ∃ t ∈ tpl, ∃ e, piece cfg ctx t = .error e) :
    format cfg tpl ctx = .error .unknownPlaceholder := by
  unfold format; rw [pieces_error cfg ctx tpl h]

/-- from the input side: a temporal placeholder `get_filename` has no keyword for
(decisecond, centisecond, microsecond and their `end_` variants) anywhere in the template -/
theorem C02_unknown_time_placeholder (cfg : Cfg) (tpl : List Tok) (ctx : Ctx) (isEnd : Bool)
    (f : TField) (hm : Tok.ph (.time isEnd f) ∈ tpl) (hf : fillable f = false) :
    format cfg tpl ctx = .error .unknownPlaceholder := by
  apply C02_unknown_placeholder
  refine ⟨_, hm, .unknownPlaceholder, ?_⟩
  cases f <;> simp [fillable] at hf <;> simp [piece, timePiece]

/-- from the input side: a user placeholder whose name is neither filled, nor declared in
`placeholder=`, nor part of the FileSet's path -/
theorem C02_unknown_user_placeholder (cfg : Cfg) (tpl : List Tok) (ctx : Ctx) (n : String)
    (hm : Tok.ph (.user n) ∈ tpl) (h1 : ctx.fill.lookup n = none) (h2 : cfg.env.lookup n = none)
    (h3 : Tok.ph (.user n) ∉ cfg.path) :
    format cfg tpl ctx = .error .unknownPlaceholder := by
  apply C02_unknown_placeholder
  refine ⟨_, hm, .unknownPlaceholder, ?_⟩
  simp [piece, h1, Cfg.regexOf, h2, h3]

theorem pieces_ok_of_all (cfg : Cfg) (ctx : Ctx) :
    ∀ tpl : List Tok, (∀ t ∈ tpl, ∃ p, piece cfg ctx t = .ok p) →
      ∃ ps, pieces cfg ctx tpl = .ok ps ∧
        ∀ t ∈ tpl, ∀ p, piece cfg ctx t = .ok p → ∀ c ∈ p, c ∈ ps.flatten := by
  intro tpl
  induction tpl with
  | nil => intro _; exact ⟨[], rfl, by simp⟩
  | cons t ts ih =>
    intro hall
    obtain ⟨p, hp⟩ := hall t List.mem_cons_self
    obtain ⟨ps, hps, hmem⟩ := ih (fun t ht => hall t (List.mem_cons_of_mem _ ht))
    refine ⟨p :: ps, by simp [pieces, hp, hps], ?_⟩
    intro t' ht' p' hp' c hc
    rcases List.mem_cons.mp ht' with rfl | ht'
    · rw [hp] at hp'
      simp only [Except.ok.injEq] at hp'
      subst hp'
      simp [hc]
    · have := hmem t' ht' p' hp' c hc
      simp [this]

/-- from the input side: every placeholder has a value, but some token writes a special
character (`{ * [ < ( ? ! | \`) into the name -/
theorem C02_unfilled_of_piece (cfg : Cfg) (tpl : List Tok) (ctx : Ctx)
    (hall : ∀ t ∈ tpl, ∃ p, piece cfg ctx t = .ok p) (t : Tok) (ht : t ∈ tpl) (p : List Char)
    (hp : piece cfg ctx t = .ok p) (c : Char) (hc : c ∈ p) (hsp : special c = true) :
    format cfg tpl ctx = .error .unfilledPlaceholder := by
  obtain ⟨ps, hps, hmem⟩ := pieces_ok_of_all cfg ctx tpl hall
  unfold format
  simp only [hps]
  have : ps.flatten.any special = true := by
    rw [List.any_eq_true]; exact ⟨c, hmem t ht p hp c hc, hsp⟩
  simp [this]

/-- a `*` wildcard in the template cannot be filled -/
theorem C02_unfilled_star (cfg : Cfg) (tpl : List Tok) (ctx : Ctx)
    (hall : ∀ t ∈ tpl, ∃ p, piece cfg ctx t = .ok p) (hstar : Tok.star ∈ tpl) :
    format cfg tpl ctx = .error .unfilledPlaceholder :=
  C02_unfilled_of_piece cfg tpl ctx hall .star hstar ['*'] rfl '*' (by simp) (by decide)

/-- an undeclared user placeholder of the path that is not filled: its default regex `.+?`
shows through -/
theorem C02_unfilled_user (cfg : Cfg) (tpl : List Tok) (ctx : Ctx) (n : String)
    (hall : ∀ t ∈ tpl, ∃ p, piece cfg ctx t = .ok p) (hm : Tok.ph (.user n) ∈ tpl)
    (h1 : ctx.fill.lookup n = none) (h2 : cfg.env.lookup n = none)
    (h3 : Tok.ph (.user n) ∈ cfg.path) :
    format cfg tpl ctx = .error .unfilledPlaceholder := by
  apply C02_unfilled_of_piece cfg tpl ctx hall _ hm ['.', '+', '?'] _ '?' (by simp) (by decide)
  simp [piece, h1, Cfg.regexOf, h2, h3, URegex.src]

/-- when every placeholder has a value but a special character survives in the name
(a `*`, an unfilled user placeholder whose regex shows through, a special literal),
UnfilledPlaceholderError is raised -/
theorem C02_unfilled_placeholder (cfg : Cfg) (tpl : List Tok) (ctx : Ctx) (ps : List (List Char))
    (hp : pieces cfg ctx tpl = .ok ps) (h : ∃ c ∈ ps.flatten, special c = true) :
    format cfg tpl ctx = .error .unfilledPlaceholder := by
  unfold format; simp only [hp]
  have : ps.flatten.any special = true := by
    rw [List.any_eq_true]; exact h
  simp [this]

/-! ### Placeholder strings → times -/

/-- placeholders of the path: start fields / end fields -/
def Ps (cfg : Cfg) (f : TField) : Bool := cfg.path.contains (.ph (.time false f))
def Pe (cfg : Cfg) (f : TField) : Bool := cfg.path.contains (.ph (.time true f))

/-- **the datetime arguments are recovered**: for an unambiguous template whose start fields name
a full date, the name generated for `(s, e)` is parsed and `_retrieve_time_coverage` works on
exactly the standardised fields of `s` and `e` (`stdOf`: year from year/year2, month/day from
month+day/doy, millisecond ↦ µs). -/
theorem C02_args_recovered (cfg : Cfg) (ctx : Ctx) (hu : Unambig cfg ctx cfg.path)
    (hs : GoodTime ctx.s) (he : GoodTime ctx.e)
    (hsok : StdOK (Ps cfg) ctx.s) (heok : StdOK (Pe cfg) ctx.e) (hdate : HasDate (Ps cfg)) :
    ∃ name, format cfg cfg.path ctx = .ok name ∧
      parseFilename cfg name = .ok (capsOf ctx cfg.path []) ∧
      retrieveTimeCoverage cfg (capsOf ctx cfg.path []) =
        coverageOf cfg.path (stdOf (Ps cfg) ctx.s) (stdOf (Pe cfg) ctx.e) := by
  obtain ⟨name, h1, h2, h3⟩ := C02_fields_recovered cfg ctx hu hs he
  have hfill := unambig_time_fillable cfg ctx cfg.path hu
  refine ⟨name, h1, h2, ?_⟩
  have hraw : ∀ isEnd, fieldVal (capsOf ctx cfg.path []) isEnd =
      rawOf (if isEnd then Pe cfg else Ps cfg) (if isEnd then ctx.e else ctx.s) := by
    intro isEnd
    funext f
    rw [fieldVal_capsOf_gen ctx hs he cfg.path hfill isEnd f]
    cases isEnd <;> simp [rawOf, Ps, Pe]
  have hne : (capsOf ctx cfg.path []).isEmpty = false := by
    obtain ⟨hy, _⟩ := hdate
    have : ∃ k, Tok.ph k ∈ cfg.path := by
      rcases hy with h | h
      · exact ⟨_, by simpa [Ps] using h⟩
      · exact ⟨_, by simpa [Ps] using h⟩
    obtain ⟨k, hk⟩ := this
    have := h3 k hk
    cases hc : capsOf ctx cfg.path [] with
    | nil => rw [hc] at this; simp at this
    | cons a b => rfl
  unfold retrieveTimeCoverage
  simp only [hne, capsNumeric_capsOf_gen ctx hs he cfg.path [] hfill, Bool.false_eq_true, ↓reduceIte,
    Bool.not_true]
  unfold toDatetimeArgs
  have h0 := hraw false
  have h1' := hraw true
  simp only [Bool.false_eq_true, ↓reduceIte] at h0 h1'
  rw [h0, h1', standardise_rawOf _ _ hs.1 hsok, standardise_rawOf _ _ he.1 heok]
  have hy : (stdOf (Ps cfg) ctx.s).year.isSome = true := by
    obtain ⟨hy, _⟩ := hdate
    rcases hy with h | h <;> simp [stdOf, h]
  simp [hy]

/-- **start round trip**: whatever the end fields are, when the time coverage is computed its
start is `s` cut to the template's resolution … -/
theorem C02_start_roundtrip (path : List Tok) (P : TField → Bool) (s : DateTime) (ea : Std)
    (hv : Valid s) (hd : HasDate P) (st en : Option DateTime)
    (h : coverageOf path (stdOf P s) ea = .ok (st, en)) : st = some (truncTo P s) := by
  unfold coverageOf at h
  simp only [stdOf_nonEmpty P s hd, mkDate_stdOf P s hv hd, ↓reduceIte] at h
  split at h
  · split at h
    · simp at h
    · split at h
      · split at h
        · simp at h
        · split at h
          · simp only [Except.ok.injEq, Prod.mk.injEq] at h; exact h.1.symm
          · simp at h
      · simp only [Except.ok.injEq, Prod.mk.injEq] at h; exact h.1.symm
  · simp only [Except.ok.injEq, Prod.mk.injEq] at h; exact h.1.symm

/-- … which is `s` itself when `s` is given at the template's resolution -/
theorem C02_truncTo_id (P : TField → Bool) (s : DateTime)
    (h1 : P .hour = false → s.h = 0) (h2 : P .minute = false → s.mi = 0)
    (h3 : P .second = false → s.s = 0) (h4 : P .millisecond = false → s.us = 0)
    (h5 : s.us % 1000 = 0) : truncTo P s = s := by
  cases s with
  | mk y mo d h mi sec us =>
    simp only [truncTo, DateTime.mk.injEq, true_and]
    simp only at h1 h2 h3 h4 h5
    refine ⟨?_, ?_, ?_, ?_⟩
    · cases hP : P .hour <;> simp [hP] at h1 ⊢; exact h1.symm
    · cases hP : P .minute <;> simp [hP] at h2 ⊢; exact h2.symm
    · cases hP : P .second <;> simp [hP] at h3 ⊢; exact h3.symm
    · cases hP : P .millisecond <;> simp [hP] at h4 ⊢
      · exact h4.symm
      · omega

/-- **no end fields**: the file name yields only the start -/
theorem C02_end_default (path : List Tok) (P : TField → Bool) (s : DateTime) (ea : Std)
    (hv : Valid s) (hd : HasDate P) (hea : ea.nonEmpty = false) :
    coverageOf path (stdOf P s) ea = .ok (some (truncTo P s), none) := by
  unfold coverageOf
  simp only [stdOf_nonEmpty P s hd, mkDate_stdOf P s hv hd, hea, ↓reduceIte, Bool.false_eq_true]

theorem stdOf_empty (P : TField → Bool) (t : DateTime) (h : ∀ f, P f = false) :
    (stdOf P t).nonEmpty = false := by
  simp [stdOf, Std.nonEmpty, h]

/-- **end spelled out as completely as the start**: the end fields name a full date and every
time field the start names; then the parsed end is `e` (cut to the end fields' resolution),
provided it does not precede the start -/
theorem C02_end_full (path : List Tok) (P Q : TField → Bool) (s e : DateTime)
    (hvs : Valid s) (hve : Valid e) (hdP : HasDate P) (hdQ : HasDate Q)
    (hsub : P .hour = true → Q .hour = true) (hsub2 : P .minute = true → Q .minute = true)
    (hsub3 : P .second = true → Q .second = true)
    (hsub4 : P .millisecond = true → Q .millisecond = true)
    (hle : lt (truncTo Q e) (truncTo P s) = false) :
    coverageOf path (stdOf P s) (stdOf Q e) = .ok (some (truncTo P s), some (truncTo Q e)) := by
  have hmerge : (stdOf P s).merge (stdOf Q e) = stdOf Q e := by
    obtain ⟨hy, hmd⟩ := hdQ
    have e1 : (Q .year2 || Q .year) = true := by rcases hy with h | h <;> simp [h]
    have e2 : (Q .doy || Q .month) = true := by rcases hmd with ⟨h, _⟩ | h <;> simp [h]
    have e3 : (Q .doy || Q .day) = true := by rcases hmd with ⟨_, h⟩ | h <;> simp [h]
    simp only [Std.merge, stdOf, e1, e2, e3, ↓reduceIte]
    cases h1 : Q .hour <;> cases h2 : Q .minute <;> cases h3 : Q .second <;>
      cases h4 : Q .millisecond <;> cases h5 : P .hour <;> cases h6 : P .minute <;>
      cases h7 : P .second <;> cases h8 : P .millisecond <;> simp_all
  unfold coverageOf
  simp only [stdOf_nonEmpty P s hdP, mkDate_stdOf P s hvs hdP, stdOf_nonEmpty Q e hdQ, hmerge,
    mkDate_stdOf Q e hve hdQ, hle, ↓reduceIte, Bool.false_eq_true]

/-- **end written with fewer fields** — any non-empty set of sub-day end fields (`SubDay`:
hour / minute / second / millisecond): the date and the missing fields come from the start
(`combine`); when the result would precede the start it is moved by the superior resolution of
the coarsest end field — `end_hour…` → 1 day, `end_minute…` → 1 hour, `end_second…` → 1 minute
(the code's table; `end_millisecond` alone → 10 ms).  `shiftEnd st c δ` is
`ofMicros (toMicros c + δ)`, i.e. the shift is on the time line, so midnight, month end, year
end and leap days are handled by the calendar (OverflowError beyond 9999-12-31). -/
theorem C02_end_partial (path : List Tok) (P Q : TField → Bool) (s e : DateTime)
    (hvs : Valid s) (hve : Valid e) (hdP : HasDate P)
    (hQ : ∀ f, path.contains (.ph (.time true f)) = Q f) (hq : SubDay Q) :
    coverageOf path (stdOf P s) (stdOf Q e) =
      (if lt (combine P Q s e) (truncTo P s) then
        shiftEnd (truncTo P s) (combine P Q s e) (resolution (endRank Q - 1))
      else .ok (some (truncTo P s), some (combine P Q s e))) ∧
    (Q .hour = true → resolution (endRank Q - 1) = 86400000000) ∧
    (Q .hour = false → Q .minute = true → resolution (endRank Q - 1) = 3600000000) ∧
    (Q .hour = false → Q .minute = false → Q .second = true →
      resolution (endRank Q - 1) = 60000000) :=
  ⟨coverageOf_subday path P Q s e hvs hve hdP hQ hq, endRank_units Q⟩

/-- corollary (`end_hour` given): a start at the template's resolution, an end whose minute /
second / µs agree with `combine`, and `s ≤ e < s + 1 day` ⇒ the parsed coverage is exactly
`(s, e)`, also across midnight / month end / year end -/
theorem C02_end_partial_recovered (path : List Tok) (P Q : TField → Bool) (s e : DateTime)
    (hvs : Valid s) (hve : Valid e) (hdP : HasDate P)
    (hQ : ∀ f, path.contains (.ph (.time true f)) = Q f) (hq : SubDay Q) (hhour : Q .hour = true)
    (hs : truncTo P s = s)
    (hte : (combine P Q s e).mi = e.mi ∧ (combine P Q s e).s = e.s ∧ (combine P Q s e).us = e.us)
    (hle : toMicros s ≤ toMicros e) (hlt : toMicros e < toMicros s + 86400000000) :
    coverageOf path (stdOf P s) (stdOf Q e) = .ok (some s, some e) :=
  coverageOf_subday_within_day path P Q s e hvs hve hdP hQ hq hhour hs hte hle hlt

/-- corollary (`end_minute` but no `end_hour`): `s ≤ e < s + 1 hour` ⇒ `(s, e)`, also when
`e` lies in the next hour, on the next day, … -/
theorem C02_end_partial_recovered_hour (path : List Tok) (P Q : TField → Bool) (s e : DateTime)
    (hvs : Valid s) (hve : Valid e) (hdP : HasDate P)
    (hQ : ∀ f, path.contains (.ph (.time true f)) = Q f) (hq : SubDay Q)
    (hhour : Q .hour = false) (hmin : Q .minute = true) (hs : truncTo P s = s)
    (hte : (combine P Q s e).s = e.s ∧ (combine P Q s e).us = e.us)
    (hle : toMicros s ≤ toMicros e) (hlt : toMicros e < toMicros s + 3600000000) :
    coverageOf path (stdOf P s) (stdOf Q e) = .ok (some s, some e) :=
  coverageOf_subday_within_hour path P Q s e hvs hve hdP hQ hq hhour hmin hs hte hle hlt

/-- corollary (`end_second` but neither `end_hour` nor `end_minute`): `s ≤ e < s + 1 minute` -/
theorem C02_end_partial_recovered_minute (path : List Tok) (P Q : TField → Bool) (s e : DateTime)
    (hvs : Valid s) (hve : Valid e) (hdP : HasDate P)
    (hQ : ∀ f, path.contains (.ph (.time true f)) = Q f) (hq : SubDay Q)
    (hhour : Q .hour = false) (hmin : Q .minute = false) (hsec : Q .second = true)
    (hs : truncTo P s = s) (hte : (combine P Q s e).us = e.us)
    (hle : toMicros s ≤ toMicros e) (hlt : toMicros e < toMicros s + 60000000) :
    coverageOf path (stdOf P s) (stdOf Q e) = .ok (some s, some e) :=
  coverageOf_subday_within_minute path P Q s e hvs hve hdP hQ hq hhour hmin hsec hs hte hle hlt

/-! ### get_info -/

/-- `get_info` in mode *filename* for a multi-file template whose name yields a start:
the end is the parsed end, else `start + time_coverage`, else the start (discrete files) -/
theorem C02_getInfo_filename (cfg : Cfg) (tc : Option Int) (h : Info) (name : List Char)
    (caps : Caps) (st : DateTime) (en : Option DateTime)
    (hsingle : singleFile cfg.path = false)
    (hp : parseFilename cfg name = .ok caps)
    (hr : retrieveTimeCoverage cfg caps = .ok (some st, en)) :
    getInfo cfg .filename tc h name =
      match en with
      | some e => .ok (st, e, attrUpdate [] (userCaps caps))
      | none =>
        match tc with
        | some δ =>
          match addDelta st δ with
          | .ok e => .ok (st, e, attrUpdate [] (userCaps caps))
          | .error err => .error err
        | none => .ok (st, st, attrUpdate [] (userCaps caps)) := by
  unfold getInfo
  simp only [hsingle, hp, hr, Info.update]
  cases en <;> first | rfl | simp

/-- **handler information overrides the file name** (`info_via = "both"`): times the handler
reports replace the parsed ones, its attributes are written over the parsed ones -/
theorem C02_handler_overrides (cfg : Cfg) (tc : Option Int) (name : List Char) (caps : Caps)
    (st en : Option DateTime) (hs he : DateTime) (ha : Attrs)
    (hp : parseFilename cfg name = .ok caps)
    (hr : retrieveTimeCoverage cfg caps = .ok (st, en)) :
    getInfo cfg .both tc { start := some hs, stop := some he, attrs := ha } name =
      .ok (hs, he, attrUpdate (attrUpdate [] (userCaps caps)) ha) := by
  unfold getInfo
  cases hsf : singleFile cfg.path <;> simp [hp, hr, Info.update]

/-- `info_via = "both"`, handler reports **only the start**: it replaces the parsed start; the
end stays the parsed one, else `start + time_coverage`, else the start -/
theorem C02_handler_only_start (cfg : Cfg) (tc : Option Int) (name : List Char) (caps : Caps)
    (st en : Option DateTime) (hs : DateTime) (ha : Attrs)
    (hsf : singleFile cfg.path = false)
    (hp : parseFilename cfg name = .ok caps)
    (hr : retrieveTimeCoverage cfg caps = .ok (st, en)) :
    getInfo cfg .both tc { start := some hs, stop := none, attrs := ha } name =
      match en with
      | some e => .ok (hs, e, attrUpdate (attrUpdate [] (userCaps caps)) ha)
      | none =>
        match tc with
        | some δ =>
          match addDelta hs δ with
          | .ok e => .ok (hs, e, attrUpdate (attrUpdate [] (userCaps caps)) ha)
          | .error err => .error err
        | none => .ok (hs, hs, attrUpdate (attrUpdate [] (userCaps caps)) ha) := by
  unfold getInfo
  simp only [hsf, hp, hr, Info.update]
  cases en <;> first | rfl | simp

/-- handler reports **only the end**: it replaces the parsed end, the start stays the parsed
one (and ValueError when the name yields no start) -/
theorem C02_handler_only_end (cfg : Cfg) (tc : Option Int) (name : List Char) (caps : Caps)
    (st en : Option DateTime) (he : DateTime) (ha : Attrs)
    (hsf : singleFile cfg.path = false)
    (hp : parseFilename cfg name = .ok caps)
    (hr : retrieveTimeCoverage cfg caps = .ok (st, en)) :
    getInfo cfg .both tc { start := none, stop := some he, attrs := ha } name =
      match st with
      | some s => .ok (s, he, attrUpdate (attrUpdate [] (userCaps caps)) ha)
      | none => .error .valueError := by
  unfold getInfo
  simp only [hsf, hp, hr, Info.update]
  cases st <;> first | rfl | simp

/-- handler reports **only attributes**: the times are those of the file name, the attributes
are written over the parsed ones -/
theorem C02_handler_only_attrs (cfg : Cfg) (tc : Option Int) (name : List Char) (caps : Caps)
    (s : DateTime) (e : DateTime) (ha : Attrs)
    (hsf : singleFile cfg.path = false)
    (hp : parseFilename cfg name = .ok caps)
    (hr : retrieveTimeCoverage cfg caps = .ok (some s, some e)) :
    getInfo cfg .both tc { start := none, stop := none, attrs := ha } name =
      .ok (s, e, attrUpdate (attrUpdate [] (userCaps caps)) ha) := by
  unfold getInfo
  simp [hsf, hp, hr, Info.update]

/-- a handler that reports nothing leaves the parsed information untouched -/
theorem C02_handler_silent (a : Info) : a.update {} = a := by
  cases a; simp [Info.update, attrUpdate]

/-! ### The property's own sentence: `get_info (get_filename (s, e), fill = a)` -/

theorem singleFile_false_of_ph (path : List Tok) (k : Key) (h : Tok.ph k ∈ path) :
    singleFile path = false := by
  unfold singleFile
  rw [List.all_eq_false]
  exact ⟨_, h, by simp⟩

theorem hasDate_ph (cfg : Cfg) (h : HasDate (Ps cfg)) : ∃ k, Tok.ph k ∈ cfg.path := by
  rcases h.1 with h | h
  · exact ⟨_, by simpa [Ps] using h⟩
  · exact ⟨_, by simpa [Ps] using h⟩

/-- the user placeholders come back as attributes with their fill values -/
theorem attrs_lookup (cfg : Cfg) (ctx : Ctx) (hu : Unambig cfg ctx cfg.path) (a : Attrs) :
    ∀ n v, Tok.ph (.user n) ∈ cfg.path → ctx.fill.lookup n = some v →
      (attrUpdate a (userCaps (capsOf ctx cfg.path []))).lookup n = some v := by
  intro n v hmem hfill
  rw [attrs_capsOf ctx cfg.path n hmem a]
  simp [keyStr, hfill]

/-- **attributes recovered**: whatever times `get_info` reports for the generated name, every
user placeholder of the template is reported as an attribute holding its fill value -/
theorem C02_attrs_recovered (cfg : Cfg) (ctx : Ctx) (hu : Unambig cfg ctx cfg.path)
    (hs : GoodTime ctx.s) (he : GoodTime ctx.e) (tc : Option Int) (hd : Info) :
    ∃ name, format cfg cfg.path ctx = .ok name ∧
      ∀ a b attrs, getInfo cfg .filename tc hd name = .ok (a, b, attrs) →
        ∀ n v, Tok.ph (.user n) ∈ cfg.path → ctx.fill.lookup n = some v →
          attrs.lookup n = some v := by
  obtain ⟨name, h1, h2, _⟩ := C02_fields_recovered cfg ctx hu hs he
  refine ⟨name, h1, ?_⟩
  intro a b attrs hg n v hmem hfill
  obtain ⟨caps, hp, hattrs⟩ := getInfo_filename_attrs cfg tc hd name a b attrs hg
  rw [h2] at hp
  simp only [Except.ok.injEq] at hp
  subst hp; subst hattrs
  exact attrs_lookup cfg ctx hu [] n v hmem hfill

/-- hypotheses shared by the round-trip theorems: an unambiguous template whose start fields
name a full date, `s` and `e` in the claimed ranges, `s` given at the template's resolution -/
structure RoundTrip (cfg : Cfg) (ctx : Ctx) : Prop where
  unambig : Unambig cfg ctx cfg.path
  goodS : GoodTime ctx.s
  goodE : GoodTime ctx.e
  stdS : StdOK (Ps cfg) ctx.s
  stdE : StdOK (Pe cfg) ctx.e
  date : HasDate (Ps cfg)
  atRes : truncTo (Ps cfg) ctx.s = ctx.s

theorem roundtrip_tail (cfg : Cfg) (ctx : Ctx) (h : RoundTrip cfg ctx) (tc : Option Int) (hd : Info)
    (e' : DateTime)
    (hcov : coverageOf cfg.path (stdOf (Ps cfg) ctx.s) (stdOf (Pe cfg) ctx.e) =
      .ok (some ctx.s, some e')) :
    ∃ name attrs, format cfg cfg.path ctx = .ok name ∧
      getInfo cfg .filename tc hd name = .ok (ctx.s, e', attrs) ∧
      ∀ n v, Tok.ph (.user n) ∈ cfg.path → ctx.fill.lookup n = some v →
        attrs.lookup n = some v := by
  obtain ⟨name, h1, h2, hr⟩ :=
    C02_args_recovered cfg ctx h.unambig h.goodS h.goodE h.stdS h.stdE h.date
  obtain ⟨k, hk⟩ := hasDate_ph cfg h.date
  have hg := C02_getInfo_filename cfg tc hd name _ ctx.s (some e')
    (singleFile_false_of_ph _ k hk) h2 (hr.trans hcov)
  exact ⟨name, _, h1, hg, attrs_lookup cfg ctx h.unambig []⟩

/-- **round trip, end spelled out as completely as the start**:
`get_info(get_filename((s, e), fill = a))` reports start `s`, end `e` and the attributes `a` -/
theorem C02_roundtrip_full (cfg : Cfg) (ctx : Ctx) (h : RoundTrip cfg ctx) (tc : Option Int)
    (hd : Info) (hdE : HasDate (Pe cfg))
    (h1 : Ps cfg .hour = true → Pe cfg .hour = true)
    (h2 : Ps cfg .minute = true → Pe cfg .minute = true)
    (h3 : Ps cfg .second = true → Pe cfg .second = true)
    (h4 : Ps cfg .millisecond = true → Pe cfg .millisecond = true)
    (hresE : truncTo (Pe cfg) ctx.e = ctx.e) (hle : lt ctx.e ctx.s = false) :
    ∃ name attrs, format cfg cfg.path ctx = .ok name ∧
      getInfo cfg .filename tc hd name = .ok (ctx.s, ctx.e, attrs) ∧
      ∀ n v, Tok.ph (.user n) ∈ cfg.path → ctx.fill.lookup n = some v →
        attrs.lookup n = some v := by
  apply roundtrip_tail cfg ctx h tc hd ctx.e
  have := C02_end_full cfg.path (Ps cfg) (Pe cfg) ctx.s ctx.e h.goodS.1 h.goodE.1 h.date hdE
    h1 h2 h3 h4 (by rw [hresE, h.atRes]; exact hle)
  rw [this, hresE, h.atRes]

/-- **round trip, end written with sub-day fields only** (`{…}{hour}{minute}-{end_hour}{end_minute}`):
for `s ≤ e < s + 1 day` the reported coverage is `(s, e)` — also when `e` lies on the next
day, in the next month or year — and the attributes are `a` -/
theorem C02_roundtrip_subday (cfg : Cfg) (ctx : Ctx) (h : RoundTrip cfg ctx) (tc : Option Int)
    (hd : Info) (hq : SubDay (Pe cfg)) (hhour : Pe cfg .hour = true)
    (hte : (combine (Ps cfg) (Pe cfg) ctx.s ctx.e).mi = ctx.e.mi ∧
      (combine (Ps cfg) (Pe cfg) ctx.s ctx.e).s = ctx.e.s ∧
      (combine (Ps cfg) (Pe cfg) ctx.s ctx.e).us = ctx.e.us)
    (hle : toMicros ctx.s ≤ toMicros ctx.e) (hlt : toMicros ctx.e < toMicros ctx.s + 86400000000) :
    ∃ name attrs, format cfg cfg.path ctx = .ok name ∧
      getInfo cfg .filename tc hd name = .ok (ctx.s, ctx.e, attrs) ∧
      ∀ n v, Tok.ph (.user n) ∈ cfg.path → ctx.fill.lookup n = some v →
        attrs.lookup n = some v := by
  apply roundtrip_tail cfg ctx h tc hd ctx.e
  exact C02_end_partial_recovered cfg.path (Ps cfg) (Pe cfg) ctx.s ctx.e h.goodS.1 h.goodE.1
    h.date (fun _ => rfl) hq hhour h.atRes hte hle hlt

/-- **round trip, end written with `end_minute` (…) but no `end_hour`**
(`{…}{hour}{minute}-{end_minute}`): for `s ≤ e < s + 1 hour` the reported coverage is `(s, e)`
— the end is moved to the next hour when it would precede the start -/
theorem C02_roundtrip_subhour (cfg : Cfg) (ctx : Ctx) (h : RoundTrip cfg ctx) (tc : Option Int)
    (hd : Info) (hq : SubDay (Pe cfg)) (hhour : Pe cfg .hour = false)
    (hmin : Pe cfg .minute = true)
    (hte : (combine (Ps cfg) (Pe cfg) ctx.s ctx.e).s = ctx.e.s ∧
      (combine (Ps cfg) (Pe cfg) ctx.s ctx.e).us = ctx.e.us)
    (hle : toMicros ctx.s ≤ toMicros ctx.e) (hlt : toMicros ctx.e < toMicros ctx.s + 3600000000) :
    ∃ name attrs, format cfg cfg.path ctx = .ok name ∧
      getInfo cfg .filename tc hd name = .ok (ctx.s, ctx.e, attrs) ∧
      ∀ n v, Tok.ph (.user n) ∈ cfg.path → ctx.fill.lookup n = some v →
        attrs.lookup n = some v := by
  apply roundtrip_tail cfg ctx h tc hd ctx.e
  exact C02_end_partial_recovered_hour cfg.path (Ps cfg) (Pe cfg) ctx.s ctx.e h.goodS.1 h.goodE.1
    h.date (fun _ => rfl) hq hhour hmin h.atRes hte hle hlt

/-- **round trip, template without end fields**: the end is `s + time_coverage`, or `s` for
discrete files (no `time_coverage`) -/
theorem C02_roundtrip_default (cfg : Cfg) (ctx : Ctx) (h : RoundTrip cfg ctx) (hd : Info)
    (hnoend : ∀ f, Pe cfg f = false) :
    ∃ name attrs, format cfg cfg.path ctx = .ok name ∧
      getInfo cfg .filename none hd name = .ok (ctx.s, ctx.s, attrs) ∧
      (∀ δ e', addDelta ctx.s δ = .ok e' →
        getInfo cfg .filename (some δ) hd name = .ok (ctx.s, e', attrs)) ∧
      ∀ n v, Tok.ph (.user n) ∈ cfg.path → ctx.fill.lookup n = some v →
        attrs.lookup n = some v := by
  obtain ⟨name, h1, h2, hr⟩ :=
    C02_args_recovered cfg ctx h.unambig h.goodS h.goodE h.stdS h.stdE h.date
  obtain ⟨k, hk⟩ := hasDate_ph cfg h.date
  have hcov := C02_end_default cfg.path (Ps cfg) ctx.s (stdOf (Pe cfg) ctx.e) h.goodS.1 h.date
    (stdOf_empty _ _ hnoend)
  rw [h.atRes] at hcov
  have hsf := singleFile_false_of_ph _ k hk
  refine ⟨name, _, h1, ?_, ?_, attrs_lookup cfg ctx h.unambig []⟩
  · exact C02_getInfo_filename cfg none hd name _ ctx.s none hsf h2 (hr.trans hcov)
  · intro δ e' hadd
    have := C02_getInfo_filename cfg (some δ) hd name _ ctx.s none hsf h2 (hr.trans hcov)
    simp only [hadd] at this
    exact this

/-- **round trip with `info_via = "both"`**: the handler's information overrides the
name-derived one field-wise, exactly as `FileInfo.update` does — a reported start replaces the
parsed start, a reported end replaces the parsed end (else the parsed end, else
`start + time_coverage`, else the start), its attributes are written over the parsed ones and
the remaining user placeholders keep their fill values.  `en` is the name-derived end as given
by `C02_end_full` / `C02_end_partial_recovered*` / `C02_end_default`. -/
theorem C02_roundtrip_both (cfg : Cfg) (ctx : Ctx) (h : RoundTrip cfg ctx) (tc : Option Int)
    (hd : Info) (en : Option DateTime)
    (hcov : coverageOf cfg.path (stdOf (Ps cfg) ctx.s) (stdOf (Pe cfg) ctx.e) =
      .ok (some ctx.s, en)) :
    ∃ name attrs, format cfg cfg.path ctx = .ok name ∧
      getInfo cfg .both tc hd name =
        (match (match hd.stop with | some t => some t | none => en) with
          | some e' => .ok (hd.start.getD ctx.s, e', attrs)
          | none =>
            match tc with
            | some δ =>
              match addDelta (hd.start.getD ctx.s) δ with
              | .ok e' => .ok (hd.start.getD ctx.s, e', attrs)
              | .error err => .error err
            | none => .ok (hd.start.getD ctx.s, hd.start.getD ctx.s, attrs)) ∧
      (∀ n v, (∃ kv ∈ hd.attrs, kv.1 = n) → (∀ kv ∈ hd.attrs, kv.1 = n → kv.2 = v) →
        attrs.lookup n = some v) ∧
      (∀ n v, (∀ kv ∈ hd.attrs, kv.1 ≠ n) → Tok.ph (.user n) ∈ cfg.path →
        ctx.fill.lookup n = some v → attrs.lookup n = some v) := by
  obtain ⟨name, h1, h2, hr⟩ :=
    C02_args_recovered cfg ctx h.unambig h.goodS h.goodE h.stdS h.stdE h.date
  obtain ⟨k, hk⟩ := hasDate_ph cfg h.date
  have hsf := singleFile_false_of_ph _ k hk
  refine ⟨name, attrUpdate (attrUpdate [] (userCaps (capsOf ctx cfg.path []))) hd.attrs, h1, ?_, ?_, ?_⟩
  · unfold getInfo
    simp only [hsf, h2, hr.trans hcov, Info.update]
    obtain ⟨hstart, hstop, hattrs⟩ := hd
    cases hstart <;> cases hstop <;> cases en <;> cases tc <;> first | rfl | simp
  · intro n v hex hval
    exact lookup_attrUpdate hd.attrs n v hval _ (Or.inr hex)
  · intro n v habs hmem hfill
    exact lookup_attrUpdate hd.attrs n v (fun kv hkv hk => absurd hk (habs kv hkv)) _
      (Or.inl (attrs_lookup cfg ctx h.unambig [] n v hmem hfill))

/-- the same for a template whose end is spelled out as completely as the start: the reported
coverage is `(handler start or s, handler end or e)` -/
theorem C02_roundtrip_both_full (cfg : Cfg) (ctx : Ctx) (h : RoundTrip cfg ctx) (tc : Option Int)
    (hd : Info) (hdE : HasDate (Pe cfg))
    (h1 : Ps cfg .hour = true → Pe cfg .hour = true)
    (h2 : Ps cfg .minute = true → Pe cfg .minute = true)
    (h3 : Ps cfg .second = true → Pe cfg .second = true)
    (h4 : Ps cfg .millisecond = true → Pe cfg .millisecond = true)
    (hresE : truncTo (Pe cfg) ctx.e = ctx.e) (hle : lt ctx.e ctx.s = false) :
    ∃ name attrs, format cfg cfg.path ctx = .ok name ∧
      getInfo cfg .both tc hd name = .ok (hd.start.getD ctx.s, hd.stop.getD ctx.e, attrs) ∧
      (∀ n v, (∃ kv ∈ hd.attrs, kv.1 = n) → (∀ kv ∈ hd.attrs, kv.1 = n → kv.2 = v) →
        attrs.lookup n = some v) ∧
      (∀ n v, (∀ kv ∈ hd.attrs, kv.1 ≠ n) → Tok.ph (.user n) ∈ cfg.path →
        ctx.fill.lookup n = some v → attrs.lookup n = some v) := by
  have hcov : coverageOf cfg.path (stdOf (Ps cfg) ctx.s) (stdOf (Pe cfg) ctx.e) =
      .ok (some ctx.s, some ctx.e) := by
    have := C02_end_full cfg.path (Ps cfg) (Pe cfg) ctx.s ctx.e h.goodS.1 h.goodE.1 h.date hdE
      h1 h2 h3 h4 (by rw [hresE, h.atRes]; exact hle)
    rw [this, hresE, h.atRes]
  obtain ⟨name, attrs, hf, hg, ha1, ha2⟩ := C02_roundtrip_both cfg ctx h tc hd (some ctx.e) hcov
  refine ⟨name, attrs, hf, ?_, ha1, ha2⟩
  rw [hg]
  cases hd.stop <;> rfl

/-! ### Non-vacuity and executable sanity tests (tests, not theorems) -/

section Examples

def exPath : List Tok :=
  [.lit '/', .ph (.time false .year2), .lit '/', .ph (.time false .doy), .lit '.',
   .ph (.time false .hour), .ph (.time false .minute), .lit '-', .ph (.time true .hour),
   .ph (.time true .minute), .lit '_', .ph (.time false .year2), .lit '.', .lit 'n', .lit 'c']

def exCfg : Cfg := { path := exPath }
def exS : DateTime := { y := 2016, mo := 12, d := 31, h := 23, mi := 30 }
def exE : DateTime := { y := 2017, mo := 1, d := 1, h := 0, mi := 15 }

-- the hypotheses of the theorems above are satisfiable by a non-trivial template / period
example : (∀ t ∈ exPath, FixedTok t) := by
  simp [exPath, FixedTok, regexActive, special, fillable]
example : GoodTime exS ∧ GoodTime exE := by unfold GoodTime Valid; decide
example : StdOK (Ps exCfg) exS ∧ StdOK (Pe exCfg) exE ∧ HasDate (Ps exCfg) := by
  unfold StdOK NoSub HasDate; decide
example : SubDay (Pe exCfg) := by unfold SubDay NoSub; decide
-- an undeclared user placeholder without a fill (its default regex `.+?` contains `?`)
example : format { path := [.lit 'a', .ph (.user "sat")] } [.lit 'a', .ph (.user "sat")]
    { s := dtMin, e := dtMin } = .error .unfilledPlaceholder := by decide

#guard format exCfg exPath { s := exS, e := exE } = .ok "/16/366.2330-0015_16.nc".toList
#guard (parseFilename exCfg "/16/366.2330-0015_16.nc".toList).toOption.map (·.length) = some 6
-- sub-day end rolls over to the next day (here also the next year)
#guard getInfo exCfg .filename none {} "/16/366.2330-0015_16.nc".toList = .ok (exS, exE, [])
#guard getInfo exCfg .filename none {} "/16/366.2330-0015_17.nc".toList = .ok (exS, exE, [])
#guard getInfo exCfg .filename none {} "/16/366.2330-0015_16.nx".toList = .error .valueError
-- year2 threshold, doy 366 in a leap year
#guard expandYear2 64 = 2064 ∧ expandYear2 65 = 1965
#guard matchItems [(.lazy 1, some (.user "a")), (.char '_', none), (.alt ["ab".toList, "abc".toList], some (.user "b")), (.char '.', none)]
        "x_y_abc.".toList = some [(.user "a", "x_y".toList), (.user "b", "abc".toList)]

-- a template with a repeated value-list placeholder, sub-day end, roll-over into the next year
def exPath2 : List Tok :=
  [.lit '/', .ph (.user "sat"), .lit '/', .ph (.time false .year), .ph (.time false .month),
   .ph (.time false .day), .lit '_', .ph (.time false .hour), .ph (.time false .minute), .lit '-',
   .ph (.time true .hour), .ph (.time true .minute), .lit '_', .ph (.user "sat"), .lit '.',
   .lit 'n', .lit 'c']
def exCfg2 : Cfg := { path := exPath2, env := [("sat", .alt ["noaa".toList, "noaa18".toList, "metop".toList])] }
def exCtx2 : Ctx := { s := exS, e := exE, fill := [("sat", "noaa18".toList)] }

example : RoundTrip exCfg2 exCtx2 := by
  refine ⟨?_, by unfold GoodTime Valid; decide, by unfold GoodTime Valid; decide,
    by unfold StdOK NoSub; decide, by unfold StdOK NoSub; decide, by unfold HasDate; decide,
    by decide⟩
  simp [exCfg2, exPath2, exCtx2, Unambig, UserOK, ValueOK, litPrefix, Cfg.regexOf, regexActive,
    special, fillable, List.lookup, URegex.plain, metaChar]
example : SubDay (Pe exCfg2) := by unfold SubDay NoSub; decide
#guard format exCfg2 exPath2 exCtx2 = .ok "/noaa18/20161231_2330-0015_noaa18.nc".toList
#guard getInfo exCfg2 .filename none {} "/noaa18/20161231_2330-0015_noaa18.nc".toList
        = .ok (exS, exE, [("sat", "noaa18".toList)])

-- joint hypotheses of C02_end_full / C02_roundtrip_full: end spelled out completely
def exPath3 : List Tok :=
  [.lit '/', .ph (.time false .year), .ph (.time false .month), .ph (.time false .day), .lit '_',
   .ph (.time false .hour), .lit '-', .ph (.time true .year2), .ph (.time true .doy), .lit 'T',
   .ph (.time true .hour), .ph (.time true .minute), .lit '.', .lit 'n', .lit 'c']
def exCfg3 : Cfg := { path := exPath3 }
def exCtx3 : Ctx := { s := { y := 2016, mo := 12, d := 31, h := 23 }, e := exE }

theorem exRoundTrip3 : RoundTrip exCfg3 exCtx3 := by
  refine ⟨?_, by unfold GoodTime Valid; decide, by unfold GoodTime Valid; decide,
    by unfold StdOK NoSub; decide, by unfold StdOK NoSub; decide, by unfold HasDate; decide,
    by decide⟩
  simp [exCfg3, exPath3, Unambig, regexActive, special, fillable]

example :=
  C02_roundtrip_full exCfg3 exCtx3 exRoundTrip3 none {} (by unfold HasDate; decide)
    (by decide) (by decide) (by decide) (by decide) (by decide) (by decide +kernel)

example :=
  C02_end_full exPath3 (Ps exCfg3) (Pe exCfg3) exCtx3.s exCtx3.e (by unfold Valid; decide)
    (by unfold Valid; decide) (by unfold HasDate; decide) (by unfold HasDate; decide)
    (by decide) (by decide) (by decide) (by decide) (by decide +kernel)
#guard format exCfg3 exPath3 exCtx3 = .ok "/20161231_23-17001T0015.nc".toList
#guard getInfo exCfg3 .filename none {} "/20161231_23-17001T0015.nc".toList = .ok (exCtx3.s, exE, [])

-- joint hypotheses of C02_roundtrip_default: no end fields, a value-list placeholder
def exPath4 : List Tok :=
  [.lit '/', .ph (.time false .year2), .ph (.time false .doy), .lit '_', .ph (.user "sat"),
   .lit '.', .lit 'h', .lit '5']
def exCfg4 : Cfg := { path := exPath4, env := [("sat", .alt ["a".toList, "ab".toList])] }
def exCtx4 : Ctx := { s := { y := 2064, mo := 12, d := 31 }, e := { y := 2064, mo := 12, d := 31 },
                      fill := [("sat", "ab".toList)] }

theorem exRoundTrip4 : RoundTrip exCfg4 exCtx4 := by
  refine ⟨?_, by unfold GoodTime Valid; decide, by unfold GoodTime Valid; decide,
    by unfold StdOK NoSub; decide, by unfold StdOK NoSub; decide, by unfold HasDate; decide,
    by decide⟩
  simp [exCfg4, exPath4, exCtx4, Unambig, UserOK, ValueOK, litPrefix, Cfg.regexOf, regexActive,
    special, fillable, List.lookup, URegex.plain, metaChar]

example :=
  C02_roundtrip_default exCfg4 exCtx4 exRoundTrip4 {} (by intro f; cases f <;> decide)
#guard getInfo exCfg4 .filename (some 3600000000) {} "/64366_ab.h5".toList
        = .ok (exCtx4.s, { y := 2064, mo := 12, d := 31, h := 1 }, [("sat", "ab".toList)])

-- joint hypotheses of C02_roundtrip_subhour: `end_minute` only, roll-over into the next hour/day/year
def exPath5 : List Tok :=
  [.lit '/', .ph (.time false .year), .ph (.time false .doy), .lit '.', .ph (.time false .hour),
   .ph (.time false .minute), .lit '-', .ph (.time true .minute)]
def exCfg5 : Cfg := { path := exPath5 }
def exCtx5 : Ctx := { s := { y := 2016, mo := 12, d := 31, h := 23, mi := 50 },
                      e := { y := 2017, mo := 1, d := 1, h := 0, mi := 10 } }

theorem exRoundTrip5 : RoundTrip exCfg5 exCtx5 := by
  refine ⟨?_, by unfold GoodTime Valid; decide, by unfold GoodTime Valid; decide,
    by unfold StdOK NoSub; decide, by unfold StdOK NoSub; decide, by unfold HasDate; decide,
    by decide⟩
  simp [exCfg5, exPath5, Unambig, regexActive, special, fillable]

example :=
  C02_roundtrip_subhour exCfg5 exCtx5 exRoundTrip5 none {} (by unfold SubDay NoSub; decide)
    (by decide) (by decide) (by decide) (by decide +kernel) (by decide +kernel)
#guard getInfo exCfg5 .filename none {} "/2016366.2350-10".toList = .ok (exCtx5.s, exCtx5.e, [])

-- the DEFAULT lazy regex `.+?` (undeclared placeholder `name`), value "a.b" containing '.'
-- followed by the literal ".nc"; a character-class placeholder; a `\d{3}` placeholder
def exPath6 : List Tok :=
  [.lit '/', .ph (.user "orbit"), .lit '_', .ph (.time false .year), .ph (.time false .month),
   .ph (.time false .day), .lit '_', .ph (.user "sat"), .lit '-', .ph (.user "name"), .lit '.',
   .lit 'n', .lit 'c']
def exCfg6 : Cfg :=
  { path := exPath6,
    env := [("sat", .cls [('a', 'z'), ('0', '9')] .plus), ("orbit", .digits 3)] }
def exCtx6 : Ctx :=
  { s := { y := 2018, mo := 2, d := 28 }, e := { y := 2018, mo := 2, d := 28 },
    fill := [("name", "a.b".toList), ("sat", "noaa18".toList), ("orbit", "042".toList)] }

theorem exNoEarly : NoEarly "a.b".toList ".nc".toList := by
  intro k hk
  have : k = 0 ∨ k = 1 ∨ k = 2 := by simp at hk; omega
  rcases this with rfl | rfl | rfl <;> decide
-- … whereas a value that already contains the following literal is (rightly) excluded
example : ¬ NoEarly "a.nc".toList ".nc".toList := by
  intro h; have := h 1 (by decide); revert this; decide

theorem exRoundTrip6 : RoundTrip exCfg6 exCtx6 := by
  refine ⟨?_, by unfold GoodTime Valid; decide, by unfold GoodTime Valid; decide,
    by unfold StdOK NoSub; decide, by unfold StdOK NoSub; decide, by unfold HasDate; decide,
    by decide⟩
  have h := exNoEarly
  simp [exCfg6, exPath6, exCtx6, Unambig, UserOK, ValueOK, litPrefix, Cfg.regexOf, regexActive,
    special, fillable, List.lookup, inCls, isDigit]
  exact ⟨by decide, by decide, by decide, Or.inl h⟩

example := C02_roundtrip_default exCfg6 exCtx6 exRoundTrip6 {} (by intro f; cases f <;> decide)
#guard format exCfg6 exPath6 exCtx6 = .ok "/042_20180228_noaa18-a.b.nc".toList
#guard getInfo exCfg6 .filename none {} "/042_20180228_noaa18-a.b.nc".toList
        = .ok (exCtx6.s, exCtx6.s, [("orbit", "042".toList), ("sat", "noaa18".toList), ("name", "a.b".toList)])

-- joint hypotheses of C02_roundtrip_both_full; handler overrides the end and adds an attribute
example :=
  C02_roundtrip_both_full exCfg3 exCtx3 exRoundTrip3 none
    { start := none, stop := some { y := 2017, mo := 1, d := 2 }, attrs := [("orbit", "7".toList)] }
    (by unfold HasDate; decide) (by decide) (by decide) (by decide) (by decide) (by decide)
    (by decide +kernel)
#guard getInfo exCfg3 .both none
        { start := none, stop := some { y := 2017, mo := 1, d := 2 }, attrs := [("orbit", "7".toList)] }
        "/20161231_23-17001T0015.nc".toList
      = .ok (exCtx3.s, { y := 2017, mo := 1, d := 2 }, [("orbit", "7".toList)])

-- handler attributes on a template WITH user placeholders: the handler's `sat` wins, `name` and
-- `orbit` keep their fill values; lazy placeholder at the very END of a template
theorem exCov6 : coverageOf exCfg6.path (stdOf (Ps exCfg6) exCtx6.s) (stdOf (Pe exCfg6) exCtx6.e) =
    .ok (some exCtx6.s, none) := by
  have := C02_end_default exCfg6.path (Ps exCfg6) exCtx6.s (stdOf (Pe exCfg6) exCtx6.e)
    (by unfold Valid; decide) (by unfold HasDate; decide)
    (stdOf_empty _ _ (by intro f; cases f <;> decide))
  rw [this, exRoundTrip6.atRes]
example :=
  C02_roundtrip_both exCfg6 exCtx6 exRoundTrip6 none
    { start := none, stop := none, attrs := [("sat", "H".toList)] } none exCov6
#guard getInfo exCfg6 .both none { start := none, stop := none, attrs := [("sat", "H".toList)] }
        "/042_20180228_noaa18-a.b.nc".toList
      = .ok (exCtx6.s, exCtx6.s, [("orbit", "042".toList), ("sat", "H".toList), ("name", "a.b".toList)])

def exPath7 : List Tok :=
  [.lit '/', .ph (.time false .year), .ph (.time false .doy), .lit '/', .ph (.user "name")]
def exCfg7 : Cfg := { path := exPath7 }
def exCtx7 : Ctx := { s := { y := 2020, mo := 12, d := 31 }, e := { y := 2020, mo := 12, d := 31 },
                      fill := [("name", "x.y.nc".toList)] }
theorem exRoundTrip7 : RoundTrip exCfg7 exCtx7 := by
  refine ⟨?_, by unfold GoodTime Valid; decide, by unfold GoodTime Valid; decide,
    by unfold StdOK NoSub; decide, by unfold StdOK NoSub; decide, by unfold HasDate; decide,
    by decide⟩
  simp [exCfg7, exPath7, exCtx7, Unambig, UserOK, ValueOK, LazyOK, litPrefix, Cfg.regexOf,
    regexActive, special, fillable, List.lookup, URegex.plain]
#guard getInfo exCfg7 .filename none {} "/2020366/x.y.nc".toList
        = .ok (exCtx7.s, exCtx7.s, [("name", "x.y.nc".toList)])

-- OUTSIDE the claim (auditor's counterexamples): typhon pastes value-list words and class
-- ranges raw into the regex, so a word with a metacharacter is a regex, not a literal —
-- `URegex.plain` excludes them, the model refuses to compile them (regexError = outside the
-- fragment), and no `Unambig` / `RoundTrip` instance exists for them.
example : (URegex.alt ["a.c".toList, "a".toList]).plain = false := by decide
example : (URegex.cls [('^', '^'), ('a', 'a')] .plus).plain = false := by decide
def exCfgBad : Cfg :=
  { path := [.lit '/', .ph (.time false .year), .ph (.time false .month), .ph (.time false .day),
             .lit '_', .ph (.user "x"), .lit '-', .lit 'c', .ph (.user "y"), .lit '.', .lit 'n', .lit 'c'],
    env := [("x", .alt ["a.c".toList, "a".toList])] }
example : ∀ ctx, ¬ Unambig exCfgBad ctx exCfgBad.path := by
  intro ctx h
  have hu : UserOK exCfgBad ctx "x" _ := h.2.2.2.2.2.2.2.1
  obtain ⟨r, v, hreg, _, hplain, _⟩ := userOK_elim hu
  have hx : exCfgBad.regexOf "x" = some (.alt ["a.c".toList, "a".toList]) := by
    simp [exCfgBad, Cfg.regexOf, List.lookup]
  rw [hx] at hreg
  simp only [Option.some.injEq] at hreg
  subst hreg
  revert hplain; decide
#guard parseFilename exCfgBad "/20180102_a-c-cz.nc".toList = .error .regexError

end Examples

assert_axioms C02_parse_pad C02_ofYearDoy_doyOf C02_toMicros_strictMono C02_lt_iff_lex
  C02_ofMicros_toMicros C02_expandYear2_roundtrip C02_fields_recovered C02_no_misparse
  C02_rejected C02_unknown_placeholder C02_unfilled_placeholder C02_args_recovered
  C02_start_roundtrip C02_truncTo_id C02_end_default C02_end_full C02_getInfo_filename
  C02_handler_overrides C02_handler_silent C02_end_partial C02_end_partial_recovered
  C02_fixed_unambig C02_attrs_recovered C02_roundtrip_full C02_roundtrip_subday C02_roundtrip_default
  C02_end_partial_recovered_hour C02_end_partial_recovered_minute C02_roundtrip_subhour
  C02_rejected_of_no_instance C02_unknown_time_placeholder C02_unknown_user_placeholder
  C02_unfilled_of_piece C02_unfilled_star C02_unfilled_user C02_handler_only_start
  C02_handler_only_end C02_handler_only_attrs C02_roundtrip_both C02_roundtrip_both_full
