import Proofs.Lemmas.IntervalTree
import Proofs.Audit

/-!
# C03 — interval queries report exactly the overlapping intervals

Property theorems only (helper lemmas live in `Proofs/Lemmas/IntervalTree.lean`).
All statements are for an arbitrary linear order `α` (Int, NaN-free floats,
datetimes are instances) and arbitrary lists of closed intervals with `lo ≤ hi`:
unsorted, nested, duplicated, degenerate, containing 0 or negative values.
-/

open ITree

variable {α : Type} [LinearOrder α]

/-- rows of `mk` after the stable sort are a permutation of `mkRows`, still well formed -/
private theorem sorted_rows (ivs : List (α × α)) (h : ∀ iv ∈ ivs, iv.1 ≤ iv.2) :
    let rows := (mkRows ivs).mergeSort (fun a b => decide (a.lo ≤ b.lo))
    rows.Perm (mkRows ivs) ∧ WF rows := by
  intro rows
  have hp : rows.Perm (mkRows ivs) := List.mergeSort_perm _ _
  exact ⟨hp, fun r hr => wf_mkRows ivs h r (hp.mem_iff.mp hr)⟩

private theorem mem_specQ_mkRows (ivs : List (α × α)) (qlo qhi : α) (i : Nat) :
    i ∈ specQ (mkRows ivs) qlo qhi ↔
      ∃ h : i < ivs.length, ivs[i].1 ≤ qhi ∧ qlo ≤ ivs[i].2 := by
  unfold specQ mkRows
  simp only [List.mem_map, List.mem_filter, overlaps, Bool.and_eq_true, decide_eq_true_eq]
  constructor
  · rintro ⟨r, ⟨⟨⟨iv, j⟩, hmem, rfl⟩, h1, h2⟩, rfl⟩
    have := List.mem_zipIdx hmem
    simp only [Nat.sub_zero, Nat.zero_add] at this
    refine ⟨this.2.1, ?_⟩
    simp only at h1 h2 ⊢
    rw [← this.2.2]; exact ⟨h1, h2⟩
  · rintro ⟨hlt, h1, h2⟩
    refine ⟨⟨ivs[i].1, ivs[i].2, i⟩, ⟨⟨(ivs[i], i), ?_, rfl⟩, h1, h2⟩, rfl⟩
    exact List.mem_zipIdx_iff_getElem?.mpr (by simp [hlt])

private theorem mem_specP_mkRows (ivs : List (α × α)) (p : α) (i : Nat) :
    i ∈ specP (mkRows ivs) p ↔
      ∃ h : i < ivs.length, ivs[i].1 ≤ p ∧ p ≤ ivs[i].2 := by
  unfold specP mkRows
  simp only [List.mem_map, List.mem_filter, containsPt, Bool.and_eq_true, decide_eq_true_eq]
  constructor
  · rintro ⟨r, ⟨⟨⟨iv, j⟩, hmem, rfl⟩, h1, h2⟩, rfl⟩
    have := List.mem_zipIdx hmem
    simp only [Nat.sub_zero, Nat.zero_add] at this
    refine ⟨this.2.1, ?_⟩
    simp only at h1 h2 ⊢
    rw [← this.2.2]; exact ⟨h1, h2⟩
  · rintro ⟨hlt, h1, h2⟩
    refine ⟨⟨ivs[i].1, ivs[i].2, i⟩, ⟨⟨(ivs[i], i), ?_, rfl⟩, h1, h2⟩, rfl⟩
    exact List.mem_zipIdx_iff_getElem?.mpr (by simp [hlt])

private theorem nodup_idx_mkRows (ivs : List (α × α)) (f : Row α → Bool) :
    (((mkRows ivs).filter f).map (·.idx)).Nodup := by
  have h : ((mkRows ivs).map (·.idx)).Nodup := by
    unfold mkRows
    rw [List.map_map]
    have : ((fun r : Row α => r.idx) ∘ fun (x : (α × α) × Nat) =>
        ({ lo := x.1.1, hi := x.1.2, idx := x.2 } : Row α)) = Prod.snd := by
      funext x; rfl
    rw [this, List.zipIdx_map_snd]
    exact List.nodup_range' ..
  exact (List.Nodup.sublist ((List.filter_sublist).map _) h)

/-- **C03_query_perm** — the tree answer is a permutation of the brute-force
answer (rows in input order, filtered by closed-interval overlap). -/
theorem C03_query_perm (ivs : List (α × α)) (h : ∀ iv ∈ ivs, iv.1 ≤ iv.2) (qlo qhi : α) :
    (query (ITree.mk ivs) qlo qhi).Perm (specQ (mkRows ivs) qlo qhi) := by
  obtain ⟨hp, hwf⟩ := sorted_rows ivs h
  unfold ITree.mk
  exact (query_build_perm _ _ hwf (le_refl _) qlo qhi).trans (specQ_perm hp qlo qhi)

/-- **C03_query_spec** — `IntervalTree(ivs).query([q])` reports index `i` iff the
stored closed interval `i` intersects the closed query interval, and reports
every index at most once.  No assumption on order, nesting, duplicates, sign. -/
theorem C03_query_spec (ivs : List (α × α)) (h : ∀ iv ∈ ivs, iv.1 ≤ iv.2) (qlo qhi : α) :
    (∀ i, i ∈ query (ITree.mk ivs) qlo qhi ↔
        ∃ hi : i < ivs.length, ivs[i].1 ≤ qhi ∧ qlo ≤ ivs[i].2) ∧
    (query (ITree.mk ivs) qlo qhi).Nodup := by
  have hp := C03_query_perm ivs h qlo qhi
  exact ⟨fun i => (hp.mem_iff).trans (mem_specQ_mkRows ivs qlo qhi i),
         hp.nodup_iff.mpr (nodup_idx_mkRows ivs _)⟩

/-- **C03_point_spec** — `query_points([p])` (including the short-cut for points
outside `[min, max]` of all endpoints) reports exactly the intervals containing
`p`, each once.  `L`/`R` are any lower/upper bounds of all endpoints, as
`np.min`/`np.max` are. -/
theorem C03_point_spec (ivs : List (α × α)) (h : ∀ iv ∈ ivs, iv.1 ≤ iv.2) (L R p : α)
    (hL : ∀ iv ∈ ivs, L ≤ iv.1) (hR : ∀ iv ∈ ivs, iv.2 ≤ R) :
    (∀ i, i ∈ (queryPoints (ITree.mk ivs) L R [p]).flatten ↔
        ∃ hi : i < ivs.length, ivs[i].1 ≤ p ∧ p ≤ ivs[i].2) ∧
    ((queryPoints (ITree.mk ivs) L R [p]).flatten).Nodup := by
  obtain ⟨hp, hwf⟩ := sorted_rows ivs h
  have hq : (queryPt (ITree.mk ivs) p).Perm (specP (mkRows ivs) p) := by
    unfold ITree.mk
    exact (queryPt_build_perm _ _ hwf (le_refl _) p).trans (specP_perm hp p)
  simp only [queryPoints, List.map_cons, List.map_nil, List.flatten_cons, List.flatten_nil,
    List.append_nil]
  by_cases hin : L ≤ p ∧ p ≤ R
  · simp only [hin, and_self, if_true]
    exact ⟨fun i => (hq.mem_iff).trans (mem_specP_mkRows ivs p i),
           hq.nodup_iff.mpr (nodup_idx_mkRows ivs _)⟩
  · simp only [hin, if_false, List.not_mem_nil, false_iff, List.nodup_nil, and_true]
    rintro i ⟨hlt, h1, h2⟩
    exact hin ⟨le_trans (hL _ (List.getElem_mem hlt)) h1, le_trans h2 (hR _ (List.getElem_mem hlt))⟩

/-- **C03_contains_iff** — `x in tree` is true iff at least one stored interval
contains the point `x` / intersects the interval `x`. -/
theorem C03_contains_iff (ivs : List (α × α)) (h : ∀ iv ∈ ivs, iv.1 ≤ iv.2) (L R : α)
    (hL : ∀ iv ∈ ivs, L ≤ iv.1) (hR : ∀ iv ∈ ivs, iv.2 ≤ R) :
    (∀ p, containsPoint (ITree.mk ivs) L R p = true ↔ ∃ iv ∈ ivs, iv.1 ≤ p ∧ p ≤ iv.2) ∧
    (∀ qlo qhi, containsIv (ITree.mk ivs) qlo qhi = true ↔
        ∃ iv ∈ ivs, iv.1 ≤ qhi ∧ qlo ≤ iv.2) := by
  constructor
  · intro p
    have hs := (C03_point_spec ivs h L R p hL hR).1
    simp only [queryPoints, List.map_cons, List.map_nil, List.flatten_cons, List.flatten_nil,
      List.append_nil] at hs
    unfold containsPoint
    rw [Bool.not_eq_true', List.isEmpty_eq_false_iff_exists_mem]
    constructor
    · rintro ⟨i, hi⟩
      obtain ⟨hlt, h1, h2⟩ := (hs i).mp hi
      exact ⟨ivs[i], List.getElem_mem hlt, h1, h2⟩
    · rintro ⟨iv, hmem, h1, h2⟩
      obtain ⟨i, hlt, rfl⟩ := List.getElem_of_mem hmem
      exact ⟨i, (hs i).mpr ⟨hlt, h1, h2⟩⟩
  · intro qlo qhi
    have hs := (C03_query_spec ivs h qlo qhi).1
    unfold containsIv
    rw [Bool.not_eq_true', List.isEmpty_eq_false_iff_exists_mem]
    constructor
    · rintro ⟨i, hi⟩
      obtain ⟨hlt, h1, h2⟩ := (hs i).mp hi
      exact ⟨ivs[i], List.getElem_mem hlt, h1, h2⟩
    · rintro ⟨iv, hmem, h1, h2⟩
      obtain ⟨i, hlt, rfl⟩ := List.getElem_of_mem hmem
      exact ⟨i, (hs i).mpr ⟨hlt, h1, h2⟩⟩

/-- **C03_build_total** — with `lo ≤ hi` the recursion of `_build_tree` is
well-founded: any fuel ≥ number of rows gives the same tree (the centre row is
always in `center`, so both sub-arrays are strictly shorter). -/
theorem C03_build_total (rows : List (Row α)) (h : WF rows) (f1 f2 : Nat)
    (h1 : rows.length ≤ f1) (h2 : rows.length ≤ f2) : build f1 rows = build f2 rows := by
  induction f1 generalizing rows f2 with
  | zero =>
    have : rows = [] := List.length_eq_zero_iff.mp (Nat.le_zero.mp h1)
    subst this
    cases f2 <;> simp [build]
  | succ f1 ih =>
    cases f2 with
    | zero =>
      have : rows = [] := List.length_eq_zero_iff.mp (Nat.le_zero.mp h2)
      subst this; simp [build]
    | succ f2 =>
      unfold build
      cases hm : rows[rows.length / 2]? with
      | none => rfl
      | some mid =>
        simp only
        obtain ⟨hl, hr⟩ := length_left_lt rows h mid hm
        rw [ih _ (h.filter _) f2 (by omega) (by omega), ih _ (h.filter _) f2 (by omega) (by omega)]

/-- Specification of `FileSet.match` on coverages in integer microseconds. -/
def matchSpec (times1 times2 : List (Int × Int)) (mi : Int) : List (Nat × List Nat) :=
  (times1.zipIdx.map (fun (t, i) =>
      (i, (List.range times2.length).filter (fun j =>
            match times2[j]? with
            | some s => decide (s.1 - mi ≤ t.2) && decide (t.1 ≤ s.2 + mi)
            | none => false)))).filter (fun p => !p.2.isEmpty)

/-- **C03_match_spec** — `match` pairs each primary (in `find()` order) with the
increasing list of exactly those secondaries whose coverage widened by
`max_interval ≥ 0` on both sides intersects the primary's coverage, and omits
primaries without partner. -/
theorem C03_match_spec (times1 times2 : List (Int × Int)) (mi : Int) (hmi : 0 ≤ mi)
    (h2 : ∀ t ∈ times2, t.1 ≤ t.2) :
    Match.matchFiles times1 times2 mi = matchSpec times1 times2 mi := by
  unfold Match.matchFiles matchSpec
  simp only
  congr 1
  unfold queryAll
  rw [List.zipIdx_map, List.map_map]
  apply List.map_congr_left
  rintro ⟨t, i⟩ _
  simp only [Function.comp, Prod.map, id, Prod.mk.injEq, true_and]
  set widened := times2.map (fun t => (t.1 - mi, t.2 + mi)) with hw
  have hwf : ∀ iv ∈ widened, iv.1 ≤ iv.2 := by
    intro iv hiv
    rw [hw, List.mem_map] at hiv
    obtain ⟨s, hs, rfl⟩ := hiv
    have := h2 s hs
    simp only; omega
  obtain ⟨hmem, hnd⟩ := C03_query_spec widened hwf t.1 t.2
  -- both sides are strictly increasing lists with the same members
  have hperm : ((query (ITree.mk widened) t.1 t.2).mergeSort (fun a b => decide (a ≤ b))).Perm
      ((List.range times2.length).filter (fun j =>
            match times2[j]? with
            | some s => decide (s.1 - mi ≤ t.2) && decide (t.1 ≤ s.2 + mi)
            | none => false)) := by
    rw [List.perm_ext_iff_of_nodup ((List.mergeSort_perm _ _).nodup_iff.mpr hnd)
        ((List.nodup_range).filter _)]
    intro j
    rw [(List.mergeSort_perm _ _).mem_iff, hmem j]
    simp only [List.mem_filter, List.mem_range, hw, List.length_map]
    constructor
    · rintro ⟨hlt, h1, h3⟩
      refine ⟨hlt, ?_⟩
      simp only [List.getElem_map] at h1 h3
      simp [List.getElem?_eq_getElem hlt, h1, h3]
    · rintro ⟨hlt, h1⟩
      refine ⟨hlt, ?_⟩
      simp only [List.getElem?_eq_getElem hlt, Bool.and_eq_true, decide_eq_true_eq] at h1
      simpa [List.getElem_map] using h1
  refine List.Perm.eq_of_pairwise' (r := (· ≤ ·)) ?_ ?_ hperm
  · have := List.pairwise_mergeSort (le := fun a b : Nat => decide (a ≤ b))
      (by intro a b c; simp; exact le_trans) (by intro a b; simp; exact le_total a b)
      (query (ITree.mk widened) t.1 t.2)
    exact this.imp (by simp)
  · exact (List.pairwise_le_range).filter _

/-! ### Non-vacuity: concrete trees satisfy the hypotheses and exercise the cases
(nested, duplicated, degenerate `[0,0]`, whole-span query, negative values). -/

example : (∀ iv ∈ ([(5, 6), (1, 10), (3, 4), (3, 4), (0, 0), (-7, -2)] : List (Int × Int)),
    iv.1 ≤ iv.2) := by decide

-- executable sanity tests of the model (tests, not theorems)
#guard query (ITree.mk ([(5, 6), (1, 10), (3, 4)] : List (Int × Int))) 5 5 = [1, 0]
#guard query (ITree.mk ([(5, 6), (1, 10), (3, 4)] : List (Int × Int))) 0 20 = [1, 2, 0]
#guard query (ITree.mk ([(0, 0)] : List (Int × Int))) 0 0 = [0]
#guard Match.matchFiles [(0, 10), (20, 30), (50, 60)] [(5, 6), (25, 40), (100, 200)] 0
    = [(0, [0]), (1, [1])]

assert_axioms C03_query_perm C03_query_spec C03_point_spec C03_contains_iff C03_build_total
  C03_match_spec
