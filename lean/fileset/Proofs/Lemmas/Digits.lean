import Model.Digits
import Mathlib.Tactic
/-! Helper lemmas about zero-padded decimal formatting / parsing. -/
namespace Digits

theorem digit_facts : ∀ d, d < 10 → isDigit (digitChar d) = true ∧ digitVal (digitChar d) = d := by
  decide

theorem digitChar_mod (n : Nat) : digitChar (n % 10) = digitChar n := by
  unfold digitChar; rw [Nat.mod_mod]

theorem isDigit_digitChar (n : Nat) : isDigit (digitChar n) = true := by
  rw [← digitChar_mod]; exact (digit_facts _ (Nat.mod_lt _ (by omega))).1

theorem digitVal_digitChar (n : Nat) : digitVal (digitChar n) = n % 10 := by
  rw [← digitChar_mod]; exact (digit_facts _ (Nat.mod_lt _ (by omega))).2

theorem padW_length (w n : Nat) : (padW w n).length = w := by
  induction w generalizing n with
  | zero => rfl
  | succ w ih => simp [padW, ih]

theorem padW_all_digits (w n : Nat) : (padW w n).all isDigit = true := by
  induction w generalizing n with
  | zero => rfl
  | succ w ih => simp [padW, ih, isDigit_digitChar]

theorem padW_mem_digit (w n : Nat) : ∀ c ∈ padW w n, isDigit c = true := by
  have := padW_all_digits w n
  simpa [List.all_eq_true] using this

def val (s : List Char) : Nat := s.foldl (fun a c => 10 * a + digitVal c) 0

theorem val_padW (w n : Nat) : val (padW w n) = n % 10 ^ w := by
  induction w generalizing n with
  | zero => simp [padW, val, Nat.mod_one]
  | succ w ih =>
    have h := ih (n / 10)
    unfold val at h ⊢
    simp only [padW, List.foldl_append, List.foldl_cons, List.foldl_nil, h, digitVal_digitChar]
    have : n % 10 ^ (w + 1) = 10 * (n / 10 % 10 ^ w) + n % 10 := by
      rw [pow_succ, mul_comm, Nat.mod_mul, Nat.add_comm]
    omega

theorem parseNat_padW (w n : Nat) (hw : 0 < w) : parseNat (padW w n) = some (n % 10 ^ w) := by
  unfold parseNat
  have h1 : (padW w n).isEmpty = false := by
    cases w with
    | zero => omega
    | succ w => simp [padW]
  rw [h1, padW_all_digits]
  simp only [Bool.not_true, Bool.or_self, Bool.false_eq_true, ↓reduceIte]
  exact congrArg some (val_padW w n)

theorem lt_pow_numDigits (n : Nat) : n < 10 ^ numDigits n := by
  induction n using Nat.strong_induction_on with
  | _ n ih =>
    rw [numDigits]
    split
    · simpa using ‹n < 10›
    · have := ih (n / 10) (by omega)
      rw [Nat.add_comm, pow_succ]; omega

theorem numDigits_pos (n : Nat) : 0 < numDigits n := by
  rw [numDigits]; split <;> omega

theorem numDigits_le (w n : Nat) (hw : 0 < w) (h : n < 10 ^ w) : numDigits n ≤ w := by
  induction w generalizing n with
  | zero => omega
  | succ w ih =>
    rw [numDigits]
    split
    · omega
    · have hw' : 0 < w := by
        rcases Nat.eq_zero_or_pos w with h0 | h0
        · subst h0; simp at h; omega
        · exact h0
      have := ih (n / 10) hw' (by rw [pow_succ] at h; omega)
      omega

/-- `pad w n` is exactly the `w` last digits when `n` fits -/
theorem pad_of_lt (w n : Nat) (hw : 0 < w) (h : n < 10 ^ w) : pad w n = padW w n := by
  unfold pad
  rw [Nat.max_eq_left (numDigits_le w n hw h)]

theorem parseNat_pad (w n : Nat) : parseNat (pad w n) = some n := by
  unfold pad
  rw [parseNat_padW _ _ (by have := numDigits_pos n; omega)]
  congr 1
  apply Nat.mod_eq_of_lt
  calc n < 10 ^ numDigits n := lt_pow_numDigits n
    _ ≤ 10 ^ max w (numDigits n) := Nat.pow_le_pow_right (by omega) (by omega)

theorem pad_length (w n : Nat) (hw : 0 < w) (h : n < 10 ^ w) : (pad w n).length = w := by
  rw [pad_of_lt w n hw h, padW_length]

theorem pad_all_digits (w n : Nat) : (pad w n).all isDigit = true := padW_all_digits _ _

theorem numDigits_four (y : Nat) (h1 : 1000 ≤ y) (h2 : y ≤ 9999) : numDigits y = 4 := by
  rw [numDigits, dif_neg (by omega), numDigits, dif_neg (by omega), numDigits, dif_neg (by omega),
    numDigits, dif_pos (by omega)]

theorem natDigits_year (y : Nat) (h1 : 1000 ≤ y) (h2 : y ≤ 9999) : natDigits y = padW 4 y := by
  unfold natDigits pad
  rw [numDigits_four y h1 h2]; rfl

theorem padW_add (a b n : Nat) : padW (a + b) n = padW a (n / 10 ^ b) ++ padW b n := by
  induction b generalizing n with
  | zero => simp [padW]
  | succ b ih =>
    rw [← Nat.add_assoc]
    simp only [padW, ih, List.append_assoc]
    rw [Nat.div_div_eq_div_mul, pow_succ, Nat.mul_comm]

theorem lastTwo_year (y : Nat) (h1 : 1000 ≤ y) (h2 : y ≤ 9999) :
    lastTwo (natDigits y) = padW 2 y := by
  rw [natDigits_year y h1 h2, show (4 : Nat) = 2 + 2 from rfl, padW_add]
  unfold lastTwo
  simp [padW_length]

theorem parseNat_lastTwo_year (y : Nat) (h1 : 1000 ≤ y) (h2 : y ≤ 9999) :
    parseNat (lastTwo (natDigits y)) = some (y % 100) := by
  rw [lastTwo_year y h1 h2, parseNat_padW _ _ (by omega)]; rfl

theorem parseNat_natDigits (n : Nat) : parseNat (natDigits n) = some n := parseNat_pad 1 n

end Digits
