import Model.Template
