import Model.IntervalTree
import Mathlib.Order.Defs.LinearOrder
import Mathlib.Data.List.Perm.Basic
import Mathlib.Data.List.Sort
import Mathlib.Tactic

/-! Helper lemmas for C03 (interval tree). -/

namespace ITree

variable {α : Type} [LinearOrder α]

/-- well-formed rows: `lo ≤ hi` -/
def WF (rows : List (Row α)) : Prop := ∀ r ∈ rows, r.lo ≤ r.hi

theorem WF.filter {rows : List (Row α)} (h : WF rows) (p : Row α → Bool) :
    WF (rows.filter p) := fun r hr => h r (List.mem_of_mem_filter hr)

/-- A list is a permutation of its three-way split when the predicates are
exhaustive and mutually exclusive on it. -/
theorem perm_three_way {β : Type} (l : List β) (p q r : β → Bool)
    (h : ∀ x ∈ l, (p x = true ∧ q x = false ∧ r x = false) ∨
                  (p x = false ∧ q x = true ∧ r x = false) ∨
                  (p x = false ∧ q x = false ∧ r x = true)) :
    l.Perm (l.filter p ++ l.filter q ++ l.filter r) := by
  induction l with
  | nil => simp
  | cons x xs ih =>
    have ih' := ih (fun y hy => h y (List.mem_cons_of_mem _ hy))
    rcases h x (List.mem_cons_self) with ⟨hp, hq, hr⟩ | ⟨hp, hq, hr⟩ | ⟨hp, hq, hr⟩
    · simp only [List.filter_cons, hp, hq, hr, if_true, Bool.false_eq_true, if_false]
      simpa using ih'
    · simp only [List.filter_cons, hp, hq, hr, if_true, Bool.false_eq_true, if_false]
      refine (List.Perm.cons x ih').trans ?_
      have : (x :: (xs.filter p ++ xs.filter q ++ xs.filter r)).Perm
          (xs.filter p ++ x :: xs.filter q ++ xs.filter r) := by
        rw [List.append_assoc, List.append_assoc]
        exact (List.perm_middle (l₁ := xs.filter p)).symm
      simpa using this
    · simp only [List.filter_cons, hp, hq, hr, if_true, Bool.false_eq_true, if_false]
      refine (List.Perm.cons x ih').trans ?_
      exact (List.perm_middle (l₁ := xs.filter p ++ xs.filter q)).symm

/-- With `lo ≤ hi` every row is in exactly one of centre / left / right. -/
theorem split_cases (c : α) (r : Row α) (h : r.lo ≤ r.hi) :
    (inCenter c r = true ∧ inLeft c r = false ∧ inRight c r = false) ∨
    (inCenter c r = false ∧ inLeft c r = true ∧ inRight c r = false) ∨
    (inCenter c r = false ∧ inLeft c r = false ∧ inRight c r = true) := by
  unfold inCenter inLeft inRight
  rcases lt_trichotomy r.hi c with h1 | h1 | h1
  · right; left
    have : ¬ c ≤ r.hi := not_le.mpr h1
    have h2 : ¬ c < r.lo := fun h' => absurd (lt_of_lt_of_le h' h) (not_lt.mpr h1.le)
    simp [h1, this, h2]
  · by_cases h2 : c < r.lo
    · exact absurd (lt_of_lt_of_le h2 h) (by rw [h1]; exact lt_irrefl _)
    · left
      have : r.lo ≤ c := not_lt.mp h2
      simp [h1, this, h2]
  · by_cases h2 : c < r.lo
    · right; right
      have : ¬ r.lo ≤ c := not_le.mpr h2
      have h3 : ¬ r.hi < c := not_lt.mpr h1.le
      simp [this, h2, h3]
    · left
      have : r.lo ≤ c := not_lt.mp h2
      have h3 : ¬ r.hi < c := not_lt.mpr h1.le
      simp [this, h1.le, h2, h3]

theorem rows_perm_split (c : α) (rows : List (Row α)) (h : WF rows) :
    rows.Perm (rows.filter (inCenter c) ++ rows.filter (inLeft c) ++ rows.filter (inRight c)) :=
  perm_three_way rows _ _ _ (fun r hr => split_cases c r (h r hr))

/-- The centre row is in `center`, hence both sub-lists are strictly shorter. -/
theorem length_left_lt (rows : List (Row α)) (h : WF rows) (mid : Row α)
    (hm : rows[rows.length / 2]? = some mid) :
    (rows.filter (inLeft mid.lo)).length < rows.length ∧
    (rows.filter (inRight mid.lo)).length < rows.length := by
  have hmem : mid ∈ rows := List.mem_of_getElem? hm
  have hwf := h mid hmem
  constructor
  · apply List.length_filter_lt_length_iff_exists.mpr
    refine ⟨mid, hmem, ?_⟩
    simp [inLeft, not_lt.mpr hwf]
  · apply List.length_filter_lt_length_iff_exists.mpr
    refine ⟨mid, hmem, ?_⟩
    simp [inRight]

/-- Specification list: indices of the rows overlapping the query, in row order. -/
def specQ (rows : List (Row α)) (qlo qhi : α) : List Nat :=
  (rows.filter (fun r => overlaps r qlo qhi)).map (·.idx)

def specP (rows : List (Row α)) (p : α) : List Nat :=
  (rows.filter (fun r => containsPt r p)).map (·.idx)

theorem specQ_perm {r1 r2 : List (Row α)} (h : r1.Perm r2) (qlo qhi : α) :
    (specQ r1 qlo qhi).Perm (specQ r2 qlo qhi) :=
  (h.filter _).map _

theorem specP_perm {r1 r2 : List (Row α)} (h : r1.Perm r2) (p : α) :
    (specP r1 p).Perm (specP r2 p) :=
  (h.filter _).map _

theorem specQ_append (r1 r2 : List (Row α)) (qlo qhi : α) :
    specQ (r1 ++ r2) qlo qhi = specQ r1 qlo qhi ++ specQ r2 qlo qhi := by
  simp [specQ]

theorem specP_append (r1 r2 : List (Row α)) (p : α) :
    specP (r1 ++ r2) p = specP r1 p ++ specP r2 p := by
  simp [specP]

/-- Main lemma: with enough fuel, `query (build rows)` is a permutation of the
brute-force answer. -/
theorem query_build_perm (fuel : Nat) (rows : List (Row α)) (h : WF rows)
    (hf : rows.length ≤ fuel) (qlo qhi : α) :
    (query (build fuel rows) qlo qhi).Perm (specQ rows qlo qhi) := by
  induction fuel generalizing rows with
  | zero =>
    have : rows = [] := List.length_eq_zero_iff.mp (Nat.le_zero.mp hf)
    subst this
    simp [build, query, specQ]
  | succ fuel ih =>
    unfold build
    cases hm : rows[rows.length / 2]? with
    | none =>
      have : rows = [] := by
        rcases rows with _ | ⟨x, xs⟩
        · rfl
        · exfalso
          have hlt : (x :: xs).length / 2 < (x :: xs).length :=
            Nat.div_lt_self (by simp) (by decide)
          rw [List.getElem?_eq_getElem hlt] at hm
          exact absurd hm (by simp)
      subst this
      simp [query, specQ]
    | some mid =>
      simp only
      obtain ⟨hl, hr⟩ := length_left_lt rows h mid hm
      have ihl := ih (rows.filter (inLeft mid.lo)) (h.filter _) (by omega)
      have ihr := ih (rows.filter (inRight mid.lo)) (h.filter _) (by omega)
      have hsplit := specQ_perm (rows_perm_split mid.lo rows h) qlo qhi
      rw [specQ_append, specQ_append] at hsplit
      refine List.Perm.trans ?_ hsplit.symm
      unfold query
      refine List.Perm.append (List.Perm.append (List.Perm.refl _) ?_) ?_
      · by_cases hq : qlo ≤ mid.lo
        · simpa [hq] using ihl
        · simp only [hq, if_false]
          have : specQ (rows.filter (inLeft mid.lo)) qlo qhi = [] := by
            unfold specQ
            rw [List.map_eq_nil_iff, List.filter_eq_nil_iff]
            intro r hr
            have hr2 := (List.mem_filter.mp hr).2
            simp only [inLeft, decide_eq_true_eq] at hr2
            have : ¬ qlo ≤ r.hi := not_le.mpr (lt_trans hr2 (not_le.mp hq))
            simp [overlaps, this]
          rw [this]
      · by_cases hq : mid.lo ≤ qhi
        · simpa [hq] using ihr
        · simp only [hq, if_false]
          have : specQ (rows.filter (inRight mid.lo)) qlo qhi = [] := by
            unfold specQ
            rw [List.map_eq_nil_iff, List.filter_eq_nil_iff]
            intro r hr
            have hr2 := (List.mem_filter.mp hr).2
            simp only [inRight, decide_eq_true_eq] at hr2
            have : ¬ r.lo ≤ qhi := not_le.mpr (lt_trans (not_le.mp hq) hr2)
            simp [overlaps, this]
          rw [this]

theorem queryPt_build_perm (fuel : Nat) (rows : List (Row α)) (h : WF rows)
    (hf : rows.length ≤ fuel) (p : α) :
    (queryPt (build fuel rows) p).Perm (specP rows p) := by
  induction fuel generalizing rows with
  | zero =>
    have : rows = [] := List.length_eq_zero_iff.mp (Nat.le_zero.mp hf)
    subst this
    simp [build, queryPt, specP]
  | succ fuel ih =>
    unfold build
    cases hm : rows[rows.length / 2]? with
    | none =>
      have : rows = [] := by
        rcases rows with _ | ⟨x, xs⟩
        · rfl
        · exfalso
          have hlt : (x :: xs).length / 2 < (x :: xs).length :=
            Nat.div_lt_self (by simp) (by decide)
          rw [List.getElem?_eq_getElem hlt] at hm
          exact absurd hm (by simp)
      subst this
      simp [queryPt, specP]
    | some mid =>
      simp only
      obtain ⟨hl, hr⟩ := length_left_lt rows h mid hm
      have ihl := ih (rows.filter (inLeft mid.lo)) (h.filter _) (by omega)
      have ihr := ih (rows.filter (inRight mid.lo)) (h.filter _) (by omega)
      have hsplit := specP_perm (rows_perm_split mid.lo rows h) p
      rw [specP_append, specP_append] at hsplit
      refine List.Perm.trans ?_ hsplit.symm
      unfold queryPt
      refine List.Perm.append (List.Perm.append (List.Perm.refl _) ?_) ?_
      · by_cases hq : p < mid.lo
        · simpa [hq] using ihl
        · simp only [hq, if_false]
          have : specP (rows.filter (inLeft mid.lo)) p = [] := by
            unfold specP
            rw [List.map_eq_nil_iff, List.filter_eq_nil_iff]
            intro r hr
            have hr2 := (List.mem_filter.mp hr).2
            simp only [inLeft, decide_eq_true_eq] at hr2
            have : ¬ p ≤ r.hi := not_le.mpr (lt_of_lt_of_le hr2 (not_lt.mp hq))
            simp [containsPt, this]
          rw [this]
      · by_cases hq : mid.lo < p
        · simpa [hq] using ihr
        · simp only [hq, if_false]
          have : specP (rows.filter (inRight mid.lo)) p = [] := by
            unfold specP
            rw [List.map_eq_nil_iff, List.filter_eq_nil_iff]
            intro r hr
            have hr2 := (List.mem_filter.mp hr).2
            simp only [inRight, decide_eq_true_eq] at hr2
            have : ¬ r.lo ≤ p := not_le.mpr (lt_of_le_of_lt (not_lt.mp hq) hr2)
            simp [containsPt, this]
          rw [this]

/-- `mkRows` keeps `lo ≤ hi`. -/
theorem wf_mkRows (ivs : List (α × α)) (h : ∀ iv ∈ ivs, iv.1 ≤ iv.2) : WF (mkRows ivs) := by
  intro r hr
  unfold mkRows at hr
  rw [List.mem_map] at hr
  obtain ⟨⟨iv, i⟩, hmem, rfl⟩ := hr
  have h3 := (List.mem_zipIdx hmem).2.2
  have : iv ∈ ivs := by rw [h3]; exact List.getElem_mem _
  exact h iv this

end ITree
