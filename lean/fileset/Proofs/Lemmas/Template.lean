import Model.Template
import Proofs.Lemmas.Digits
import Proofs.Lemmas.Time
/-! Helper lemmas about the template model: matcher soundness, deterministic matching of
fixed-width items, captured fields → datetime arguments. -/
namespace Template
open Time Digits

/-! ### The language of an item and soundness of `cands` / `matchItems` -/

/-- the strings an item can match -/
def InLang : Item → List Char → Prop
  | .char c, p => p = [c]
  | .digits n, p => p.length = n ∧ ∀ c ∈ p, isDigit c = true
  | .lazy m, p => m ≤ p.length ∧ ∀ c ∈ p, c ≠ '\n'
  | .alt ws, p => p ∈ ws
  | .cls rs q, p => (∀ c ∈ p, inCls rs c = true) ∧
      match q with
      | .plus => 1 ≤ p.length
      | .star => True
      | .exact n => p.length = n

theorem take_of_le_takeWhile (f : Char → Bool) :
    ∀ (s : List Char) (k : Nat), k ≤ (s.takeWhile f).length → ∀ c ∈ s.take k, f c = true := by
  intro s
  induction s with
  | nil => intro k _ c hc; simp at hc
  | cons x xs ih =>
    intro k hk c hc
    cases k with
    | zero => simp at hc
    | succ k =>
      rw [List.takeWhile_cons] at hk
      by_cases hx : f x = true
      · simp only [hx, ↓reduceIte, List.length_cons] at hk
        simp only [List.take_succ_cons, List.mem_cons] at hc
        rcases hc with rfl | hc
        · exact hx
        · exact ih k (by omega) c hc
      · simp [hx] at hk

theorem takeWhile_length_le (f : Char → Bool) (s : List Char) : (s.takeWhile f).length ≤ s.length := by
  induction s with
  | nil => simp
  | cons x xs ih => rw [List.takeWhile_cons]; split <;> simp <;> omega

theorem mem_downTo (lo k n : Nat) (h : n ∈ downTo lo k) : lo ≤ n ∧ n ≤ k := by
  induction k with
  | zero =>
    unfold downTo at h
    split at h
    · simp at h; omega
    · simp at h
  | succ k ih =>
    unfold downTo at h
    split at h
    · simp only [List.mem_cons] at h
      rcases h with rfl | h
      · omega
      · have := ih h; omega
    · simp at h

theorem cands_sound (it : Item) (s : List Char) (k : Nat) (h : k ∈ cands it s) :
    k ≤ s.length ∧ InLang it (s.take k) := by
  cases it with
  | char c =>
    cases s with
    | nil => simp [cands] at h
    | cons x xs =>
      simp only [cands] at h
      split at h
      · simp only [List.mem_singleton] at h
        subst h; subst_vars
        simp [InLang]
      · simp at h
  | digits n =>
    simp only [cands] at h
    split at h
    · rename_i hc
      simp only [List.mem_singleton] at h
      subst h
      refine ⟨hc.1, ?_, ?_⟩
      · simp [List.length_take, hc.1]
      · simpa [List.all_eq_true] using hc.2
    · simp at h
  | lazy m =>
    simp only [cands, List.mem_range'_1] at h
    have hle := takeWhile_length_le (fun c => c ≠ '\n') s
    refine ⟨by omega, ?_, ?_⟩
    · simp [List.length_take]; omega
    · intro c hc
      have := take_of_le_takeWhile (fun c => c ≠ '\n') s k (by omega) c hc
      simpa using this
  | alt ws =>
    simp only [cands, List.mem_filterMap] at h
    obtain ⟨w, hw, hk⟩ := h
    split at hk
    · rename_i hp
      simp only [Option.some.injEq] at hk
      subst hk
      rw [List.isPrefixOf_iff_prefix] at hp
      refine ⟨hp.length_le, ?_⟩
      simp only [InLang]
      rw [← List.prefix_iff_eq_take.mp hp]
      exact hw
    · simp at hk
  | cls rs q =>
    have hle := takeWhile_length_le (inCls rs) s
    cases q with
    | plus =>
      simp only [cands] at h
      have := mem_downTo _ _ _ h
      refine ⟨by omega, fun c hc => take_of_le_takeWhile (inCls rs) s k (by omega) c hc, ?_⟩
      simp only [List.length_take]; omega
    | star =>
      simp only [cands] at h
      have := mem_downTo _ _ _ h
      exact ⟨by omega, fun c hc => take_of_le_takeWhile (inCls rs) s k (by omega) c hc, trivial⟩
    | exact n =>
      simp only [cands] at h
      split at h
      · simp only [List.mem_singleton] at h
        subst h
        refine ⟨by omega, fun c hc => take_of_le_takeWhile (inCls rs) s k (by omega) c hc, ?_⟩
        simp only [List.length_take]; omega
      · simp at h

/-- `ps` instantiates the items: one string of the item's language per item -/
inductive Inst : List (Item × Option Key) → List (List Char) → Prop
  | nil : Inst [] []
  | cons {it key rest p ps} : InLang it p → Inst rest ps → Inst ((it, key) :: rest) (p :: ps)

/-- the captures: the strings at the capturing items -/
def capsFrom : List (Item × Option Key) → List (List Char) → Caps
  | (_, some k) :: rest, p :: ps => (k, p) :: capsFrom rest ps
  | (_, none) :: rest, _ :: ps => capsFrom rest ps
  | _, _ => []

theorem matchItems_sound :
    ∀ (items : List (Item × Option Key)) (s : List Char) (caps : Caps),
      matchItems items s = some caps →
      ∃ ps, Inst items ps ∧ (s = ps.flatten ∨ s = ps.flatten ++ ['\n']) ∧ caps = capsFrom items ps := by
  intro items
  induction items with
  | nil =>
    intro s caps h
    simp only [matchItems] at h
    split at h
    · rename_i hs
      simp only [Option.some.injEq] at h
      subst h
      refine ⟨[], Inst.nil, ?_, rfl⟩
      rcases hs with rfl | rfl <;> simp
    · simp at h
  | cons x rest ih =>
    intro s caps h
    obtain ⟨it, key⟩ := x
    simp only [matchItems] at h
    obtain ⟨k, hk, hf⟩ := List.exists_of_findSome?_eq_some h
    obtain ⟨hlen, hlang⟩ := cands_sound it s k hk
    cases hm : matchItems rest (s.drop k) with
    | none => simp [hm] at hf
    | some c =>
      obtain ⟨ps, hinst, hflat, hcaps⟩ := ih _ _ hm
      refine ⟨s.take k :: ps, Inst.cons hlang hinst, ?_, ?_⟩
      · rcases hflat with hfl | hfl
        · left; simp only [List.flatten_cons, ← hfl, List.take_append_drop]
        · right
          rw [List.flatten_cons, List.append_assoc, ← hfl, List.take_append_drop]
      · simp only [hm] at hf
        cases key with
        | none => simp only [Option.some.injEq] at hf; subst hf; simp [capsFrom, hcaps]
        | some key => simp only [Option.some.injEq] at hf; subst hf; simp [capsFrom, hcaps]

/-! ### Deterministic (fixed-width) items: the formatted name is matched, priority-free -/

/-- an item that, in front of `p`, offers exactly the length of `p` -/
def Det (it : Item) (p : List Char) : Prop := ∀ rest, cands it (p ++ rest) = [p.length]

inductive DetAll : List (Item × Option Key) → List (List Char) → Prop
  | nil : DetAll [] []
  | cons {it key rest p ps} : Det it p → DetAll rest ps → DetAll ((it, key) :: rest) (p :: ps)

theorem det_char (c : Char) : Det (.char c) [c] := by
  intro rest; simp [cands]

theorem det_digits (n : Nat) (p : List Char) (hl : p.length = n) (hd : p.all isDigit = true) :
    Det (.digits n) p := by
  intro rest
  simp only [cands]
  rw [if_pos]
  · rw [hl]
  · refine ⟨by simp [hl], ?_⟩
    rw [← hl, List.take_left]; exact hd

theorem matchItems_det :
    ∀ (items : List (Item × Option Key)) (ps : List (List Char)), DetAll items ps →
      matchItems items ps.flatten = some (capsFrom items ps) := by
  intro items ps h
  induction h with
  | nil => simp [matchItems, capsFrom]
  | @cons it key rest p ps hdet _ ih =>
    simp only [matchItems, List.flatten_cons, hdet ps.flatten, List.findSome?_cons,
      List.drop_left, List.take_left, ih, List.findSome?_nil]
    cases key <;> simp [capsFrom]

/-! ### Values and strings of the temporal placeholders -/

def fillable : TField → Bool
  | .decisecond => false | .centisecond => false | .microsecond => false | _ => true

/-- the number a temporal placeholder stands for -/
def tval (t : DateTime) : TField → Nat
  | .year => t.y | .year2 => t.y % 100 | .month => t.mo | .day => t.d
  | .doy => doyOf t.y t.mo t.d | .hour => t.h | .minute => t.mi | .second => t.s
  | .millisecond => t.us / 1000 | _ => 0

/-- the string `get_filename` writes for a temporal placeholder -/
def tstr (t : DateTime) : TField → List Char
  | .year => natDigits t.y | .year2 => lastTwo (natDigits t.y) | .month => pad 2 t.mo
  | .day => pad 2 t.d | .doy => pad 3 (doyOf t.y t.mo t.d) | .hour => pad 2 t.h
  | .minute => pad 2 t.mi | .second => pad 2 t.s | .millisecond => pad 3 (t.us / 1000)
  | _ => []

theorem timePiece_eq (t : DateTime) (f : TField) (h : fillable f = true) :
    timePiece t f = .ok (tstr t f) := by
  cases f <;> first | rfl | simp [fillable] at h

theorem dimL_le (l m : Nat) (hl : l ≤ 1) : dimL l m ≤ 31 := by
  unfold dimL; split <;> omega

/-- a datetime of the claimed range: valid and year ≥ 1000 -/
def GoodTime (t : DateTime) : Prop := Valid t ∧ 1000 ≤ t.y

theorem tstr_spec (t : DateTime) (f : TField) (ht : GoodTime t) (h : fillable f = true) :
    (tstr t f).length = f.width ∧ (tstr t f).all isDigit = true ∧
      parseNat (tstr t f) = some (tval t f) := by
  obtain ⟨hv, hy⟩ := ht
  have hv' := (valid_iff t).1 hv
  obtain ⟨⟨_, hy2, hm1, hm2, hd1, hd2⟩, hh, hmi, hs, hus⟩ := hv'
  have hdim : dim t.y t.mo ≤ 31 := dimL_le _ _ (leapN_le _)
  have hdoy := doyOf_le t.y t.mo t.d ((valid_iff t).1 hv).1
  cases f <;> simp only [fillable, Bool.false_eq_true] at h <;> simp only [tstr, tval, TField.width]
  · rw [natDigits_year _ hy hy2]
    exact ⟨padW_length _ _, padW_all_digits _ _, by rw [← natDigits_year _ hy hy2]; exact parseNat_natDigits _⟩
  · rw [lastTwo_year _ hy hy2]
    exact ⟨padW_length _ _, padW_all_digits _ _, by rw [← lastTwo_year _ hy hy2]; exact parseNat_lastTwo_year _ hy hy2⟩
  · exact ⟨pad_length 2 _ (by omega) (by omega), pad_all_digits _ _, parseNat_pad _ _⟩
  · exact ⟨pad_length 2 _ (by omega) (by omega), pad_all_digits _ _, parseNat_pad _ _⟩
  · exact ⟨pad_length 3 _ (by omega) (by omega), pad_all_digits _ _, parseNat_pad _ _⟩
  · exact ⟨pad_length 2 _ (by omega) (by omega), pad_all_digits _ _, parseNat_pad _ _⟩
  · exact ⟨pad_length 2 _ (by omega) (by omega), pad_all_digits _ _, parseNat_pad _ _⟩
  · exact ⟨pad_length 2 _ (by omega) (by omega), pad_all_digits _ _, parseNat_pad _ _⟩
  · exact ⟨pad_length 3 _ (by omega) (by omega), pad_all_digits _ _, parseNat_pad _ _⟩

/-! ### Fixed-width templates: compile, format and match agree -/

/-- tokens of the fixed-width fragment: literal characters that are neither regex syntax nor
"special", and the temporal placeholders `get_filename` can fill -/
def FixedTok : Tok → Prop
  | .lit c => regexActive c = false ∧ special c = false
  | .ph (.time _ f) => fillable f = true
  | .ph (.user _) => False
  | .star => False

/-- the string a placeholder stands for -/
def keyStr (ctx : Ctx) : Key → List Char
  | .time isEnd f => tstr (if isEnd then ctx.e else ctx.s) f
  | .user n => (ctx.fill.lookup n).getD []

/-- the expected captures: every placeholder's string, at its first occurrence -/
def capsOf (ctx : Ctx) : List Tok → List Key → Caps
  | [], _ => []
  | .ph k :: ts, seen =>
    if seen.contains k then capsOf ctx ts seen else (k, keyStr ctx k) :: capsOf ctx ts (k :: seen)
  | .lit _ :: ts, seen => capsOf ctx ts seen
  | .star :: ts, seen => capsOf ctx ts seen

theorem special_of_digit (c : Char) (h : isDigit c = true) : special c = false := by
  cases hsp : special c with
  | false => rfl
  | true =>
    exfalso
    simp only [special, Bool.or_eq_true, decide_eq_true_eq] at hsp
    rcases hsp with ((((((((h1 | h1) | h1) | h1) | h1) | h1) | h1) | h1) | h1) <;> subst h1 <;>
      simp [isDigit] at h

theorem compile_pieces_fixed (cfg : Cfg) (ctx : Ctx) (hs : GoodTime ctx.s) (he : GoodTime ctx.e) :
    ∀ (tpl : List Tok) (seen : List Key), (∀ t ∈ tpl, FixedTok t) →
      ∃ items ps, compile cfg tpl seen = .ok items ∧ pieces cfg ctx tpl = .ok ps ∧
        DetAll items ps ∧ capsFrom items ps = capsOf ctx tpl seen ∧
        (∀ c ∈ ps.flatten, special c = false) := by
  intro tpl
  induction tpl with
  | nil =>
    intro seen _
    exact ⟨[], [], rfl, rfl, DetAll.nil, rfl, by simp⟩
  | cons t ts ih =>
    intro seen hfix
    have hts : ∀ t ∈ ts, FixedTok t := fun t ht => hfix t (List.mem_cons_of_mem _ ht)
    have ht := hfix t List.mem_cons_self
    cases t with
    | lit c =>
      obtain ⟨hra, hsp⟩ := ht
      obtain ⟨items, ps, h1, h2, h3, h4, h5⟩ := ih seen hts
      refine ⟨(.char c, none) :: items, [c] :: ps, ?_, ?_, DetAll.cons (det_char c) h3, ?_, ?_⟩
      · simp only [compile, compileTok, hra, h1, Bool.false_eq_true, ↓reduceIte]
      · simp only [pieces, piece, h2]
      · simp [capsFrom, capsOf, h4]
      · intro x hx
        simp only [List.flatten_cons, List.mem_append, List.mem_singleton] at hx
        rcases hx with rfl | hx
        · exact hsp
        · exact h5 x hx
    | star => exact absurd ht (by simp [FixedTok])
    | ph k =>
      cases k with
      | user n => exact absurd ht (by simp [FixedTok])
      | time isEnd f =>
        simp only [FixedTok] at ht
        have hgt : GoodTime (if isEnd then ctx.e else ctx.s) := by cases isEnd <;> simpa
        obtain ⟨sl, sd, _⟩ := tstr_spec _ f hgt ht
        have hdet := det_digits f.width _ sl sd
        have hpiece : piece cfg ctx (.ph (.time isEnd f)) = .ok (tstr (if isEnd then ctx.e else ctx.s) f) := by
          simp only [piece]; exact timePiece_eq _ _ ht
        have hspec : ∀ c ∈ tstr (if isEnd then ctx.e else ctx.s) f, special c = false := by
          intro c hc
          exact special_of_digit c (by simpa [List.all_eq_true] using (List.all_eq_true.mp sd) c hc)
        by_cases hseen : seen.contains (Key.time isEnd f) = true
        · obtain ⟨items, ps, h1, h2, h3, h4, h5⟩ := ih seen hts
          refine ⟨(.digits f.width, none) :: items, _ :: ps, ?_, ?_, DetAll.cons hdet h3, ?_, ?_⟩
          · simp only [compile, compileTok, hseen, h1, ↓reduceIte]
          · simp only [pieces, hpiece, h2]
          · simp only [capsFrom, capsOf, hseen, h4, ↓reduceIte]
          · intro x hx
            simp only [List.flatten_cons, List.mem_append] at hx
            rcases hx with hx | hx
            · exact hspec x hx
            · exact h5 x hx
        · obtain ⟨items, ps, h1, h2, h3, h4, h5⟩ := ih (Key.time isEnd f :: seen) hts
          refine ⟨(.digits f.width, some (Key.time isEnd f)) :: items, _ :: ps, ?_, ?_,
            DetAll.cons hdet h3, ?_, ?_⟩
          · simp only [compile, compileTok, hseen, h1, Bool.false_eq_true, ↓reduceIte]
          · simp only [pieces, hpiece, h2]
          · simp only [capsFrom, capsOf, hseen, h4, Bool.false_eq_true, ↓reduceIte, keyStr]
          · intro x hx
            simp only [List.flatten_cons, List.mem_append] at hx
            rcases hx with hx | hx
            · exact hspec x hx
            · exact h5 x hx

theorem lookup_capsOf (ctx : Ctx) :
    ∀ (tpl : List Tok) (seen : List Key) (k : Key),
      (capsOf ctx tpl seen).lookup k =
        if Tok.ph k ∈ tpl ∧ k ∉ seen then some (keyStr ctx k) else none := by
  intro tpl
  induction tpl with
  | nil => intro seen k; simp [capsOf]
  | cons t ts ih =>
    intro seen k
    cases t with
    | lit c => simp [capsOf, ih]
    | star => simp [capsOf, ih]
    | ph k' =>
      simp only [capsOf]
      by_cases hseen : seen.contains k' = true
      · simp only [hseen, ↓reduceIte, ih, List.mem_cons, Tok.ph.injEq]
        have hmem : k' ∈ seen := by simpa using hseen
        by_cases hk : k = k'
        · subst hk; simp [hmem]
        · simp [hk]
      · simp only [hseen, Bool.false_eq_true, ↓reduceIte, List.lookup_cons, ih, List.mem_cons,
          Tok.ph.injEq]
        have hmem : k' ∉ seen := by simpa using hseen
        by_cases hk : k = k'
        · subst hk; simp [hmem]
        · have : (k == k') = false := by simpa using hk
          simp [this, hk]

theorem capsNumeric_capsOf (ctx : Ctx) (hs : GoodTime ctx.s) (he : GoodTime ctx.e) :
    ∀ (tpl : List Tok) (seen : List Key), (∀ t ∈ tpl, FixedTok t) →
      capsNumeric (capsOf ctx tpl seen) = true := by
  intro tpl
  induction tpl with
  | nil => intro seen _; simp [capsOf, capsNumeric]
  | cons t ts ih =>
    intro seen hfix
    have hts : ∀ t ∈ ts, FixedTok t := fun t ht => hfix t (List.mem_cons_of_mem _ ht)
    have ht := hfix t List.mem_cons_self
    cases t with
    | lit c => simpa [capsOf] using ih seen hts
    | star => simpa [capsOf] using ih seen hts
    | ph k =>
      cases k with
      | user n => exact absurd ht (by simp [FixedTok])
      | time isEnd f =>
        simp only [FixedTok] at ht
        simp only [capsOf]
        split
        · exact ih seen hts
        · have hgt : GoodTime (if isEnd then ctx.e else ctx.s) := by cases isEnd <;> simpa
          obtain ⟨_, _, sp⟩ := tstr_spec _ f hgt ht
          have := ih (Key.time isEnd f :: seen) hts
          simp only [capsNumeric, List.all_cons, keyStr, sp, Option.isSome_some, Bool.true_and] at this ⊢
          exact this

theorem fieldVal_capsOf (ctx : Ctx) (hs : GoodTime ctx.s) (he : GoodTime ctx.e) (tpl : List Tok)
    (hfix : ∀ t ∈ tpl, FixedTok t) (isEnd : Bool) (f : TField) :
    fieldVal (capsOf ctx tpl []) isEnd f =
      if Tok.ph (.time isEnd f) ∈ tpl then some (tval (if isEnd then ctx.e else ctx.s) f) else none := by
  unfold fieldVal
  rw [lookup_capsOf]
  by_cases hm : Tok.ph (Key.time isEnd f) ∈ tpl
  · have hf : fillable f = true := by simpa [FixedTok] using hfix _ hm
    have hgt : GoodTime (if isEnd then ctx.e else ctx.s) := by cases isEnd <;> simpa
    simp [hm, keyStr, (tstr_spec _ f hgt hf).2.2]
  · simp [hm]

/-! ### Captured fields → datetime arguments -/

/-- the `int(value)` dictionary of a set `P` of temporal placeholders written from `t` -/
def rawOf (P : TField → Bool) (t : DateTime) : TField → Option Nat :=
  fun f => if P f then some (tval t f) else none

/-- the standardised datetime arguments -/
def stdOf (P : TField → Bool) (t : DateTime) : Std :=
  { year := if P .year2 || P .year then some t.y else none
    month := if P .doy || P .month then some t.mo else none
    day := if P .doy || P .day then some t.d else none
    hour := if P .hour then some t.h else none
    minute := if P .minute then some t.mi else none
    second := if P .second then some t.s else none
    micro := if P .millisecond then some (1000 * (t.us / 1000)) else none }

/-- `t` cut to the resolution of the placeholders `P` -/
def truncTo (P : TField → Bool) (t : DateTime) : DateTime :=
  { y := t.y, mo := t.mo, d := t.d
    h := if P .hour then t.h else 0
    mi := if P .minute then t.mi else 0
    s := if P .second then t.s else 0
    us := if P .millisecond then 1000 * (t.us / 1000) else 0 }

/-- no placeholder that `get_filename` cannot fill -/
def NoSub (P : TField → Bool) : Prop :=
  P .decisecond = false ∧ P .centisecond = false ∧ P .microsecond = false

/-- the conditions under which the standardisation is the identity on the date -/
def StdOK (P : TField → Bool) (t : DateTime) : Prop :=
  NoSub P ∧ (P .year2 = true → 1965 ≤ t.y ∧ t.y ≤ 2064) ∧
    (P .doy = true → P .year = true ∨ P .year2 = true)

/-- `P` names a full date: year or year2, and month+day or doy -/
def HasDate (P : TField → Bool) : Prop :=
  (P .year = true ∨ P .year2 = true) ∧ ((P .month = true ∧ P .day = true) ∨ P .doy = true)

theorem expandYear2_mod (y : Nat) (h1 : 1965 ≤ y) (h2 : y ≤ 2064) : expandYear2 (y % 100) = y := by
  unfold expandYear2 year2Threshold; split <;> omega

theorem standardise_rawOf (P : TField → Bool) (t : DateTime) (hv : Valid t) (hok : StdOK P t) :
    standardise (rawOf P t) = .ok (stdOf P t) := by
  obtain ⟨⟨n1, n2, n3⟩, hy2, hdoy⟩ := hok
  have hvd := ((valid_iff t).1 hv).1
  have hd := ofYearDoy_doyOf t.y t.mo t.d hvd
  have hy : ¬(t.y < 1 ∨ 9999 < t.y) := by have := hvd.1; have := hvd.2.1; omega
  unfold standardise rawOf stdOf
  cases h1 : P .year2 <;> cases h2 : P .doy <;> cases h3 : P .year <;> cases h4 : P .millisecond <;>
    simp only [h1, h2, h3, h4, n1, n2, n3, tval, hd, hy, Bool.false_eq_true, ↓reduceIte,
      Option.isSome_none, Option.isSome_some, Bool.or_false, Bool.or_true, Bool.false_or,
      Bool.true_or, Option.getD_none, Option.getD_some, Nat.mul_zero, Nat.add_zero, Nat.zero_add]
  all_goals first
    | rfl
    | (simp only [expandYear2_mod _ (hy2 h1).1 (hy2 h1).2, hd, hy, ↓reduceIte]; done)
    | (exfalso; simp [h1, h2, h3] at hdoy; done)

theorem mkDate_stdOf (P : TField → Bool) (t : DateTime) (hv : Valid t) (hd : HasDate P) :
    mkDate (stdOf P t) = .ok (truncTo P t) := by
  have hvalid : valid (truncTo P t) = true := by
    have h := (valid_iff t).1 hv
    have : Valid (truncTo P t) := by
      rw [valid_iff]
      unfold truncTo
      obtain ⟨h1, h2, h3, h4, h5⟩ := h
      refine ⟨h1, ?_, ?_, ?_, ?_⟩
      · simp only; split <;> omega
      · simp only; split <;> omega
      · simp only; split <;> omega
      · simp only; split <;> omega
    exact this
  obtain ⟨hy, hmd⟩ := hd
  have e1 : (P .year2 || P .year) = true := by rcases hy with h | h <;> simp [h]
  have e2 : (P .doy || P .month) = true := by rcases hmd with ⟨h, _⟩ | h <;> simp [h]
  have e3 : (P .doy || P .day) = true := by rcases hmd with ⟨_, h⟩ | h <;> simp [h]
  unfold mkDate stdOf
  simp only [e1, e2, e3, ↓reduceIte]
  have : ({ y := t.y, mo := t.mo, d := t.d, h := (if P .hour = true then some t.h else none).getD 0,
            mi := (if P .minute = true then some t.mi else none).getD 0,
            s := (if P .second = true then some t.s else none).getD 0,
            us := (if P .millisecond = true then some (1000 * (t.us / 1000)) else none).getD 0 } : DateTime)
      = truncTo P t := by
    unfold truncTo
    cases P .hour <;> cases P .minute <;> cases P .second <;> cases P .millisecond <;> rfl
  simp only [this, hvalid, ↓reduceIte]

theorem stdOf_nonEmpty (P : TField → Bool) (t : DateTime) (hd : HasDate P) :
    (stdOf P t).nonEmpty = true := by
  obtain ⟨hy, _⟩ := hd
  have e1 : (P .year2 || P .year) = true := by rcases hy with h | h <;> simp [h]
  simp [Std.nonEmpty, stdOf, e1]

end Template
