import Proofs.Lemmas.Template
/-! Variable-width user placeholders under the `Unambig` predicate: value lists
(alternations), the default lazy regex `.+?` (and `.*?`), character classes with `+ * {n}`,
`\d{n}`.  The priority argument of the backtracking matcher, and the attributes that come back
through `get_info`. -/
namespace Template
open Time Digits

/-! ### Unambiguous templates -/

/-- the literal text that directly follows a position of the template -/
def litPrefix : List Tok → List Char
  | .lit c :: ts => c :: litPrefix ts
  | _ => []

/-- the following literal text `L` does not show up earlier: at no position inside the value
`v` does `v ++ L` continue with `L` (so a lazy match cannot stop before the end of `v`).
E.g. `v = "a.b"`, `L = ".nc"` is fine; `v = "a.nc"`, `L = ".nc"` is not. -/
def NoEarly (v L : List Char) : Prop :=
  ∀ k, k < v.length → L.isPrefixOf ((v ++ L).drop k) = false

/-- a lazy item is safe when the following literal text cannot be found early, or when it is
the very last token of the template (then `$` forces it to take the whole rest) -/
def LazyOK (v L : List Char) (atEnd : Bool) : Prop := NoEarly v L ∨ atEnd = true

/-- a SUFFICIENT condition (decidable) under which the placeholder regex `r`, written with the
value `v`, followed by the literal text `L` (`atEnd`: nothing at all follows), gives `v` back.
It is not necessary: e.g. backtracking can still recover a value list whose words contain the
following character. -/
def ValueOK : URegex → List Char → List Char → Bool → Prop
  | .alt ws, v, L, _ => v ∈ ws ∧
      match L with
      | c0 :: _ => ∀ w ∈ ws, c0 ∉ w          -- first following character occurs in no value
      | [] => False
  | .digits k, v, _, _ => v.length = k ∧ v.all isDigit = true
  | .lazyPlus, v, L, atEnd => 1 ≤ v.length ∧ (∀ c ∈ v, c ≠ '\n') ∧ LazyOK v L atEnd
  | .lazyStar, v, L, atEnd => (∀ c ∈ v, c ≠ '\n') ∧ LazyOK v L atEnd
  | .cls rs q, v, L, _ => (∀ c ∈ v, inCls rs c = true) ∧
      (match L with
        | c0 :: _ => inCls rs c0 = false      -- first following character is outside the class
        | [] => False) ∧
      (match q with
        | .plus => 1 ≤ v.length
        | .star => True
        | .exact k => v.length = k)

/-- a user placeholder is usable at this position: it has a regex (declared, or the default
`.+?` of the path setter) that is `plain` (value-list words without regex metacharacters — typhon
does not escape them —, well-formed classes), it is filled with a value free of special
characters, and value and following literal text satisfy `ValueOK` -/
def UserOK (cfg : Cfg) (ctx : Ctx) (n : String) (ts : List Tok) : Prop :=
  match cfg.regexOf n, ctx.fill.lookup n with
  | some r, some v =>
    r.plain = true ∧ (∀ c ∈ v, special c = false) ∧ ValueOK r v (litPrefix ts) ts.isEmpty
  | _, _ => False

/-- templates of literals, fillable temporal placeholders (fixed width, unrestricted) and user
placeholders satisfying `UserOK`; repeated placeholders allowed.  All conditions are decidable. -/
def Unambig (cfg : Cfg) (ctx : Ctx) : List Tok → Prop
  | [] => True
  | .lit c :: ts => regexActive c = false ∧ special c = false ∧ Unambig cfg ctx ts
  | .ph (.time _ f) :: ts => fillable f = true ∧ Unambig cfg ctx ts
  | .ph (.user n) :: ts => UserOK cfg ctx n ts ∧ Unambig cfg ctx ts
  | .star :: _ => False

theorem userOK_elim {cfg : Cfg} {ctx : Ctx} {n : String} {ts : List Tok} (h : UserOK cfg ctx n ts) :
    ∃ r v, cfg.regexOf n = some r ∧ ctx.fill.lookup n = some v ∧ r.plain = true ∧
      (∀ c ∈ v, special c = false) ∧ ValueOK r v (litPrefix ts) ts.isEmpty := by
  unfold UserOK at h
  cases h1 : cfg.regexOf n with
  | none => simp [h1] at h
  | some r =>
    cases h2 : ctx.fill.lookup n with
    | none => simp [h1, h2] at h
    | some v =>
      simp only [h1, h2] at h
      exact ⟨r, v, rfl, rfl, h.1, h.2.1, h.2.2⟩

theorem unambig_of_fixed (cfg : Cfg) (ctx : Ctx) :
    ∀ tpl : List Tok, (∀ t ∈ tpl, FixedTok t) → Unambig cfg ctx tpl := by
  intro tpl
  induction tpl with
  | nil => intro _; trivial
  | cons t ts ih =>
    intro h
    have ht := h t List.mem_cons_self
    have hts := ih (fun t ht => h t (List.mem_cons_of_mem _ ht))
    cases t with
    | lit c => exact ⟨ht.1, ht.2, hts⟩
    | star => exact absurd ht (by simp [FixedTok])
    | ph k =>
      cases k with
      | time isEnd f => exact ⟨ht, hts⟩
      | user n => exact absurd ht (by simp [FixedTok])

/-! ### The priority argument -/

theorem findSome_of_mem {α β : Type} (f : α → Option β) (l : List α) (n : α) (r : β)
    (hn : n ∈ l) (hall : ∀ k ∈ l, k = n ∨ f k = none) (hf : f n = some r) :
    l.findSome? f = some r := by
  induction l with
  | nil => simp at hn
  | cons x xs ih =>
    rcases hall x List.mem_cons_self with hx | hx
    · subst hx; simp [List.findSome?_cons, hf]
    · have hne : n ≠ x := by
        intro h; subst h; rw [hf] at hx; simp at hx
      have hn' : n ∈ xs := by
        rcases List.mem_cons.mp hn with h | h
        · exact absurd h hne
        · exact h
      simp only [List.findSome?_cons, hx]
      exact ih hn' (fun k hk => hall k (List.mem_cons_of_mem _ hk))

/-- one matching step when the first item offers the length `n` and every other offered length
dead-ends -/
theorem matchItems_cons_prio (it : Item) (key : Option Key) (rest : List (Item × Option Key))
    (s : List Char) (n : Nat) (r : Caps) (hn : n ∈ cands it s)
    (hall : ∀ k ∈ cands it s, k = n ∨ matchItems rest (s.drop k) = none)
    (hr : matchItems rest (s.drop n) = some r) :
    matchItems ((it, key) :: rest) s =
      some (match key with
        | some k => (k, s.take n) :: r
        | none => r) := by
  simp only [matchItems]
  apply findSome_of_mem _ _ n _ hn
  · intro k hk
    rcases hall k hk with h | h
    · exact Or.inl h
    · right; simp only [h]
  · simp only [hr]
    cases key <;> rfl

theorem matchItems_char_ne (c0 : Char) (key : Option Key) (rest : List (Item × Option Key))
    (x : Char) (xs : List Char) (hx : x ≠ c0) :
    matchItems ((.char c0, key) :: rest) (x :: xs) = none := by
  simp [matchItems, cands, hx]

/-- candidates of an alternation in front of `v ++ c0 :: t` when `c0` occurs in no word -/
theorem cands_alt_spec (ws : List (List Char)) (v : List Char) (c0 : Char) (t : List Char)
    (hv : v ∈ ws) (hc : ∀ w ∈ ws, c0 ∉ w) :
    v.length ∈ cands (.alt ws) (v ++ c0 :: t) ∧
      ∀ k ∈ cands (.alt ws) (v ++ c0 :: t), k ≤ v.length := by
  constructor
  · simp only [cands, List.mem_filterMap]
    refine ⟨v, hv, ?_⟩
    have : v.isPrefixOf (v ++ c0 :: t) = true := by
      rw [List.isPrefixOf_iff_prefix]; exact List.prefix_append _ _
    simp [this]
  · intro k hk
    simp only [cands, List.mem_filterMap] at hk
    obtain ⟨w, hw, hk⟩ := hk
    split at hk
    · rename_i hp
      simp only [Option.some.injEq] at hk
      subst hk
      rw [List.isPrefixOf_iff_prefix] at hp
      rcases Nat.lt_or_ge v.length w.length with hlt | hge
      · exfalso
        have heq := List.prefix_iff_eq_take.mp hp
        have hmem : c0 ∈ w := by
          rw [heq, List.take_append]
          apply List.mem_append_right
          obtain ⟨m, hm⟩ : ∃ m, w.length - v.length = m + 1 := ⟨w.length - v.length - 1, by omega⟩
          rw [hm, List.take_succ_cons]
          exact List.mem_cons_self
        exact hc w hw hmem
      · exact hge
    · simp at hk

/-! ### Reaching the true length in the engine's priority order -/

/-- in the candidate list of `it` at `s`, the length `n` is reached: every search function that
dead-ends wherever the rest of the template does not match, and succeeds at `n`, succeeds -/
def Reaches (it : Item) (s : List Char) (n : Nat) (items : List (Item × Option Key)) : Prop :=
  ∀ F : Nat → Option Caps, (∀ k, k ≠ n → matchItems items (s.drop k) = none → F k = none) →
    ∀ r, F n = some r → (cands it s).findSome? F = some r

theorem matchItems_of_reaches (it : Item) (key : Option Key) (items : List (Item × Option Key))
    (s : List Char) (n : Nat) (caps : Caps) (hreach : Reaches it s n items)
    (hr : matchItems items (s.drop n) = some caps) :
    matchItems ((it, key) :: items) s =
      some (match key with
        | some k => (k, s.take n) :: caps
        | none => caps) := by
  simp only [matchItems]
  apply hreach
  · intro k _ hk; simp only [hk]
  · simp only [hr]; cases key <;> rfl

theorem findSome_range' {β : Type} (F : Nat → Option β) (r : β) (n : Nat) :
    ∀ (len m : Nat), m ≤ n → n < m + len → (∀ k, m ≤ k → k < n → F k = none) → F n = some r →
      (List.range' m len).findSome? F = some r := by
  intro len
  induction len with
  | zero => intro m h1 h2; omega
  | succ len ih =>
    intro m h1 h2 hbad hf
    rw [List.range'_succ, List.findSome?_cons]
    rcases Nat.eq_or_lt_of_le h1 with rfl | hlt
    · simp [hf]
    · rw [hbad m (Nat.le_refl _) hlt]
      exact ih (m + 1) hlt (by omega) (fun k hk1 hk2 => hbad k (by omega) hk2) hf

theorem takeWhile_length_ge (p : Char → Bool) :
    ∀ (v rest : List Char), (∀ c ∈ v, p c = true) → v.length ≤ ((v ++ rest).takeWhile p).length := by
  intro v
  induction v with
  | nil => intro rest _; simp
  | cons x xs ih =>
    intro rest h
    have hx : p x = true := h x List.mem_cons_self
    simp only [List.cons_append, List.takeWhile_cons, hx, ↓reduceIte, List.length_cons]
    have := ih rest (fun c hc => h c (List.mem_cons_of_mem _ hc))
    omega

theorem takeWhile_append_stop (p : Char → Bool) :
    ∀ (v : List Char) (c0 : Char) (rest : List Char), (∀ c ∈ v, p c = true) → p c0 = false →
      (v ++ c0 :: rest).takeWhile p = v := by
  intro v
  induction v with
  | nil => intro c0 rest _ h0; simp [List.takeWhile_cons, h0]
  | cons x xs ih =>
    intro c0 rest h h0
    have hx : p x = true := h x List.mem_cons_self
    simp only [List.cons_append, List.takeWhile_cons, hx, ↓reduceIte]
    rw [ih c0 rest (fun c hc => h c (List.mem_cons_of_mem _ hc)) h0]

theorem downTo_head (lo k : Nat) (h : lo ≤ k) : ∃ tl, downTo lo k = k :: tl := by
  cases k with
  | zero =>
    have : lo = 0 := by omega
    subst this; exact ⟨[], by simp [downTo]⟩
  | succ k => exact ⟨downTo lo k, by simp [downTo, h]⟩

/-- when the literal text `L` follows and `NoEarly v L` holds, stopping inside `v` dead-ends -/
theorem noEarly_dead (v L t : List Char) (items : List (Item × Option Key))
    (hfail : ∀ str, L.isPrefixOf str = false → matchItems items str = none)
    (hne : NoEarly v L) (k : Nat) (hk : k < v.length) :
    matchItems items ((v ++ (L ++ t)).drop k) = none := by
  apply hfail
  have h1 := hne k hk
  cases h2 : L.isPrefixOf ((v ++ (L ++ t)).drop k) with
  | false => rfl
  | true =>
    exfalso
    rw [List.isPrefixOf_iff_prefix] at h2
    have hdrop : (v ++ (L ++ t)).drop k = (v ++ L).drop k ++ t := by
      rw [← List.append_assoc, List.drop_append_of_le_length (by simp; omega)]
    rw [hdrop] at h2
    have hlen : L.length ≤ ((v ++ L).drop k).length := by simp; omega
    have h3 : L <+: (v ++ L).drop k :=
      List.prefix_of_prefix_length_le h2 (List.prefix_append _ _) hlen
    rw [← List.isPrefixOf_iff_prefix] at h3
    rw [h3] at h1; simp at h1

/-- stopping inside `v` dead-ends when the first following character does not occur in `v` -/
theorem char_dead (v : List Char) (c0 : Char) (L' t : List Char) (items : List (Item × Option Key))
    (hfail : ∀ str, (c0 :: L').isPrefixOf str = false → matchItems items str = none)
    (hc : c0 ∉ v) (k : Nat) (hk : k < v.length) :
    matchItems items ((v ++ (c0 :: L' ++ t)).drop k) = none := by
  apply hfail
  rw [List.drop_append_of_le_length (by omega), List.drop_eq_getElem_cons hk]
  have hne : v[k] ≠ c0 := fun h => hc (h ▸ List.getElem_mem hk)
  have : (c0 == v[k]) = false := by simpa using fun h : c0 = v[k] => hne h.symm
  rw [List.cons_append]
  simp only [List.isPrefixOf, this, Bool.false_and]

/-- a lazy item at the very end of the template: stopping inside `v` leaves a non-empty rest
that is not a lone newline, which `$` rejects -/
theorem end_dead (v : List Char) (hnl : ∀ c ∈ v, c ≠ '\n') (k : Nat) (hk : k < v.length) :
    matchItems [] ((v ++ ([] ++ [])).drop k) = none := by
  simp only [List.append_nil]
  have hne : v[k] ≠ '\n' := hnl _ (List.getElem_mem hk)
  have hd : List.drop k v = v[k] :: List.drop (k + 1) v := List.drop_eq_getElem_cons hk
  have h1 : List.drop k v ≠ [] := by intro h; rw [hd] at h; exact List.cons_ne_nil _ _ h
  have h2 : List.drop k v ≠ ['\n'] := by
    intro h; rw [hd] at h; simp only [List.cons.injEq] at h; exact hne h.1
  simp only [matchItems, h1, h2, or_self, ↓reduceIte]

theorem lazy_dead (v L t : List Char) (items : List (Item × Option Key)) (atEnd : Bool)
    (hnl : ∀ c ∈ v, c ≠ '\n') (hl : LazyOK v L atEnd)
    (hfail : ∀ str, L.isPrefixOf str = false → matchItems items str = none)
    (hend : atEnd = true → items = [] ∧ L = [] ∧ t = []) (k : Nat) (hk : k < v.length) :
    matchItems items ((v ++ (L ++ t)).drop k) = none := by
  rcases hl with hne | he
  · exact noEarly_dead v L t items hfail hne k hk
  · obtain ⟨rfl, rfl, rfl⟩ := hend he
    exact end_dead v hnl k hk

theorem reaches_user (r : URegex) (v L t : List Char) (items : List (Item × Option Key))
    (atEnd : Bool) (hok : ValueOK r v L atEnd)
    (hfail : ∀ str, L.isPrefixOf str = false → matchItems items str = none)
    (hend : atEnd = true → items = [] ∧ L = [] ∧ t = []) :
    Reaches r.item (v ++ (L ++ t)) v.length items := by
  intro F hF res hres
  cases r with
  | digits k =>
    obtain ⟨hl, hd⟩ := hok
    have := det_digits k v hl hd (L ++ t)
    simp only [URegex.item, this, List.findSome?_cons, hres]
  | alt ws =>
    obtain ⟨hv, hL⟩ := hok
    cases L with
    | nil => exact absurd hL id
    | cons c0 L' =>
      simp only at hL
      obtain ⟨hmem, hle⟩ := cands_alt_spec ws v c0 (L' ++ t) hv hL
      have hs : v ++ (c0 :: L' ++ t) = v ++ c0 :: (L' ++ t) := by simp
      simp only [URegex.item]
      apply findSome_of_mem F _ v.length res (by rw [hs]; exact hmem) _ hres
      intro k hk
      rcases Nat.lt_or_ge k v.length with hlt | hge
      · right
        exact hF k (by omega) (char_dead v c0 L' t items hfail (hL v hv) k hlt)
      · left
        have := hle k (by rw [← hs]; exact hk)
        omega
  | lazyPlus =>
    obtain ⟨h1, hnl, hne⟩ := hok
    simp only [URegex.item, cands]
    have hK := takeWhile_length_ge (fun c => c ≠ '\n') v (L ++ t) (by simpa using hnl)
    exact findSome_range' F res v.length _ 1 h1 (by omega)
      (fun k _ hk => hF k (by omega) (lazy_dead v L t items atEnd hnl hne hfail hend k hk)) hres
  | lazyStar =>
    obtain ⟨hnl, hne⟩ := hok
    simp only [URegex.item, cands]
    have hK := takeWhile_length_ge (fun c => c ≠ '\n') v (L ++ t) (by simpa using hnl)
    exact findSome_range' F res v.length _ 0 (Nat.zero_le _) (by omega)
      (fun k _ hk => hF k (by omega) (lazy_dead v L t items atEnd hnl hne hfail hend k hk)) hres
  | cls rs q =>
    obtain ⟨hin, hL, hq⟩ := hok
    cases L with
    | nil => exact absurd hL id
    | cons c0 L' =>
      simp only at hL
      have hs : v ++ (c0 :: L' ++ t) = v ++ c0 :: (L' ++ t) := by simp
      have htw : ((v ++ (c0 :: L' ++ t)).takeWhile (inCls rs)) = v := by
        rw [hs]; exact takeWhile_append_stop (inCls rs) v c0 (L' ++ t) hin hL
      cases q with
      | plus =>
        simp only at hq
        obtain ⟨tl, htl⟩ := downTo_head 1 v.length hq
        simp only [URegex.item, cands, htw, htl, List.findSome?_cons, hres]
      | star =>
        obtain ⟨tl, htl⟩ := downTo_head 0 v.length (Nat.zero_le _)
        simp only [URegex.item, cands, htw, htl, List.findSome?_cons, hres]
      | exact k =>
        simp only at hq
        subst hq
        simp only [URegex.item, cands, htw, Nat.le_refl, ↓reduceIte, List.findSome?_cons, hres]

/-! ### Compile, format and match agree on unambiguous templates -/

theorem isPrefixOf_nil_false (str : List Char) : ([] : List Char).isPrefixOf str = false → False := by
  simp [List.isPrefixOf]

theorem compile_match_unambig (cfg : Cfg) (ctx : Ctx) (hs : GoodTime ctx.s) (he : GoodTime ctx.e) :
    ∀ (tpl : List Tok) (seen : List Key), Unambig cfg ctx tpl →
      ∃ items ps, compile cfg tpl seen = .ok items ∧ pieces cfg ctx tpl = .ok ps ∧
        matchItems items ps.flatten = some (capsOf ctx tpl seen) ∧
        (∀ c ∈ ps.flatten, special c = false) ∧
        (∀ str, (litPrefix tpl).isPrefixOf str = false → matchItems items str = none) ∧
        (∃ t, ps.flatten = litPrefix tpl ++ t) := by
  intro tpl
  induction tpl with
  | nil =>
    intro seen _
    refine ⟨[], [], rfl, rfl, by simp [matchItems, capsOf], by simp, ?_, ⟨[], by simp [litPrefix]⟩⟩
    intro str h; exact absurd h (by simp [litPrefix, List.isPrefixOf])
  | cons t ts ih =>
    intro seen hu
    cases t with
    | star => exact absurd hu (by simp [Unambig])
    | lit c =>
      obtain ⟨hra, hsp, hts⟩ := hu
      obtain ⟨items, ps, h1, h2, h3, h5, h6, t, h7⟩ := ih seen hts
      refine ⟨(.char c, none) :: items, [c] :: ps, ?_, ?_, ?_, ?_, ?_, ?_⟩
      · simp only [compile, compileTok, hra, h1, Bool.false_eq_true, ↓reduceIte]
      · simp only [pieces, piece, h2]
      · have hstep := matchItems_cons_prio (.char c) none items (c :: ps.flatten) 1 _
          (by simp [cands]) (by intro k hk; left; simpa [cands] using hk)
          (by simpa using h3)
        simpa [capsOf] using hstep
      · intro x hx
        simp only [List.flatten_cons, List.mem_append, List.mem_singleton] at hx
        rcases hx with rfl | hx
        · exact hsp
        · exact h5 x hx
      · intro str hstr
        cases str with
        | nil => simp [matchItems, cands]
        | cons x xs =>
          by_cases hx : x = c
          · subst hx
            have hxs : (litPrefix ts).isPrefixOf xs = false := by
              simpa [litPrefix, List.isPrefixOf] using hstr
            have := h6 xs hxs
            simp [matchItems, cands, this]
          · exact matchItems_char_ne c none items x xs hx
      · exact ⟨t, by simp [litPrefix, h7]⟩
    | ph k =>
      have hlp : litPrefix (Tok.ph k :: ts) = [] := rfl
      have hnil : ∀ (items : List (Item × Option Key)) (str : List Char),
          (litPrefix (Tok.ph k :: ts)).isPrefixOf str = false → matchItems items str = none := by
        intro items str h; rw [hlp] at h; exact absurd h (by simp [List.isPrefixOf])
      cases k with
      | time isEnd f =>
        obtain ⟨ht, hts⟩ := hu
        have hgt : GoodTime (if isEnd then ctx.e else ctx.s) := by cases isEnd <;> simpa
        obtain ⟨sl, sd, _⟩ := tstr_spec _ f hgt ht
        have hdet := det_digits f.width _ sl sd
        have hpiece : piece cfg ctx (.ph (.time isEnd f)) =
            .ok (tstr (if isEnd then ctx.e else ctx.s) f) := by
          simp only [piece]; exact timePiece_eq _ _ ht
        have hspec : ∀ c ∈ tstr (if isEnd then ctx.e else ctx.s) f, special c = false := by
          intro c hc
          exact special_of_digit c ((List.all_eq_true.mp sd) c hc)
        have hstep : ∀ (key : Option Key) (items : List (Item × Option Key)) (ps : List (List Char))
            (r : Caps), matchItems items ps.flatten = some r →
            matchItems ((.digits f.width, key) :: items)
              (tstr (if isEnd then ctx.e else ctx.s) f ++ ps.flatten) =
              some (match key with
                | some k => (k, tstr (if isEnd then ctx.e else ctx.s) f) :: r
                | none => r) := by
          intro key items ps r hr
          have := matchItems_cons_prio (.digits f.width) key items
            (tstr (if isEnd then ctx.e else ctx.s) f ++ ps.flatten)
            (tstr (if isEnd then ctx.e else ctx.s) f).length r
            (by rw [hdet]; simp) (by intro k hk; left; rw [hdet] at hk; simpa using hk)
            (by simpa using hr)
          simpa using this
        by_cases hseen : seen.contains (Key.time isEnd f) = true
        · obtain ⟨items, ps, h1, h2, h3, h5, _, _⟩ := ih seen hts
          refine ⟨(.digits f.width, none) :: items, tstr (if isEnd then ctx.e else ctx.s) f :: ps,
            ?_, ?_, ?_, ?_, hnil _, ⟨_, by rw [hlp]; rfl⟩⟩
          · simp only [compile, compileTok, hseen, h1, ↓reduceIte]
          · simp only [pieces, hpiece, h2]
          · have hmem : Key.time isEnd f ∈ seen := by simpa using hseen
            simpa [capsOf, hmem] using hstep none items ps _ h3
          · intro x hx
            simp only [List.flatten_cons, List.mem_append] at hx
            rcases hx with hx | hx
            · exact hspec x hx
            · exact h5 x hx
        · obtain ⟨items, ps, h1, h2, h3, h5, _, _⟩ := ih (Key.time isEnd f :: seen) hts
          refine ⟨(.digits f.width, some (Key.time isEnd f)) :: items,
            tstr (if isEnd then ctx.e else ctx.s) f :: ps, ?_, ?_, ?_, ?_, hnil _,
            ⟨_, by rw [hlp]; rfl⟩⟩
          · simp only [compile, compileTok, hseen, h1, Bool.false_eq_true, ↓reduceIte]
          · simp only [pieces, hpiece, h2]
          · have hmem : Key.time isEnd f ∉ seen := by simpa using hseen
            simpa [capsOf, hmem, keyStr] using hstep (some (Key.time isEnd f)) items ps _ h3
          · intro x hx
            simp only [List.flatten_cons, List.mem_append] at hx
            rcases hx with hx | hx
            · exact hspec x hx
            · exact h5 x hx
      | user n =>
        obtain ⟨huser, hts⟩ := hu
        obtain ⟨r, v, hreg, hfill, hplain, hvs, hok⟩ := userOK_elim huser
        have hpiece : piece cfg ctx (.ph (.user n)) = .ok v := by
          simp only [piece, hfill]
        have hstep : ∀ (key : Option Key) (items : List (Item × Option Key)) (t : List Char)
            (caps : Caps),
            (∀ str, (litPrefix ts).isPrefixOf str = false → matchItems items str = none) →
            (ts.isEmpty = true → items = [] ∧ litPrefix ts = [] ∧ t = []) →
            matchItems items (litPrefix ts ++ t) = some caps →
            matchItems ((r.item, key) :: items) (v ++ (litPrefix ts ++ t)) =
              some (match key with
                | some k => (k, v) :: caps
                | none => caps) := by
          intro key items t caps hfail hend hr
          have := matchItems_of_reaches r.item key items (v ++ (litPrefix ts ++ t)) v.length caps
            (reaches_user r v (litPrefix ts) t items ts.isEmpty hok hfail hend) (by simpa using hr)
          simpa using this
        -- at the very end of the template nothing is compiled and nothing is written after `v`
        have hendOf : ∀ (seen' : List Key) (items : List (Item × Option Key)) (ps : List (List Char))
            (t : List Char), compile cfg ts seen' = .ok items → pieces cfg ctx ts = .ok ps →
            ps.flatten = litPrefix ts ++ t →
            ts.isEmpty = true → items = [] ∧ litPrefix ts = [] ∧ t = [] := by
          intro seen' items ps t hc hp hflat hemp
          have hts0 : ts = [] := by simpa using hemp
          subst hts0
          simp only [compile, Except.ok.injEq] at hc
          simp only [pieces, Except.ok.injEq] at hp
          subst hc; subst hp
          simp [litPrefix] at hflat
          exact ⟨rfl, rfl, hflat⟩
        by_cases hseen : seen.contains (Key.user n) = true
        · obtain ⟨items, ps, h1, h2, h3, h5, h6, t, hflat⟩ := ih seen hts
          refine ⟨(r.item, none) :: items, v :: ps, ?_, ?_, ?_, ?_, hnil _, ⟨_, by rw [hlp]; rfl⟩⟩
          · simp only [compile, compileTok, hreg, hplain, hseen, h1, Bool.not_true, Bool.false_eq_true,
              ↓reduceIte]
          · simp only [pieces, hpiece, h2]
          · have hend := hendOf seen items ps t h1 h2 hflat
            rw [List.flatten_cons, hflat]
            rw [hflat] at h3
            have hmem : Key.user n ∈ seen := by simpa using hseen
            simpa [capsOf, hmem] using hstep none items t _ h6 hend h3
          · intro x hx
            simp only [List.flatten_cons, List.mem_append] at hx
            rcases hx with hx | hx
            · exact hvs x hx
            · exact h5 x hx
        · obtain ⟨items, ps, h1, h2, h3, h5, h6, t, hflat⟩ := ih (Key.user n :: seen) hts
          refine ⟨(r.item, some (Key.user n)) :: items, v :: ps, ?_, ?_, ?_, ?_, hnil _,
            ⟨_, by rw [hlp]; rfl⟩⟩
          · simp only [compile, compileTok, hreg, hplain, hseen, h1, Bool.not_true, Bool.false_eq_true,
              ↓reduceIte]
          · simp only [pieces, hpiece, h2]
          · have hend := hendOf (Key.user n :: seen) items ps t h1 h2 hflat
            rw [List.flatten_cons, hflat]
            rw [hflat] at h3
            have hmem : Key.user n ∉ seen := by simpa using hseen
            simpa [capsOf, hmem, keyStr, hfill] using hstep (some (Key.user n)) items t _ h6 hend h3
          · intro x hx
            simp only [List.flatten_cons, List.mem_append] at hx
            rcases hx with hx | hx
            · exact hvs x hx
            · exact h5 x hx

/-! ### Attributes -/

theorem lookup_attrSet (a : Attrs) (k : String) (v : List Char) (n : String) :
    (attrSet a k v).lookup n = if n = k then some v else a.lookup n := by
  induction a with
  | nil =>
    by_cases h : n = k
    · subst h; simp [attrSet, List.lookup]
    · have : (n == k) = false := by simpa using h
      simp [attrSet, List.lookup, this, h]
  | cons x xs ih =>
    obtain ⟨k', v'⟩ := x
    simp only [attrSet]
    by_cases hk : k' = k
    · subst hk
      simp only [↓reduceIte, List.lookup_cons]
      by_cases h : n = k'
      · subst h; simp
      · have : (n == k') = false := by simpa using h
        simp [this, h]
    · simp only [hk, ↓reduceIte, List.lookup_cons, ih]
      by_cases h : n = k'
      · subst h
        have : n ≠ k := hk
        simp [this]
      · have : (n == k') = false := by simpa using h
        simp [this]

/-- `dict.update`: a key all of whose new values are `v`, written at least once or already
holding `v`, ends up holding `v` -/
theorem lookup_attrUpdate (b : Attrs) (n : String) (v : List Char)
    (hval : ∀ kv ∈ b, kv.1 = n → kv.2 = v) :
    ∀ a : Attrs, (a.lookup n = some v ∨ ∃ kv ∈ b, kv.1 = n) → (attrUpdate a b).lookup n = some v := by
  induction b with
  | nil =>
    intro a h
    rcases h with h | ⟨kv, hkv, _⟩
    · simpa [attrUpdate] using h
    · simp at hkv
  | cons x xs ih =>
    intro a h
    have hval' : ∀ kv ∈ xs, kv.1 = n → kv.2 = v := fun kv hkv => hval kv (List.mem_cons_of_mem _ hkv)
    have hfold : attrUpdate a (x :: xs) = attrUpdate (attrSet a x.1 x.2) xs := by
      simp [attrUpdate]
    rw [hfold]
    apply ih hval'
    by_cases hx : x.1 = n
    · left
      rw [lookup_attrSet, if_pos hx.symm, hval x List.mem_cons_self hx]
    · rcases h with h | ⟨kv, hkv, hk⟩
      · left
        rw [lookup_attrSet, if_neg (fun h' => hx h'.symm)]; exact h
      · rcases List.mem_cons.mp hkv with rfl | hkv
        · exact absurd hk hx
        · exact Or.inr ⟨kv, hkv, hk⟩

theorem mem_capsOf_val (ctx : Ctx) :
    ∀ (tpl : List Tok) (seen : List Key) (kv : Key × List Char), kv ∈ capsOf ctx tpl seen →
      kv.2 = keyStr ctx kv.1 := by
  intro tpl
  induction tpl with
  | nil => intro seen kv h; simp [capsOf] at h
  | cons t ts ih =>
    intro seen kv h
    cases t with
    | lit c => exact ih seen kv (by simpa [capsOf] using h)
    | star => exact ih seen kv (by simpa [capsOf] using h)
    | ph k =>
      simp only [capsOf] at h
      split at h
      · exact ih seen kv h
      · rcases List.mem_cons.mp h with rfl | h
        · rfl
        · exact ih _ kv h

theorem mem_capsOf_of_lookup (caps : Caps) (k : Key) (x : List Char) (h : caps.lookup k = some x) :
    (k, x) ∈ caps := by
  induction caps with
  | nil => simp at h
  | cons kv rest ih =>
    obtain ⟨k', x'⟩ := kv
    rw [List.lookup_cons] at h
    by_cases hk : k = k'
    · subst hk
      simp only [beq_self_eq_true] at h
      simp only [Option.some.injEq] at h
      subst h; exact List.mem_cons_self
    · have : (k == k') = false := by simpa using hk
      simp only [this] at h
      exact List.mem_cons_of_mem _ (ih h)

/-- every user placeholder of the template comes back as an attribute with its fill value -/
theorem attrs_capsOf (ctx : Ctx) (tpl : List Tok) (n : String) (hmem : Tok.ph (.user n) ∈ tpl)
    (a : Attrs) :
    (attrUpdate a (userCaps (capsOf ctx tpl []))).lookup n = some (keyStr ctx (.user n)) := by
  apply lookup_attrUpdate
  · intro kv hkv hk
    simp only [userCaps, List.mem_filterMap] at hkv
    obtain ⟨⟨key, x⟩, hin, hmap⟩ := hkv
    cases key with
    | time isEnd f => simp at hmap
    | user m =>
      simp only [Option.some.injEq] at hmap
      subst hmap
      simp only at hk
      subst hk
      exact mem_capsOf_val ctx tpl [] _ hin
  · right
    have hl : (capsOf ctx tpl []).lookup (.user n) = some (keyStr ctx (.user n)) := by
      rw [lookup_capsOf]; simp [hmem]
    have := mem_capsOf_of_lookup _ _ _ hl
    refine ⟨(n, keyStr ctx (.user n)), ?_, rfl⟩
    simp only [userCaps, List.mem_filterMap]
    exact ⟨(.user n, keyStr ctx (.user n)), this, rfl⟩

/-! ### Captured temporal fields for any template whose temporal placeholders are fillable -/

theorem capsNumeric_capsOf_gen (ctx : Ctx) (hs : GoodTime ctx.s) (he : GoodTime ctx.e) :
    ∀ (tpl : List Tok) (seen : List Key),
      (∀ isEnd f, Tok.ph (.time isEnd f) ∈ tpl → fillable f = true) →
      capsNumeric (capsOf ctx tpl seen) = true := by
  intro tpl
  induction tpl with
  | nil => intro seen _; simp [capsOf, capsNumeric]
  | cons t ts ih =>
    intro seen hfill
    have hts : ∀ isEnd f, Tok.ph (.time isEnd f) ∈ ts → fillable f = true :=
      fun isEnd f h => hfill isEnd f (List.mem_cons_of_mem _ h)
    cases t with
    | lit c => simpa [capsOf] using ih seen hts
    | star => simpa [capsOf] using ih seen hts
    | ph k =>
      simp only [capsOf]
      split
      · exact ih seen hts
      · cases k with
        | user n =>
          have := ih (Key.user n :: seen) hts
          simp only [capsNumeric, List.all_cons, Bool.true_and] at this ⊢
          exact this
        | time isEnd f =>
          have ht := hfill isEnd f List.mem_cons_self
          have hgt : GoodTime (if isEnd then ctx.e else ctx.s) := by cases isEnd <;> simpa
          obtain ⟨_, _, sp⟩ := tstr_spec _ f hgt ht
          have := ih (Key.time isEnd f :: seen) hts
          simp only [capsNumeric, List.all_cons, keyStr, sp, Option.isSome_some, Bool.true_and] at this ⊢
          exact this

theorem fieldVal_capsOf_gen (ctx : Ctx) (hs : GoodTime ctx.s) (he : GoodTime ctx.e) (tpl : List Tok)
    (hfill : ∀ isEnd f, Tok.ph (.time isEnd f) ∈ tpl → fillable f = true) (isEnd : Bool) (f : TField) :
    fieldVal (capsOf ctx tpl []) isEnd f =
      if Tok.ph (.time isEnd f) ∈ tpl then some (tval (if isEnd then ctx.e else ctx.s) f) else none := by
  unfold fieldVal
  rw [lookup_capsOf]
  by_cases hm : Tok.ph (Key.time isEnd f) ∈ tpl
  · have hf : fillable f = true := hfill _ _ hm
    have hgt : GoodTime (if isEnd then ctx.e else ctx.s) := by cases isEnd <;> simpa
    simp [hm, keyStr, (tstr_spec _ f hgt hf).2.2]
  · simp [hm]

theorem unambig_time_fillable (cfg : Cfg) (ctx : Ctx) :
    ∀ tpl : List Tok, Unambig cfg ctx tpl →
      ∀ isEnd f, Tok.ph (.time isEnd f) ∈ tpl → fillable f = true := by
  intro tpl
  induction tpl with
  | nil => intro _ isEnd f h; simp at h
  | cons t ts ih =>
    intro hu isEnd f hm
    cases t with
    | star => exact absurd hu (by simp [Unambig])
    | lit c =>
      have := ih hu.2.2 isEnd f (by simpa using hm)
      exact this
    | ph k =>
      cases k with
      | user n => exact ih hu.2 isEnd f (by simpa using hm)
      | time isEnd' f' =>
        rcases List.mem_cons.mp hm with h | h
        · simp only [Tok.ph.injEq, Key.time.injEq] at h
          obtain ⟨_, rfl⟩ := h
          exact hu.1
        · exact ih hu.2 isEnd f h

theorem unambig_user_fill (cfg : Cfg) (ctx : Ctx) :
    ∀ tpl : List Tok, Unambig cfg ctx tpl → ∀ n, Tok.ph (.user n) ∈ tpl →
      ∃ v, ctx.fill.lookup n = some v ∧ keyStr ctx (.user n) = v := by
  intro tpl
  induction tpl with
  | nil => intro _ n h; simp at h
  | cons t ts ih =>
    intro hu n hm
    cases t with
    | star => exact absurd hu (by simp [Unambig])
    | lit c => exact ih hu.2.2 n (by simpa using hm)
    | ph k =>
      cases k with
      | time isEnd f => exact ih hu.2 n (by simpa using hm)
      | user m =>
        rcases List.mem_cons.mp hm with h | h
        · simp only [Tok.ph.injEq, Key.user.injEq] at h
          subst h
          obtain ⟨r, v, _, hfill, _⟩ := userOK_elim hu.1
          exact ⟨v, hfill, by simp [keyStr, hfill]⟩
        · exact ih hu.2 n h

/-- the attributes `get_info` (mode filename) reports are the user captures of the parsed name -/
theorem getInfo_filename_attrs (cfg : Cfg) (tc : Option Int) (hd : Info) (name : List Char)
    (a b : DateTime) (attrs : Attrs) (h : getInfo cfg .filename tc hd name = .ok (a, b, attrs)) :
    ∃ caps, parseFilename cfg name = .ok caps ∧ attrs = attrUpdate [] (userCaps caps) := by
  unfold getInfo at h
  cases hp : parseFilename cfg name with
  | error e => simp [hp] at h
  | ok caps =>
    refine ⟨caps, rfl, ?_⟩
    cases hr : retrieveTimeCoverage cfg caps with
    | error e => simp [hp, hr] at h
    | ok se =>
      obtain ⟨st, en⟩ := se
      simp only [hp, hr, Info.update] at h
      cases hsf : singleFile cfg.path <;> cases st <;> cases en <;> cases tc <;>
        simp [hsf] at h <;> first
        | exact h.2.2.symm
        | (split at h <;> simp at h <;> exact h.2.2.symm)

end Template
