import Proofs.Lemmas.Template
/-! Variable-width user placeholders (value lists / alternations of literal words) under the
`Unambig` predicate: the priority argument of the backtracking matcher, and the attributes that
come back through `get_info`. -/
namespace Template
open Time Digits

/-! ### Unambiguous templates -/

/-- a user placeholder is usable at this position: it is declared as a value list `ws`, it is
filled with one of the values (free of special characters), and it is followed by a literal
whose first character occurs in none of the values -/
def UserOK (cfg : Cfg) (ctx : Ctx) (n : String) (ts : List Tok) : Prop :=
  match cfg.regexOf n, ctx.fill.lookup n, ts with
  | some (.alt ws), some v, .lit c0 :: _ =>
    v ∈ ws ∧ (∀ c ∈ v, special c = false) ∧ (∀ w ∈ ws, c0 ∉ w)
  | _, _, _ => False

/-- templates of literals, fillable temporal placeholders (fixed width, unrestricted) and
value-list user placeholders each followed by a distinguishing literal; repeated placeholders
allowed.  All conditions are decidable. -/
def Unambig (cfg : Cfg) (ctx : Ctx) : List Tok → Prop
  | [] => True
  | .lit c :: ts => regexActive c = false ∧ special c = false ∧ Unambig cfg ctx ts
  | .ph (.time _ f) :: ts => fillable f = true ∧ Unambig cfg ctx ts
  | .ph (.user n) :: ts => UserOK cfg ctx n ts ∧ Unambig cfg ctx ts
  | .star :: _ => False

theorem userOK_elim {cfg : Cfg} {ctx : Ctx} {n : String} {ts : List Tok} (h : UserOK cfg ctx n ts) :
    ∃ ws v c0 ts', cfg.regexOf n = some (.alt ws) ∧ ctx.fill.lookup n = some v ∧
      ts = .lit c0 :: ts' ∧ v ∈ ws ∧ (∀ c ∈ v, special c = false) ∧ (∀ w ∈ ws, c0 ∉ w) := by
  unfold UserOK at h
  cases h1 : cfg.regexOf n with
  | none => simp [h1] at h
  | some r =>
    cases r with
    | alt ws =>
      cases h2 : ctx.fill.lookup n with
      | none => simp [h1, h2] at h
      | some v =>
        cases ts with
        | nil => simp [h1, h2] at h
        | cons t ts' =>
          cases t with
          | lit c0 =>
            simp only [h1, h2] at h
            exact ⟨ws, v, c0, ts', rfl, rfl, rfl, h.1, h.2.1, h.2.2⟩
          | ph k => simp [h1, h2] at h
          | star => simp [h1, h2] at h
    | digits m => simp [h1] at h
    | lazyPlus => simp [h1] at h
    | lazyStar => simp [h1] at h
    | cls rs q => simp [h1] at h

theorem unambig_of_fixed (cfg : Cfg) (ctx : Ctx) :
    ∀ tpl : List Tok, (∀ t ∈ tpl, FixedTok t) → Unambig cfg ctx tpl := by
  intro tpl
  induction tpl with
  | nil => intro _; trivial
  | cons t ts ih =>
    intro h
    have ht := h t List.mem_cons_self
    have hts := ih (fun t ht => h t (List.mem_cons_of_mem _ ht))
    cases t with
    | lit c => exact ⟨ht.1, ht.2, hts⟩
    | star => exact absurd ht (by simp [FixedTok])
    | ph k =>
      cases k with
      | time isEnd f => exact ⟨ht, hts⟩
      | user n => exact absurd ht (by simp [FixedTok])

/-! ### The priority argument -/

theorem findSome_of_mem {α β : Type} (f : α → Option β) (l : List α) (n : α) (r : β)
    (hn : n ∈ l) (hall : ∀ k ∈ l, k = n ∨ f k = none) (hf : f n = some r) :
    l.findSome? f = some r := by
  induction l with
  | nil => simp at hn
  | cons x xs ih =>
    rcases hall x List.mem_cons_self with hx | hx
    · subst hx; simp [List.findSome?_cons, hf]
    · have hne : n ≠ x := by
        intro h; subst h; rw [hf] at hx; simp at hx
      have hn' : n ∈ xs := by
        rcases List.mem_cons.mp hn with h | h
        · exact absurd h hne
        · exact h
      simp only [List.findSome?_cons, hx]
      exact ih hn' (fun k hk => hall k (List.mem_cons_of_mem _ hk))

/-- one matching step when the first item offers the length `n` and every other offered length
dead-ends -/
theorem matchItems_cons_prio (it : Item) (key : Option Key) (rest : List (Item × Option Key))
    (s : List Char) (n : Nat) (r : Caps) (hn : n ∈ cands it s)
    (hall : ∀ k ∈ cands it s, k = n ∨ matchItems rest (s.drop k) = none)
    (hr : matchItems rest (s.drop n) = some r) :
    matchItems ((it, key) :: rest) s =
      some (match key with
        | some k => (k, s.take n) :: r
        | none => r) := by
  simp only [matchItems]
  apply findSome_of_mem _ _ n _ hn
  · intro k hk
    rcases hall k hk with h | h
    · exact Or.inl h
    · right; simp only [h]
  · simp only [hr]
    cases key <;> rfl

theorem matchItems_char_ne (c0 : Char) (key : Option Key) (rest : List (Item × Option Key))
    (x : Char) (xs : List Char) (hx : x ≠ c0) :
    matchItems ((.char c0, key) :: rest) (x :: xs) = none := by
  simp [matchItems, cands, hx]

/-- candidates of an alternation in front of `v ++ c0 :: t` when `c0` occurs in no word -/
theorem cands_alt_spec (ws : List (List Char)) (v : List Char) (c0 : Char) (t : List Char)
    (hv : v ∈ ws) (hc : ∀ w ∈ ws, c0 ∉ w) :
    v.length ∈ cands (.alt ws) (v ++ c0 :: t) ∧
      ∀ k ∈ cands (.alt ws) (v ++ c0 :: t), k ≤ v.length := by
  constructor
  · simp only [cands, List.mem_filterMap]
    refine ⟨v, hv, ?_⟩
    have : v.isPrefixOf (v ++ c0 :: t) = true := by
      rw [List.isPrefixOf_iff_prefix]; exact List.prefix_append _ _
    simp [this]
  · intro k hk
    simp only [cands, List.mem_filterMap] at hk
    obtain ⟨w, hw, hk⟩ := hk
    split at hk
    · rename_i hp
      simp only [Option.some.injEq] at hk
      subst hk
      rw [List.isPrefixOf_iff_prefix] at hp
      rcases Nat.lt_or_ge v.length w.length with hlt | hge
      · exfalso
        have heq := List.prefix_iff_eq_take.mp hp
        have hmem : c0 ∈ w := by
          rw [heq, List.take_append]
          apply List.mem_append_right
          obtain ⟨m, hm⟩ : ∃ m, w.length - v.length = m + 1 := ⟨w.length - v.length - 1, by omega⟩
          rw [hm, List.take_succ_cons]
          exact List.mem_cons_self
        exact hc w hw hmem
      · exact hge
    · simp at hk

/-! ### Compile, format and match agree on unambiguous templates -/

theorem compile_match_unambig (cfg : Cfg) (ctx : Ctx) (hs : GoodTime ctx.s) (he : GoodTime ctx.e) :
    ∀ (tpl : List Tok) (seen : List Key), Unambig cfg ctx tpl →
      ∃ items ps, compile cfg tpl seen = .ok items ∧ pieces cfg ctx tpl = .ok ps ∧
        matchItems items ps.flatten = some (capsOf ctx tpl seen) ∧
        (∀ c ∈ ps.flatten, special c = false) ∧
        (∀ c0 ts', tpl = .lit c0 :: ts' →
          (∀ x xs, x ≠ c0 → matchItems items (x :: xs) = none) ∧ ∃ t, ps.flatten = c0 :: t) := by
  intro tpl
  induction tpl with
  | nil =>
    intro seen _
    refine ⟨[], [], rfl, rfl, by simp [matchItems, capsOf], by simp, ?_⟩
    intro c0 ts' h; simp at h
  | cons t ts ih =>
    intro seen hu
    cases t with
    | star => exact absurd hu (by simp [Unambig])
    | lit c =>
      obtain ⟨hra, hsp, hts⟩ := hu
      obtain ⟨items, ps, h1, h2, h3, h5, _⟩ := ih seen hts
      refine ⟨(.char c, none) :: items, [c] :: ps, ?_, ?_, ?_, ?_, ?_⟩
      · simp only [compile, compileTok, hra, h1, Bool.false_eq_true, ↓reduceIte]
      · simp only [pieces, piece, h2]
      · have hstep := matchItems_cons_prio (.char c) none items (c :: ps.flatten) 1 _
          (by simp [cands]) (by intro k hk; left; simpa [cands] using hk)
          (by simpa using h3)
        simpa [capsOf] using hstep
      · intro x hx
        simp only [List.flatten_cons, List.mem_append, List.mem_singleton] at hx
        rcases hx with rfl | hx
        · exact hsp
        · exact h5 x hx
      · intro c0 ts' heq
        simp only [List.cons.injEq, Tok.lit.injEq] at heq
        obtain ⟨rfl, _⟩ := heq
        exact ⟨fun x xs hx => matchItems_char_ne c none items x xs hx, ⟨ps.flatten, by simp⟩⟩
    | ph k =>
      cases k with
      | time isEnd f =>
        obtain ⟨ht, hts⟩ := hu
        have hgt : GoodTime (if isEnd then ctx.e else ctx.s) := by cases isEnd <;> simpa
        obtain ⟨sl, sd, _⟩ := tstr_spec _ f hgt ht
        have hdet := det_digits f.width _ sl sd
        have hpiece : piece cfg ctx (.ph (.time isEnd f)) =
            .ok (tstr (if isEnd then ctx.e else ctx.s) f) := by
          simp only [piece]; exact timePiece_eq _ _ ht
        have hspec : ∀ c ∈ tstr (if isEnd then ctx.e else ctx.s) f, special c = false := by
          intro c hc
          exact special_of_digit c ((List.all_eq_true.mp sd) c hc)
        have hstep : ∀ (key : Option Key) (items : List (Item × Option Key)) (ps : List (List Char))
            (r : Caps), matchItems items ps.flatten = some r →
            matchItems ((.digits f.width, key) :: items)
              (tstr (if isEnd then ctx.e else ctx.s) f ++ ps.flatten) =
              some (match key with
                | some k => (k, tstr (if isEnd then ctx.e else ctx.s) f) :: r
                | none => r) := by
          intro key items ps r hr
          have := matchItems_cons_prio (.digits f.width) key items
            (tstr (if isEnd then ctx.e else ctx.s) f ++ ps.flatten)
            (tstr (if isEnd then ctx.e else ctx.s) f).length r
            (by rw [hdet]; simp) (by intro k hk; left; rw [hdet] at hk; simpa using hk)
            (by simpa using hr)
          simpa using this
        by_cases hseen : seen.contains (Key.time isEnd f) = true
        · obtain ⟨items, ps, h1, h2, h3, h5, _⟩ := ih seen hts
          refine ⟨(.digits f.width, none) :: items, tstr (if isEnd then ctx.e else ctx.s) f :: ps, ?_, ?_, ?_, ?_, ?_⟩
          · simp only [compile, compileTok, hseen, h1, ↓reduceIte]
          · simp only [pieces, hpiece, h2]
          · have hmem : Key.time isEnd f ∈ seen := by simpa using hseen
            simpa [capsOf, hmem] using hstep none items ps _ h3
          · intro x hx
            simp only [List.flatten_cons, List.mem_append] at hx
            rcases hx with hx | hx
            · exact hspec x hx
            · exact h5 x hx
          · intro c0 ts' heq; simp at heq
        · obtain ⟨items, ps, h1, h2, h3, h5, _⟩ := ih (Key.time isEnd f :: seen) hts
          refine ⟨(.digits f.width, some (Key.time isEnd f)) :: items,
            tstr (if isEnd then ctx.e else ctx.s) f :: ps, ?_, ?_, ?_, ?_, ?_⟩
          · simp only [compile, compileTok, hseen, h1, Bool.false_eq_true, ↓reduceIte]
          · simp only [pieces, hpiece, h2]
          · have hmem : Key.time isEnd f ∉ seen := by simpa using hseen
            simpa [capsOf, hmem, keyStr] using hstep (some (Key.time isEnd f)) items ps _ h3
          · intro x hx
            simp only [List.flatten_cons, List.mem_append] at hx
            rcases hx with hx | hx
            · exact hspec x hx
            · exact h5 x hx
          · intro c0 ts' heq; simp at heq
      | user n =>
        obtain ⟨huser, hts⟩ := hu
        obtain ⟨ws, v, c0, ts', hreg, hfill, hshape, hv, hvs, hc⟩ := userOK_elim huser
        have hpiece : piece cfg ctx (.ph (.user n)) = .ok v := by
          simp only [piece, hfill]
        have hc0v : c0 ∉ v := hc v hv
        -- one matching step, for either capture flag
        have hstep : ∀ (key : Option Key) (items : List (Item × Option Key)) (t : List Char)
            (r : Caps), (∀ x xs, x ≠ c0 → matchItems items (x :: xs) = none) →
            matchItems items (c0 :: t) = some r →
            matchItems ((.alt ws, key) :: items) (v ++ c0 :: t) =
              some (match key with
                | some k => (k, v) :: r
                | none => r) := by
          intro key items t r hbad hr
          obtain ⟨hmem, hle⟩ := cands_alt_spec ws v c0 t hv hc
          have := matchItems_cons_prio (.alt ws) key items (v ++ c0 :: t) v.length r hmem
            (by
              intro k hk
              rcases Nat.lt_or_ge k v.length with hlt | hge
              · right
                rw [List.drop_append_of_le_length (by omega), List.drop_eq_getElem_cons hlt]
                exact hbad _ _ (fun h => hc0v (h ▸ List.getElem_mem hlt))
              · left; have := hle k hk; omega)
            (by simpa using hr)
          simpa using this
        by_cases hseen : seen.contains (Key.user n) = true
        · obtain ⟨items, ps, h1, h2, h3, h5, h6⟩ := ih seen hts
          obtain ⟨hbad, t, hflat⟩ := h6 c0 ts' hshape
          refine ⟨(.alt ws, none) :: items, v :: ps, ?_, ?_, ?_, ?_, ?_⟩
          · simp only [compile, compileTok, hreg, URegex.item, hseen, h1, ↓reduceIte]
          · simp only [pieces, hpiece, h2]
          · rw [List.flatten_cons, hflat]
            rw [hflat] at h3
            have hmem : Key.user n ∈ seen := by simpa using hseen
            simpa [capsOf, hmem] using hstep none items t _ hbad h3
          · intro x hx
            simp only [List.flatten_cons, List.mem_append] at hx
            rcases hx with hx | hx
            · exact hvs x hx
            · exact h5 x hx
          · intro c0 ts' heq; simp at heq
        · obtain ⟨items, ps, h1, h2, h3, h5, h6⟩ := ih (Key.user n :: seen) hts
          obtain ⟨hbad, t, hflat⟩ := h6 c0 ts' hshape
          refine ⟨(.alt ws, some (Key.user n)) :: items, v :: ps, ?_, ?_, ?_, ?_, ?_⟩
          · simp only [compile, compileTok, hreg, URegex.item, hseen, h1, Bool.false_eq_true,
              ↓reduceIte]
          · simp only [pieces, hpiece, h2]
          · rw [List.flatten_cons, hflat]
            rw [hflat] at h3
            have hmem : Key.user n ∉ seen := by simpa using hseen
            simpa [capsOf, hmem, keyStr, hfill] using hstep (some (Key.user n)) items t _ hbad h3
          · intro x hx
            simp only [List.flatten_cons, List.mem_append] at hx
            rcases hx with hx | hx
            · exact hvs x hx
            · exact h5 x hx
          · intro c0 ts' heq; simp at heq

/-! ### Attributes -/

theorem lookup_attrSet (a : Attrs) (k : String) (v : List Char) (n : String) :
    (attrSet a k v).lookup n = if n = k then some v else a.lookup n := by
  induction a with
  | nil =>
    by_cases h : n = k
    · subst h; simp [attrSet, List.lookup]
    · have : (n == k) = false := by simpa using h
      simp [attrSet, List.lookup, this, h]
  | cons x xs ih =>
    obtain ⟨k', v'⟩ := x
    simp only [attrSet]
    by_cases hk : k' = k
    · subst hk
      simp only [↓reduceIte, List.lookup_cons]
      by_cases h : n = k'
      · subst h; simp
      · have : (n == k') = false := by simpa using h
        simp [this, h]
    · simp only [hk, ↓reduceIte, List.lookup_cons, ih]
      by_cases h : n = k'
      · subst h
        have : n ≠ k := hk
        simp [this]
      · have : (n == k') = false := by simpa using h
        simp [this]

/-- `dict.update`: a key all of whose new values are `v`, written at least once or already
holding `v`, ends up holding `v` -/
theorem lookup_attrUpdate (b : Attrs) (n : String) (v : List Char)
    (hval : ∀ kv ∈ b, kv.1 = n → kv.2 = v) :
    ∀ a : Attrs, (a.lookup n = some v ∨ ∃ kv ∈ b, kv.1 = n) → (attrUpdate a b).lookup n = some v := by
  induction b with
  | nil =>
    intro a h
    rcases h with h | ⟨kv, hkv, _⟩
    · simpa [attrUpdate] using h
    · simp at hkv
  | cons x xs ih =>
    intro a h
    have hval' : ∀ kv ∈ xs, kv.1 = n → kv.2 = v := fun kv hkv => hval kv (List.mem_cons_of_mem _ hkv)
    have hfold : attrUpdate a (x :: xs) = attrUpdate (attrSet a x.1 x.2) xs := by
      simp [attrUpdate]
    rw [hfold]
    apply ih hval'
    by_cases hx : x.1 = n
    · left
      rw [lookup_attrSet, if_pos hx.symm, hval x List.mem_cons_self hx]
    · rcases h with h | ⟨kv, hkv, hk⟩
      · left
        rw [lookup_attrSet, if_neg (fun h' => hx h'.symm)]; exact h
      · rcases List.mem_cons.mp hkv with rfl | hkv
        · exact absurd hk hx
        · exact Or.inr ⟨kv, hkv, hk⟩

theorem mem_capsOf_val (ctx : Ctx) :
    ∀ (tpl : List Tok) (seen : List Key) (kv : Key × List Char), kv ∈ capsOf ctx tpl seen →
      kv.2 = keyStr ctx kv.1 := by
  intro tpl
  induction tpl with
  | nil => intro seen kv h; simp [capsOf] at h
  | cons t ts ih =>
    intro seen kv h
    cases t with
    | lit c => exact ih seen kv (by simpa [capsOf] using h)
    | star => exact ih seen kv (by simpa [capsOf] using h)
    | ph k =>
      simp only [capsOf] at h
      split at h
      · exact ih seen kv h
      · rcases List.mem_cons.mp h with rfl | h
        · rfl
        · exact ih _ kv h

theorem mem_capsOf_of_lookup (caps : Caps) (k : Key) (x : List Char) (h : caps.lookup k = some x) :
    (k, x) ∈ caps := by
  induction caps with
  | nil => simp at h
  | cons kv rest ih =>
    obtain ⟨k', x'⟩ := kv
    rw [List.lookup_cons] at h
    by_cases hk : k = k'
    · subst hk
      simp only [beq_self_eq_true] at h
      simp only [Option.some.injEq] at h
      subst h; exact List.mem_cons_self
    · have : (k == k') = false := by simpa using hk
      simp only [this] at h
      exact List.mem_cons_of_mem _ (ih h)

/-- every user placeholder of the template comes back as an attribute with its fill value -/
theorem attrs_capsOf (ctx : Ctx) (tpl : List Tok) (n : String) (hmem : Tok.ph (.user n) ∈ tpl)
    (a : Attrs) :
    (attrUpdate a (userCaps (capsOf ctx tpl []))).lookup n = some (keyStr ctx (.user n)) := by
  apply lookup_attrUpdate
  · intro kv hkv hk
    simp only [userCaps, List.mem_filterMap] at hkv
    obtain ⟨⟨key, x⟩, hin, hmap⟩ := hkv
    cases key with
    | time isEnd f => simp at hmap
    | user m =>
      simp only [Option.some.injEq] at hmap
      subst hmap
      simp only at hk
      subst hk
      exact mem_capsOf_val ctx tpl [] _ hin
  · right
    have hl : (capsOf ctx tpl []).lookup (.user n) = some (keyStr ctx (.user n)) := by
      rw [lookup_capsOf]; simp [hmem]
    have := mem_capsOf_of_lookup _ _ _ hl
    refine ⟨(n, keyStr ctx (.user n)), ?_, rfl⟩
    simp only [userCaps, List.mem_filterMap]
    exact ⟨(.user n, keyStr ctx (.user n)), this, rfl⟩

/-! ### Captured temporal fields for any template whose temporal placeholders are fillable -/

theorem capsNumeric_capsOf_gen (ctx : Ctx) (hs : GoodTime ctx.s) (he : GoodTime ctx.e) :
    ∀ (tpl : List Tok) (seen : List Key),
      (∀ isEnd f, Tok.ph (.time isEnd f) ∈ tpl → fillable f = true) →
      capsNumeric (capsOf ctx tpl seen) = true := by
  intro tpl
  induction tpl with
  | nil => intro seen _; simp [capsOf, capsNumeric]
  | cons t ts ih =>
    intro seen hfill
    have hts : ∀ isEnd f, Tok.ph (.time isEnd f) ∈ ts → fillable f = true :=
      fun isEnd f h => hfill isEnd f (List.mem_cons_of_mem _ h)
    cases t with
    | lit c => simpa [capsOf] using ih seen hts
    | star => simpa [capsOf] using ih seen hts
    | ph k =>
      simp only [capsOf]
      split
      · exact ih seen hts
      · cases k with
        | user n =>
          have := ih (Key.user n :: seen) hts
          simp only [capsNumeric, List.all_cons, Bool.true_and] at this ⊢
          exact this
        | time isEnd f =>
          have ht := hfill isEnd f List.mem_cons_self
          have hgt : GoodTime (if isEnd then ctx.e else ctx.s) := by cases isEnd <;> simpa
          obtain ⟨_, _, sp⟩ := tstr_spec _ f hgt ht
          have := ih (Key.time isEnd f :: seen) hts
          simp only [capsNumeric, List.all_cons, keyStr, sp, Option.isSome_some, Bool.true_and] at this ⊢
          exact this

theorem fieldVal_capsOf_gen (ctx : Ctx) (hs : GoodTime ctx.s) (he : GoodTime ctx.e) (tpl : List Tok)
    (hfill : ∀ isEnd f, Tok.ph (.time isEnd f) ∈ tpl → fillable f = true) (isEnd : Bool) (f : TField) :
    fieldVal (capsOf ctx tpl []) isEnd f =
      if Tok.ph (.time isEnd f) ∈ tpl then some (tval (if isEnd then ctx.e else ctx.s) f) else none := by
  unfold fieldVal
  rw [lookup_capsOf]
  by_cases hm : Tok.ph (Key.time isEnd f) ∈ tpl
  · have hf : fillable f = true := hfill _ _ hm
    have hgt : GoodTime (if isEnd then ctx.e else ctx.s) := by cases isEnd <;> simpa
    simp [hm, keyStr, (tstr_spec _ f hgt hf).2.2]
  · simp [hm]

theorem unambig_time_fillable (cfg : Cfg) (ctx : Ctx) :
    ∀ tpl : List Tok, Unambig cfg ctx tpl →
      ∀ isEnd f, Tok.ph (.time isEnd f) ∈ tpl → fillable f = true := by
  intro tpl
  induction tpl with
  | nil => intro _ isEnd f h; simp at h
  | cons t ts ih =>
    intro hu isEnd f hm
    cases t with
    | star => exact absurd hu (by simp [Unambig])
    | lit c =>
      have := ih hu.2.2 isEnd f (by simpa using hm)
      exact this
    | ph k =>
      cases k with
      | user n => exact ih hu.2 isEnd f (by simpa using hm)
      | time isEnd' f' =>
        rcases List.mem_cons.mp hm with h | h
        · simp only [Tok.ph.injEq, Key.time.injEq] at h
          obtain ⟨_, rfl⟩ := h
          exact hu.1
        · exact ih hu.2 isEnd f h

theorem unambig_user_fill (cfg : Cfg) (ctx : Ctx) :
    ∀ tpl : List Tok, Unambig cfg ctx tpl → ∀ n, Tok.ph (.user n) ∈ tpl →
      ∃ v, ctx.fill.lookup n = some v ∧ keyStr ctx (.user n) = v := by
  intro tpl
  induction tpl with
  | nil => intro _ n h; simp at h
  | cons t ts ih =>
    intro hu n hm
    cases t with
    | star => exact absurd hu (by simp [Unambig])
    | lit c => exact ih hu.2.2 n (by simpa using hm)
    | ph k =>
      cases k with
      | time isEnd f => exact ih hu.2 n (by simpa using hm)
      | user m =>
        rcases List.mem_cons.mp hm with h | h
        · simp only [Tok.ph.injEq, Key.user.injEq] at h
          subst h
          obtain ⟨ws, v, c0, ts', _, hfill, _⟩ := userOK_elim hu.1
          exact ⟨v, hfill, by simp [keyStr, hfill]⟩
        · exact ih hu.2 n h

/-- the attributes `get_info` (mode filename) reports are the user captures of the parsed name -/
theorem getInfo_filename_attrs (cfg : Cfg) (tc : Option Int) (hd : Info) (name : List Char)
    (a b : DateTime) (attrs : Attrs) (h : getInfo cfg .filename tc hd name = .ok (a, b, attrs)) :
    ∃ caps, parseFilename cfg name = .ok caps ∧ attrs = attrUpdate [] (userCaps caps) := by
  unfold getInfo at h
  cases hp : parseFilename cfg name with
  | error e => simp [hp] at h
  | ok caps =>
    refine ⟨caps, rfl, ?_⟩
    cases hr : retrieveTimeCoverage cfg caps with
    | error e => simp [hp, hr] at h
    | ok se =>
      obtain ⟨st, en⟩ := se
      simp only [hp, hr, Info.update] at h
      cases hsf : singleFile cfg.path <;> cases st <;> cases en <;> cases tc <;>
        simp [hsf] at h <;> first
        | exact h.2.2.symm
        | (split at h <;> simp at h <;> exact h.2.2.symm)

end Template
