import Model.Time
import Mathlib.Tactic
/-! Helper lemmas about the calendar model. -/
namespace Time

theorem leapN_le (y : Nat) : leapN y ≤ 1 := by unfold leapN; split <;> omega

theorem leapN_cases (y : Nat) : leapN y = 0 ∨ leapN y = 1 := by unfold leapN; split <;> simp

theorem dby_succ (y : Nat) (h : 1 ≤ y) : dby (y + 1) = dby y + yearLen y := by
  unfold dby yearLen leapN isLeap
  obtain ⟨k, rfl⟩ : ∃ k, y = k + 1 := ⟨y - 1, by omega⟩
  simp only [Nat.add_sub_cancel]
  by_cases h4 : (k + 1) % 4 = 0 <;> by_cases h100 : (k + 1) % 100 = 0 <;>
    by_cases h400 : (k + 1) % 400 = 0 <;> simp [h4, h100, h400] <;> omega

theorem dby_lower (y : Nat) : 365 * (y - 1) ≤ dby y := by
  unfold dby; omega

theorem dby_mono {a b : Nat} (ha : 1 ≤ a) (hab : a ≤ b) : dby a ≤ dby b := by
  induction b, hab using Nat.le_induction with
  | base => exact Nat.le_refl _
  | succ b hb ih => rw [dby_succ b (by omega)]; omega

theorem dby_strict {a b : Nat} (ha : 1 ≤ a) (hab : a < b) : dby a < dby b := by
  have := dby_mono (a := a + 1) (b := b) (by omega) hab
  rw [dby_succ a ha] at this
  unfold yearLen at this; omega

theorem findGreatest_spec (p : Nat → Bool) (n : Nat) :
    (∀ k, k ≤ n → p k = true → k ≤ findGreatest p n) ∧
    (findGreatest p n ≤ n) ∧ (findGreatest p n ≠ 0 → p (findGreatest p n) = true) := by
  induction n with
  | zero => simp [findGreatest]
  | succ n ih =>
    unfold findGreatest
    split
    · refine ⟨fun k hk _ => hk, Nat.le_refl _, fun _ => ‹_›⟩
    · obtain ⟨h1, h2, h3⟩ := ih
      refine ⟨fun k hk hp => ?_, by omega, h3⟩
      rcases Nat.lt_or_ge k (n + 1) with hlt | hge
      · exact h1 k (by omega) hp
      · have : k = n + 1 := by omega
        subst this; simp_all

theorem yearOf_eq (n y : Nat) (hy : 1 ≤ y) (h1 : dby y ≤ n) (h2 : n < dby (y + 1)) :
    yearOf n = y := by
  unfold yearOf
  obtain ⟨s1, s2, s3⟩ := findGreatest_spec (fun y => decide (dby y ≤ n)) (n / 365 + 1)
  have hb : y ≤ n / 365 + 1 := by
    have := dby_lower y
    have : 365 * (y - 1) ≤ n := by omega
    have : y - 1 ≤ n / 365 := by rw [Nat.le_div_iff_mul_le (by omega)]; omega
    omega
  have hge := s1 y hb (by simpa using h1)
  set z := findGreatest (fun y => decide (dby y ≤ n)) (n / 365 + 1) with hz
  rcases Nat.lt_or_ge y z with hlt | hle
  · exfalso
    have hz0 : z ≠ 0 := by omega
    have hpz := s3 hz0
    simp only [decide_eq_true_eq] at hpz
    have := dby_mono (a := y + 1) (b := z) (by omega) hlt
    omega
  · omega

theorem dbmL_succ : ∀ l, l ≤ 1 → ∀ m, m ≤ 12 → 1 ≤ m → dbmL l (m + 1) = dbmL l m + dimL l m := by
  decide

theorem dbmL_mono : ∀ l, l ≤ 1 → ∀ m, m ≤ 12 → ∀ m', m' ≤ 12 → 1 ≤ m → m < m' →
    dbmL l m + dimL l m ≤ dbmL l m' := by
  decide

theorem dbmL_total (l : Nat) (hl : l ≤ 1) (m : Nat) (h1 : 1 ≤ m) (h2 : m ≤ 12) :
    dbmL l m + dimL l m ≤ 365 + l := by
  rcases Nat.lt_or_ge m 12 with h | h
  · have := dbmL_mono l hl m h2 12 (by omega) h1 h
    have h12 : dbmL l 12 = 334 + l := rfl
    have : dimL l 12 = 31 := rfl
    have := dbmL_succ l hl 12 (by omega) (by omega)
    have : dbmL l 13 = 365 + l := rfl
    omega
  · have : m = 12 := by omega
    subst this
    have : dbmL l 12 = 334 + l := rfl
    have : dimL l 12 = 31 := rfl
    omega

theorem monthOfL_spec' : ∀ l, l < 2 → ∀ r, r < 365 + l →
    1 ≤ monthOfL l r ∧ monthOfL l r ≤ 12 ∧ dbmL l (monthOfL l r) ≤ r ∧
      r < dbmL l (monthOfL l r) + dimL l (monthOfL l r) := by
  decide +kernel

theorem monthOfL_spec (l r : Nat) (hl : l ≤ 1) (hr : r < 365 + l) :
    1 ≤ monthOfL l r ∧ monthOfL l r ≤ 12 ∧ dbmL l (monthOfL l r) ≤ r ∧
      r < dbmL l (monthOfL l r) + dimL l (monthOfL l r) := monthOfL_spec' l (by omega) r hr

theorem monthOfL_eq (l : Nat) (hl : l ≤ 1) (m d : Nat) (h1 : 1 ≤ m) (h2 : m ≤ 12) (hd1 : 1 ≤ d)
    (hd2 : d ≤ dimL l m) : monthOfL l (dbmL l m + (d - 1)) = m := by
  have htot := dbmL_total l hl m h1 h2
  obtain ⟨s1, s2, s3, s4⟩ := monthOfL_spec l (dbmL l m + (d - 1)) hl (by omega)
  set m' := monthOfL l (dbmL l m + (d - 1)) with hm'
  rcases Nat.lt_trichotomy m' m with h | h | h
  · have := dbmL_mono l hl m' s2 m h2 s1 h; omega
  · exact h
  · have := dbmL_mono l hl m h2 m' s2 h1 h; omega

/-- a calendar date accepted by `datetime` -/
def ValidDate (y m d : Nat) : Prop :=
  1 ≤ y ∧ y ≤ 9999 ∧ 1 ≤ m ∧ m ≤ 12 ∧ 1 ≤ d ∧ d ≤ dim y m

theorem valid_iff (t : DateTime) :
    Valid t ↔ ValidDate t.y t.mo t.d ∧ t.h < 24 ∧ t.mi < 60 ∧ t.s < 60 ∧ t.us < 1000000 := by
  unfold Valid valid ValidDate
  simp only [Bool.and_eq_true, decide_eq_true_eq]
  tauto

theorem toDays_bounds (y m d : Nat) (h : ValidDate y m d) :
    dby y ≤ toDays y m d ∧ toDays y m d < dby (y + 1) := by
  obtain ⟨hy1, _, hm1, hm2, hd1, hd2⟩ := h
  unfold toDays dbm
  unfold dim at hd2
  have := dbmL_total (leapN y) (leapN_le y) m hm1 hm2
  rw [dby_succ y hy1]; unfold yearLen
  omega

theorem ofDays_toDays (y m d : Nat) (h : ValidDate y m d) : ofDays (toDays y m d) = (y, m, d) := by
  obtain ⟨hb1, hb2⟩ := toDays_bounds y m d h
  obtain ⟨hy1, _, hm1, hm2, hd1, hd2⟩ := h
  unfold ofDays
  simp only [yearOf_eq _ y hy1 hb1 hb2]
  have hr : toDays y m d - dby y = dbmL (leapN y) m + (d - 1) := by unfold toDays dbm; omega
  rw [hr, monthOfL_eq (leapN y) (leapN_le y) m d hm1 hm2 hd1 hd2]
  unfold dbm
  have : dbmL (leapN y) m + (d - 1) - dbmL (leapN y) m + 1 = d := by omega
  rw [this]

theorem toDays_lt_max (y m d : Nat) (h : ValidDate y m d) : toDays y m d < dby 10000 := by
  have := (toDays_bounds y m d h).2
  have := dby_mono (a := y + 1) (b := 10000) (by omega) (by have := h.2.1; omega)
  omega

/-- time of day in µs -/
def tod (t : DateTime) : Nat := (t.h * 3600 + t.mi * 60 + t.s) * 1000000 + t.us

theorem tod_lt (t : DateTime) (h : Valid t) : tod t < usPerDay := by
  rw [valid_iff] at h
  unfold tod usPerDay; omega

theorem toMicrosN_eq (t : DateTime) : toMicrosN t = toDays t.y t.mo t.d * usPerDay + tod t := rfl

theorem tod_decomp0 (h mi s : Nat) (hmi : mi < 60) (hs : s < 60) :
    (h * 3600 + mi * 60 + s) / 3600 = h ∧
    (h * 3600 + mi * 60 + s) % 3600 / 60 = mi ∧
    (h * 3600 + mi * 60 + s) % 60 = s := by
  refine ⟨by omega, by omega, by omega⟩

theorem tod_decomp (h mi s us : Nat) (hmi : mi < 60) (hs : s < 60) (hus : us < 1000000) :
    ((h * 3600 + mi * 60 + s) * 1000000 + us) / 1000000 / 3600 = h ∧
    ((h * 3600 + mi * 60 + s) * 1000000 + us) / 1000000 % 3600 / 60 = mi ∧
    ((h * 3600 + mi * 60 + s) * 1000000 + us) / 1000000 % 60 = s ∧
    ((h * 3600 + mi * 60 + s) * 1000000 + us) % 1000000 = us := by
  have e1 : ((h * 3600 + mi * 60 + s) * 1000000 + us) / 1000000 = h * 3600 + mi * 60 + s := by
    omega
  have e2 : ((h * 3600 + mi * 60 + s) * 1000000 + us) % 1000000 = us := by omega
  rw [e1, e2]
  exact ⟨(tod_decomp0 h mi s hmi hs).1, (tod_decomp0 h mi s hmi hs).2.1,
    (tod_decomp0 h mi s hmi hs).2.2, rfl⟩

theorem ofMicrosN_toMicrosN (t : DateTime) (h : Valid t) : ofMicrosN (toMicrosN t) = t := by
  have htod := tod_lt t h
  have hv := (valid_iff t).1 h
  rw [toMicrosN_eq]
  unfold ofMicrosN
  have h1 : (toDays t.y t.mo t.d * usPerDay + tod t) / usPerDay = toDays t.y t.mo t.d := by
    rw [Nat.mul_comm, Nat.mul_add_div (by unfold usPerDay; omega), Nat.div_eq_of_lt htod]; rfl
  have h2 : (toDays t.y t.mo t.d * usPerDay + tod t) % usPerDay = tod t := by
    rw [Nat.mul_comm, Nat.mul_add_mod, Nat.mod_eq_of_lt htod]
  simp only [h1, h2, ofDays_toDays _ _ _ hv.1]
  obtain ⟨_, hh, hmi, hs, hus⟩ := hv
  obtain ⟨d1, d2, d3, d4⟩ := tod_decomp t.h t.mi t.s t.us hmi hs hus
  unfold tod
  rw [d1, d2, d3, d4]

theorem toMicrosN_le_max (t : DateTime) (h : Valid t) : toMicrosN t ≤ maxMicros := by
  have htod := tod_lt t h
  have hd := toDays_lt_max _ _ _ ((valid_iff t).1 h).1
  rw [toMicrosN_eq]; unfold maxMicros
  have : (toDays t.y t.mo t.d + 1) * usPerDay ≤ dby 10000 * usPerDay := Nat.mul_le_mul_right _ hd
  have : (toDays t.y t.mo t.d + 1) * usPerDay = toDays t.y t.mo t.d * usPerDay + usPerDay := by ring
  omega

theorem ofMicros_toMicros (t : DateTime) (h : Valid t) : ofMicros (toMicros t) = some t := by
  unfold ofMicros toMicros
  have := toMicrosN_le_max t h
  rw [if_pos ⟨by omega, by exact_mod_cast this⟩]
  simp [ofMicrosN_toMicrosN t h]

theorem toMicros_injective (a b : DateTime) (ha : Valid a) (hb : Valid b)
    (h : toMicros a = toMicros b) : a = b := by
  have h1 := ofMicros_toMicros a ha
  have h2 := ofMicros_toMicros b hb
  rw [h] at h1; rw [h1] at h2; exact Option.some.inj h2

/-! ### day of year -/

theorem doyOf_pos (y m d : Nat) (h : ValidDate y m d) : 1 ≤ doyOf y m d := by
  unfold doyOf; have := h.2.2.2.2.1; omega

theorem doyOf_le (y m d : Nat) (h : ValidDate y m d) : doyOf y m d ≤ 366 := by
  obtain ⟨_, _, hm1, hm2, _, hd2⟩ := h
  unfold doyOf dbm; unfold dim at hd2
  have := dbmL_total (leapN y) (leapN_le y) m hm1 hm2
  have := leapN_le y
  omega

theorem ofYearDoy_doyOf (y m d : Nat) (h : ValidDate y m d) :
    ofYearDoy y (doyOf y m d) = some (y, m, d) := by
  have hlt := toDays_lt_max y m d h
  have hd1 := h.2.2.2.2.1
  unfold ofYearDoy
  have e : ((dby y : Int) + (doyOf y m d : Int) - 1) = ((toDays y m d : Nat) : Int) := by
    unfold doyOf toDays; push_cast; omega
  simp only [e]
  rw [if_pos ⟨by omega, by exact_mod_cast hlt⟩]
  simp [ofDays_toDays y m d h]

/-! ### order -/

/-- lexicographic order on the 7-tuple (what CPython's `datetime.__lt__` compares) -/
def lexLt (a b : DateTime) : Prop :=
  a.y < b.y ∨ (a.y = b.y ∧ (a.mo < b.mo ∨ (a.mo = b.mo ∧ (a.d < b.d ∨ (a.d = b.d ∧
    (a.h < b.h ∨ (a.h = b.h ∧ (a.mi < b.mi ∨ (a.mi = b.mi ∧ (a.s < b.s ∨ (a.s = b.s ∧
      a.us < b.us)))))))))))

theorem toDays_strict (y m d y' m' d' : Nat) (h : ValidDate y m d) (h' : ValidDate y' m' d')
    (hlt : y < y' ∨ (y = y' ∧ (m < m' ∨ (m = m' ∧ d < d')))) : toDays y m d < toDays y' m' d' := by
  rcases hlt with hy | ⟨rfl, hm | ⟨rfl, hd⟩⟩
  · have := (toDays_bounds y m d h).2
    have := (toDays_bounds y' m' d' h').1
    have := dby_mono (a := y + 1) (b := y') (by omega) hy
    omega
  · obtain ⟨_, _, hm1, hm2, hd1, hd2⟩ := h
    obtain ⟨_, _, hm1', hm2', hd1', hd2'⟩ := h'
    unfold toDays dbm; unfold dim at hd2
    have := dbmL_mono (leapN y) (leapN_le y) m hm2 m' hm2' hm1 hm
    omega
  · unfold toDays; have := h.2.2.2.2.1; omega

theorem toMicros_strictMono (a b : DateTime) (ha : Valid a) (hb : Valid b) (h : lexLt a b) :
    toMicros a < toMicros b := by
  unfold toMicros
  have hva := (valid_iff a).1 ha
  have hvb := (valid_iff b).1 hb
  have hta := tod_lt a ha
  rw [toMicrosN_eq, toMicrosN_eq]
  have key : toDays a.y a.mo a.d < toDays b.y b.mo b.d ∨
      (toDays a.y a.mo a.d = toDays b.y b.mo b.d ∧ tod a < tod b) := by
    unfold lexLt at h
    rcases h with h | ⟨h1, h | ⟨h2, h | ⟨h3, h⟩⟩⟩
    · exact Or.inl (toDays_strict _ _ _ _ _ _ hva.1 hvb.1 (Or.inl h))
    · exact Or.inl (toDays_strict _ _ _ _ _ _ hva.1 hvb.1 (Or.inr ⟨h1, Or.inl h⟩))
    · exact Or.inl (toDays_strict _ _ _ _ _ _ hva.1 hvb.1 (Or.inr ⟨h1, Or.inr ⟨h2, h⟩⟩))
    · refine Or.inr ⟨by rw [h1, h2, h3], ?_⟩
      obtain ⟨_, _, _, _, _⟩ := hva
      obtain ⟨_, _, _, _, _⟩ := hvb
      unfold tod
      rcases h with h | ⟨h4, h | ⟨h5, h | ⟨h6, h⟩⟩⟩ <;> omega
  have : ((toDays a.y a.mo a.d * usPerDay + tod a : Nat) : Int)
      < ((toDays b.y b.mo b.d * usPerDay + tod b : Nat) : Int) := by
    apply Int.ofNat_lt.mpr
    rcases key with k | ⟨k1, k2⟩
    · have : (toDays a.y a.mo a.d + 1) * usPerDay ≤ toDays b.y b.mo b.d * usPerDay :=
        Nat.mul_le_mul_right _ k
      have : (toDays a.y a.mo a.d + 1) * usPerDay = toDays a.y a.mo a.d * usPerDay + usPerDay := by
        ring
      omega
    · rw [k1]; omega
  exact this

theorem lex_trichotomy (a b : DateTime) : lexLt a b ∨ a = b ∨ lexLt b a := by
  cases a; cases b
  unfold lexLt
  simp only [DateTime.mk.injEq]
  omega

/-- the model's comparison (on `toMicros`) is the lexicographic comparison of the tuples -/
theorem lt_iff_lex (a b : DateTime) (ha : Valid a) (hb : Valid b) :
    lt a b = true ↔ lexLt a b := by
  unfold lt
  simp only [decide_eq_true_eq]
  constructor
  · intro h
    rcases lex_trichotomy a b with h1 | rfl | h1
    · exact h1
    · omega
    · have := toMicros_strictMono b a hb ha h1; omega
  · exact toMicros_strictMono a b ha hb

end Time
