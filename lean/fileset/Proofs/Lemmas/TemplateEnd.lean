import Proofs.Lemmas.Template
/-! Helper lemmas for the end of the time coverage: abstract form of `coverageOf`, sub-day end
fields (any of hour / minute / second / millisecond), the roll-over by the superior resolution
of the coarsest end field. -/
namespace Template
open Time Digits

/-- the end moved by the superior resolution `δ` (`end_date += self._end_time_superior`) -/
def shiftEnd (st en : DateTime) (δ : Int) : Except Err (Option DateTime × Option DateTime) :=
  match addDelta en δ with
  | .ok en' => .ok (some st, some en')
  | .error e => .error e

/-- the roll-over branch of `_retrieve_time_coverage` -/
def rollover (path : List Tok) (st en : DateTime) : Except Err (Option DateTime × Option DateTime) :=
  match superior path with
  | none => .error .typeError
  | some δ => shiftEnd st en δ

theorem rollover_some (path : List Tok) (st en : DateTime) (δ : Int) (h : superior path = some δ) :
    rollover path st en = shiftEnd st en δ := by
  unfold rollover; rw [h]

/-- `coverageOf` when both datetimes can be built: stated with abstract results of the
sub-steps, so that nothing has to be unfolded by its users -/
theorem coverageOf_both (path : List Tok) (sa ea : Std) (st en : DateTime)
    (h1 : sa.nonEmpty = true) (h2 : mkDate sa = .ok st) (h3 : ea.nonEmpty = true)
    (h4 : mkDate (sa.merge ea) = .ok en) :
    coverageOf path sa ea =
      if lt en st then rollover path st en else .ok (some st, some en) := by
  unfold coverageOf rollover shiftEnd
  simp only [h1, h2, h3, h4, ↓reduceIte]
  rfl

/-- the end fields are sub-day fields only (at least one of hour, minute, second,
millisecond; nothing `get_filename` cannot fill) -/
def SubDay (Q : TField → Bool) : Prop :=
  Q .year = false ∧ Q .year2 = false ∧ Q .month = false ∧ Q .day = false ∧ Q .doy = false ∧
    (Q .hour = true ∨ Q .minute = true ∨ Q .second = true ∨ Q .millisecond = true) ∧ NoSub Q

/-- index of the coarsest end field in `FileSet._temporal_resolution` -/
def endRank (Q : TField → Bool) : Nat :=
  if Q .hour then 3 else if Q .minute then 4 else if Q .second then 5 else 8

/-- date and missing fields from the start, the named sub-day fields from `e` -/
def combine (P Q : TField → Bool) (s e : DateTime) : DateTime :=
  { y := s.y, mo := s.mo, d := s.d
    h := if Q .hour then e.h else if P .hour then s.h else 0
    mi := if Q .minute then e.mi else if P .minute then s.mi else 0
    s := if Q .second then e.s else if P .second then s.s else 0
    us := if Q .millisecond then 1000 * (e.us / 1000)
          else if P .millisecond then 1000 * (s.us / 1000) else 0 }

/-- the roll-over unit is the next coarser entry of the resolution table above the coarsest end
field: hour → 1 day, minute → 1 hour, second → 1 minute (millisecond → 10 ms, the code's table) -/
theorem superior_subday (path : List Tok) (Q : TField → Bool)
    (hQ : ∀ f, path.contains (.ph (.time true f)) = Q f) (h : SubDay Q) :
    superior path = some (resolution (endRank Q - 1)) := by
  obtain ⟨h1, h2, h3, h4, h5, h6, h7, h8, h9⟩ := h
  unfold superior endRanks allFields endRank
  simp only [List.filterMap_cons, List.filterMap_nil, hQ, h1, h2, h3, h4, h5, h7, h8, h9,
    TField.rank, Bool.false_eq_true, ↓reduceIte]
  cases hh : Q .hour <;> cases hm : Q .minute <;> cases hs : Q .second <;>
    cases hms : Q .millisecond <;> first | rfl | (simp [hh, hm, hs, hms] at h6)

theorem endRank_units (Q : TField → Bool) :
    (Q .hour = true → resolution (endRank Q - 1) = 86400000000) ∧
    (Q .hour = false → Q .minute = true → resolution (endRank Q - 1) = 3600000000) ∧
    (Q .hour = false → Q .minute = false → Q .second = true →
      resolution (endRank Q - 1) = 60000000) := by
  unfold endRank
  refine ⟨?_, ?_, ?_⟩
  · intro h; simp [h, resolution]
  · intro h1 h2; simp [h1, h2, resolution]
  · intro h1 h2 h3; simp [h1, h2, h3, resolution]

theorem combine_valid (P Q : TField → Bool) (s e : DateTime) (hvs : Valid s) (hve : Valid e) :
    Valid (combine P Q s e) := by
  have hs := (valid_iff s).1 hvs
  have he := (valid_iff e).1 hve
  rw [valid_iff]
  unfold combine
  obtain ⟨a1, a2, a3, a4, a5⟩ := hs
  obtain ⟨b1, b2, b3, b4, b5⟩ := he
  refine ⟨a1, ?_, ?_, ?_, ?_⟩
  · simp only; split_ifs <;> omega
  · simp only; split_ifs <;> omega
  · simp only; split_ifs <;> omega
  · simp only; split_ifs <;> omega

theorem mkDate_merge_subday (P Q : TField → Bool) (s e : DateTime) (hvs : Valid s) (hve : Valid e)
    (hdP : HasDate P) (hq : SubDay Q) :
    mkDate ((stdOf P s).merge (stdOf Q e)) = .ok (combine P Q s e) := by
  obtain ⟨q1, q2, q3, q4, q5, _, _⟩ := hq
  have hvalid : valid (combine P Q s e) = true := combine_valid P Q s e hvs hve
  obtain ⟨hy, hmd⟩ := hdP
  have e1 : (P .year2 || P .year) = true := by rcases hy with h | h <;> simp [h]
  have e2 : (P .doy || P .month) = true := by rcases hmd with ⟨h, _⟩ | h <;> simp [h]
  have e3 : (P .doy || P .day) = true := by rcases hmd with ⟨_, h⟩ | h <;> simp [h]
  have hm : (stdOf P s).merge (stdOf Q e) =
      { year := some s.y, month := some s.mo, day := some s.d,
        hour := if Q .hour || P .hour then some (combine P Q s e).h else none,
        minute := if Q .minute || P .minute then some (combine P Q s e).mi else none,
        second := if Q .second || P .second then some (combine P Q s e).s else none,
        micro := if Q .millisecond || P .millisecond then some (combine P Q s e).us else none } := by
    simp only [Std.merge, stdOf, combine, e1, e2, e3, q1, q2, q3, q4, q5, ↓reduceIte,
      Bool.or_self, Bool.false_eq_true]
    cases Q .hour <;> cases Q .minute <;> cases Q .second <;> cases Q .millisecond <;>
      cases P .hour <;> cases P .minute <;> cases P .second <;> cases P .millisecond <;> rfl
  rw [hm]
  unfold mkDate
  simp only
  have : ({ y := s.y, mo := s.mo, d := s.d,
            h := (if (Q .hour || P .hour) = true then some (combine P Q s e).h else none).getD 0,
            mi := (if (Q .minute || P .minute) = true then some (combine P Q s e).mi else none).getD 0,
            s := (if (Q .second || P .second) = true then some (combine P Q s e).s else none).getD 0,
            us := (if (Q .millisecond || P .millisecond) = true then some (combine P Q s e).us else none).getD 0 } : DateTime)
      = combine P Q s e := by
    unfold combine
    cases Q .hour <;> cases Q .minute <;> cases Q .second <;> cases Q .millisecond <;>
      cases P .hour <;> cases P .minute <;> cases P .second <;> cases P .millisecond <;> rfl
  simp only [this, hvalid, ↓reduceIte]

/-- sub-day end fields: the end is `combine`, moved by the superior resolution of the coarsest
end field when it precedes the start -/
theorem coverageOf_subday (path : List Tok) (P Q : TField → Bool) (s e : DateTime)
    (hvs : Valid s) (hve : Valid e) (hdP : HasDate P)
    (hQ : ∀ f, path.contains (.ph (.time true f)) = Q f) (hq : SubDay Q) :
    coverageOf path (stdOf P s) (stdOf Q e) =
      if lt (combine P Q s e) (truncTo P s) then
        shiftEnd (truncTo P s) (combine P Q s e) (resolution (endRank Q - 1))
      else .ok (some (truncTo P s), some (combine P Q s e)) := by
  have hne : (stdOf Q e).nonEmpty = true := by
    rcases hq.2.2.2.2.2.1 with h | h | h | h <;> simp [Std.nonEmpty, stdOf, h]
  rw [coverageOf_both path _ _ _ _ (stdOf_nonEmpty P s hdP) (mkDate_stdOf P s hvs hdP) hne
    (mkDate_merge_subday P Q s e hvs hve hdP hq),
    rollover_some path _ _ _ (superior_subday path Q hQ hq)]

/-! ### The end is recovered when it lies within one roll-over unit after the start -/

theorem unit_split (D D' U ts te : Nat) (hts : ts < U) (hte : te < U)
    (h1 : D * U + ts ≤ D' * U + te) (h2 : D' * U + te < D * U + ts + U) :
    (te < ts → D' = D + 1) ∧ (ts ≤ te → D' = D) := by
  have key : D' = D ∨ D' = D + 1 := by
    rcases Nat.lt_or_ge D' D with h | h
    · have := Nat.mul_le_mul_right U (show D' + 1 ≤ D from h)
      rw [Nat.add_mul] at this; omega
    · rcases Nat.lt_or_ge D' (D + 2) with h' | h'
      · omega
      · have := Nat.mul_le_mul_right U h'
        rw [Nat.add_mul] at this; omega
  constructor
  · intro hlt
    rcases key with rfl | rfl
    · omega
    · rfl
  · intro hle
    rcases key with rfl | rfl
    · rfl
    · rw [Nat.add_mul] at h2; omega

theorem shiftEnd_eq (st c e : DateTime) (δ : Int) (hsum : toMicros c + δ = toMicros e)
    (hve : Valid e) : shiftEnd st c δ = .ok (some st, some e) := by
  unfold shiftEnd addDelta
  rw [hsum, ofMicros_toMicros e hve]

/-- arithmetic core of the roll-over for a unit `U` (1 day, 1 hour, 1 minute): `s`, `e`
decomposed as (number of whole units, rest), `c` = units of `s` + rest of `e` -/
theorem within_unit_cases (s e c : DateTime) (U As Ae Bs Be : Nat) (hve : Valid e) (hvc : Valid c)
    (hs : toMicrosN s = As * U + Bs) (he : toMicrosN e = Ae * U + Be)
    (hc : toMicrosN c = As * U + Be) (hBs : Bs < U) (hBe : Be < U)
    (hle : toMicros s ≤ toMicros e) (hlt : toMicros e < toMicros s + (U : Int)) :
    (lt c s = true ∧ toMicros c + (U : Int) = toMicros e) ∨ (lt c s = false ∧ c = e) := by
  unfold toMicros at hle hlt
  have hle' : toMicrosN s ≤ toMicrosN e := by omega
  have hlt' : toMicrosN e < toMicrosN s + U := by omega
  rw [hs, he] at hle' hlt'
  obtain ⟨k1, k2⟩ := unit_split _ _ U Bs Be hBs hBe hle' hlt'
  by_cases hcase : Be < Bs
  · left
    have hD := k1 hcase
    constructor
    · unfold lt toMicros
      simp only [decide_eq_true_eq]
      apply Int.ofNat_lt.mpr
      rw [hc, hs]; omega
    · unfold toMicros
      rw [hc, he, hD, Nat.add_mul]
      push_cast; ring
  · right
    have hD := k2 (by omega)
    have heq : c = e := by
      apply toMicros_injective _ _ hvc hve
      unfold toMicros
      rw [hc, he, hD]
    constructor
    · rw [heq]
      unfold lt toMicros
      simp only [decide_eq_false_iff_not, not_lt]
      apply Int.ofNat_le.mpr
      rw [he, hs]; omega
    · exact heq

/-- generic form: whenever `s`, `e` and `combine` decompose w.r.t. the roll-over unit -/
theorem coverageOf_subday_within (path : List Tok) (P Q : TField → Bool) (s e : DateTime)
    (hvs : Valid s) (hve : Valid e) (hdP : HasDate P)
    (hQ : ∀ f, path.contains (.ph (.time true f)) = Q f) (hq : SubDay Q)
    (hs : truncTo P s = s) (U As Ae Bs Be : Nat)
    (hU : resolution (endRank Q - 1) = (U : Int))
    (hds : toMicrosN s = As * U + Bs) (hde : toMicrosN e = Ae * U + Be)
    (hdc : toMicrosN (combine P Q s e) = As * U + Be) (hBs : Bs < U) (hBe : Be < U)
    (hle : toMicros s ≤ toMicros e) (hlt : toMicros e < toMicros s + (U : Int)) :
    coverageOf path (stdOf P s) (stdOf Q e) = .ok (some s, some e) := by
  rw [coverageOf_subday path P Q s e hvs hve hdP hQ hq, hs, hU]
  have hvc := combine_valid P Q s e hvs hve
  rcases within_unit_cases s e _ U As Ae Bs Be hve hvc hds hde hdc hBs hBe hle hlt with
    ⟨h1, h2⟩ | ⟨h1, h2⟩
  · rw [h1, if_pos rfl]
    exact shiftEnd_eq s _ e _ h2 hve
  · rw [h1, h2]
    rfl

/-! decompositions of `toMicrosN` w.r.t. day, hour, minute -/

theorem decomp_hour (t : DateTime) :
    toMicrosN t = (toDays t.y t.mo t.d * 24 + t.h) * 3600000000
      + ((t.mi * 60 + t.s) * 1000000 + t.us) := by
  unfold toMicrosN usPerDay; ring

theorem decomp_minute (t : DateTime) :
    toMicrosN t = ((toDays t.y t.mo t.d * 24 + t.h) * 60 + t.mi) * 60000000
      + (t.s * 1000000 + t.us) := by
  unfold toMicrosN usPerDay; ring

theorem rest_hour_lt (t : DateTime) (h : Valid t) :
    (t.mi * 60 + t.s) * 1000000 + t.us < 3600000000 := by
  rw [valid_iff] at h; omega

theorem rest_minute_lt (t : DateTime) (h : Valid t) : t.s * 1000000 + t.us < 60000000 := by
  rw [valid_iff] at h; omega

/-- end with `end_hour` (…): `s ≤ e < s + 1 day` -/
theorem coverageOf_subday_within_day (path : List Tok) (P Q : TField → Bool) (s e : DateTime)
    (hvs : Valid s) (hve : Valid e) (hdP : HasDate P)
    (hQ : ∀ f, path.contains (.ph (.time true f)) = Q f) (hq : SubDay Q) (hhour : Q .hour = true)
    (hs : truncTo P s = s)
    (hte : (combine P Q s e).mi = e.mi ∧ (combine P Q s e).s = e.s ∧ (combine P Q s e).us = e.us)
    (hle : toMicros s ≤ toMicros e) (hlt : toMicros e < toMicros s + 86400000000) :
    coverageOf path (stdOf P s) (stdOf Q e) = .ok (some s, some e) := by
  have hch : (combine P Q s e).h = e.h := by simp [combine, hhour]
  apply coverageOf_subday_within path P Q s e hvs hve hdP hQ hq hs usPerDay
    (toDays s.y s.mo s.d) (toDays e.y e.mo e.d) (tod s) (tod e)
  · rw [(endRank_units Q).1 hhour]; unfold usPerDay; rfl
  · exact toMicrosN_eq s
  · exact toMicrosN_eq e
  · rw [toMicrosN_eq]
    unfold tod
    rw [hch, hte.1, hte.2.1, hte.2.2]
    rfl
  · exact tod_lt s hvs
  · exact tod_lt e hve
  · exact hle
  · unfold usPerDay; exact hlt

/-- end with `end_minute` (…) but no `end_hour`: `s ≤ e < s + 1 hour` -/
theorem coverageOf_subday_within_hour (path : List Tok) (P Q : TField → Bool) (s e : DateTime)
    (hvs : Valid s) (hve : Valid e) (hdP : HasDate P)
    (hQ : ∀ f, path.contains (.ph (.time true f)) = Q f) (hq : SubDay Q)
    (hhour : Q .hour = false) (hmin : Q .minute = true) (hs : truncTo P s = s)
    (hte : (combine P Q s e).s = e.s ∧ (combine P Q s e).us = e.us)
    (hle : toMicros s ≤ toMicros e) (hlt : toMicros e < toMicros s + 3600000000) :
    coverageOf path (stdOf P s) (stdOf Q e) = .ok (some s, some e) := by
  have hch : (combine P Q s e).h = s.h := by
    have := congrArg DateTime.h hs
    simpa [combine, truncTo, hhour] using this
  have hcm : (combine P Q s e).mi = e.mi := by simp [combine, hmin]
  apply coverageOf_subday_within path P Q s e hvs hve hdP hQ hq hs 3600000000
    (toDays s.y s.mo s.d * 24 + s.h) (toDays e.y e.mo e.d * 24 + e.h)
    ((s.mi * 60 + s.s) * 1000000 + s.us) ((e.mi * 60 + e.s) * 1000000 + e.us)
  · rw [(endRank_units Q).2.1 hhour hmin]; rfl
  · exact decomp_hour s
  · exact decomp_hour e
  · rw [decomp_hour, hch, hcm, hte.1, hte.2]
    rfl
  · exact rest_hour_lt s hvs
  · exact rest_hour_lt e hve
  · exact hle
  · exact hlt

/-- end with `end_second` (…) but neither `end_hour` nor `end_minute`: `s ≤ e < s + 1 minute` -/
theorem coverageOf_subday_within_minute (path : List Tok) (P Q : TField → Bool) (s e : DateTime)
    (hvs : Valid s) (hve : Valid e) (hdP : HasDate P)
    (hQ : ∀ f, path.contains (.ph (.time true f)) = Q f) (hq : SubDay Q)
    (hhour : Q .hour = false) (hmin : Q .minute = false) (hsec : Q .second = true)
    (hs : truncTo P s = s) (hte : (combine P Q s e).us = e.us)
    (hle : toMicros s ≤ toMicros e) (hlt : toMicros e < toMicros s + 60000000) :
    coverageOf path (stdOf P s) (stdOf Q e) = .ok (some s, some e) := by
  have hch : (combine P Q s e).h = s.h := by
    have := congrArg DateTime.h hs
    simpa [combine, truncTo, hhour] using this
  have hcm : (combine P Q s e).mi = s.mi := by
    have := congrArg DateTime.mi hs
    simpa [combine, truncTo, hmin] using this
  have hcs : (combine P Q s e).s = e.s := by simp [combine, hsec]
  apply coverageOf_subday_within path P Q s e hvs hve hdP hQ hq hs 60000000
    ((toDays s.y s.mo s.d * 24 + s.h) * 60 + s.mi) ((toDays e.y e.mo e.d * 24 + e.h) * 60 + e.mi)
    (s.s * 1000000 + s.us) (e.s * 1000000 + e.us)
  · rw [(endRank_units Q).2.2 hhour hmin hsec]; rfl
  · exact decomp_minute s
  · exact decomp_minute e
  · rw [decomp_minute, hch, hcm, hcs, hte]
    rfl
  · exact rest_minute_lt s hvs
  · exact rest_minute_lt e hve
  · exact hle
  · exact hlt

end Template
