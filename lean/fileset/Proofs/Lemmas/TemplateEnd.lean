import Proofs.Lemmas.Template
/-! Helper lemmas for the end of the time coverage: abstract form of `coverageOf`, sub-day end
fields, the one-day roll-over. -/
namespace Template
open Time Digits

/-- the end moved by the superior resolution `δ` (`end_date += self._end_time_superior`) -/
def shiftEnd (st en : DateTime) (δ : Int) : Except Err (Option DateTime × Option DateTime) :=
  match addDelta en δ with
  | .ok en' => .ok (some st, some en')
  | .error e => .error e

/-- the roll-over branch of `_retrieve_time_coverage` -/
def rollover (path : List Tok) (st en : DateTime) : Except Err (Option DateTime × Option DateTime) :=
  match superior path with
  | none => .error .typeError
  | some δ => shiftEnd st en δ

theorem rollover_some (path : List Tok) (st en : DateTime) (δ : Int) (h : superior path = some δ) :
    rollover path st en = shiftEnd st en δ := by
  unfold rollover; rw [h]

/-- `coverageOf` when both datetimes can be built: stated with abstract results of the
sub-steps, so that nothing has to be unfolded by its users -/
theorem coverageOf_both (path : List Tok) (sa ea : Std) (st en : DateTime)
    (h1 : sa.nonEmpty = true) (h2 : mkDate sa = .ok st) (h3 : ea.nonEmpty = true)
    (h4 : mkDate (sa.merge ea) = .ok en) :
    coverageOf path sa ea =
      if lt en st then rollover path st en else .ok (some st, some en) := by
  unfold coverageOf rollover shiftEnd
  simp only [h1, h2, h3, h4, ↓reduceIte]
  rfl

/-- the end fields are sub-day fields including the hour -/
def SubDay (Q : TField → Bool) : Prop :=
  Q .year = false ∧ Q .year2 = false ∧ Q .month = false ∧ Q .day = false ∧ Q .doy = false ∧
    Q .hour = true ∧ NoSub Q

/-- date and missing fields from the start, the named sub-day fields from `e` -/
def combine (P Q : TField → Bool) (s e : DateTime) : DateTime :=
  { y := s.y, mo := s.mo, d := s.d, h := e.h
    mi := if Q .minute then e.mi else if P .minute then s.mi else 0
    s := if Q .second then e.s else if P .second then s.s else 0
    us := if Q .millisecond then 1000 * (e.us / 1000)
          else if P .millisecond then 1000 * (s.us / 1000) else 0 }

theorem superior_subday (path : List Tok) (Q : TField → Bool)
    (hQ : ∀ f, path.contains (.ph (.time true f)) = Q f) (h : SubDay Q) :
    superior path = some (resolution 2) := by
  obtain ⟨h1, h2, h3, h4, h5, h6, h7, h8, h9⟩ := h
  unfold superior endRanks allFields
  simp only [List.filterMap_cons, List.filterMap_nil, hQ, h1, h2, h3, h4, h5, h6, h7, h8, h9,
    TField.rank, Bool.false_eq_true, ↓reduceIte]
  cases Q .minute <;> cases Q .second <;> cases Q .millisecond <;> rfl

theorem mkDate_merge_subday (P Q : TField → Bool) (s e : DateTime) (hvs : Valid s) (hve : Valid e)
    (hdP : HasDate P) (hq : SubDay Q) :
    mkDate ((stdOf P s).merge (stdOf Q e)) = .ok (combine P Q s e) := by
  obtain ⟨q1, q2, q3, q4, q5, q6, _⟩ := hq
  have hvalid : valid (combine P Q s e) = true := by
    have hs := (valid_iff s).1 hvs
    have he := (valid_iff e).1 hve
    have : Valid (combine P Q s e) := by
      rw [valid_iff]
      unfold combine
      obtain ⟨a1, a2, a3, a4, a5⟩ := hs
      obtain ⟨b1, b2, b3, b4, b5⟩ := he
      refine ⟨a1, b2, ?_, ?_, ?_⟩
      · simp only; split_ifs <;> omega
      · simp only; split_ifs <;> omega
      · simp only; split_ifs <;> omega
    exact this
  obtain ⟨hy, hmd⟩ := hdP
  have e1 : (P .year2 || P .year) = true := by rcases hy with h | h <;> simp [h]
  have e2 : (P .doy || P .month) = true := by rcases hmd with ⟨h, _⟩ | h <;> simp [h]
  have e3 : (P .doy || P .day) = true := by rcases hmd with ⟨_, h⟩ | h <;> simp [h]
  have hm : (stdOf P s).merge (stdOf Q e) =
      { year := some s.y, month := some s.mo, day := some s.d, hour := some (combine P Q s e).h,
        minute := if Q .minute || P .minute then some (combine P Q s e).mi else none,
        second := if Q .second || P .second then some (combine P Q s e).s else none,
        micro := if Q .millisecond || P .millisecond then some (combine P Q s e).us else none } := by
    simp only [Std.merge, stdOf, combine, e1, e2, e3, q1, q2, q3, q4, q5, q6, ↓reduceIte,
      Bool.or_self, Bool.false_eq_true]
    cases Q .minute <;> cases Q .second <;> cases Q .millisecond <;> cases P .hour <;>
      cases P .minute <;> cases P .second <;> cases P .millisecond <;> rfl
  rw [hm]
  unfold mkDate
  simp only
  have : ({ y := s.y, mo := s.mo, d := s.d, h := (some (combine P Q s e).h).getD 0,
            mi := (if (Q .minute || P .minute) = true then some (combine P Q s e).mi else none).getD 0,
            s := (if (Q .second || P .second) = true then some (combine P Q s e).s else none).getD 0,
            us := (if (Q .millisecond || P .millisecond) = true then some (combine P Q s e).us else none).getD 0 } : DateTime)
      = combine P Q s e := by
    unfold combine
    cases Q .minute <;> cases Q .second <;> cases Q .millisecond <;>
      cases P .minute <;> cases P .second <;> cases P .millisecond <;> rfl
  simp only [this, hvalid, ↓reduceIte]


theorem combine_valid (P Q : TField → Bool) (s e : DateTime) (hvs : Valid s) (hve : Valid e) :
    Valid (combine P Q s e) := by
  have hs := (valid_iff s).1 hvs
  have he := (valid_iff e).1 hve
  rw [valid_iff]
  unfold combine
  obtain ⟨a1, a2, a3, a4, a5⟩ := hs
  obtain ⟨b1, b2, b3, b4, b5⟩ := he
  refine ⟨a1, b2, ?_, ?_, ?_⟩
  · simp only; split_ifs <;> omega
  · simp only; split_ifs <;> omega
  · simp only; split_ifs <;> omega

/-- sub-day end fields: the end is `combine`, moved by one day when it precedes the start -/
theorem coverageOf_subday (path : List Tok) (P Q : TField → Bool) (s e : DateTime)
    (hvs : Valid s) (hve : Valid e) (hdP : HasDate P)
    (hQ : ∀ f, path.contains (.ph (.time true f)) = Q f) (hq : SubDay Q) :
    coverageOf path (stdOf P s) (stdOf Q e) =
      if lt (combine P Q s e) (truncTo P s) then
        shiftEnd (truncTo P s) (combine P Q s e) (resolution 2)
      else .ok (some (truncTo P s), some (combine P Q s e)) := by
  have hne : (stdOf Q e).nonEmpty = true := by
    simp [Std.nonEmpty, stdOf, hq.2.2.2.2.2.1]
  rw [coverageOf_both path _ _ _ _ (stdOf_nonEmpty P s hdP) (mkDate_stdOf P s hvs hdP) hne
    (mkDate_merge_subday P Q s e hvs hve hdP hq),
    rollover_some path _ _ _ (superior_subday path Q hQ hq)]

theorem resolution_day : resolution 2 = ((usPerDay : Nat) : Int) := by
  unfold resolution usPerDay; rfl

theorem day_split (D D' U ts te : Nat) (hts : ts < U) (hte : te < U)
    (h1 : D * U + ts ≤ D' * U + te) (h2 : D' * U + te < D * U + ts + U) :
    (te < ts → D' = D + 1) ∧ (ts ≤ te → D' = D) := by
  have key : D' = D ∨ D' = D + 1 := by
    rcases Nat.lt_or_ge D' D with h | h
    · have := Nat.mul_le_mul_right U (show D' + 1 ≤ D from h)
      rw [Nat.add_mul] at this; omega
    · rcases Nat.lt_or_ge D' (D + 2) with h' | h'
      · omega
      · have := Nat.mul_le_mul_right U h'
        rw [Nat.add_mul] at this; omega
  constructor
  · intro hlt
    rcases key with rfl | rfl
    · omega
    · rfl
  · intro hle
    rcases key with rfl | rfl
    · rfl
    · rw [Nat.add_mul] at h2; omega

theorem tod_combine (P Q : TField → Bool) (s e : DateTime)
    (h : (combine P Q s e).mi = e.mi ∧ (combine P Q s e).s = e.s ∧ (combine P Q s e).us = e.us) :
    tod (combine P Q s e) = tod e := by
  unfold tod
  rw [h.1, h.2.1, h.2.2]
  rfl

theorem toMicrosN_combine (P Q : TField → Bool) (s e : DateTime)
    (h : (combine P Q s e).mi = e.mi ∧ (combine P Q s e).s = e.s ∧ (combine P Q s e).us = e.us) :
    toMicrosN (combine P Q s e) = toDays s.y s.mo s.d * usPerDay + tod e := by
  rw [toMicrosN_eq, tod_combine P Q s e h]
  rfl

theorem shiftEnd_eq (st c e : DateTime) (δ : Int) (hsum : toMicros c + δ = toMicros e)
    (hve : Valid e) : shiftEnd st c δ = .ok (some st, some e) := by
  unfold shiftEnd addDelta
  rw [hsum, ofMicros_toMicros e hve]

/-- arithmetic core of the roll-over: with `c` = start date + time of day of `e` -/
theorem within_day_cases (s e c : DateTime) (hvs : Valid s) (hve : Valid e) (hvc : Valid c)
    (hc : toMicrosN c = toDays s.y s.mo s.d * usPerDay + tod e)
    (hle : toMicros s ≤ toMicros e) (hlt : toMicros e < toMicros s + resolution 2) :
    (lt c s = true ∧ toMicros c + resolution 2 = toMicros e) ∨ (lt c s = false ∧ c = e) := by
  have hse := toMicrosN_eq s
  have hee := toMicrosN_eq e
  have hts := tod_lt s hvs
  have hte' := tod_lt e hve
  rw [resolution_day] at hlt ⊢
  unfold toMicros at hle hlt
  have hle' : toMicrosN s ≤ toMicrosN e := by omega
  have hlt' : toMicrosN e < toMicrosN s + usPerDay := by omega
  rw [hse, hee] at hle' hlt'
  obtain ⟨k1, k2⟩ := day_split _ _ usPerDay (tod s) (tod e) hts hte' hle' hlt'
  by_cases hcase : tod e < tod s
  · left
    have hD := k1 hcase
    constructor
    · unfold lt toMicros
      simp only [decide_eq_true_eq]
      apply Int.ofNat_lt.mpr
      rw [hc, hse]; omega
    · unfold toMicros
      rw [hc, hee, hD, Nat.add_mul]
      push_cast; ring
  · right
    have hD := k2 (by omega)
    have heq : c = e := by
      apply toMicros_injective _ _ hvc hve
      unfold toMicros
      rw [hc, hee, hD]
    constructor
    · rw [heq]
      unfold lt toMicros
      simp only [decide_eq_false_iff_not, not_lt]
      apply Int.ofNat_le.mpr
      rw [hee, hse]; omega
    · exact heq

/-- **the end is recovered across midnight**: a start at the template's resolution, an end
whose sub-day fields are all written (`combine` has `e`'s time of day), `s ≤ e < s + 1 day`:
the parsed coverage is exactly `(s, e)` — on the same day or after the roll-over to the next
day, month or year -/
theorem coverageOf_subday_within_day (path : List Tok) (P Q : TField → Bool) (s e : DateTime)
    (hvs : Valid s) (hve : Valid e) (hdP : HasDate P)
    (hQ : ∀ f, path.contains (.ph (.time true f)) = Q f) (hq : SubDay Q)
    (hs : truncTo P s = s)
    (hte : (combine P Q s e).mi = e.mi ∧ (combine P Q s e).s = e.s ∧ (combine P Q s e).us = e.us)
    (hle : toMicros s ≤ toMicros e) (hlt : toMicros e < toMicros s + resolution 2) :
    coverageOf path (stdOf P s) (stdOf Q e) = .ok (some s, some e) := by
  rw [coverageOf_subday path P Q s e hvs hve hdP hQ hq, hs]
  have hvc := combine_valid P Q s e hvs hve
  have hc := toMicrosN_combine P Q s e hte
  rcases within_day_cases s e _ hvs hve hvc hc hle hlt with ⟨h1, h2⟩ | ⟨h1, h2⟩
  · rw [h1, if_pos rfl]
    exact shiftEnd_eq s _ e _ h2 hve
  · rw [h1, h2]
    rfl

end Template
