/-
Model of `Collocator.collocate_filesets` (typhon/collocations/collocator.py) — the
file-level pipeline  match → array_split → worker processes → bounded result queue →
parent drain loop.  Core Lean only (no Mathlib) so that the driver links.

The per-file-pair collocation (`Collocator.collocate`, property C04) is *opaque* here: a
match `(p, s)` comes with an `Option Result` (`none` = `collocate` returned `None`).

Python (after the `fix:` commits), abridged:

    matches = list(filesets[0].match(filesets[1], start, end, max_interval))   # NoFilesError
    if not matches: return
    if processes is None: processes = 1
    processes = min(processes, len(matches))
    matches_chunks = np.array_split(np.array(matches, dtype=object), processes)  # ValueError if 0
    results = Queue(maxsize=processes)
    ... one Process(target=_process_caller, matches=chunk) per chunk, all started ...
    running = process_list.copy()
    while running:
        running = [p for p in running if p.is_alive()]
        while not results.empty():
            process, progress, result = results.get()
            if result is not None: yield result

    _process_caller:
        matches = [[m[0], s] for m in kwargs['matches'] for s in m[1]]      # flattened
        cached_data = []; current_bundle_tag = None
        try:
            processed = 0
            for collocations, attributes, match in self._collocate_matches(**kwargs):
                processed += 1                      # match = the (primary, secondary) files collocated
                if collocations is None: results.put([name, progress, None]); continue
                if bundle is None:
                    results.put([name, progress, save(collocations)]); continue
                save_cache = _should_save_cache(bundle, current_bundle_tag, match, start_time)
                if save_cache:
                    results.put([name, progress, save(cached_data)]); cached_data = []
                cached_data.append(collocations)
                if bundle == "primary": current_bundle_tag = match[0].path
                elif bundle == "daily": current_bundle_tag = start_time.date()
            if cached_data: results.put([name, progress, save(cached_data)])
        except Exception:
            results.put([name, 100., ProcessCrashed]); ...; raise

`_collocate_matches` yields one item per flattened match *that align() did not skip*
(`skip_file_errors` and an unreadable file → align yields nothing for that match) together
with the files it collocated; the bundle tag is taken from those files.  (Before the fix
"bundle tag lags after a skipped match" the loop used `matches[processed]`, which points to an
earlier match once a match was skipped: signature `bundle-tag-lag` of the harness.)
-/

namespace CFiles

/-! ## (1) `np.array_split` -/

/-- `section_sizes = extras * [q+1] + (k-extras) * [q]` with `q, extras = divmod(n, k)` -/
def chunkSizes (n k : Nat) : List Nat :=
  List.replicate (n % k) (n / k + 1) ++ List.replicate (k - n % k) (n / k)

/-- `sary[st:end]` for consecutive division points -/
def splitSizes {α : Type} : List Nat → List α → List (List α)
  | [], _ => []
  | s :: ss, l => l.take s :: splitSizes ss (l.drop s)

/-- `np.array_split(ms, k)`; `none` = `ValueError` (number of sections must be > 0). -/
def chunks {α : Type} (k : Nat) (ms : List α) : Option (List (List α)) :=
  if k = 0 then none else some (splitSizes (chunkSizes ms.length k) ms)

/-! ## (2) worker process `_process_caller` -/

abbrev Pair := Nat × Nat

/-- what `collocate` returned for one file pair: the ids of the collocated point pairs
(opaque to this model) and the date of `attrs["start_time"]` -/
structure Result where
  pairs : List Pair
  day : Int
deriving DecidableEq, Repr

inductive Outcome where
  | skipped                     -- unreadable file ∧ skip_file_errors: align yields nothing
  | crash                       -- unreadable file ∧ ¬skip_file_errors: exception in the loop
  | res (r : Option Result)     -- collocate returned None / a dataset
deriving DecidableEq, Repr

/-- one flattened match `[primary, secondary]` (file indices) with what happens to it -/
structure Job where
  prim : Nat
  sec : Nat
  out : Outcome
deriving DecidableEq, Repr

inductive Bundle where
  | none | primary | daily
deriving DecidableEq, Repr

inductive Tag where
  | prim (p : Nat) | day (d : Int)
deriving DecidableEq, Repr

/-- an element of `cached_data`; `tag` is a ghost annotation: the bundle tag under which
the dataset was cached (used only to state that bundles are maximal runs) -/
structure Cached where
  tag : Tag
  r : Result
deriving DecidableEq, Repr

/-- an object put on the result queue (name and progress number dropped) -/
inductive Item where
  | progress                          -- [name, progress, None]
  | result (bundle : List Cached)     -- [name, progress, (concat of the datasets, attrs)]
  | crashed                           -- [name, 100., ProcessCrashed]
deriving DecidableEq, Repr

/-- the new `current_bundle_tag` (bundle ≠ None) -/
def tagOf (b : Bundle) (m : Job) (r : Result) : Tag :=
  match b with
  | .daily => .day r.day
  | _ => .prim m.prim

/-- `_should_save_cache` -/
def shouldSave (cur : Option Tag) (t : Tag) : Bool :=
  match cur with
  | none => false
  | some c => c != t

/-- The loop of `_process_caller`.  `cached` = `cached_data`, `tag` = `current_bundle_tag`,
last argument = the flattened matches `_collocate_matches` will still go through (each yields
its own files as `match`).  Returns the objects put on the result queue, in order. -/
def worker (b : Bundle) : List Cached → Option Tag → List Job → List Item
  | cached, _, [] => if cached.isEmpty then [] else [.result cached]
  | cached, tag, j :: rest =>
    match j.out with
    | .skipped => worker b cached tag rest
    | .crash => [.crashed]
    | .res none => .progress :: worker b cached tag rest
    | .res (some r) =>
      match b with
      | .none => .result [⟨tagOf b j r, r⟩] :: worker b cached tag rest
      | _ =>
        let t := tagOf b j r
        if shouldSave tag t then
          .result cached :: worker b [⟨t, r⟩] (some t) rest
        else
          worker b (cached ++ [⟨t, r⟩]) (some t) rest

/-- everything a worker process puts, given its flattened matches -/
def workerItems (b : Bundle) (jobs : List Job) : List Item := worker b [] none jobs

/-- the bundles (datasets) among the items -/
def bundlesOf : List Item → List (List Cached)
  | [] => []
  | .result c :: is => c :: bundlesOf is
  | _ :: is => bundlesOf is

/-- the collocation results a worker is supposed to deliver: its non-`None` results -/
def produced : List Job → List Result
  | [] => []
  | j :: js =>
    match j.out with
    | .res (some r) => r :: produced js
    | _ => produced js

def hasCrash (jobs : List Job) : Bool := jobs.any (fun j => j.out == .crash)

/-! ## (3) parent: bounded queue and drain loop

`multiprocessing.Queue`: `put` acquires a bounded semaphore and appends to a process-local
buffer, a feeder thread writes the buffer to the pipe, `empty()` looks at the pipe, `get`
reads the pipe and releases the semaphore; a process exits only after its feeder thread
has flushed the buffer. -/

structure WorkerSt where
  todo : List Item          -- still to be put
  buf : List Item           -- put, not yet in the pipe
  alive : Bool
deriving Repr

inductive PC where
  | loopTest                -- `while running:`
  | filter                  -- `running = [p for p in running if p.is_alive()]`
  | emptyTest               -- `while not results.empty():`
  | get                     -- `results.get()` + yield
  | done
deriving DecidableEq, Repr

structure PState where
  ws : Nat → WorkerSt
  pipe : List (Nat × Item)
  sem : Nat                          -- items put and not yet got
  cap : Nat                          -- maxsize
  running : List Nat
  pc : PC
  yielded : List (Nat × Item)        -- everything `get` returned, in order

inductive Event where
  | put (w : Nat)                    -- worker w: results.put(next item) returns
  | feed (w : Nat)                   -- worker w's feeder thread writes one object to the pipe
  | die (w : Nat)                    -- worker w's process has exited
  | parent (stale : List Nat)        -- one step of the parent; `stale` (filter step only):
                                     -- processes that were seen alive by their is_alive()
                                     -- call although they are dead by the end of the filter
deriving Repr

def setW (ws : Nat → WorkerSt) (w : Nat) (x : WorkerSt) : Nat → WorkerSt :=
  fun i => if i = w then x else ws i

/-- one transition; `none` = the event is not enabled in this state -/
def step (s : PState) : Event → Option PState
  | .put w =>
    match (s.ws w).todo with
    | [] => none
    | x :: t =>
      if (s.ws w).alive && decide (s.sem < s.cap) then
        some { s with ws := setW s.ws w { (s.ws w) with todo := t, buf := (s.ws w).buf ++ [x] },
                      sem := s.sem + 1 }
      else none
  | .feed w =>
    match (s.ws w).buf with
    | [] => none
    | x :: b =>
      some { s with ws := setW s.ws w { (s.ws w) with buf := b }, pipe := s.pipe ++ [(w, x)] }
  | .die w =>
    if (s.ws w).alive && (s.ws w).todo.isEmpty && (s.ws w).buf.isEmpty then
      some { s with ws := setW s.ws w { (s.ws w) with alive := false } }
    else none
  | .parent stale =>
    match s.pc with
    | .loopTest => some { s with pc := if s.running.isEmpty then .done else .filter }
    | .filter =>
      some { s with running := s.running.filter (fun w => (s.ws w).alive || stale.contains w),
                    pc := .emptyTest }
    | .emptyTest => some { s with pc := if s.pipe.isEmpty then .loopTest else .get }
    | .get =>
      match s.pipe with
      | [] => none                               -- get() blocks
      | x :: p => some { s with pipe := p, sem := s.sem - 1, yielded := s.yielded ++ [x],
                                pc := .emptyTest }
    | .done => none

def run (s : PState) : List Event → Option PState
  | [] => some s
  | e :: es => match step s e with
    | none => none
    | some s' => run s' es

/-- state right after all processes were started; `items w` = what worker w will put -/
def initState (n : Nat) (items : Nat → List Item) : PState :=
  { ws := fun w => if w < n then { todo := items w, buf := [], alive := true }
                   else { todo := [], buf := [], alive := false },
    pipe := [], sem := 0, cap := n, running := List.range n, pc := .loopTest, yielded := [] }

/-- the objects received from worker `w`, in order -/
def gotFrom (s : PState) (w : Nat) : List Item :=
  (s.yielded.filter (fun x => x.1 == w)).map (·.2)

/-- what the generator yields to its caller: every `result is not None` (this includes the
`ProcessCrashed` marker) -/
def userYield (ys : List (Nat × Item)) : List Item :=
  (ys.map (·.2)).filter (fun i => i != .progress)

/-! ## (4) file level: `find` and `match` restated (their tree implementation is C03/C01) -/

/-- indices of the files whose closed coverage `[lo, hi]` overlaps the half-open search
period `[a, b)`, i.e. the closed `[a, b − 1µs]` (`FileSet.find`; the order is the given
one — the harness passes the files sorted by `(lo, hi)` like `find` does) -/
def findIdx (a b : Int) (files : List (Int × Int)) : List Nat :=
  (List.range files.length).filter (fun i =>
    match files[i]? with
    | some f => decide (f.1 ≤ b - 1) && decide (a ≤ f.2)
    | none => false)

inductive Err where
  | noFiles | valueError
deriving DecidableEq, Repr

/-- `datetime.min` / `datetime.max` in µs since 1970-01-01 (the time axis of this model) -/
def dtMin : Int := -62135596800000000
def dtMax : Int := 253402300799999999

/-- lower end of the widened search period: `start` (`datetime.min` when `None`) minus
`max_interval`, clipped to `datetime.min` (the `OverflowError` branch) -/
def wlo (start : Option Int) (mi : Int) : Int :=
  let s := match start with
    | none => dtMin
    | some s => s
  if s - mi < dtMin then dtMin else s - mi

/-- upper end: `end` (`datetime.max` when `None`) plus `max_interval`, clipped to `datetime.max` -/
def whi (end_ : Option Int) (mi : Int) : Int :=
  let e := match end_ with
    | none => dtMax
    | some e => e
  if dtMax < e + mi then dtMax else e + mi

/-- the matching for a given (already widened) search period `[a, b)`: for each found
primary (in `find` order) the increasing list of found secondaries whose coverage widened
by `mi` overlaps; primaries without partner are dropped.  `find` raises `NoFilesError`
when it finds nothing. -/
def matchPeriod (files1 files2 : List (Int × Int)) (a b mi : Int) :
    Except Err (List (Nat × List Nat)) :=
  let f1 := findIdx a b files1
  let f2 := findIdx a b files2
  if f1.isEmpty || f2.isEmpty then .error .noFiles else
  .ok ((f1.map (fun i =>
      (i, f2.filter (fun j =>
        match files1[i]?, files2[j]? with
        | some p, some s => decide (s.1 - mi ≤ p.2) && decide (p.1 ≤ s.2 + mi)
        | _, _ => false)))).filter (fun m => !m.2.isEmpty))

/-- `FileSet.match(other, start, end, max_interval)` on coverages in µs; `start`/`end` may be
`None` (open period) -/
def matchFiles (files1 files2 : List (Int × Int)) (start end_ : Option Int) (mi : Int) :
    Except Err (List (Nat × List Nat)) :=
  matchPeriod files1 files2 (wlo start mi) (whi end_ mi) mi

/-- `[[m[0], s] for m in chunk for s in m[1]]` -/
def flattenMatches (chunk : List (Nat × List Nat)) : List (Nat × Nat) :=
  chunk.flatMap (fun m => m.2.map (fun s => (m.1, s)))

/-- what happens to the match `(p, s)`: `align` with `skip_errors` -/
def outcome (skip : Bool) (bad1 bad2 : Nat → Bool) (coll : Nat → Nat → Option Result)
    (p s : Nat) : Outcome :=
  if bad1 p || bad2 s then (if skip then .skipped else .crash) else .res (coll p s)

def mkJobs (oc : Nat → Nat → Outcome) (flat : List (Nat × Nat)) : List Job :=
  flat.map (fun m => { prim := m.1, sec := m.2, out := oc m.1 m.2 })

/-- `if processes is None: processes = 1` -/
def procCount : Option Nat → Nat
  | none => 1
  | some k => k

/-- the chunks handed to the worker processes (`[]` = "nothing to collocate") -/
def plan (ms : List (Nat × List Nat)) (processes : Option Nat) :
    Except Err (List (List (Nat × List Nat))) :=
  if ms.isEmpty then .ok [] else
  match chunks (min (procCount processes) ms.length) ms with
  | none => .error .valueError
  | some cs => .ok cs

/-- per worker process: everything it puts on the result queue -/
def pipeline (b : Bundle) (oc : Nat → Nat → Outcome) (ms : List (Nat × List Nat))
    (processes : Option Nat) : Except Err (List (List Item)) :=
  match plan ms processes with
  | .error e => .error e
  | .ok cs => .ok (cs.map (fun c => workerItems b (mkJobs oc (flattenMatches c))))

end CFiles
