import Model.CollocFiles
/-!
Line-protocol driver for C05 (collocate_filesets pipeline).  One output line per input line.

  chunks k n
      -> sizes of `np.array_split(range(n), k)` separated by blanks ("-" if k chunks of
         nothing... never: k ≥ 1 gives k numbers), "value-error" for k = 0
  match mi start end n1 lo hi ... n2 lo hi ...      (start/end: µs since 1970 or "-" = None)
      -> "i:j,j i:j ..." (indices into the given lists), "-" if no match, "no-files"
  cf b skip procs M p:s,s ... R p:s:rid:day ... BP p ... BS s ...
      b ∈ {n,p,d}; skip ∈ {0,1}; procs = number or "-" (None)
      -> per worker the items it puts: "R3.4" (bundle of results 3 and 4), "P" (None
         progress), "X" (crash marker), items separated by blanks, workers by " | ";
         "-" for a worker that puts nothing; "nothing" when there are no matches;
         "value-error"
  par n cap W c0 c1 ... E ev ev ...
      parent state machine with n workers, worker w putting c_w results labelled w.0, w.1 ...;
      events: p<w> put, f<w> feed, d<w> die, s parent step, s<w>,<w> parent step with stale
      -> "pc=<pc> y=<w>.<k> ..." or "blocked@<index of the first disabled event>"
Anything else -> "bad-op".
-/
open CFiles

def parseInts (ws : List String) : Option (List Int) := ws.mapM String.toInt?

def pairs : List Int → Option (List (Int × Int))
  | [] => some []
  | a :: b :: rest => (pairs rest).map ((a, b) :: ·)
  | _ => none

def splitAtTok (tok : String) (ws : List String) : List String × List String :=
  (ws.takeWhile (· ≠ tok), (ws.dropWhile (· ≠ tok)).drop 1)

def showItem : Item → String
  | .progress => "P"
  | .crashed => "X"
  | .result c => "R" ++ ".".intercalate (c.map (fun x => toString (x.r.pairs.map (·.1)).head!))

def showItems (is : List Item) : String :=
  if is.isEmpty then "-" else " ".intercalate (is.map showItem)

def parseMatch (tok : String) : Option (Nat × List Nat) :=
  match tok.splitOn ":" with
  | [p, ss] => do
    let p ← p.toNat?
    let ss ← (ss.splitOn ",").mapM String.toNat?
    pure (p, ss)
  | _ => none

def parseRes (tok : String) : Option ((Nat × Nat) × Result) :=
  match tok.splitOn ":" with
  | [p, s, rid, day] => do
    let p ← p.toNat?
    let s ← s.toNat?
    let rid ← rid.toNat?
    let day ← day.toInt?
    pure ((p, s), { pairs := [(rid, 0)], day := day })
  | _ => none

def doCf (ws : List String) : String :=
  match ws with
  | b :: skip :: procs :: "M" :: rest =>
    let (ms, rest) := splitAtTok "R" rest
    let (rs, rest) := splitAtTok "BP" rest
    let (bp, bs) := splitAtTok "BS" rest
    let bundle? : Option Bundle := match b with
      | "n" => some .none | "p" => some .primary | "d" => some .daily | _ => none
    let procs? : Option (Option Nat) := if procs = "-" then some none else procs.toNat?.map some
    match bundle?, procs?, ms.mapM parseMatch, rs.mapM parseRes, bp.mapM String.toNat?,
          bs.mapM String.toNat? with
    | some bundle, some procs, some ms, some rs, some bp, some bs =>
      let coll : Nat → Nat → Option Result := fun p s => (rs.find? (fun x => x.1 == (p, s))).map (·.2)
      let oc := outcome (skip == "1") (fun p => bp.contains p) (fun s => bs.contains s) coll
      match pipeline bundle oc ms procs with
      | .error .valueError => "value-error"
      | .error .noFiles => "no-files"
      | .ok [] => "nothing"
      | .ok wsItems => " | ".intercalate (wsItems.map showItems)
    | _, _, _, _, _, _ => "bad-op"
  | _ => "bad-op"

def doMatch (ws : List String) : String :=
  match ws with
  | mi :: st :: en :: n1 :: rest =>
    let optInt : String → Option (Option Int) := fun t => if t = "-" then some none else t.toInt?.map some
    match mi.toInt?, optInt st, optInt en, n1.toNat?, parseInts rest with
    | some mi, some st, some en, some n1, some xs =>
      let a := xs.take (2 * n1)
      match xs.drop (2 * n1) with
      | n2 :: b =>
        if b.length ≠ 2 * n2.toNat ∨ a.length ≠ 2 * n1 then "bad-op" else
        match pairs a, pairs b with
        | some t1, some t2 =>
          match matchFiles t1 t2 st en mi with
          | .error _ => "no-files"
          | .ok r =>
            if r.isEmpty then "-" else
            " ".intercalate (r.map (fun p => toString p.1 ++ ":" ++ ",".intercalate (p.2.map toString)))
        | _, _ => "bad-op"
      | [] => "bad-op"
    | _, _, _, _, _ => "bad-op"
  | _ => "bad-op"

def parseEvent (tok : String) : Option Event :=
  let body := (tok.drop 1).toString
  match tok.take 1 |>.toString with
  | "p" => body.toNat?.map Event.put
  | "f" => body.toNat?.map Event.feed
  | "d" => body.toNat?.map Event.die
  | "s" => if body.isEmpty then some (.parent []) else ((body.splitOn ",").mapM String.toNat?).map Event.parent
  | _ => none

def showPC : PC → String
  | .loopTest => "loopTest" | .filter => "filter" | .emptyTest => "emptyTest" | .get => "get"
  | .done => "done"

def runIdx (s : PState) (i : Nat) : List Event → PState ⊕ Nat
  | [] => .inl s
  | e :: es => match step s e with
    | none => .inr i
    | some s' => runIdx s' (i + 1) es

def doPar (ws : List String) : String :=
  match ws with
  | n :: cap :: "W" :: rest =>
    let (cs, es) := splitAtTok "E" rest
    match n.toNat?, cap.toNat?, cs.mapM String.toNat?, es.mapM parseEvent with
    | some n, some cap, some cs, some es =>
      let items : Nat → List Item := fun w =>
        (List.range (cs.getD w 0)).map (fun k =>
          Item.result [⟨.prim w, { pairs := [(w, k)], day := 0 }⟩])
      let s0 := { initState n items with cap := cap }
      match runIdx s0 0 es with
      | .inr i => s!"blocked@{i}"
      | .inl s =>
        let ys := s.yielded.map (fun (w, it) => match it with
          | .result [c] => s!"{w}.{(c.r.pairs.map (·.2)).head!}"
          | _ => s!"{w}.?")
        s!"pc={showPC s.pc} y=" ++ " ".intercalate ys
    | _, _, _, _ => "bad-op"
  | _ => "bad-op"

def stepLine (line : String) : String :=
  match (line.splitOn " ").filter (· ≠ "") with
  | ["chunks", k, n] =>
    match k.toNat?, n.toNat? with
    | some k, some n =>
      match chunks k (List.range n) with
      | none => "value-error"
      | some cs => " ".intercalate (cs.map (fun c => toString c.length))
    | _, _ => "bad-op"
  | "match" :: rest => doMatch rest
  | "cf" :: rest => doCf rest
  | "par" :: rest => doPar rest
  | _ => "bad-op"

partial def loop (h : IO.FS.Stream) (out : IO.FS.Stream) : IO Unit := do
  let line ← h.getLine
  if line.isEmpty then return ()
  out.putStrLn (stepLine (line.trimAscii.toString))
  loop h out

def main : IO Unit := do
  let out ← IO.getStdout
  loop (← IO.getStdin) out
  out.flush
