import Proofs.Lemmas.Chunks
import Proofs.Lemmas.Worker
import Proofs.Lemmas.Parent
import Proofs.Lemmas.Match
import Mathlib.Tactic
import Mathlib.Data.Multiset.Bind
import Mathlib.Algebra.BigOperators.Group.Finset.Basic

/-! Specification of "the collocations between the complete data" and the lemmas that connect
the pipeline (chunks → workers → queue → parent) to it. -/

namespace CFiles

/-! ### specification -/

/-- a data point: unique label and time (µs); its position is hidden in `near` -/
structure Pt where
  id : Nat
  t : Int

/-- the point-level collocation criterion (what C04 establishes for `collocate`) -/
def collocated (near : Nat → Nat → Bool) (mi : Int) (start end_ : Option Int) (a c : Pt) : Bool :=
  near a.id c.id && decide (|a.t - c.t| < mi) && inPeriod start end_ a.t && inPeriod start end_ c.t

/-- all collocations between two lists of points (as label pairs, with multiplicity) -/
def pointPairs (near : Nat → Nat → Bool) (mi : Int) (start end_ : Option Int) (P S : List Pt) : List Pair :=
  P.flatMap (fun a => S.flatMap (fun c =>
    if collocated near mi start end_ a c then [(a.id, c.id)] else []))

def resultPairs : Option Result → List Pair
  | none => []
  | some r => r.pairs

def itemPairs : Item → List Pair
  | .result c => c.flatMap (·.r.pairs)
  | _ => []

/-- the collocations inside all bundles of a list of queue objects -/
def itemsPairs (is : List Item) : List Pair := is.flatMap itemPairs

/-! ### produced -/

theorem produced_append (a b : List Job) : produced (a ++ b) = produced a ++ produced b := by
  induction a with
  | nil => rfl
  | cons j js ih =>
    simp only [List.cons_append, produced]
    split <;> simp [ih]

theorem produced_cons (j : Job) (js : List Job) :
    produced (j :: js) = (match j.out with | .res (some r) => [r] | _ => []) ++ produced js := by
  cases j with
  | mk p s out =>
    cases out with
    | skipped => rfl
    | crash => rfl
    | res ro => cases ro <;> rfl

theorem mkJobs_cons (oc : Nat → Nat → Outcome) (m : Nat × Nat) (ms : List (Nat × Nat)) :
    mkJobs oc (m :: ms) = ⟨m.1, m.2, oc m.1 m.2⟩ :: mkJobs oc ms := rfl

theorem produced_mkJobs_skip (bad1 bad2 : Nat → Bool) (coll : Nat → Nat → Option Result)
    (flat : List (Nat × Nat)) :
    produced (mkJobs (outcome true bad1 bad2 coll) flat) =
      (flat.filter (fun m => !(bad1 m.1 || bad2 m.2))).filterMap (fun m => coll m.1 m.2) := by
  induction flat with
  | nil => rfl
  | cons m ms ih =>
    rw [mkJobs_cons, produced_cons, ih, List.filter_cons]
    cases hb : (bad1 m.1 || bad2 m.2)
    · cases hcoll : coll m.1 m.2 <;> simp [outcome, hb, hcoll]
    · simp [outcome, hb]

theorem produced_mkJobs_plain (coll : Nat → Nat → Option Result) (flat : List (Nat × Nat)) :
    produced (mkJobs (outcome false (fun _ => false) (fun _ => false) coll) flat) =
      flat.filterMap (fun m => coll m.1 m.2) := by
  induction flat with
  | nil => rfl
  | cons m ms ih =>
    rw [mkJobs_cons, produced_cons, ih]
    cases hcoll : coll m.1 m.2 <;> simp [outcome, hcoll]

/-! ### one worker, all workers -/

theorem emitted_workerItems (b : Bundle) (jobs : List Job) (hc : ∀ j ∈ jobs, j.out ≠ .crash) :
    emitted (workerItems b jobs) = produced jobs := by
  unfold emitted workerItems
  by_cases hb : b = .none
  · subst hb; rw [flat_worker_none none jobs hc, producedC_map_r]
  · rw [flat_worker_bundle b hb [] none jobs hc]; simp [producedC_map_r]

theorem flattenMatches_append (a b : List (Nat × List Nat)) :
    flattenMatches (a ++ b) = flattenMatches a ++ flattenMatches b := by
  simp [flattenMatches]

theorem mkJobs_append (oc : Nat → Nat → Outcome) (a b : List (Nat × Nat)) :
    mkJobs oc (a ++ b) = mkJobs oc a ++ mkJobs oc b := by
  simp [mkJobs]

theorem produced_chunks (oc : Nat → Nat → Outcome) (cs : List (List (Nat × List Nat))) :
    cs.flatMap (fun c => produced (mkJobs oc (flattenMatches c))) =
      produced (mkJobs oc (flattenMatches cs.flatten)) := by
  induction cs with
  | nil => rfl
  | cons c cs ih =>
    simp only [List.flatMap_cons, List.flatten_cons, flattenMatches_append, mkJobs_append,
      produced_append, ih]

theorem mem_flattenMatches_of_mem_chunk {cs : List (List (Nat × List Nat))} {c : List (Nat × List Nat)}
    (hc : c ∈ cs) {m : Nat × Nat} (hm : m ∈ flattenMatches c) : m ∈ flattenMatches cs.flatten := by
  unfold flattenMatches at hm ⊢
  simp only [List.mem_flatMap] at hm ⊢
  obtain ⟨x, hx, hmx⟩ := hm
  exact ⟨x, List.mem_flatten.mpr ⟨c, hc, hx⟩, hmx⟩

theorem pipeline_delivers (b : Bundle) (oc : Nat → Nat → Outcome) (ms : List (Nat × List Nat))
    (processes : Option Nat) (hp : ∀ k, processes = some k → 1 ≤ k)
    (hc : ∀ m ∈ flattenMatches ms, oc m.1 m.2 ≠ .crash) :
    ∃ ws, pipeline b oc ms processes = .ok ws ∧
      ws.flatMap (fun is => (bundlesOf is).flatten.map (·.r)) = produced (mkJobs oc (flattenMatches ms)) ∧
      (∀ is ∈ ws, Item.crashed ∉ is) := by
  unfold pipeline plan
  cases hms : ms with
  | nil => exact ⟨[], by simp, by simp [flattenMatches, mkJobs, produced], by simp⟩
  | cons m0 ms0 =>
    rw [← hms]
    have hne : ms.isEmpty = false := by rw [hms]; rfl
    simp only [hne, Bool.false_eq_true, if_false]
    set p := procCount processes with hpdef
    have hp1 : 1 ≤ p := by
      cases hpr : processes with
      | none => simp [hpdef, hpr, procCount]
      | some k => simp only [hpdef, hpr, procCount]; exact hp k hpr
    have hlen : 1 ≤ ms.length := by rw [hms]; simp
    have hk : 1 ≤ min p ms.length := by omega
    have hk0 : min p ms.length ≠ 0 := by omega
    have hchunks : chunks (min p ms.length) ms = some (splitSizes (chunkSizes ms.length (min p ms.length)) ms) := by
      simp [chunks, hk0]
    have hflat : (splitSizes (chunkSizes ms.length (min p ms.length)) ms).flatten = ms :=
      flatten_splitSizes _ _ (by rw [sum_chunkSizes _ _ (by omega)])
    rw [hchunks]
    set cs := splitSizes (chunkSizes ms.length (min p ms.length)) ms with hcs
    have hjobs : ∀ c ∈ cs, ∀ j ∈ mkJobs oc (flattenMatches c), j.out ≠ .crash := by
      intro c hcm j hj
      simp only [mkJobs, List.mem_map] at hj
      obtain ⟨m, hm, rfl⟩ := hj
      have := mem_flattenMatches_of_mem_chunk hcm hm
      rw [hflat] at this
      exact hc m this
    refine ⟨_, rfl, ?_, ?_⟩
    · rw [List.flatMap_map]
      have : ∀ c ∈ cs, (bundlesOf (workerItems b (mkJobs oc (flattenMatches c)))).flatten.map (·.r)
          = produced (mkJobs oc (flattenMatches c)) := fun c hcm =>
        emitted_workerItems b _ (hjobs c hcm)
      rw [List.flatMap_congr this, produced_chunks, hflat]
    · intro is his
      simp only [List.mem_map] at his
      obtain ⟨c, hcm, rfl⟩ := his
      exact worker_no_crash_item b [] none _ (hjobs c hcm)

/-! ### the parent's yield as a multiset -/

theorem perm_by_key {β : Type} (l : List (Nat × β)) (n : Nat) (h : ∀ x ∈ l, x.1 < n) :
    (l.map (·.2)).Perm ((List.range n).flatMap (fun w => (l.filter (fun x => x.1 == w)).map (·.2))) := by
  induction n generalizing l with
  | zero =>
    cases l with
    | nil => simp
    | cons x xs => exact absurd (h x List.mem_cons_self) (by omega)
  | succ n ih =>
    set l2 := l.filter (fun x => x.1 == n) with hl2
    set l1 := l.filter (fun x => !(x.1 == n)) with hl1
    have hsplit : (l2 ++ l1).Perm l := List.filter_append_perm _ l
    have hk1 : ∀ x ∈ l1, x.1 < n := by
      intro x hx
      simp only [hl1, List.mem_filter, Bool.not_eq_true', beq_eq_false_iff_ne] at hx
      have := h x hx.1
      omega
    have ih1 := ih l1 hk1
    have hF : (List.range n).flatMap (fun w => (l1.filter (fun x => x.1 == w)).map (·.2)) =
        (List.range n).flatMap (fun w => (l.filter (fun x => x.1 == w)).map (·.2)) := by
      apply List.flatMap_congr
      intro w hw
      simp only [List.mem_range] at hw
      congr 1
      rw [hl1, List.filter_filter]
      apply List.filter_congr
      intro x _
      by_cases hx : x.1 = w
      · have : x.1 ≠ n := by omega
        simp [hx, this]
        omega
      · simp [hx]
    rw [List.range_succ, List.flatMap_append]
    simp only [List.flatMap_cons, List.flatMap_nil, List.append_nil]
    rw [← hF]
    have h1 : (l.map (·.2)).Perm (l2.map (·.2) ++ l1.map (·.2)) := by
      rw [← List.map_append]; exact (hsplit.map _).symm
    exact h1.trans ((List.perm_append_comm).trans (List.Perm.append_right _ ih1))

theorem flatMap_getD_range {α : Type} (l : List (List α)) :
    (List.range l.length).flatMap (fun w => l.getD w []) = l.flatten := by
  induction l using List.reverseRecOn with
  | nil => rfl
  | append_singleton l a ih =>
    rw [List.length_append, List.length_singleton, List.range_succ, List.flatMap_append]
    simp only [List.flatMap_cons, List.flatMap_nil, List.append_nil, List.flatten_append,
      List.flatten_cons, List.flatten_nil]
    congr 1
    · rw [← ih]
      apply List.flatMap_congr
      intro w hw
      simp only [List.mem_range] at hw
      simp [List.getD_eq_getElem?_getD, List.getElem?_append_left hw]
    · simp [List.getD_eq_getElem?_getD]

/-! ### from file pairs to the complete data -/

theorem flatMap_swap_perm {α β γ : Type} (A : List α) (B : List β) (f : α → β → List γ) :
    (A.flatMap fun a => B.flatMap fun b => f a b).Perm (B.flatMap fun b => A.flatMap fun a => f a b) := by
  rw [← Multiset.coe_eq_coe]
  simp only [← Multiset.coe_bind]
  exact Multiset.bind_bind _ _

/-- a sum over the (duplicate-free) match list equals the sum over all file pairs when the
unmatched pairs contribute nothing -/
theorem sum_over_matches (flat : List (Nat × Nat)) (n1 n2 : Nat) (PP : Nat → Nat → List Pair)
    (hnd : flat.Nodup) (hsub : ∀ m ∈ flat, m.1 < n1 ∧ m.2 < n2)
    (hzero : ∀ i < n1, ∀ j < n2, (i, j) ∉ flat → PP i j = []) :
    (flat.flatMap (fun m => PP m.1 m.2)).Perm
      ((List.range n1).flatMap (fun i => (List.range n2).flatMap (fun j => PP i j))) := by
  rw [List.perm_iff_count]
  intro x
  simp only [List.count_flatMap, Function.comp_def]
  -- left: sum over flat as a Finset
  have hL : (flat.map (fun m => List.count x (PP m.1 m.2))).sum =
      ∑ m ∈ flat.toFinset, List.count x (PP m.1 m.2) := (List.sum_toFinset _ hnd).symm
  have hR1 : ∀ i, ((List.range n2).map (fun j => List.count x (PP i j))).sum =
      ∑ j ∈ Finset.range n2, List.count x (PP i j) := by
    intro i
    rw [← List.sum_toFinset _ (List.nodup_range), List.toFinset_range]
  have hR : ((List.range n1).map (fun i => ((List.range n2).map (fun j => List.count x (PP i j))).sum)).sum =
      ∑ i ∈ Finset.range n1, ∑ j ∈ Finset.range n2, List.count x (PP i j) := by
    rw [← List.sum_toFinset _ (List.nodup_range), List.toFinset_range]
    exact Finset.sum_congr rfl (fun i _ => hR1 i)
  rw [hL, hR, ← Finset.sum_product' (Finset.range n1) (Finset.range n2) (fun i j => List.count x (PP i j))]
  apply Finset.sum_subset
  · intro m hm
    have := hsub m (List.mem_toFinset.mp hm)
    simp [Finset.mem_product, this.1, this.2]
  · intro m hm hnot
    simp only [Finset.mem_product, Finset.mem_range] at hm
    have : PP m.1 m.2 = [] := hzero m.1 hm.1 m.2 hm.2 (fun h => hnot (List.mem_toFinset.mpr h))
    simp [this]

theorem pointPairs_flatMap_left (near : Nat → Nat → Bool) (mi : Int) (start end_ : Option Int) (L : List Nat)
    (pts : Nat → List Pt) (S : List Pt) :
    pointPairs near mi start end_ (L.flatMap pts) S =
      L.flatMap (fun i => pointPairs near mi start end_ (pts i) S) := by
  unfold pointPairs
  rw [List.flatMap_assoc]

theorem pointPairs_flatMap_right (near : Nat → Nat → Bool) (mi : Int) (start end_ : Option Int) (A : List Pt)
    (L : List Nat) (pts : Nat → List Pt) :
    (pointPairs near mi start end_ A (L.flatMap pts)).Perm
      (L.flatMap (fun j => pointPairs near mi start end_ A (pts j))) := by
  unfold pointPairs
  simp only [List.flatMap_assoc]
  exact flatMap_swap_perm A L _

theorem pointPairs_eq_nil (near : Nat → Nat → Bool) (mi : Int) (start end_ : Option Int) (P S : List Pt)
    (h : ∀ a ∈ P, ∀ c ∈ S, collocated near mi start end_ a c = false) :
    pointPairs near mi start end_ P S = [] := by
  unfold pointPairs
  rw [List.flatMap_eq_nil_iff]
  intro a ha
  rw [List.flatMap_eq_nil_iff]
  intro c hc
  simp [h a ha c hc]

theorem itemsPairs_eq (is : List Item) :
    itemsPairs is = ((bundlesOf is).flatten.map (·.r)).flatMap (·.pairs) := by
  induction is with
  | nil => rfl
  | cons i is ih =>
    unfold itemsPairs at ih ⊢
    cases i with
    | progress => simpa [itemPairs] using ih
    | crashed => simpa [itemPairs] using ih
    | result c =>
      simp only [List.flatMap_cons, itemPairs, bundlesOf_result, List.flatten_cons, List.map_append,
        List.flatMap_append, ih]
      congr 1
      rw [List.flatMap_map]

/-- the readable part of a fileset: unreadable files contribute no data -/
def readable (bad : Nat → Bool) (pts : Nat → List Pt) : Nat → List Pt :=
  fun i => if bad i then [] else pts i

theorem pointPairs_nil_left (near : Nat → Nat → Bool) (mi : Int) (start end_ : Option Int) (S : List Pt) :
    pointPairs near mi start end_ [] S = [] := rfl

theorem pointPairs_nil_right (near : Nat → Nat → Bool) (mi : Int) (start end_ : Option Int) (P : List Pt) :
    pointPairs near mi start end_ P [] = [] := by
  unfold pointPairs; simp

theorem outcome_skip_nocrash (bad1 bad2 : Nat → Bool) (coll : Nat → Nat → Option Result) (p s : Nat) :
    outcome true bad1 bad2 coll p s ≠ .crash := by
  unfold outcome; split <;> simp

/-- general form: `skip_file_errors=True`, any set of unreadable files -/
theorem total_perm_skip (near : Nat → Nat → Bool) (mi : Int) (start end_ : Option Int)
    (n1 n2 : Nat) (cov1 cov2 : Nat → Int × Int) (pts1 pts2 : Nat → List Pt)
    (hcov1 : ∀ i < n1, ∀ a ∈ pts1 i, (cov1 i).1 ≤ a.t ∧ a.t ≤ (cov1 i).2 ∧ dtMin ≤ a.t ∧ a.t < dtMax)
    (hcov2 : ∀ j < n2, ∀ c ∈ pts2 j, (cov2 j).1 ≤ c.t ∧ c.t ≤ (cov2 j).2 ∧ dtMin ≤ c.t ∧ c.t < dtMax)
    (bad1 bad2 : Nat → Bool)
    (coll : Nat → Nat → Option Result)
    (hcoll : ∀ i j, bad1 i = false → bad2 j = false →
      (resultPairs (coll i j)).Perm (pointPairs near mi start end_ (pts1 i) (pts2 j)))
    (b : Bundle) (processes : Option Nat) (hp : ∀ k, processes = some k → 1 ≤ k)
    (ms : List (Nat × List Nat))
    (hm : matchFiles ((List.range n1).map cov1) ((List.range n2).map cov2) start end_ mi = .ok ms)
    (ws : List (List Item))
    (hw : pipeline b (outcome true bad1 bad2 coll) ms processes = .ok ws)
    (evs : List Event) (s : PState)
    (hr : run (initState ws.length (fun w => ws.getD w [])) evs = some s) (hd : s.pc = .done) :
    (itemsPairs (s.yielded.map (·.2))).Perm
      (pointPairs near mi start end_ ((List.range n1).flatMap (readable bad1 pts1))
        ((List.range n2).flatMap (readable bad2 pts2))) := by
  set oc := outcome true bad1 bad2 coll with hoc
  set flat := flattenMatches ms with hflat
  -- 1. parent: yielded ~ concatenation of the workers' items
  have hn : ∀ w, ws.length ≤ w → ws.getD w [] = [] := by
    intro w hw; simp [List.getD_eq_getElem?_getD, List.getElem?_eq_none hw]
  have hinv := inv_run evs (inv_init ws.length (fun w => ws.getD w []) hn) hr
  have hg := inv_done hinv hd
  have hkeys : ∀ x ∈ s.yielded, x.1 < ws.length := by
    intro x hx
    by_contra hlt
    have h0 := hn x.1 (Nat.le_of_not_lt hlt)
    have hmem : x.2 ∈ gotFrom s x.1 := by
      simp only [gotFrom, List.mem_map, List.mem_filter]
      exact ⟨x, ⟨hx, by simp⟩, rfl⟩
    rw [hg x.1, h0] at hmem
    cases hmem
  have hy : (s.yielded.map (·.2)).Perm ws.flatten := by
    refine (perm_by_key s.yielded ws.length hkeys).trans ?_
    have e : ∀ w, (s.yielded.filter (fun x => x.1 == w)).map (·.2) = ws.getD w [] := hg
    simp only [e]
    rw [flatMap_getD_range]
  have h1 : (itemsPairs (s.yielded.map (·.2))).Perm (itemsPairs ws.flatten) :=
    List.Perm.flatMap_right _ hy
  -- 2. workers: the bundles of all workers hold the non-None results of the readable matches
  have hnc : ∀ m ∈ flattenMatches ms, oc m.1 m.2 ≠ .crash :=
    fun m _ => outcome_skip_nocrash bad1 bad2 coll m.1 m.2
  obtain ⟨ws', hw', hdel, _⟩ := pipeline_delivers b oc ms processes hp hnc
  rw [hw] at hw'
  cases hw'
  have h2 : itemsPairs ws.flatten = flat.flatMap (fun m =>
      if (bad1 m.1 || bad2 m.2) then [] else resultPairs (coll m.1 m.2)) := by
    have : itemsPairs ws.flatten = ws.flatMap itemsPairs := by
      unfold itemsPairs
      clear * -
      induction ws with
      | nil => rfl
      | cons w ws ih => simp [List.flatMap_append, ih]
    rw [this]
    rw [show ws.flatMap itemsPairs = ws.flatMap (fun is =>
        ((bundlesOf is).flatten.map (·.r)).flatMap (·.pairs)) from
      List.flatMap_congr (fun is _ => itemsPairs_eq is)]
    rw [← List.flatMap_assoc, hdel, produced_mkJobs_skip, ← hflat]
    clear * -
    induction flat with
    | nil => rfl
    | cons m flat ih =>
      rw [List.flatMap_cons, ← ih, List.filter_cons]
      cases hb : (bad1 m.1 || bad2 m.2)
      · cases hcoll : coll m.1 m.2 <;> simp [resultPairs, hb, hcoll]
      · simp [hb]
  -- 3. C04 contract per readable file pair; unreadable files hold no readable data
  have h3 : (flat.flatMap (fun m => if (bad1 m.1 || bad2 m.2) then [] else resultPairs (coll m.1 m.2))).Perm
      (flat.flatMap (fun m => pointPairs near mi start end_ (readable bad1 pts1 m.1) (readable bad2 pts2 m.2))) := by
    apply List.Perm.flatMap_left
    intro m _
    cases hb1 : bad1 m.1
    · cases hb2 : bad2 m.2
      · simpa [readable, hb1, hb2] using hcoll m.1 m.2 hb1 hb2
      · simp [readable, hb1, hb2, pointPairs_nil_right]
    · simp [readable, hb1, pointPairs_nil_left]
  -- 4. matches → all file pairs
  have hnd := nodup_flatten_matchFiles hm
  have hmem := mem_flatten_matchFiles hm
  have hsub : ∀ m ∈ flat, m.1 < n1 ∧ m.2 < n2 := by
    intro m hmm
    have := (hmem m.1 m.2).mp hmm
    obtain ⟨a1, _⟩ := mem_findIdx.mp this.1
    obtain ⟨a2, _⟩ := mem_findIdx.mp this.2.1
    exact ⟨by simpa using a1, by simpa using a2⟩
  have hzero : ∀ i < n1, ∀ j < n2, (i, j) ∉ flat →
      pointPairs near mi start end_ (readable bad1 pts1 i) (readable bad2 pts2 j) = [] := by
    intro i hi j hj hnot
    apply pointPairs_eq_nil
    intro a ha c hc
    have ha' : a ∈ pts1 i := by
      unfold readable at ha; split at ha
      · cases ha
      · exact ha
    have hc' : c ∈ pts2 j := by
      unfold readable at hc; split at hc
      · cases hc
      · exact hc
    by_contra hcol
    simp only [Bool.not_eq_false] at hcol
    simp only [collocated, Bool.and_eq_true, decide_eq_true_eq] at hcol
    obtain ⟨⟨⟨_, hdt⟩, hpa⟩, hpc⟩ := hcol
    have hdt' := abs_lt.mp hdt
    have hmi : 0 < mi := lt_of_le_of_lt (abs_nonneg _) hdt
    have ca := hcov1 i hi a ha'
    have cc := hcov2 j hj c hc'
    apply hnot
    rw [hflat, hmem]
    have l1 : i < ((List.range n1).map cov1).length := by simpa using hi
    have l2 : j < ((List.range n2).map cov2).length := by simpa using hj
    have g1 : ((List.range n1).map cov1)[i]'l1 = cov1 i := by simp
    have g2 : ((List.range n2).map cov2)[j]'l2 = cov2 j := by simp
    refine ⟨mem_findIdx_widened l1 (by rw [g1]; exact ⟨ca.1, ca.2.1⟩) hmi ca.2.2 hpa,
            mem_findIdx_widened l2 (by rw [g2]; exact ⟨cc.1, cc.2.1⟩) hmi cc.2.2 hpc, ?_⟩
    have e1 : ((List.range n1).map cov1)[i]? = some (cov1 i) := by simp [hi]
    have e2 : ((List.range n2).map cov2)[j]? = some (cov2 j) := by simp [hj]
    simp only [partner, e1, e2, Bool.and_eq_true, decide_eq_true_eq]
    constructor <;> omega
  have h4 := sum_over_matches flat n1 n2
    (fun i j => pointPairs near mi start end_ (readable bad1 pts1 i) (readable bad2 pts2 j)) hnd hsub hzero
  -- 5. all file pairs → the complete (readable) data
  have h5 : ((List.range n1).flatMap (fun i => (List.range n2).flatMap (fun j =>
        pointPairs near mi start end_ (readable bad1 pts1 i) (readable bad2 pts2 j)))).Perm
      (pointPairs near mi start end_ ((List.range n1).flatMap (readable bad1 pts1))
        ((List.range n2).flatMap (readable bad2 pts2))) := by
    rw [pointPairs_flatMap_left]
    exact List.Perm.flatMap_left _ (fun i _ => (pointPairs_flatMap_right near mi start end_ _ _ _).symm)
  exact h1.trans (h2 ▸ (h3.trans (h4.trans h5)))

theorem outcome_nobad (skip : Bool) (coll : Nat → Nat → Option Result) :
    outcome skip (fun _ => false) (fun _ => false) coll =
      outcome true (fun _ => false) (fun _ => false) coll := by
  funext p s; simp [outcome]

theorem readable_nobad (pts : Nat → List Pt) : readable (fun _ => false) pts = pts := by
  funext i; simp [readable]

/-! ### `match` lists the primaries in order -/

theorem mem_flattenMatches_iff (l : List (Nat × List Nat)) (x : Nat × Nat) :
    x ∈ flattenMatches l ↔ ∃ m ∈ l, m.1 = x.1 ∧ x.2 ∈ m.2 := by
  unfold flattenMatches
  simp only [List.mem_flatMap, List.mem_map]
  constructor
  · rintro ⟨m, hm, s, hs, rfl⟩; exact ⟨m, hm, rfl, hs⟩
  · rintro ⟨m, hm, h1, h2⟩; exact ⟨m, hm, x.2, h2, by rw [h1]⟩

theorem sorted_flattenMatches (l : List (Nat × List Nat)) (h : (l.map (·.1)).Pairwise (· < ·)) :
    ((flattenMatches l).map (·.1)).Pairwise (· ≤ ·) := by
  induction l with
  | nil => simp [flattenMatches]
  | cons m l ih =>
    simp only [List.map_cons, List.pairwise_cons] at h
    rw [show flattenMatches (m :: l) = flattenMatches [m] ++ flattenMatches l from
      flattenMatches_append [m] l, List.map_append, List.pairwise_append]
    refine ⟨?_, ih h.2, ?_⟩
    · rw [List.pairwise_map]
      apply List.pairwise_of_forall_mem_list
      intro a ha b hb
      obtain ⟨m1, hm1, e1, _⟩ := (mem_flattenMatches_iff [m] a).mp ha
      obtain ⟨m2, hm2, e2, _⟩ := (mem_flattenMatches_iff [m] b).mp hb
      simp only [List.mem_singleton] at hm1 hm2
      subst hm1 hm2
      omega
    · intro a ha b hb
      simp only [List.mem_map] at ha hb
      obtain ⟨x, hx, rfl⟩ := ha
      obtain ⟨y, hy, rfl⟩ := hb
      obtain ⟨m1, hm1, e1, _⟩ := (mem_flattenMatches_iff [m] x).mp hx
      obtain ⟨m2, hm2, e2, _⟩ := (mem_flattenMatches_iff l y).mp hy
      simp only [List.mem_singleton] at hm1
      subst hm1
      have := h.1 m2.1 (List.mem_map.mpr ⟨m2, hm2, rfl⟩)
      omega

theorem sorted_matchFiles {files1 files2 : List (Int × Int)} {start end_ : Option Int} {mi : Int}
    {ms : List (Nat × List Nat)} (hm : matchFiles files1 files2 start end_ mi = .ok ms) :
    (ms.map (·.1)).Pairwise (· < ·) := by
  unfold matchFiles at hm
  by_cases h1 : findIdx (wlo start mi) (whi end_ mi) files1 = []
  · rw [matchPeriod_error (Or.inl h1)] at hm; cases hm
  by_cases h2 : findIdx (wlo start mi) (whi end_ mi) files2 = []
  · rw [matchPeriod_error (Or.inr h2)] at hm; cases hm
  rw [matchPeriod_ok h1 h2] at hm
  cases hm
  refine List.Pairwise.sublist ((List.filter_sublist).map _) ?_
  rw [List.map_map]
  have : ((fun m : Nat × List Nat => m.1) ∘ fun i =>
      (i, (findIdx (wlo start mi) (whi end_ mi) files2).filter (partner files1 files2 mi i))) = id := by
    funext i; rfl
  rw [this, List.map_id]
  unfold findIdx
  exact (List.pairwise_lt_range).filter _

theorem sublist_of_mem_splitSizes {α : Type} (ss : List Nat) (l : List α) {c : List α}
    (hc : c ∈ splitSizes ss l) : c.Sublist l := by
  induction ss generalizing l with
  | nil => simp [splitSizes] at hc
  | cons s ss ih =>
    simp only [splitSizes, List.mem_cons] at hc
    rcases hc with rfl | hc
    · exact List.take_sublist _ _
    · exact (ih _ hc).trans (List.drop_sublist _ _)

theorem sorted_chunk {files1 files2 : List (Int × Int)} {start end_ : Option Int} {mi : Int}
    {ms : List (Nat × List Nat)} (hm : matchFiles files1 files2 start end_ mi = .ok ms)
    {k : Nat} {cs : List (List (Nat × List Nat))} (hk : chunks k ms = some cs)
    {c : List (Nat × List Nat)} (hc : c ∈ cs) :
    ((flattenMatches c).map (·.1)).Pairwise (· ≤ ·) := by
  unfold chunks at hk
  split at hk
  · cases hk
  · cases hk
    have hsub := sublist_of_mem_splitSizes _ _ hc
    exact sorted_flattenMatches c ((sorted_matchFiles hm).sublist (hsub.map _))

end CFiles
