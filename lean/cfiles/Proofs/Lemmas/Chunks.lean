import Model.CollocFiles
