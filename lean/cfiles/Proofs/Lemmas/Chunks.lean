import Model.CollocFiles
import Mathlib.Tactic

/-! Helper lemmas about `chunkSizes` / `splitSizes` (numpy `array_split`). -/

namespace CFiles

theorem sum_chunkSizes (n k : Nat) (hk : 0 < k) : (chunkSizes n k).sum = n := by
  unfold chunkSizes
  rw [List.sum_append, List.sum_replicate, List.sum_replicate]
  simp only [smul_eq_mul]
  have h1 : n % k < k := Nat.mod_lt n hk
  have h2 := Nat.div_add_mod n k
  have h3 : (k - n % k) * (n / k) = k * (n / k) - n % k * (n / k) := Nat.sub_mul _ _ _
  have h4 : n % k * (n / k) ≤ k * (n / k) := Nat.mul_le_mul_right _ (Nat.le_of_lt h1)
  rw [h3, Nat.mul_add, Nat.mul_one]
  omega

theorem length_chunkSizes (n k : Nat) (hk : 0 < k) : (chunkSizes n k).length = k := by
  unfold chunkSizes
  simp only [List.length_append, List.length_replicate]
  have := Nat.mod_lt n hk; omega

theorem mem_chunkSizes {n k s : Nat} (h : s ∈ chunkSizes n k) : s = n / k ∨ s = n / k + 1 := by
  unfold chunkSizes at h
  rw [List.mem_append] at h
  rcases h with h | h
  · exact Or.inr (List.eq_of_mem_replicate h)
  · exact Or.inl (List.eq_of_mem_replicate h)

theorem length_splitSizes {α : Type} (ss : List Nat) (l : List α) :
    (splitSizes ss l).length = ss.length := by
  induction ss generalizing l with
  | nil => rfl
  | cons s ss ih => simp [splitSizes, ih]

theorem flatten_splitSizes {α : Type} (ss : List Nat) (l : List α) (h : l.length ≤ ss.sum) :
    (splitSizes ss l).flatten = l := by
  induction ss generalizing l with
  | nil =>
    simp only [List.sum_nil, Nat.le_zero, List.length_eq_zero_iff] at h
    subst h; rfl
  | cons s ss ih =>
    simp only [splitSizes, List.flatten_cons]
    rw [ih (l.drop s) (by simp only [List.length_drop, List.sum_cons] at *; omega)]
    exact List.take_append_drop s l

/-- lengths of the pieces are the requested sizes when the sizes sum to the length -/
theorem map_length_splitSizes {α : Type} (ss : List Nat) (l : List α) (h : ss.sum = l.length) :
    (splitSizes ss l).map List.length = ss := by
  induction ss generalizing l with
  | nil => rfl
  | cons s ss ih =>
    simp only [splitSizes, List.map_cons, List.length_take]
    simp only [List.sum_cons] at h
    rw [ih (l.drop s) (by simp only [List.length_drop]; omega)]
    congr 1
    omega

end CFiles
