import Model.CollocFiles
import Mathlib.Tactic

/-! Invariant of the parent/worker queue system (`step`), preserved by every event. -/

namespace CFiles

/-- the objects of worker `w` that are in the pipe, in order -/
def pipeOf (s : PState) (w : Nat) : List Item :=
  (s.pipe.filter (fun x => x.1 == w)).map (·.2)

structure Inv (items : Nat → List Item) (s : PState) : Prop where
  /-- nothing is lost, duplicated or reordered per producer -/
  conserve : ∀ w, gotFrom s w ++ pipeOf s w ++ (s.ws w).buf ++ (s.ws w).todo = items w
  /-- a process exits only after its last put was flushed to the pipe -/
  dead : ∀ w, (s.ws w).alive = false → (s.ws w).todo = [] ∧ (s.ws w).buf = []
  /-- `running` contains every live process -/
  run : ∀ w, w ∉ s.running → (s.ws w).alive = false
  pcLoop : s.pc = .loopTest → s.running = [] → s.pipe = []
  pcGet : s.pc = .get → s.pipe ≠ []
  pcDone : s.pc = .done → s.running = [] ∧ s.pipe = []

theorem inv_init (n : Nat) (items : Nat → List Item) (h : ∀ w, n ≤ w → items w = []) :
    Inv items (initState n items) := by
  refine ⟨?_, ?_, ?_, ?_, ?_, ?_⟩
  · intro w
    by_cases hw : w < n
    · simp [initState, gotFrom, pipeOf, hw]
    · simp [initState, gotFrom, pipeOf, hw, h w (Nat.le_of_not_lt hw)]
  · intro w
    by_cases hw : w < n <;> simp [initState, hw]
  · intro w hw
    simp only [initState, List.mem_range] at hw
    simp [initState, hw]
  · intro _ _; rfl
  · intro h; simp [initState] at h
  · intro h; simp [initState] at h

private theorem filter_single (w w' : Nat) (x : Item) :
    (([(w, x)] : List (Nat × Item)).filter (fun y => y.1 == w')).map (·.2) = if w = w' then [x] else [] := by
  by_cases h : w = w' <;> simp [h]

theorem inv_step {items : Nat → List Item} {s s' : PState} {e : Event}
    (hi : Inv items s) (hs : step s e = some s') : Inv items s' := by
  cases e with
  | put w =>
    simp only [step] at hs
    cases htodo : (s.ws w).todo with
    | nil => simp [htodo] at hs
    | cons x t =>
      simp only [htodo] at hs
      split at hs
      · rename_i hc
        simp only [Bool.and_eq_true, decide_eq_true_eq] at hc
        cases hs
        refine ⟨?_, ?_, ?_, hi.pcLoop, hi.pcGet, hi.pcDone⟩
        · intro w'
          have := hi.conserve w'
          by_cases hw : w' = w
          · subst hw
            simp only [gotFrom, pipeOf, setW, if_true] at this ⊢
            rw [← this, htodo]; simp
          · simpa [gotFrom, pipeOf, setW, hw] using this
        · intro w' hd
          by_cases hw : w' = w
          · subst hw
            simp only [setW, if_true] at hd
            rw [hc.1] at hd; cases hd
          · simp only [setW, hw, if_false] at hd ⊢
            exact hi.dead w' hd
        · intro w' hr
          by_cases hw : w' = w
          · subst hw
            have := hi.run w' hr
            rw [hc.1] at this; cases this
          · simp only [setW, hw, if_false]
            exact hi.run w' hr
      · cases hs
  | feed w =>
    simp only [step] at hs
    cases hbuf : (s.ws w).buf with
    | nil => simp [hbuf] at hs
    | cons x b =>
      simp only [hbuf] at hs
      cases hs
      have halive : (s.ws w).alive = true := by
        by_contra hne
        have := (hi.dead w (by simpa using hne)).2
        rw [hbuf] at this; cases this
      have hrun : s.running ≠ [] := by
        intro h0
        have := hi.run w (by rw [h0]; simp)
        rw [halive] at this; cases this
      refine ⟨?_, ?_, ?_, ?_, ?_, ?_⟩
      · intro w'
        have := hi.conserve w'
        by_cases hw : w' = w
        · subst hw
          simp only [gotFrom, pipeOf, setW, if_true, List.filter_append, List.map_append] at this ⊢
          rw [← this, hbuf]; simp
        · have hw2 : ¬ w = w' := fun h => hw h.symm
          simp only [gotFrom, pipeOf, setW, hw, if_false, List.filter_append, List.map_append] at this ⊢
          rw [← this]
          simp [hw2]
      · intro w' hd
        by_cases hw : w' = w
        · subst hw
          simp only [setW, if_true] at hd
          rw [halive] at hd; cases hd
        · simp only [setW, hw, if_false] at hd ⊢
          exact hi.dead w' hd
      · intro w' hr
        by_cases hw : w' = w
        · subst hw
          simp only [setW, if_true]
          exact hi.run w' hr
        · simp only [setW, hw, if_false]
          exact hi.run w' hr
      · intro _ h0; exact absurd h0 hrun
      · intro _; simp
      · intro hd; exact absurd (hi.pcDone hd).1 hrun
  | die w =>
    simp only [step] at hs
    split at hs
    · rename_i hc
      simp only [Bool.and_eq_true, List.isEmpty_iff] at hc
      cases hs
      refine ⟨?_, ?_, ?_, hi.pcLoop, hi.pcGet, hi.pcDone⟩
      · intro w'
        have := hi.conserve w'
        by_cases hw : w' = w
        · subst hw; simpa [gotFrom, pipeOf, setW] using this
        · simpa [gotFrom, pipeOf, setW, hw] using this
      · intro w' hd
        by_cases hw : w' = w
        · subst hw
          simp only [setW, if_true]
          exact ⟨hc.1.2, hc.2⟩
        · simp only [setW, hw, if_false] at hd ⊢
          exact hi.dead w' hd
      · intro w' hr
        by_cases hw : w' = w
        · subst hw; simp [setW]
        · simp only [setW, hw, if_false]
          exact hi.run w' hr
    · cases hs
  | parent stale =>
    simp only [step] at hs
    cases hpc : s.pc with
    | loopTest =>
      simp only [hpc] at hs
      cases hs
      refine ⟨hi.conserve, hi.dead, hi.run, ?_, ?_, ?_⟩
      · intro h; simp only at h; split at h <;> cases h
      · intro h; simp only at h; split at h <;> cases h
      · intro h
        simp only at h
        split at h
        · rename_i he
          have hr : s.running = [] := List.isEmpty_iff.mp he
          exact ⟨hr, hi.pcLoop hpc hr⟩
        · cases h
    | filter =>
      simp only [hpc] at hs
      cases hs
      refine ⟨hi.conserve, hi.dead, ?_, ?_, ?_, ?_⟩
      · intro w hw
        simp only [List.mem_filter, not_and, Bool.or_eq_true, not_or] at hw
        by_cases hr : w ∈ s.running
        · have := (hw hr).1
          simpa using this
        · exact hi.run w hr
      · intro h; cases h
      · intro h; cases h
      · intro h; cases h
    | emptyTest =>
      simp only [hpc] at hs
      cases hs
      refine ⟨hi.conserve, hi.dead, hi.run, ?_, ?_, ?_⟩
      · intro h _
        simp only at h
        split at h
        · rename_i he; exact List.isEmpty_iff.mp he
        · cases h
      · intro h
        simp only at h
        split at h
        · cases h
        · rename_i he
          intro h0; exact he (by rw [h0]; rfl)
      · intro h; simp only at h; split at h <;> cases h
    | get =>
      simp only [hpc] at hs
      cases hpipe : s.pipe with
      | nil => simp [hpipe] at hs
      | cons x p =>
        simp only [hpipe] at hs
        cases hs
        refine ⟨?_, hi.dead, hi.run, ?_, ?_, ?_⟩
        · intro w
          have := hi.conserve w
          simp only [gotFrom, pipeOf, hpipe, List.filter_cons, List.filter_append, List.map_append] at this ⊢
          rw [← this]
          by_cases hx : x.1 = w
          · simp [hx]
          · simp [hx]
        · intro h; cases h
        · intro h; cases h
        · intro h; cases h
    | done => simp [hpc] at hs

theorem inv_run {items : Nat → List Item} {s s' : PState} (evs : List Event)
    (hi : Inv items s) (hr : run s evs = some s') : Inv items s' := by
  induction evs generalizing s with
  | nil => simp only [run, Option.some.injEq] at hr; subst hr; exact hi
  | cons e es ih =>
    simp only [run] at hr
    cases hst : step s e with
    | none => simp [hst] at hr
    | some s1 =>
      simp only [hst] at hr
      exact ih (inv_step hi hst) hr

/-- when the parent has left its loop it has received everything, per worker in order -/
theorem inv_done {items : Nat → List Item} {s : PState} (hi : Inv items s) (hd : s.pc = .done) :
    ∀ w, gotFrom s w = items w := by
  intro w
  obtain ⟨hr, hp⟩ := hi.pcDone hd
  have ha := hi.run w (by rw [hr]; simp)
  obtain ⟨ht, hb⟩ := hi.dead w ha
  have := hi.conserve w
  simpa [pipeOf, hp, ht, hb] using this

/-- the parent is never stuck before `done` (its `get` finds an object) -/
theorem inv_parent_enabled {items : Nat → List Item} {s : PState} (hi : Inv items s)
    (hd : s.pc ≠ .done) : ∃ s', step s (.parent []) = some s' := by
  simp only [step]
  cases hpc : s.pc with
  | loopTest => exact ⟨_, rfl⟩
  | filter => exact ⟨_, rfl⟩
  | emptyTest => exact ⟨_, rfl⟩
  | get =>
    cases hp : s.pipe with
    | nil => exact absurd hp (hi.pcGet hpc)
    | cons x p => exact ⟨_, rfl⟩
  | done => exact absurd hpc hd

end CFiles
