import Model.CollocFiles
import Mathlib.Tactic

/-! Helper lemmas about `findIdx` / `matchFiles` / `flattenMatches`. -/

namespace CFiles

theorem mem_findIdx {a b : Int} {files : List (Int × Int)} {i : Nat} :
    i ∈ findIdx a b files ↔ ∃ h : i < files.length, files[i].1 ≤ b - 1 ∧ a ≤ files[i].2 := by
  unfold findIdx
  simp only [List.mem_filter, List.mem_range]
  constructor
  · rintro ⟨hlt, h⟩
    refine ⟨hlt, ?_⟩
    simpa [List.getElem?_eq_getElem hlt] using h
  · rintro ⟨hlt, h⟩
    exact ⟨hlt, by simpa [List.getElem?_eq_getElem hlt] using h⟩

theorem nodup_findIdx (a b : Int) (files : List (Int × Int)) : (findIdx a b files).Nodup :=
  List.nodup_range.filter _

/-- the partner predicate of `matchFiles` -/
def partner (files1 files2 : List (Int × Int)) (mi : Int) (i j : Nat) : Bool :=
  match files1[i]?, files2[j]? with
  | some p, some s => decide (s.1 - mi ≤ p.2) && decide (p.1 ≤ s.2 + mi)
  | _, _ => false

theorem matchPeriod_ok {files1 files2 : List (Int × Int)} {a b mi : Int}
    (h1 : findIdx a b files1 ≠ [])
    (h2 : findIdx a b files2 ≠ []) :
    matchPeriod files1 files2 a b mi = .ok
      (((findIdx a b files1).map (fun i =>
        (i, (findIdx a b files2).filter (partner files1 files2 mi i)))).filter
          (fun m => !m.2.isEmpty)) := by
  unfold matchPeriod
  have e1 : (findIdx a b files1).isEmpty = false := by
    cases hh : findIdx a b files1 with
    | nil => exact absurd hh h1
    | cons _ _ => rfl
  have e2 : (findIdx a b files2).isEmpty = false := by
    cases hh : findIdx a b files2 with
    | nil => exact absurd hh h2
    | cons _ _ => rfl
  simp only [e1, e2, Bool.or_self, Bool.false_eq_true, if_false]
  rfl

theorem matchPeriod_error {files1 files2 : List (Int × Int)} {a b mi : Int}
    (h : findIdx a b files1 = [] ∨ findIdx a b files2 = []) :
    matchPeriod files1 files2 a b mi = .error .noFiles := by
  unfold matchPeriod
  rcases h with h | h <;> simp [h]

/-- membership in the flattened match list -/
theorem mem_flatten_matchFiles {files1 files2 : List (Int × Int)} {a b mi : Int}
    {ms : List (Nat × List Nat)} (h : matchPeriod files1 files2 a b mi = .ok ms) (i j : Nat) :
    (i, j) ∈ flattenMatches ms ↔
      i ∈ findIdx a b files1 ∧ j ∈ findIdx a b files2 ∧
      partner files1 files2 mi i j = true := by
  by_cases h1 : findIdx a b files1 = []
  · rw [matchPeriod_error (Or.inl h1)] at h; cases h
  by_cases h2 : findIdx a b files2 = []
  · rw [matchPeriod_error (Or.inr h2)] at h; cases h
  rw [matchPeriod_ok h1 h2] at h
  cases h
  unfold flattenMatches
  simp only [List.mem_flatMap, List.mem_filter, List.mem_map, Prod.mk.injEq]
  constructor
  · rintro ⟨m, ⟨⟨i', hi', rfl⟩, _⟩, s, hs, rfl, rfl⟩
    simp only [List.mem_filter] at hs
    exact ⟨hi', hs.1, hs.2⟩
  · rintro ⟨hi, hj, hp⟩
    refine ⟨(i, _), ⟨⟨i, hi, rfl⟩, ?_⟩, j, ?_, rfl, rfl⟩
    · simp only [Bool.not_eq_true', List.isEmpty_eq_false_iff_exists_mem]
      exact ⟨j, List.mem_filter.mpr ⟨hj, hp⟩⟩
    · exact List.mem_filter.mpr ⟨hj, hp⟩

theorem nodup_flattenMatches_aux (l : List (Nat × List Nat)) (h1 : (l.map (·.1)).Nodup)
    (h2 : ∀ m ∈ l, m.2.Nodup) : (flattenMatches l).Nodup := by
  induction l with
  | nil => simp [flattenMatches]
  | cons m l ih =>
    simp only [List.map_cons, List.nodup_cons] at h1
    have ih' := ih h1.2 (fun x hx => h2 x (List.mem_cons_of_mem _ hx))
    unfold flattenMatches at ih' ⊢
    simp only [List.flatMap_cons]
    rw [List.nodup_append]
    refine ⟨?_, ih', ?_⟩
    · exact (h2 m List.mem_cons_self).map (fun a b hab => by simpa using hab)
    · intro x hx y hy hxy
      subst hxy
      simp only [List.mem_map] at hx
      obtain ⟨s, _, rfl⟩ := hx
      simp only [List.mem_flatMap, List.mem_map] at hy
      obtain ⟨m', hm', s', _, heq⟩ := hy
      have : m'.1 = m.1 := by simpa using congrArg Prod.fst heq
      exact h1.1 (List.mem_map.mpr ⟨m', hm', this⟩)

/-- every file pair occurs at most once among the flattened matches -/
theorem nodup_flatten_matchFiles {files1 files2 : List (Int × Int)} {a b mi : Int}
    {ms : List (Nat × List Nat)} (h : matchPeriod files1 files2 a b mi = .ok ms) :
    (flattenMatches ms).Nodup := by
  by_cases h1 : findIdx a b files1 = []
  · rw [matchPeriod_error (Or.inl h1)] at h; cases h
  by_cases h2 : findIdx a b files2 = []
  · rw [matchPeriod_error (Or.inr h2)] at h; cases h
  rw [matchPeriod_ok h1 h2] at h
  cases h
  apply nodup_flattenMatches_aux
  · refine List.Nodup.sublist ((List.filter_sublist).map _) ?_
    rw [List.map_map]
    have : ((fun m : Nat × List Nat => m.1) ∘ fun i =>
        (i, (findIdx a b files2).filter (partner files1 files2 mi i))) = id := by
      funext i; rfl
    rw [this, List.map_id]
    exact nodup_findIdx _ _ _
  · intro m hm
    simp only [List.mem_filter, List.mem_map] at hm
    obtain ⟨⟨i, _, rfl⟩, _⟩ := hm
    exact (nodup_findIdx _ _ _).filter _

/-- `t` lies in the (possibly open) period `[start, end]` -/
def inPeriod (start end_ : Option Int) (t : Int) : Bool :=
  (match start with
    | none => true
    | some s => decide (s ≤ t)) &&
  (match end_ with
    | none => true
    | some e => decide (t ≤ e))

theorem inPeriod_iff {start end_ : Option Int} {t : Int} :
    inPeriod start end_ t = true ↔ (∀ s, start = some s → s ≤ t) ∧ (∀ e, end_ = some e → t ≤ e) := by
  unfold inPeriod
  cases start <;> cases end_ <;> simp

theorem wlo_le {start : Option Int} {mi t : Int} (hmi : 0 ≤ mi) (ht : dtMin ≤ t)
    (h : ∀ s, start = some s → s ≤ t) : wlo start mi ≤ t := by
  unfold wlo
  cases start with
  | none => simp only; split <;> omega
  | some s => have := h s rfl; simp only; split <;> omega

theorem le_whi {end_ : Option Int} {mi t : Int} (hmi : 0 < mi) (ht : t < dtMax)
    (h : ∀ e, end_ = some e → t ≤ e) : t ≤ whi end_ mi - 1 := by
  unfold whi
  cases end_ with
  | none => simp only; split <;> omega
  | some e => have := h e rfl; simp only; split <;> omega

/-- a file holding a data point of the period is found in the widened, clipped period -/
theorem mem_findIdx_widened {files : List (Int × Int)} {start end_ : Option Int} {mi t : Int} {i : Nat}
    (hi : i < files.length) (hc : files[i].1 ≤ t ∧ t ≤ files[i].2) (hmi : 0 < mi)
    (hr : dtMin ≤ t ∧ t < dtMax) (hp : inPeriod start end_ t = true) :
    i ∈ findIdx (wlo start mi) (whi end_ mi) files := by
  obtain ⟨hs, he⟩ := inPeriod_iff.mp hp
  have h1 := wlo_le (le_of_lt hmi) hr.1 hs
  have h2 := le_whi hmi hr.2 he
  exact mem_findIdx.mpr ⟨hi, by omega, by omega⟩

end CFiles
