import Model.CollocFiles
import Mathlib.Tactic

/-! Helper lemmas about `findIdx` / `matchFiles` / `flattenMatches`. -/

namespace CFiles

theorem mem_findIdx {a b : Int} {files : List (Int × Int)} {i : Nat} :
    i ∈ findIdx a b files ↔ ∃ h : i < files.length, files[i].1 ≤ b - 1 ∧ a ≤ files[i].2 := by
  unfold findIdx
  simp only [List.mem_filter, List.mem_range]
  constructor
  · rintro ⟨hlt, h⟩
    refine ⟨hlt, ?_⟩
    simpa [List.getElem?_eq_getElem hlt] using h
  · rintro ⟨hlt, h⟩
    exact ⟨hlt, by simpa [List.getElem?_eq_getElem hlt] using h⟩

theorem nodup_findIdx (a b : Int) (files : List (Int × Int)) : (findIdx a b files).Nodup :=
  List.nodup_range.filter _

/-- the partner predicate of `matchFiles` -/
def partner (files1 files2 : List (Int × Int)) (mi : Int) (i j : Nat) : Bool :=
  match files1[i]?, files2[j]? with
  | some p, some s => decide (s.1 - mi ≤ p.2) && decide (p.1 ≤ s.2 + mi)
  | _, _ => false

theorem matchFiles_ok {files1 files2 : List (Int × Int)} {start end_ mi : Int}
    (h1 : findIdx (start - mi) (end_ + mi) files1 ≠ [])
    (h2 : findIdx (start - mi) (end_ + mi) files2 ≠ []) :
    matchFiles files1 files2 start end_ mi = .ok
      (((findIdx (start - mi) (end_ + mi) files1).map (fun i =>
        (i, (findIdx (start - mi) (end_ + mi) files2).filter (partner files1 files2 mi i)))).filter
          (fun m => !m.2.isEmpty)) := by
  unfold matchFiles
  have e1 : (findIdx (start - mi) (end_ + mi) files1).isEmpty = false := by
    cases hh : findIdx (start - mi) (end_ + mi) files1 with
    | nil => exact absurd hh h1
    | cons _ _ => rfl
  have e2 : (findIdx (start - mi) (end_ + mi) files2).isEmpty = false := by
    cases hh : findIdx (start - mi) (end_ + mi) files2 with
    | nil => exact absurd hh h2
    | cons _ _ => rfl
  simp only [e1, e2, Bool.or_self, Bool.false_eq_true, if_false]
  rfl

theorem matchFiles_error {files1 files2 : List (Int × Int)} {start end_ mi : Int}
    (h : findIdx (start - mi) (end_ + mi) files1 = [] ∨ findIdx (start - mi) (end_ + mi) files2 = []) :
    matchFiles files1 files2 start end_ mi = .error .noFiles := by
  unfold matchFiles
  rcases h with h | h <;> simp [h]

/-- membership in the flattened match list -/
theorem mem_flatten_matchFiles {files1 files2 : List (Int × Int)} {start end_ mi : Int}
    {ms : List (Nat × List Nat)} (h : matchFiles files1 files2 start end_ mi = .ok ms) (i j : Nat) :
    (i, j) ∈ flattenMatches ms ↔
      i ∈ findIdx (start - mi) (end_ + mi) files1 ∧ j ∈ findIdx (start - mi) (end_ + mi) files2 ∧
      partner files1 files2 mi i j = true := by
  by_cases h1 : findIdx (start - mi) (end_ + mi) files1 = []
  · rw [matchFiles_error (Or.inl h1)] at h; cases h
  by_cases h2 : findIdx (start - mi) (end_ + mi) files2 = []
  · rw [matchFiles_error (Or.inr h2)] at h; cases h
  rw [matchFiles_ok h1 h2] at h
  cases h
  unfold flattenMatches
  simp only [List.mem_flatMap, List.mem_filter, List.mem_map, Prod.mk.injEq]
  constructor
  · rintro ⟨m, ⟨⟨i', hi', rfl⟩, _⟩, s, hs, rfl, rfl⟩
    simp only [List.mem_filter] at hs
    exact ⟨hi', hs.1, hs.2⟩
  · rintro ⟨hi, hj, hp⟩
    refine ⟨(i, _), ⟨⟨i, hi, rfl⟩, ?_⟩, j, ?_, rfl, rfl⟩
    · simp only [Bool.not_eq_true', List.isEmpty_eq_false_iff_exists_mem]
      exact ⟨j, List.mem_filter.mpr ⟨hj, hp⟩⟩
    · exact List.mem_filter.mpr ⟨hj, hp⟩

theorem nodup_flattenMatches_aux (l : List (Nat × List Nat)) (h1 : (l.map (·.1)).Nodup)
    (h2 : ∀ m ∈ l, m.2.Nodup) : (flattenMatches l).Nodup := by
  induction l with
  | nil => simp [flattenMatches]
  | cons m l ih =>
    simp only [List.map_cons, List.nodup_cons] at h1
    have ih' := ih h1.2 (fun x hx => h2 x (List.mem_cons_of_mem _ hx))
    unfold flattenMatches at ih' ⊢
    simp only [List.flatMap_cons]
    rw [List.nodup_append]
    refine ⟨?_, ih', ?_⟩
    · exact (h2 m List.mem_cons_self).map (fun a b hab => by simpa using hab)
    · intro x hx y hy hxy
      subst hxy
      simp only [List.mem_map] at hx
      obtain ⟨s, _, rfl⟩ := hx
      simp only [List.mem_flatMap, List.mem_map] at hy
      obtain ⟨m', hm', s', _, heq⟩ := hy
      have : m'.1 = m.1 := by simpa using congrArg Prod.fst heq
      exact h1.1 (List.mem_map.mpr ⟨m', hm', this⟩)

/-- every file pair occurs at most once among the flattened matches -/
theorem nodup_flatten_matchFiles {files1 files2 : List (Int × Int)} {start end_ mi : Int}
    {ms : List (Nat × List Nat)} (h : matchFiles files1 files2 start end_ mi = .ok ms) :
    (flattenMatches ms).Nodup := by
  by_cases h1 : findIdx (start - mi) (end_ + mi) files1 = []
  · rw [matchFiles_error (Or.inl h1)] at h; cases h
  by_cases h2 : findIdx (start - mi) (end_ + mi) files2 = []
  · rw [matchFiles_error (Or.inr h2)] at h; cases h
  rw [matchFiles_ok h1 h2] at h
  cases h
  apply nodup_flattenMatches_aux
  · refine List.Nodup.sublist ((List.filter_sublist).map _) ?_
    rw [List.map_map]
    have : ((fun m : Nat × List Nat => m.1) ∘ fun i =>
        (i, (findIdx (start - mi) (end_ + mi) files2).filter (partner files1 files2 mi i))) = id := by
      funext i; rfl
    rw [this, List.map_id]
    exact nodup_findIdx _ _ _
  · intro m hm
    simp only [List.mem_filter, List.mem_map] at hm
    obtain ⟨⟨i, _, rfl⟩, _⟩ := hm
    exact (nodup_findIdx _ _ _).filter _

end CFiles
