import Model.CollocFiles
import Mathlib.Tactic

/-! Helper lemmas about the worker loop (`_process_caller`). -/

namespace CFiles

/-- number of items `_collocate_matches` yields (non-skipped matches) -/
def nYield : List Job → Nat
  | [] => 0
  | j :: js => (match j.out with | .res _ => 1 | _ => 0) + nYield js

theorem nYield_le_length (jobs : List Job) : nYield jobs ≤ jobs.length := by
  induction jobs with
  | nil => simp [nYield]
  | cons j js ih => cases h : j.out <;> simp [nYield, h] <;> omega

/-- the results inside the emitted bundles, flattened -/
def emitted (is : List Item) : List Result := ((bundlesOf is).flatten).map (·.r)

@[simp] theorem bundlesOf_progress (is : List Item) : bundlesOf (.progress :: is) = bundlesOf is := rfl
@[simp] theorem bundlesOf_crashed (is : List Item) : bundlesOf (.crashed :: is) = bundlesOf is := rfl
@[simp] theorem bundlesOf_result (c : List Cached) (is : List Item) :
    bundlesOf (.result c :: is) = c :: bundlesOf is := rfl
@[simp] theorem bundlesOf_nil : bundlesOf [] = [] := rfl

/-- bundle = None: every non-None result is put at once, on its own -/
theorem emitted_worker_none (lk : List Job) (tag : Option Tag) (jobs : List Job)
    (hc : ∀ j ∈ jobs, j.out ≠ .crash) (hl : nYield jobs ≤ lk.length) :
    emitted (worker .none lk [] tag jobs) = produced jobs := by
  induction jobs generalizing lk with
  | nil => simp [worker, emitted, produced]
  | cons j rest ih =>
    have hc' : ∀ j ∈ rest, j.out ≠ .crash := fun x hx => hc x (List.mem_cons_of_mem _ hx)
    have hj := hc j List.mem_cons_self
    unfold worker
    cases hout : j.out with
    | skipped =>
      simp only [nYield, hout] at hl
      simp only [produced, hout]
      exact ih lk hc' (by omega)
    | crash => exact absurd hout hj
    | res ro =>
      simp only [nYield, hout] at hl
      cases lk with
      | nil => simp at hl
      | cons m lk' =>
        simp only [List.length_cons] at hl
        cases ro with
        | none =>
          simp only [produced, hout]
          have := ih lk' hc' (by omega)
          simpa [emitted] using this
        | some r =>
          simp only [produced, hout]
          have := ih lk' hc' (by omega)
          simp only [emitted, bundlesOf_result, List.flatten_cons, List.map_append, List.map_cons,
            List.singleton_append] at this ⊢
          rw [this]

/-- bundle = primary / daily: the bundles, concatenated, are the cached results followed by
all later non-None results (final flush included) -/
theorem emitted_worker_bundle (b : Bundle) (hb : b ≠ .none) (lk : List Job) (cached : List Cached)
    (tag : Option Tag) (jobs : List Job)
    (hc : ∀ j ∈ jobs, j.out ≠ .crash) (hl : nYield jobs ≤ lk.length) :
    emitted (worker b lk cached tag jobs) = cached.map (·.r) ++ produced jobs := by
  induction jobs generalizing lk cached tag with
  | nil =>
    unfold worker
    cases cached <;> simp [emitted, produced]
  | cons j rest ih =>
    have hc' : ∀ j ∈ rest, j.out ≠ .crash := fun x hx => hc x (List.mem_cons_of_mem _ hx)
    have hj := hc j List.mem_cons_self
    unfold worker
    cases hout : j.out with
    | skipped =>
      simp only [nYield, hout] at hl
      simp only [produced, hout]
      exact ih lk cached tag hc' (by omega)
    | crash => exact absurd hout hj
    | res ro =>
      simp only [nYield, hout] at hl
      cases lk with
      | nil => simp at hl
      | cons m lk' =>
        simp only [List.length_cons] at hl
        cases ro with
        | none =>
          simp only [produced, hout]
          have := ih lk' cached tag hc' (by omega)
          simpa [emitted] using this
        | some r =>
          simp only [produced, hout]
          cases b with
          | none => exact absurd rfl hb
          | primary =>
            split
            · have := ih lk' [⟨tagOf .primary m r, r⟩] (some (tagOf .primary m r)) hc' (by omega)
              simp only [emitted, bundlesOf_result, List.flatten_cons, List.map_append] at this ⊢
              rw [this]; try simp
            · have := ih lk' (cached ++ [⟨tagOf .primary m r, r⟩]) (some (tagOf .primary m r)) hc' (by omega)
              rw [this]; try simp
          | daily =>
            split
            · have := ih lk' [⟨tagOf .daily m r, r⟩] (some (tagOf .daily m r)) hc' (by omega)
              simp only [emitted, bundlesOf_result, List.flatten_cons, List.map_append] at this ⊢
              rw [this]; try simp
            · have := ih lk' (cached ++ [⟨tagOf .daily m r, r⟩]) (some (tagOf .daily m r)) hc' (by omega)
              rw [this]; try simp

/-! ### bundles are maximal runs of equal tag -/

/-- invariant of `(cached_data, current_bundle_tag)` -/
def CacheInv (cached : List Cached) (tag : Option Tag) : Prop :=
  (∀ x ∈ cached, some x.tag = tag) ∧ (tag ≠ none → cached ≠ [])

theorem shouldSave_true {cur : Option Tag} {t : Tag} (h : shouldSave cur t = true) :
    ∃ c, cur = some c ∧ c ≠ t := by
  cases cur with
  | none => simp [shouldSave] at h
  | some c => exact ⟨c, rfl, by simpa [shouldSave] using h⟩

theorem shouldSave_false {cur : Option Tag} {t : Tag} (h : ¬ shouldSave cur t = true) :
    cur = none ∨ cur = some t := by
  cases cur with
  | none => exact Or.inl rfl
  | some c => right; simp [shouldSave] at h; rw [h]

theorem cacheInv_append {cached : List Cached} {tag : Option Tag} {t : Tag} {r : Result}
    (hi : CacheInv cached tag) (h : ¬ shouldSave tag t = true) :
    CacheInv (cached ++ [⟨t, r⟩]) (some t) := by
  refine ⟨?_, fun _ => by simp⟩
  intro x hx
  rw [List.mem_append] at hx
  rcases hx with hx | hx
  · rcases shouldSave_false h with h0 | h0
    · have := hi.1 x hx; rw [h0] at this; cases this
    · have := hi.1 x hx; rw [h0] at this; exact this
  · simp only [List.mem_singleton] at hx; subst hx; rfl

theorem cacheInv_single (t : Tag) (r : Result) : CacheInv [⟨t, r⟩] (some t) :=
  ⟨fun x hx => by simp only [List.mem_singleton] at hx; subst hx; rfl, fun _ => by simp⟩

/-- every emitted bundle is non-empty and carries one tag (b ≠ None) -/
theorem bundles_uniform (b : Bundle) (hb : b ≠ .none) (lk : List Job) (cached : List Cached)
    (tag : Option Tag) (jobs : List Job) (hi : CacheInv cached tag) :
    ∀ c ∈ bundlesOf (worker b lk cached tag jobs), c ≠ [] ∧ ∀ x ∈ c, ∀ y ∈ c, x.tag = y.tag := by
  induction jobs generalizing lk cached tag with
  | nil =>
    unfold worker
    intro c hcm
    cases hcd : cached with
    | nil => simp [hcd] at hcm
    | cons a as =>
      simp only [hcd, List.isEmpty_cons, Bool.false_eq_true, if_false, bundlesOf_result,
        bundlesOf_nil, List.mem_singleton] at hcm
      subst hcm
      refine ⟨by simp, fun x hx y hy => ?_⟩
      have h1 := hi.1 x (hcd ▸ hx)
      have h2 := hi.1 y (hcd ▸ hy)
      exact Option.some.inj (h1.trans h2.symm)
  | cons j rest ih =>
    unfold worker
    cases hout : j.out with
    | skipped => exact ih lk cached tag hi
    | crash => simp
    | res ro =>
      cases lk with
      | nil => simp
      | cons m lk' =>
        cases ro with
        | none => simpa using ih lk' cached tag hi
        | some r =>
          have key : ∀ t : Tag, ∀ c ∈ bundlesOf (if shouldSave tag t = true then
              Item.result cached :: worker b lk' [⟨t, r⟩] (some t) rest
              else worker b lk' (cached ++ [⟨t, r⟩]) (some t) rest),
              c ≠ [] ∧ ∀ x ∈ c, ∀ y ∈ c, x.tag = y.tag := by
            intro t c hcm
            split at hcm
            · rename_i hs
              obtain ⟨c0, hc0, hne⟩ := shouldSave_true hs
              simp only [bundlesOf_result, List.mem_cons] at hcm
              rcases hcm with rfl | hcm
              · refine ⟨hi.2 (by rw [hc0]; simp), fun x hx y hy => ?_⟩
                exact Option.some.inj ((hi.1 x hx).trans (hi.1 y hy).symm)
              · exact ih lk' _ _ (cacheInv_single t r) c hcm
            · rename_i hs
              exact ih lk' _ _ (cacheInv_append hi hs) c hcm
          cases b with
          | none => exact absurd rfl hb
          | primary => exact key _
          | daily => exact key _

/-- the first bundle still to be emitted carries the current tag -/
theorem head_bundle_tag (b : Bundle) (hb : b ≠ .none) (lk : List Job) (cached : List Cached)
    (T : Tag) (jobs : List Job) (hi : CacheInv cached (some T)) :
    ∀ c, (bundlesOf (worker b lk cached (some T) jobs)).head? = some c → ∀ y ∈ c, y.tag = T := by
  induction jobs generalizing lk cached T with
  | nil =>
    unfold worker
    intro c hcm
    cases hcd : cached with
    | nil => simp [hcd] at hcm
    | cons a as =>
      simp only [hcd, List.isEmpty_cons, Bool.false_eq_true, if_false, bundlesOf_result,
        bundlesOf_nil, List.head?_cons, Option.some.injEq] at hcm
      subst hcm
      intro y hy
      exact Option.some.inj (hi.1 y (hcd ▸ hy))
  | cons j rest ih =>
    unfold worker
    cases hout : j.out with
    | skipped => exact ih lk cached T hi
    | crash => simp
    | res ro =>
      cases lk with
      | nil => simp
      | cons m lk' =>
        cases ro with
        | none => simpa using ih lk' cached T hi
        | some r =>
          have key : ∀ t : Tag, ∀ c, (bundlesOf (if shouldSave (some T) t = true then
              Item.result cached :: worker b lk' [⟨t, r⟩] (some t) rest
              else worker b lk' (cached ++ [⟨t, r⟩]) (some t) rest)).head? = some c →
              ∀ y ∈ c, y.tag = T := by
            intro t c hcm
            split at hcm
            · simp only [bundlesOf_result, List.head?_cons, Option.some.injEq] at hcm
              subst hcm
              intro y hy
              exact Option.some.inj (hi.1 y hy)
            · rename_i hs
              have hT : T = t := by
                rcases shouldSave_false hs with h0 | h0
                · cases h0
                · exact Option.some.inj h0
              subst hT
              exact ih lk' _ _ (cacheInv_append hi hs) c hcm
          cases b with
          | none => exact absurd rfl hb
          | primary => exact key _
          | daily => exact key _

/-- consecutive bundles carry different tags (so each bundle is a *maximal* run) -/
theorem bundles_chain (b : Bundle) (hb : b ≠ .none) (lk : List Job) (cached : List Cached)
    (tag : Option Tag) (jobs : List Job) (hi : CacheInv cached tag) :
    List.IsChain (fun c d : List Cached => ∀ x ∈ c, ∀ y ∈ d, x.tag ≠ y.tag)
      (bundlesOf (worker b lk cached tag jobs)) := by
  induction jobs generalizing lk cached tag with
  | nil =>
    unfold worker
    cases cached <;> simp
  | cons j rest ih =>
    unfold worker
    cases hout : j.out with
    | skipped => exact ih lk cached tag hi
    | crash => simp
    | res ro =>
      cases lk with
      | nil => simp
      | cons m lk' =>
        cases ro with
        | none => simpa using ih lk' cached tag hi
        | some r =>
          have key : ∀ t : Tag, List.IsChain (fun c d : List Cached => ∀ x ∈ c, ∀ y ∈ d, x.tag ≠ y.tag)
              (bundlesOf (if shouldSave tag t = true then
              Item.result cached :: worker b lk' [⟨t, r⟩] (some t) rest
              else worker b lk' (cached ++ [⟨t, r⟩]) (some t) rest)) := by
            intro t
            split
            · rename_i hs
              obtain ⟨c0, hc0, hne⟩ := shouldSave_true hs
              simp only [bundlesOf_result]
              have hrest := ih lk' [⟨t, r⟩] (some t) (cacheInv_single t r)
              have hhead := head_bundle_tag b hb lk' [⟨t, r⟩] t rest (cacheInv_single t r)
              cases hbs : bundlesOf (worker b lk' [⟨t, r⟩] (some t) rest) with
              | nil => simp
              | cons d ds =>
                rw [hbs] at hrest hhead
                refine List.IsChain.cons_cons ?_ hrest
                intro x hx y hy
                have hx' := hi.1 x hx
                rw [hc0] at hx'
                have hy' := hhead d (by simp) y hy
                have hxc := Option.some.inj hx'
                rw [hy', hxc]
                exact hne
            · rename_i hs
              exact ih lk' _ _ (cacheInv_append hi hs)
          cases b with
          | none => exact absurd rfl hb
          | primary => exact key _
          | daily => exact key _

/-! ### crash and lookup -/

/-- `matches[processed]` never raises IndexError: the lookup list is long enough -/
theorem worker_no_crash_item (b : Bundle) (lk : List Job) (cached : List Cached) (tag : Option Tag)
    (jobs : List Job) (hc : ∀ j ∈ jobs, j.out ≠ .crash) (hl : nYield jobs ≤ lk.length) :
    Item.crashed ∉ worker b lk cached tag jobs := by
  induction jobs generalizing lk cached tag with
  | nil => unfold worker; split <;> simp
  | cons j rest ih =>
    have hc' : ∀ j ∈ rest, j.out ≠ .crash := fun x hx => hc x (List.mem_cons_of_mem _ hx)
    have hj := hc j List.mem_cons_self
    unfold worker
    cases hout : j.out with
    | skipped =>
      simp only [nYield, hout] at hl
      exact ih lk cached tag hc' (by omega)
    | crash => exact absurd hout hj
    | res ro =>
      simp only [nYield, hout] at hl
      cases lk with
      | nil => simp at hl
      | cons m lk' =>
        simp only [List.length_cons] at hl
        cases ro with
        | none => simpa using ih lk' cached tag hc' (by omega)
        | some r =>
          cases b with
          | none => simpa using ih lk' cached tag hc' (by omega)
          | primary =>
            simp only
            split
            · simpa using ih lk' _ _ hc' (by omega)
            · exact ih lk' _ _ hc' (by omega)
          | daily =>
            simp only
            split
            · simpa using ih lk' _ _ hc' (by omega)
            · exact ih lk' _ _ hc' (by omega)

end CFiles

namespace CFiles

/-- bundle = None: every bundle is a single dataset -/
theorem bundles_none_single (lk : List Job) (tag : Option Tag) (jobs : List Job) :
    ∀ c ∈ bundlesOf (worker .none lk [] tag jobs), c.length = 1 := by
  induction jobs generalizing lk with
  | nil => simp [worker]
  | cons j rest ih =>
    unfold worker
    cases hout : j.out with
    | skipped => exact ih lk
    | crash => simp
    | res ro =>
      cases lk with
      | nil => simp
      | cons m lk' =>
        cases ro with
        | none => simpa using ih lk'
        | some r =>
          intro c hc
          simp only [bundlesOf_result, List.mem_cons] at hc
          rcases hc with rfl | hc
          · rfl
          · exact ih lk' c hc

/-- a crash ends the worker: it puts what it had put before, then the crash marker; the cached
bundle is dropped and nothing of the later matches is delivered -/
theorem worker_crash (b : Bundle) (lk : List Job) (cached : List Cached) (tag : Option Tag)
    (pre post : List Job) (j : Job) (hj : j.out = .crash) (hc : ∀ x ∈ pre, x.out ≠ .crash) :
    ∃ is, worker b lk cached tag (pre ++ j :: post) = is ++ [.crashed] := by
  induction pre generalizing lk cached tag with
  | nil =>
    refine ⟨[], ?_⟩
    simp only [List.nil_append]
    unfold worker
    simp [hj]
  | cons a pre ih =>
    have hc' : ∀ x ∈ pre, x.out ≠ .crash := fun x hx => hc x (List.mem_cons_of_mem _ hx)
    have ha := hc a List.mem_cons_self
    simp only [List.cons_append]
    unfold worker
    cases hout : a.out with
    | skipped => exact ih lk cached tag hc'
    | crash => exact absurd hout ha
    | res ro =>
      cases lk with
      | nil => exact ⟨[], rfl⟩
      | cons m lk' =>
        cases ro with
        | none =>
          obtain ⟨is, h⟩ := ih lk' cached tag hc'
          exact ⟨.progress :: is, by (try dsimp only); rw [h]; rfl⟩
        | some r =>
          cases b with
          | none =>
            obtain ⟨is, h⟩ := ih lk' cached tag hc'
            exact ⟨_ :: is, by (try dsimp only); rw [h]; rfl⟩
          | primary =>
            simp only
            split
            · obtain ⟨is, h⟩ := ih lk' [⟨tagOf .primary m r, r⟩] (some (tagOf .primary m r)) hc'
              exact ⟨_ :: is, by (try dsimp only); rw [h]; rfl⟩
            · exact ih lk' _ _ hc'
          | daily =>
            simp only
            split
            · obtain ⟨is, h⟩ := ih lk' [⟨tagOf .daily m r, r⟩] (some (tagOf .daily m r)) hc'
              exact ⟨_ :: is, by (try dsimp only); rw [h]; rfl⟩
            · exact ih lk' _ _ hc'

end CFiles
