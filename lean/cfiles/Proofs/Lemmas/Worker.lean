import Model.CollocFiles
import Mathlib.Tactic

/-! Helper lemmas about the worker loop (`_process_caller`). -/

namespace CFiles

/-- the results inside the emitted bundles, flattened -/
def emitted (is : List Item) : List Result := ((bundlesOf is).flatten).map (·.r)

/-- the non-`None` results of a job list together with the bundle tag each is cached under -/
def producedC (b : Bundle) : List Job → List Cached
  | [] => []
  | j :: js =>
    match j.out with
    | .res (some r) => ⟨tagOf b j r, r⟩ :: producedC b js
    | _ => producedC b js

theorem producedC_map_r (b : Bundle) (jobs : List Job) : (producedC b jobs).map (·.r) = produced jobs := by
  induction jobs with
  | nil => rfl
  | cons j js ih =>
    cases j with
    | mk p s out =>
      cases out with
      | skipped => simpa [producedC, produced] using ih
      | crash => simpa [producedC, produced] using ih
      | res ro => cases ro <;> simpa [producedC, produced] using ih

@[simp] theorem bundlesOf_progress (is : List Item) : bundlesOf (.progress :: is) = bundlesOf is := rfl
@[simp] theorem bundlesOf_crashed (is : List Item) : bundlesOf (.crashed :: is) = bundlesOf is := rfl
@[simp] theorem bundlesOf_result (c : List Cached) (is : List Item) :
    bundlesOf (.result c :: is) = c :: bundlesOf is := rfl
@[simp] theorem bundlesOf_nil : bundlesOf [] = [] := rfl

/-- unfolding of one loop iteration -/
theorem worker_cons (b : Bundle) (cached : List Cached) (tag : Option Tag) (j : Job) (rest : List Job) :
    worker b cached tag (j :: rest) =
      match j.out with
      | .skipped => worker b cached tag rest
      | .crash => [.crashed]
      | .res none => .progress :: worker b cached tag rest
      | .res (some r) =>
        match b with
        | .none => .result [⟨tagOf b j r, r⟩] :: worker b cached tag rest
        | _ =>
          if shouldSave tag (tagOf b j r) then
            .result cached :: worker b [⟨tagOf b j r, r⟩] (some (tagOf b j r)) rest
          else
            worker b (cached ++ [⟨tagOf b j r, r⟩]) (some (tagOf b j r)) rest := by
  cases j with
  | mk p s out =>
    cases out with
    | skipped => rw [worker]
    | crash => rw [worker]
    | res ro =>
      cases ro with
      | none => rw [worker]
      | some r => cases b <;> rw [worker]

/-- bundle = None: every non-None result is put at once, on its own -/
theorem flat_worker_none (tag : Option Tag) (jobs : List Job) (hc : ∀ j ∈ jobs, j.out ≠ .crash) :
    (bundlesOf (worker .none [] tag jobs)).flatten = producedC .none jobs := by
  induction jobs with
  | nil => simp [worker, producedC]
  | cons j rest ih =>
    have hc' : ∀ j ∈ rest, j.out ≠ .crash := fun x hx => hc x (List.mem_cons_of_mem _ hx)
    have hj := hc j List.mem_cons_self
    rw [worker_cons]
    cases hout : j.out with
    | skipped => simpa [producedC, hout] using ih hc'
    | crash => exact absurd hout hj
    | res ro =>
      cases ro with
      | none => simpa [producedC, hout] using ih hc'
      | some r => simp [producedC, hout, ih hc']

/-- bundle = primary / daily: the bundles, concatenated, are the cached results followed by
all later non-None results (final flush included) -/
theorem flat_worker_bundle (b : Bundle) (hb : b ≠ .none) (cached : List Cached)
    (tag : Option Tag) (jobs : List Job) (hc : ∀ j ∈ jobs, j.out ≠ .crash) :
    (bundlesOf (worker b cached tag jobs)).flatten = cached ++ producedC b jobs := by
  induction jobs generalizing cached tag with
  | nil =>
    unfold worker
    cases cached <;> simp [producedC]
  | cons j rest ih =>
    have hc' : ∀ j ∈ rest, j.out ≠ .crash := fun x hx => hc x (List.mem_cons_of_mem _ hx)
    have hj := hc j List.mem_cons_self
    rw [worker_cons]
    cases hout : j.out with
    | skipped => simpa [producedC, hout] using ih cached tag hc'
    | crash => exact absurd hout hj
    | res ro =>
      cases ro with
      | none => simpa [producedC, hout] using ih cached tag hc'
      | some r =>
        have key : (bundlesOf (if shouldSave tag (tagOf b j r) = true then
              Item.result cached :: worker b [⟨tagOf b j r, r⟩] (some (tagOf b j r)) rest
            else worker b (cached ++ [⟨tagOf b j r, r⟩]) (some (tagOf b j r)) rest)).flatten =
            cached ++ ⟨tagOf b j r, r⟩ :: producedC b rest := by
          split
          · simp [ih _ _ hc']
          · simp [ih _ _ hc']
        cases b with
        | none => exact absurd rfl hb
        | primary => simpa [producedC, hout] using key
        | daily => simpa [producedC, hout] using key

/-! ### bundles are maximal runs of equal tag -/

/-- invariant of `(cached_data, current_bundle_tag)` -/
def CacheInv (cached : List Cached) (tag : Option Tag) : Prop :=
  (∀ x ∈ cached, some x.tag = tag) ∧ (tag ≠ none → cached ≠ [])

theorem shouldSave_true {cur : Option Tag} {t : Tag} (h : shouldSave cur t = true) :
    ∃ c, cur = some c ∧ c ≠ t := by
  cases cur with
  | none => simp [shouldSave] at h
  | some c => exact ⟨c, rfl, by simpa [shouldSave] using h⟩

theorem shouldSave_false {cur : Option Tag} {t : Tag} (h : ¬ shouldSave cur t = true) :
    cur = none ∨ cur = some t := by
  cases cur with
  | none => exact Or.inl rfl
  | some c => right; simp [shouldSave] at h; rw [h]

theorem cacheInv_append {cached : List Cached} {tag : Option Tag} {t : Tag} {r : Result}
    (hi : CacheInv cached tag) (h : ¬ shouldSave tag t = true) :
    CacheInv (cached ++ [⟨t, r⟩]) (some t) := by
  refine ⟨?_, fun _ => by simp⟩
  intro x hx
  rw [List.mem_append] at hx
  rcases hx with hx | hx
  · rcases shouldSave_false h with h0 | h0
    · have := hi.1 x hx; rw [h0] at this; cases this
    · have := hi.1 x hx; rw [h0] at this; exact this
  · simp only [List.mem_singleton] at hx; subst hx; rfl

theorem cacheInv_single (t : Tag) (r : Result) : CacheInv [⟨t, r⟩] (some t) :=
  ⟨fun x hx => by simp only [List.mem_singleton] at hx; subst hx; rfl, fun _ => by simp⟩

/-- the two continuations of the bundling branch, as one expression -/
def bundleStep (b : Bundle) (cached : List Cached) (tag : Option Tag) (t : Tag) (r : Result)
    (rest : List Job) : List Item :=
  if shouldSave tag t = true then
    Item.result cached :: worker b [⟨t, r⟩] (some t) rest
  else worker b (cached ++ [⟨t, r⟩]) (some t) rest

theorem worker_cons_some (b : Bundle) (hb : b ≠ .none) (cached : List Cached) (tag : Option Tag)
    (j : Job) (rest : List Job) (r : Result) (hout : j.out = .res (some r)) :
    worker b cached tag (j :: rest) = bundleStep b cached tag (tagOf b j r) r rest := by
  rw [worker_cons, hout]
  cases b with
  | none => exact absurd rfl hb
  | primary => rfl
  | daily => rfl

/-- every emitted bundle is non-empty and carries one tag (b ≠ None) -/
theorem bundles_uniform (b : Bundle) (hb : b ≠ .none) (cached : List Cached)
    (tag : Option Tag) (jobs : List Job) (hi : CacheInv cached tag) :
    ∀ c ∈ bundlesOf (worker b cached tag jobs), c ≠ [] ∧ ∀ x ∈ c, ∀ y ∈ c, x.tag = y.tag := by
  induction jobs generalizing cached tag with
  | nil =>
    unfold worker
    intro c hcm
    cases hcd : cached with
    | nil => simp [hcd] at hcm
    | cons a as =>
      simp only [hcd, List.isEmpty_cons, Bool.false_eq_true, if_false, bundlesOf_result,
        bundlesOf_nil, List.mem_singleton] at hcm
      subst hcm
      refine ⟨by simp, fun x hx y hy => ?_⟩
      have h1 := hi.1 x (hcd ▸ hx)
      have h2 := hi.1 y (hcd ▸ hy)
      exact Option.some.inj (h1.trans h2.symm)
  | cons j rest ih =>
    cases hout : j.out with
    | skipped => rw [worker_cons, hout]; exact ih cached tag hi
    | crash => rw [worker_cons, hout]; simp
    | res ro =>
      cases ro with
      | none => rw [worker_cons, hout]; simpa using ih cached tag hi
      | some r =>
        rw [worker_cons_some b hb _ _ _ _ r hout]
        intro c hcm
        unfold bundleStep at hcm
        split at hcm
        · rename_i hs
          obtain ⟨c0, hc0, hne⟩ := shouldSave_true hs
          simp only [bundlesOf_result, List.mem_cons] at hcm
          rcases hcm with rfl | hcm
          · refine ⟨hi.2 (by rw [hc0]; simp), fun x hx y hy => ?_⟩
            exact Option.some.inj ((hi.1 x hx).trans (hi.1 y hy).symm)
          · exact ih _ _ (cacheInv_single _ r) c hcm
        · rename_i hs
          exact ih _ _ (cacheInv_append hi hs) c hcm

/-- the first bundle still to be emitted carries the current tag -/
theorem head_bundle_tag (b : Bundle) (hb : b ≠ .none) (cached : List Cached)
    (T : Tag) (jobs : List Job) (hi : CacheInv cached (some T)) :
    ∀ c, (bundlesOf (worker b cached (some T) jobs)).head? = some c → ∀ y ∈ c, y.tag = T := by
  induction jobs generalizing cached T with
  | nil =>
    unfold worker
    intro c hcm
    cases hcd : cached with
    | nil => simp [hcd] at hcm
    | cons a as =>
      simp only [hcd, List.isEmpty_cons, Bool.false_eq_true, if_false, bundlesOf_result,
        bundlesOf_nil, List.head?_cons, Option.some.injEq] at hcm
      subst hcm
      intro y hy
      exact Option.some.inj (hi.1 y (hcd ▸ hy))
  | cons j rest ih =>
    cases hout : j.out with
    | skipped => rw [worker_cons, hout]; exact ih cached T hi
    | crash => rw [worker_cons, hout]; simp
    | res ro =>
      cases ro with
      | none => rw [worker_cons, hout]; simpa using ih cached T hi
      | some r =>
        rw [worker_cons_some b hb _ _ _ _ r hout]
        intro c hcm
        unfold bundleStep at hcm
        split at hcm
        · simp only [bundlesOf_result, List.head?_cons, Option.some.injEq] at hcm
          subst hcm
          intro y hy
          exact Option.some.inj (hi.1 y hy)
        · rename_i hs
          have hT : T = tagOf b j r := by
            rcases shouldSave_false hs with h0 | h0
            · cases h0
            · exact Option.some.inj h0
          rw [← hT] at hcm hs
          exact ih _ _ (hT ▸ cacheInv_append hi (hT ▸ hs)) c hcm

/-- consecutive bundles carry different tags (so each bundle is a *maximal* run) -/
theorem bundles_chain (b : Bundle) (hb : b ≠ .none) (cached : List Cached)
    (tag : Option Tag) (jobs : List Job) (hi : CacheInv cached tag) :
    List.IsChain (fun c d : List Cached => ∀ x ∈ c, ∀ y ∈ d, x.tag ≠ y.tag)
      (bundlesOf (worker b cached tag jobs)) := by
  induction jobs generalizing cached tag with
  | nil =>
    unfold worker
    cases cached <;> simp
  | cons j rest ih =>
    cases hout : j.out with
    | skipped => rw [worker_cons, hout]; exact ih cached tag hi
    | crash => rw [worker_cons, hout]; simp
    | res ro =>
      cases ro with
      | none => rw [worker_cons, hout]; simpa using ih cached tag hi
      | some r =>
        rw [worker_cons_some b hb _ _ _ _ r hout]
        unfold bundleStep
        split
        · rename_i hs
          obtain ⟨c0, hc0, hne⟩ := shouldSave_true hs
          simp only [bundlesOf_result]
          have hrest := ih [⟨tagOf b j r, r⟩] (some (tagOf b j r)) (cacheInv_single _ r)
          have hhead := head_bundle_tag b hb [⟨tagOf b j r, r⟩] (tagOf b j r) rest (cacheInv_single _ r)
          cases hbs : bundlesOf (worker b [⟨tagOf b j r, r⟩] (some (tagOf b j r)) rest) with
          | nil => simp
          | cons d ds =>
            rw [hbs] at hrest hhead
            refine List.IsChain.cons_cons ?_ hrest
            intro x hx y hy
            have hx' := hi.1 x hx
            rw [hc0] at hx'
            have hy' := hhead d (by simp) y hy
            have hxc := Option.some.inj hx'
            rw [hy', hxc]
            exact hne
        · rename_i hs
          exact ih _ _ (cacheInv_append hi hs)

/-! ### crash -/

/-- without an exception no crash marker is put -/
theorem worker_no_crash_item (b : Bundle) (cached : List Cached) (tag : Option Tag)
    (jobs : List Job) (hc : ∀ j ∈ jobs, j.out ≠ .crash) :
    Item.crashed ∉ worker b cached tag jobs := by
  induction jobs generalizing cached tag with
  | nil => unfold worker; split <;> simp
  | cons j rest ih =>
    have hc' : ∀ j ∈ rest, j.out ≠ .crash := fun x hx => hc x (List.mem_cons_of_mem _ hx)
    have hj := hc j List.mem_cons_self
    cases hout : j.out with
    | skipped => rw [worker_cons, hout]; exact ih cached tag hc'
    | crash => exact absurd hout hj
    | res ro =>
      cases ro with
      | none => rw [worker_cons, hout]; simpa using ih cached tag hc'
      | some r =>
        by_cases hb : b = .none
        · subst hb
          rw [worker_cons, hout]
          simpa using ih cached tag hc'
        · rw [worker_cons_some b hb _ _ _ _ r hout]
          unfold bundleStep
          split
          · simpa using ih _ _ hc'
          · exact ih _ _ hc'

/-- bundle = None: every bundle is a single dataset -/
theorem bundles_none_single (tag : Option Tag) (jobs : List Job) :
    ∀ c ∈ bundlesOf (worker .none [] tag jobs), c.length = 1 := by
  induction jobs with
  | nil => simp [worker]
  | cons j rest ih =>
    rw [worker_cons]
    cases hout : j.out with
    | skipped => exact ih
    | crash => simp
    | res ro =>
      cases ro with
      | none => simpa using ih
      | some r =>
        intro c hc
        simp only [bundlesOf_result, List.mem_cons] at hc
        rcases hc with rfl | hc
        · rfl
        · exact ih c hc

/-- a crash ends the worker: it puts what it had put before, then the crash marker; the cached
bundle is dropped and nothing of the later matches is delivered -/
theorem worker_crash (b : Bundle) (cached : List Cached) (tag : Option Tag)
    (pre post : List Job) (j : Job) (hj : j.out = .crash) (hc : ∀ x ∈ pre, x.out ≠ .crash) :
    ∃ is, worker b cached tag (pre ++ j :: post) = is ++ [.crashed] := by
  induction pre generalizing cached tag with
  | nil =>
    refine ⟨[], ?_⟩
    simp only [List.nil_append]
    rw [worker_cons, hj]
  | cons a pre ih =>
    have hc' : ∀ x ∈ pre, x.out ≠ .crash := fun x hx => hc x (List.mem_cons_of_mem _ hx)
    have ha := hc a List.mem_cons_self
    simp only [List.cons_append]
    cases hout : a.out with
    | skipped => rw [worker_cons, hout]; exact ih cached tag hc'
    | crash => exact absurd hout ha
    | res ro =>
      cases ro with
      | none =>
        obtain ⟨is, h⟩ := ih cached tag hc'
        exact ⟨.progress :: is, by rw [worker_cons, hout]; simp only; rw [h]; rfl⟩
      | some r =>
        by_cases hb : b = .none
        · subst hb
          obtain ⟨is, h⟩ := ih cached tag hc'
          exact ⟨_ :: is, by rw [worker_cons, hout]; simp only; rw [h]; rfl⟩
        · rw [worker_cons_some b hb _ _ _ _ r hout]
          unfold bundleStep
          split
          · obtain ⟨is, h⟩ := ih [⟨tagOf b a r, r⟩] (some (tagOf b a r)) hc'
            exact ⟨_ :: is, by rw [h]; rfl⟩
          · exact ih _ _ hc'

/-! ### one bundle per tag when the tags come sorted -/

/-- an integer key of a bundle tag (file index of the primary / day number) -/
def tagKey : Tag → Int
  | .prim p => p
  | .day d => d

theorem tagKey_injOn_same {s t : Tag} (h : tagKey s = tagKey t)
    (hk : (∃ p q, s = .prim p ∧ t = .prim q) ∨ (∃ d e, s = .day d ∧ t = .day e)) : s = t := by
  rcases hk with ⟨p, q, rfl, rfl⟩ | ⟨d, e, rfl, rfl⟩
  · simp only [tagKey, Nat.cast_inj] at h; rw [h]
  · simp only [tagKey] at h; rw [h]

/-- If the tag keys of the cached-then-produced results never decrease, bundles (non-empty,
uniform, adjacent ones different, all tags of one kind) have pairwise different tags:
every tag occurs in exactly one bundle. -/
theorem pairwise_of_sorted (bs : List (List Cached))
    (hne : ∀ c ∈ bs, c ≠ [])
    (hch : List.IsChain (fun c d : List Cached => ∀ x ∈ c, ∀ y ∈ d, x.tag ≠ y.tag) bs)
    (hsorted : (bs.flatten.map (fun x => tagKey x.tag)).Pairwise (· ≤ ·))
    (hkind : ∀ x ∈ bs.flatten, ∀ y ∈ bs.flatten, tagKey x.tag = tagKey y.tag → x.tag = y.tag) :
    bs.Pairwise (fun c d => ∀ x ∈ c, ∀ y ∈ d, x.tag ≠ y.tag) := by
  induction bs with
  | nil => exact List.Pairwise.nil
  | cons c rest ih =>
    have hne' : ∀ c ∈ rest, c ≠ [] := fun x hx => hne x (List.mem_cons_of_mem _ hx)
    have hsorted' : (rest.flatten.map (fun x => tagKey x.tag)).Pairwise (· ≤ ·) := by
      simp only [List.flatten_cons, List.map_append, List.pairwise_append] at hsorted
      exact hsorted.2.1
    have hkind' : ∀ x ∈ rest.flatten, ∀ y ∈ rest.flatten, tagKey x.tag = tagKey y.tag → x.tag = y.tag :=
      fun x hx y hy => hkind x (by simp [hx]) y (by simp [hy])
    have hle : ∀ x ∈ c, ∀ y ∈ rest.flatten, tagKey x.tag ≤ tagKey y.tag := by
      simp only [List.flatten_cons, List.map_append, List.pairwise_append] at hsorted
      intro x hx y hy
      exact hsorted.2.2 _ (List.mem_map.mpr ⟨x, hx, rfl⟩) _ (List.mem_map.mpr ⟨y, hy, rfl⟩)
    cases rest with
    | nil => exact List.pairwise_singleton _ _
    | cons d ds =>
      have hcd : ∀ x ∈ c, ∀ y ∈ d, x.tag ≠ y.tag := (List.isChain_cons_cons.mp hch).1
      have hch' := (List.isChain_cons_cons.mp hch).2
      refine List.Pairwise.cons ?_ (ih hne' hch' hsorted' hkind')
      intro e he x hx y hy
      simp only [List.mem_cons] at he
      rcases he with rfl | he
      · exact hcd x hx y hy
      · -- a witness z in the non-empty neighbour d: key x < key z ≤ key y
        obtain ⟨z, hz⟩ := List.exists_mem_of_ne_nil d (hne' d List.mem_cons_self)
        have hzf : z ∈ (d :: ds).flatten := by simp [hz]
        have hyf : y ∈ (d :: ds).flatten := by
          simp only [List.flatten_cons, List.mem_append, List.mem_flatten]
          exact Or.inr ⟨e, he, hy⟩
        have h1 : tagKey x.tag ≤ tagKey z.tag := hle x hx z hzf
        have h1' : tagKey x.tag ≠ tagKey z.tag := by
          intro heq
          exact hcd x hx z hz (hkind x (by simp [hx]) z (by simp [hz]) heq)
        have h2 : tagKey z.tag ≤ tagKey y.tag := by
          have hs := hsorted'
          simp only [List.flatten_cons, List.map_append, List.pairwise_append] at hs
          have hyds : y ∈ ds.flatten := List.mem_flatten.mpr ⟨e, he, hy⟩
          exact hs.2.2 _ (List.mem_map.mpr ⟨z, hz, rfl⟩) _ (List.mem_map.mpr ⟨y, hyds, rfl⟩)
        intro heq
        rw [heq] at h1 h1'
        omega

theorem producedC_primary_spec (jobs : List Job) :
    ∀ x ∈ producedC .primary jobs, ∃ j ∈ jobs, x.tag = .prim j.prim ∧ j.out = .res (some x.r) := by
  induction jobs with
  | nil => simp [producedC]
  | cons j js ih =>
    intro x hx
    cases hout : j.out with
    | skipped =>
      simp only [producedC, hout] at hx
      obtain ⟨j', hj', h⟩ := ih x hx; exact ⟨j', List.mem_cons_of_mem _ hj', h⟩
    | crash =>
      simp only [producedC, hout] at hx
      obtain ⟨j', hj', h⟩ := ih x hx; exact ⟨j', List.mem_cons_of_mem _ hj', h⟩
    | res ro =>
      cases ro with
      | none =>
        simp only [producedC, hout] at hx
        obtain ⟨j', hj', h⟩ := ih x hx; exact ⟨j', List.mem_cons_of_mem _ hj', h⟩
      | some r =>
        simp only [producedC, hout, List.mem_cons] at hx
        rcases hx with rfl | hx
        · exact ⟨j, List.mem_cons_self, rfl, hout⟩
        · obtain ⟨j', hj', h⟩ := ih x hx; exact ⟨j', List.mem_cons_of_mem _ hj', h⟩

theorem producedC_primary_sublist (jobs : List Job) :
    ((producedC .primary jobs).map (fun x => tagKey x.tag)).Sublist (jobs.map (fun j => (j.prim : Int))) := by
  induction jobs with
  | nil => simp [producedC]
  | cons j js ih =>
    cases hout : j.out with
    | skipped => simp only [producedC, hout, List.map_cons]; exact ih.cons _
    | crash => simp only [producedC, hout, List.map_cons]; exact ih.cons _
    | res ro =>
      cases ro with
      | none => simp only [producedC, hout, List.map_cons]; exact ih.cons _
      | some r =>
        simp only [producedC, hout, List.map_cons, tagOf, tagKey]
        exact ih.cons₂ _

theorem producedC_primary_sorted (jobs : List Job) (hs : (jobs.map (·.prim)).Pairwise (· ≤ ·)) :
    ((producedC .primary jobs).map (fun x => tagKey x.tag)).Pairwise (· ≤ ·) := by
  have h : (jobs.map (fun j => (j.prim : Int))).Pairwise (· ≤ ·) := by
    rw [List.pairwise_map] at hs ⊢
    exact hs.imp (fun h => by exact_mod_cast h)
  exact h.sublist (producedC_primary_sublist jobs)

end CFiles
