import Proofs.Lemmas.Chunks
import Proofs.Lemmas.Worker
import Proofs.Lemmas.Parent
import Proofs.Lemmas.Match
import Proofs.Lemmas.Total
import Proofs.Audit

/-!
# C05 — collocating filesets equals collocating all their data, for any process count

Property theorems only (helper lemmas live in `Proofs/Lemmas/*.lean`), about the model
`Model/CollocFiles.lean` of `Collocator.collocate_filesets`.  The per-file-pair collocation
(`Collocator.collocate`) is opaque: its pair-level correctness is property C04 and enters
`C05_total` as the hypothesis `hcoll`.
-/

open CFiles

/-! ## array_split -/

/-- **C05_chunks_partition** — for every number of sections `k ≥ 1` the chunks of
`np.array_split` are contiguous pieces whose concatenation is the match list, there are exactly
`k` of them, their sizes differ by at most one (`⌊n/k⌋` or `⌊n/k⌋+1`), and none is empty when
`k ≤ n` (which `processes = min(processes, len(matches))` guarantees). -/
theorem C05_chunks_partition {α : Type} (k : Nat) (hk : 1 ≤ k) (ms : List α) :
    ∃ cs, chunks k ms = some cs ∧ cs.flatten = ms ∧ cs.length = k ∧
      (∀ c ∈ cs, c.length = ms.length / k ∨ c.length = ms.length / k + 1) ∧
      (k ≤ ms.length → ∀ c ∈ cs, c ≠ []) := by
  have hk0 : k ≠ 0 := by omega
  refine ⟨splitSizes (chunkSizes ms.length k) ms, by simp [chunks, hk0], ?_, ?_, ?_, ?_⟩
  · exact flatten_splitSizes _ _ (by rw [sum_chunkSizes _ _ (by omega)])
  · rw [length_splitSizes, length_chunkSizes _ _ (by omega)]
  · intro c hc
    have hm := map_length_splitSizes (chunkSizes ms.length k) ms (sum_chunkSizes _ _ (by omega))
    have : c.length ∈ chunkSizes ms.length k := by
      rw [← hm]; exact List.mem_map.mpr ⟨c, hc, rfl⟩
    exact mem_chunkSizes this
  · intro hkn c hc hnil
    have hm := map_length_splitSizes (chunkSizes ms.length k) ms (sum_chunkSizes _ _ (by omega))
    have : c.length ∈ chunkSizes ms.length k := by
      rw [← hm]; exact List.mem_map.mpr ⟨c, hc, rfl⟩
    have hq : 1 ≤ ms.length / k := (Nat.one_le_div_iff (by omega)).mpr hkn
    rcases mem_chunkSizes this with h | h <;> simp [hnil] at h <;> omega

/-- zero sections is the `ValueError` of numpy -/
theorem C05_chunks_zero {α : Type} (ms : List α) : chunks 0 ms = none := rfl

/-! ## worker process -/

/-- **C05_worker_flush** — for every bundle mode (None, primary, daily), every list of
flattened matches without a crash (matches may be skipped because of unreadable files):
the bundles a worker puts on the queue, concatenated, are exactly its non-`None`
collocation results in order, each once and each tagged with the bundle tag of *its own*
files — the tail flush included; no crash marker is put; with bundling every bundle is a
non-empty run of one tag and consecutive bundles have different tags (maximal runs); without
bundling every put holds exactly one result. -/
theorem C05_worker_flush (b : Bundle) (jobs : List Job) (hc : ∀ j ∈ jobs, j.out ≠ .crash) :
    ((bundlesOf (workerItems b jobs)).flatten = producedC b jobs) ∧
    ((bundlesOf (workerItems b jobs)).flatten.map (·.r) = produced jobs) ∧
    Item.crashed ∉ workerItems b jobs ∧
    (b ≠ .none →
      (∀ c ∈ bundlesOf (workerItems b jobs), c ≠ [] ∧ ∀ x ∈ c, ∀ y ∈ c, x.tag = y.tag) ∧
      (∀ i (h : i + 1 < (bundlesOf (workerItems b jobs)).length),
        ∀ x ∈ (bundlesOf (workerItems b jobs))[i], ∀ y ∈ (bundlesOf (workerItems b jobs))[i + 1],
          x.tag ≠ y.tag)) ∧
    (b = .none → ∀ c ∈ bundlesOf (workerItems b jobs), c.length = 1) := by
  have hflat : (bundlesOf (workerItems b jobs)).flatten = producedC b jobs := by
    unfold workerItems
    by_cases hb : b = .none
    · subst hb; exact flat_worker_none none jobs hc
    · simpa using flat_worker_bundle b hb [] none jobs hc
  refine ⟨hflat, ?_, worker_no_crash_item b [] none jobs hc, ?_, ?_⟩
  · rw [hflat, producedC_map_r]
  · intro hb
    have hinv : CacheInv [] none := ⟨by simp, by simp⟩
    refine ⟨bundles_uniform b hb [] none jobs hinv, ?_⟩
    exact List.isChain_iff_getElem.mp (bundles_chain b hb [] none jobs hinv)
  · intro hb
    subst hb
    exact bundles_none_single none jobs

/-- **C05_one_bundle_per_primary** — with `bundle='primary'`, for every list of flattened
matches whose primaries come in `find` order (non-decreasing file index — true of every chunk
of `match`'s output, `C05_matches_sorted`), also when matches are skipped because of unreadable
files: every result is tagged with its own primary file, and bundles have pairwise different
tags — so all results of one primary file form exactly one bundle (one output file per
primary), never two. -/
theorem C05_one_bundle_per_primary (jobs : List Job) (hc : ∀ j ∈ jobs, j.out ≠ .crash)
    (hs : (jobs.map (·.prim)).Pairwise (· ≤ ·)) :
    (bundlesOf (workerItems .primary jobs)).flatten = producedC .primary jobs ∧
    (∀ x ∈ producedC .primary jobs, ∃ j ∈ jobs, x.tag = .prim j.prim ∧ j.out = .res (some x.r)) ∧
    (bundlesOf (workerItems .primary jobs)).Pairwise (fun c d => ∀ x ∈ c, ∀ y ∈ d, x.tag ≠ y.tag) := by
  obtain ⟨hflat, _, _, hb, _⟩ := C05_worker_flush .primary jobs hc
  obtain ⟨hun, _⟩ := hb (by decide)
  have hinv : CacheInv [] none := ⟨by simp, by simp⟩
  have hch := bundles_chain .primary (by decide) [] none jobs hinv
  refine ⟨hflat, producedC_primary_spec jobs, ?_⟩
  apply pairwise_of_sorted _ (fun c hcm => (hun c hcm).1) hch
  · rw [hflat]; exact producedC_primary_sorted jobs hs
  · rw [hflat]
    intro x hx y hy hk
    obtain ⟨j1, _, h1, _⟩ := producedC_primary_spec jobs x hx
    obtain ⟨j2, _, h2, _⟩ := producedC_primary_spec jobs y hy
    exact tagKey_injOn_same hk (Or.inl ⟨_, _, h1, h2⟩)

/-- **C05_matches_sorted** — the flattened output of `match` lists the primaries in
non-decreasing order (each primary's partners are contiguous), and so does every contiguous
chunk handed to a worker. -/
theorem C05_matches_sorted (files1 files2 : List (Int × Int)) (start end_ : Option Int) (mi : Int)
    (ms : List (Nat × List Nat)) (hm : matchFiles files1 files2 start end_ mi = .ok ms)
    (k : Nat) (cs : List (List (Nat × List Nat))) (hk : chunks k ms = some cs) :
    ∀ c ∈ cs, ((flattenMatches c).map (·.1)).Pairwise (· ≤ ·) := by
  intro c hcm
  exact sorted_chunk hm hk hcm

/-- **C05_worker_crash** — an exception while a match is processed (unreadable file without
`skip_file_errors`) makes the worker put the crash marker as its last object; the bundle
cached so far and all later matches are not delivered (the property makes no claim then). -/
theorem C05_worker_crash (b : Bundle) (pre post : List Job) (j : Job) (hj : j.out = .crash)
    (hc : ∀ x ∈ pre, x.out ≠ .crash) :
    ∃ is, workerItems b (pre ++ j :: post) = is ++ [.crashed] :=
  worker_crash b [] none pre post j hj hc

/-- **C05_skip_errors** (worker level) — with `skip_file_errors` a worker never crashes on an
unreadable file, and what it delivers are exactly the results of its matches that do not
involve an unreadable file. -/
theorem C05_skip_errors (b : Bundle) (bad1 bad2 : Nat → Bool) (coll : Nat → Nat → Option Result)
    (flat : List (Nat × Nat)) :
    let jobs := mkJobs (outcome true bad1 bad2 coll) flat
    Item.crashed ∉ workerItems b jobs ∧
    (bundlesOf (workerItems b jobs)).flatten.map (·.r) =
      (flat.filter (fun m => !(bad1 m.1 || bad2 m.2))).filterMap (fun m => coll m.1 m.2) := by
  intro jobs
  have hc : ∀ j ∈ jobs, j.out ≠ .crash := by
    intro j hj
    simp only [jobs, mkJobs, List.mem_map] at hj
    obtain ⟨m, _, rfl⟩ := hj
    simp only [outcome]
    split <;> simp
  obtain ⟨_, h1, h2, _⟩ := C05_worker_flush b jobs hc
  refine ⟨h2, h1.trans ?_⟩
  exact produced_mkJobs_skip bad1 bad2 coll flat

/-! ## parent: bounded queue, drain loop, every interleaving -/

/-- **C05_parent_collects_all** — for every number `n` of worker processes (queue bound
`maxsize = n`), every assignment of put-sequences to the workers and *every* interleaving of
puts, feeder-thread writes, process exits and parent steps (including stale `is_alive()`
answers inside the filter): when the parent leaves `while running:` it has received from every
worker exactly the sequence that worker put — nothing lost (no object stays in the queue after
the last child died: the filter-then-drain order of the loop suffices, no extra drain is
needed), nothing twice, per-producer order kept. -/
theorem C05_parent_collects_all (n : Nat) (items : Nat → List Item)
    (hn : ∀ w, n ≤ w → items w = []) (evs : List Event) (s : PState)
    (hr : run (initState n items) evs = some s) (hd : s.pc = .done) :
    (∀ w, gotFrom s w = items w) ∧
    (s.yielded.map (·.2)).Perm ((List.range n).flatMap items) := by
  have hi := inv_run evs (inv_init n items hn) hr
  have hg := inv_done hi hd
  refine ⟨hg, ?_⟩
  have hkeys : ∀ x ∈ s.yielded, x.1 < n := by
    intro x hx
    by_contra hlt
    have h0 := hn x.1 (Nat.le_of_not_lt hlt)
    have hmem : x.2 ∈ gotFrom s x.1 := by
      simp only [gotFrom, List.mem_map, List.mem_filter]
      exact ⟨x, ⟨hx, by simp⟩, rfl⟩
    rw [hg x.1, h0] at hmem
    cases hmem
  have := perm_by_key s.yielded n hkeys
  refine this.trans ?_
  have e : ∀ w, (s.yielded.filter (fun x => x.1 == w)).map (·.2) = items w := hg
  simp only [e]
  exact List.Perm.refl _

/-- **C05_parent_never_stuck** — in every reachable state before `done` the parent has an
enabled step (its blocking `get` is only reached when an object is in the pipe): the loop
cannot deadlock on the bounded queue. -/
theorem C05_parent_never_stuck (n : Nat) (items : Nat → List Item)
    (hn : ∀ w, n ≤ w → items w = []) (evs : List Event) (s : PState)
    (hr : run (initState n items) evs = some s) (hd : s.pc ≠ .done) :
    ∃ s', step s (.parent []) = some s' :=
  inv_parent_enabled (inv_run evs (inv_init n items hn) hr) hd

/-! ## file level -/

/-- **C05_match_complete** — if a point `a` of primary file `i` and a point `b` of secondary
file `j` (each inside its file's coverage, both valid datetimes before `datetime.max`) lie in
the period `[start, end]` — either bound may be `None` (open), and the widened period is clipped
to the datetime range as the code does — and are closer in time than `max_interval`, then
`match` succeeds and pairs file `i` with file `j`; and every file pair occurs at most once among
the flattened matches — so, points being stored in exactly one file each, every point pair is
looked at in exactly one file pair.  `mi` is the full `max_interval` in µs (days included). -/
theorem C05_match_complete (files1 files2 : List (Int × Int)) (start end_ : Option Int) (mi : Int)
    (i j : Nat) (hi : i < files1.length) (hj : j < files2.length) (ta tb : Int)
    (ha : files1[i].1 ≤ ta ∧ ta ≤ files1[i].2) (hb : files2[j].1 ≤ tb ∧ tb ≤ files2[j].2)
    (hra : dtMin ≤ ta ∧ ta < dtMax) (hrb : dtMin ≤ tb ∧ tb < dtMax)
    (hia : inPeriod start end_ ta = true) (hib : inPeriod start end_ tb = true)
    (hdt : |ta - tb| < mi) :
    ∃ ms, matchFiles files1 files2 start end_ mi = .ok ms ∧
      (i, j) ∈ flattenMatches ms ∧ (flattenMatches ms).Nodup := by
  have hdt' := abs_lt.mp hdt
  have hmi : 0 < mi := lt_of_le_of_lt (abs_nonneg _) hdt
  have m1 := mem_findIdx_widened hi ha hmi hra hia
  have m2 := mem_findIdx_widened hj hb hmi hrb hib
  have h1 := List.ne_nil_of_mem m1
  have h2 := List.ne_nil_of_mem m2
  have hok : matchFiles files1 files2 start end_ mi = .ok _ := matchPeriod_ok h1 h2
  refine ⟨_, hok, ?_, nodup_flatten_matchFiles hok⟩
  rw [mem_flatten_matchFiles hok]
  refine ⟨m1, m2, ?_⟩
  simp only [partner, List.getElem?_eq_getElem hi, List.getElem?_eq_getElem hj, Bool.and_eq_true,
    decide_eq_true_eq]
  constructor <;> omega

/-- `match` raises `NoFilesError` exactly when one fileset has no file in the widened period -/
theorem C05_match_nofiles (files1 files2 : List (Int × Int)) (start end_ : Option Int) (mi : Int) :
    matchFiles files1 files2 start end_ mi = .error .noFiles ↔
      (findIdx (wlo start mi) (whi end_ mi) files1 = [] ∨
       findIdx (wlo start mi) (whi end_ mi) files2 = []) := by
  constructor
  · intro h
    by_contra hne
    simp only [not_or] at hne
    have hok : matchFiles files1 files2 start end_ mi = .ok _ := matchPeriod_ok hne.1 hne.2
    rw [hok] at h
    cases h
  · exact matchPeriod_error

/-! ## the whole pipeline -/

/-- **C05_pipeline_delivers** — for every process count (`None`, or any `k ≥ 1`), every
bundle mode and every outcome table without a crash: the pipeline starts `min(k, #matches)`
workers and the results inside all bundles of all workers, in worker order, are exactly the
non-`None` results of the flattened match list — independent of `k` and of the bundle mode. -/
theorem C05_pipeline_delivers (b : Bundle) (oc : Nat → Nat → Outcome) (ms : List (Nat × List Nat))
    (processes : Option Nat) (hp : ∀ k, processes = some k → 1 ≤ k)
    (hc : ∀ m ∈ flattenMatches ms, oc m.1 m.2 ≠ .crash) :
    ∃ ws, pipeline b oc ms processes = .ok ws ∧
      ws.flatMap (fun is => (bundlesOf is).flatten.map (·.r)) = produced (mkJobs oc (flattenMatches ms)) ∧
      (∀ is ∈ ws, Item.crashed ∉ is) := by
  exact pipeline_delivers b oc ms processes hp hc

/-- **C05_pipeline_zero_processes** — `processes = 0` with at least one match is numpy's
`ValueError`; no matches yields nothing whatever `processes` is. -/
theorem C05_pipeline_edge (b : Bundle) (oc : Nat → Nat → Outcome) (processes : Option Nat)
    (m : Nat × List Nat) (ms : List (Nat × List Nat)) :
    pipeline b oc [] processes = .ok [] ∧
    pipeline b oc (m :: ms) (some 0) = .error .valueError := by
  constructor
  · simp [pipeline, plan]
  · simp [pipeline, plan, chunks, procCount]

/-- **C05_total_skip** — the multiset of collocations over everything the parent yields, with
`skip_file_errors=True` and *any* set of unreadable files (`bad1`, `bad2`; one unreadable file is
the special case of the property), equals the collocations between the complete data of the two
filesets **minus exactly the pairs involving an unreadable file** (`readable bad pts` empties the
unreadable files and leaves every other point in place):

* files `i < n1` / `j < n2` with coverage `cov1 i` / `cov2 j` and points `pts1 i` / `pts2 j`,
  every point inside its file's coverage and a valid datetime before `datetime.max` (each point is
  stored in exactly one file: the complete data is the concatenation of the files);
* `hcoll` (property C04): the opaque per-file-pair result of two readable files holds exactly the
  pairs of points of the two files that are `near`, closer in time than `mi` and inside the
  period `[start, end]` (either bound may be `None`);

then for every process count `k ≥ 1`/`None`, every bundle mode, every interleaving `evs` of the
queue system that ends with the parent leaving its loop, the pairs inside all yielded bundles are
a permutation of `pointPairs` over the concatenated readable data.  The right-hand side does not
mention processes, bundle mode, schedule, or how the data is split into files.
(Safety statement: it speaks about runs that reach `done`; see `C05_parent_never_stuck` and the
note on liveness below.) -/
theorem C05_total_skip (near : Nat → Nat → Bool) (mi : Int) (start end_ : Option Int)
    (n1 n2 : Nat) (cov1 cov2 : Nat → Int × Int) (pts1 pts2 : Nat → List Pt)
    (hcov1 : ∀ i < n1, ∀ a ∈ pts1 i, (cov1 i).1 ≤ a.t ∧ a.t ≤ (cov1 i).2 ∧ dtMin ≤ a.t ∧ a.t < dtMax)
    (hcov2 : ∀ j < n2, ∀ c ∈ pts2 j, (cov2 j).1 ≤ c.t ∧ c.t ≤ (cov2 j).2 ∧ dtMin ≤ c.t ∧ c.t < dtMax)
    (bad1 bad2 : Nat → Bool) (coll : Nat → Nat → Option Result)
    (hcoll : ∀ i j, bad1 i = false → bad2 j = false →
      (resultPairs (coll i j)).Perm (pointPairs near mi start end_ (pts1 i) (pts2 j)))
    (b : Bundle) (processes : Option Nat) (hp : ∀ k, processes = some k → 1 ≤ k)
    (ms : List (Nat × List Nat))
    (hm : matchFiles ((List.range n1).map cov1) ((List.range n2).map cov2) start end_ mi = .ok ms)
    (ws : List (List Item))
    (hw : pipeline b (outcome true bad1 bad2 coll) ms processes = .ok ws)
    (evs : List Event) (s : PState)
    (hr : run (initState ws.length (fun w => ws.getD w [])) evs = some s) (hd : s.pc = .done) :
    (itemsPairs (s.yielded.map (·.2))).Perm
      (pointPairs near mi start end_ ((List.range n1).flatMap (readable bad1 pts1))
        ((List.range n2).flatMap (readable bad2 pts2))) :=
  total_perm_skip near mi start end_ n1 n2 cov1 cov2 pts1 pts2 hcov1 hcov2 bad1 bad2 coll hcoll b
    processes hp ms hm ws hw evs s hr hd

/-- **C05_total** — no unreadable file (any `skip_file_errors`): the multiset of collocations
over everything yielded = `pointPairs` over the complete concatenated data, for every process
count, bundle mode, interleaving, split into files. -/
theorem C05_total (near : Nat → Nat → Bool) (mi : Int) (start end_ : Option Int)
    (n1 n2 : Nat) (cov1 cov2 : Nat → Int × Int) (pts1 pts2 : Nat → List Pt)
    (hcov1 : ∀ i < n1, ∀ a ∈ pts1 i, (cov1 i).1 ≤ a.t ∧ a.t ≤ (cov1 i).2 ∧ dtMin ≤ a.t ∧ a.t < dtMax)
    (hcov2 : ∀ j < n2, ∀ c ∈ pts2 j, (cov2 j).1 ≤ c.t ∧ c.t ≤ (cov2 j).2 ∧ dtMin ≤ c.t ∧ c.t < dtMax)
    (coll : Nat → Nat → Option Result)
    (hcoll : ∀ i j, (resultPairs (coll i j)).Perm (pointPairs near mi start end_ (pts1 i) (pts2 j)))
    (skip : Bool) (b : Bundle) (processes : Option Nat) (hp : ∀ k, processes = some k → 1 ≤ k)
    (ms : List (Nat × List Nat))
    (hm : matchFiles ((List.range n1).map cov1) ((List.range n2).map cov2) start end_ mi = .ok ms)
    (ws : List (List Item))
    (hw : pipeline b (outcome skip (fun _ => false) (fun _ => false) coll) ms processes = .ok ws)
    (evs : List Event) (s : PState)
    (hr : run (initState ws.length (fun w => ws.getD w [])) evs = some s) (hd : s.pc = .done) :
    (itemsPairs (s.yielded.map (·.2))).Perm
      (pointPairs near mi start end_ ((List.range n1).flatMap pts1) ((List.range n2).flatMap pts2)) := by
  rw [outcome_nobad] at hw
  have := total_perm_skip near mi start end_ n1 n2 cov1 cov2 pts1 pts2 hcov1 hcov2
    (fun _ => false) (fun _ => false) coll (fun i j _ _ => hcoll i j) b processes hp ms hm ws hw evs s hr hd
  simpa [readable_nobad] using this

/-- **C05_readable_one** — the property's clause: with `skip_file_errors` and exactly
one unreadable primary file `u`, a collocation `(x, y)` is yielded exactly as often as it occurs
between the complete data with file `u` emptied: all other files keep all their points. -/
theorem C05_readable_one (pts : Nat → List Pt) (u i : Nat) :
    readable (fun k => k == u) pts i = if i = u then [] else pts i := by
  simp [readable]

/-! ### Liveness
Only *safety* is proved about the queue system: every run that reaches `done` has collected
everything (`C05_parent_collects_all`), and before `done` the parent always has an enabled step
(`C05_parent_never_stuck`, so the bounded queue cannot deadlock it).  That `done` is *reached*
under a fair scheduler is not proved; it is exercised by the complete random schedules the harness
replays through `step` and by the real runs (a run that does not finish is reported as `hang`). -/

/-! ## Non-vacuity and executable sanity tests of the model (tests, not theorems) -/

-- chunks as numpy: array_split(range(8), 3) = [0,1,2],[3,4,5],[6,7]
#guard chunks 3 (List.range 8) = some [[0, 1, 2], [3, 4, 5], [6, 7]]
#guard chunks 4 (List.range 4) = some [[0], [1], [2], [3]]
#guard chunks 0 (List.range 4) = none

private def r1 : Result := { pairs := [(1, 10)], day := 5 }
private def r2 : Result := { pairs := [(2, 20), (2, 21)], day := 5 }
private def r3 : Result := { pairs := [(3, 30)], day := 6 }
private def jobsEx : List Job :=
  [⟨0, 0, .res (some r1)⟩, ⟨0, 1, .res none⟩, ⟨0, 2, .res (some r2)⟩, ⟨1, 2, .skipped⟩,
   ⟨2, 2, .res (some r3)⟩]

-- hypotheses of C05_worker_flush are satisfiable by a non-trivial job list
example : ∀ j ∈ jobsEx, j.out ≠ .crash := by decide
example : (jobsEx.map (·.prim)).Pairwise (· ≤ ·) := by decide
-- bundle=primary: r1,r2 of primary 0 in one bundle (flushed when the primary changes); the
-- skipped match of primary 1 does not shift the tags: r3 is tagged with its own primary 2
#guard workerItems .primary jobsEx =
  [.progress, .result [⟨.prim 0, r1⟩, ⟨.prim 0, r2⟩], .result [⟨.prim 2, r3⟩]]
-- the lag scenario of corpus/C05/lag_collision.json: P0 (no collocation, S0 unreadable),
-- P1 collocating with S1 and S2 -> ONE bundle for P1
#guard workerItems .primary [⟨0, 0, .skipped⟩, ⟨0, 1, .res none⟩, ⟨0, 2, .res none⟩, ⟨1, 0, .skipped⟩,
    ⟨1, 1, .res (some r1)⟩, ⟨1, 2, .res (some r2)⟩] =
  [.progress, .progress, .result [⟨.prim 1, r1⟩, ⟨.prim 1, r2⟩]]
#guard workerItems .daily jobsEx =
  [.progress, .result [⟨.day 5, r1⟩, ⟨.day 5, r2⟩], .result [⟨.day 6, r3⟩]]
#guard (workerItems .none jobsEx).length = 4
-- a crash drops the cached bundle
#guard workerItems .primary [⟨0, 0, .res (some r1)⟩, ⟨0, 1, .crash⟩, ⟨1, 1, .res (some r3)⟩] = [.crashed]

-- parent: a complete schedule of 2 workers with one object each; the second worker dies
-- between the parent's `empty()` test and its `running` filter — nothing is lost
private def itemsEx : Nat → List Item := fun w =>
  if w < 2 then [.result [⟨.prim w, r1⟩]] else []
private def schedEx : List Event :=
  [.parent [], .parent [],            -- while running: [0,1]; filter: both alive
   .put 0, .feed 0,
   .parent [], .parent [],            -- not empty -> get
   .die 0,
   .parent [],                        -- empty() = True  -> back to `while running`
   .put 1, .feed 1, .die 1,           -- the last worker puts and dies right now
   .parent [], .parent [],            -- while running (stale [0,1]) ; filter -> []
   .parent [], .parent [], .parent [],   -- drain: not empty -> get -> empty
   .parent []]                        -- while running: [] -> done
#guard (run (initState 2 itemsEx) schedEx).map (fun s => (s.pc, s.yielded.length)) = some (.done, 2)
example : ∀ w, 2 ≤ w → itemsEx w = [] := by
  intro w hw; simp [itemsEx]; omega

-- The order "filter, then drain" is essential: a parent that leaves the loop as soon as the
-- filter finds no live process (mutant M2 of notes/C05.md) loses the last object on the very
-- same worker behaviour — the model distinguishes the two programs.
private def stepNoDrain (s : PState) : Event → Option PState
  | .parent stale =>
    match s.pc with
    | .filter =>
      let r := s.running.filter (fun w => (s.ws w).alive || stale.contains w)
      some { s with running := r, pc := if r.isEmpty then .done else .emptyTest }
    | _ => step s (.parent stale)
  | e => step s e
private def runNoDrain (s : PState) : List Event → Option PState
  | [] => some s
  | e :: es => match stepNoDrain s e with
    | none => none
    | some s' => runNoDrain s' es
#guard (runNoDrain (initState 2 itemsEx) (schedEx.take 13)).map (fun s => (s.pc, s.yielded.length, s.pipe.length))
    = some (.done, 1, 1)

-- match: hypotheses of C05_match_complete are satisfiable
#guard matchFiles [(0, 10), (20, 30), (50, 60)] [(5, 6), (25, 40), (100, 200)] (some 0) (some 300) 0
    = .ok [(0, [0]), (1, [1])]
#guard matchFiles [(0, 10)] [(12, 20)] (some 0) (some 300) 5 = .ok [(0, [0])]
#guard matchFiles [(0, 10)] [(500, 600)] (some 0) (some 300) 5 = .error .noFiles
-- open period: clipped to datetime.min / datetime.max instead of overflowing
#guard matchFiles [(0, 10)] [(12, 20)] none none 5 = .ok [(0, [0])]
#guard (wlo none 5, whi none 5, wlo (some dtMin) 5, whi (some 7) 5) = (dtMin, dtMax, dtMin, 12)
-- max_interval of 36 h (in µs) pairs 6-hourly files 30 h apart
#guard matchFiles [(0, 21600000000)] [(108000000000, 129600000000)] none none 129600000000 = .ok [(0, [0])]
example : ((3 : Int) ≤ 9 ∧ (9 : Int) ≤ 10) ∧ |(9 : Int) - 13| < 5 ∧ inPeriod none (some 20) 9 = true ∧
    (dtMin ≤ 9 ∧ (9 : Int) < dtMax) := by decide

assert_axioms C05_chunks_partition C05_chunks_zero C05_worker_flush C05_one_bundle_per_primary
  C05_matches_sorted C05_worker_crash
  C05_skip_errors C05_parent_collects_all C05_parent_never_stuck C05_match_complete
  C05_match_nofiles C05_pipeline_delivers C05_pipeline_edge C05_total C05_total_skip C05_readable_one
