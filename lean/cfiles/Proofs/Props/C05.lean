import Proofs.Lemmas.Chunks
import Proofs.Lemmas.Worker
import Proofs.Lemmas.Parent
import Proofs.Lemmas.Match
import Proofs.Audit
open CFiles
theorem C05_stub : chunks 0 ([] : List Nat) = none := rfl
assert_axioms C05_stub
