import Proofs.Lemmas.Find
import Proofs.Audit
open FS TM
theorem C01_stub : True := trivial
assert_axioms C01_stub
