import Proofs.Lemmas.Spec
import Proofs.Audit
/-!
# C01 — `FileSet.find` returns exactly the files that overlap the requested period

Property theorems only; helper lemmas are in `Proofs/Lemmas/{Time,Find}.lean`, the model in
`Model/{Time,Find}.lean`.  All statements hold for every layout (any number of directory
levels: literal, `*`, user placeholders, year/year2/month/day/doy/hour in any grouping),
every population (any length, duplicates, zero-length coverages), every period, every
exclusion list and filter.

`wellPlaced cfg f` is the placement precondition of the property ("each file sits in the
directory of its start time and lasts no longer than one period of the finest directory
level"): the temporal values in the directory names are the calendar fields of `f.t0`,
`t0 ≤ t1 ≤ datetime.max`, and — when the directory part holds a temporal placeholder —
`t1 - t0 ≤ _sub_dir_time_resolution` (366 d / 31 d / 1 d / 1 h as the code defines it;
`TM.period_le_res`: every real month / year is at most that long).

`layoutSupported` (a directory level with temporal placeholders has a year at or above it)
is not a hypothesis of any theorem: it delimits the templates on which the model is tied
to the code (elsewhere `_to_datetime_args` raises out of `find`); the driver reports it and
the harness generates only such templates.
-/
open FS TM

/-- **C01_nothing_else** (soundness, no placement hypothesis): whatever `find` yields —
sorted or not, bundled or not — is a file of the population whose coverage `[t0, t1]`
meets the semi-open period (`t0 < end`, `t1 ≥ start`), that is excluded neither by name
nor by an excluded period, and that passes the white- and the black-list; and the answer
is, up to order, a sub-list of the population (nothing is yielded more often than it
occurs there). -/
theorem C01_nothing_else (cfg : Config) (q : Query) (sort : Bool) (b : Bundle) (nf : Bool)
    (pop : List FileRec) (out : Out) (h : find cfg q sort b nf pop = .ok out) :
    (∀ f ∈ Out.files out, f ∈ pop ∧ Selected cfg q.filters (startOf q) (stopOf q) f) ∧
    ∃ l, (Out.files out).Perm l ∧ l.Sublist pop := by
  obtain ⟨raw, hr, hprep⟩ := find_ok h
  obtain ⟨s, e, ds, hper, rfl⟩ := findRaw_ok hr
  have hperm := prepare_files_perm hprep
  obtain ⟨hs, he, _, _⟩ := period_ok hper
  constructor
  · intro f hf
    have hf' := (hperm.mem_iff).mp hf
    obtain ⟨hpop, hk⟩ := List.mem_filter.mp hf'
    refine ⟨hpop, ?_⟩
    rw [← hs]
    exact (sel_iff f he).mp (sel_of_keep hk)
  · exact ⟨_, hperm, List.filter_sublist⟩

/-- **C01_dir_kept_of_overlap** (pruning completeness): with the look-back
`dir_start = start - resolution`, every directory level of a well-placed file whose
coverage meets the period is kept by `_check_placeholders` — in each of its three
outcomes (full date comparison, year-only fall-back, no year). -/
theorem C01_dir_kept_of_overlap (cfg : Config) (q : Query) (s e ds : Nat) (f : FileRec)
    (hper : period cfg q = .ok (s, e, ds)) (hwp : wellPlaced cfg f = true)
    (hw : whiteOk q.filters.white f.users = true) (h0 : f.t0 < stopOf q) (h1 : startOf q ≤ f.t1) :
    dirsOk q.filters.white ds e [] {} cfg.layout f.dirs = true := by
  obtain ⟨hs, he, _, _⟩ := period_ok hper
  exact dirs_kept hper hwp hw (by omega) (by omega)

/-- **C01_find_spec**: for a well-placed population, `find(start, end)` with the default `sort=True` equals the *stable sort
by `(t0, t1)` of the population filtered by the selection predicate* — whenever the period
is valid (`period … = ok`, i.e. `start < end` and no `OverflowError`).  Consequently the
answer is a permutation of the selected files (each as often as it occurs: exactly once for
distinct files), ordered by `(t0, t1)`, it contains exactly the selected files, and
`NoFilesError` is raised iff `no_files_error` and nothing is selected. -/
theorem C01_find_spec (cfg : Config) (q : Query) (pop : List FileRec) (nf : Bool)
    (hwp : ∀ f ∈ pop, wellPlaced cfg f = true) (s e ds : Nat)
    (hper : period cfg q = .ok (s, e, ds)) :
    let chosen := pop.filter (sel cfg q.filters s e)
    (∀ f, f ∈ chosen ↔ f ∈ pop ∧ Selected cfg q.filters (startOf q) (stopOf q) f) ∧
    findRaw cfg q pop = .ok chosen ∧
    find cfg q true .none nf pop =
      (if nf && chosen.isEmpty then .error .noFiles else .ok (.flat (sortFiles chosen))) ∧
    (sortFiles chosen).Perm chosen ∧
    (sortFiles chosen).Pairwise KeyLe ∧
    ((pop.map (·.id)).Nodup → ((sortFiles chosen).map (·.id)).Nodup) := by
  intro chosen
  obtain ⟨hs, he, _, _⟩ := period_ok hper
  have hfilter : pop.filter (keep cfg q.filters s e ds) = chosen := by
    apply List.filter_congr
    intro f hf
    exact keep_eq_sel hper (hwp f hf)
  have hraw : findRaw cfg q pop = .ok chosen := by
    unfold findRaw; rw [hper]; simp only []; rw [hfilter]
  refine ⟨?_, hraw, ?_, sortFiles_perm _, ?_, ?_⟩
  · intro f
    rw [List.mem_filter, sel_iff f he, hs]
  · unfold find; rw [hraw]; simp only [prepare, if_true]
  · exact (sortFiles_sorted chosen).imp (fun h => (keyLe_iff _ _).mp h)
  · intro hnd
    have h1 : (chosen.map (·.id)).Nodup :=
      List.Nodup.sublist (List.Sublist.map _ List.filter_sublist) hnd
    exact ((sortFiles_perm chosen).map _).nodup_iff.mpr h1

/-- `find(t, t)`, or any period with `end ≤ start`, raises `ValueError` -/
theorem C01_value_error (cfg : Config) (q : Query) (sort : Bool) (b : Bundle) (nf : Bool)
    (pop : List FileRec) (h0 : stopOf q ≠ 0) (h : stopOf q ≤ startOf q) :
    find cfg q sort b nf pop = .error .valueError := by
  have : period cfg q = .error .valueError := by
    unfold period; rw [if_neg h0, if_pos (by omega)]
  unfold find findRaw; rw [this]

/-- **C01_bundle_partition**: bundling only partitions the sorted sequence.  Bundles by
count: their concatenation *is* the sorted answer, none is empty, none longer than `n`.
Bundles by a fixed frequency `w`: their concatenation *is* the sorted answer, none is
empty, each lies in one bin `t0 / w`, and there is exactly one bundle per occupied bin, the
bins strictly ascending (files of an earlier bundle lie in a strictly smaller bin than
files of a later one). -/
theorem C01_bundle_partition (cfg : Config) (q : Query) (b : Bundle) (nf : Bool)
    (pop : List FileRec) (bs : List (List FileRec))
    (h : find cfg q true b nf pop = .ok (.bundles bs)) :
    ∃ raw, findRaw cfg q pop = .ok raw ∧
      (∀ x ∈ bs, x ≠ []) ∧
      match b with
      | .none => False
      | .count n => bs.flatten = sortFiles raw ∧ ∀ x ∈ bs, x.length ≤ n
      | .freq w => bs.flatten = sortFiles raw ∧
          (∀ x ∈ bs, ∀ f ∈ x, ∀ g ∈ x, f.t0 / w = g.t0 / w) ∧
          bs.Pairwise (fun x y => ∀ f ∈ x, ∀ g ∈ y, f.t0 / w < g.t0 / w) := by
  obtain ⟨raw, hr, hprep⟩ := find_ok h
  refine ⟨raw, hr, ?_⟩
  unfold prepare at hprep
  cases b with
  | none => simp at hprep
  | count n =>
    by_cases hn : n = 0
    · simp [hn] at hprep
    · simp only [hn, if_false, Except.ok.injEq, Out.bundles.injEq] at hprep
      subst hprep
      have hp := chunksAux_props (α := FileRec) n (by omega) (sortFiles raw).length (sortFiles raw)
      exact ⟨fun x hx => (hp x hx).1,
        chunksAux_flatten n (by omega) _ _ (le_refl _), fun x hx => (hp x hx).2⟩
  | freq w =>
    simp only [] at hprep
    split at hprep
    · cases hprep
    · simp only [Except.ok.injEq, Out.bundles.injEq] at hprep
      subst hprep
      obtain ⟨hp, hb⟩ := groupByBin_props w (sortFiles raw)
      exact ⟨fun x hx => (hb x hx).1, groupByBin_sortFiles_flatten w raw,
        fun x hx f hf g hg => (hb x hx).2 f hf g hg, groupByBin_ascending w (sortFiles raw)⟩

/-- **C01_contains_iff**: `t in fileset` is true iff some non-excluded file of the
(well-placed) population covers `t` -/
theorem C01_contains_iff (cfg : Config) (pop : List FileRec) (t : Nat) (r : Bool)
    (hwp : ∀ f ∈ pop, wellPlaced cfg f = true) (h : containsT cfg pop t = .ok r) :
    (r = true ↔ ∃ f ∈ pop, f.t0 ≤ t ∧ t ≤ f.t1 ∧ isExcluded cfg f = false) := by
  unfold containsT at h
  by_cases ht : t ≥ maxT
  · simp [ht] at h
  · simp only [ht, if_false] at h
    cases hr : findRaw cfg { start := some t, stop := some (t + 1) } pop with
    | error err => rw [hr] at h; cases h
    | ok raw =>
      rw [hr] at h
      simp only [Except.ok.injEq] at h
      obtain ⟨s, e, ds, hper, rfl⟩ := findRaw_ok hr
      obtain ⟨hs, he, _, _⟩ := period_ok hper
      have hs' : s = t := hs
      have he' : e = t := by have : e + 1 = t + 1 := he; omega
      subst hs'; subst he'
      rw [← h]
      simp only [Bool.not_eq_true', List.isEmpty_eq_false_iff_exists_mem]
      constructor
      · rintro ⟨f, hf⟩
        obtain ⟨hpop, hk⟩ := List.mem_filter.mp hf
        have := sel_of_keep hk
        unfold sel overlaps at this
        simp only [Bool.and_eq_true, decide_eq_true_eq, Bool.not_eq_true'] at this
        exact ⟨f, hpop, this.1.1.1.1, this.1.1.1.2, this.1.1.2⟩
      · rintro ⟨f, hpop, h1, h2, h3⟩
        refine ⟨f, List.mem_filter.mpr ⟨hpop, keep_of_sel hper (hwp f hpop) ?_⟩⟩
        unfold sel overlaps
        simp only [Bool.and_eq_true, decide_eq_true_eq, Bool.not_eq_true']
        exact ⟨⟨⟨⟨h1, h2⟩, h3⟩, by simp [whiteOk]⟩, by simp [blackOk]⟩

/-- **C01_len_eq**: `len(fileset)` is the number of non-excluded files (that start before
`datetime.max`, the default end being exclusive) — `0` for an empty population -/
theorem C01_len_eq (cfg : Config) (pop : List FileRec)
    (hwp : ∀ f ∈ pop, wellPlaced cfg f = true) :
    len cfg pop = .ok (pop.filter fun f => decide (f.t0 < maxT) && !isExcluded cfg f).length := by
  have hper : period cfg {} = .ok (0, maxT - 1, 0) := by
    unfold period startOf stopOf
    have : maxT ≠ 0 := by decide
    simp only [this, if_false]
    rw [if_neg (by omega)]
    cases subDirRes cfg.layout <;> rfl
  unfold len findRaw
  rw [hper]
  simp only []
  congr 2
  apply List.filter_congr
  intro f hf
  rw [keep_eq_sel hper (hwp f hf)]
  have hw := hwp f hf
  unfold wellPlaced at hw
  simp only [Bool.and_eq_true, decide_eq_true_eq] at hw
  have hpos : 0 < maxT := by decide
  unfold sel overlaps
  have e1 : whiteOk ({} : Query).filters.white f.users = true := by simp [whiteOk]
  have e2 : blackOk ({} : Query).filters.black f.users = true := by simp [blackOk]
  rw [e1, e2]
  simp only [Bool.and_true]
  congr 1
  apply decide_eq_decide.mpr
  constructor
  · intro h; omega
  · intro h; omega

/-- **C01_layout_independent**: re-arranging the same files (same id, coverage and
placeholder values) into another well-placed directory layout does not change the answer -/
theorem C01_layout_independent (cfg₁ cfg₂ : Config) (q : Query) (pop : List FileRec)
    (move : FileRec → FileRec)
    (hx : cfg₂.exclNames = cfg₁.exclNames ∧ cfg₂.exclTimes = cfg₁.exclTimes)
    (hmove : ∀ f, (move f).id = f.id ∧ (move f).users = f.users ∧ (move f).t0 = f.t0 ∧
      (move f).t1 = f.t1)
    (hwp₁ : ∀ f ∈ pop, wellPlaced cfg₁ f = true)
    (hwp₂ : ∀ f ∈ pop, wellPlaced cfg₂ (move f) = true)
    (raw₁ raw₂ : List FileRec)
    (h₁ : findRaw cfg₁ q pop = .ok raw₁) (h₂ : findRaw cfg₂ q (pop.map move) = .ok raw₂) :
    raw₂ = raw₁.map move := by
  obtain ⟨s₁, e₁, ds₁, hper₁, rfl⟩ := findRaw_ok h₁
  obtain ⟨s₂, e₂, ds₂, hper₂, rfl⟩ := findRaw_ok h₂
  obtain ⟨a1, a2, _, _⟩ := period_ok hper₁
  obtain ⟨b1, b2, _, _⟩ := period_ok hper₂
  have hs : s₂ = s₁ := by omega
  have he : e₂ = e₁ := by omega
  subst hs; subst he
  rw [List.filter_map]
  congr 1
  apply List.filter_congr
  intro f hf
  simp only [Function.comp]
  rw [keep_eq_sel hper₂ (hwp₂ f hf), keep_eq_sel hper₁ (hwp₁ f hf)]
  obtain ⟨m1, m2, m3, m4⟩ := hmove f
  unfold sel overlaps isExcluded
  rw [m1, m2, m3, m4, hx.1, hx.2]

/-! ### non-vacuity -/

/-- `/{year}/{month}/{day}/…`: a file in the directory of 2018-01-31 lasting from 18:00
to 02:00 of 1 February (crossing midnight into the next month) is well placed; with the
query `[2018-02-01 00:00, 2018-02-02 00:00)` it is found thanks to the look-back. -/
def exLayout : List Chunk :=
  [⟨false, [.year]⟩, ⟨false, [.month]⟩, ⟨false, [.day]⟩]
def exCfg : Config := { layout := exLayout }
def exT0 : Nat := ((dby 2018 + 30) * 24 + 18) * usPerHour          -- 2018-01-31T18:00
def exT1 : Nat := ((dby 2018 + 31) * 24 + 2) * usPerHour           -- 2018-02-01T02:00
def exFile : FileRec :=
  { id := 7, dirs := [⟨{ year := some 2018 }, []⟩, ⟨{ month := some 1 }, []⟩, ⟨{ day := some 31 }, []⟩],
    users := [], t0 := exT0, t1 := exT1 }
def exQuery : Query :=
  { start := some ((dby 2018 + 31) * usPerDay), stop := some ((dby 2018 + 32) * usPerDay) }

example : wellPlaced exCfg exFile = true := by decide +kernel
example : layoutSupported [] exLayout = true := by decide +kernel
example : period exCfg exQuery =
    .ok ((dby 2018 + 31) * usPerDay, (dby 2018 + 32) * usPerDay - 1, (dby 2018 + 30) * usPerDay) := by
  decide +kernel
#guard (match find exCfg exQuery true .none true [exFile] with
  | .ok (.flat [f]) => f.id == 7 | _ => false)
-- without the look-back the directory 2018/01/31 would have been pruned:
#guard dirsOk [] ((dby 2018 + 31) * usPerDay) ((dby 2018 + 32) * usPerDay - 1) [] {} exLayout exFile.dirs == false
-- bundling: three files, bundles of two
#guard (match find { layout := [] } {} true (.count 2) false
    [⟨0, [], [], 50, 60⟩, ⟨1, [], [], 10, 20⟩, ⟨2, [], [], 10, 15⟩] with
  | .ok (.bundles [[a, b], [c]]) => a.id == 2 && b.id == 1 && c.id == 0 | _ => false)
#guard (match find { layout := [] } {} true (.freq 100) false
    [⟨0, [], [], 250, 260⟩, ⟨1, [], [], 110, 120⟩, ⟨2, [], [], 199, 300⟩] with
  | .ok (.bundles [[a, b], [c]]) => a.id == 1 && b.id == 2 && c.id == 0 | _ => false)
-- exclusion and filters really remove files
#guard (match find { layout := [], exclTimes := [(15, 16)] } { filters := { black := [("sat", ["A"])] } } true .none false
    [⟨0, [], [("sat", "B")], 50, 60⟩, ⟨1, [], [("sat", "AB")], 10, 12⟩, ⟨2, [], [("sat", "B")], 10, 15⟩] with
  | .ok (.flat [a]) => a.id == 0 | _ => false)

-- membership, length, ValueError
#guard (match containsT exCfg [exFile] (exT0 + 5) with | .ok true => true | _ => false)
#guard (match containsT exCfg [exFile] (exT1 + 1) with | .ok false => true | _ => false)
#guard (match len exCfg [exFile] with | .ok 1 => true | _ => false)
#guard (match len exCfg [] with | .ok 0 => true | _ => false)
#guard (match find exCfg { start := some exT0, stop := some exT0 } true .none false [exFile] with
  | .error .valueError => true | _ => false)
-- the same file in a `{year}{doy}` layout is well placed as well and found by the same query
def exCfg2 : Config := { layout := [⟨false, [.year, .doy]⟩] }
def exFile2 : FileRec := { exFile with dirs := [⟨{ year := some 2018, doy := some 31 }, []⟩] }
example : wellPlaced exCfg2 exFile2 = true := by decide +kernel
#guard (match findRaw exCfg2 exQuery [exFile2], findRaw exCfg exQuery [exFile] with
  | .ok [a], .ok [b] => a.id == 7 && b.id == 7 | _, _ => false)

assert_axioms C01_nothing_else C01_dir_kept_of_overlap C01_find_spec C01_value_error
  C01_bundle_partition C01_contains_iff C01_len_eq C01_layout_independent
