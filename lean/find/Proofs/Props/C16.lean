import Proofs.Lemmas.Closest
import Proofs.Lemmas.Spec
import Proofs.Audit
/-!
# C16 — indexing a fileset by a timestamp returns the covering or the nearest file

Property theorems only; model `Model/Closest.lean` (on top of C01's `Model/Find.lean`),
helper lemmas `Proofs/Lemmas/Closest.lean`.

Vocabulary.  `window cfg t filters = ok q`: `q` is the neighbourhood `[t - r, t + r)` of one
sub-directory period around `t` (all time without directory part).  A file `g` *belongs to
the neighbourhood* when `Selected cfg (filtersOf filters) (startOf q) (stopOf q) g`: its
coverage meets the window, it is not excluded and passes the filters (C01's predicate).
`ExactOK`: the file named `get_filename(t)` — if the population has it — covers `t`
(true for timestamps "given at the resolution of the file names", the property's
quantifier).
-/
open FS TM

/-- the exact-name candidate is a file of the population whose coverage contains `t` -/
def ExactOK (pop : List FileRec) (t : Nat) (exact : Option FileRec) : Prop :=
  ∀ g, exact = some g → g ∈ pop ∧ g.t0 ≤ t ∧ t ≤ g.t1

private theorem covers_iff (t : Nat) (f : FileRec) : covers t f = true ↔ f.t0 ≤ t ∧ t ≤ f.t1 := by
  unfold covers; simp

private theorem shortcut_some {cfg : Config} {filters : Option Filters} {exact : Option FileRec}
    {f : FileRec} (h : shortcut cfg filters exact = some f) :
    filters = none ∧ exact = some f ∧ isExcluded cfg f = false := by
  unfold shortcut at h
  cases filters with
  | some F => simp at h
  | none =>
    cases exact with
    | none => simp at h
    | some g =>
      simp only [] at h
      cases hx : isExcluded cfg g with
      | true => simp [hx] at h
      | false =>
        simp [hx] at h
        subst h
        exact ⟨rfl, rfl, hx⟩

/-- a file returned by the short-cut belongs to the neighbourhood -/
private theorem shortcut_selected {cfg : Config} {pop : List FileRec} {t : Nat}
    {filters : Option Filters} {exact : Option FileRec} {f : FileRec} {q : Query}
    (hex : ExactOK pop t exact) (h : shortcut cfg filters exact = some f)
    (hq : window cfg t filters = .ok q) (ht : t < maxT) :
    f ∈ pop ∧ Selected cfg (filtersOf filters) (startOf q) (stopOf q) f ∧ covers t f = true := by
  obtain ⟨hf, he, hx⟩ := shortcut_some h
  obtain ⟨hp, h0, h1⟩ := hex f he
  obtain ⟨w1, w2, _⟩ := window_ok hq ht
  subst hf
  refine ⟨hp, ⟨by omega, by omega, ?_, by simp [filtersOf, whiteOk], by simp [filtersOf, blackOk]⟩,
    (covers_iff t f).mpr ⟨h0, h1⟩⟩
  rw [← isExcluded_iff]; simp [hx]

/-- the shape of a successful `find_closest` that went through `find` -/
private theorem closest_via_find {cfg : Config} {pop : List FileRec} {t : Nat}
    {filters : Option Filters} {exact : Option FileRec} {r : Except Err FileRec}
    (h : findClosest cfg pop t filters exact = r) (hs : shortcut cfg filters exact = none) :
    (∃ err, r = .error err ∧ (window cfg t filters = .error err ∨
        ∃ q, window cfg t filters = .ok q ∧ findRaw cfg q pop = .error err)) ∨
    ∃ q files, window cfg t filters = .ok q ∧ findRaw cfg q pop = .ok files ∧
      ((files = [] ∧ r = .error .noFiles) ∨
       (files ≠ [] ∧ ∃ f, r = .ok f ∧
          (files.find? (covers t) = some f ∨
           (files.find? (covers t) = none ∧ argminFirst t files = some f)))) := by
  unfold findClosest at h
  rw [hs] at h
  simp only [] at h
  cases hw : window cfg t filters with
  | error err => rw [hw] at h; exact Or.inl ⟨err, h.symm, Or.inl rfl⟩
  | ok q =>
    rw [hw] at h
    simp only [] at h
    cases hr : findRaw cfg q pop with
    | error err => rw [hr] at h; exact Or.inl ⟨err, h.symm, Or.inr ⟨q, rfl, hr⟩⟩
    | ok files =>
      rw [hr] at h
      simp only [] at h
      refine Or.inr ⟨q, files, rfl, hr, ?_⟩
      by_cases he : files.isEmpty = true
      · rw [if_pos he] at h
        exact Or.inl ⟨by simpa using he, h.symm⟩
      · rw [if_neg he] at h
        have hne : files ≠ [] := by simpa using he
        refine Or.inr ⟨hne, ?_⟩
        cases hf : files.find? (covers t) with
        | some f => rw [hf] at h; exact ⟨f, h.symm, Or.inl rfl⟩
        | none =>
          rw [hf] at h
          simp only [] at h
          cases ha : argminFirst t files with
          | none => exact absurd ha (argminFirst_ne_none t files hne)
          | some f => rw [ha] at h; exact ⟨f, h.symm, Or.inr ⟨rfl, rfl⟩⟩

private theorem raw_selected {cfg : Config} {q : Query} {pop files : List FileRec}
    (hr : findRaw cfg q pop = .ok files) :
    ∀ f ∈ files, f ∈ pop ∧ Selected cfg q.filters (startOf q) (stopOf q) f := by
  obtain ⟨s, e, ds, hper, rfl⟩ := findRaw_ok hr
  obtain ⟨hs, he, _, _⟩ := period_ok hper
  intro f hf
  obtain ⟨hp, hk⟩ := List.mem_filter.mp hf
  exact ⟨hp, by rw [← hs]; exact (sel_iff f he).mp (sel_of_keep hk)⟩

private theorem raw_complete {cfg : Config} {q : Query} {pop files : List FileRec}
    (hwp : ∀ f ∈ pop, wellPlaced cfg f = true) (hr : findRaw cfg q pop = .ok files) :
    ∀ f ∈ pop, Selected cfg q.filters (startOf q) (stopOf q) f → f ∈ files := by
  obtain ⟨s, e, ds, hper, rfl⟩ := findRaw_ok hr
  obtain ⟨hs, he, _, _⟩ := period_ok hper
  intro f hf hsel
  rw [← hs] at hsel
  exact List.mem_filter.mpr ⟨hf, keep_of_sel hper (hwp f hf) ((sel_iff f he).mpr hsel)⟩

/-- **C16_member** (no placement hypothesis): the file `find_closest` returns is a file of
the population that belongs to the neighbourhood of `t` — it is never excluded, never
rejected by the filters, never outside `t ± one sub-directory period`. -/
theorem C16_member (cfg : Config) (pop : List FileRec) (t : Nat) (filters : Option Filters)
    (exact : Option FileRec) (f : FileRec) (q : Query) (ht : t < maxT)
    (hex : ExactOK pop t exact) (hq : window cfg t filters = .ok q)
    (h : findClosest cfg pop t filters exact = .ok f) :
    f ∈ pop ∧ Selected cfg (filtersOf filters) (startOf q) (stopOf q) f := by
  cases hs : shortcut cfg filters exact with
  | some g =>
    have : f = g := by unfold findClosest at h; rw [hs] at h; simp only [] at h; cases h; rfl
    subst this
    exact ⟨(shortcut_selected hex hs hq ht).1, (shortcut_selected hex hs hq ht).2.1⟩
  | none =>
    obtain ⟨_, _, hqf⟩ := window_ok hq ht
    rcases closest_via_find h hs with ⟨err, he, _⟩ | ⟨q', files, hq', hr, hcase⟩
    · cases he
    · rw [hq] at hq'; cases hq'
      rcases hcase with ⟨_, he⟩ | ⟨_, g, hg, hfound⟩
      · cases he
      · cases hg
        have hmem : f ∈ files := by
          rcases hfound with h1 | ⟨_, h2⟩
          · exact List.mem_of_find?_eq_some h1
          · exact (argminFirst_spec t files f h2).1
        rw [← hqf]
        exact raw_selected hr f hmem

/-- **C16_covering**: when a file of the neighbourhood covers `t`, the returned file covers
`t` (population well placed, so that `find` misses none — C01). -/
theorem C16_covering (cfg : Config) (pop : List FileRec) (t : Nat) (filters : Option Filters)
    (exact : Option FileRec) (f : FileRec) (q : Query) (ht : t < maxT)
    (hwp : ∀ f ∈ pop, wellPlaced cfg f = true)
    (hex : ExactOK pop t exact) (hq : window cfg t filters = .ok q)
    (h : findClosest cfg pop t filters exact = .ok f)
    (hcov : ∃ g ∈ pop, Selected cfg (filtersOf filters) (startOf q) (stopOf q) g ∧ g.t0 ≤ t ∧ t ≤ g.t1) :
    f.t0 ≤ t ∧ t ≤ f.t1 := by
  cases hs : shortcut cfg filters exact with
  | some g =>
    have : f = g := by unfold findClosest at h; rw [hs] at h; simp only [] at h; cases h; rfl
    subst this
    exact (covers_iff t f).mp (shortcut_selected hex hs hq ht).2.2
  | none =>
    obtain ⟨_, _, hqf⟩ := window_ok hq ht
    rcases closest_via_find h hs with ⟨err, he, _⟩ | ⟨q', files, hq', hr, hcase⟩
    · cases he
    · rw [hq] at hq'; cases hq'
      rcases hcase with ⟨_, he⟩ | ⟨_, g, hg, hfound⟩
      · cases he
      · cases hg
        obtain ⟨g, hgp, hgs, hg0, hg1⟩ := hcov
        rw [← hqf] at hgs
        have hgm := raw_complete hwp hr g hgp hgs
        rcases hfound with h1 | ⟨h2, _⟩
        · exact (covers_iff t f).mp (List.find?_some h1)
        · have := List.find?_eq_none.mp h2 g hgm
          exact absurd ((covers_iff t g).mpr ⟨hg0, hg1⟩) this

/-- **C16_nearest**: when no file of the neighbourhood covers `t`, the returned file
belongs to the neighbourhood and minimises `min(|t0 - t|, |t1 - t|)` over it. -/
theorem C16_nearest (cfg : Config) (pop : List FileRec) (t : Nat) (filters : Option Filters)
    (exact : Option FileRec) (f : FileRec) (q : Query) (ht : t < maxT)
    (hwp : ∀ f ∈ pop, wellPlaced cfg f = true)
    (hex : ExactOK pop t exact) (hq : window cfg t filters = .ok q)
    (h : findClosest cfg pop t filters exact = .ok f)
    (hnone : ¬ ∃ g ∈ pop, Selected cfg (filtersOf filters) (startOf q) (stopOf q) g ∧ g.t0 ≤ t ∧ t ≤ g.t1) :
    f ∈ pop ∧ Selected cfg (filtersOf filters) (startOf q) (stopOf q) f ∧
    ∀ g ∈ pop, Selected cfg (filtersOf filters) (startOf q) (stopOf q) g → dist t f ≤ dist t g := by
  have hmem := C16_member cfg pop t filters exact f q ht hex hq h
  refine ⟨hmem.1, hmem.2, ?_⟩
  cases hs : shortcut cfg filters exact with
  | some g =>
    exfalso
    obtain ⟨a, b, c⟩ := shortcut_selected hex hs hq ht
    exact hnone ⟨g, a, b, (covers_iff t g).mp c⟩
  | none =>
    obtain ⟨_, _, hqf⟩ := window_ok hq ht
    rcases closest_via_find h hs with ⟨err, he, _⟩ | ⟨q', files, hq', hr, hcase⟩
    · cases he
    · rw [hq] at hq'; cases hq'
      rcases hcase with ⟨_, he⟩ | ⟨_, g, hg, hfound⟩
      · cases he
      · cases hg
        rcases hfound with h1 | ⟨_, h2⟩
        · exfalso
          have hm := List.mem_of_find?_eq_some h1
          have hsel := raw_selected hr f hm
          rw [hqf] at hsel
          exact hnone ⟨f, hsel.1, hsel.2, (covers_iff t f).mp (List.find?_some h1)⟩
        · intro g hgp hgs
          rw [← hqf] at hgs
          exact (argminFirst_spec t files f h2).2 g (raw_complete hwp hr g hgp hgs)

/-- **C16_none**: when no file belongs to the neighbourhood, `find_closest` reports
`NoFilesError` — it never falls back to a far-away, filtered or excluded file (no
placement hypothesis needed). -/
theorem C16_none (cfg : Config) (pop : List FileRec) (t : Nat) (filters : Option Filters)
    (exact : Option FileRec) (q : Query) (ht : t < maxT)
    (hex : ExactOK pop t exact) (hq : window cfg t filters = .ok q)
    (s e ds : Nat) (hper : period cfg q = .ok (s, e, ds))
    (hnone : ∀ g ∈ pop, ¬ Selected cfg (filtersOf filters) (startOf q) (stopOf q) g) :
    findClosest cfg pop t filters exact = .error .noFiles := by
  cases hs : shortcut cfg filters exact with
  | some g =>
    exfalso
    obtain ⟨a, b, _⟩ := shortcut_selected hex hs hq ht
    exact hnone g a b
  | none =>
    obtain ⟨_, _, hqf⟩ := window_ok hq ht
    rcases closest_via_find (r := findClosest cfg pop t filters exact) rfl hs with
      ⟨err, he, hcase⟩ | ⟨q', files, hq', hr, hcase⟩
    · rcases hcase with h1 | ⟨q', hq', h2⟩
      · rw [hq] at h1; cases h1
      · rw [hq] at hq'; cases hq'
        unfold findRaw at h2; rw [hper] at h2; cases h2
    · rw [hq] at hq'; cases hq'
      rcases hcase with ⟨_, he⟩ | ⟨hne, g, _, hfound⟩
      · exact he
      · exfalso
        have hm : g ∈ files := by
          rcases hfound with h1 | ⟨_, h2⟩
          · exact List.mem_of_find?_eq_some h1
          · exact (argminFirst_spec t files g h2).1
        have hsel := raw_selected hr g hm
        rw [hqf] at hsel
        exact hnone g hsel.1 hsel.2

/-- **C16_single_file**: a single-file fileset answers with its one file for every
timestamp and every filter argument whenever that file exists (and raises `ValueError`
when its path is not an existing file). -/
theorem C16_single_file {α : Type} (file : α) (t : Nat) (filters : Option Filters) :
    closestSingle true file t filters = .ok file ∧
    closestSingle false file t filters = .error .valueError :=
  ⟨rfl, rfl⟩

/-! ### non-vacuity: daily directories, files 06:00–07:00 on 11, 12 and 15 January 2018 -/

def c16Layout : List Chunk := [⟨false, [.year]⟩, ⟨false, [.month]⟩, ⟨false, [.day]⟩]
def c16Cfg : Config := { layout := c16Layout }
def c16File (i day : Nat) : FileRec :=
  { id := i, dirs := [⟨{ year := some 2018 }, []⟩, ⟨{ month := some 1 }, []⟩, ⟨{ day := some (day + 1) }, []⟩],
    users := [], t0 := ((dby 2018 + day) * 24 + 6) * usPerHour, t1 := ((dby 2018 + day) * 24 + 7) * usPerHour }
def c16Pop : List FileRec := [c16File 0 10, c16File 1 11, c16File 2 14]

example : ∀ f ∈ c16Pop, wellPlaced c16Cfg f = true := by decide +kernel
-- inside the second file: covering
#guard (match findClosest c16Cfg c16Pop (((dby 2018 + 11) * 24 + 6) * usPerHour + 5) none none with
  | .ok f => f.id == 1 | _ => false)
-- 13 January 18:00: file 1 ended 35 h ago, file 2 starts in 36 h: nothing within ±1 d -> NoFilesError
#guard (match findClosest c16Cfg c16Pop (((dby 2018 + 12) * 24 + 18) * usPerHour) none none with
  | .error .noFiles => true | _ => false)
-- 13 January 03:00: nearest within one day is file 1 (ended 20 h ago) — file 2 is 51 h away, outside
#guard (match findClosest c16Cfg c16Pop (((dby 2018 + 12) * 24 + 3) * usPerHour) none none with
  | .ok f => f.id == 1 | _ => false)
-- excluded exact-name file is not returned by the short-cut
#guard (match findClosest { c16Cfg with exclNames := [1] } c16Pop (((dby 2018 + 11) * 24 + 6) * usPerHour) none
    (some (c16File 1 11)) with
  | .ok f => f.id == 0 | _ => false)

assert_axioms C16_member C16_covering C16_nearest C16_none C16_single_file
