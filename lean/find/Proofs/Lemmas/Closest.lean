import Model.Closest
import Proofs.Lemmas.Find
/-!
Helper lemmas for C16 about `Model/Closest.lean`: specification of `argminFirst`
(`np.argmin`), of `List.find?` for the covering file, and of the search window.
-/
namespace FS
open TM

theorem argminFirst_spec (t : Nat) :
    ∀ (l : List FileRec) (f : FileRec), argminFirst t l = some f →
      f ∈ l ∧ ∀ g ∈ l, dist t f ≤ dist t g := by
  intro l
  induction l with
  | nil => intro f h; simp [argminFirst] at h
  | cons a l ih =>
    intro f h
    unfold argminFirst at h
    cases hr : argminFirst t l with
    | none =>
      rw [hr] at h
      simp only [Option.some.injEq] at h
      subst h
      have hl : l = [] := by
        cases l with
        | nil => rfl
        | cons b l' =>
          exfalso
          unfold argminFirst at hr
          cases h2 : argminFirst t l' with
          | none => rw [h2] at hr; simp at hr
          | some g => rw [h2] at hr; simp only [] at hr; split at hr <;> cases hr
      subst hl
      exact ⟨by simp, by intro g hg; simp at hg; subst hg; exact le_refl _⟩
    | some g =>
      rw [hr] at h
      simp only [] at h
      obtain ⟨hg, hmin⟩ := ih g hr
      by_cases hc : dist t a ≤ dist t g
      · rw [if_pos hc] at h
        simp only [Option.some.injEq] at h
        subst h
        refine ⟨by simp, ?_⟩
        intro x hx
        rcases List.mem_cons.mp hx with h1 | h1
        · subst h1; exact le_refl _
        · exact le_trans hc (hmin x h1)
      · rw [if_neg hc] at h
        simp only [Option.some.injEq] at h
        subst h
        refine ⟨List.mem_cons_of_mem _ hg, ?_⟩
        intro x hx
        rcases List.mem_cons.mp hx with h1 | h1
        · subst h1; omega
        · exact hmin x h1

theorem argminFirst_ne_none (t : Nat) (l : List FileRec) (h : l ≠ []) : argminFirst t l ≠ none := by
  cases l with
  | nil => exact absurd rfl h
  | cons a l =>
    unfold argminFirst
    cases argminFirst t l with
    | none => simp
    | some g => simp only []; split <;> simp

/-- the window is `[t - r, t + r)` around `t` (or all time), it contains `t` -/
theorem window_ok {cfg : Config} {t : Nat} {filters : Option Filters} {q : Query}
    (h : window cfg t filters = .ok q) (ht : t < maxT) :
    startOf q ≤ t ∧ t < stopOf q ∧
    q.filters = filtersOf filters := by
  unfold window at h
  simp only [] at h
  cases hr : subDirRes cfg.layout with
  | none =>
    rw [hr] at h
    simp only [Except.ok.injEq] at h
    subst h
    exact ⟨by simp [startOf], by simpa [stopOf] using ht, rfl⟩
  | some r =>
    rw [hr] at h
    simp only [] at h
    have hrpos : 0 < r := by
      unfold subDirRes at hr
      split at hr
      · cases hr
      · simp only [Option.some.injEq] at hr
        rw [← hr]
        cases resOfFields (cfg.layout.flatMap (·.fields)) <;> decide
    split at h
    · cases h
    · split at h
      · cases h
      · simp only [Except.ok.injEq] at h
        subst h
        exact ⟨by simp [startOf], by simp [stopOf]; omega, rfl⟩

end FS
